/-
  K10 — kernels of property C10 regenerated WITH THEIR LOOPS from /repo/oned on every run
  (`Gzx.Gen.K10`, translator kind `funcm`) and proved equal, for every input, to the hand-written model
  functions the theorems of Properties/C10.lean are about (`Gzx.CheckDigit`).  A source edit in one of
  these Go functions breaks the theorem that names it.
  Proof pattern (see Proofs/GoM.lean): body lemma by unfolding the generated body + normalising;
  loop → fold by a generic lemma; fold ↔ model by lemmas of Proofs/K10.lean that never mention `Gen`.
-/
import Gzx.Gen.K10
import Gzx.KernelGuard
import Gzx.Proofs.K10
namespace Gzx.Obligations.K10
open Gzx Gzx.GoM Gzx.CheckDigit Gzx.K10

theorem bytes_get_lt {s : List Nat} (hs : ∀ b ∈ s, b < 256) (i : Nat) (h : i < (bytes s).length) :
    ∃ v : Nat, v < 256 ∧ (bytes s)[i] = (v : Int) := by
  have h' : i < s.length := by simpa [bytes] using h
  exact ⟨s[i], hs _ (List.getElem_mem h'), bytes_getElem s i h⟩

theorem goCheckOf_eq_tmod (n : Nat) : goCheckOf n = Int.tmod (1000 - (n : Int)) 10 := by
  unfold goCheckOf
  split
  · rename_i h
    rw [Int.tmod_eq_emod_of_nonneg (by omega)]; omega
  · rename_i h
    have e : (1000 - (n : Int)) = -((n : Int) - 1000) := by omega
    rw [e, Int.neg_tmod, Int.tmod_eq_emod_of_nonneg (by omega)]; omega

/-! ## `upceanReader_getStandardUPCEANChecksum` -/

when_kernel Gzx.Gen.K10.getStandardUPCEANChecksum in
theorem k_getStandardUPCEANChecksum_body1 (s : List Nat) (hs : ∀ b ∈ s, b < 256)
    (i : Nat) (h : i < (bytes s).length) (st : Int) :
    Gen.K10.getStandardUPCEANChecksum_body1 (bytes s) (i : Int) st = gDigit (bytes s)[i] st := by
  obtain ⟨v, hv, e⟩ := bytes_get_lt hs i h
  unfold Gen.K10.getStandardUPCEANChecksum_body1
  rw [idx_ofNat _ _ h, e]
  have e8 : ((2 : Int) ^ 8) = 256 := by decide
  simp only [tryC, gDigit, wrap, e8]
  -- shape-robust: decide the model's digit test, then split the GENERATED test and let omega sort the
  -- branches (no dependence on the order / form of the Go comparisons or of the addition)
  by_cases c : (48 : Int) ≤ v ∧ (v : Int) ≤ 57 <;> simp only [c, if_true, if_false] <;> split <;> rename_i hc <;>
    (try simp only [Bool.or_eq_true, Bool.and_eq_true, decide_eq_true_eq, Bool.not_eq_true', decide_eq_false_iff_not] at hc) <;>
    first
    | (exfalso; omega)
    | rfl
    | (congr 1; omega)

when_kernel Gzx.Gen.K10.getStandardUPCEANChecksum in
theorem k_getStandardUPCEANChecksum_body2 (s : List Nat) (hs : ∀ b ∈ s, b < 256)
    (i : Nat) (h : i < (bytes s).length) (st : Int) :
    Gen.K10.getStandardUPCEANChecksum_body2 (bytes s) (i : Int) st = gDigit (bytes s)[i] st := by
  obtain ⟨v, hv, e⟩ := bytes_get_lt hs i h
  unfold Gen.K10.getStandardUPCEANChecksum_body2
  rw [idx_ofNat _ _ h, e]
  have e8 : ((2 : Int) ^ 8) = 256 := by decide
  simp only [tryC, gDigit, wrap, e8]
  -- shape-robust: decide the model's digit test, then split the GENERATED test and let omega sort the
  -- branches (no dependence on the order / form of the Go comparisons or of the addition)
  by_cases c : (48 : Int) ≤ v ∧ (v : Int) ≤ 57 <;> simp only [c, if_true, if_false] <;> split <;> rename_i hc <;>
    (try simp only [Bool.or_eq_true, Bool.and_eq_true, decide_eq_true_eq, Bool.not_eq_true', decide_eq_false_iff_not] at hc) <;>
    first
    | (exfalso; omega)
    | rfl
    | (congr 1; omega)

when_kernel Gzx.Gen.K10.getStandardUPCEANChecksum in
/-- `upceanReader_getStandardUPCEANChecksum(s)` = the model's `eanChecksumB s`, for EVERY byte string:
    FormatException iff some byte is not a digit, otherwise Go's `(1000 - Σ) % 10` of the 3/1-weighted sum -/
theorem k_getStandardUPCEANChecksum_eq (s : List Nat) (hs : ∀ b ∈ s, b < 256) :
    Gen.K10.getStandardUPCEANChecksum (bytes s) =
      .ok (match eanChecksumB s with
           | .ok v => (v, false)
           | .error _ => (0, true)) := by
  simp only [Gen.K10.getStandardUPCEANChecksum, len, bytes_length]
  rw [loop_down2' (bytes s) gDigit s.length (by simp [bytes]) (k_getStandardUPCEANChecksum_body1 s hs)
      (by rw [tripDown_two]; omega) (by omega)]
  rw [List.take_of_length_le (by simp [bytes]), bytes_reverse, foldC2_gDigit]
  have hall : (ok2 s.reverse && ok2 s.reverse.tail) = allDigits s := by
    rw [← all_eq_ok2, List.all_reverse]; rfl
  by_cases hl : s.length = 0
  · have : s = [] := List.length_eq_zero_iff.mp hl
    subst this; rfl
  have second : ∀ st : Int,
      loop (Gen.K10.getStandardUPCEANChecksum_body2 (bytes s)) (-2) (tripDown ((s.length : Int) - 2) (-1) 2)
        ((s.length : Int) - 2) st =
      if ok2 s.reverse.tail then .next (st + (sumE s.reverse.tail : Nat)) else .ret (0, true) := by
    intro st
    rw [loop_down2' (bytes s) gDigit (s.length - 1) (by simp [bytes]) (k_getStandardUPCEANChecksum_body2 s hs)
        (by rw [tripDown_two]; omega) (by omega)]
    rw [bytes_take, bytes_reverse, take_pred_reverse, foldC2_gDigit]
  by_cases hd : allDigits s = true
  · obtain ⟨ds, rfl, hlt⟩ := allDigits_exists s hd
    rw [hd, Bool.and_eq_true] at hall
    simp only [hall.1, hall.2, if_true, Ctl.thenR, second]
    rw [eanChecksumB_digitBytes ds hlt, eanCheckDigit, goCheckOf_eq_tmod, eanSum_eq,
      digitBytes_reverse, digitBytes_tail, sumE_digitBytes, sumE_digitBytes]
    simp only [Int.natCast_add, Int.natCast_mul]
    congr 3; omega
  · have hnone : digits? s = none := by
      cases h : digits? s with
      | none => rfl
      | some ds => exact absurd ((digits?_some_iff s).mp ⟨ds, h⟩) hd
    simp only [eanChecksumB, hnone]
    by_cases h1 : ok2 s.reverse = true
    · have h2 : ok2 s.reverse.tail = false := by
        rw [h1, Bool.true_and] at hall
        rw [hall]; simpa using hd
      simp only [h1, h2, if_true, Ctl.thenR, second, Bool.false_eq_true, if_false]
    · simp [h1, Ctl.thenR]

/-! ## `upceanReader_checkStandardUPCEANChecksum` (calls the translated `getStandardUPCEANChecksum`) -/

when_kernel Gzx.Gen.K10.checkStandardUPCEANChecksum in
/-- `checkStandardUPCEANChecksum(s)` = the model's `checkStandardB s` for every byte string: empty → false;
    otherwise the last byte minus '0' (byte arithmetic, no digit test) against the checksum of the rest;
    FormatException iff the rest contains a non-digit -/
theorem k_checkStandardUPCEANChecksum_eq (s : List Nat) (hs : ∀ b ∈ s, b < 256) :
    Gen.K10.checkStandardUPCEANChecksum (bytes s) =
      .ok (match checkStandardB s with
           | .ok b => (b, false)
           | .error _ => (false, true)) := by
  rcases List.eq_nil_or_concat s with rfl | ⟨t, last, rfl⟩
  · rfl
  have hlast : last < 256 := hs last (by simp)
  have ht : ∀ b ∈ t, b < 256 := fun b hb => hs b (by simp [hb])
  have hn : (((t.concat last).length : Nat) : Int) = (t.length : Int) + 1 := by simp
  have e1 : (t.length : Int) + 1 - 1 = t.length := by omega
  have hne : ((t.length : Int) + 1 == 0) = false := by
    rw [beq_eq_false_iff_ne]; omega
  have hidx : idx (bytes (t.concat last)) (t.length : Int) = .ok (last : Int) := by
    rw [idx_ofNat _ _ (by simp [bytes])]
    simp [bytes]
  have hsl : slice (bytes (t.concat last)) 0 (t.length : Int) = .ok (bytes t) := by
    rw [slice_zero _ _ (by omega) (by simp [bytes]; omega)]
    simp [bytes]
  simp only [Gen.K10.checkStandardUPCEANChecksum, len, bytes_length, hn, e1, hne, hidx, hsl, tryR,
    k_getStandardUPCEANChecksum_eq t ht, Bool.false_eq_true, if_false]
  simp only [checkStandardB, List.concat_eq_append, List.getLast?_concat, List.dropLast_concat]
  cases eanChecksumB t with
  | error e => simp
  | ok v =>
    have e8 : ((2 : Int) ^ 8) = 256 := by decide
    simp only [wrap, e8, byteMinus0]
    have : ((last : Int) - 48) % 256 = (((last + 208) % 256 : Nat) : Int) := by omega
    simp [this]

/-! ## Code 93: `code93ComputeChecksumIndex` (writer) and `code93CheckOneChecksum` (reader) -/

/-- alphabet index of a byte, as the Go code computes it (`strings.Index(code93AlphabetString, string(b))`) -/
def code93 (b : Nat) : Nat := (strIndexByte Gen.K10.tbl_code93AlphabetString (b : Int)).toNat

/-- the byte is a Code 93 alphabet character -/
def in93 (b : Nat) : Prop := 0 ≤ strIndexByte Gen.K10.tbl_code93AlphabetString (b : Int)

theorem code93_cast {b : Nat} (h : in93 b) :
    strIndexByte Gen.K10.tbl_code93AlphabetString (b : Int) = (code93 b : Int) := by
  unfold code93 in93 at *; omega

when_kernel Gzx.Gen.K10.code93ComputeChecksumIndex in
theorem k_code93ComputeChecksumIndex_body (s : List Nat) (maxW : Int) (i : Nat) (h : i < (bytes s).length)
    (st : Int × Int) :
    Gen.K10.code93ComputeChecksumIndex_body1 (bytes s) maxW (i : Int) st =
      g93 maxW (strIndexByte Gen.K10.tbl_code93AlphabetString (bytes s)[i]) st := by
  unfold Gen.K10.code93ComputeChecksumIndex_body1
  rw [idx_ofNat _ _ h]
  simp only [tryC, g93]
  by_cases c : st.1 + 1 > maxW <;> simp [c, Int.mul_comm]

when_kernel Gzx.Gen.K10.code93ComputeChecksumIndex in
/-- `code93ComputeChecksumIndex(contents, maxWeight)` = the model's `c93Check maxWeight` of the alphabet
    indices, for every string over the Code 93 alphabet and every `maxWeight` -/
theorem k_code93ComputeChecksumIndex_eq (s : List Nat) (hin : ∀ b ∈ s, in93 b) (maxW : Nat) :
    Gen.K10.code93ComputeChecksumIndex (bytes s) (maxW : Int) =
      .ok ((c93Check maxW (s.map code93) : Nat) : Int) := by
  simp only [Gen.K10.code93ComputeChecksumIndex, len, bytes_length]
  rw [loop_down1' (bytes s) (fun v st => g93 (maxW : Int) (strIndexByte Gen.K10.tbl_code93AlphabetString v) st)
      s.length (by simp [bytes]) (k_code93ComputeChecksumIndex_body s maxW)
      (by rw [tripDown_one]; omega) (by omega)]
  rw [List.take_of_length_le (by simp [bytes]), bytes_reverse]
  obtain ⟨w', hw'⟩ := foldC_g93 (ρ := Int) (strIndexByte Gen.K10.tbl_code93AlphabetString) code93 s.reverse
    (fun b hb => code93_cast (hin b (by simpa using hb))) maxW 1 0
  simp only [Int.natCast_one] at hw'
  rw [hw']
  simp only [Ctl.thenR, c93Check, List.map_reverse, Int.zero_add, tmod_natCast_emod]
  congr 1

when_kernel Gzx.Gen.K10.code93CheckOneChecksum in
theorem k_code93CheckOneChecksum_body (s : List Nat) (maxW : Int) (i : Nat) (h : i < (bytes s).length)
    (st : Int × Int) :
    Gen.K10.code93CheckOneChecksum_body1 (bytes s) maxW (i : Int) st =
      g93 maxW (strIndexByte Gen.K10.tbl_code93AlphabetString (bytes s)[i]) st := by
  unfold Gen.K10.code93CheckOneChecksum_body1
  rw [idx_ofNat _ _ h]
  simp only [tryC, g93]
  by_cases c : st.1 + 1 > maxW <;> simp [c, Int.mul_comm]

when_kernel Gzx.Gen.K10.code93CheckOneChecksum in
/-- `code93CheckOneChecksum(result, p, maxWeight)` fails (ChecksumException) iff the byte at `p` differs
    from the alphabet character of `c93Check maxWeight` over the `p` characters before it -/
theorem k_code93CheckOneChecksum_eq (s : List Nat) (p : Nat) (hp : p < s.length)
    (hin : ∀ b ∈ s.take p, in93 b) (maxW : Nat) :
    Gen.K10.code93CheckOneChecksum (bytes s) (p : Int) (maxW : Int) =
      tryR (idx Gen.K10.tbl_code93Alphabet ((c93Check maxW ((s.take p).map code93) : Nat) : Int))
        (fun t => .ok ((s[p] : Int) != t)) := by
  simp only [Gen.K10.code93CheckOneChecksum]
  rw [loop_down1' (bytes s) (fun v st => g93 (maxW : Int) (strIndexByte Gen.K10.tbl_code93AlphabetString v) st)
      p (by simp [bytes]; omega) (k_code93CheckOneChecksum_body s maxW)
      (by rw [tripDown_one]; omega) (by omega)]
  rw [bytes_take, bytes_reverse]
  obtain ⟨w', hw'⟩ := foldC_g93 (ρ := Bool) (strIndexByte Gen.K10.tbl_code93AlphabetString) code93 (s.take p).reverse
    (fun b hb => code93_cast (hin b (by simpa using hb))) maxW 1 0
  simp only [Int.natCast_one] at hw'
  rw [hw']
  have hi : idx (bytes s) (p : Int) = .ok (s[p] : Int) := by
    rw [idx_ofNat _ _ (by simpa [bytes] using hp)]; simp [bytes]
  simp only [Ctl.thenR, hi, tryR, c93Check, List.map_reverse, Int.zero_add, tmod_natCast_emod]
  have e : ((c93SumRev maxW 1 (List.map code93 (List.take p s)).reverse : Nat) : Int) % 47 =
      ((c93SumRev maxW 1 (List.map code93 (List.take p s)).reverse % 47 : Nat) : Int) := by omega
  rw [e]
  generalize idx Gen.K10.tbl_code93Alphabet _ = r
  cases r with
  | error e => rfl
  | ok t => simp only; split <;> simp_all

/-- the two inlined alphabets are the regenerated `code93AlphabetString` (the table C10's obligations
    show to have 48 distinct characters, '*' last) -/
theorem k_code93_tables :
    Gen.K10.tbl_code93AlphabetString = Gen.K10.tbl_code93Alphabet ∧
    Gen.K10.tbl_code93Alphabet.length = 48 := by decide

/-- every alphabet position is found again by the index function (so `code93` inverts the alphabet) -/
theorem k_code93_index_inverts :
    (List.range 48).all (fun v => (Gen.K10.tbl_code93AlphabetString[v]?).any (fun b =>
      strIndexByte Gen.K10.tbl_code93AlphabetString b == (v : Int))) = true := by decide +kernel

/-! ## EAN-5 add-on: `extensionChecksum`, `determineCheckDigit` -/

theorem digit_get {ds : List Nat} (hd : ∀ d ∈ ds, d < 10) (i : Nat) (h : i < (bytes (digitBytes ds)).length) :
    ∃ v : Nat, v < 10 ∧ (bytes (digitBytes ds))[i] = ((v + 48 : Nat) : Int) := by
  have h' : i < ds.length := by simpa [bytes, digitBytes] using h
  exact ⟨ds[i], hd _ (List.getElem_mem h'), by simp [bytes, digitBytes]⟩

when_kernel Gzx.Gen.K10.extensionChecksum in
theorem k_extensionChecksum_body1 (ds : List Nat) (hd : ∀ d ∈ ds, d < 10)
    (i : Nat) (h : i < (bytes (digitBytes ds)).length) (st : Int) :
    Gen.K10.extensionChecksum_body1 (bytes (digitBytes ds)) (i : Int) st = gPlain (bytes (digitBytes ds))[i] st := by
  obtain ⟨v, hv, e⟩ := digit_get hd i h
  unfold Gen.K10.extensionChecksum_body1
  rw [idx_ofNat _ _ h, e]
  have e8 : ((2 : Int) ^ 8) = 256 := by decide
  simp only [tryC, gPlain, wrap, e8]
  try (congr 2; omega)

when_kernel Gzx.Gen.K10.extensionChecksum in
theorem k_extensionChecksum_body2 (ds : List Nat) (hd : ∀ d ∈ ds, d < 10)
    (i : Nat) (h : i < (bytes (digitBytes ds)).length) (st : Int) :
    Gen.K10.extensionChecksum_body2 (bytes (digitBytes ds)) (i : Int) st = gPlain (bytes (digitBytes ds))[i] st := by
  obtain ⟨v, hv, e⟩ := digit_get hd i h
  unfold Gen.K10.extensionChecksum_body2
  rw [idx_ofNat _ _ h, e]
  have e8 : ((2 : Int) ^ 8) = 256 := by decide
  simp only [tryC, gPlain, wrap, e8]
  try (congr 2; omega)

when_kernel Gzx.Gen.K10.extensionChecksum in
/-- `extensionChecksum(s)` of a digit string = the model's `ext5Checksum` (weights 3, 9, 3, 9 … from the right) -/
theorem k_extensionChecksum_eq (ds : List Nat) (hd : ∀ d ∈ ds, d < 10) :
    Gen.K10.extensionChecksum (bytes (digitBytes ds)) = .ok ((ext5Checksum ds : Nat) : Int) := by
  by_cases hl : ds.length = 0
  · have : ds = [] := List.length_eq_zero_iff.mp hl
    subst this; rfl
  have hlen : (bytes (digitBytes ds)).length = ds.length := by simp [bytes, digitBytes]
  simp only [Gen.K10.extensionChecksum, len, hlen]
  rw [loop_down2' (bytes (digitBytes ds)) gPlain (ds.length - 1) (by omega) (k_extensionChecksum_body1 ds hd)
      (by rw [tripDown_two]; omega) (by omega)]
  have e1 : ds.length - 1 = (digitBytes ds).length - 1 := by simp [digitBytes]
  rw [bytes_take, bytes_reverse, e1, take_pred_reverse, digitBytes_reverse, digitBytes_tail, foldC2_gPlain_digits]
  simp only [Ctl.thenR]
  rw [loop_down2' (bytes (digitBytes ds)) gPlain ds.length (by omega) (k_extensionChecksum_body2 ds hd)
      (by rw [tripDown_two]; omega) (by omega)]
  rw [List.take_of_length_le (by omega), bytes_reverse, digitBytes_reverse, foldC2_gPlain_digits]
  simp only [ext5Checksum_eq]
  have e : (((0 : Int) + (evens ds.reverse.tail : Nat)) * 3 + (evens ds.reverse : Nat)) * 3 =
      ((3 * evens ds.reverse + 9 * evens ds.reverse.tail : Nat) : Int) := by omega
  rw [e, tmod_natCast_emod]
  congr 1

/-- the inlined `checkDigitEncodings` as naturals -/
def ean5Table : List Nat := Gen.K10.tbl_checkDigitEncodings.map Int.toNat

theorem ean5Table_cast : Gen.K10.tbl_checkDigitEncodings = ean5Table.map Int.ofNat := by decide

when_kernel Gzx.Gen.K10.determineCheckDigit in
theorem k_determineCheckDigit_body (lg : Nat) (i : Nat) (h : i < ean5Table.length) :
    Gen.K10.determineCheckDigit_body1 (lg : Int) (i : Int) () =
      if ean5Table[i] = lg then .ret ((i : Int), false) else .next () := by
  unfold Gen.K10.determineCheckDigit_body1
  rw [ean5Table_cast, idx_ofNat _ _ (by simpa using h)]
  simp only [tryC, List.getElem_map, Int.ofNat_eq_natCast]
  by_cases c : ean5Table[i] = lg
  · simp [c]
  · have : ¬ (lg : Int) = (ean5Table[i] : Int) := by omega
    simp [c, this]

when_kernel Gzx.Gen.K10.determineCheckDigit in
/-- `determineCheckDigit(lgPatternFound)` = the model's table scan over the table the function reads
    (NotFound iff no entry matches); `gen_ean5_parity_is_standard` (Obligations/C10) says which table -/
theorem k_determineCheckDigit_eq (lg : Nat) :
    Gen.K10.determineCheckDigit (lg : Int) =
      .ok (match determineCheckDigit5 ean5Table lg with
           | .ok d => ((d : Int), false)
           | .error _ => (0, true)) := by
  have hl : ean5Table.length = 10 := by decide
  simp only [Gen.K10.determineCheckDigit]
  have := loop_scan ean5Table lg (Gen.K10.determineCheckDigit_body1 (lg : Int)) (k_determineCheckDigit_body lg)
    10 0 (by omega)
  have e0 : (((0 : Nat) : Int)) = 0 := rfl
  have et : tripUp 0 10 1 = 10 := by decide
  rw [e0] at this
  rw [et, this]
  simp only [determineCheckDigit5, scan10, List.drop_zero, hl, Nat.lt_irrefl, if_false]
  cases indexOf? lg (List.take 10 ean5Table) with
  | none => rfl
  | some d => simp [Ctl.thenR]

/-- the table `determineCheckDigit` reads is the regenerated `checkDigitEncodings` of C10 -/
theorem k_ean5_table_is_generated :
    some ean5Table = (Gen.K10.tbl_checkDigitEncodings.mapM (fun n : Int => if n ≥ 0 then some n.toNat else none)) := by
  decide

end Gzx.Obligations.K10
