/-
  K10 — kernels of property C10 regenerated WITH THEIR LOOPS from /repo/oned on every run
  (`Gzx.Gen.K10`, translator kind `funcm`) and proved equal, for every input, to the hand-written model
  functions the theorems of Properties/C10.lean are about (`Gzx.CheckDigit`).  A source edit in one of
  these Go functions breaks the theorem that names it.
  Proof pattern (see Proofs/GoM.lean): body lemma by unfolding the generated body + normalising;
  loop → fold by a generic lemma; fold ↔ model by lemmas of Proofs/K10.lean that never mention `Gen`.
-/
import Gzx.Gen.K10
import Gzx.KernelGuard
import Gzx.Proofs.K10
namespace Gzx.Obligations.K10
open Gzx Gzx.GoM Gzx.CheckDigit Gzx.K10

theorem bytes_get_lt {s : List Nat} (hs : ∀ b ∈ s, b < 256) (i : Nat) (h : i < (bytes s).length) :
    ∃ v : Nat, v < 256 ∧ (bytes s)[i] = (v : Int) := by
  have h' : i < s.length := by simpa [bytes] using h
  exact ⟨s[i], hs _ (List.getElem_mem h'), bytes_getElem s i h⟩

theorem goCheckOf_eq_tmod (n : Nat) : goCheckOf n = Int.tmod (1000 - (n : Int)) 10 := by
  unfold goCheckOf
  split
  · rename_i h
    rw [Int.tmod_eq_emod_of_nonneg (by omega)]; omega
  · rename_i h
    have e : (1000 - (n : Int)) = -((n : Int) - 1000) := by omega
    rw [e, Int.neg_tmod, Int.tmod_eq_emod_of_nonneg (by omega)]; omega

/-! ## `upceanReader_getStandardUPCEANChecksum` -/

when_kernel Gzx.Gen.K10.getStandardUPCEANChecksum in
theorem k_getStandardUPCEANChecksum_body1 (s : List Nat) (hs : ∀ b ∈ s, b < 256)
    (i : Nat) (h : i < (bytes s).length) (st : Int) :
    Gen.K10.getStandardUPCEANChecksum_body1 (bytes s) (i : Int) st = gDigit (bytes s)[i] st := by
  obtain ⟨v, hv, e⟩ := bytes_get_lt hs i h
  unfold Gen.K10.getStandardUPCEANChecksum_body1
  rw [idx_ofNat _ _ h, e]
  have e8 : ((2 : Int) ^ 8) = 256 := by decide
  simp only [tryC, gDigit, wrap, e8]
  by_cases c : (48 : Int) ≤ v ∧ (v : Int) ≤ 57
  · have h1 : ((v : Int) - 48) % 256 = v - 48 := by omega
    simp [c, h1]; omega
  · have h1 : ((v : Int) - 48) % 256 > 9 := by omega
    simp [c, h1]

when_kernel Gzx.Gen.K10.getStandardUPCEANChecksum in
theorem k_getStandardUPCEANChecksum_body2 (s : List Nat) (hs : ∀ b ∈ s, b < 256)
    (i : Nat) (h : i < (bytes s).length) (st : Int) :
    Gen.K10.getStandardUPCEANChecksum_body2 (bytes s) (i : Int) st = gDigit (bytes s)[i] st := by
  obtain ⟨v, hv, e⟩ := bytes_get_lt hs i h
  unfold Gen.K10.getStandardUPCEANChecksum_body2
  rw [idx_ofNat _ _ h, e]
  have e8 : ((2 : Int) ^ 8) = 256 := by decide
  simp only [tryC, gDigit, wrap, e8]
  by_cases c : (48 : Int) ≤ v ∧ (v : Int) ≤ 57
  · have h1 : ((v : Int) - 48) % 256 = v - 48 := by omega
    simp [c, h1]; omega
  · have h1 : ((v : Int) - 48) % 256 > 9 := by omega
    simp [c, h1]

when_kernel Gzx.Gen.K10.getStandardUPCEANChecksum in
/-- `upceanReader_getStandardUPCEANChecksum(s)` = the model's `eanChecksumB s`, for EVERY byte string:
    FormatException iff some byte is not a digit, otherwise Go's `(1000 - Σ) % 10` of the 3/1-weighted sum -/
theorem k_getStandardUPCEANChecksum_eq (s : List Nat) (hs : ∀ b ∈ s, b < 256) :
    Gen.K10.getStandardUPCEANChecksum (bytes s) =
      .ok (match eanChecksumB s with
           | .ok v => (v, false)
           | .error _ => (0, true)) := by
  simp only [Gen.K10.getStandardUPCEANChecksum, len, bytes_length]
  rw [loop_down2' (bytes s) gDigit s.length (by simp [bytes]) (k_getStandardUPCEANChecksum_body1 s hs)
      (by rw [tripDown_two]; omega) (by omega)]
  rw [List.take_of_length_le (by simp [bytes]), bytes_reverse, foldC2_gDigit]
  have hall : (ok2 s.reverse && ok2 s.reverse.tail) = allDigits s := by
    rw [← all_eq_ok2, List.all_reverse]; rfl
  by_cases hl : s.length = 0
  · have : s = [] := List.length_eq_zero_iff.mp hl
    subst this; rfl
  have second : ∀ st : Int,
      loop (Gen.K10.getStandardUPCEANChecksum_body2 (bytes s)) (-2) (tripDown ((s.length : Int) - 2) (-1) 2)
        ((s.length : Int) - 2) st =
      if ok2 s.reverse.tail then .next (st + (sumE s.reverse.tail : Nat)) else .ret (0, true) := by
    intro st
    rw [loop_down2' (bytes s) gDigit (s.length - 1) (by simp [bytes]) (k_getStandardUPCEANChecksum_body2 s hs)
        (by rw [tripDown_two]; omega) (by omega)]
    rw [bytes_take, bytes_reverse, take_pred_reverse, foldC2_gDigit]
  by_cases hd : allDigits s = true
  · obtain ⟨ds, rfl, hlt⟩ := allDigits_exists s hd
    rw [hd, Bool.and_eq_true] at hall
    simp only [hall.1, hall.2, if_true, Ctl.thenR, second]
    rw [eanChecksumB_digitBytes ds hlt, eanCheckDigit, goCheckOf_eq_tmod, eanSum_eq,
      digitBytes_reverse, digitBytes_tail, sumE_digitBytes, sumE_digitBytes]
    simp only [Int.natCast_add, Int.natCast_mul]
    congr 3; omega
  · have hnone : digits? s = none := by
      cases h : digits? s with
      | none => rfl
      | some ds => exact absurd ((digits?_some_iff s).mp ⟨ds, h⟩) hd
    simp only [eanChecksumB, hnone]
    by_cases h1 : ok2 s.reverse = true
    · have h2 : ok2 s.reverse.tail = false := by
        rw [h1, Bool.true_and] at hall
        rw [hall]; simpa using hd
      simp only [h1, h2, if_true, Ctl.thenR, second, Bool.false_eq_true, if_false]
    · simp [h1, Ctl.thenR]

/-! ## `upceanReader_checkStandardUPCEANChecksum` (calls the translated `getStandardUPCEANChecksum`) -/

when_kernel Gzx.Gen.K10.checkStandardUPCEANChecksum in
/-- `checkStandardUPCEANChecksum(s)` = the model's `checkStandardB s` for every byte string: empty → false;
    otherwise the last byte minus '0' (byte arithmetic, no digit test) against the checksum of the rest;
    FormatException iff the rest contains a non-digit -/
theorem k_checkStandardUPCEANChecksum_eq (s : List Nat) (hs : ∀ b ∈ s, b < 256) :
    Gen.K10.checkStandardUPCEANChecksum (bytes s) =
      .ok (match checkStandardB s with
           | .ok b => (b, false)
           | .error _ => (false, true)) := by
  rcases List.eq_nil_or_concat s with rfl | ⟨t, last, rfl⟩
  · rfl
  have hlast : last < 256 := hs last (by simp)
  have ht : ∀ b ∈ t, b < 256 := fun b hb => hs b (by simp [hb])
  have hn : (((t.concat last).length : Nat) : Int) = (t.length : Int) + 1 := by simp
  have e1 : (t.length : Int) + 1 - 1 = t.length := by omega
  have hne : ((t.length : Int) + 1 == 0) = false := by
    rw [beq_eq_false_iff_ne]; omega
  have hidx : idx (bytes (t.concat last)) (t.length : Int) = .ok (last : Int) := by
    rw [idx_ofNat _ _ (by simp [bytes])]
    simp [bytes]
  have hsl : slice (bytes (t.concat last)) 0 (t.length : Int) = .ok (bytes t) := by
    rw [slice_zero _ _ (by omega) (by simp [bytes]; omega)]
    simp [bytes]
  simp only [Gen.K10.checkStandardUPCEANChecksum, len, bytes_length, hn, e1, hne, hidx, hsl, tryR,
    k_getStandardUPCEANChecksum_eq t ht, Bool.false_eq_true, if_false]
  simp only [checkStandardB, List.concat_eq_append, List.getLast?_concat, List.dropLast_concat]
  cases eanChecksumB t with
  | error e => simp
  | ok v =>
    have e8 : ((2 : Int) ^ 8) = 256 := by decide
    simp only [wrap, e8, byteMinus0]
    have : ((last : Int) - 48) % 256 = (((last + 208) % 256 : Nat) : Int) := by omega
    simp [this]

end Gzx.Obligations.K10
