/-
  K11 — Aztec `totalBitsInLayer`, regenerated from /repo on every run (`Gzx.Gen.K11`) and proved equal to
  the model function of Model/AztecDecoder.lean for all arguments (property C11).
-/
import Gzx.Gen.K11
import Gzx.KernelGuard
import Gzx.Model.AztecDecoder
namespace Gzx.Obligations.K11
open Gzx

when_kernel Gzx.Gen.K11.totalBitsInLayer in
/-- `totalBitsInLayer(layers, compact)` = `((compact ? 88 : 112) + 16·layers)·layers` -/
theorem k_totalBitsInLayer_eq (layers : Nat) (compact : Bool) :
    Gen.K11.totalBitsInLayer layers compact = (AztecDecoder.totalBitsInLayer layers compact : Nat) := by
  cases compact <;> simp [Gen.K11.totalBitsInLayer, AztecDecoder.totalBitsInLayer]

end Gzx.Obligations.K11
