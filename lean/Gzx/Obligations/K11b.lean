/-
  K11b — the Aztec decoder's bit primitives regenerated from /repo on every run (`Gzx.Gen.K11b`, translator/ext_k11b.go)
  and proved equal to the hand-written model `Model/AztecDecoder.lean` FOR ALL ARGUMENTS (properties C11, C06):
  `readCode`, `totalBitsInLayer`, `readByte` + `convertBoolArrayToByteArray`.

  A Go `[]bool` is a `List Int` of 0 / 1 in the kernels (`boolsOf xs` is the Go slice a kernel list stands for, any
  non-zero entry reads as true; `bitsI bs` is how a Go slice is handed to / comes back from a kernel).
-/
import Gzx.Gen.K11b
import Gzx.KernelGuard
import Gzx.Model.AztecDecoder
import Gzx.Proofs.GoMTie
namespace Gzx.Obligations.K11b
open Gzx Gzx.GoM Gzx.GoVal

/-- a Go `[]bool` as a kernel list -/
def bitsI (bs : List Bool) : List Int := bs.map b2i
/-- the Go `[]bool` a kernel list stands for -/
def boolsOf (xs : List Int) : List Bool := xs.map (· != 0)

@[simp] theorem bitsI_length (bs : List Bool) : (bitsI bs).length = bs.length := by simp [bitsI]
@[simp] theorem boolsOf_length (xs : List Int) : (boolsOf xs).length = xs.length := by simp [boolsOf]
@[simp] theorem boolsOf_bitsI (bs : List Bool) : boolsOf (bitsI bs) = bs := by
  induction bs with
  | nil => rfl
  | cons b bs ih =>
    simp only [boolsOf, bitsI, List.map_cons, List.map_map] at ih ⊢
    rw [ih]; cases b <;> simp [b2i]

theorem shl1_or1 (a : Nat) : (a <<< 1) ||| 1 = 2 * a + 1 := by
  rw [Nat.shiftLeft_eq]
  apply Nat.eq_of_testBit_eq
  intro i
  rw [Nat.testBit_or]
  cases i with
  | zero => simp [Nat.testBit_zero]
  | succ i =>
    simp only [Nat.testBit_succ]
    have h1 : (2 * a + 1) / 2 = a := by omega
    have h2 : a * 2 ^ 1 / 2 = a := by omega
    simp [h1, h2]

/-- one step of the model's `readCode` fold -/
def rcStep (acc : Nat) (b : Bool) : Nat := 2 * acc + (if b then 1 else 0)

theorem model_readCode_eq (bs : List Bool) : AztecDecoder.readCode bs = bs.foldl rcStep 0 := rfl

/-! ## readCode -/

when_kernel Gzx.Gen.K11b.readCode in
/-- one iteration: `res <<= 1; if rawbits[i] { res |= 1 }` on an index in range -/
theorem readCode_body_in (xs : List Int) (i : Nat) (h : i < xs.length) (acc : Nat) :
    Gen.K11b.readCode_body1 xs (i : Int) (acc : Int) = .next ((rcStep acc (xs[i] != 0) : Nat) : Int) := by
  unfold Gen.K11b.readCode_body1
  rw [idx_ofNat xs i h]
  simp only [tryC_ok]
  have e1 : GoVal.ishl (acc : Int) 1 = ((acc <<< 1 : Nat) : Int) := ishl_natCast acc 1
  rw [e1]
  by_cases hb : (xs[i] != 0) = true
  · have e2 : GoVal.ior ((acc <<< 1 : Nat) : Int) 1 = (((acc <<< 1) ||| 1 : Nat) : Int) := ior_natCast _ 1
    simp only [hb, if_true, e2, rcStep, shl1_or1]
  · simp only [hb, rcStep, Nat.shiftLeft_eq]
    simp; omega

when_kernel Gzx.Gen.K11b.readCode in
/-- the loop on a range that lies inside the slice -/
theorem readCode_loop_in (xs : List Int) : ∀ (n a acc : Nat), a + n ≤ xs.length →
    loop (Gen.K11b.readCode_body1 xs) 1 n (a : Int) (acc : Int)
      = .next (((((boolsOf xs).drop a).take n).foldl rcStep acc : Nat) : Int) := by
  intro n
  induction n with
  | zero => intro a acc _; simp [loop]
  | succ n ih =>
    intro a acc h
    have ha : a < xs.length := by omega
    rw [loop_succ, readCode_body_in xs a ha acc]
    have e : (a : Int) + 1 = ((a + 1 : Nat) : Int) := by omega
    simp only [e]
    rw [ih (a + 1) _ (by omega)]
    have hd : (boolsOf xs).drop a = (xs[a] != 0) :: (boolsOf xs).drop (a + 1) := by
      rw [List.drop_eq_getElem_cons (by simpa using ha)]
      simp [boolsOf]
    rw [hd]; simp [List.take_succ_cons]

when_kernel Gzx.Gen.K11b.readCode in
/-- the loop on a non-empty range that leaves the slice: Go panics with an index error -/
theorem readCode_loop_out (xs : List Int) : ∀ (n : Nat) (a : Int) (acc : Nat), 0 < n → (a < 0 ∨ (xs.length : Int) < a + n) →
    loop (Gen.K11b.readCode_body1 xs) 1 n a (acc : Int) = (.panic oob : Ctl Int Int) := by
  intro n
  induction n with
  | zero => intro a acc h; omega
  | succ n ih =>
    intro a acc _ h
    rw [loop_succ]
    by_cases hneg : a < 0
    · unfold Gen.K11b.readCode_body1; rw [idx_neg xs a hneg]; rfl
    · by_cases hge : (xs.length : Int) ≤ a
      · unfold Gen.K11b.readCode_body1; rw [idx_ge xs a hge]; rfl
      · obtain ⟨k, rfl⟩ := Int.eq_ofNat_of_zero_le (by omega : 0 ≤ a)
        have hk : k < xs.length := by omega
        rw [readCode_body_in xs k hk acc]
        simp only []
        exact ih ((k : Int) + 1) _ (by omega) (by omega)

when_kernel Gzx.Gen.K11b.readCode in
/-- `readCode(rawbits, startIndex, length)` for ALL arguments: an empty range reads 0; a non-empty range inside the slice
    reads the model's big-endian value of `rawbits[startIndex : startIndex+length]`; any other range panics (index out
    of range) -/
theorem k_readCode_eq (xs : List Int) (s l : Int) :
    Gen.K11b.readCode xs s l =
      if l ≤ 0 then .ok 0
      else if 0 ≤ s ∧ s + l ≤ (xs.length : Int) then
        .ok ((AztecDecoder.readCode (((boolsOf xs).drop s.toNat).take l.toNat) : Nat) : Int)
      else .error oob := by
  unfold Gen.K11b.readCode
  rw [tripUp_one]
  have e : s + l - s = l := by omega
  rw [e]
  by_cases hl : l ≤ 0
  · have : l.toNat = 0 := by omega
    simp [hl, this, loop]
  · simp only [hl, if_false]
    by_cases hin : 0 ≤ s ∧ s + l ≤ (xs.length : Int)
    · obtain ⟨a, rfl⟩ := Int.eq_ofNat_of_zero_le hin.1
      obtain ⟨n, rfl⟩ := Int.eq_ofNat_of_zero_le (by omega : 0 ≤ l)
      have := readCode_loop_in xs n a 0 (by omega)
      simp only [Int.toNat_natCast, hin, and_self, if_true]
      rw [show ((0 : Int)) = ((0 : Nat) : Int) from rfl, this]
      simp [model_readCode_eq]
    · simp only [hin, if_false]
      have := readCode_loop_out xs l.toNat s 0 (by omega) (by omega)
      rw [show ((0 : Int)) = ((0 : Nat) : Int) from rfl, this]
      rfl

/-- non-vacuity: all three cases occur -/
example : Gen.K11b.readCode (bitsI [true, false, true, true]) 1 3 = .ok 3
    ∧ Gen.K11b.readCode (bitsI [true, false]) 1 0 = .ok 0
    ∧ Gen.K11b.readCode (bitsI [true, false]) 1 2 = .error oob := by decide

/-! ## readByte, convertBoolArrayToByteArray -/

theorem foldl_rcStep_lt (bs : List Bool) : ∀ acc k, acc < 2 ^ k → bs.foldl rcStep acc < 2 ^ (k + bs.length) := by
  induction bs with
  | nil => intro acc k h; simpa using h
  | cons b bs ih =>
    intro acc k h
    simp only [List.foldl_cons, List.length_cons]
    have h2 : rcStep acc b < 2 ^ (k + 1) := by
      unfold rcStep; rw [Nat.pow_succ]; split <;> omega
    have := ih _ _ h2
    rw [show k + (bs.length + 1) = k + 1 + bs.length by omega]; exact this

theorem model_readCode_lt (bs : List Bool) : AztecDecoder.readCode bs < 2 ^ bs.length := by
  have := foldl_rcStep_lt bs 0 0 (by decide)
  simpa [model_readCode_eq] using this

/-- byte `i` of the packed array: 8 bits from position `8i`, the last byte zero-padded on the right -/
def byteAt (bs : List Bool) (i : Nat) : Nat :=
  let h := (bs.drop (8 * i)).take 8
  AztecDecoder.readCode h * 2 ^ (8 - h.length)

theorem byteAt_lt (bs : List Bool) (i : Nat) : byteAt bs i < 256 := by
  show AztecDecoder.readCode ((bs.drop (8 * i)).take 8) * 2 ^ (8 - ((bs.drop (8 * i)).take 8).length) < 256
  have hl : ((bs.drop (8 * i)).take 8).length ≤ 8 := by simp; omega
  have h1 := model_readCode_lt ((bs.drop (8 * i)).take 8)
  generalize ((bs.drop (8 * i)).take 8).length = n at *
  generalize AztecDecoder.readCode ((bs.drop (8 * i)).take 8) = r at *
  have : r * 2 ^ (8 - n) < 2 ^ n * 2 ^ (8 - n) := Nat.mul_lt_mul_of_pos_right h1 (Nat.two_pow_pos _)
  rw [← Nat.pow_add, show n + (8 - n) = 8 by omega] at this
  exact this

when_kernel Gzx.Gen.K11b.readByte in
/-- `readByte(bits, 8i)` for a start inside the slice -/
theorem k_readByte_eq (xs : List Int) (i : Nat) (h : 8 * i < xs.length) :
    Gen.K11b.readByte xs ((8 * i : Nat) : Int) = .ok ((byteAt (boolsOf xs) i : Nat) : Int) := by
  unfold Gen.K11b.readByte
  have hb := byteAt_lt (boolsOf xs) i
  by_cases h8 : 8 * i + 8 ≤ xs.length
  · have c : decide (len xs - ((8 * i : Nat) : Int) ≥ 8) = true := by simp [len]; omega
    simp only [c, if_true]
    rw [k_readCode_eq]
    have c2 : (0 : Int) ≤ ((8 * i : Nat) : Int) ∧ ((8 * i : Nat) : Int) + 8 ≤ (xs.length : Int) := by omega
    simp only [c2, and_self, if_true, show ¬ ((8 : Int) ≤ 0) by decide, if_false, tryR_ok, Int.toNat_natCast]
    have hlen : (((boolsOf xs).drop (8 * i)).take 8).length = 8 := by simp; omega
    have e : byteAt (boolsOf xs) i = AztecDecoder.readCode (((boolsOf xs).drop (8 * i)).take 8) := by
      simp only [byteAt, hlen]; simp
    rw [e] at hb ⊢
    rw [show (Int.toNat 8) = 8 from rfl, wrap_of_lt 8 _ (by omega) (by omega)]
  · have c : decide (len xs - ((8 * i : Nat) : Int) ≥ 8) = false := by simp [len]; omega
    simp only [c, Bool.false_eq_true, if_false]
    rw [k_readCode_eq]
    obtain ⟨n, hn⟩ : ∃ n : Nat, len xs - ((8 * i : Nat) : Int) = (n : Int) := ⟨xs.length - 8 * i, by simp [len]; omega⟩
    have hn' : n = xs.length - 8 * i := by simp [len] at hn; omega
    rw [hn]
    have c1 : ¬ ((n : Int) ≤ 0) := by omega
    have c2 : (0 : Int) ≤ ((8 * i : Nat) : Int) ∧ ((8 * i : Nat) : Int) + (n : Int) ≤ (xs.length : Int) := by omega
    simp only [c1, c2, and_self, if_true, if_false, tryR_ok, Int.toNat_natCast]
    rw [shl_of_nonneg _ _ (by omega)]
    simp only [tryR_ok]
    have e8 : (8 : Int) - (n : Int) = ((8 - n : Nat) : Int) := by omega
    rw [e8, ishl_natCast, Nat.shiftLeft_eq]
    have htk : ((boolsOf xs).drop (8 * i)).take n = ((boolsOf xs).drop (8 * i)).take 8 := by
      rw [List.take_of_length_le (by simp; omega), List.take_of_length_le (by simp; omega)]
    have hlen : (((boolsOf xs).drop (8 * i)).take 8).length = n := by simp; omega
    have e : byteAt (boolsOf xs) i = AztecDecoder.readCode (((boolsOf xs).drop (8 * i)).take n) * 2 ^ (8 - n) := by
      simp only [byteAt, htk, hlen]
    rw [e] at hb ⊢
    rw [wrap_of_lt 8 _ (by omega) (by exact_mod_cast hb)]

/-- a counted loop that stores `g i` into element `i` of a slice, `i = a … a+n-1` -/
theorem fill_loop {ρ : Type} (g : Nat → Int) (body : Int → List Int → Ctl (List Int) ρ) :
    ∀ (n a : Nat) (pre rest : List Int), pre.length = a → n ≤ rest.length →
      (∀ i st, a ≤ i → i < a + n → body (i : Int) st = tryC (setIdx st (i : Int) (g i)) fun t => .next t) →
      loop body 1 n (a : Int) (pre ++ rest) = .next (pre ++ (List.range' a n).map g ++ rest.drop n) := by
  intro n
  induction n with
  | zero => intro a pre rest _ _ _; simp [loop]
  | succ n ih =>
    intro a pre rest hp hr hb
    obtain ⟨r, rs, rfl⟩ : ∃ r rs, rest = r :: rs := by
      cases rest with
      | nil => simp at hr
      | cons r rs => exact ⟨r, rs, rfl⟩
    rw [loop_succ, hb a _ (Nat.le_refl a) (by omega)]
    have hs : setIdx (pre ++ r :: rs) (a : Int) (g a) = .ok ((pre ++ [g a]) ++ rs) := by
      unfold setIdx
      have : ¬ ((a : Int) < 0) := by omega
      simp only [this, if_false, Int.toNat_natCast, List.length_append, List.length_cons]
      rw [if_pos (by omega)]
      subst hp
      simp [List.set_append_right]
    rw [hs]
    simp only [tryC_ok]
    have e : (a : Int) + 1 = ((a + 1 : Nat) : Int) := by omega
    rw [e, ih (a + 1) (pre ++ [g a]) rs (by simp [hp]) (by simpa using hr)
      (fun i st h1 h2 => hb i st (by omega) (by omega))]
    simp [List.range'_succ]

theorem model_convert_eq : ∀ (fuel : Nat) (bs : List Bool), bs.length < fuel →
    AztecDecoder.convertBoolArrayToByteArray fuel bs = (List.range ((bs.length + 7) / 8)).map (byteAt bs) := by
  intro fuel
  induction fuel with
  | zero => intro bs h; omega
  | succ fuel ih =>
    intro bs h
    cases bs with
    | nil => simp [AztecDecoder.convertBoolArrayToByteArray]
    | cons b bs =>
      simp only [AztecDecoder.convertBoolArrayToByteArray]
      generalize hl : b :: bs = l at *
      have hpos : 0 < l.length := by rw [← hl]; simp
      rw [ih _ (by simp only [List.length_drop]; omega)]
      have hm : (l.length + 7) / 8 = ((l.drop 8).length + 7) / 8 + 1 := by
        simp only [List.length_drop]; omega
      rw [hm, List.range_succ_eq_map, List.map_cons, List.map_map]
      congr 1
      apply List.map_congr_left
      intro i _
      simp only [byteAt, Function.comp, List.drop_drop]
      rw [show 8 + 8 * i = 8 * (i + 1) by omega]

when_kernel Gzx.Gen.K11b.convertBoolArrayToByteArray in
/-- `convertBoolArrayToByteArray(bits)` = the model's packing (MSB first, last byte zero-padded), for EVERY slice;
    it never panics -/
theorem k_convertBoolArrayToByteArray_eq (xs : List Int) :
    Gen.K11b.convertBoolArrayToByteArray xs = .ok ((AztecDecoder.toByteArray (boolsOf xs)).map Int.ofNat) := by
  unfold Gen.K11b.convertBoolArrayToByteArray
  have hm : Int.tdiv (len xs + 7) 8 = (((xs.length + 7) / 8 : Nat) : Int) := by
    simp only [len]; exact tdiv_natCast (xs.length + 7) 8
  rw [hm, mk_words _ _ rfl]
  simp only [tryR_ok, tripUp_one, len]
  have hlen : (words (List.replicate ((xs.length + 7) / 8) 0)).length = (xs.length + 7) / 8 := by simp [words]
  rw [hlen]
  have hn : (((((xs.length + 7) / 8 : Nat) : Int)) - 0).toNat = (xs.length + 7) / 8 := by omega
  rw [hn]
  have := fill_loop (ρ := List Int) (fun i => ((byteAt (boolsOf xs) i : Nat) : Int))
    (Gen.K11b.convertBoolArrayToByteArray_body1 xs) ((xs.length + 7) / 8) 0 [] (words (List.replicate ((xs.length + 7) / 8) 0))
    rfl (by simp [words]) (by
      intro i st _ hi
      unfold Gen.K11b.convertBoolArrayToByteArray_body1
      have e : (8 : Int) * (i : Int) = ((8 * i : Nat) : Int) := by omega
      rw [e, k_readByte_eq xs i (by omega)]
      rfl)
  simp only [List.nil_append] at this
  rw [show ((0 : Int)) = ((0 : Nat) : Int) from rfl, this]
  simp only [next_thenR, AztecDecoder.toByteArray]
  rw [model_convert_eq _ _ (by omega)]
  simp [words, List.range_eq_range']

example : Gen.K11b.convertBoolArrayToByteArray (bitsI [true, false, true, true, false, false, false, true, true, true])
    = .ok [0xB1, 0xC0] := by decide

/-! ## totalBitsInLayer -/

when_kernel Gzx.Gen.K11b.totalBitsInLayer in
/-- `totalBitsInLayer(layers, compact)` = `((compact ? 88 : 112) + 16·layers)·layers` -/
theorem k_totalBitsInLayer_eq (layers : Nat) (compact : Bool) :
    Gen.K11b.totalBitsInLayer layers compact = .ok ((AztecDecoder.totalBitsInLayer layers compact : Nat) : Int) := by
  cases compact <;> simp [Gen.K11b.totalBitsInLayer, AztecDecoder.totalBitsInLayer]

end Gzx.Obligations.K11b
