/-
  K11b — `Decoder.correctBits` of aztec/decoder/decoder.go regenerated from /repo on every run (`Gzx.Gen.K11b.correctBits`:
  codeword size / field by layer count, codeword assembly, the RS call as the abstract parameter `rs_Decode`, the
  stuffing count with its FormatException exits, the un-stuffing writes, `ecLevel`).

  The full statement
      ∀ rs rawbits layers numDataCodewords, (rs_Decode agrees with rs and keeps the length) →
        Gen.K11b.correctBits fuel g10 g12 g6 g8 numDataCodewords layers rs_Decode rawbits
          = expectCB (AztecDecoder.correctBits rs (boolsOf rawbits) layers numDataCodewords)
  is `k_correctBits_eq` in Obligations/K11cCorrect.lean (wp k11b2).  This file keeps the vocabulary (`expectCB`, the sample
  RS decoders) and the equation on a fixed, structured set of arguments by kernel evaluation of BOTH sides
  (`k_correctBits_samples`, the non-vacuity companion of the full theorem): all four codeword sizes; data words 1 and
  mask-1 (stuffing, both polarities), ordinary words, the illegal words 0 and mask (FormatException), a non-zero bit
  offset, numDataCodewords <, = and > numCodewords, an RS decoder that fails, and the empty input (integer divide by zero).
-/
import Gzx.Obligations.K11b
namespace Gzx.Obligations.K11b
open Gzx Gzx.GoM Gzx.AztecDecoder

/-- how the kernel reports the model's outcome: (correctBits, ecLevel, error flag) -/
def expectCB : Res Corrected → Res (List Int × Int × Bool)
  | .ok c => .ok (bitsI c.bits, (c.ecLevel : Int), false)
  | .error .format => .ok ([], 0, true)
  | .error e => .error e

/-- an RS decoder that finds nothing to correct / that gives up, as model parameter and as kernel parameter -/
def rsId : RSDecoder := fun _ ws _ => .ok ws
def rsIdI : Int → List Int → Int → Res (Bool × List Int) := fun _ ws _ => .ok (false, ws)
def rsFail : RSDecoder := fun _ _ _ => .error .checksum
def rsFailI : Int → List Int → Int → Res (Bool × List Int) := fun _ ws _ => .ok (true, ws)

/-- raw bits made of `pad` leading bits and the given `w`-bit words -/
def rawOf (pad w : Nat) (ws : List Nat) : List Bool := List.replicate pad true ++ ws.flatMap (wordBits w)

when_kernel Gzx.Gen.K11b.correctBits in
def sampleOK (rs : RSDecoder) (rsI : Int → List Int → Int → Res (Bool × List Int)) (L nd pad : Nat) (ws : List Nat) : Bool :=
  let bs := rawOf pad (codewordSize L) ws
  decide (Gen.K11b.correctBits 200 10 12 6 8 (nd : Int) (L : Int) rsI (bitsI bs) = expectCB (correctBits rs bs L nd))

when_kernel Gzx.Gen.K11b.correctBits in
/-- `correctBits` agrees with the model on the structured sample set described in the file header -/
theorem k_correctBits_samples :
    -- 6-bit words (1-2 layers): stuffing of both polarities, ordinary words, offset, all data / some data
    sampleOK rsId rsIdI 1 3 0 [1, 62, 37, 5, 9] = true ∧ sampleOK rsId rsIdI 2 5 3 [33, 1, 1, 62, 12] = true
    -- illegal words 0 and mask among the data words; the same words beyond the data words are harmless
    ∧ sampleOK rsId rsIdI 1 2 0 [7, 0, 9] = true ∧ sampleOK rsId rsIdI 1 2 0 [63, 7, 9] = true
    ∧ sampleOK rsId rsIdI 1 1 0 [7, 0, 63] = true
    -- numDataCodewords > numCodewords, = 0, empty input (integer divide by zero)
    ∧ sampleOK rsId rsIdI 1 4 2 [7, 8, 9] = true ∧ sampleOK rsId rsIdI 1 0 0 [7, 8] = true ∧ sampleOK rsId rsIdI 1 0 0 [] = true
    ∧ sampleOK rsId rsIdI 1 0 4 [] = true
    -- the RS decoder gives up
    ∧ sampleOK rsFail rsFailI 1 2 0 [7, 8, 9] = true
    -- 8-, 10-, 12-bit words (3-8, 9-22, 23-32 layers) and the layer boundaries
    ∧ sampleOK rsId rsIdI 3 3 0 [1, 254, 129, 77] = true ∧ sampleOK rsId rsIdI 8 2 5 [254, 1, 255] = true
    ∧ sampleOK rsId rsIdI 8 2 0 [255, 1] = true
    ∧ sampleOK rsId rsIdI 9 3 0 [1, 1022, 513, 9] = true ∧ sampleOK rsId rsIdI 22 2 7 [1022, 600, 0] = true
    ∧ sampleOK rsId rsIdI 22 1 0 [1023] = true
    ∧ sampleOK rsId rsIdI 23 3 0 [1, 4094, 2049, 9] = true ∧ sampleOK rsId rsIdI 32 2 11 [4094, 3000, 4095] = true
    ∧ sampleOK rsId rsIdI 30 1 0 [0] = true := by
  decide +kernel

end Gzx.Obligations.K11b
