/-
  K11b — `Decoder.extractBits` of aztec/decoder/decoder.go regenerated from /repo on every run (`Gzx.Gen.K11b.extractBits`:
  the alignment-map loop and the four-sided layer walk as coded; `matrix.Get` is the abstract parameter `matrix_Get`)
  and proved equal to the model `AztecDecoder.extractBits` (Model/AztecExtract.lean) — properties C11, C06.
-/
import Gzx.Obligations.K11b
namespace Gzx.Obligations.K11b
open Gzx Gzx.GoM Gzx.GoVal Gzx.AztecDecoder

/-! ### generic loop lemmas -/

/-- a counted loop with an invariant indexed by the loop variable -/
theorem loop_inv {σ ρ : Type} (body : Int → σ → Ctl σ ρ) (P : Nat → σ → Prop) :
    ∀ (n a : Nat) (st : σ), P a st →
      (∀ i st, a ≤ i → i < a + n → P i st → ∃ st', body (i : Int) st = .next st' ∧ P (i + 1) st') →
      ∃ st', loop body 1 n (a : Int) st = .next st' ∧ P (a + n) st' := by
  intro n
  induction n with
  | zero => intro a st h _; exact ⟨st, rfl, h⟩
  | succ n ih =>
    intro a st h hb
    obtain ⟨st1, e1, p1⟩ := hb a st (Nat.le_refl a) (by omega) h
    rw [loop_succ, e1]
    have e : (a : Int) + 1 = ((a + 1 : Nat) : Int) := by omega
    simp only [e]
    obtain ⟨st2, e2, p2⟩ := ih (a + 1) st1 p1 (fun i st h1 h2 => hb i st (by omega) (by omega))
    exact ⟨st2, e2, by rw [show a + (n + 1) = a + 1 + n by omega]; exact p2⟩

/-- a `for cond` loop that makes exactly `N - i` more iterations, with an invariant indexed by the iteration count -/
theorem while_inv {σ ρ : Type} (body : σ → Ctl σ ρ) (P : Nat → σ → Prop) (N : Nat)
    (hstep : ∀ i st, i < N → P i st → ∃ st', body st = .next st' ∧ P (i + 1) st')
    (hend : ∀ st, P N st → body st = .brk st) :
    ∀ (n i : Nat) (st : σ) (fuel : Nat), i + n = N → n < fuel → P i st →
      ∃ st', whileLoop body fuel st = .brk st' ∧ P N st' := by
  intro n
  induction n with
  | zero =>
    intro i st fuel hi hf hp
    obtain ⟨fuel, rfl⟩ : ∃ k, fuel = k + 1 := ⟨fuel - 1, by omega⟩
    have : i = N := by omega
    subst this
    exact ⟨st, by rw [whileLoop_succ, hend st hp], hp⟩
  | succ n ih =>
    intro i st fuel hi hf hp
    obtain ⟨fuel, rfl⟩ : ∃ k, fuel = k + 1 := ⟨fuel - 1, by omega⟩
    obtain ⟨st1, e1, p1⟩ := hstep i st (by omega) hp
    rw [whileLoop_succ, e1]
    exact ih (i + 1) st1 fuel (by omega) (by omega) p1

theorem setIdx_nat (st : List Int) (e v : Int) (n : Nat) (he : e = n) (h : n < st.length) :
    setIdx st e v = .ok (st.set n v) := by
  subst he
  unfold setIdx
  simp [h]

theorem idx_nat (st : List Int) (e : Int) (n : Nat) (x : Int) (he : e = n) (h : st[n]? = some x) :
    idx st e = .ok x := by
  subst he
  unfold idx
  simp [h]

theorem mk_nat (e : Int) (n : Nat) (h : e = n) : mk e = .ok (List.replicate n 0) := by
  subst h; unfold mk; simp

/-! ### the alignment map -/

/-- the Go `alignmentMap` slice the model's closed form stands for -/
def amI (L : Nat) (c : Bool) : List Int :=
  (List.range (baseMatrixSize L c)).map (fun idx => ((alignmentMap L c idx : Nat) : Int))

theorem amI_get (L : Nat) (c : Bool) (n : Nat) (h : n < baseMatrixSize L c) :
    (amI L c)[n]? = some ((alignmentMap L c n : Nat) : Int) := by
  simp [amI, h]

when_kernel Gzx.Gen.K11b.extractBits in
/-- compact symbols: `alignmentMap[i] = i` -/
theorem am_loop_compact (L : Nat) :
    loop Gen.K11b.extractBits_body1 1 (baseMatrixSize L true) 0 (List.replicate (baseMatrixSize L true) 0)
      = (.next (amI L true) : Ctl (List Int) (List Int)) := by
  have := fill_loop (ρ := List Int) (fun i => (i : Int)) Gen.K11b.extractBits_body1 (baseMatrixSize L true) 0 []
    (List.replicate (baseMatrixSize L true) 0) rfl (by simp) (by
      intro i st _ _
      unfold Gen.K11b.extractBits_body1
      rfl)
  simp only [List.nil_append] at this
  have e0 : ((0 : Nat) : Int) = 0 := rfl
  rw [e0] at this
  rw [this]
  simp [amI, alignmentMap, List.range_eq_range']

when_kernel Gzx.Gen.K11b.extractBits in
/-- full-range symbols: the two assignments per iteration fill the map from the centre outwards -/
theorem am_loop_full (L : Nat) :
    let B := baseMatrixSize L false
    let oc := B / 2
    let center := (B + 1 + 2 * ((B / 2 - 1) / 15)) / 2
    loop (Gen.K11b.extractBits_body5 (oc : Int) (center : Int)) 1 oc 0 (List.replicate B 0)
      = (.next (amI L false) : Ctl (List Int) (List Int)) := by
  intro B oc center
  have hB : B = 4 * L + 14 := by simp [B, baseMatrixSize]; omega
  let P : Nat → List Int → Prop := fun i st => st.length = B ∧
    ∀ idx, oc ≤ idx + i → idx < oc + i → st[idx]? = some ((alignmentMap L false idx : Nat) : Int)
  obtain ⟨st', e, hlen, hp⟩ := loop_inv (ρ := List Int) (Gen.K11b.extractBits_body5 (oc : Int) (center : Int)) P oc 0
    (List.replicate B 0) ⟨by simp, by intro idx h1 h2; omega⟩ (by
      intro i st _ hi ⟨hlen, hp⟩
      unfold Gen.K11b.extractBits_body5
      dsimp only
      have q : Int.tdiv (i : Int) 15 = ((i / 15 : Nat) : Int) := tdiv_natCast i 15
      rw [q, setIdx_nat st _ _ (oc - i - 1) (by omega) (by omega)]
      simp only [tryC_ok]
      rw [setIdx_nat _ _ _ (oc + i) (by omega) (by simp; omega)]
      simp only [tryC_ok]
      refine ⟨_, rfl, by simp [hlen], ?_⟩
      intro idx h1 h2
      have hA1 : ((center : Int) - ((i : Int) + ((i / 15 : Nat) : Int)) - 1) = ((alignmentMap L false (oc - i - 1) : Nat) : Int) := by
        simp only [alignmentMap, matrixSize, Bool.false_eq_true, if_false]
        have : oc - i - 1 < baseMatrixSize L false / 2 := by omega
        simp only [this, if_true]
        omega
      have hA2 : ((center : Int) + ((i : Int) + ((i / 15 : Nat) : Int)) + 1) = ((alignmentMap L false (oc + i) : Nat) : Int) := by
        simp only [alignmentMap, matrixSize, Bool.false_eq_true, if_false]
        have : ¬ (oc + i < baseMatrixSize L false / 2) := by omega
        simp only [this, if_false]
        omega
      rw [hA1, hA2]
      by_cases c1 : idx = oc + i
      · subst c1
        rw [List.getElem?_set_self (by simp; omega)]
      · by_cases c2 : idx = oc - i - 1
        · subst c2
          rw [List.getElem?_set_ne (by omega), List.getElem?_set_self (by omega)]
        · rw [List.getElem?_set_ne (by omega), List.getElem?_set_ne (by omega)]
          exact hp idx (by omega) (by omega))
  have e0 : ((0 : Nat) : Int) = 0 := rfl
  rw [e0] at e
  rw [e]
  congr 1
  apply List.ext_getElem?
  intro idx
  by_cases h : idx < B
  · rw [hp idx (by omega) (by omega), amI_get L false idx h]
  · rw [List.getElem?_eq_none (by omega), List.getElem?_eq_none (by simp [amI]; omega)]

/-! ### the layer walk -/

/-- dominoes per side of layer `i` (Go `rowSize`) -/
def rsz (L : Nat) (c : Bool) (i : Nat) : Nat := (L - i) * 4 + (if c then 9 else 12)

/-- the coordinates `matrix.Get` is called with for side `s` (0 left, 1 bottom, 2 right, 3 top), domino `j`, bit `k` -/
def sidePos (L : Nat) (c : Bool) (i s j k : Nat) : Nat × Nat :=
  let am := alignmentMap L c
  let lo := i * 2
  let hi := baseMatrixSize L c - 1 - lo
  match s with
  | 0 => (am (lo + k), am (lo + j))
  | 1 => (am (lo + j), am (hi - k))
  | 2 => (am (hi - k), am (hi - j))
  | _ => (am (hi - j), am (lo + k))

theorem jk_length (n : Nat) : ((List.range n).flatMap (fun j => [(j, 0), (j, 1)])).length = 2 * n := by
  induction n with
  | zero => rfl
  | succ n ih => rw [List.range_succ, List.flatMap_append]; simp [ih]; omega

theorem jk_get (n j k : Nat) (hj : j < n) (hk : k < 2) :
    ((List.range n).flatMap (fun j => [(j, 0), (j, 1)]))[2 * j + k]? = some (j, k) := by
  induction n with
  | zero => omega
  | succ n ih =>
    rw [List.range_succ, List.flatMap_append]
    by_cases h : j < n
    · rw [List.getElem?_append_left (by rw [jk_length]; omega)]; exact ih h
    · have : j = n := by omega
      subst this
      rw [List.getElem?_append_right (by rw [jk_length]; omega), jk_length]
      have : 2 * j + k - 2 * j = k := by omega
      rw [this]
      have : k = 0 ∨ k = 1 := by omega
      rcases this with rfl | rfl <;> simp

theorem layerPositions_length (L : Nat) (c : Bool) (i : Nat) : (layerPositions L c i).length = 8 * rsz L c i := by
  simp only [layerPositions, List.length_append, List.length_map, jk_length, rsz]; omega

theorem layerPositions_get (L : Nat) (c : Bool) (i s j k : Nat) (hs : s < 4) (hj : j < rsz L c i) (hk : k < 2) :
    (layerPositions L c i)[2 * s * rsz L c i + 2 * j + k]? = some (sidePos L c i s j k) := by
  have hl := jk_length (rsz L c i)
  have hg := jk_get (rsz L c i) j k hj hk
  unfold rsz at hl hg
  have hs' : s = 0 ∨ s = 1 ∨ s = 2 ∨ s = 3 := by omega
  simp only [layerPositions]
  generalize hrs : (L - i) * 4 + (if c then 9 else 12) = rs at *
  have hrz : rsz L c i = rs := by simp [rsz, hrs]
  rw [hrz]
  rcases hs' with rfl | rfl | rfl | rfl
  · rw [List.getElem?_append_left (by simp [hl]; omega), List.getElem?_append_left (by simp [hl]; omega),
      List.getElem?_append_left (by simp [hl]; omega)]
    rw [show 2 * 0 * rs + 2 * j + k = 2 * j + k by omega, List.getElem?_map, hg]; rfl
  · rw [List.getElem?_append_left (by simp [hl]; omega), List.getElem?_append_left (by simp [hl]; omega),
      List.getElem?_append_right (by simp [hl]; omega)]
    simp only [List.length_map, hl]
    rw [show 2 * 1 * rs + 2 * j + k - 2 * rs = 2 * j + k by omega, List.getElem?_map, hg]; rfl
  · rw [List.getElem?_append_left (by simp [hl]; omega), List.getElem?_append_right (by simp [hl]; omega)]
    simp only [List.length_map, List.length_append, hl]
    rw [show 2 * 2 * rs + 2 * j + k - (2 * rs + 2 * rs) = 2 * j + k by omega, List.getElem?_map, hg]; rfl
  · rw [List.getElem?_append_right (by simp [hl]; omega)]
    simp only [List.length_map, List.length_append, hl]
    rw [show 2 * 3 * rs + 2 * j + k - (2 * rs + 2 * rs + 2 * rs) = 2 * j + k by omega, List.getElem?_map, hg]; rfl

/-- what the walk stores for side `s`, domino `j`, bit `k` of layer `i` -/
def cell (gp : Nat × Nat → Bool) (L : Nat) (c : Bool) (i s j k : Nat) : Int := b2i (gp (sidePos L c i s j k))

/-- `matrix.Get` answers on every coordinate layer `i` reads -/
def ReadsOK (get : Int → Int → Res Bool) (gp : Nat × Nat → Bool) (L : Nat) (c : Bool) (i : Nat) : Prop :=
  ∀ s j k, s < 4 → j < rsz L c i → k < 2 →
    get ((sidePos L c i s j k).1 : Int) ((sidePos L c i s j k).2 : Int) = .ok (gp (sidePos L c i s j k))

when_kernel Gzx.Gen.K11b.extractBits in
/-- the four reads and writes of one `k` -/
theorem body4_eq (get : Int → Int → Res Bool) (gp : Nat × Nat → Bool) (L : Nat) (c : Bool) (i off j k : Nat) (st : List Int)
    (hi : i < L) (hj : j < rsz L c i) (hk : k < 2) (hlen : off + 8 * rsz L c i ≤ st.length)
    (hr : ReadsOK get gp L c i)
    {offI rsI loI hiI jI coI kI : Int} (h1 : offI = off) (h2 : rsI = rsz L c i) (h3 : loI = (i * 2 : Nat))
    (h4 : hiI = (baseMatrixSize L c - 1 - i * 2 : Nat)) (h5 : jI = j) (h6 : coI = (2 * j : Nat)) (h7 : kI = k) :
    Gen.K11b.extractBits_body4 get (amI L c) offI rsI loI hiI jI coI kI st =
      .next ((((st.set (off + 2 * j + k) (cell gp L c i 0 j k)).set (off + 2 * rsz L c i + 2 * j + k) (cell gp L c i 1 j k)).set
        (off + 4 * rsz L c i + 2 * j + k) (cell gp L c i 2 j k)).set (off + 6 * rsz L c i + 2 * j + k) (cell gp L c i 3 j k)) := by
  subst h1 h2 h3 h4 h5 h6 h7
  have hB : baseMatrixSize L c = L * 4 + (if c then 11 else 14) := rfl
  have hrs : rsz L c i = (L - i) * 4 + (if c then 9 else 12) := rfl
  have hc : (if c then 11 else 14) = (if c then 9 else 12) + 2 := by cases c <;> rfl
  generalize hrs' : rsz L c i = rs at *
  generalize hB' : baseMatrixSize L c = B at *
  generalize (if c then 9 else 12) = cc at *
  have r1 : idx (amI L c) (((i * 2 : Nat) : Int) + (k : Int)) = .ok ((alignmentMap L c (i * 2 + k) : Nat) : Int) :=
    idx_nat _ _ (i * 2 + k) _ (by omega) (amI_get L c _ (by omega))
  have r2 : idx (amI L c) (((i * 2 : Nat) : Int) + (j : Int)) = .ok ((alignmentMap L c (i * 2 + j) : Nat) : Int) :=
    idx_nat _ _ (i * 2 + j) _ (by omega) (amI_get L c _ (by omega))
  have r3 : idx (amI L c) (((B - 1 - i * 2 : Nat) : Int) - (k : Int)) = .ok ((alignmentMap L c (B - 1 - i * 2 - k) : Nat) : Int) :=
    idx_nat _ _ (B - 1 - i * 2 - k) _ (by omega) (amI_get L c _ (by omega))
  have r4 : idx (amI L c) (((B - 1 - i * 2 : Nat) : Int) - (j : Int)) = .ok ((alignmentMap L c (B - 1 - i * 2 - j) : Nat) : Int) :=
    idx_nat _ _ (B - 1 - i * 2 - j) _ (by omega) (amI_get L c _ (by omega))
  have g0 := hr 0 j k (by omega) (by omega) hk
  have g1 := hr 1 j k (by omega) (by omega) hk
  have g2 := hr 2 j k (by omega) (by omega) hk
  have g3 := hr 3 j k (by omega) (by omega) hk
  simp only [sidePos, hB'] at g0 g1 g2 g3
  unfold Gen.K11b.extractBits_body4
  simp only [r1, r2, r3, r4, tryC_ok, g0, g1, g2, g3]
  rw [setIdx_nat st _ _ (off + 2 * j + k) (by omega) (by omega)]
  simp only [tryC_ok]
  rw [setIdx_nat _ _ _ (off + 2 * rs + 2 * j + k) (by omega) (by simp; omega)]
  simp only [tryC_ok]
  rw [setIdx_nat _ _ _ (off + 4 * rs + 2 * j + k) (by omega) (by simp; omega)]
  simp only [tryC_ok]
  rw [setIdx_nat _ _ _ (off + 6 * rs + 2 * j + k) (by omega) (by simp; omega)]
  simp only [tryC_ok, cell, sidePos, hB']

end Gzx.Obligations.K11b
