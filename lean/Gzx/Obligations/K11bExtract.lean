/-
  K11b — `Decoder.extractBits` of aztec/decoder/decoder.go regenerated from /repo on every run (`Gzx.Gen.K11b.extractBits`:
  the alignment-map loop and the four-sided layer walk as coded; `matrix.Get` is the abstract parameter `matrix_Get`)
  and proved equal to the model `AztecDecoder.extractBits` (Model/AztecExtract.lean) — properties C11, C06.
-/
import Gzx.Obligations.K11b
namespace Gzx.Obligations.K11b
open Gzx Gzx.GoM Gzx.GoVal Gzx.AztecDecoder

/-! ### generic loop lemmas -/

/-- a counted loop with an invariant indexed by the loop variable -/
theorem loop_inv {σ ρ : Type} (body : Int → σ → Ctl σ ρ) (P : Nat → σ → Prop) :
    ∀ (n a : Nat) (st : σ), P a st →
      (∀ i st, a ≤ i → i < a + n → P i st → ∃ st', body (i : Int) st = .next st' ∧ P (i + 1) st') →
      ∃ st', loop body 1 n (a : Int) st = .next st' ∧ P (a + n) st' := by
  intro n
  induction n with
  | zero => intro a st h _; exact ⟨st, rfl, h⟩
  | succ n ih =>
    intro a st h hb
    obtain ⟨st1, e1, p1⟩ := hb a st (Nat.le_refl a) (by omega) h
    rw [loop_succ, e1]
    have e : (a : Int) + 1 = ((a + 1 : Nat) : Int) := by omega
    simp only [e]
    obtain ⟨st2, e2, p2⟩ := ih (a + 1) st1 p1 (fun i st h1 h2 => hb i st (by omega) (by omega))
    exact ⟨st2, e2, by rw [show a + (n + 1) = a + 1 + n by omega]; exact p2⟩

/-- a `for cond` loop that makes exactly `N - i` more iterations, with an invariant indexed by the iteration count -/
theorem while_inv {σ ρ : Type} (body : σ → Ctl σ ρ) (P : Nat → σ → Prop) (N : Nat)
    (hstep : ∀ i st, i < N → P i st → ∃ st', body st = .next st' ∧ P (i + 1) st')
    (hend : ∀ st, P N st → body st = .brk st) :
    ∀ (n i : Nat) (st : σ) (fuel : Nat), i + n = N → n < fuel → P i st →
      ∃ st', whileLoop body fuel st = .brk st' ∧ P N st' := by
  intro n
  induction n with
  | zero =>
    intro i st fuel hi hf hp
    obtain ⟨fuel, rfl⟩ : ∃ k, fuel = k + 1 := ⟨fuel - 1, by omega⟩
    have : i = N := by omega
    subst this
    exact ⟨st, by rw [whileLoop_succ, hend st hp], hp⟩
  | succ n ih =>
    intro i st fuel hi hf hp
    obtain ⟨fuel, rfl⟩ : ∃ k, fuel = k + 1 := ⟨fuel - 1, by omega⟩
    obtain ⟨st1, e1, p1⟩ := hstep i st (by omega) hp
    rw [whileLoop_succ, e1]
    exact ih (i + 1) st1 fuel (by omega) (by omega) p1

theorem setIdx_nat (st : List Int) (e v : Int) (n : Nat) (he : e = n) (h : n < st.length) :
    setIdx st e v = .ok (st.set n v) := by
  subst he
  unfold setIdx
  simp [h]

theorem idx_nat (st : List Int) (e : Int) (n : Nat) (x : Int) (he : e = n) (h : st[n]? = some x) :
    idx st e = .ok x := by
  subst he
  unfold idx
  simp [h]

theorem mk_nat (e : Int) (n : Nat) (h : e = n) : mk e = .ok (List.replicate n 0) := by
  subst h; unfold mk; simp

/-! ### the alignment map -/

/-- the Go `alignmentMap` slice the model's closed form stands for -/
def amI (L : Nat) (c : Bool) : List Int :=
  (List.range (baseMatrixSize L c)).map (fun idx => ((alignmentMap L c idx : Nat) : Int))

theorem amI_get (L : Nat) (c : Bool) (n : Nat) (h : n < baseMatrixSize L c) :
    (amI L c)[n]? = some ((alignmentMap L c n : Nat) : Int) := by
  simp [amI, h]

when_kernel Gzx.Gen.K11b.extractBits in
/-- compact symbols: `alignmentMap[i] = i` -/
theorem am_loop_compact (L : Nat) :
    loop Gen.K11b.extractBits_body1 1 (baseMatrixSize L true) 0 (List.replicate (baseMatrixSize L true) 0)
      = (.next (amI L true) : Ctl (List Int) (List Int)) := by
  have := fill_loop (ρ := List Int) (fun i => (i : Int)) Gen.K11b.extractBits_body1 (baseMatrixSize L true) 0 []
    (List.replicate (baseMatrixSize L true) 0) rfl (by simp) (by
      intro i st _ _
      unfold Gen.K11b.extractBits_body1
      rfl)
  simp only [List.nil_append] at this
  have e0 : ((0 : Nat) : Int) = 0 := rfl
  rw [e0] at this
  rw [this]
  simp [amI, alignmentMap, List.range_eq_range']

when_kernel Gzx.Gen.K11b.extractBits in
/-- full-range symbols: the two assignments per iteration fill the map from the centre outwards -/
theorem am_loop_full (L : Nat) :
    let B := baseMatrixSize L false
    let oc := B / 2
    let center := (B + 1 + 2 * ((B / 2 - 1) / 15)) / 2
    loop (Gen.K11b.extractBits_body5 (oc : Int) (center : Int)) 1 oc 0 (List.replicate B 0)
      = (.next (amI L false) : Ctl (List Int) (List Int)) := by
  intro B oc center
  have hB : B = 4 * L + 14 := by simp [B, baseMatrixSize]; omega
  let P : Nat → List Int → Prop := fun i st => st.length = B ∧
    ∀ idx, oc ≤ idx + i → idx < oc + i → st[idx]? = some ((alignmentMap L false idx : Nat) : Int)
  obtain ⟨st', e, hlen, hp⟩ := loop_inv (ρ := List Int) (Gen.K11b.extractBits_body5 (oc : Int) (center : Int)) P oc 0
    (List.replicate B 0) ⟨by simp, by intro idx h1 h2; omega⟩ (by
      intro i st _ hi ⟨hlen, hp⟩
      unfold Gen.K11b.extractBits_body5
      dsimp only
      have q : Int.tdiv (i : Int) 15 = ((i / 15 : Nat) : Int) := tdiv_natCast i 15
      rw [q]
      have hA1 : ((center : Int) - ((i : Int) + ((i / 15 : Nat) : Int)) - 1) = ((alignmentMap L false (oc - i - 1) : Nat) : Int) := by
        simp only [alignmentMap, matrixSize, Bool.false_eq_true, if_false]
        have : oc - i - 1 < baseMatrixSize L false / 2 := by omega
        simp only [this, if_true]
        omega
      have hA2 : ((center : Int) + ((i : Int) + ((i / 15 : Nat) : Int)) + 1) = ((alignmentMap L false (oc + i) : Nat) : Int) := by
        simp only [alignmentMap, matrixSize, Bool.false_eq_true, if_false]
        have : ¬ (oc + i < baseMatrixSize L false / 2) := by omega
        simp only [this, if_false]
        omega
      rw [hA1, hA2]
      -- the two assignments, in either order
      first
        | (rw [setIdx_nat st _ _ (oc - i - 1) (by omega) (by omega)]
           simp only [tryC_ok]
           rw [setIdx_nat _ _ _ (oc + i) (by omega) (by simp; omega)]
           simp only [tryC_ok])
        | (rw [setIdx_nat st _ _ (oc + i) (by omega) (by omega)]
           simp only [tryC_ok]
           rw [setIdx_nat _ _ _ (oc - i - 1) (by omega) (by simp; omega)]
           simp only [tryC_ok])
      refine ⟨_, rfl, by simp [hlen], ?_⟩
      intro idx h1 h2
      simp only [List.getElem?_set, List.length_set]
      by_cases c1 : idx = oc + i
      · subst c1
        simp (disch := omega) only [if_pos, if_neg, if_true]
      · by_cases c2 : idx = oc - i - 1
        · subst c2
          simp (disch := omega) only [if_pos, if_neg, if_true]
        · simp (disch := omega) only [if_neg]
          exact hp idx (by omega) (by omega))
  have e0 : ((0 : Nat) : Int) = 0 := rfl
  rw [e0] at e
  rw [e]
  congr 1
  apply List.ext_getElem?
  intro idx
  by_cases h : idx < B
  · rw [hp idx (by omega) (by omega), amI_get L false idx h]
  · rw [List.getElem?_eq_none (by omega), List.getElem?_eq_none (by simp [amI]; omega)]

/-! ### the layer walk -/

/-- dominoes per side of layer `i` (Go `rowSize`) -/
def rsz (L : Nat) (c : Bool) (i : Nat) : Nat := (L - i) * 4 + (if c then 9 else 12)

/-- the coordinates `matrix.Get` is called with for side `s` (0 left, 1 bottom, 2 right, 3 top), domino `j`, bit `k` -/
def sidePos (L : Nat) (c : Bool) (i s j k : Nat) : Nat × Nat :=
  let am := alignmentMap L c
  let lo := i * 2
  let hi := baseMatrixSize L c - 1 - lo
  match s with
  | 0 => (am (lo + k), am (lo + j))
  | 1 => (am (lo + j), am (hi - k))
  | 2 => (am (hi - k), am (hi - j))
  | _ => (am (hi - j), am (lo + k))

theorem jk_length (n : Nat) : ((List.range n).flatMap (fun j => [(j, 0), (j, 1)])).length = 2 * n := by
  induction n with
  | zero => rfl
  | succ n ih => rw [List.range_succ, List.flatMap_append]; simp [ih]; omega

theorem jk_get (n j k : Nat) (hj : j < n) (hk : k < 2) :
    ((List.range n).flatMap (fun j => [(j, 0), (j, 1)]))[2 * j + k]? = some (j, k) := by
  induction n with
  | zero => omega
  | succ n ih =>
    rw [List.range_succ, List.flatMap_append]
    by_cases h : j < n
    · rw [List.getElem?_append_left (by rw [jk_length]; omega)]; exact ih h
    · have : j = n := by omega
      subst this
      rw [List.getElem?_append_right (by rw [jk_length]; omega), jk_length]
      have : 2 * j + k - 2 * j = k := by omega
      rw [this]
      have : k = 0 ∨ k = 1 := by omega
      rcases this with rfl | rfl <;> simp

theorem layerPositions_length (L : Nat) (c : Bool) (i : Nat) : (layerPositions L c i).length = 8 * rsz L c i := by
  simp only [layerPositions, List.length_append, List.length_map, jk_length, rsz]; omega

theorem layerPositions_get (L : Nat) (c : Bool) (i s j k : Nat) (hs : s < 4) (hj : j < rsz L c i) (hk : k < 2) :
    (layerPositions L c i)[2 * s * rsz L c i + 2 * j + k]? = some (sidePos L c i s j k) := by
  have hl := jk_length (rsz L c i)
  have hg := jk_get (rsz L c i) j k hj hk
  unfold rsz at hl hg
  have hs' : s = 0 ∨ s = 1 ∨ s = 2 ∨ s = 3 := by omega
  simp only [layerPositions]
  generalize hrs : (L - i) * 4 + (if c then 9 else 12) = rs at *
  have hrz : rsz L c i = rs := by simp [rsz, hrs]
  rw [hrz]
  rcases hs' with rfl | rfl | rfl | rfl
  · rw [List.getElem?_append_left (by simp [hl]; omega), List.getElem?_append_left (by simp [hl]; omega),
      List.getElem?_append_left (by simp [hl]; omega)]
    rw [show 2 * 0 * rs + 2 * j + k = 2 * j + k by omega, List.getElem?_map, hg]; rfl
  · rw [List.getElem?_append_left (by simp [hl]; omega), List.getElem?_append_left (by simp [hl]; omega),
      List.getElem?_append_right (by simp [hl]; omega)]
    simp only [List.length_map, hl]
    rw [show 2 * 1 * rs + 2 * j + k - 2 * rs = 2 * j + k by omega, List.getElem?_map, hg]; rfl
  · rw [List.getElem?_append_left (by simp [hl]; omega), List.getElem?_append_right (by simp [hl]; omega)]
    simp only [List.length_map, List.length_append, hl]
    rw [show 2 * 2 * rs + 2 * j + k - (2 * rs + 2 * rs) = 2 * j + k by omega, List.getElem?_map, hg]; rfl
  · rw [List.getElem?_append_right (by simp [hl]; omega)]
    simp only [List.length_map, List.length_append, hl]
    rw [show 2 * 3 * rs + 2 * j + k - (2 * rs + 2 * rs + 2 * rs) = 2 * j + k by omega, List.getElem?_map, hg]; rfl

/-- what the walk stores for side `s`, domino `j`, bit `k` of layer `i` -/
def cell (gp : Nat × Nat → Bool) (L : Nat) (c : Bool) (i s j k : Nat) : Int := b2i (gp (sidePos L c i s j k))

/-- `matrix.Get` answers on every coordinate layer `i` reads -/
def ReadsOK (get : Int → Int → Res Bool) (gp : Nat × Nat → Bool) (L : Nat) (c : Bool) (i : Nat) : Prop :=
  ∀ s j k, s < 4 → j < rsz L c i → k < 2 →
    get ((sidePos L c i s j k).1 : Int) ((sidePos L c i s j k).2 : Int) = .ok (gp (sidePos L c i s j k))

when_kernel Gzx.Gen.K11b.extractBits in
/-- the four reads and writes of one `k` -/
theorem body4_eq (get : Int → Int → Res Bool) (gp : Nat × Nat → Bool) (L : Nat) (c : Bool) (i off j k : Nat) (st : List Int)
    (hi : i < L) (hj : j < rsz L c i) (hk : k < 2) (hlen : off + 8 * rsz L c i ≤ st.length)
    (hr : ReadsOK get gp L c i)
    {offI rsI loI hiI jI coI kI : Int} (h1 : offI = off) (h2 : rsI = rsz L c i) (h3 : loI = (i * 2 : Nat))
    (h4 : hiI = (baseMatrixSize L c - 1 - i * 2 : Nat)) (h5 : jI = j) (h6 : coI = (2 * j : Nat)) (h7 : kI = k) :
    Gen.K11b.extractBits_body4 get (amI L c) offI rsI loI hiI jI coI kI st =
      .next ((((st.set (off + 2 * j + k) (cell gp L c i 0 j k)).set (off + 2 * rsz L c i + 2 * j + k) (cell gp L c i 1 j k)).set
        (off + 4 * rsz L c i + 2 * j + k) (cell gp L c i 2 j k)).set (off + 6 * rsz L c i + 2 * j + k) (cell gp L c i 3 j k)) := by
  subst h1 h2 h3 h4 h5 h6 h7
  have hB : baseMatrixSize L c = L * 4 + (if c then 11 else 14) := rfl
  have hrs : rsz L c i = (L - i) * 4 + (if c then 9 else 12) := rfl
  have hc : (if c then 11 else 14) = (if c then 9 else 12) + 2 := by cases c <;> rfl
  generalize hrs' : rsz L c i = rs at *
  generalize hB' : baseMatrixSize L c = B at *
  generalize (if c then 9 else 12) = cc at *
  have r1 : idx (amI L c) (((i * 2 : Nat) : Int) + (k : Int)) = .ok ((alignmentMap L c (i * 2 + k) : Nat) : Int) :=
    idx_nat _ _ (i * 2 + k) _ (by omega) (amI_get L c _ (by omega))
  have r2 : idx (amI L c) (((i * 2 : Nat) : Int) + (j : Int)) = .ok ((alignmentMap L c (i * 2 + j) : Nat) : Int) :=
    idx_nat _ _ (i * 2 + j) _ (by omega) (amI_get L c _ (by omega))
  have r3 : idx (amI L c) (((B - 1 - i * 2 : Nat) : Int) - (k : Int)) = .ok ((alignmentMap L c (B - 1 - i * 2 - k) : Nat) : Int) :=
    idx_nat _ _ (B - 1 - i * 2 - k) _ (by omega) (amI_get L c _ (by omega))
  have r4 : idx (amI L c) (((B - 1 - i * 2 : Nat) : Int) - (j : Int)) = .ok ((alignmentMap L c (B - 1 - i * 2 - j) : Nat) : Int) :=
    idx_nat _ _ (B - 1 - i * 2 - j) _ (by omega) (amI_get L c _ (by omega))
  have g0 := hr 0 j k (by omega) (by omega) hk
  have g1 := hr 1 j k (by omega) (by omega) hk
  have g2 := hr 2 j k (by omega) (by omega) hk
  have g3 := hr 3 j k (by omega) (by omega) hk
  simp only [sidePos, hB'] at g0 g1 g2 g3
  unfold Gen.K11b.extractBits_body4
  simp only [r1, r2, r3, r4, tryC_ok, g0, g1, g2, g3]
  rw [setIdx_nat st _ _ (off + 2 * j + k) (by omega) (by omega)]
  simp only [tryC_ok]
  rw [setIdx_nat _ _ _ (off + 2 * rs + 2 * j + k) (by omega) (by simp; omega)]
  simp only [tryC_ok]
  rw [setIdx_nat _ _ _ (off + 4 * rs + 2 * j + k) (by omega) (by simp; omega)]
  simp only [tryC_ok]
  rw [setIdx_nat _ _ _ (off + 6 * rs + 2 * j + k) (by omega) (by simp; omega)]
  simp only [tryC_ok, cell, sidePos, hB']

/-- the four writes of one `k` -/
def kstep (gp : Nat × Nat → Bool) (L : Nat) (c : Bool) (i off j k : Nat) (st : List Int) : List Int :=
  (((st.set (off + 2 * j + k) (cell gp L c i 0 j k)).set (off + 2 * rsz L c i + 2 * j + k) (cell gp L c i 1 j k)).set
    (off + 4 * rsz L c i + 2 * j + k) (cell gp L c i 2 j k)).set (off + 6 * rsz L c i + 2 * j + k) (cell gp L c i 3 j k)

theorem kstep_length (gp : Nat × Nat → Bool) (L : Nat) (c : Bool) (i off j k : Nat) (st : List Int) :
    (kstep gp L c i off j k st).length = st.length := by simp [kstep]

when_kernel Gzx.Gen.K11b.extractBits in
/-- one domino `j`: the `k` loop makes two iterations -/
theorem body3_eq (get : Int → Int → Res Bool) (gp : Nat × Nat → Bool) (L : Nat) (c : Bool) (i off j : Nat) (st : List Int)
    (hi : i < L) (hj : j < rsz L c i) (hlen : off + 8 * rsz L c i ≤ st.length) (hr : ReadsOK get gp L c i)
    {offI rsI loI hiI : Int} (h1 : offI = off) (h2 : rsI = rsz L c i) (h3 : loI = (i * 2 : Nat))
    (h4 : hiI = (baseMatrixSize L c - 1 - i * 2 : Nat)) :
    Gen.K11b.extractBits_body3 get (amI L c) offI rsI loI hiI (j : Int) st =
      .next (kstep gp L c i off j 1 (kstep gp L c i off j 0 st)) := by
  unfold Gen.K11b.extractBits_body3
  dsimp only
  have ht : tripUp 0 2 1 = 2 := by decide
  rw [ht, loop_succ, body4_eq get gp L c i off j 0 st hi hj (by omega) hlen hr (jI := (j : Int)) (coI := (j : Int) * 2) (kI := 0) h1 h2 h3 h4 rfl (by omega) rfl]
  dsimp only
  rw [loop_succ, body4_eq get gp L c i off j 1 _ hi hj (by omega) (by simp; omega) hr (jI := (j : Int)) (coI := (j : Int) * 2) (kI := 0 + 1) h1 h2 h3 h4 rfl (by omega) rfl]
  rfl

theorem set4_get (st : List Int) (a0 a1 a2 a3 : Nat) (v0 v1 v2 v3 : Int)
    (h0 : a0 < st.length) (h1 : a1 < st.length) (h2 : a2 < st.length) (h3 : a3 < st.length) (q : Nat) :
    ((((st.set a0 v0).set a1 v1).set a2 v2).set a3 v3)[q]? =
      if a3 = q then some v3 else if a2 = q then some v2 else if a1 = q then some v1 else if a0 = q then some v0 else st[q]? := by
  simp only [List.getElem?_set, List.length_set, if_pos h0, if_pos h1, if_pos h2, if_pos h3]

theorem kstep_get (gp : Nat × Nat → Bool) (L : Nat) (c : Bool) (i off j k : Nat) (st : List Int)
    (hj : j < rsz L c i) (hk : k < 2) (hlen : off + 8 * rsz L c i ≤ st.length) (q : Nat) :
    (kstep gp L c i off j k st)[q]? =
      if off + 6 * rsz L c i + 2 * j + k = q then some (cell gp L c i 3 j k)
      else if off + 4 * rsz L c i + 2 * j + k = q then some (cell gp L c i 2 j k)
      else if off + 2 * rsz L c i + 2 * j + k = q then some (cell gp L c i 1 j k)
      else if off + 2 * j + k = q then some (cell gp L c i 0 j k) else st[q]? := by
  unfold kstep
  exact set4_get st _ _ _ _ _ _ _ _ (by omega) (by omega) (by omega) (by omega) q

/-- state of the walk of layer `i` after `jj` dominoes: everything outside the layer's segment untouched, the first
    `jj` dominoes of each of the four sides final -/
def LInv (gp : Nat × Nat → Bool) (L : Nat) (c : Bool) (i off : Nat) (st0 : List Int) (jj : Nat) (st : List Int) : Prop :=
  st.length = st0.length ∧
  (∀ q, (q < off ∨ off + 8 * rsz L c i ≤ q) → st[q]? = st0[q]?) ∧
  (∀ s j k, s < 4 → j < jj → k < 2 → st[off + 2 * s * rsz L c i + 2 * j + k]? = some (cell gp L c i s j k))

theorem LInv_step_out (gp : Nat × Nat → Bool) (L : Nat) (c : Bool) (i off jj : Nat) (st : List Int)
    (hj : jj < rsz L c i) (hl0 : off + 8 * rsz L c i ≤ st.length) (q : Nat) (hq : q < off ∨ off + 8 * rsz L c i ≤ q) :
    (kstep gp L c i off jj 1 (kstep gp L c i off jj 0 st))[q]? = st[q]? := by
  have hl1 : off + 8 * rsz L c i ≤ (kstep gp L c i off jj 0 st).length := by rw [kstep_length]; omega
  rw [kstep_get gp L c i off jj 1 _ hj (by omega) hl1, kstep_get gp L c i off jj 0 _ hj (by omega) hl0]
  generalize rsz L c i = rs at *
  simp (disch := omega) only [if_neg]

theorem LInv_step_old (gp : Nat × Nat → Bool) (L : Nat) (c : Bool) (i off jj : Nat) (st : List Int)
    (hj : jj < rsz L c i) (hl0 : off + 8 * rsz L c i ≤ st.length) (s j k : Nat) (hs : s < 4) (hlt : j < jj) (hk : k < 2) :
    (kstep gp L c i off jj 1 (kstep gp L c i off jj 0 st))[off + 2 * s * rsz L c i + 2 * j + k]? =
      st[off + 2 * s * rsz L c i + 2 * j + k]? := by
  have hl1 : off + 8 * rsz L c i ≤ (kstep gp L c i off jj 0 st).length := by rw [kstep_length]; omega
  rw [kstep_get gp L c i off jj 1 _ hj (by omega) hl1, kstep_get gp L c i off jj 0 _ hj (by omega) hl0]
  generalize rsz L c i = rs at *
  have hs' : s = 0 ∨ s = 1 ∨ s = 2 ∨ s = 3 := by omega
  rcases hs' with rfl | rfl | rfl | rfl <;> simp (disch := omega) only [if_neg]

theorem LInv_step_new (gp : Nat × Nat → Bool) (L : Nat) (c : Bool) (i off jj : Nat) (st : List Int)
    (hj : jj < rsz L c i) (hl0 : off + 8 * rsz L c i ≤ st.length) (s k : Nat) (hs : s < 4) (hk : k < 2) :
    (kstep gp L c i off jj 1 (kstep gp L c i off jj 0 st))[off + 2 * s * rsz L c i + 2 * jj + k]? =
      some (cell gp L c i s jj k) := by
  have hl1 : off + 8 * rsz L c i ≤ (kstep gp L c i off jj 0 st).length := by rw [kstep_length]; omega
  rw [kstep_get gp L c i off jj 1 _ hj (by omega) hl1, kstep_get gp L c i off jj 0 _ hj (by omega) hl0]
  generalize rsz L c i = rs at *
  have hs' : s = 0 ∨ s = 1 ∨ s = 2 ∨ s = 3 := by omega
  have hk' : k = 0 ∨ k = 1 := by omega
  rcases hs' with rfl | rfl | rfl | rfl <;> rcases hk' with rfl | rfl <;> simp (disch := omega) only [if_neg, if_pos, if_true]

theorem LInv_step (gp : Nat × Nat → Bool) (L : Nat) (c : Bool) (i off : Nat) (st0 : List Int) (jj : Nat) (st : List Int)
    (hj : jj < rsz L c i) (hlen : off + 8 * rsz L c i ≤ st0.length) (h : LInv gp L c i off st0 jj st) :
    LInv gp L c i off st0 (jj + 1) (kstep gp L c i off jj 1 (kstep gp L c i off jj 0 st)) := by
  unfold LInv at h ⊢
  obtain ⟨h1, h2, h3⟩ := h
  have hl0 : off + 8 * rsz L c i ≤ st.length := by omega
  refine ⟨by simp [kstep_length, h1], ?_, ?_⟩
  · intro q hq
    rw [← h2 q hq]
    exact LInv_step_out gp L c i off jj st hj hl0 q hq
  · intro s j k hs hjj hk
    by_cases hlt : j < jj
    · rw [LInv_step_old gp L c i off jj st hj hl0 s j k hs hlt hk]
      exact h3 s j k hs hlt hk
    · have : j = jj := by omega
      subst this
      exact LInv_step_new gp L c i off j st hj hl0 s k hs hk

theorem tb_step (L : Nat) (c : Bool) (i : Nat) (hi : i < L) :
    totalBitsInLayer (L - i) c = 8 * rsz L c i + totalBitsInLayer (L - (i + 1)) c := by
  obtain ⟨m, hm⟩ : ∃ m, L - i = m + 1 := ⟨L - i - 1, by omega⟩
  have hm' : L - (i + 1) = m := by omega
  simp only [rsz, hm, hm', totalBitsInLayer]
  cases c <;> simp only [Bool.false_eq_true, if_false, if_true] <;> grind

when_kernel Gzx.Gen.K11b.extractBits in
/-- the walk of one layer -/
theorem layer_loop (get : Int → Int → Res Bool) (gp : Nat × Nat → Bool) (L : Nat) (c : Bool) (i off : Nat) (st : List Int)
    (hi : i < L) (hlen : off + 8 * rsz L c i ≤ st.length) (hr : ReadsOK get gp L c i)
    {offI rsI loI hiI : Int} (h1 : offI = off) (h2 : rsI = rsz L c i) (h3 : loI = (i * 2 : Nat))
    (h4 : hiI = (baseMatrixSize L c - 1 - i * 2 : Nat)) :
    ∃ st', loop (Gen.K11b.extractBits_body3 get (amI L c) offI rsI loI hiI) 1 (rsz L c i) 0 st = .next st' ∧
      LInv gp L c i off st (rsz L c i) st' := by
  have := loop_inv (ρ := List Int) (Gen.K11b.extractBits_body3 get (amI L c) offI rsI loI hiI)
    (fun jj st' => LInv gp L c i off st jj st') (rsz L c i) 0 st
    ⟨rfl, fun _ _ => rfl, fun _ _ _ _ h _ => by omega⟩ (by
      intro j st' _ hj hinv
      refine ⟨_, body3_eq get gp L c i off j st' hi (by omega) (by rw [hinv.1]; exact hlen) hr h1 h2 h3 h4, ?_⟩
      exact LInv_step gp L c i off st j st' (by omega) hlen hinv)
  simpa using this

/-- the finished layer as a list equation -/
theorem LInv_take (gp : Nat × Nat → Bool) (L : Nat) (c : Bool) (i off : Nat) (st st' : List Int)
    (hlen : off + 8 * rsz L c i ≤ st.length) (h : LInv gp L c i off st (rsz L c i) st') :
    st'.take (off + 8 * rsz L c i) = st.take off ++ (layerPositions L c i).map (fun p => b2i (gp p)) := by
  obtain ⟨h1, h2, h3⟩ := h
  apply List.ext_getElem?
  intro q
  rw [List.getElem?_take]
  by_cases hq : q < off
  · rw [if_pos (by omega), h2 q (Or.inl hq), List.getElem?_append_left (by simp; omega), List.getElem?_take, if_pos hq]
  · by_cases hq2 : q < off + 8 * rsz L c i
    · rw [if_pos hq2, List.getElem?_append_right (by simp; omega)]
      have hlt : (st.take off).length = off := by simp; omega
      rw [hlt]
      have key : ∀ s, s < 4 → 2 * s * rsz L c i ≤ q - off → q - off < 2 * (s + 1) * rsz L c i →
          st'[q]? = ((layerPositions L c i).map (fun p => b2i (gp p)))[q - off]? := by
        intro s hs ha hb
        have hb' : q - off < 2 * s * rsz L c i + 2 * rsz L c i := by
          have : 2 * (s + 1) * rsz L c i = 2 * s * rsz L c i + 2 * rsz L c i := by
            rw [Nat.mul_add, Nat.add_mul]
          omega
        generalize hx : 2 * s * rsz L c i = x at *
        have e : q = off + x + 2 * ((q - off - x) / 2) + (q - off - x) % 2 := by omega
        have e2 : q - off = x + 2 * ((q - off - x) / 2) + (q - off - x) % 2 := by omega
        have hj : (q - off - x) / 2 < rsz L c i := by omega
        have hk : (q - off - x) % 2 < 2 := by omega
        have g := layerPositions_get L c i s _ _ hs hj hk
        have g3 := h3 s _ _ hs hj hk
        rw [hx] at g g3
        rw [List.getElem?_map, e2, g]
        conv => lhs; rw [e]
        rw [g3]; rfl
      by_cases c0 : q - off < 2 * rsz L c i
      · exact key 0 (by omega) (by omega) (by omega)
      · by_cases c1 : q - off < 4 * rsz L c i
        · exact key 1 (by omega) (by omega) (by omega)
        · by_cases c2 : q - off < 6 * rsz L c i
          · exact key 2 (by omega) (by omega) (by omega)
          · exact key 3 (by omega) (by omega) (by omega)
    · rw [if_neg hq2, List.getElem?_eq_none (by simp [layerPositions_length]; omega)]

/-! ### the loop over the layers and the whole function -/

/-- state of `for i, rowOffset := 0, 0; i < layers; i++` after `i` layers -/
def OInv (gp : Nat × Nat → Bool) (L : Nat) (c : Bool) (i : Nat) (s : List Int × Int × Int) : Prop :=
  s.2.1 = (i : Int) ∧ ∃ off : Nat, s.2.2 = (off : Int) ∧ off + totalBitsInLayer (L - i) c = totalBitsInLayer L c ∧
    s.1.length = totalBitsInLayer L c ∧
    s.1.take off = ((List.range i).flatMap (layerPositions L c)).map (fun p => b2i (gp p))

when_kernel Gzx.Gen.K11b.extractBits in
theorem body2_step (get : Int → Int → Res Bool) (gp : Nat × Nat → Bool) (L : Nat) (c : Bool)
    (hr : ∀ i, i < L → ReadsOK get gp L c i) (i : Nat) (s : List Int × Int × Int) (hi : i < L) (h : OInv gp L c i s) :
    ∃ s', Gen.K11b.extractBits_body2 get c (L : Int) (baseMatrixSize L c : Nat) (amI L c) s = .next s' ∧ OInv gp L c (i + 1) s' := by
  obtain ⟨st, iI, offI⟩ := s
  obtain ⟨h1, off, h2, h3, h4, h5⟩ := h
  simp only at h1 h2 h4 h5
  subst h1 h2
  have hstep := tb_step L c i hi
  unfold Gen.K11b.extractBits_body2
  dsimp only
  have hc : decide ((i : Int) < (L : Int)) = true := by simp; omega
  rw [hc, if_pos rfl]
  have hrs : (if c = true then ((L : Int) - (i : Int)) * 4 + 9 else ((L : Int) - (i : Int)) * 4 + 12) = ((rsz L c i : Nat) : Int) := by
    unfold rsz; cases c <;> simp <;> omega
  rw [hrs, tripUp_one]
  have ht : (((rsz L c i : Nat) : Int) - 0).toNat = rsz L c i := by omega
  rw [ht]
  obtain ⟨st', e, hinv⟩ := layer_loop get gp L c i off st hi (by omega) (hr i hi) (offI := (off : Int)) (rsI := ((rsz L c i : Nat) : Int))
    (loI := (i : Int) * 2) (hiI := ((baseMatrixSize L c : Nat) : Int) - 1 - (i : Int) * 2) rfl rfl (by omega)
    (by have : i * 2 + 1 ≤ baseMatrixSize L c := by unfold baseMatrixSize; cases c <;> simp <;> omega
        omega)
  rw [e]
  refine ⟨_, rfl, ?_⟩
  refine ⟨by simp, off + 8 * rsz L c i, by simp; omega, by omega, by simp [hinv.1, h4], ?_⟩
  show st'.take (off + 8 * rsz L c i) = _
  rw [LInv_take gp L c i off st st' (by omega) hinv, h5, List.range_succ, List.flatMap_append]
  simp

when_kernel Gzx.Gen.K11b.extractBits in
theorem body2_end (get : Int → Int → Res Bool) (gp : Nat × Nat → Bool) (L : Nat) (c : Bool)
    (s : List Int × Int × Int) (h : OInv gp L c L s) :
    Gen.K11b.extractBits_body2 get c (L : Int) (baseMatrixSize L c : Nat) (amI L c) s = .brk s := by
  obtain ⟨st, iI, offI⟩ := s
  obtain ⟨h1, _⟩ := h
  simp only at h1
  subst h1
  unfold Gen.K11b.extractBits_body2
  simp

when_kernel Gzx.Gen.K11b.extractBits in
theorem body6_eq : @Gen.K11b.extractBits_body6 = @Gen.K11b.extractBits_body2 := rfl

when_kernel Gzx.Gen.K11b.extractBits in
/-- the layer loop from the freshly made `rawbits` -/
theorem layers_loop (get : Int → Int → Res Bool) (gp : Nat × Nat → Bool) (L : Nat) (c : Bool) (fuel : Nat) (hf : L < fuel)
    (hr : ∀ i, i < L → ReadsOK get gp L c i) :
    ∃ s', whileLoop (Gen.K11b.extractBits_body2 get c (L : Int) (baseMatrixSize L c : Nat) (amI L c)) fuel
        (List.replicate (totalBitsInLayer L c) 0, 0, 0) = (.brk s' : Ctl _ (List Int)) ∧
      s'.1 = bitsI ((readPositions L c).map gp) := by
  obtain ⟨s', e, hinv⟩ := while_inv (ρ := List Int) (Gen.K11b.extractBits_body2 get c (L : Int) (baseMatrixSize L c : Nat) (amI L c))
    (OInv gp L c) L (fun i st hi h => body2_step get gp L c hr i st hi h) (fun st h => body2_end get gp L c st h)
    L 0 (List.replicate (totalBitsInLayer L c) 0, 0, 0) fuel (by omega) hf
    ⟨rfl, 0, rfl, by simp, by simp, by simp⟩
  refine ⟨s', e, ?_⟩
  obtain ⟨_, off, _, h3, h4, h5⟩ := hinv
  have h0 : totalBitsInLayer (L - L) c = 0 := by simp [totalBitsInLayer]
  rw [h0] at h3
  rw [List.take_of_length_le (by omega)] at h5
  rw [h5, readPositions, bitsI, List.map_map]; rfl

when_kernel Gzx.Gen.K11b.extractBits in
/-- `Decoder.extractBits` for every layer count, both symbol kinds and EVERY `matrix.Get` that answers on the coordinates
    the walk visits: the regenerated function returns exactly the modules at the model's `readPositions`, in the
    model's order (it needs `layers + 1` units of fuel for the `for i, rowOffset := 0, 0; …` loop) -/
theorem k_extractBits_ok (get : Int → Int → Res Bool) (gp : Nat × Nat → Bool) (L : Nat) (c : Bool) (fuel : Nat) (hf : L < fuel)
    (hr : ∀ i, i < L → ReadsOK get gp L c i) :
    Gen.K11b.extractBits fuel c (L : Int) get = .ok (bitsI ((readPositions L c).map gp)) := by
  obtain ⟨s', e, hs'⟩ := layers_loop get gp L c fuel hf hr
  unfold Gen.K11b.extractBits
  dsimp only
  have hB : (if c = true then (L : Int) * 4 + 11 else (L : Int) * 4 + 14) = ((baseMatrixSize L c : Nat) : Int) := by
    unfold baseMatrixSize; cases c <;> simp
  rw [hB, mk_nat _ (baseMatrixSize L c) rfl]
  simp only [tryR_ok]
  rw [k_totalBitsInLayer_eq]
  simp only [tryR_ok]
  rw [mk_nat _ (totalBitsInLayer L c) rfl]
  simp only [tryR_ok]
  cases c with
  | true =>
    simp only [if_true, tripUp_one, len, List.length_replicate]
    rw [show (((baseMatrixSize L true : Nat) : Int) - 0).toNat = baseMatrixSize L true by omega, am_loop_compact L]
    simp only [next_thenR]
    rw [e]
    simp only [brk_thenR, hs']
  | false =>
    simp only [Bool.false_eq_true, if_false, tripUp_one]
    have q1 : Int.tdiv ((baseMatrixSize L false : Nat) : Int) 2 = ((baseMatrixSize L false / 2 : Nat) : Int) := tdiv_natCast _ 2
    rw [q1]
    have q2 : Int.tdiv (((baseMatrixSize L false / 2 : Nat) : Int) - 1) 15 = (((baseMatrixSize L false / 2 - 1) / 15 : Nat) : Int) := by
      have : ((baseMatrixSize L false / 2 : Nat) : Int) - 1 = ((baseMatrixSize L false / 2 - 1 : Nat) : Int) := by
        have : 1 ≤ baseMatrixSize L false / 2 := by unfold baseMatrixSize; simp; omega
        omega
      rw [this]; exact tdiv_natCast _ 15
    rw [q2]
    have q3 : Int.tdiv (((baseMatrixSize L false : Nat) : Int) + 1 + 2 * (((baseMatrixSize L false / 2 - 1) / 15 : Nat) : Int)) 2
        = (((baseMatrixSize L false + 1 + 2 * ((baseMatrixSize L false / 2 - 1) / 15)) / 2 : Nat) : Int) := by
      have : ((baseMatrixSize L false : Nat) : Int) + 1 + 2 * (((baseMatrixSize L false / 2 - 1) / 15 : Nat) : Int)
          = ((baseMatrixSize L false + 1 + 2 * ((baseMatrixSize L false / 2 - 1) / 15) : Nat) : Int) := by omega
      rw [this]; exact tdiv_natCast _ 2
    rw [q3]
    rw [show (((baseMatrixSize L false / 2 : Nat) : Int) - 0).toNat = baseMatrixSize L false / 2 by omega]
    have := am_loop_full L
    simp only at this
    rw [this]
    simp only [next_thenR, body6_eq]
    rw [e]
    simp only [brk_thenR, hs']

/-! ### against the model's `extractBits` on a concrete matrix -/

/-- `matrix.Get` of a model matrix -/
def getOf (m : Matrix) : Int → Int → Res Bool := fun x y => getBit m x.toNat y.toNat

/-- the module the model reads at a position (false where the model's `Get` fails) -/
def bitOf (m : Matrix) (p : Nat × Nat) : Bool :=
  match getBit m p.1 p.2 with
  | .ok b => b
  | .error _ => false

theorem readAll_ok (m : Matrix) : ∀ (ps : List (Nat × Nat)) (bs : List Bool), readAll m ps = .ok bs →
    bs = ps.map (bitOf m) ∧ ∀ p, p ∈ ps → getBit m p.1 p.2 = .ok (bitOf m p) := by
  intro ps
  induction ps with
  | nil => intro bs h; simp [readAll] at h; subst h; simp
  | cons p ps ih =>
    intro bs h
    simp only [readAll] at h
    cases hg : getBit m p.1 p.2 with
    | error e => rw [hg] at h; simp at h
    | ok b =>
      rw [hg] at h
      cases hr : readAll m ps with
      | error e => rw [hr] at h; simp at h
      | ok bs' =>
        rw [hr] at h
        simp only [Except.ok.injEq] at h
        obtain ⟨h1, h2⟩ := ih bs' hr
        have hb : bitOf m p = b := by simp [bitOf, hg]
        refine ⟨by rw [← h, h1, List.map_cons, hb], ?_⟩
        intro q hq
        rcases List.mem_cons.mp hq with rfl | hq
        · rw [hg, hb]
        · exact h2 q hq

theorem sidePos_mem (L : Nat) (c : Bool) (i s j k : Nat) (hi : i < L) (hs : s < 4) (hj : j < rsz L c i) (hk : k < 2) :
    sidePos L c i s j k ∈ readPositions L c := by
  rw [readPositions, List.mem_flatMap]
  exact ⟨i, List.mem_range.mpr hi, List.mem_of_getElem? (layerPositions_get L c i s j k hs hj hk)⟩

when_kernel Gzx.Gen.K11b.extractBits in
/-- whenever the MODEL extracts the bits of a matrix, the regenerated Go function extracts the same bits -/
theorem k_extractBits_eq_model (m : Matrix) (L : Nat) (c : Bool) (bs : List Bool)
    (h : AztecDecoder.extractBits m L c = .ok bs) :
    Gen.K11b.extractBits (L + 1) c (L : Int) (getOf m) = .ok (bitsI bs) := by
  obtain ⟨h1, h2⟩ := readAll_ok m _ bs h
  rw [h1]
  apply k_extractBits_ok (getOf m) (bitOf m) L c (L + 1) (by omega)
  intro i hi s j k hs hj hk
  have := h2 _ (sidePos_mem L c i s j k hi hs hj hk)
  simpa [getOf] using this

/-- non-vacuity: a 15x15 compact symbol with one layer -/
example : AztecDecoder.extractBits (List.replicate 15 (List.replicate 15 true)) 1 true = .ok (List.replicate 104 true) := by
  decide

end Gzx.Obligations.K11b
