/-
  K11c (wp k11b2) — `Decoder.correctBits` of aztec/decoder/decoder.go, regenerated from /repo on every run
  (`Gzx.Gen.K11b.correctBits`), proved equal to the hand-written model `AztecDecoder.correctBits` FOR ALL ARGUMENTS
  (`k_correctBits_eq`; replaces the former `k_correctBits_samples_partial`, now `k_correctBits_samples`):

    * the codeword size / Galois field by layer count (any `int` layer count: the model sees `layers.toNat`),
    * the chunk loop `for i := 0; i < numCodewords; i, offset = i+1, offset+codewordSize` = `chunkWords`,
    * the Reed-Solomon decoder is an ABSTRACT parameter of both sides (`RSAgree`: the kernel's decoder answers like the
      model's on every field / word list / check-word count and keeps the length of the word slice),
    * the stuffing count loop + the two un-stuffing write loops = `unstuff` (FormatException on a data word 0 or mask,
      `codewordSize-1` equal bits for the words 1 and mask-1, `codewordSize` bits MSB first otherwise),
    * `ecLevel` incl. the integer-divide-by-zero panic of an input shorter than one codeword.
-/
import Gzx.Obligations.K11bCorrect
namespace Gzx.Obligations.K11c
open Gzx Gzx.GoM Gzx.GoVal Gzx.AztecDecoder Gzx.Obligations.K11b

/-! ## model side: `unstuff` as count + pieces -/

/-- what the write loop emits for one data word -/
def piece (w d : Nat) : List Bool :=
  if d = 1 ∨ d = 2 ^ w - 1 - 1 then List.replicate (w - 1) (decide (d > 1)) else wordBits w d

/-- the stuffing count loop of the kernel as a recursion over the data words -/
def countK (ρ : Type) (r : ρ) (mask : Int) : List Nat → Int → Ctl Int ρ
  | [], s => .next s
  | d :: ds, s =>
    if (((d : Int) == 0) || ((d : Int) == mask)) then .ret r
    else countK ρ r mask ds (if (((d : Int) == 1) || ((d : Int) == (mask - 1))) then s + 1 else s)

theorem wordBits_length : ∀ (w d : Nat), (wordBits w d).length = w := by
  intro w
  induction w with
  | zero => intro d; rfl
  | succ w ih => intro d; simp [wordBits, ih]

theorem wordBits_succ : ∀ (n d : Nat), wordBits (n + 1) d = d.testBit n :: wordBits n d := by
  intro n
  induction n with
  | zero => intro d; simp [wordBits, Nat.testBit_zero]; cases Nat.mod_two_eq_zero_or_one d <;> simp_all
  | succ n ih =>
    intro d
    rw [wordBits, ih (d / 2)]
    have : (d / 2).testBit n = d.testBit (n + 1) := by rw [Nat.testBit_succ]
    rw [this]
    conv => rhs; rw [wordBits]
    simp

/-- number of stuffed words -/
def stuffed (w : Nat) : List Nat → Nat
  | [] => 0
  | d :: ds => (if d = 1 ∨ d = 2 ^ w - 1 - 1 then 1 else 0) + stuffed w ds

theorem piece_length (w d : Nat) (hw : 1 ≤ w) :
    (piece w d).length + (if d = 1 ∨ d = 2 ^ w - 1 - 1 then 1 else 0) = w := by
  unfold piece
  split <;> simp [wordBits_length] <;> omega

theorem flatMap_piece_length (w : Nat) (hw : 1 ≤ w) : ∀ ds : List Nat,
    (ds.flatMap (piece w)).length + stuffed w ds = ds.length * w := by
  intro ds
  induction ds with
  | nil => simp [stuffed]
  | cons d ds ih =>
    have := piece_length w d hw
    simp only [List.flatMap_cons, List.length_append, stuffed, List.length_cons, Nat.succ_mul]
    omega

/-- the mask `(1 << w) - 1` of the kernel -/
theorem mask_cast (w : Nat) : GoVal.ishl 1 (w : Int) - 1 = ((2 ^ w - 1 : Nat) : Int) := by
  rw [ishl_one, Nat.one_shiftLeft]
  have : 1 ≤ 2 ^ w := Nat.one_le_two_pow
  omega

/-- a data word that is illegal after error correction -/
def bad (w d : Nat) : Bool := decide (d = 0 ∨ d = 2 ^ w - 1)

/-- the model's `unstuff`: FormatException iff some word is 0 or mask, else the pieces -/
theorem unstuff_spec (w : Nat) : ∀ ds : List Nat,
    unstuff w ds = if ds.any (bad w) then .error .format else .ok (ds.flatMap (piece w)) := by
  intro ds
  induction ds with
  | nil => simp [unstuff]
  | cons d ds ih =>
    by_cases hbad : d = 0 ∨ d = 2 ^ w - 1
    · simp [unstuff, hbad, bad]
    · have hb : bad w d = false := by simp [bad, hbad]
      simp only [unstuff, hbad, if_false, ih, List.any_cons, hb, Bool.false_or]
      by_cases ha : ds.any (bad w) = true
      · simp [ha, bind, Except.bind]
      · simp only [ha, Bool.false_eq_true, if_false, bind, Except.bind, pure, Except.pure, List.flatMap_cons, piece]
        split <;> rfl

/-- the count loop: early FormatException return iff some word is 0 or mask, else the number of stuffed words -/
theorem countK_spec (ρ : Type) (r : ρ) (w : Nat) : ∀ (ds : List Nat) (s : Int),
    countK ρ r ((2 ^ w - 1 : Nat) : Int) ds s =
      if ds.any (bad w) then .ret r else .next (s + (stuffed w ds : Nat)) := by
  intro ds
  induction ds with
  | nil => intro s; simp [countK, stuffed]
  | cons d ds ih =>
    intro s
    have h1 : 1 ≤ 2 ^ w := Nat.one_le_two_pow
    by_cases hbad : d = 0 ∨ d = 2 ^ w - 1
    · have c : ((((d : Int) == 0) || ((d : Int) == ((2 ^ w - 1 : Nat) : Int))) : Bool) = true := by
        simp only [Bool.or_eq_true, beq_iff_eq]; omega
      simp [countK, c, hbad, bad]
    · have c : ((((d : Int) == 0) || ((d : Int) == ((2 ^ w - 1 : Nat) : Int))) : Bool) = false := by
        simp only [Bool.or_eq_false_iff, beq_eq_false_iff_ne, ne_eq]; omega
      have hb : bad w d = false := by simp [bad, hbad]
      simp only [countK, c, Bool.false_eq_true, if_false, ih, List.any_cons, hb, Bool.false_or, stuffed]
      by_cases hst : d = 1 ∨ d = 2 ^ w - 1 - 1
      · have c2 : ((((d : Int) == 1) || ((d : Int) == (((2 ^ w - 1 : Nat) : Int) - 1))) : Bool) = true := by
          simp only [Bool.or_eq_true, beq_iff_eq]; omega
        simp only [c2, if_true, hst]
        split
        · rfl
        · congr 1; omega
      · have c2 : ((((d : Int) == 1) || ((d : Int) == (((2 ^ w - 1 : Nat) : Int) - 1))) : Bool) = false := by
          simp only [Bool.or_eq_false_iff, beq_eq_false_iff_ne, ne_eq]; omega
        simp only [c2, Bool.false_eq_true, if_false, hst]
        split
        · rfl
        · congr 1; omega

/-! ## kernel side -/

theorem setIdx_mid (pre : List Int) (r : Int) (rs : List Int) (e v : Int) (h : e = (pre.length : Int)) :
    setIdx (pre ++ r :: rs) e v = .ok (pre ++ v :: rs) := by
  subst h
  unfold setIdx
  have : ¬ ((pre.length : Int) < 0) := by omega
  simp only [this, if_false, Int.toNat_natCast, List.length_append, List.length_cons]
  rw [if_pos (by omega)]
  simp [List.set_append_right]

when_kernel Gzx.Gen.K11b.correctBits in
theorem chunk_body_out (xs : List Int) (wi Ni oi ii : Int) (dw : List Int) (h : ¬ ii < Ni) :
    Gen.K11b.correctBits_body1 xs wi Ni (oi, dw, ii) = .brk (oi, dw, ii) := by
  unfold Gen.K11b.correctBits_body1
  simp [h]

when_kernel Gzx.Gen.K11b.correctBits in
theorem chunk_body_in (xs : List Int) (w : Nat) (hw1 : 1 ≤ w) (Ni : Int) (off : Nat) (hoff : off + w ≤ xs.length)
    (pre : List Nat) (r : Int) (rs : List Int) (h : (pre.length : Int) < Ni) :
    Gen.K11b.correctBits_body1 xs (w : Int) Ni ((off : Int), words pre ++ r :: rs, (pre.length : Int))
      = .next (((off + w : Nat) : Int),
          words (pre ++ [AztecDecoder.readCode (((boolsOf xs).drop off).take w)]) ++ rs,
          ((pre ++ [AztecDecoder.readCode (((boolsOf xs).drop off).take w)]).length : Int)) := by
  unfold Gen.K11b.correctBits_body1
  have c : decide ((pre.length : Int) < Ni) = true := by simpa using h
  simp only [c, if_true]
  rw [k_readCode_eq]
  have c1 : ¬ ((w : Int) ≤ 0) := by omega
  have c2 : (0 : Int) ≤ (off : Int) ∧ (off : Int) + (w : Int) ≤ (xs.length : Int) := by omega
  simp only [c1, c2, and_self, if_true, if_false, tryC_ok, Int.toNat_natCast]
  rw [setIdx_mid (words pre) r rs _ _ (by simp [words])]
  simp only [tryC_ok]
  have e3 : (off : Int) + (w : Int) = ((off + w : Nat) : Int) := by omega
  rw [e3]
  simp [words]

when_kernel Gzx.Gen.K11b.correctBits in
/-- the chunk loop: `n` more codewords of `w` bits from bit `off` on -/
theorem chunk_loop (xs : List Int) (wi : Int) (w N : Nat) (hw : wi = (w : Int)) (hw1 : 1 ≤ w) :
    ∀ (n off : Nat) (pre : List Nat) (rest : List Int) (fuel : Nat), rest.length = n → pre.length + n = N →
      off + n * w ≤ xs.length → n < fuel →
      whileLoop (Gen.K11b.correctBits_body1 xs wi (N : Int)) fuel ((off : Int), words pre ++ rest, (pre.length : Int))
        = .brk (((off + n * w : Nat) : Int), words (pre ++ chunkWords w n ((boolsOf xs).drop off)), (N : Int)) := by
  subst hw
  intro n
  induction n with
  | zero =>
    intro off pre rest fuel hr hp _ hf
    obtain ⟨fuel, rfl⟩ : ∃ k, fuel = k + 1 := ⟨fuel - 1, by omega⟩
    have : rest = [] := List.length_eq_zero_iff.mp hr
    subst this
    rw [whileLoop_succ, chunk_body_out _ _ _ _ _ _ (by omega)]
    simp only [chunkWords, List.append_nil, Nat.zero_mul, Nat.add_zero]
    congr 3; omega
  | succ n ih =>
    intro off pre rest fuel hr hp hoff hf
    obtain ⟨fuel, rfl⟩ : ∃ k, fuel = k + 1 := ⟨fuel - 1, by omega⟩
    obtain ⟨r, rs, rfl⟩ : ∃ r rs, rest = r :: rs := by
      cases rest with
      | nil => simp at hr
      | cons r rs => exact ⟨r, rs, rfl⟩
    have hmul : (n + 1) * w = n * w + w := Nat.succ_mul n w
    rw [whileLoop_succ, chunk_body_in xs w hw1 _ off (by omega) pre r rs (by omega)]
    simp only []
    rw [ih (off + w) _ rs fuel (by simpa using hr) (by simp; omega) (by omega) (by omega)]
    simp only [chunkWords, List.append_assoc, List.singleton_append, List.drop_drop]
    congr 3
    · omega

when_kernel Gzx.Gen.K11b.correctBits in
theorem count_body (c : List Nat) (mask : Int) (a : Nat) (ha : a < c.length) (s : Int) :
    Gen.K11b.correctBits_body2 (words c) mask (a : Int) s
      = if ((((c[a] : Nat) : Int) == 0) || (((c[a] : Nat) : Int) == mask)) then .ret ([], 0, true)
        else .next (if ((((c[a] : Nat) : Int) == 1) || (((c[a] : Nat) : Int) == (mask - 1))) then s + 1 else s) := by
  unfold Gen.K11b.correctBits_body2
  rw [idx_ofNat (words c) a (by simpa [words] using ha)]
  have hg : (words c)[a]'(by simpa [words] using ha) = ((c[a] : Nat) : Int) := by simp [words]
  simp only [tryC_ok, hg]

when_kernel Gzx.Gen.K11b.correctBits in
/-- the stuffing count loop over `c[a .. a+n)` -/
theorem count_loop (c : List Nat) (mask : Int) : ∀ (n a : Nat) (s : Int), a + n ≤ c.length →
    GoM.loop (Gen.K11b.correctBits_body2 (words c) mask) 1 n (a : Int) s
      = countK (List Int × Int × Bool) ([], 0, true) mask ((c.drop a).take n) s := by
  intro n
  induction n with
  | zero => intro a s _; simp [GoM.loop, countK]
  | succ n ih =>
    intro a s h
    have ha : a < c.length := by omega
    have hd : c.drop a = c[a] :: c.drop (a + 1) := List.drop_eq_getElem_cons ha
    have e : (a : Int) + 1 = ((a + 1 : Nat) : Int) := by omega
    rw [loop_succ, count_body c mask a ha, hd]
    simp only [List.take_succ_cons, countK]
    by_cases hc : (((((c[a] : Nat) : Int) == 0) || (((c[a] : Nat) : Int) == mask)) : Bool) = true
    · simp only [hc, if_true]
    · have hc' : (((((c[a] : Nat) : Int) == 0) || (((c[a] : Nat) : Int) == mask)) : Bool) = false := by simpa using hc
      simp only [hc', Bool.false_eq_true, if_false, e]; rw [ih (a + 1) _ (by omega)]

theorem and_two_pow' (d n : Nat) : d &&& 2 ^ n = if d.testBit n then 2 ^ n else 0 := by
  apply Nat.eq_of_testBit_eq
  intro i
  rw [Nat.testBit_and, Nat.testBit_two_pow]
  by_cases h : n = i
  · subst h; cases hb : d.testBit n <;> simp
  · cases hb : d.testBit n <;> simp [h]

theorem testBit_and_shl (d n : Nat) : ((((d &&& (1 <<< n) : Nat) : Int) != 0) : Bool) = d.testBit n := by
  rw [natCast_bne_zero, Nat.one_shiftLeft, and_two_pow']
  cases d.testBit n <;> simp

when_kernel Gzx.Gen.K11b.correctBits in
theorem bits_body (d n : Nat) (pre : List Int) (r : Int) (rs : List Int) :
    Gen.K11b.correctBits_body5 (d : Int) (n : Int) (pre ++ r :: rs, (pre.length : Int))
      = (.next (pre ++ b2i (d.testBit n) :: rs, (pre.length : Int) + 1) : Ctl (List Int × Int) (List Int × Int × Bool)) := by
  unfold Gen.K11b.correctBits_body5
  rw [shl_of_nonneg _ _ (by omega)]
  simp only [tryC_ok]
  rw [ishl_one, iand_natCast, testBit_and_shl, setIdx_mid pre r rs _ _ rfl]
  simp only [tryC_ok]

when_kernel Gzx.Gen.K11b.correctBits in
/-- the bit loop of an ordinary data word: `n` bits, most significant first -/
theorem bits_loop (d : Nat) : ∀ (n : Nat) (pre rest : List Int), n ≤ rest.length →
    GoM.loop (Gen.K11b.correctBits_body5 (d : Int)) (-1) n ((n : Int) - 1) (pre ++ rest, (pre.length : Int))
      = (.next (pre ++ bitsI (wordBits n d) ++ rest.drop n, ((pre.length + n : Nat) : Int))
          : Ctl (List Int × Int) (List Int × Int × Bool)) := by
  intro n
  induction n with
  | zero => intro pre rest _; simp [GoM.loop, wordBits, bitsI]
  | succ n ih =>
    intro pre rest h
    obtain ⟨r, rs, rfl⟩ : ∃ r rs, rest = r :: rs := by
      cases rest with
      | nil => simp at h
      | cons r rs => exact ⟨r, rs, rfl⟩
    have e0 : ((n + 1 : Nat) : Int) - 1 = (n : Int) := by omega
    rw [loop_succ, e0, bits_body]
    simp only []
    have e1 : pre ++ b2i (d.testBit n) :: rs = (pre ++ [b2i (d.testBit n)]) ++ rs := by simp
    have e2 : (pre.length : Int) + 1 = ((pre ++ [b2i (d.testBit n)]).length : Int) := by simp
    have e3 : (n : Int) + -1 = (n : Int) - 1 := by omega
    rw [e1, e2, e3, ih _ rs (by simpa using h)]
    rw [wordBits_succ]
    simp only [bitsI, List.map_cons, List.append_assoc, List.singleton_append, List.length_append, List.length_cons,
      List.length_nil, List.drop_succ_cons]
    congr 2; omega

when_kernel Gzx.Gen.K11b.correctBits in
/-- one iteration of the write loop: the piece of data word `c[i]` goes to `index …` -/
theorem write_body (c : List Nat) (wi mask : Int) (w : Nat) (hw : wi = (w : Int)) (hw1 : 1 ≤ w)
    (hm : mask = ((2 ^ w - 1 : Nat) : Int)) (i : Nat) (hi : i < c.length) (pre rest : List Int)
    (hr : (piece w c[i]).length ≤ rest.length) :
    Gen.K11b.correctBits_body3 wi (words c) mask (i : Int) (pre ++ rest, (pre.length : Int))
      = .next (pre ++ bitsI (piece w c[i]) ++ rest.drop (piece w c[i]).length,
          ((pre.length + (piece w c[i]).length : Nat) : Int)) := by
  subst hw hm
  unfold Gen.K11b.correctBits_body3
  rw [idx_ofNat (words c) i (by simpa [words] using hi)]
  have hg : (words c)[i]'(by simpa [words] using hi) = ((c[i] : Nat) : Int) := by simp [words]
  simp only [tryC_ok, hg]
  generalize c[i] = d at *
  have h1 : 1 ≤ 2 ^ w := Nat.one_le_two_pow
  have h2 : 2 ≤ 2 ^ w := by
    calc 2 = 2 ^ 1 := rfl
      _ ≤ 2 ^ w := Nat.pow_le_pow_right (by decide) hw1
  by_cases hst : d = 1 ∨ d = 2 ^ w - 1 - 1
  · have c2 : ((((d : Int) == 1) || ((d : Int) == (((2 ^ w - 1 : Nat) : Int) - 1))) : Bool) = true := by
      simp only [Bool.or_eq_true, beq_iff_eq]; omega
    have hp : piece w d = List.replicate (w - 1) (decide (d > 1)) := by simp [piece, hst]
    rw [hp] at hr ⊢
    simp only [List.length_replicate] at hr ⊢
    simp only [c2, if_true, tripUp_one]
    have hn : ((pre.length : Int) + (w : Int) - 1 - (pre.length : Int)).toNat = w - 1 := by omega
    rw [hn]
    have hv : decide ((d : Int) > 1) = decide (d > 1) := by
      by_cases h : d > 1 <;> simp [h] <;> omega
    rw [hv]
    have := fill_loop (ρ := List Int × Int × Bool) (fun _ => b2i (decide (d > 1)))
      (Gen.K11b.correctBits_body4 (decide (d > 1))) (w - 1) pre.length pre rest rfl hr
      (by intro j st _ _; rfl)
    rw [this]
    simp only [next_thenC]
    congr 2
    · simp [bitsI, List.map_replicate, List.eq_replicate_iff]
      intro b x _ _ hb; exact hb.symm
    · omega
  · have c2 : ((((d : Int) == 1) || ((d : Int) == (((2 ^ w - 1 : Nat) : Int) - 1))) : Bool) = false := by
      simp only [Bool.or_eq_false_iff, beq_eq_false_iff_ne, ne_eq]; omega
    have hp : piece w d = wordBits w d := by simp [piece, hst]
    rw [hp] at hr ⊢
    simp only [wordBits_length] at hr ⊢
    simp only [c2, Bool.false_eq_true, if_false, tripDown_one]
    have hn : ((w : Int) - 1 - (-1)).toNat = w := by omega
    rw [hn, bits_loop d w pre rest hr]
    simp only [next_thenC]

when_kernel Gzx.Gen.K11b.correctBits in
/-- the write loop over `c[a .. a+n)` -/
theorem write_loop (c : List Nat) (wi mask : Int) (w : Nat) (hw : wi = (w : Int)) (hw1 : 1 ≤ w)
    (hm : mask = ((2 ^ w - 1 : Nat) : Int)) : ∀ (n a : Nat) (pre rest : List Int), a + n ≤ c.length →
      (((c.drop a).take n).flatMap (piece w)).length ≤ rest.length →
      GoM.loop (Gen.K11b.correctBits_body3 wi (words c) mask) 1 n (a : Int) (pre ++ rest, (pre.length : Int))
        = .next (pre ++ bitsI (((c.drop a).take n).flatMap (piece w))
              ++ rest.drop (((c.drop a).take n).flatMap (piece w)).length,
            ((pre.length + (((c.drop a).take n).flatMap (piece w)).length : Nat) : Int)) := by
  intro n
  induction n with
  | zero => intro a pre rest _ _; simp [GoM.loop, bitsI]
  | succ n ih =>
    intro a pre rest h hr
    have ha : a < c.length := by omega
    have hd : c.drop a = c[a] :: c.drop (a + 1) := List.drop_eq_getElem_cons ha
    rw [hd] at hr ⊢
    simp only [List.take_succ_cons, List.flatMap_cons, List.length_append] at hr ⊢
    rw [loop_succ, write_body c wi mask w hw hw1 hm a ha pre rest (by omega)]
    simp only []
    have e1 : pre ++ bitsI (piece w c[a]) ++ rest.drop (piece w c[a]).length
        = (pre ++ bitsI (piece w c[a])) ++ rest.drop (piece w c[a]).length := rfl
    have e2 : ((pre.length + (piece w c[a]).length : Nat) : Int) = ((pre ++ bitsI (piece w c[a])).length : Int) := by
      simp
    have e : (a : Int) + 1 = ((a + 1 : Nat) : Int) := by omega
    rw [e2, e, ih (a + 1) _ _ (by omega) (by simp only [List.length_drop]; omega)]
    simp only [bitsI, List.map_append, List.append_assoc, List.drop_drop, List.length_append, List.length_map]
    congr 3
    · omega

/-! ## the theorem -/

/-- the Galois-field object (an opaque token in the kernel) that the code picks for a codeword size -/
def tok (g6 g8 g10 g12 : Int) (w : Nat) : Int :=
  if w = 6 then g6 else if w = 8 then g8 else if w = 10 then g10 else g12

/-- the kernel's abstract `rsDecoder.Decode` answers like the model's RS decoder: on success the error flag is clear and
    the (equally long) word slice holds the corrected words; on failure the error flag is set -/
def RSAgree (rs : RSDecoder) (rsI : Int → List Int → Int → Res (Bool × List Int)) (tk : Nat → Int) : Prop :=
  ∀ (w : Nat) (ws : List Nat) (k : Nat),
    match rs w ws k with
    | .ok c => c.length = ws.length ∧ rsI (tk w) (words ws) (k : Int) = .ok (false, words c)
    | .error _ => ∃ junk, rsI (tk w) (words ws) (k : Int) = .ok (true, junk)

theorem rsAgree_id (tk : Nat → Int) : RSAgree rsId rsIdI tk := by
  intro w ws k; exact ⟨rfl, rfl⟩
theorem rsAgree_fail (tk : Nat → Int) : RSAgree rsFail rsFailI tk := by
  intro w ws k; exact ⟨_, rfl⟩

theorem div_nat (a b : Nat) (hb : 1 ≤ b) : GoM.div (a : Int) (b : Int) = .ok ((a / b : Nat) : Int) := by
  unfold GoM.div
  rw [if_neg (by omega), tdiv_natCast]
theorem mod_nat (a b : Nat) (hb : 1 ≤ b) : GoM.mod (a : Int) (b : Int) = .ok ((a % b : Nat) : Int) := by
  unfold GoM.mod
  rw [if_neg (by omega), tmod_natCast]

when_kernel Gzx.Gen.K11b.correctBits in
/-- `correctBits(rawbits)` = the model, for EVERY raw bit slice, every `int` layer count, every data-block count ≥ 0
    and every Reed-Solomon decoder (abstract on both sides, `RSAgree`): same corrected bits and ecLevel, FormatException
    in exactly the same cases (too few codewords, RS failure, a data word 0 or mask), and the same integer-divide-by-zero
    panic when the input is shorter than one codeword. `fuel` bounds the chunk loop (one iteration per codeword). -/
theorem k_correctBits_eq (rs : RSDecoder) (rsI : Int → List Int → Int → Res (Bool × List Int)) (g10 g12 g6 g8 : Int)
    (hrs : RSAgree rs rsI (tok g6 g8 g10 g12)) (xs : List Int) (L : Int) (nd fuel : Nat) (hf : xs.length / 6 < fuel) :
    Gen.K11b.correctBits fuel g10 g12 g6 g8 (nd : Int) L rsI xs
      = expectCB (AztecDecoder.correctBits rs (boolsOf xs) L.toNat nd) := by
  unfold Gen.K11b.correctBits
  simp only []
  generalize hj : (ite (decide (L ≤ 2) = true) _ _ : Int × Int) = j3
  obtain ⟨w, hw4, hj3, hcw⟩ : ∃ w : Nat, (w = 6 ∨ w = 8 ∨ w = 10 ∨ w = 12)
      ∧ j3 = (tok g6 g8 g10 g12 w, (w : Int)) ∧ codewordSize L.toNat = w := by
    subst hj
    simp only [codewordSize]
    by_cases h1 : L ≤ 2
    · exact ⟨6, by simp, by simp [h1, tok], by rw [if_pos (by omega)]⟩
    · by_cases h2 : L ≤ 8
      · exact ⟨8, by simp, by simp [h1, h2, tok], by rw [if_neg (by omega), if_pos (by omega)]⟩
      · by_cases h3 : L ≤ 22
        · exact ⟨10, by simp, by simp [h1, h2, h3, tok], by rw [if_neg (by omega), if_neg (by omega), if_pos (by omega)]⟩
        · exact ⟨12, by simp, by simp [h1, h2, h3, tok], by rw [if_neg (by omega), if_neg (by omega), if_neg (by omega)]⟩
  clear hj
  subst hj3
  simp only []
  have hw1 : 1 ≤ w := by omega
  have hw6 : 6 ≤ w := by omega
  unfold AztecDecoder.correctBits
  rw [hcw]
  simp only [boolsOf_length]
  -- numCodewords
  rw [show len xs = ((xs.length : Nat) : Int) from rfl, div_nat _ _ hw1]
  simp only [tryR_ok]
  generalize hN : xs.length / w = N
  have hNf : N < fuel := by
    have : xs.length / w ≤ xs.length / 6 := Nat.div_le_div_left hw6 (by decide)
    omega
  by_cases hlt : N < nd
  · have c : decide ((N : Int) < (nd : Int)) = true := by simp; omega
    simp only [c, if_true, hlt, expectCB]
  · have c : decide ((N : Int) < (nd : Int)) = false := by simp; omega
    simp only [c, Bool.false_eq_true, if_false, hlt]
    rw [mod_nat _ _ hw1, mk_words _ N rfl]
    simp only [tryR_ok]
    have hoff : xs.length % w + N * w ≤ xs.length := by
      have := Nat.mod_add_div xs.length w
      rw [hN, Nat.mul_comm] at this
      omega
    have hch : whileLoop (Gen.K11b.correctBits_body1 xs (w : Int) (N : Int)) fuel
          (((xs.length % w : Nat) : Int), words (List.replicate N 0), 0) = _ :=
      chunk_loop xs (w : Int) w N rfl hw1 N (xs.length % w) [] (words (List.replicate N 0)) fuel
        (by simp [words]) (by simp) hoff hNf
    rw [hch]
    simp only [brk_thenR, List.nil_append]
    have hk : (N : Int) - (nd : Int) = ((N - nd : Nat) : Int) := by omega
    rw [hk]
    have hdl : (chunkWords w N (List.drop (xs.length % w) (boolsOf xs))).length = N := by
      generalize List.drop (xs.length % w) (boolsOf xs) = bs
      clear hch hoff hN hNf hlt c hk
      induction N generalizing bs with
      | zero => rfl
      | succ n ih => simp [chunkWords, ih]
    generalize chunkWords w N (List.drop (xs.length % w) (boolsOf xs)) = dw at hdl ⊢
    have hr := hrs w dw (N - nd)
    cases hrsr : rs w dw (N - nd) with
    | error e =>
      rw [hrsr] at hr
      obtain ⟨junk, hj⟩ := hr
      rw [hj]
      simp [expectCB]
    | ok c =>
      rw [hrsr] at hr
      obtain ⟨hlen, hj⟩ := hr
      rw [hj]
      simp only [tryR_ok, bne_self_eq_false, Bool.false_eq_true, if_false]
      rw [shl_of_nonneg _ _ (by omega)]
      simp only [tryR_ok, mask_cast, tripUp_one]
      have hnd : ((nd : Int) - 0).toNat = nd := by omega
      rw [hnd]
      have hcl : GoM.loop (Gen.K11b.correctBits_body2 (words c) ((2 ^ w - 1 : Nat) : Int)) 1 nd 0 0 = _ :=
        count_loop c _ nd 0 0 (by omega)
      rw [hcl, List.drop_zero, countK_spec, unstuff_spec]
      have htl : (c.take nd).length = nd := by simp; omega
      by_cases hb : (c.take nd).any (bad w) = true
      · simp [hb, expectCB, bind, Except.bind]
      · simp only [hb, Bool.false_eq_true, if_false, next_thenR]
        have hfl := flatMap_piece_length w hw1 (c.take nd)
        rw [htl] at hfl
        generalize hF : (c.take nd).flatMap (piece w) = F at hfl ⊢
        have hmk : (nd : Int) * (w : Int) - (0 + ((stuffed w (c.take nd) : Nat) : Int)) = ((F.length : Nat) : Int) := by
          rw [← Int.natCast_mul]; omega
        rw [hmk, mk_words _ F.length rfl]
        simp only [tryR_ok]
        have hwl : GoM.loop (Gen.K11b.correctBits_body3 (w : Int) (words c) ((2 ^ w - 1 : Nat) : Int)) 1 nd 0
              (words (List.replicate F.length 0), 0) = _ :=
          write_loop c (w : Int) _ w rfl hw1 rfl nd 0 [] (words (List.replicate F.length 0)) (by omega)
            (by rw [List.drop_zero, hF]; simp [words])
        rw [hwl, List.drop_zero, hF]
        simp only [next_thenR, List.nil_append]
        by_cases hN0 : N = 0
        · subst hN0
          simp [GoM.div, expectCB, bind, Except.bind]
        · have hdv : GoM.div (100 * ((N - nd : Nat) : Int)) (N : Int) = .ok (((100 * (N - nd) / N : Nat)) : Int) := by
            have := div_nat (100 * (N - nd)) N (by omega)
            rw [← this]; congr 1
          rw [hdv]
          simp [hN0, expectCB, bind, Except.bind, pure, Except.pure, words]

/-- non-vacuity: the hypotheses hold for the decoders of the sample theorem, and the three outcomes occur -/
example : RSAgree rsId rsIdI (tok 6 8 10 12) := rsAgree_id _
example : RSAgree rsFail rsFailI (tok 6 8 10 12) := rsAgree_fail _

end Gzx.Obligations.K11c
