/-
  K11c (wp k11b2) — the Aztec high-level decoder of aztec/decoder/decoder.go regenerated from /repo on every run
  (`Gzx.Gen.K11c`: `readCode`, `getTable`, `getCharacter` with the five `[]string` tables as tables of byte lists,
  `getEncodedData` = `HighLevelDecode`), against the model `Model/AztecDecoder.lean` §5:

    * `k_readCode_eq'`: `readCode` for all arguments (the same text as Gen.K11b.readCode),
    * `k_getTable_eq`: `getTable(t)` for every byte,
    * `k_getCharacter_eq`: `getCharacter(table, code)` for every table value and every code ≥ 0 = the model's
      `getCharacter` on the classified tables (`TablesAgreeA`, decided for the reference tables: `tablesA_ref`).
-/
import Gzx.Gen.K11c
import Gzx.Obligations.K11b
import Gzx.Proofs.AztecLink
namespace Gzx.Obligations.K11c
open Gzx Gzx.GoM Gzx.GoVal Gzx.AztecDecoder Gzx.Obligations.K11b

when_kernel Gzx.Gen.K11c.readCode in
theorem readCode_same : Gen.K11c.readCode = Gen.K11b.readCode := rfl

when_kernel Gzx.Gen.K11c.readCode in
/-- `readCode(rawbits, startIndex, length)` for ALL arguments (see `K11b.k_readCode_eq`) -/
theorem k_readCode_eq' (xs : List Int) (s l : Int) :
    Gen.K11c.readCode xs s l =
      if l ≤ 0 then .ok 0
      else if 0 ≤ s ∧ s + l ≤ (xs.length : Int) then
        .ok ((AztecDecoder.readCode (((boolsOf xs).drop s.toNat).take l.toNat) : Nat) : Int)
      else .error oob := by
  rw [readCode_same]; exact k_readCode_eq xs s l

/-- the Go `Table` constants -/
def tableCode : Table → Int
  | .upper => 0 | .lower => 1 | .mixed => 2 | .digit => 3 | .punct => 4 | .binary => 5

set_option maxRecDepth 100000 in
when_kernel Gzx.Gen.K11c.getTable in
/-- `getTable(t)` for every byte -/
theorem k_getTable_eq (t : Nat) (ht : t < 256) :
    Gen.K11c.getTable (t : Int) = .ok (tableCode (AztecDecoder.getTable (Char.ofNat t))) := by
  have : ∀ t : Fin 256, Gen.K11c.getTable ((t.val : Nat) : Int) = .ok (tableCode (AztecDecoder.getTable (Char.ofNat t.val))) := by
    decide +kernel
  exact this ⟨t, ht⟩

/-- how `getEncodedData` classifies a table string, on its bytes (cf. `AztecDecoder.classify` on `String`) -/
def classifyB (s : List Int) : Option DEntry :=
  if s = [70, 76, 71, 40, 110, 41] then some .flg
  else if hasPrefix s [67, 84, 82, 76, 95] then
    match s.drop 5 with
    | t :: l :: _ => some (.ctrl (AztecDecoder.getTable (Char.ofNat t.toNat)) (l == 76))
    | _ => none
  else some (.lit (s.map Int.toNat))

when_kernel Gzx.Gen.K11c.getCharacter in
/-- the model's tables are the regenerated tables, classified -/
def TablesAgreeA (T : Tables) : Prop :=
  Gen.K11c.tbl_UPPER_TABLE.mapM classifyB = some T.upper ∧ Gen.K11c.tbl_LOWER_TABLE.mapM classifyB = some T.lower
  ∧ Gen.K11c.tbl_MIXED_TABLE.mapM classifyB = some T.mixed ∧ Gen.K11c.tbl_PUNCT_TABLE.mapM classifyB = some T.punct
  ∧ Gen.K11c.tbl_DIGIT_TABLE.mapM classifyB = some T.digit
  ∧ (∀ s ∈ Gen.K11c.tbl_UPPER_TABLE ++ Gen.K11c.tbl_LOWER_TABLE ++ Gen.K11c.tbl_MIXED_TABLE ++ Gen.K11c.tbl_PUNCT_TABLE
      ++ Gen.K11c.tbl_DIGIT_TABLE, ∀ x ∈ s, 0 ≤ x ∧ x < 256)

when_kernel Gzx.Gen.K11c.getCharacter in
instance (T : Tables) : Decidable (TablesAgreeA T) := by unfold TablesAgreeA; infer_instance

set_option maxRecDepth 100000 in
when_kernel Gzx.Gen.K11c.getCharacter in
/-- the regenerated `[]string` tables, classified, are the reference tables of ISO/IEC 24778 -/
theorem tablesA_ref : TablesAgreeA AztecLink.refTables := by decide

theorem mapM_some_spec {α β : Type} (f : α → Option β) : ∀ (xs : List α) (ys : List β), xs.mapM f = some ys →
    xs.length = ys.length ∧ ∀ (i : Nat) (h : i < xs.length) (h' : i < ys.length), f xs[i] = some ys[i]
  | [], ys, h => by
    simp at h; subst h; simp
  | x :: xs, ys, h => by
    simp only [List.mapM_cons, bind, Option.bind] at h
    cases hx : f x with
    | none => simp [hx] at h
    | some y =>
      simp only [hx] at h
      cases hr : xs.mapM f with
      | none => simp [hr] at h
      | some ys' =>
        simp only [hr, pure, Option.some.injEq] at h
        subst h
        obtain ⟨hl, hp⟩ := mapM_some_spec f xs ys' hr
        refine ⟨by simp [hl], ?_⟩
        intro i h1 h2
        cases i with
        | zero => simpa using hx
        | succ i => simpa using hp i (by simpa using h1) (by simpa using h2)

/-- the code test and the checked read of `getCharacter` -/
def lookK (tbl : List (List Int)) (code : Int) : Res (List Int × Bool) :=
  if decide (code ≥ Int.ofNat tbl.length) = true then .ok ([], true)
  else tryR (idxLL tbl code) fun t => .ok (t, false)

/-- a checked read of a classified table -/
theorem lookup_agree (tbl : List (List Int)) (ds : List DEntry) (h : tbl.mapM classifyB = some ds) (code : Nat) :
    (∃ s e, s ∈ tbl ∧ ds[code]? = some e ∧ classifyB s = some e ∧ lookK tbl (code : Int) = .ok (s, false))
    ∨ (ds[code]? = none ∧ lookK tbl (code : Int) = .ok ([], true)) := by
  obtain ⟨hl, hp⟩ := mapM_some_spec classifyB tbl ds h
  unfold lookK
  by_cases hc : code < ds.length
  · left
    have hd : decide (((code : Nat) : Int) ≥ Int.ofNat tbl.length) = false := by simp; omega
    refine ⟨tbl[code]'(by omega), ds[code], List.getElem_mem _, by simp [hc], hp code (by omega) hc, ?_⟩
    rw [hd]
    unfold idxLL
    have : ¬ ((code : Int) < 0) := by omega
    simp [this, show code < tbl.length by omega]
  · right
    have hd : decide (((code : Nat) : Int) ≥ Int.ofNat tbl.length) = true := by simp; omega
    refine ⟨by simp; omega, ?_⟩
    rw [hd]; rfl

when_kernel Gzx.Gen.K11c.getCharacter in
theorem getCharacter_unfold (code : Int) :
    Gen.K11c.getCharacter 0 code = lookK Gen.K11c.tbl_UPPER_TABLE code
    ∧ Gen.K11c.getCharacter 1 code = lookK Gen.K11c.tbl_LOWER_TABLE code
    ∧ Gen.K11c.getCharacter 2 code = lookK Gen.K11c.tbl_MIXED_TABLE code
    ∧ Gen.K11c.getCharacter 4 code = lookK Gen.K11c.tbl_PUNCT_TABLE code
    ∧ Gen.K11c.getCharacter 3 code = lookK Gen.K11c.tbl_DIGIT_TABLE code
    ∧ Gen.K11c.getCharacter 5 code = .ok ([], true) := ⟨rfl, rfl, rfl, rfl, rfl, rfl⟩

when_kernel Gzx.Gen.K11c.getCharacter in
/-- `getCharacter(table, code)` for every table and every code ≥ 0: the string whose classification is the model's entry,
    or the FormatException of a code beyond the table / of the binary "table" -/
theorem k_getCharacter_eq (T : Tables) (hT : TablesAgreeA T) (tb : Table) (code : Nat) :
    (∃ s e, AztecDecoder.getCharacter T tb code = .ok e ∧ classifyB s = some e ∧ (∀ x ∈ s, 0 ≤ x ∧ x < 256) ∧
        Gen.K11c.getCharacter (tableCode tb) (code : Int) = .ok (s, false))
    ∨ (AztecDecoder.getCharacter T tb code = .error .format ∧ Gen.K11c.getCharacter (tableCode tb) (code : Int) = .ok ([], true)) := by
  obtain ⟨h1, h2, h3, h4, h5, hby⟩ := hT
  obtain ⟨u0, u1, u2, u4, u3, u5⟩ := getCharacter_unfold (code : Int)
  unfold AztecDecoder.getCharacter
  cases tb with
  | upper =>
    simp only [tableCode, u0]
    rcases lookup_agree _ _ h1 code with ⟨s, e, hm, he, hc, hk⟩ | ⟨he, hk⟩
    · left; exact ⟨s, e, by simp [he], hc, hby s (by simp [hm]), hk⟩
    · right; exact ⟨by simp [he], hk⟩
  | lower =>
    simp only [tableCode, u1]
    rcases lookup_agree _ _ h2 code with ⟨s, e, hm, he, hc, hk⟩ | ⟨he, hk⟩
    · left; exact ⟨s, e, by simp [he], hc, hby s (by simp [hm]), hk⟩
    · right; exact ⟨by simp [he], hk⟩
  | mixed =>
    simp only [tableCode, u2]
    rcases lookup_agree _ _ h3 code with ⟨s, e, hm, he, hc, hk⟩ | ⟨he, hk⟩
    · left; exact ⟨s, e, by simp [he], hc, hby s (by simp [hm]), hk⟩
    · right; exact ⟨by simp [he], hk⟩
  | punct =>
    simp only [tableCode, u4]
    rcases lookup_agree _ _ h4 code with ⟨s, e, hm, he, hc, hk⟩ | ⟨he, hk⟩
    · left; exact ⟨s, e, by simp [he], hc, hby s (by simp [hm]), hk⟩
    · right; exact ⟨by simp [he], hk⟩
  | digit =>
    simp only [tableCode, u3]
    rcases lookup_agree _ _ h5 code with ⟨s, e, hm, he, hc, hk⟩ | ⟨he, hk⟩
    · left; exact ⟨s, e, by simp [he], hc, hby s (by simp [hm]), hk⟩
    · right; exact ⟨by simp [he], hk⟩
  | binary => right; simp [tableCode, u5]

end Gzx.Obligations.K11c
