/-
  K11c (wp k11b2) — `getEncodedData` (= `HighLevelDecode`) of aztec/decoder/decoder.go, regenerated from /repo on every run
  (`Gzx.Gen.K11c.getEncodedData`: the `for index < endIndex` loop, the binary shift with its two length forms and its byte
  loop, the code read by table, `getCharacter`, FLG(n) with its `switch` — FNC1, the reserved FLG(7), the ECI digits loop,
  the unregistered-ECI repair —, the latch / shift bookkeeping, the text appended to the byte buffer, the final flush),
  proved equal to the model `AztecDecoder.getEncodedData` (`k_getEncodedData_eq`).  The character-set machinery is
  UNINTERPRETED on both sides: `transform.Append(enc.NewDecoder(), result, bytes)` is an abstract parameter that appends
  `render enc bytes`, `common.GetCharacterSetECIByValue` / `GetCharset` are abstract parameters that agree with the
  model's `registered` predicate (`AbsOK`).
-/
import Gzx.Obligations.K11cData
namespace Gzx.Obligations.K11c
open Gzx Gzx.GoM Gzx.GoVal Gzx.AztecDecoder Gzx.Obligations.K11b

/-- bytes of the model as kernel values -/
abbrev nb (bs : List Nat) : List Int := bs.map Int.ofNat

theorem splitN?_eq {α : Type} : ∀ (k : Nat) (bs : List α),
    splitN? k bs = if k ≤ bs.length then some (bs.take k, bs.drop k) else none
  | 0, bs => by simp [splitN?]
  | k + 1, [] => by simp [splitN?]
  | k + 1, b :: bs => by
    simp only [splitN?, splitN?_eq k bs, List.length_cons]
    by_cases h : k ≤ bs.length
    · simp [h]
    · simp [h]

/-! ## the uninterpreted character-set machinery -/

structure AbsOK (reg : Nat → Bool) (byValue : Int → Res (Int × Bool))
    (app : Int → List Int → List Int → Res (List Int × Bool)) (render : Int → List Int → List Int) : Prop where
  app_ok : ∀ enc r d, app enc r d = .ok (r ++ render enc d, false)
  render_nil : ∀ enc, render enc [] = []
  eci : ∀ n : Nat, ∃ t e, byValue (n : Int) = .ok (t, e) ∧ ((e = true ∨ t = -1) ↔ (n ≥ 900 ∨ reg n = false))

/-- the `*CharacterSetECI` token of an ECI value -/
def tokOf (byValue : Int → Res (Int × Bool)) (n : Nat) : Int :=
  match byValue (n : Int) with
  | .ok (t, _) => t
  | .error _ => -1

/-- the `encoding.Encoding` token of the model's character set -/
def encTok (d0 : Int) (byValue : Int → Res (Int × Bool)) (getCharset : Int → Int) : Option Nat → Int
  | none => d0
  | some n => getCharset (tokOf byValue n)

/-- the bytes `result` holds for the model's segments -/
def renderSegs (tk : Option Nat → Int) (render : Int → List Int → List Int) (segs : List Seg) : List Int :=
  segs.flatMap (fun s => match s with
    | .enc e bs => render (tk e) (nb bs)
    | .raw bs => nb bs)

/-- the Go data state `(result, decodedBytes, encoding)` against the model's -/
structure DRel (tk : Option Nat → Int) (render : Int → List Int → List Int) (res dec : List Int) (enc : Int) (d : Data) : Prop where
  hres : res = renderSegs tk render d.result
  hdec : dec = nb d.decoded
  henc : enc = tk d.enc

theorem DRel.flush {tk : Option Nat → Int} {render : Int → List Int → List Int} (hn : ∀ enc, render enc [] = [])
    {res dec : List Int} {enc : Int} {d : Data} (h : DRel tk render res dec enc d) :
    DRel tk render (res ++ render enc dec) [] enc d.flush := by
  unfold Data.flush
  by_cases he : d.decoded.isEmpty
  · have : d.decoded = [] := List.isEmpty_iff.mp he
    simp only [he, if_true]
    refine ⟨?_, by simp [this], h.henc⟩
    rw [h.hdec, this]; simp [hn, h.hres]
  · simp only [he, Bool.false_eq_true, if_false]
    refine ⟨?_, rfl, h.henc⟩
    simp [renderSegs, h.hres, h.hdec, h.henc]

theorem DRel.bytes {tk : Option Nat → Int} {render : Int → List Int → List Int}
    {res dec : List Int} {enc : Int} {d : Data} (h : DRel tk render res dec enc d) (bs : List Nat) :
    DRel tk render res (dec ++ nb bs) enc (d.apply (.bytes bs)) :=
  ⟨h.hres, by simp [Data.apply, h.hdec], h.henc⟩

/-! ## reads and the two inner loops -/

when_kernel Gzx.Gen.K11c.readCode in
theorem readK (xs : List Int) (idx k : Nat) (ii ki : Int) (hi : ii = (idx : Int)) (hki : ki = (k : Int)) (hk : 0 < k)
    (h : idx + k ≤ xs.length) :
    Gen.K11c.readCode xs ii ki = .ok ((AztecDecoder.readCode (((boolsOf xs).drop idx).take k) : Nat) : Int) := by
  subst hi hki
  rw [k_readCode_eq']
  have c1 : ¬ ((k : Int) ≤ 0) := by omega
  have c2 : (0 : Int) ≤ (idx : Int) ∧ (idx : Int) + (k : Int) ≤ (xs.length : Int) := by omega
  rw [if_neg c1, if_pos c2]
  simp

theorem readCode_take_lt (bs : List Bool) (k : Nat) : AztecDecoder.readCode (bs.take k) < 2 ^ k := by
  have := model_readCode_lt (bs.take k)
  have hl : (bs.take k).length ≤ k := by simp; omega
  exact Nat.lt_of_lt_of_le this (Nat.pow_le_pow_right (by decide) hl)

abbrev RG := List Int × Bool

when_kernel Gzx.Gen.K11c.getEncodedData in
theorem body3_same : Gen.K11c.getEncodedData_body3 = Gen.K11c.getEncodedData_body2 := rfl

when_kernel Gzx.Gen.K11c.getEncodedData in
/-- the byte loop of a binary shift = the model's `takeBytes` -/
theorem bytes_loop (xs : List Int) : ∀ (n : Nat) (i0 : Int) (idx : Nat) (acc : List Nat) (dec : List Int), idx ≤ xs.length →
    ∃ idx', idx ≤ idx' ∧ idx' ≤ xs.length ∧ (takeBytes n ((boolsOf xs).drop idx) acc).2 = (boolsOf xs).drop idx' ∧
      ∀ {σ : Type} (k' : List Int × Int → Ctl σ RG),
        (GoM.loop (Gen.K11c.getEncodedData_body2 xs (xs.length : Int)) 1 n i0 (dec ++ nb acc, (idx : Int))).thenC k'
          = k' (dec ++ nb (takeBytes n ((boolsOf xs).drop idx) acc).1, (idx' : Int)) := by
  intro n
  induction n with
  | zero =>
    intro i0 idx acc dec h
    exact ⟨idx, Nat.le_refl _, h, rfl, fun k' => rfl⟩
  | succ n ih =>
    intro i0 idx acc dec h
    by_cases hs : xs.length - idx < 8
    · have hsp0 : splitN? 8 ((boolsOf xs).drop idx) = none := by
        rw [splitN?_eq, if_neg (by simp; omega)]
      refine ⟨xs.length, h, Nat.le_refl _, ?_, ?_⟩
      · simp only [takeBytes, hsp0]
        rw [List.drop_eq_nil_of_le (by simp)]
      · intro σ k'
        rw [loop_succ]
        unfold Gen.K11c.getEncodedData_body2
        have c : decide ((xs.length : Int) - (idx : Int) < 8) = true := by simp; omega
        simp only [c, if_true]
        simp only [takeBytes, hsp0]
        rfl
    · have hsp : splitN? 8 ((boolsOf xs).drop idx) = some (((boolsOf xs).drop idx).take 8, (boolsOf xs).drop (idx + 8)) := by
        rw [splitN?_eq, if_pos (by simp; omega)]; simp [List.drop_drop]
      obtain ⟨idx', h1, h2, h3, h4⟩ := ih (i0 + 1) (idx + 8) (acc ++ [AztecDecoder.readCode (((boolsOf xs).drop idx).take 8)]) dec (by omega)
      refine ⟨idx', by omega, h2, ?_, ?_⟩
      · simp only [takeBytes, hsp]; exact h3
      · intro σ k'
        rw [loop_succ]
        have hstep : Gen.K11c.getEncodedData_body2 xs (xs.length : Int) i0 (dec ++ nb acc, (idx : Int))
            = .next (dec ++ nb (acc ++ [AztecDecoder.readCode (((boolsOf xs).drop idx).take 8)]), ((idx + 8 : Nat) : Int)) := by
          unfold Gen.K11c.getEncodedData_body2
          have c : decide ((xs.length : Int) - (idx : Int) < 8) = false := by simp; omega
          simp only [c, Bool.false_eq_true, if_false]
          rw [readK xs idx 8 (idx : Int) 8 rfl rfl (by decide) (by omega)]
          simp only [tryC_ok]
          have hlt := readCode_take_lt ((boolsOf xs).drop idx) 8
          have hw : wrap 8 ((AztecDecoder.readCode (((boolsOf xs).drop idx).take 8) : Nat) : Int)
              = ((AztecDecoder.readCode (((boolsOf xs).drop idx).take 8) : Nat) : Int) := by
            unfold wrap; omega
          rw [hw]
          simp [nb]
        rw [hstep]
        simp only []
        rw [h4 k']
        simp only [takeBytes, hsp]

when_kernel Gzx.Gen.K11c.getEncodedData in
/-- the ECI digits loop = the model's `readDigits` (the bits are there: the length test precedes the loop) -/
theorem digits_loop (xs : List Int) (res2 : List Int) : ∀ (n idx eci f : Nat), idx + 4 * n ≤ xs.length → n < f →
    (readDigits n ((boolsOf xs).drop idx) eci = .error .format ∧
      whileLoop (Gen.K11c.getEncodedData_body4 xs res2) f ((idx : Int), (n : Int), (eci : Int)) = .ret (res2, true))
    ∨ (∃ e' : Nat, readDigits n ((boolsOf xs).drop idx) eci = .ok (e', (boolsOf xs).drop (idx + 4 * n)) ∧
      whileLoop (Gen.K11c.getEncodedData_body4 xs res2) f ((idx : Int), (n : Int), (eci : Int))
        = .brk (((idx + 4 * n : Nat) : Int), 0, (e' : Int))) := by
  intro n
  induction n with
  | zero =>
    intro idx eci f _ hf
    obtain ⟨f, rfl⟩ : ∃ k, f = k + 1 := ⟨f - 1, by omega⟩
    right
    refine ⟨eci, by simp [readDigits], ?_⟩
    rw [whileLoop_succ]
    unfold Gen.K11c.getEncodedData_body4
    simp
  | succ n ih =>
    intro idx eci f h hf
    obtain ⟨f, rfl⟩ : ∃ k, f = k + 1 := ⟨f - 1, by omega⟩
    have hsp : splitN? 4 ((boolsOf xs).drop idx) = some (((boolsOf xs).drop idx).take 4, (boolsOf xs).drop (idx + 4)) := by
      rw [splitN?_eq, if_pos (by simp; omega)]; simp [List.drop_drop]
    generalize hd : AztecDecoder.readCode (((boolsOf xs).drop idx).take 4) = dg at *
    have hbody : Gen.K11c.getEncodedData_body4 xs res2 ((idx : Int), ((n + 1 : Nat) : Int), (eci : Int))
        = if dg < 2 ∨ dg > 11 then .ret (res2, true)
          else .next (((idx + 4 : Nat) : Int), (n : Int), ((eci * 10 + (dg - 2) : Nat) : Int)) := by
      unfold Gen.K11c.getEncodedData_body4
      have c : decide ((((n + 1 : Nat) : Int)) > 0) = true := by simp
      simp only [c, if_true]
      rw [readK xs idx 4 (idx : Int) 4 rfl rfl (by decide) (by omega), hd]
      simp only [tryC_ok]
      by_cases hb : dg < 2 ∨ dg > 11
      · have cb : (decide (((dg : Nat) : Int) < 2) || decide (((dg : Nat) : Int) > 11)) = true := by
          simp only [Bool.or_eq_true, decide_eq_true_eq]; omega
        simp only [cb, if_true, hb]
      · have cb : (decide (((dg : Nat) : Int) < 2) || decide (((dg : Nat) : Int) > 11)) = false := by
          simp only [Bool.or_eq_false_iff, decide_eq_false_iff_not]; omega
        simp only [cb, Bool.false_eq_true, if_false, hb]
        have e1 : (idx : Int) + 4 = ((idx + 4 : Nat) : Int) := by omega
        have e2 : ((n + 1 : Nat) : Int) - 1 = (n : Int) := by omega
        have e3 : (eci : Int) * 10 + ((dg : Int) - 2) = ((eci * 10 + (dg - 2) : Nat) : Int) := by omega
        rw [e1, e2, e3]
    rw [whileLoop_succ, hbody]
    simp only [readDigits, hsp, hd]
    by_cases hb : dg < 2 ∨ dg > 11
    · left; simp [hb]
    · simp only [hb, if_false]
      rcases ih (idx + 4) (eci * 10 + (dg - 2)) f (by omega) (by omega) with ⟨h1, h2⟩ | ⟨e', h1, h2⟩
      · left; exact ⟨h1, h2⟩
      · right
        refine ⟨e', ?_, ?_⟩
        · rw [h1]; congr 3; omega
        · rw [h2]; congr 3; omega

/-! ## the main loop -/

abbrev SG := Int × Int × List Int × List Int × Int × Int

/-- what the kernel must answer for the model's events from the data state `d` on -/
def GAgrees (tk : Option Nat → Int) (render : Int → List Int → List Int) (k : Res RG) (d : Data) : Res (List Event) → Prop
  | .ok evs => k = .ok (renderSegs tk render ((evs.foldl Data.apply d).flush.result), false)
  | .error .format => ∃ r, k = .ok (r, true)
  | .error _ => False

theorem GAgrees_map {tk : Option Nat → Int} {render : Int → List Int → List Int} {k : Res RG} {d : Data} (ev : List Event)
    {r : Res (List Event)} (h : GAgrees tk render k (ev.foldl Data.apply d) r) :
    GAgrees tk render k d (r.map (ev ++ ·)) := by
  cases r with
  | error e => cases e <;> simpa [GAgrees, Except.map] using h
  | ok evs => simpa [GAgrees, Except.map, List.foldl_append] using h

/-- one unrolling of a `for cond` loop, with the continuation named -/
def contW {σ ρ : Type} (W : σ → Ctl σ ρ) (c : Ctl σ ρ) : Ctl σ ρ :=
  match c with
  | .next st' => W st'
  | .brk st' => .brk st'
  | .ret r => .ret r
  | .panic f => .panic f

theorem whileLoop_succ' {σ ρ : Type} (body : σ → Ctl σ ρ) (n : Nat) (st : σ) :
    whileLoop body (n + 1) st = contW (whileLoop body n) (body st) := rfl

@[simp] theorem contW_next {σ ρ : Type} (W : σ → Ctl σ ρ) (s : σ) : contW W (.next s) = W s := rfl
@[simp] theorem contW_brk {σ ρ : Type} (W : σ → Ctl σ ρ) (s : σ) : contW W (.brk s : Ctl σ ρ) = .brk s := rfl
@[simp] theorem contW_ret {σ ρ : Type} (W : σ → Ctl σ ρ) (r : ρ) : contW W (.ret r : Ctl σ ρ) = .ret r := rfl
@[simp] theorem contW_panic {σ ρ : Type} (W : σ → Ctl σ ρ) (f : Fault) : contW W (.panic f : Ctl σ ρ) = .panic f := rfl

theorem tableCode_inj (a b : Table) : (tableCode a == tableCode b) = decide (a = b) := by
  cases a <;> cases b <;> rfl

theorem slice00 (xs : List Int) : GoM.slice xs 0 0 = .ok [] := by
  unfold GoM.slice; simp

section
variable (T : Tables) (reg : Nat → Bool) (d0 : Int) (byValue : Int → Res (Int × Bool)) (getCharset : Int → Int)
  (app : Int → List Int → List Int → Res (List Int × Bool)) (render : Int → List Int → List Int)

/-- the continuation after the loop: the final flush -/
def finK : SG → Res RG := fun st =>
  tryR (app st.2.2.2.2.1 st.2.2.1 st.2.2.2.1) fun t => if (t.2 != false) = true then .ok (t.1, true) else .ok (t.1, false)

theorem finK_ok (hA : AbsOK reg byValue app render) {res dec : List Int} {enc : Int} {d : Data}
    (hR : DRel (encTok d0 byValue getCharset) render res dec enc d) (l s i : Int) :
    GAgrees (encTok d0 byValue getCharset) render (finK app (l, s, res, dec, enc, i)) d (.ok []) := by
  have := (hR.flush hA.render_nil).hres
  simp [GAgrees, finK, hA.app_ok, this]

when_kernel Gzx.Gen.K11c.getEncodedData in
theorem ged_exit (hA : AbsOK reg byValue app render) (F : Nat) (xs : List Int) (idx : Nat) (hidx : xs.length ≤ idx)
    (c : AztecDecoder.Ctl) {res dec : List Int} {enc : Int} {d : Data}
    (hR : DRel (encTok d0 byValue getCharset) render res dec enc d) (fm f : Nat) :
    GAgrees (encTok d0 byValue getCharset) render
      ((whileLoop (Gen.K11c.getEncodedData_body1 F app byValue getCharset xs (xs.length : Int)) (f + 1)
          (tableCode c.latch, tableCode c.shift, res, dec, enc, (idx : Int))).thenR (finK app)) d
      (AztecDecoder.loop T reg (fm + 1) c ((boolsOf xs).drop idx)) := by
  rw [List.drop_eq_nil_of_le (by simpa using hidx), whileLoop_succ]
  unfold Gen.K11c.getEncodedData_body1
  have c1 : decide ((idx : Int) < (xs.length : Int)) = false := by simp; omega
  simp only [c1, Bool.false_eq_true, if_false, brk_thenR, AztecDecoder.loop, List.isEmpty_nil, if_true]
  exact finK_ok reg d0 byValue getCharset app render hA hR _ _ _

when_kernel Gzx.Gen.K11c.getEncodedData in
theorem ged_loop (hT : TablesAgreeA T) (hA : AbsOK reg byValue app render) (F : Nat) (hF : 8 ≤ F) (xs : List Int) :
    ∀ (m idx : Nat) (c : AztecDecoder.Ctl) (res dec : List Int) (enc : Int) (d : Data) (fm f : Nat),
      xs.length - idx ≤ m → m < fm → m < f → DRel (encTok d0 byValue getCharset) render res dec enc d →
      GAgrees (encTok d0 byValue getCharset) render
        ((whileLoop (Gen.K11c.getEncodedData_body1 F app byValue getCharset xs (xs.length : Int)) f
            (tableCode c.latch, tableCode c.shift, res, dec, enc, (idx : Int))).thenR (finK app)) d
        (AztecDecoder.loop T reg fm c ((boolsOf xs).drop idx)) := by
  intro m
  induction m with
  | zero =>
    intro idx c res dec enc d fm f hm hfm hf hR
    obtain ⟨f, rfl⟩ : ∃ k, f = k + 1 := ⟨f - 1, by omega⟩
    obtain ⟨fm, rfl⟩ : ∃ k, fm = k + 1 := ⟨fm - 1, by omega⟩
    exact ged_exit T reg d0 byValue getCharset app render hA F xs idx (by omega) c hR fm f
  | succ m ih =>
    intro idx c res dec enc d fm f hm hfm hf hR
    obtain ⟨f, rfl⟩ : ∃ k, f = k + 1 := ⟨f - 1, by omega⟩
    obtain ⟨fm, rfl⟩ : ∃ k, fm = k + 1 := ⟨fm - 1, by omega⟩
    by_cases hend : xs.length ≤ idx
    · exact ged_exit T reg d0 byValue getCharset app render hA F xs idx hend c hR fm f
    have hlt : idx < xs.length := by omega
    -- the induction hypothesis at a later index, in the form the loop continues with
    have ihf : ∀ (idx' : Nat) (c' : AztecDecoder.Ctl) (res' dec' : List Int) (enc' : Int) (d' : Data), idx < idx' →
        DRel (encTok d0 byValue getCharset) render res' dec' enc' d' →
        GAgrees (encTok d0 byValue getCharset) render
          ((whileLoop (Gen.K11c.getEncodedData_body1 F app byValue getCharset xs (xs.length : Int)) f
              (tableCode c'.latch, tableCode c'.shift, res', dec', enc', (idx' : Int))).thenR (finK app)) d'
          (AztecDecoder.loop T reg fm c' ((boolsOf xs).drop idx')) :=
      fun idx' c' res' dec' enc' d' hi hR' => ih idx' c' res' dec' enc' d' fm f (by omega) (by omega) (by omega) hR'
    have hne : ((boolsOf xs).drop idx).isEmpty = false := by
      cases hd : (boolsOf xs).drop idx with
      | nil => have := congrArg List.length hd; simp at this; omega
      | cons _ _ => rfl
    rw [whileLoop_succ']
    generalize whileLoop (Gen.K11c.getEncodedData_body1 F app byValue getCharset xs (xs.length : Int)) f = W at ihf ⊢
    unfold Gen.K11c.getEncodedData_body1
    have c1 : decide ((idx : Int) < (xs.length : Int)) = true := by simp; omega
    simp only [c1, if_true, AztecDecoder.loop, hne, Bool.false_eq_true, if_false]
    unfold step
    by_cases hbin : c.shift = .binary
    · have cb : (tableCode Table.binary == 5) = true := rfl
      -- the byte loop, then the induction hypothesis
      have after : ∀ (n idx2 : Nat), idx < idx2 → idx2 ≤ xs.length →
          GAgrees (encTok d0 byValue getCharset) render
            ((contW W ((GoM.loop (Gen.K11c.getEncodedData_body2 xs (xs.length : Int)) 1 n 0 (dec, (idx2 : Int))).thenC
                fun st => Ctl.next (tableCode c.latch, tableCode c.latch, res, st.1, enc, st.2) : Ctl SG RG)).thenR (finK app)) d
            ((AztecDecoder.loop T reg fm ⟨c.latch, c.latch⟩ (takeBytes n ((boolsOf xs).drop idx2) []).2).map
              ((if (takeBytes n ((boolsOf xs).drop idx2) []).1.isEmpty then []
                else [Event.bytes (takeBytes n ((boolsOf xs).drop idx2) []).1]) ++ ·)) := by
        intro n idx2 hi2 hle
        obtain ⟨idx', h1, h2, h3, h4⟩ := bytes_loop xs n 0 idx2 [] dec hle
        have h4' := h4 (fun st => (Ctl.next (tableCode c.latch, tableCode c.latch, res, st.1, enc, st.2) : Ctl SG RG))
        simp only [nb, List.map_nil, List.append_nil] at h4'
        rw [h4', h3, contW_next]
        apply GAgrees_map
        apply ihf idx' ⟨c.latch, c.latch⟩ _ _ _ _ (by omega)
        by_cases he : (takeBytes n ((boolsOf xs).drop idx2) []).1.isEmpty
        · have : (takeBytes n ((boolsOf xs).drop idx2) []).1 = [] := List.isEmpty_iff.mp he
          simp only [he, if_true, List.foldl_nil, this, List.map_nil, List.append_nil]
          exact hR
        · simp only [he, Bool.false_eq_true, if_false, List.foldl_cons, List.foldl_nil]
          exact hR.bytes _
      simp only [hbin, cb, if_true, splitN?_eq, List.length_drop, boolsOf_length]
      by_cases h5 : xs.length - idx < 5
      · have c5 : decide ((xs.length : Int) - (idx : Int) < 5) = true := by simp; omega
        have n5 : ¬ 5 ≤ xs.length - idx := by omega
        simp only [c5, n5, if_true, if_false, contW_brk, brk_thenR]
        exact finK_ok reg d0 byValue getCharset app render hA hR _ _ _
      · have c5 : decide ((xs.length : Int) - (idx : Int) < 5) = false := by simp; omega
        have n5 : 5 ≤ xs.length - idx := by omega
        simp only [c5, n5, if_true, Bool.false_eq_true, if_false]
        rw [readK xs idx 5 (idx : Int) 5 rfl rfl (by decide) (by omega)]
        simp only [tryC_ok, List.drop_drop]
        generalize hl : AztecDecoder.readCode (((boolsOf xs).drop idx).take 5) = len5
        have e5 : (idx : Int) + 5 = ((idx + 5 : Nat) : Int) := by omega
        by_cases hl0 : len5 = 0
        · have c0 : (((len5 : Nat) : Int) == 0) = true := by simp [hl0]
          simp only [c0, if_true]
          rw [if_pos hl0]
          by_cases h11 : xs.length - (idx + 5) < 11
          · have c11 : decide ((xs.length : Int) - ((idx : Int) + 5) < 11) = true := by simp; omega
            have n11 : ¬ 11 ≤ xs.length - (idx + 5) := by omega
            simp only [List.length_drop, boolsOf_length, c11, n11, if_true, if_false, contW_brk, brk_thenR]
            exact finK_ok reg d0 byValue getCharset app render hA hR _ _ _
          · have c11 : decide ((xs.length : Int) - ((idx : Int) + 5) < 11) = false := by simp; omega
            have n11 : 11 ≤ xs.length - (idx + 5) := by omega
            simp only [List.length_drop, boolsOf_length, c11, n11, if_true, Bool.false_eq_true, if_false]
            rw [readK xs (idx + 5) 11 ((idx : Int) + 5) 11 e5 rfl (by decide) (by omega)]
            simp only [tryC_ok, tripUp_one]
            have et : ((((AztecDecoder.readCode (((boolsOf xs).drop (idx + 5)).take 11) : Nat) : Int) + 31) - 0).toNat
                = AztecDecoder.readCode (((boolsOf xs).drop (idx + 5)).take 11) + 31 := by omega
            have e16 : (idx : Int) + 5 + 11 = ((idx + 5 + 11 : Nat) : Int) := by omega
            rw [et, e16]
            exact after (AztecDecoder.readCode (((boolsOf xs).drop (idx + 5)).take 11) + 31) (idx + 5 + 11) (by omega) (by omega)
        · have c0 : (((len5 : Nat) : Int) == 0) = false := by simp; omega
          simp only [c0, Bool.false_eq_true, if_false, body3_same, tripUp_one]
          rw [if_neg hl0]
          have et : (((len5 : Nat) : Int) - 0).toNat = len5 := by omega
          rw [et, e5]
          simp only []
          exact after len5 (idx + 5) (by omega) (by omega)
    · have cb : (tableCode c.shift == 5) = false := by
        cases hs : c.shift <;> simp_all [tableCode]
      simp only [cb, hbin, Bool.false_eq_true, if_false]
      obtain ⟨sz, hsz, hszK, hszM⟩ : ∃ sz : Nat, (sz = 4 ∨ sz = 5)
          ∧ (if (tableCode c.shift == 3) = true then (4 : Int) else 5) = (sz : Int)
          ∧ (if c.shift = Table.digit then 4 else 5) = sz := by
        cases hs : c.shift <;> simp [tableCode]
      rw [hszK, hszM]
      simp only [splitN?_eq, List.length_drop, boolsOf_length]
      by_cases hsz5 : xs.length - idx < sz
      · have c5 : decide ((xs.length : Int) - (idx : Int) < (sz : Int)) = true := by simp; omega
        have n5 : ¬ sz ≤ xs.length - idx := by omega
        simp only [c5, n5, if_true, if_false, contW_brk, brk_thenR]
        exact finK_ok reg d0 byValue getCharset app render hA hR _ _ _
      · have c5 : decide ((xs.length : Int) - (idx : Int) < (sz : Int)) = false := by simp; omega
        have n5 : sz ≤ xs.length - idx := by omega
        simp only [c5, n5, if_true, Bool.false_eq_true, if_false]
        rw [readK xs idx sz (idx : Int) (sz : Int) rfl rfl (by omega) (by omega)]
        simp only [tryC_ok, List.drop_drop]
        generalize AztecDecoder.readCode (((boolsOf xs).drop idx).take sz) = code
        have esz : (idx : Int) + (sz : Int) = ((idx + sz : Nat) : Int) := by omega
        rw [esz]
        rcases k_getCharacter_eq T hT c.shift code with ⟨s, e, hm, hcl, hby, hk⟩ | ⟨hm, hk⟩
        · rw [hm, hk]
          simp only [tryC_ok, bne_self_eq_false, Bool.false_eq_true, if_false]
          unfold classifyB at hcl
          by_cases hflg : s = [70, 76, 71, 40, 110, 41]
          · -- FLG(n)
            have he : e = DEntry.flg := by
              simp only [hflg, if_true, Option.some.injEq] at hcl; exact hcl.symm
            subst he
            have cf : (s == [70, 76, 71, 40, 110, 41]) = true := by simp [hflg]
            simp only [cf, if_true, splitN?_eq, List.length_drop, boolsOf_length, List.drop_drop]
            by_cases h3 : xs.length - (idx + sz) < 3
            · have c3 : decide ((xs.length : Int) - ((idx + sz : Nat) : Int) < 3) = true := by simp; omega
              have n3 : ¬ 3 ≤ xs.length - (idx + sz) := by omega
              simp only [c3, n3, if_true, if_false, contW_brk, brk_thenR]
              exact finK_ok reg d0 byValue getCharset app render hA hR _ _ _
            · have c3 : decide ((xs.length : Int) - ((idx + sz : Nat) : Int) < 3) = false := by simp; omega
              have n3 : 3 ≤ xs.length - (idx + sz) := by omega
              simp only [c3, n3, if_true, Bool.false_eq_true, if_false]
              rw [readK xs (idx + sz) 3 _ 3 rfl rfl (by decide) (by omega)]
              have hn8 := readCode_take_lt ((boolsOf xs).drop (idx + sz)) 3
              generalize AztecDecoder.readCode (((boolsOf xs).drop (idx + sz)).take 3) = n at hn8
              simp only [tryC_ok, hA.app_ok, bne_self_eq_false, Bool.false_eq_true, if_false, slice00]
              have e3 : ((idx + sz : Nat) : Int) + 3 = ((idx + sz + 3 : Nat) : Int) := by omega
              rw [e3]
              have hRf := hR.flush hA.render_nil
              by_cases hn0 : n = 0
              · have c0 : (((n : Nat) : Int) == 0) = true := by simp [hn0]
                simp only [c0, if_true, contW_next]
                rw [if_pos hn0]
                apply GAgrees_map
                apply ihf (idx + sz + 3) ⟨c.latch, c.latch⟩ _ _ _ _ (by omega)
                refine ⟨?_, hRf.hdec, hRf.henc⟩
                simp [Data.apply, renderSegs, hRf.hres]
              · have c0 : (((n : Nat) : Int) == 0) = false := by simp; omega
                simp only [c0, Bool.false_eq_true, if_false]
                rw [if_neg hn0]
                by_cases hn7 : n = 7
                · have c7 : (((n : Nat) : Int) == 7) = true := by simp [hn7]
                  simp only [c7, if_true, contW_ret, ret_thenR]
                  rw [if_pos hn7]
                  exact ⟨_, rfl⟩
                · have c7 : (((n : Nat) : Int) == 7) = false := by simp; omega
                  simp only [c7, Bool.false_eq_true, if_false]
                  rw [if_neg hn7]
                  simp only [List.length_drop, boolsOf_length]
                  by_cases hshort : xs.length - (idx + sz + 3) < 4 * n
                  · have cs : (!decide ((xs.length : Int) - ((idx + sz + 3 : Nat) : Int) < 4 * ((n : Nat) : Int))) = false := by
                      simp; omega
                    simp only [cs, Bool.false_eq_true, if_false, contW_next]
                    rw [if_pos hshort]
                    apply GAgrees_map
                    apply ihf (idx + sz + 3) ⟨c.latch, c.latch⟩ _ _ _ _ (by omega)
                    exact hRf
                  · have cs : (!decide ((xs.length : Int) - ((idx + sz + 3 : Nat) : Int) < 4 * ((n : Nat) : Int))) = true := by
                      simp; omega
                    simp only [cs, if_true]
                    rw [if_neg hshort]
                    have hdg := digits_loop xs (res ++ render enc dec) n (idx + sz + 3) 0 F (by omega) (by omega)
                    rw [show ((0 : Nat) : Int) = 0 from rfl] at hdg
                    rcases hdg with ⟨hd1, hd2⟩ | ⟨e', hd1, hd2⟩
                    · rw [hd1, hd2]
                      simp only [ret_thenC, contW_ret, ret_thenR]
                      exact ⟨_, rfl⟩
                    · rw [hd1, hd2]
                      simp only [brk_thenC]
                      obtain ⟨t, er, hbv, hiff⟩ := hA.eci e'
                      rw [hbv]
                      simp only [tryC_ok]
                      by_cases hbad : e' ≥ 900 ∨ reg e' = false
                      · have hk' := hiff.mpr hbad
                        have hmod : (if e' ≥ 900 then Step.fail Fault.format
                            else if (!reg e') = true then Step.fail Fault.format
                            else Step.next { latch := c.latch, shift := c.latch } ((boolsOf xs).drop (idx + sz + 3 + 4 * n)) [Event.eci e'])
                            = Step.fail Fault.format := by
                          rcases hbad with h | h
                          · simp [h]
                          · simp [h]
                        rw [hmod]
                        rcases hk' with h | h
                        · subst h; simp only [bne_iff_ne, ne_eq, Bool.true_eq_false, not_false_eq_true, if_true, contW_ret, ret_thenR]
                          exact ⟨_, rfl⟩
                        · subst h
                          cases er <;> simp only [bne_self_eq_false, Bool.false_eq_true, if_false, beq_self_eq_true, if_true,
                            bne_iff_ne, ne_eq, Bool.true_eq_false, not_false_eq_true, contW_ret, ret_thenR] <;> exact ⟨_, rfl⟩
                      · have hgood : ¬ (er = true ∨ t = -1) := fun h => hbad (hiff.mp h)
                        have her : er = false := by cases er <;> simp_all
                        have ht : (t == -1) = false := by
                          have : t ≠ -1 := fun h => hgood (Or.inr h)
                          simpa using this
                        have h900 : ¬ e' ≥ 900 := fun h => hbad (Or.inl h)
                        have hreg : reg e' = true := by
                          cases hr : reg e' with
                          | true => rfl
                          | false => exact absurd (Or.inr hr) hbad
                        subst her
                        simp only [bne_self_eq_false, Bool.false_eq_true, if_false, ht, contW_next]
                        rw [if_neg h900]
                        simp only [hreg, Bool.not_true, Bool.false_eq_true, if_false]
                        apply GAgrees_map
                        apply ihf (idx + sz + 3 + 4 * n) ⟨c.latch, c.latch⟩ _ _ _ _ (by omega)
                        refine ⟨?_, ?_, ?_⟩
                        · simpa [Data.apply] using hRf.hres
                        · simpa [Data.apply] using hRf.hdec
                        · simp [Data.apply, encTok, tokOf, hbv]
          · have cf : (s == [70, 76, 71, 40, 110, 41]) = false := by simpa using hflg
            simp only [hflg, if_false] at hcl
            simp only [cf, Bool.false_eq_true, if_false]
            by_cases hpre : hasPrefix s [67, 84, 82, 76, 95] = true
            · -- CTRL_xy: latch / shift
              simp only [hpre, if_true] at hcl ⊢
              cases hdr : s.drop 5 with
              | nil => simp [hdr] at hcl
              | cons tb r1 =>
                cases r1 with
                | nil => simp [hdr] at hcl
                | cons l r2 =>
                  simp only [hdr, Option.some.injEq] at hcl
                  subst hcl
                  have g5 : s[5]? = some tb := by
                    have := congrArg (fun l => l[0]?) hdr
                    simpa using this
                  have g6 : s[6]? = some l := by
                    have := congrArg (fun l => l[1]?) hdr
                    simpa using this
                  have h5 : GoM.idx s 5 = .ok tb := by
                    unfold GoM.idx; simp [g5]
                  have h6 : GoM.idx s 6 = .ok l := by
                    unfold GoM.idx; simp [g6]
                  have htb := hby tb (List.mem_of_getElem? g5)
                  have hgt : Gen.K11c.getTable tb = .ok (tableCode (AztecDecoder.getTable (Char.ofNat tb.toNat))) := by
                    have := k_getTable_eq tb.toNat (by omega)
                    rwa [Int.toNat_of_nonneg htb.1] at this
                  rw [h5]
                  simp only [tryC_ok]
                  rw [hgt]
                  simp only [tryC_ok]
                  rw [h6]
                  simp only [tryC_ok, contW_next]
                  apply GAgrees_map (ev := [])
                  have := ihf (idx + sz) ⟨if (l == 76) = true then AztecDecoder.getTable (Char.ofNat tb.toNat) else c.shift,
                    AztecDecoder.getTable (Char.ofNat tb.toNat)⟩ res dec enc d (by omega) hR
                  have et : tableCode (if (l == 76) = true then AztecDecoder.getTable (Char.ofNat tb.toNat) else c.shift)
                      = if (l == 76) = true then tableCode (AztecDecoder.getTable (Char.ofNat tb.toNat)) else tableCode c.shift := by
                    split <;> rfl
                  rw [et] at this
                  exact this
            · -- a text entry: its bytes
              have hpre' : hasPrefix s [67, 84, 82, 76, 95] = false := by simpa using hpre
              simp only [hpre', Bool.false_eq_true, if_false, Option.some.injEq] at hcl ⊢
              subst hcl
              simp only [contW_next]
              apply GAgrees_map
              apply ihf (idx + sz) ⟨c.latch, c.latch⟩ _ _ _ _ (by omega)
              have hs : nb (s.map Int.toNat) = s := by
                simp only [nb, List.map_map]
                conv => rhs; rw [← List.map_id s]
                apply List.map_congr_left
                intro x hx
                have := (hby x hx).1
                simp only [Function.comp, id]
                exact Int.toNat_of_nonneg this
              have := hR.bytes (s.map Int.toNat)
              rw [hs] at this
              simpa using this
        · rw [hm, hk]
          simp only [tryC_ok]
          exact ⟨res, rfl⟩

when_kernel Gzx.Gen.K11c.getEncodedData in
/-- `getEncodedData(correctedBits)` (= `HighLevelDecode`) = the model's `getEncodedData`, for EVERY bit slice: the bytes of
    `result` are the model's segments rendered by the (uninterpreted) character-set decoder — FNC1 as the raw byte 29 —,
    FormatException in exactly the model's cases (a code beyond its table, the reserved FLG(7), a non-digit in an ECI, an
    ECI value ≥ 900 or unregistered); the model never panics and neither does the kernel -/
theorem k_getEncodedData_eq (hT : TablesAgreeA T) (hA : AbsOK reg byValue app render) (fuel : Nat) (xs : List Int)
    (hf : xs.length + 8 ≤ fuel) :
    match AztecDecoder.getEncodedData T reg (boolsOf xs) with
    | .ok segs => Gen.K11c.getEncodedData fuel d0 byValue getCharset app xs
        = .ok (renderSegs (encTok d0 byValue getCharset) render segs, false)
    | .error .format => ∃ r, Gen.K11c.getEncodedData fuel d0 byValue getCharset app xs = .ok (r, true)
    | .error _ => False := by
  have hR0 : DRel (encTok d0 byValue getCharset) render [] [] d0 ⟨[], [], none⟩ := ⟨rfl, rfl, rfl⟩
  have hloop := ged_loop T reg d0 byValue getCharset app render hT hA fuel (by omega) xs xs.length 0 Ctl.init [] [] d0
    ⟨[], [], none⟩ (xs.length + 1) fuel (by omega) (by omega) (by omega) hR0
  have hk : Gen.K11c.getEncodedData fuel d0 byValue getCharset app xs
      = (whileLoop (Gen.K11c.getEncodedData_body1 fuel app byValue getCharset xs (xs.length : Int)) fuel
          (tableCode Ctl.init.latch, tableCode Ctl.init.shift, [], [], d0, ((0 : Nat) : Int))).thenR (finK app) := by
    unfold Gen.K11c.getEncodedData
    have hcap : ∀ c : Int, 0 ≤ c → mk3n 0 c = .ok [] := by
      intro c hc; unfold mk3n; simp; omega
    have hmk2 : mk 0 = .ok [] := rfl
    simp only []
    have hnn : ∀ c : Int, 0 ≤ (if decide (c < 0) = true then 0 else c) := by
      intro c; by_cases h : c < 0 <;> simp [h]; omega
    rw [hcap _ (hnn _), hmk2]
    rfl
  rw [← hk] at hloop
  simp only [List.drop_zero] at hloop
  unfold AztecDecoder.getEncodedData
  simp only [boolsOf_length]
  cases hm : AztecDecoder.loop T reg (xs.length + 1) Ctl.init (boolsOf xs) with
  | error e =>
    rw [hm] at hloop
    cases e <;> simpa [GAgrees, Except.map] using hloop
  | ok evs =>
    rw [hm] at hloop
    simpa [GAgrees, Except.map, segments] using hloop

end

/-- non-vacuity: an environment that satisfies `AbsOK` (UTF-8 registered as ECI 26, the decoders the identity) -/
example : AbsOK (fun n => n == 26) (fun v => .ok (if v == 26 then 26 else -1, decide (v ≥ 900)))
    (fun _ r d => .ok (r ++ d, false)) (fun _ d => d) := by
  refine ⟨fun _ _ _ => rfl, fun _ => rfl, fun n => ⟨_, _, rfl, ?_⟩⟩
  by_cases h : n = 26
  · subst h; simp
  · have : ¬ ((n : Int) = 26) := by omega
    simp [h, this]

when_kernel Gzx.Gen.K11c.getEncodedData in
/-- "A", then P/S "." (upper 2, upper 0 = CTRL_PS, punct 19) — and the reserved FLG(7) -/
example : Gen.K11c.getEncodedData 40 0 (fun v => .ok (if v == 26 then 26 else -1, decide (v ≥ 900))) (fun t => t)
    (fun _ r d => .ok (r ++ d, false)) (bitsI ([false, false, false, true, false] ++ [false, false, false, false, false]
      ++ [true, false, false, true, true])) = .ok ([65, 46], false) := by decide

end Gzx.Obligations.K11c
