/-
  K11c (wp k11b2) — `getEncodedData` (= `HighLevelDecode`) of aztec/decoder/decoder.go, regenerated from /repo on every run
  (`Gzx.Gen.K11c.getEncodedData`: the `for index < endIndex` loop, the binary shift with its two length forms and its byte
  loop, the code read by table, `getCharacter`, FLG(n) with its `switch` — FNC1, the reserved FLG(7), the ECI digits loop,
  the unregistered-ECI repair —, the latch / shift bookkeeping, the text appended to the byte buffer, the final flush),
  proved equal to the model `AztecDecoder.getEncodedData` (`k_getEncodedData_eq`).  The character-set machinery is
  UNINTERPRETED on both sides: `transform.Append(enc.NewDecoder(), result, bytes)` is an abstract parameter that appends
  `render enc bytes`, `common.GetCharacterSetECIByValue` / `GetCharset` are abstract parameters that agree with the
  model's `registered` predicate (`AbsOK`).
-/
import Gzx.Obligations.K11cData
namespace Gzx.Obligations.K11c
open Gzx Gzx.GoM Gzx.GoVal Gzx.AztecDecoder Gzx.Obligations.K11b

/-- bytes of the model as kernel values -/
abbrev nb (bs : List Nat) : List Int := bs.map Int.ofNat

theorem splitN?_eq {α : Type} : ∀ (k : Nat) (bs : List α),
    splitN? k bs = if k ≤ bs.length then some (bs.take k, bs.drop k) else none
  | 0, bs => by simp [splitN?]
  | k + 1, [] => by simp [splitN?]
  | k + 1, b :: bs => by
    simp only [splitN?, splitN?_eq k bs, List.length_cons]
    by_cases h : k ≤ bs.length
    · simp [h]
    · simp [h]

/-! ## the uninterpreted character-set machinery -/

structure AbsOK (reg : Nat → Bool) (byValue : Int → Res (Int × Bool))
    (app : Int → List Int → List Int → Res (List Int × Bool)) (render : Int → List Int → List Int) : Prop where
  app_ok : ∀ enc r d, app enc r d = .ok (r ++ render enc d, false)
  render_nil : ∀ enc, render enc [] = []
  eci : ∀ n : Nat, ∃ t e, byValue (n : Int) = .ok (t, e) ∧ ((e = true ∨ t = -1) ↔ (n ≥ 900 ∨ reg n = false))

/-- the `*CharacterSetECI` token of an ECI value -/
def tokOf (byValue : Int → Res (Int × Bool)) (n : Nat) : Int :=
  match byValue (n : Int) with
  | .ok (t, _) => t
  | .error _ => -1

/-- the `encoding.Encoding` token of the model's character set -/
def encTok (d0 : Int) (byValue : Int → Res (Int × Bool)) (getCharset : Int → Int) : Option Nat → Int
  | none => d0
  | some n => getCharset (tokOf byValue n)

/-- the bytes `result` holds for the model's segments -/
def renderSegs (tk : Option Nat → Int) (render : Int → List Int → List Int) (segs : List Seg) : List Int :=
  segs.flatMap (fun s => match s with
    | .enc e bs => render (tk e) (nb bs)
    | .raw bs => nb bs)

/-- the Go data state `(result, decodedBytes, encoding)` against the model's -/
structure DRel (tk : Option Nat → Int) (render : Int → List Int → List Int) (res dec : List Int) (enc : Int) (d : Data) : Prop where
  hres : res = renderSegs tk render d.result
  hdec : dec = nb d.decoded
  henc : enc = tk d.enc

theorem DRel.flush {tk : Option Nat → Int} {render : Int → List Int → List Int} (hn : ∀ enc, render enc [] = [])
    {res dec : List Int} {enc : Int} {d : Data} (h : DRel tk render res dec enc d) :
    DRel tk render (res ++ render enc dec) [] enc d.flush := by
  unfold Data.flush
  by_cases he : d.decoded.isEmpty
  · have : d.decoded = [] := List.isEmpty_iff.mp he
    simp only [he, if_true]
    refine ⟨?_, by simp [this], h.henc⟩
    rw [h.hdec, this]; simp [hn, h.hres]
  · simp only [he, Bool.false_eq_true, if_false]
    refine ⟨?_, rfl, h.henc⟩
    simp [renderSegs, h.hres, h.hdec, h.henc]

theorem DRel.bytes {tk : Option Nat → Int} {render : Int → List Int → List Int}
    {res dec : List Int} {enc : Int} {d : Data} (h : DRel tk render res dec enc d) (bs : List Nat) :
    DRel tk render res (dec ++ nb bs) enc (d.apply (.bytes bs)) :=
  ⟨h.hres, by simp [Data.apply, h.hdec], h.henc⟩

/-! ## reads and the two inner loops -/

when_kernel Gzx.Gen.K11c.readCode in
theorem readK (xs : List Int) (idx k : Nat) (ii ki : Int) (hi : ii = (idx : Int)) (hki : ki = (k : Int)) (hk : 0 < k)
    (h : idx + k ≤ xs.length) :
    Gen.K11c.readCode xs ii ki = .ok ((AztecDecoder.readCode (((boolsOf xs).drop idx).take k) : Nat) : Int) := by
  subst hi hki
  rw [k_readCode_eq']
  have c1 : ¬ ((k : Int) ≤ 0) := by omega
  have c2 : (0 : Int) ≤ (idx : Int) ∧ (idx : Int) + (k : Int) ≤ (xs.length : Int) := by omega
  rw [if_neg c1, if_pos c2]
  simp

theorem readCode_take_lt (bs : List Bool) (k : Nat) : AztecDecoder.readCode (bs.take k) < 2 ^ k := by
  have := model_readCode_lt (bs.take k)
  have hl : (bs.take k).length ≤ k := by simp; omega
  exact Nat.lt_of_lt_of_le this (Nat.pow_le_pow_right (by decide) hl)

abbrev RG := List Int × Bool

when_kernel Gzx.Gen.K11c.getEncodedData in
theorem body3_same : Gen.K11c.getEncodedData_body3 = Gen.K11c.getEncodedData_body2 := rfl

when_kernel Gzx.Gen.K11c.getEncodedData in
/-- the byte loop of a binary shift = the model's `takeBytes` -/
theorem bytes_loop (xs : List Int) : ∀ (n : Nat) (i0 : Int) (idx : Nat) (acc : List Nat) (dec : List Int), idx ≤ xs.length →
    ∃ idx', idx ≤ idx' ∧ idx' ≤ xs.length ∧ (takeBytes n ((boolsOf xs).drop idx) acc).2 = (boolsOf xs).drop idx' ∧
      ∀ {σ : Type} (k' : List Int × Int → Ctl σ RG),
        (GoM.loop (Gen.K11c.getEncodedData_body2 xs (xs.length : Int)) 1 n i0 (dec ++ nb acc, (idx : Int))).thenC k'
          = k' (dec ++ nb (takeBytes n ((boolsOf xs).drop idx) acc).1, (idx' : Int)) := by
  intro n
  induction n with
  | zero =>
    intro i0 idx acc dec h
    exact ⟨idx, Nat.le_refl _, h, rfl, fun k' => rfl⟩
  | succ n ih =>
    intro i0 idx acc dec h
    by_cases hs : xs.length - idx < 8
    · have hsp0 : splitN? 8 ((boolsOf xs).drop idx) = none := by
        rw [splitN?_eq, if_neg (by simp; omega)]
      refine ⟨xs.length, h, Nat.le_refl _, ?_, ?_⟩
      · simp only [takeBytes, hsp0]
        rw [List.drop_eq_nil_of_le (by simp)]
      · intro σ k'
        rw [loop_succ]
        unfold Gen.K11c.getEncodedData_body2
        have c : decide ((xs.length : Int) - (idx : Int) < 8) = true := by simp; omega
        simp only [c, if_true]
        simp only [takeBytes, hsp0]
        rfl
    · have hsp : splitN? 8 ((boolsOf xs).drop idx) = some (((boolsOf xs).drop idx).take 8, (boolsOf xs).drop (idx + 8)) := by
        rw [splitN?_eq, if_pos (by simp; omega)]; simp [List.drop_drop]
      obtain ⟨idx', h1, h2, h3, h4⟩ := ih (i0 + 1) (idx + 8) (acc ++ [AztecDecoder.readCode (((boolsOf xs).drop idx).take 8)]) dec (by omega)
      refine ⟨idx', by omega, h2, ?_, ?_⟩
      · simp only [takeBytes, hsp]; exact h3
      · intro σ k'
        rw [loop_succ]
        have hstep : Gen.K11c.getEncodedData_body2 xs (xs.length : Int) i0 (dec ++ nb acc, (idx : Int))
            = .next (dec ++ nb (acc ++ [AztecDecoder.readCode (((boolsOf xs).drop idx).take 8)]), ((idx + 8 : Nat) : Int)) := by
          unfold Gen.K11c.getEncodedData_body2
          have c : decide ((xs.length : Int) - (idx : Int) < 8) = false := by simp; omega
          simp only [c, Bool.false_eq_true, if_false]
          rw [readK xs idx 8 (idx : Int) 8 rfl rfl (by decide) (by omega)]
          simp only [tryC_ok]
          have hlt := readCode_take_lt ((boolsOf xs).drop idx) 8
          have hw : wrap 8 ((AztecDecoder.readCode (((boolsOf xs).drop idx).take 8) : Nat) : Int)
              = ((AztecDecoder.readCode (((boolsOf xs).drop idx).take 8) : Nat) : Int) := by
            unfold wrap; omega
          rw [hw]
          simp [nb]
        rw [hstep]
        simp only []
        rw [h4 k']
        simp only [takeBytes, hsp]

when_kernel Gzx.Gen.K11c.getEncodedData in
/-- the ECI digits loop = the model's `readDigits` (the bits are there: the length test precedes the loop) -/
theorem digits_loop (xs : List Int) (res2 : List Int) : ∀ (n idx eci f : Nat), idx + 4 * n ≤ xs.length → n < f →
    (readDigits n ((boolsOf xs).drop idx) eci = .error .format ∧
      whileLoop (Gen.K11c.getEncodedData_body4 xs res2) f ((idx : Int), (n : Int), (eci : Int)) = .ret (res2, true))
    ∨ (∃ e' : Nat, readDigits n ((boolsOf xs).drop idx) eci = .ok (e', (boolsOf xs).drop (idx + 4 * n)) ∧
      whileLoop (Gen.K11c.getEncodedData_body4 xs res2) f ((idx : Int), (n : Int), (eci : Int))
        = .brk (((idx + 4 * n : Nat) : Int), 0, (e' : Int))) := by
  intro n
  induction n with
  | zero =>
    intro idx eci f _ hf
    obtain ⟨f, rfl⟩ : ∃ k, f = k + 1 := ⟨f - 1, by omega⟩
    right
    refine ⟨eci, by simp [readDigits], ?_⟩
    rw [whileLoop_succ]
    unfold Gen.K11c.getEncodedData_body4
    simp
  | succ n ih =>
    intro idx eci f h hf
    obtain ⟨f, rfl⟩ : ∃ k, f = k + 1 := ⟨f - 1, by omega⟩
    have hsp : splitN? 4 ((boolsOf xs).drop idx) = some (((boolsOf xs).drop idx).take 4, (boolsOf xs).drop (idx + 4)) := by
      rw [splitN?_eq, if_pos (by simp; omega)]; simp [List.drop_drop]
    generalize hd : AztecDecoder.readCode (((boolsOf xs).drop idx).take 4) = dg at *
    have hbody : Gen.K11c.getEncodedData_body4 xs res2 ((idx : Int), ((n + 1 : Nat) : Int), (eci : Int))
        = if dg < 2 ∨ dg > 11 then .ret (res2, true)
          else .next (((idx + 4 : Nat) : Int), (n : Int), ((eci * 10 + (dg - 2) : Nat) : Int)) := by
      unfold Gen.K11c.getEncodedData_body4
      have c : decide ((((n + 1 : Nat) : Int)) > 0) = true := by simp
      simp only [c, if_true]
      rw [readK xs idx 4 (idx : Int) 4 rfl rfl (by decide) (by omega), hd]
      simp only [tryC_ok]
      by_cases hb : dg < 2 ∨ dg > 11
      · have cb : (decide (((dg : Nat) : Int) < 2) || decide (((dg : Nat) : Int) > 11)) = true := by
          simp only [Bool.or_eq_true, decide_eq_true_eq]; omega
        simp only [cb, if_true, hb]
      · have cb : (decide (((dg : Nat) : Int) < 2) || decide (((dg : Nat) : Int) > 11)) = false := by
          simp only [Bool.or_eq_false_iff, decide_eq_false_iff_not]; omega
        simp only [cb, Bool.false_eq_true, if_false, hb]
        have e1 : (idx : Int) + 4 = ((idx + 4 : Nat) : Int) := by omega
        have e2 : ((n + 1 : Nat) : Int) - 1 = (n : Int) := by omega
        have e3 : (eci : Int) * 10 + ((dg : Int) - 2) = ((eci * 10 + (dg - 2) : Nat) : Int) := by omega
        rw [e1, e2, e3]
    rw [whileLoop_succ, hbody]
    simp only [readDigits, hsp, hd]
    by_cases hb : dg < 2 ∨ dg > 11
    · left; simp [hb]
    · simp only [hb, if_false]
      rcases ih (idx + 4) (eci * 10 + (dg - 2)) f (by omega) (by omega) with ⟨h1, h2⟩ | ⟨e', h1, h2⟩
      · left; exact ⟨h1, h2⟩
      · right
        refine ⟨e', ?_, ?_⟩
        · rw [h1]; congr 3; omega
        · rw [h2]; congr 3; omega

/-! ## the main loop -/

abbrev SG := Int × Int × List Int × List Int × Int × Int

/-- what the kernel must answer for the model's events from the data state `d` on -/
def GAgrees (tk : Option Nat → Int) (render : Int → List Int → List Int) (k : Res RG) (d : Data) : Res (List Event) → Prop
  | .ok evs => k = .ok (renderSegs tk render ((evs.foldl Data.apply d).flush.result), false)
  | .error .format => ∃ r, k = .ok (r, true)
  | .error _ => False

theorem GAgrees_map {tk : Option Nat → Int} {render : Int → List Int → List Int} {k : Res RG} {d : Data} (ev : List Event)
    {r : Res (List Event)} (h : GAgrees tk render k (ev.foldl Data.apply d) r) :
    GAgrees tk render k d (r.map (ev ++ ·)) := by
  cases r with
  | error e => cases e <;> simpa [GAgrees, Except.map] using h
  | ok evs => simpa [GAgrees, Except.map, List.foldl_append] using h

/-- one unrolling of a `for cond` loop, with the continuation named -/
def contW {σ ρ : Type} (W : σ → Ctl σ ρ) (c : Ctl σ ρ) : Ctl σ ρ :=
  match c with
  | .next st' => W st'
  | .brk st' => .brk st'
  | .ret r => .ret r
  | .panic f => .panic f

theorem whileLoop_succ' {σ ρ : Type} (body : σ → Ctl σ ρ) (n : Nat) (st : σ) :
    whileLoop body (n + 1) st = contW (whileLoop body n) (body st) := rfl

@[simp] theorem contW_next {σ ρ : Type} (W : σ → Ctl σ ρ) (s : σ) : contW W (.next s) = W s := rfl
@[simp] theorem contW_brk {σ ρ : Type} (W : σ → Ctl σ ρ) (s : σ) : contW W (.brk s : Ctl σ ρ) = .brk s := rfl
@[simp] theorem contW_ret {σ ρ : Type} (W : σ → Ctl σ ρ) (r : ρ) : contW W (.ret r : Ctl σ ρ) = .ret r := rfl
@[simp] theorem contW_panic {σ ρ : Type} (W : σ → Ctl σ ρ) (f : Fault) : contW W (.panic f : Ctl σ ρ) = .panic f := rfl

theorem tableCode_inj (a b : Table) : (tableCode a == tableCode b) = decide (a = b) := by
  cases a <;> cases b <;> rfl

theorem slice00 (xs : List Int) : GoM.slice xs 0 0 = .ok [] := by
  unfold GoM.slice; simp

section
variable (T : Tables) (reg : Nat → Bool) (d0 : Int) (byValue : Int → Res (Int × Bool)) (getCharset : Int → Int)
  (app : Int → List Int → List Int → Res (List Int × Bool)) (render : Int → List Int → List Int)

/-- the continuation after the loop: the final flush -/
def finK : SG → Res RG := fun st =>
  tryR (app st.2.2.2.2.1 st.2.2.1 st.2.2.2.1) fun t => if (t.2 != false) = true then .ok (t.1, true) else .ok (t.1, false)

theorem finK_ok (hA : AbsOK reg byValue app render) {res dec : List Int} {enc : Int} {d : Data}
    (hR : DRel (encTok d0 byValue getCharset) render res dec enc d) (l s i : Int) :
    GAgrees (encTok d0 byValue getCharset) render (finK app (l, s, res, dec, enc, i)) d (.ok []) := by
  have := (hR.flush hA.render_nil).hres
  simp [GAgrees, finK, hA.app_ok, this]

when_kernel Gzx.Gen.K11c.getEncodedData in
theorem ged_exit (hA : AbsOK reg byValue app render) (F : Nat) (xs : List Int) (idx : Nat) (hidx : xs.length ≤ idx)
    (c : AztecDecoder.Ctl) {res dec : List Int} {enc : Int} {d : Data}
    (hR : DRel (encTok d0 byValue getCharset) render res dec enc d) (fm f : Nat) :
    GAgrees (encTok d0 byValue getCharset) render
      ((whileLoop (Gen.K11c.getEncodedData_body1 F app byValue getCharset xs (xs.length : Int)) (f + 1)
          (tableCode c.latch, tableCode c.shift, res, dec, enc, (idx : Int))).thenR (finK app)) d
      (AztecDecoder.loop T reg (fm + 1) c ((boolsOf xs).drop idx)) := by
  rw [List.drop_eq_nil_of_le (by simpa using hidx), whileLoop_succ]
  unfold Gen.K11c.getEncodedData_body1
  have c1 : decide ((idx : Int) < (xs.length : Int)) = false := by simp; omega
  simp only [c1, Bool.false_eq_true, if_false, brk_thenR, AztecDecoder.loop, List.isEmpty_nil, if_true]
  exact finK_ok reg d0 byValue getCharset app render hA hR _ _ _

when_kernel Gzx.Gen.K11c.getEncodedData in
theorem ged_loop (hT : TablesAgreeA T) (hA : AbsOK reg byValue app render) (F : Nat) (hF : 8 ≤ F) (xs : List Int) :
    ∀ (m idx : Nat) (c : AztecDecoder.Ctl) (res dec : List Int) (enc : Int) (d : Data) (fm f : Nat),
      xs.length - idx ≤ m → m < fm → m < f → DRel (encTok d0 byValue getCharset) render res dec enc d →
      GAgrees (encTok d0 byValue getCharset) render
        ((whileLoop (Gen.K11c.getEncodedData_body1 F app byValue getCharset xs (xs.length : Int)) f
            (tableCode c.latch, tableCode c.shift, res, dec, enc, (idx : Int))).thenR (finK app)) d
        (AztecDecoder.loop T reg fm c ((boolsOf xs).drop idx)) := by
  intro m
  induction m with
  | zero =>
    intro idx c res dec enc d fm f hm hfm hf hR
    obtain ⟨f, rfl⟩ : ∃ k, f = k + 1 := ⟨f - 1, by omega⟩
    obtain ⟨fm, rfl⟩ : ∃ k, fm = k + 1 := ⟨fm - 1, by omega⟩
    exact ged_exit T reg d0 byValue getCharset app render hA F xs idx (by omega) c hR fm f
  | succ m ih =>
    intro idx c res dec enc d fm f hm hfm hf hR
    obtain ⟨f, rfl⟩ : ∃ k, f = k + 1 := ⟨f - 1, by omega⟩
    obtain ⟨fm, rfl⟩ : ∃ k, fm = k + 1 := ⟨fm - 1, by omega⟩
    by_cases hend : xs.length ≤ idx
    · exact ged_exit T reg d0 byValue getCharset app render hA F xs idx hend c hR fm f
    have hlt : idx < xs.length := by omega
    -- the induction hypothesis at a later index, in the form the loop continues with
    have ihf : ∀ (idx' : Nat) (c' : AztecDecoder.Ctl) (res' dec' : List Int) (enc' : Int) (d' : Data), idx < idx' →
        DRel (encTok d0 byValue getCharset) render res' dec' enc' d' →
        GAgrees (encTok d0 byValue getCharset) render
          ((whileLoop (Gen.K11c.getEncodedData_body1 F app byValue getCharset xs (xs.length : Int)) f
              (tableCode c'.latch, tableCode c'.shift, res', dec', enc', (idx' : Int))).thenR (finK app)) d'
          (AztecDecoder.loop T reg fm c' ((boolsOf xs).drop idx')) :=
      fun idx' c' res' dec' enc' d' hi hR' => ih idx' c' res' dec' enc' d' fm f (by omega) (by omega) (by omega) hR'
    have hne : ((boolsOf xs).drop idx).isEmpty = false := by
      cases hd : (boolsOf xs).drop idx with
      | nil => have := congrArg List.length hd; simp at this; omega
      | cons _ _ => rfl
    rw [whileLoop_succ']
    generalize whileLoop (Gen.K11c.getEncodedData_body1 F app byValue getCharset xs (xs.length : Int)) f = W at ihf ⊢
    unfold Gen.K11c.getEncodedData_body1
    have c1 : decide ((idx : Int) < (xs.length : Int)) = true := by simp; omega
    simp only [c1, if_true, AztecDecoder.loop, hne, Bool.false_eq_true, if_false]
    unfold step
    by_cases hbin : c.shift = .binary
    · have cb : (tableCode Table.binary == 5) = true := rfl
      -- the byte loop, then the induction hypothesis
      have after : ∀ (n idx2 : Nat), idx < idx2 → idx2 ≤ xs.length →
          GAgrees (encTok d0 byValue getCharset) render
            ((contW W ((GoM.loop (Gen.K11c.getEncodedData_body2 xs (xs.length : Int)) 1 n 0 (dec, (idx2 : Int))).thenC
                fun st => Ctl.next (tableCode c.latch, tableCode c.latch, res, st.1, enc, st.2) : Ctl SG RG)).thenR (finK app)) d
            ((AztecDecoder.loop T reg fm ⟨c.latch, c.latch⟩ (takeBytes n ((boolsOf xs).drop idx2) []).2).map
              ((if (takeBytes n ((boolsOf xs).drop idx2) []).1.isEmpty then []
                else [Event.bytes (takeBytes n ((boolsOf xs).drop idx2) []).1]) ++ ·)) := by
        intro n idx2 hi2 hle
        obtain ⟨idx', h1, h2, h3, h4⟩ := bytes_loop xs n 0 idx2 [] dec hle
        have h4' := h4 (fun st => (Ctl.next (tableCode c.latch, tableCode c.latch, res, st.1, enc, st.2) : Ctl SG RG))
        simp only [nb, List.map_nil, List.append_nil] at h4'
        rw [h4', h3, contW_next]
        apply GAgrees_map
        apply ihf idx' ⟨c.latch, c.latch⟩ _ _ _ _ (by omega)
        by_cases he : (takeBytes n ((boolsOf xs).drop idx2) []).1.isEmpty
        · have : (takeBytes n ((boolsOf xs).drop idx2) []).1 = [] := List.isEmpty_iff.mp he
          simp only [he, if_true, List.foldl_nil, this, List.map_nil, List.append_nil]
          exact hR
        · simp only [he, Bool.false_eq_true, if_false, List.foldl_cons, List.foldl_nil]
          exact hR.bytes _
      simp only [hbin, cb, if_true, splitN?_eq, List.length_drop, boolsOf_length]
      by_cases h5 : xs.length - idx < 5
      · have c5 : decide ((xs.length : Int) - (idx : Int) < 5) = true := by simp; omega
        have n5 : ¬ 5 ≤ xs.length - idx := by omega
        simp only [c5, n5, if_true, if_false, contW_brk, brk_thenR]
        exact finK_ok reg d0 byValue getCharset app render hA hR _ _ _
      · have c5 : decide ((xs.length : Int) - (idx : Int) < 5) = false := by simp; omega
        have n5 : 5 ≤ xs.length - idx := by omega
        simp only [c5, n5, if_true, Bool.false_eq_true, if_false]
        rw [readK xs idx 5 (idx : Int) 5 rfl rfl (by decide) (by omega)]
        simp only [tryC_ok, List.drop_drop]
        generalize hl : AztecDecoder.readCode (((boolsOf xs).drop idx).take 5) = len5
        have e5 : (idx : Int) + 5 = ((idx + 5 : Nat) : Int) := by omega
        by_cases hl0 : len5 = 0
        · have c0 : (((len5 : Nat) : Int) == 0) = true := by simp [hl0]
          simp only [c0, if_true]
          rw [if_pos hl0]
          by_cases h11 : xs.length - (idx + 5) < 11
          · have c11 : decide ((xs.length : Int) - ((idx : Int) + 5) < 11) = true := by simp; omega
            have n11 : ¬ 11 ≤ xs.length - (idx + 5) := by omega
            simp only [List.length_drop, boolsOf_length, c11, n11, if_true, if_false, contW_brk, brk_thenR]
            exact finK_ok reg d0 byValue getCharset app render hA hR _ _ _
          · have c11 : decide ((xs.length : Int) - ((idx : Int) + 5) < 11) = false := by simp; omega
            have n11 : 11 ≤ xs.length - (idx + 5) := by omega
            simp only [List.length_drop, boolsOf_length, c11, n11, if_true, Bool.false_eq_true, if_false]
            rw [readK xs (idx + 5) 11 ((idx : Int) + 5) 11 e5 rfl (by decide) (by omega)]
            simp only [tryC_ok, tripUp_one]
            have et : ((((AztecDecoder.readCode (((boolsOf xs).drop (idx + 5)).take 11) : Nat) : Int) + 31) - 0).toNat
                = AztecDecoder.readCode (((boolsOf xs).drop (idx + 5)).take 11) + 31 := by omega
            have e16 : (idx : Int) + 5 + 11 = ((idx + 5 + 11 : Nat) : Int) := by omega
            rw [et, e16]
            exact after (AztecDecoder.readCode (((boolsOf xs).drop (idx + 5)).take 11) + 31) (idx + 5 + 11) (by omega) (by omega)
        · have c0 : (((len5 : Nat) : Int) == 0) = false := by simp; omega
          simp only [c0, Bool.false_eq_true, if_false, body3_same, tripUp_one]
          rw [if_neg hl0]
          have et : (((len5 : Nat) : Int) - 0).toNat = len5 := by omega
          rw [et, e5]
          simp only []
          exact after len5 (idx + 5) (by omega) (by omega)
    · sorry

end

end Gzx.Obligations.K11c
