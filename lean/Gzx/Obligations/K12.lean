/-
  K12 (wp `enc2`) — the look-ahead automaton of the Code 128 writer, regenerated WITH ITS LOOP from
  /repo/oned/code128_writer.go on every run (`Gzx.Gen.K12`, translator kind `funcm`), proved equal for every input to
  the model functions the totality theorems of Properties/C12C128.lean are about (`Gzx.OneD.findCType`,
  `Gzx.OneD.chooseCode`).  A source edit in `code128FindCType` / `code128ChooseCode` breaks the theorem that names it.
-/
import Gzx.Gen.K12
import Gzx.KernelGuard
import Gzx.Proofs.GoM
import Gzx.Model.OneD
namespace Gzx.Obligations.K12
open Gzx Gzx.GoM Gzx.OneD

/-- `code128CType` values -/
def ctCode : CType → Int
  | .uncodable => 0 | .oneDigit => 1 | .twoDigits => 2 | .fnc1 => 3

def runes (v : List Nat) : List Int := v.map Int.ofNat

theorem idx_runes (v : List Nat) (i : Nat) (h : i < v.length) : idx (runes v) (i : Int) = .ok (v[i] : Int) := by
  rw [idx_ofNat _ _ (by simpa [runes] using h)]
  simp [runes]

theorem drop_cons (v : List Nat) (i : Nat) (h : i < v.length) : v.drop i = v[i] :: v.drop (i + 1) :=
  List.drop_eq_getElem_cons h

when_kernel Gzx.Gen.K12.findCType in
/-- `code128FindCType(value, start)` = the model's `findCType (value[start:])`, for every rune slice and start -/
theorem k_findCType_eq (v : List Nat) (start : Nat) :
    Gen.K12.findCType (runes v) (start : Int) = .ok (ctCode (findCType (v.drop start))) := by
  unfold Gen.K12.findCType
  have hlen : len (runes v) = (v.length : Int) := by simp [len, runes]
  simp only [hlen]
  by_cases hs : start < v.length
  · have h1 : ¬ ((start : Int) ≥ (v.length : Int)) := by omega
    rw [drop_cons v start hs]
    simp only [h1, decide_false, Bool.false_eq_true, if_false, idx_runes v start hs, tryR]
    generalize v[start] = c
    unfold findCType
    by_cases hc : c = 0xF1
    · subst hc; simp [ctCode]
    · have hc' : ¬ ((c : Int) == 241) = true := by simp; omega
      simp only [hc', hc, if_false, Bool.false_eq_true]
      by_cases hd : isDigitCp c = true
      · have h48 : 48 ≤ c ∧ c ≤ 57 := by simpa [isDigitCp] using hd
        have hg : ¬ ((decide ((c : Int) < 48) || decide ((c : Int) > 57)) = true) := by simp; omega
        simp only [hg, hd, Bool.not_true, Bool.false_eq_true, if_false]
        by_cases hs2 : start + 1 < v.length
        · have h2 : ¬ (((start : Int) + 1) ≥ (v.length : Int)) := by omega
          rw [drop_cons v (start + 1) hs2]
          have hi := idx_runes v (start + 1) hs2
          rw [show (((start + 1 : Nat) : Int)) = (start : Int) + 1 by omega] at hi
          simp only [h2, decide_false, Bool.false_eq_true, if_false, hi, tryR]
          generalize v[start + 1] = c2
          by_cases hd2 : isDigitCp c2 = true
          · have h48' : 48 ≤ c2 ∧ c2 ≤ 57 := by simpa [isDigitCp] using hd2
            have hg2 : ¬ ((decide ((c2 : Int) < 48) || decide ((c2 : Int) > 57)) = true) := by simp; omega
            simp [hg2, hd2, ctCode]
          · have hn : ¬ (48 ≤ c2 ∧ c2 ≤ 57) := by simpa [isDigitCp] using hd2
            have hg2 : (decide ((c2 : Int) < 48) || decide ((c2 : Int) > 57)) = true := by simp; omega
            simp [hg2, hd2, ctCode]
        · have h2 : (((start : Int) + 1) ≥ (v.length : Int)) := by omega
          have : v.drop (start + 1) = [] := List.drop_eq_nil_of_le (by omega)
          rw [this]
          simp [h2, ctCode]
      · have hn : ¬ (48 ≤ c ∧ c ≤ 57) := by simpa [isDigitCp] using hd
        have hg : (decide ((c : Int) < 48) || decide ((c : Int) > 57)) = true := by simp; omega
        simp [hg, hd, ctCode]
  · have h1 : ((start : Int) ≥ (v.length : Int)) := by omega
    have : v.drop start = [] := List.drop_eq_nil_of_le (by omega)
    rw [this]
    simp [h1, findCType, ctCode]

theorem ctCode_inj (a b : CType) : ctCode a = ctCode b ↔ a = b := by
  cases a <;> cases b <;> simp [ctCode]

when_kernel Gzx.Gen.K12.chooseCode in
/-- the `for { … index += 2 }` look-ahead loop = the model's `skipPairs` -/
theorem k_chooseCode_loop (v : List Nat) : ∀ (n : Nat) (i : Nat) (fuel : Nat) (la : Int),
    (v.drop i).length ≤ n → n < fuel →
    ∃ j, whileLoop (Gen.K12.chooseCode_body1 (runes v)) fuel (la, (i : Int)) =
      .brk (ctCode (skipPairs n (v.drop i)), j) := by
  intro n
  induction n with
  | zero =>
    intro i fuel la hl hf
    obtain ⟨f, rfl⟩ : ∃ f, fuel = f + 1 := ⟨fuel - 1, by omega⟩
    have hnil : v.drop i = [] := List.length_eq_zero_iff.mp (by omega)
    simp only [whileLoop, Gen.K12.chooseCode_body1, k_findCType_eq, tryC, hnil, skipPairs, findCType, ctCode]
    refine ⟨(i : Int), ?_⟩
    simp
  | succ n ih =>
    intro i fuel la hl hf
    obtain ⟨f, rfl⟩ : ∃ f, fuel = f + 1 := ⟨fuel - 1, by omega⟩
    simp only [whileLoop, Gen.K12.chooseCode_body1, k_findCType_eq, tryC, skipPairs]
    by_cases h2 : findCType (v.drop i) = .twoDigits
    · have hc : ¬ ((ctCode (findCType (v.drop i)) != 2) = true) := by rw [h2]; simp [ctCode]
      simp only [hc, h2, if_false, if_true, Bool.false_eq_true]
      have hlen2 : 2 ≤ (v.drop i).length := by
        cases hd : v.drop i with
        | nil => rw [hd] at h2; simp [findCType] at h2
        | cons a r =>
          cases r with
          | nil =>
            rw [hd] at h2
            revert h2
            unfold findCType
            by_cases ha : a = 0xF1 <;> by_cases hda : isDigitCp a = true <;> simp [ha, hda]
          | cons b r2 => simp
      have hdd : (v.drop i).drop 2 = v.drop (i + 2) := by rw [List.drop_drop]
      rw [hdd]
      have := ih (i + 2) f 2 (by rw [← hdd, List.length_drop]; omega) (by omega)
      rw [show (((i + 2 : Nat) : Int)) = (i : Int) + 2 by omega] at this
      simpa [ctCode] using this
    · have hc : (ctCode (findCType (v.drop i)) != 2) = true := by
        have : ctCode (findCType (v.drop i)) ≠ ctCode .twoDigits := fun h => h2 ((ctCode_inj _ _).mp h)
        simpa [ctCode] using this
      simp only [hc, h2, if_true, if_false]
      exact ⟨_, rfl⟩

when_kernel Gzx.Gen.K12.chooseCode in
/-- `code128ChooseCode(value, start, oldCode)` = the model's `chooseCode (value[start:]) oldCode`, for every rune
    slice, start and old code set (the loop needs at most one iteration per two remaining runes) -/
theorem k_chooseCode_eq (v : List Nat) (start old fuel : Nat) (hf : v.length < fuel) :
    Gen.K12.chooseCode fuel (runes v) (start : Int) (old : Int) = .ok ((chooseCode (v.drop start) old : Nat) : Int) := by
  unfold Gen.K12.chooseCode
  have e2 : (start : Int) + 2 = ((start + 2 : Nat) : Int) := by omega
  have e3 : (start : Int) + 3 = ((start + 3 : Nat) : Int) := by omega
  have e1 : (start : Int) + 1 = ((start + 1 : Nat) : Int) := by omega
  have e4 : (start : Int) + 4 = ((start + 4 : Nat) : Int) := by omega
  rw [e1, e2, e3, e4]
  simp only [k_findCType_eq, tryR]
  have d1 : v.drop (start + 1) = (v.drop start).drop 1 := by rw [List.drop_drop]
  have d2 : v.drop (start + 2) = (v.drop start).drop 2 := by rw [List.drop_drop]
  have d3 : v.drop (start + 3) = (v.drop start).drop 3 := by rw [List.drop_drop]
  have d4 : v.drop (start + 4) = (v.drop start).drop 4 := by rw [List.drop_drop]
  obtain ⟨j, hloop⟩ := k_chooseCode_loop v (v.drop start).length (start + 4) fuel
    (ctCode (findCType (v.drop (start + 2)))) (by rw [d4, List.length_drop]; omega) (by rw [List.length_drop]; omega)
  rw [hloop]
  simp only [Ctl.thenR]
  rw [d1, d2, d3, d4]
  have hlen : len (runes v) = (v.length : Int) := by simp [len, runes]
  unfold chooseCode
  cases hL : findCType (v.drop start) with
  | oneDigit =>
    simp only [ctCode]
    by_cases ho : old = 101 <;> simp [ho] <;> omega
  | uncodable =>
    simp only [ctCode, hlen]
    by_cases hs : start < v.length
    · rw [drop_cons v start hs]
      have h1 : (start : Int) < (v.length : Int) := by omega
      simp only [idx_runes v start hs, h1, decide_true, if_true]
      generalize v[start] = c
      by_cases hc : c < 32 ∨ (old = 101 ∧ (c < 96 ∨ (0xF1 ≤ c ∧ c ≤ 0xF4)))
      · have : ((decide ((c : Int) < 32)) || (((old : Int) == 101) && ((decide ((c : Int) < 96)) || ((decide ((c : Int) >= 241)) && (decide ((c : Int) <= 244)))))) = true := by
          simp; omega
        simp [this, hc]
      · have : ¬ (((decide ((c : Int) < 32)) || (((old : Int) == 101) && ((decide ((c : Int) < 96)) || ((decide ((c : Int) >= 241)) && (decide ((c : Int) <= 244)))))) = true) := by
          simp; omega
        simp [this, hc]
    · have h1 : ¬ ((start : Int) < (v.length : Int)) := by omega
      have : v.drop start = [] := List.drop_eq_nil_of_le (by omega)
      simp [h1, this]
  | fnc1 =>
    simp only [ctCode]
    by_cases h1 : old = 101
    · simp [h1]
    · by_cases h2 : old = 99
      · simp [h2]
      · by_cases h3 : old = 100
        · simp [h3]
        · have i1 : ¬ (old : Int) = 101 := by omega
          have i2 : ¬ (old : Int) = 99 := by omega
          have i3 : ¬ (old : Int) = 100 := by omega
          cases hl1 : findCType ((v.drop start).drop 1) <;> simp [h1, h2, h3, i1, i2, i3, ctCode]
  | twoDigits =>
    simp only [ctCode]
    by_cases h2 : old = 99
    · simp [h2]
    · by_cases h3 : old = 100
      · subst h3
        cases hl2 : findCType ((v.drop start).drop 2) with
        | uncodable => simp [ctCode]
        | oneDigit => simp [ctCode]
        | fnc1 => cases hl3 : findCType ((v.drop start).drop 3) <;> simp [ctCode]
        | twoDigits =>
          cases hsp : skipPairs (v.drop start).length ((v.drop start).drop 4) <;> simp [ctCode]
      · have i2 : ¬ (old : Int) = 99 := by omega
        have i3 : ¬ (old : Int) = 100 := by omega
        by_cases h1 : old = 101 <;> simp [h1, h2, h3, i2, i3]

end Gzx.Obligations.K12
