/-
  K13 — QR capacity / version-choice arithmetic regenerated from /repo on every run (`Gzx.Gen.K13`):
  `willFit`'s comparison, `getAlphanumericCode` with its table, `Version.GetDimensionForVersion`,
  `Mode.GetCharacterCountBits` — proved equal, for all arguments, to the definitions that the theorems of
  Properties/C13.lean (smallest adequate version, capacity figures) and C07 use.
-/
import Gzx.Gen.K13
import Gzx.KernelGuard
import Gzx.Proofs.GoM
import Gzx.Model.QRVersionChoice
namespace Gzx.Obligations.K13
open Gzx Gzx.GoM Gzx.QRRef Gzx.QRVersionChoice

when_kernel Gzx.Gen.K13.willFit in
/-- the arithmetic of `willFit` after its three getter calls: data bytes = total - EC, input bytes =
    ⌈bits/8⌉, fits iff data bytes ≥ input bytes — exactly the tail of the model's `willFit` -/
theorem k_willFit_eq (numInputBits : Nat) (v : VersionInfo) (ec : EC) :
    willFit numInputBits v ec =
      (match ecBlocksForLevel v ec with
       | .error e => .error e
       | .ok b => Gen.K13.willFit numInputBits v.total (totalECCodewords b)) := by
  simp only [willFit, numDataBytes, Gen.K13.willFit, bind, Except.bind, pure, Except.pure]
  cases ecBlocksForLevel v ec with
  | error e => rfl
  | ok b =>
    -- shape-robust: turn Go's truncated division of a non-negative term into `/` and let omega compare
    have key : ∀ a : Int, 0 ≤ a → Int.tdiv a 8 = a / 8 := fun a h => Int.tdiv_eq_ediv_of_nonneg h
    simp only [Except.ok.injEq, decide_eq_decide]
    rw [key _ (by omega)]
    omega

when_kernel Gzx.Gen.K13.getAlphanumericCode in
/-- `getAlphanumericCode(c)` = the standard's Table 5 (`QRRef.alnumCode`), -1 for "not encodable", for every byte -/
theorem k_getAlphanumericCode_eq :
    (List.range 256).all (fun c =>
      Gen.K13.getAlphanumericCode (c : Int) ==
        .ok (match alnumCode c with
             | some v => (v : Int)
             | none => -1)) = true := by
  decide +kernel

when_kernel Gzx.Gen.K13.dimensionForVersion in
/-- `Version.GetDimensionForVersion()` = 17 + 4·version -/
theorem k_dimensionForVersion_eq (v : Nat) : Gen.K13.dimensionForVersion v = (dimension v : Nat) := by
  simp [Gen.K13.dimensionForVersion, dimension]

when_kernel Gzx.Gen.K13.characterCountBits in
/-- `Mode.GetCharacterCountBits(version)` = the model's `characterCountBits`: class 0 for versions ≤ 9, 1 for
    ≤ 26, else 2, then a CHECKED read of the mode's three-entry array -/
theorem k_characterCountBits_eq (T : QRTables) (m : Mode) (v : VersionInfo) :
    Gen.K13.characterCountBits ((T.counts m).map Int.ofNat) v.number =
      (match characterCountBits T m v with
       | .ok c => .ok (c : Int)
       | .error _ => .error oob) := by
  simp only [Gen.K13.characterCountBits, characterCountBits]
  by_cases h9 : v.number ≤ 9
  · have : ((v.number : Int) ≤ 9) := by omega
    simp only [h9, this, decide_true, if_true]
    have := idx_bytes (T.counts m) 0
    simp only [Int.natCast_zero] at this
    rw [this]; cases (T.counts m)[0]? <;> rfl
  · by_cases h26 : v.number ≤ 26
    · have a : ¬ ((v.number : Int) ≤ 9) := by omega
      have b : ((v.number : Int) ≤ 26) := by omega
      simp only [h9, h26, a, b, decide_true, decide_false, if_true, if_false, Bool.false_eq_true]
      have := idx_bytes (T.counts m) 1
      simp only [Int.natCast_one] at this
      rw [this]; cases (T.counts m)[1]? <;> rfl
    · have a : ¬ ((v.number : Int) ≤ 9) := by omega
      have b : ¬ ((v.number : Int) ≤ 26) := by omega
      simp only [h9, h26, a, b, decide_false, if_false, Bool.false_eq_true]
      have := idx_bytes (T.counts m) 2
      have e2 : ((2 : Nat) : Int) = 2 := rfl
      rw [e2] at this
      rw [this]; cases (T.counts m)[2]? <;> rfl

end Gzx.Obligations.K13
