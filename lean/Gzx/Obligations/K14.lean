/-
  K14 — the integer data flow of the three renderers (output size, multiple, paddings), regenerated
  from /repo on every run (`Gzx.Gen.K14`, translator kind `region`) and proved to be exactly what the
  hand-written model of Model/Render.lean (the one Properties/C14.lean is about) computes, for ALL
  arguments: the model is the regenerated arithmetic followed by the modelled SetRegion loops.
  The loops themselves (and `NewBitMatrix`'s argument check) stay tied by the c14 correspondence suite.
-/
import Gzx.Gen.K14
import Gzx.KernelGuard
import Gzx.Model.Render
namespace Gzx.Obligations.K14
open Gzx Gzx.GoM Gzx.Render

when_kernel Gzx.Gen.K14.qrRender in
/-- `renderResult` (QR): qrWidth/qrHeight, output size = max(requested, symbol + quiet zone), multiple =
    min of the two integer ratios (division by zero faults), paddings by truncated halving -/
theorem k_qrRender_eq (mw mh : Nat) (m : Nat → Nat → Bool) (quiet reqW reqH : Int) :
    renderQR mw mh m quiet reqW reqH =
      match Gen.K14.qrRender reqW reqH quiet mw mh with
      | .error e => .error e
      | .ok (ow, oh, mult, lp, tp) =>
        if ow < 1 ∨ oh < 1 then .error .writer
        else .ok ⟨ow, oh, rowLoop m mw lp mult mult mult mh 0 tp⟩ := by
  simp only [renderQR, Gen.K14.qrRender, goDiv, GoM.div, tryR, bind, Except.bind]
  by_cases h1 : (mw : Int) + quiet * 2 = 0
  · simp [h1]
  by_cases h2 : (mh : Int) + quiet * 2 = 0
  · simp [h1, h2]
  simp [h1, h2]

when_kernel Gzx.Gen.K14.dmRender in
/-- `convertByteMatrixToBitMatrix` (Data Matrix): output size = max(requested, matrix), multiple = min ratio,
    paddings halved — and zero when a requested dimension is smaller than the matrix.  (The BitMatrix size
    chosen in that branch is an argument of the skipped `NewBitMatrix` call: model + correspondence.) -/
theorem k_dmRender_eq (mw mh : Nat) (m : Nat → Nat → Bool) (reqW reqH : Int) :
    renderDM mw mh m reqW reqH =
      match Gen.K14.dmRender reqW reqH mw mh with
      | .error e => .error e
      | .ok (_, _, mult, lp, tp) =>
        let small := decide (reqH < (mh : Int)) || decide (reqW < (mw : Int))
        let W := if small then (mw : Int) else reqW
        let H := if small then (mh : Int) else reqH
        if W < 1 ∨ H < 1 then .error (.panic "nil BitMatrix: Clear")
        else .ok ⟨W, H, rowLoop m mw lp mult mult mult mh 0 tp⟩ := by
  simp only [renderDM, Gen.K14.dmRender, goDiv, GoM.div, tryR, bind, Except.bind]
  by_cases h1 : mw = 0
  · simp [h1]
  by_cases h2 : mh = 0
  · simp [h1, h2]
  by_cases hs : (reqH < (mh : Int) ∨ reqW < (mw : Int))
  · simp [h1, h2, hs]
  · simp [h1, h2, hs]

when_kernel Gzx.Gen.K14.onedRender in
/-- `onedWriter_renderResult` (1-D): full width = code + margin, output = max(requested, full) x max(1, height),
    multiple = output / full (division by zero faults), left padding halved -/
theorem k_onedRender_eq (code : List Bool) (reqW reqH margin : Int) :
    render1D code reqW reqH margin =
      match Gen.K14.onedRender reqW reqH margin (code.length : Int) with
      | .error e => .error e
      | .ok (ow, oh, mult, lp) =>
        if ow < 1 ∨ oh < 1 then .error .writer
        else .ok ⟨ow, oh, barLoop mult oh mult code lp⟩ := by
  simp only [render1D, Gen.K14.onedRender, Gen.K14.onedMax, goDiv, GoM.div, tryR, bind, Except.bind]
  have e1 : ∀ a b : Int, (if (decide (a > b)) = true then (Except.ok a : Res Int) else Except.ok b) =
      Except.ok (if a ≥ b then a else b) := by
    intro a b
    by_cases h : a > b
    · have : a ≥ b := by omega
      simp [h, this]
    · by_cases h' : a ≥ b
      · have : a = b := by omega
        simp [this]
      · simp [h, h']
  simp only [e1]
  by_cases h1 : (code.length : Int) + margin = 0 <;> simp [h1]

end Gzx.Obligations.K14
