/-
  K15 — the ECI value range test of `common.GetCharacterSetECIByValue`, regenerated from /repo on every
  run (`Gzx.Gen.K15`; the returned registry entry is an object and not part of the translation) and proved
  equal to the test of the model `ECI.byValue` that Properties/C15.lean is about.
-/
import Gzx.Gen.K15
import Gzx.KernelGuard
import Gzx.Model.ECI
namespace Gzx.Obligations.K15
open Gzx Gzx.ECI

when_kernel Gzx.Gen.K15.eciByValueFails in
/-- `GetCharacterSetECIByValue(v)` fails (FormatException) iff the model's `byValue` fails, for every
    integer and every registry: exactly the values outside 0..899 -/
theorem k_eciByValueFails_eq (reg : Registry) (v : Int) :
    Gen.K15.eciByValueFails v = .ok (match byValue reg v with
                                      | .ok _ => false
                                      | .error _ => true) := by
  simp only [Gen.K15.eciByValueFails, byValue]
  -- shape-robust: decide the model's test, split the GENERATED test, omega sorts the branches
  by_cases h : v < 0 ∨ v ≥ 900 <;> simp only [h, if_true, if_false] <;> split <;> rename_i hc <;>
    (try simp only [Bool.or_eq_true, Bool.and_eq_true, decide_eq_true_eq] at hc) <;>
    first
    | rfl
    | (exfalso; omega)

end Gzx.Obligations.K15
