/-
  K16 — word-index arithmetic of BitMatrix / BitArray (`offset = y*rowSize + x/32`, bit `x%32`,
  `(size+7)/8`, `rowSize = (width+31)/32`, allocation size), regenerated from /repo's bit_matrix.go /
  bit_array.go on every run (`Gzx.Gen.K16`) and proved equal, for all arguments, to the WORD-level model
  of Model/Bits.lean whose refinement to the bit-container spec is what Properties/C16.lean proves.
-/
import Gzx.Gen.K16
import Gzx.KernelGuard
import Gzx.Proofs.GoM
import Gzx.Model.Bits
namespace Gzx.Obligations.K16
open Gzx Gzx.GoM Gzx.Bits

/-- Go `[]uint32` contents of a model word list -/
abbrev words (ws : List Nat) : List Int := ws.map Int.ofNat

when_kernel Gzx.Gen.K16.matrixGet in
/-- `BitMatrix.Get(x, y)` = the word model's `WMat.get` for every matrix and all non-negative coordinates
    (range test, word offset, bit test, and the index fault of a corrupt matrix) -/
theorem k_matrixGet_eq (m : WMat) (x y : Nat) :
    Gen.K16.matrixGet m.width m.height m.rowSize (words m.words) x y = WMat.get m x y := by
  unfold Gen.K16.matrixGet WMat.get
  by_cases h : x ≥ m.width ∨ y ≥ m.height
  · have h' : ((decide ((x : Int) < 0) || decide ((x : Int) ≥ m.width)) || decide ((y : Int) < 0) ||
        decide ((y : Int) ≥ m.height)) = true := by
      simp only [Bool.or_eq_true, decide_eq_true_eq]; omega
    simp only [h', h, if_true]
  · have h' : ((decide ((x : Int) < 0) || decide ((x : Int) ≥ m.width)) || decide ((y : Int) < 0) ||
        decide ((y : Int) ≥ m.height)) = false := by
      simp only [Bool.or_eq_false_iff, decide_eq_false_iff_not]; omega
    have e32 : (32 : Int) = ((32 : Nat) : Int) := rfl
    have eo : (y : Int) * (m.rowSize : Int) + Int.tdiv (x : Int) 32 = ((y * m.rowSize + x / 32 : Nat) : Int) := by
      rw [e32, tdiv_natCast]; simp
    simp only [h', h, Bool.false_eq_true, if_false, eo, idx_bytes, tryR, wordAt, bind, Except.bind]
    cases m.words[y * m.rowSize + x / 32]? with
    | none => rfl
    | some w =>
      have e1 : (1 : Int) = ((1 : Nat) : Int) := rfl
      have em : wrap 64 (Int.tmod (x : Int) 32) = ((x % 32 : Nat) : Int) := by
        rw [e32, tmod_natCast, wrap_natCast]; congr 1
        have : x % 32 < 2 ^ 64 := by omega
        exact Nat.mod_eq_of_lt this
      simp only [em, ishr_natCast, e1, iand_natCast, pure, Except.pure]
      congr 1
      cases hb : ((w >>> (x % 32) &&& 1) != 0) <;> simp_all

when_kernel Gzx.Gen.K16.arrayGet in
/-- `BitArray.Get(i)` = the word model's `WArr.get`: word `i/32`, mask `1 << (i%32)` in 32-bit arithmetic -/
theorem k_arrayGet_eq (a : WArr) (i : Nat) :
    Gen.K16.arrayGet (words a.words) i = WArr.get a i := by
  unfold Gen.K16.arrayGet WArr.get
  have e32 : (32 : Int) = ((32 : Nat) : Int) := rfl
  have e1 : (1 : Int) = ((1 : Nat) : Int) := rfl
  rw [e32, tdiv_natCast]
  simp only [idx_bytes, tryR, wordAt, bind, Except.bind]
  cases a.words[i / 32]? with
  | none => rfl
  | some w =>
    have em : wrap 64 (Int.tmod (i : Int) ((32 : Nat) : Int)) = ((i % 32 : Nat) : Int) := by
      rw [tmod_natCast, wrap_natCast]; congr 1
      have : i % 32 < 2 ^ 64 := by omega
      exact Nat.mod_eq_of_lt this
    have hlt : 1 <<< (i % 32) < 2 ^ 32 := by
      rw [Nat.one_shiftLeft]
      exact Nat.pow_lt_pow_right (by decide) (by omega)
    simp only [em, e1, ishl_natCast, wrap_natCast, iand_natCast, Nat.mod_eq_of_lt hlt, pure, Except.pure]
    congr 1
    cases hb : ((w &&& 1 <<< (i % 32)) != 0) <;> simp_all

when_kernel Gzx.Gen.K16.matrixSetOffset in
/-- the `offset` expression of `Set` is the one of the word model (`y*rowSize + x/32`) -/
theorem k_matrixSetOffset_eq (rowSize x y : Nat) :
    Gen.K16.matrixSetOffset rowSize x y = .ok ((y * rowSize + x / 32 : Nat) : Int) := by
  have e32 : (32 : Int) = ((32 : Nat) : Int) := rfl
  simp only [Gen.K16.matrixSetOffset, e32, tdiv_natCast]
  simp

when_kernel Gzx.Gen.K16.matrixUnsetOffset in
/-- … of `Unset` -/
theorem k_matrixUnsetOffset_eq (rowSize x y : Nat) :
    Gen.K16.matrixUnsetOffset rowSize x y = .ok ((y * rowSize + x / 32 : Nat) : Int) := by
  have e32 : (32 : Int) = ((32 : Nat) : Int) := rfl
  simp only [Gen.K16.matrixUnsetOffset, e32, tdiv_natCast]
  simp

when_kernel Gzx.Gen.K16.matrixFlipOffset in
/-- … of `Flip` -/
theorem k_matrixFlipOffset_eq (rowSize x y : Nat) :
    Gen.K16.matrixFlipOffset rowSize x y = .ok ((y * rowSize + x / 32 : Nat) : Int) := by
  have e32 : (32 : Int) = ((32 : Nat) : Int) := rfl
  simp only [Gen.K16.matrixFlipOffset, e32, tdiv_natCast]
  simp

when_kernel Gzx.Gen.K16.arraySizeInBytes in
/-- `GetSizeInBytes` = `(size + 7) / 8` of the model -/
theorem k_arraySizeInBytes_eq (a : WArr) :
    Gen.K16.arraySizeInBytes a.size = (WArr.getSizeInBytes a : Nat) := by
  have e8 : (8 : Int) = ((8 : Nat) : Int) := rfl
  have e7 : (a.size : Int) + 7 = ((a.size + 7 : Nat) : Int) := by simp
  simp only [Gen.K16.arraySizeInBytes, WArr.getSizeInBytes, e7, e8, tdiv_natCast]

when_kernel Gzx.Gen.K16.newBitMatrix in
/-- `NewBitMatrix(width, height)` past its argument check: `rowSize = (width+31)/32` and a zeroed word
    slice of `rowSize*height` words — the fields of the model's `WMat.new` -/
theorem k_newBitMatrix_eq (width height : Nat) (h : ¬ (width < 1 ∨ height < 1)) :
    (match Gen.K16.newBitMatrix width height with
     | .ok (rs, bits) => some (rs, bits)
     | .error _ => none) =
    (match WMat.new width height with
     | .ok m => some ((m.rowSize : Int), words m.words)
     | .error _ => none) := by
  have e32 : (32 : Int) = ((32 : Nat) : Int) := rfl
  have e31 : (width : Int) + 31 = ((width + 31 : Nat) : Int) := by simp
  simp only [Gen.K16.newBitMatrix, WMat.new, h, if_false, e31, e32, tdiv_natCast, ← Int.natCast_mul, mk, tryR]
  have ec : ((width : Int) + 31) / 32 * (height : Int) = (((width + 31) / 32 * height : Nat) : Int) := by simp
  have hn : ¬ (((width : Int) + 31) / 32 * (height : Int) < 0) := by rw [ec]; omega
  have ht : (((width : Int) + 31) / 32 * (height : Int)).toNat = (width + 31) / 32 * height := by
    rw [ec, Int.toNat_natCast]
  simp [hn, ht, words]

end Gzx.Obligations.K16
