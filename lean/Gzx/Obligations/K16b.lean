/-
  K16b — whole BitMatrix methods regenerated from /repo's bit_matrix.go on every run (`Gzx.Gen.K16b`, translator kind
  `funcm` in its round-4 form: the receiver's fields are threaded through, the written ones are returned) and proved
  equal to the hand-written WORD model of Model/Bits.lean (`WMat.*`), the model whose refinement to the naive bit grid
  Properties/C16.lean proves.  Every theorem is for ALL matrices `m` (no invariant needed unless stated) and all
  natural-number arguments, including the panics of a corrupt matrix and the checked errors.
  Conventions: `words ws` is the Go `[]uint32` of a model word list; a Go `error` result is `true` = failed.
-/
import Gzx.Gen.K16b
import Gzx.KernelGuard
import Gzx.Proofs.GoMTie
namespace Gzx.Obligations.K16b
open Gzx Gzx.GoM Gzx.Bits Gzx.GoVal

when_kernel Gzx.Gen.K16b.matrixSet in
/-- `BitMatrix.Set(x, y)` = `WMat.set`: word `y*rowSize + x/32`, `|= 1 << (x%32)` in 32-bit arithmetic, index panic -/
theorem k_matrixSet_eq (m : WMat) (x y : Nat) :
    Gen.K16b.matrixSet m.rowSize (words m.words) x y = expW (WMat.set m x y) := by
  simp only [Gen.K16b.matrixSet, WMat.set, expW]
  rw [updR m.words (y * m.rowSize + x / 32) (fun w => w ||| 1 <<< (x % 32))]
  · cases updWord m.words (y * m.rowSize + x / 32) _ <;> rfl
  · gonorm; omega
  · gonorm; omega
  · intro w; gonorm
    rw [bit_natCast _ (x % 32) (by omega) (by omega), ior_natCast]

when_kernel Gzx.Gen.K16b.matrixUnset in
/-- `BitMatrix.Unset(x, y)` = `WMat.unset` (`&= ^(1 << (x%32))`) -/
theorem k_matrixUnset_eq (m : WMat) (x y : Nat) :
    Gen.K16b.matrixUnset m.rowSize (words m.words) x y = expW (WMat.unset m x y) := by
  simp only [Gen.K16b.matrixUnset, WMat.unset, expW]
  rw [updR m.words (y * m.rowSize + x / 32) (fun w => w &&& not32 (1 <<< (x % 32)))]
  · cases updWord m.words (y * m.rowSize + x / 32) _ <;> rfl
  · gonorm; omega
  · gonorm; omega
  · intro w; gonorm
    rw [bit_natCast _ (x % 32) (by omega) (by omega), not32_natCast _ (one_shl_lt _ (by omega)), iand_natCast]

when_kernel Gzx.Gen.K16b.matrixFlip in
/-- `BitMatrix.Flip(x, y)` = `WMat.flip` (`^= 1 << (x%32)`) -/
theorem k_matrixFlip_eq (m : WMat) (x y : Nat) :
    Gen.K16b.matrixFlip m.rowSize (words m.words) x y = expW (WMat.flip m x y) := by
  simp only [Gen.K16b.matrixFlip, WMat.flip, expW]
  rw [updR m.words (y * m.rowSize + x / 32) (fun w => w ^^^ 1 <<< (x % 32))]
  · cases updWord m.words (y * m.rowSize + x / 32) _ <;> rfl
  · gonorm; omega
  · gonorm; omega
  · intro w; gonorm
    rw [bit_natCast _ (x % 32) (by omega) (by omega), ixor_natCast]

when_kernel Gzx.Gen.K16b.matrixSetRegion in
/-- `BitMatrix.SetRegion(left, top, width, height)` = `WMat.setRegion`: the three argument checks (error, matrix unchanged),
    then for every row `y` in `[top, top+height)` the row offset `y*rowSize` and for every `x` in `[left, left+width)`
    `bits[offset + x/32] |= 1 << (x%32)`; an index panic of a corrupt matrix at the same iteration -/
theorem k_matrixSetRegion_eq (m : WMat) (left top width height : Nat) :
    Gen.K16b.matrixSetRegion m.width m.height m.rowSize (words m.words) left top width height =
      expEW m.words (WMat.setRegion m left top width height) := by
  simp only [Gen.K16b.matrixSetRegion, WMat.setRegion]
  by_cases h1 : height < 1 ∨ width < 1
  · resolve_ifs; rfl
  by_cases h2 : top + height > m.height ∨ left + width > m.width
  · resolve_ifs; rfl
  resolve_ifs
  generalize hF : (fun (ws : List Nat) (y : Nat) => (List.range' left width).foldlM
        (fun ws x => updWord ws (y * m.rowSize + x / 32) (fun w => w ||| 1 <<< (x % 32))) ws) = F
  rw [loop_up_fold' words F top height m.words rfl (by rw [tripUp_one]; omega) rfl, ofRes_thenR]
  · cases hf : (List.range' top height).foldlM F m.words with
    | ok ws => rfl
    | error e =>
      refine (expEW_error _ ?_).symm
      subst hF
      exact foldlM_error NotArg _ (fun t a e h => foldlM_error NotArg _ (fun t a e h => updWord_error h) _ _ _ h) _ _ _ hf
  · subst hF
    intro y _ _ ws
    simp only [Gen.K16b.matrixSetRegion_body1]
    rw [loop_up_fold' words (fun ws x => updWord ws (y * m.rowSize + x / 32) (fun w => w ||| 1 <<< (x % 32))) left width ws rfl
          (by rw [tripUp_one]; omega) rfl, ofRes_thenC_next]
    · intro x _ _ ws
      simp only [Gen.K16b.matrixSetRegion_body2]
      rw [updC ws (y * m.rowSize + x / 32) (fun w => w ||| 1 <<< (x % 32))]
      · cases updWord ws (y * m.rowSize + x / 32) _ <;> rfl
      · gonorm; omega
      · gonorm; omega
      · intro w; gonorm
        rw [bit_natCast _ (x % 32) (by omega) (by omega), ior_natCast]

when_kernel Gzx.Gen.K16b.matrixClear in
/-- `BitMatrix.Clear()` = `WMat.clear`: every word becomes 0 (loop over `len(b.bits)`, no panic) -/
theorem k_matrixClear_eq (m : WMat) :
    Gen.K16b.matrixClear (words m.words) = .ok (words (WMat.clear m).words) := by
  simp only [Gen.K16b.matrixClear, WMat.clear]
  rw [loop_up_fold' words (fun ws i => updWord ws i (fun _ => 0)) 0 m.words.length m.words rfl
        (by rw [tripUp_one]; gonorm; omega) (by omega), foldlM_updWord_all]
  · rfl
  · intro i _ _ ws
    simp only [Gen.K16b.matrixClear_body1]
    rw [setC ws i 0 _ (by omega) (by omega), setWord_eq_updWord]
    cases updWord ws i _ <;> rfl

end Gzx.Obligations.K16b
