/-
  K16b (BitArray part) — whole BitArray methods regenerated from /repo's bit_array.go on every run (`Gzx.Gen.K16b`) and
  proved equal to the hand-written WORD model of Model/Bits.lean (`WArr.*`).  See Obligations/K16b.lean for conventions.
  Every theorem is for ALL arrays `a` (no invariant unless stated) and all natural-number arguments.
-/
import Gzx.Gen.K16b
import Gzx.KernelGuard
import Gzx.Proofs.GoMTie
namespace Gzx.Obligations.K16bArr
open Gzx Gzx.GoM Gzx.Bits Gzx.GoVal

/-- what a regenerated void method that only writes `b.bits` must return for a model result -/
def expA (r : Res WArr) : Res (List Int) := r.map (fun a' => words a'.words)

/-- … a void method that writes `b.bits` and `b.size` -/
def expAS (r : Res WArr) : Res (List Int × Int) := r.map (fun a' => (words a'.words, (a'.size : Int)))

/-- … a method with an `error` result that only writes `b.bits` -/
def expEA (orig : List Nat) : Res WArr → Res (Bool × List Int)
  | .ok a' => .ok (false, words a'.words)
  | .error .illegalArg => .ok (true, words orig)
  | .error e => .error e

theorem expEA_error (o : List Nat) {e : Fault} (h : NotArg e) : expEA o (.error e) = .error e := by
  cases e <;> first | rfl | exact absurd rfl h

when_kernel Gzx.Gen.K16b.arrayGet in
/-- `BitArray.Get(i)` = `WArr.get` (the copy of the kernel that the K16b callers use) -/
theorem k_arrayGet_eq (a : WArr) (i : Nat) : Gen.K16b.arrayGet (words a.words) i = WArr.get a i := by
  simp only [Gen.K16b.arrayGet, WArr.get]
  rw [idxR a.words (i / 32) _ (by gonorm; omega)]
  simp only [bind, Except.bind]
  cases wordAt a.words (i / 32) with
  | error e => rfl
  | ok w =>
    simp only [pure, Except.pure]
    gonorm
    rw [bit_natCast _ (i % 32) (by omega) (by omega), iand_natCast]
    congr 1
    cases hb : ((w &&& 1 <<< (i % 32)) != 0) <;> simp_all

when_kernel Gzx.Gen.K16b.arraySet in
/-- `BitArray.Set(i)` = `WArr.set` -/
theorem k_arraySet_eq (a : WArr) (i : Nat) : Gen.K16b.arraySet (words a.words) i = expA (WArr.set a i) := by
  simp only [Gen.K16b.arraySet, WArr.set, expA]
  rw [updR a.words (i / 32) (fun w => w ||| 1 <<< (i % 32))]
  · cases updWord a.words (i / 32) _ <;> rfl
  · gonorm; omega
  · gonorm; omega
  · intro w; gonorm
    rw [bit_natCast _ (i % 32) (by omega) (by omega), ior_natCast]

when_kernel Gzx.Gen.K16b.arrayFlip in
/-- `BitArray.Flip(i)` = `WArr.flip` -/
theorem k_arrayFlip_eq (a : WArr) (i : Nat) : Gen.K16b.arrayFlip (words a.words) i = expA (WArr.flip a i) := by
  simp only [Gen.K16b.arrayFlip, WArr.flip, expA]
  rw [updR a.words (i / 32) (fun w => w ^^^ 1 <<< (i % 32))]
  · cases updWord a.words (i / 32) _ <;> rfl
  · gonorm; omega
  · gonorm; omega
  · intro w; gonorm
    rw [bit_natCast _ (i % 32) (by omega) (by omega), ixor_natCast]

when_kernel Gzx.Gen.K16b.arraySetBulk in
/-- `BitArray.SetBulk(i, newBits)` = `WArr.setBulk` -/
theorem k_arraySetBulk_eq (a : WArr) (i newBits : Nat) :
    Gen.K16b.arraySetBulk (words a.words) i newBits = expA (WArr.setBulk a i newBits) := by
  simp only [Gen.K16b.arraySetBulk, WArr.setBulk, expA]
  rw [setR a.words (i / 32) newBits _ (by gonorm; omega) rfl]
  cases setWord a.words (i / 32) newBits <;> rfl

when_kernel Gzx.Gen.K16b.arrayClear in
/-- `BitArray.Clear()` = `WArr.clear` (`for i := range b.bits`) -/
theorem k_arrayClear_eq (a : WArr) : Gen.K16b.arrayClear (words a.words) = .ok (words (WArr.clear a).words) := by
  simp only [Gen.K16b.arrayClear, WArr.clear]
  rw [loop_up_fold' words (fun ws i => updWord ws i (fun _ => 0)) 0 a.words.length a.words rfl
        (by rw [tripUp_one]; gonorm; omega) (by omega), foldlM_updWord_all]
  · rfl
  · intro i _ _ ws
    simp only [Gen.K16b.arrayClear_body1]
    rw [setC ws i 0 _ (by omega) (by omega), setWord_eq_updWord]
    cases updWord ws i _ <;> rfl

when_kernel Gzx.Gen.K16b.makeArray in
/-- `makeArray(size)` = the model's `makeArray`: `(size+31)/32` zero words -/
theorem k_makeArray_eq (size : Nat) : Gen.K16b.makeArray size = .ok (words (Bits.makeArray size)) := by
  simp only [Gen.K16b.makeArray, Bits.makeArray]
  rw [mk_words _ ((size + 31) / 32) (by gonorm; omega)]
  rfl

when_kernel Gzx.Gen.K16b.arrayEnsureCapacity in
/-- `ensureCapacity(size)` = `WArr.ensureCapacity`: grows exactly when `size > 32*len(bits)`, to EXACTLY
    `makeArray(size)` words (no geometric growth), old words copied -/
theorem k_arrayEnsureCapacity_eq (a : WArr) (size : Nat) :
    Gen.K16b.arrayEnsureCapacity (words a.words) size = .ok (words (WArr.ensureCapacity a size).words) := by
  simp only [Gen.K16b.arrayEnsureCapacity, WArr.ensureCapacity, len_words]
  by_cases h : size > a.words.length * 32
  · resolve_ifs
    rw [k_makeArray_eq]
    simp only [tryR_ok, copyL_words]
  · resolve_ifs

when_kernel Gzx.Gen.K16b.arrayAppendBit in
/-- `BitArray.AppendBit(bit)` = `WArr.appendBit`: ensureCapacity(size+1), set bit `size` if `bit`, `size++` -/
theorem k_arrayAppendBit_eq (a : WArr) (bit : Bool) :
    Gen.K16b.arrayAppendBit (words a.words) a.size bit = expAS (WArr.appendBit a bit) := by
  simp only [Gen.K16b.arrayAppendBit, WArr.appendBit, expAS]
  rw [show (a.size : Int) + 1 = ((a.size + 1 : Nat) : Int) by omega, k_arrayEnsureCapacity_eq]
  simp only [tryR_ok]
  have hs : (WArr.ensureCapacity a (a.size + 1)).size = a.size := by
    unfold WArr.ensureCapacity; split <;> rfl
  cases bit with
  | false => simp [hs, Except.map]
  | true =>
    simp only [if_true, hs]
    rw [updC (WArr.ensureCapacity a (a.size + 1)).words (a.size / 32) (fun w => w ||| 1 <<< (a.size % 32))]
    · cases updWord (WArr.ensureCapacity a (a.size + 1)).words (a.size / 32) _ <;> simp [Except.map]
    · gonorm; omega
    · gonorm; omega
    · intro w; gonorm
      rw [bit_natCast _ (a.size % 32) (by omega) (by omega), ior_natCast]

when_kernel Gzx.Gen.K16b.arrayXor in
/-- `BitArray.Xor(other)` = `WArr.xor`: size check (error, unchanged), then the `(size+31)/32` words that hold bits -/
theorem k_arrayXor_eq (a other : WArr) :
    Gen.K16b.arrayXor (words a.words) a.size (words other.words) other.size = expEA a.words (WArr.xor a other) := by
  simp only [Gen.K16b.arrayXor, WArr.xor]
  by_cases h1 : a.size ≠ other.size
  · resolve_ifs; rfl
  resolve_ifs
  generalize hF : (fun (ws : List Nat) (i : Nat) => do
          let o ← wordAt other.words i
          updWord ws i (fun w => w ^^^ o)) = F
  rw [List.range_eq_range', loop_up_fold' words F 0 ((a.size + 31) / 32) a.words rfl (by rw [tripUp_one]; gonorm; omega) (by omega),
    ofRes_thenR]
  · cases hf : (List.range' 0 ((a.size + 31) / 32)).foldlM F a.words with
    | ok ws => rfl
    | error e =>
      refine (expEA_error _ ?_).symm
      subst hF
      refine foldlM_error NotArg _ (fun _ i _ h => ?_) _ _ _ hf
      simp only [bind, Except.bind] at h
      cases hw : wordAt other.words i with
      | error e' => rw [hw] at h; injection h with h; subst h; exact wordAt_error hw
      | ok o => rw [hw] at h; exact updWord_error h
  · subst hF
    intro i _ _ ws
    simp only [Gen.K16b.arrayXor_body1]
    rw [idxC other.words i _ rfl]
    simp only [bind, Except.bind]
    cases wordAt other.words i with
    | error e => rfl
    | ok o =>
      simp only []
      rw [updC ws i (fun w => w ^^^ o) _ rfl rfl (fun w => ixor_natCast w o)]
      cases updWord ws i _ <;> rfl

when_kernel Gzx.Gen.K16b.arraySetRange in
/-- `BitArray.SetRange(start, end)` = `WArr.setRange`: argument check (error, unchanged), empty range, then for every word
    `i` in `[start/32, (end-1)/32]` the mask `(2 << lastBit) - (1 << firstBit)` truncated to 32 bits is OR-ed in -/
theorem k_arraySetRange_eq (a : WArr) (start end_ : Nat) :
    Gen.K16b.arraySetRange (words a.words) a.size start end_ = expEA a.words (WArr.setRange a start end_) := by
  simp only [Gen.K16b.arraySetRange, WArr.setRange]
  by_cases h1 : end_ < start ∨ end_ > a.size
  · resolve_ifs; rfl
  by_cases h2 : end_ = start
  · resolve_ifs; rfl
  resolve_ifs
  have he : (end_ : Int) - 1 = ((end_ - 1 : Nat) : Int) := by omega
  generalize hF : (fun (ws : List Nat) (i : Nat) =>
      updWord ws i (fun w => w ||| WArr.rangeMask start (end_ - 1) (start / 32) ((end_ - 1) / 32) i)) = F
  rw [he, loop_up_fold' words F (start / 32) ((end_ - 1) / 32 + 1 - start / 32) a.words rfl
        (by rw [tripUp_one]; gonorm; omega) (by gonorm; omega), ofRes_thenR]
  · cases hf : (List.range' (start / 32) ((end_ - 1) / 32 + 1 - start / 32)).foldlM F a.words with
    | ok ws => rfl
    | error e =>
      refine (expEA_error _ ?_).symm
      subst hF
      exact foldlM_error NotArg _ (fun _ _ _ h => updWord_error h) _ _ _ hf
  · subst hF
    intro i hi1 hi2 ws
    simp only [Gen.K16b.arraySetRange_body1]
    have hfi : ((i : Int) == Int.tdiv (start : Int) 32) = decide (i = start / 32) := by
      gonorm; rw [Bool.eq_iff_iff]; simp only [beq_iff_eq, decide_eq_true_eq]; omega
    have hli : ((i : Int) == Int.tdiv ((end_ - 1 : Nat) : Int) 32) = decide (i = (end_ - 1) / 32) := by
      gonorm; rw [Bool.eq_iff_iff]; simp only [beq_iff_eq, decide_eq_true_eq]; omega
    rw [hfi, hli]
    rw [updC ws i (fun w => w ||| WArr.rangeMask start (end_ - 1) (start / 32) ((end_ - 1) / 32) i) _ rfl rfl]
    · cases updWord ws i _ <;> rfl
    · intro w
      rw [← ior_natCast]
      congr 1
      unfold WArr.rangeMask
      by_cases c1 : i = start / 32 <;> by_cases c2 : i = (end_ - 1) / 32 <;>
        simp (disch := assumption) only [decide_eq_true_eq, if_pos, if_neg] <;>
        gonorm <;> refine rangeMask_cast _ _ ?_ _ _ (by omega) (by omega) <;> omega

/-- what the regenerated `IsRange` must return: `(result, failed)` -/
def expIsRange : Res Bool → Res (Bool × Bool)
  | .ok r => .ok (r, false)
  | .error .illegalArg => .ok (false, true)
  | .error e => .error e

theorem isRangeLoop_error (ws : List Nat) (start e fi li : Nat) (value : Bool) :
    ∀ (is : List Nat) (er : Fault), WArr.isRangeLoop ws start e fi li value is = .error er → NotArg er := by
  intro is
  induction is with
  | nil => intro er h; simp [WArr.isRangeLoop] at h
  | cons i is ih =>
    intro er h
    unfold WArr.isRangeLoop at h
    cases hw : ws[i]? with
    | none => rw [hw] at h; injection h with h; subst h; intro h'; cases h'
    | some w =>
      rw [hw] at h
      by_cases hc : (w &&& WArr.rangeMask start e fi li i) ≠ (if value then WArr.rangeMask start e fi li i else 0)
      · simp only [if_pos hc] at h; cases h
      · simp only [if_neg hc] at h; exact ih er h

/-- the loop of `IsRange` (early `return false`) is the model's recursion over the word indices -/
theorem isRange_loop (ws : List Nat) (start e : Nat) (value : Bool) (body : Int → Unit → Ctl Unit (Bool × Bool)) :
    ∀ (n a : Nat),
      (∀ i, a ≤ i → i < a + n → body (i : Int) () =
        match ws[i]? with
        | none => .panic oob
        | some w =>
          if (w &&& WArr.rangeMask start e (start / 32) (e / 32) i) ≠
              (if value then WArr.rangeMask start e (start / 32) (e / 32) i else 0) then .ret (false, false)
          else .next ()) →
      loop body 1 n (a : Int) () =
        match WArr.isRangeLoop ws start e (start / 32) (e / 32) value (List.range' a n) with
        | .ok true => .next ()
        | .ok false => .ret (false, false)
        | .error er => .panic er := by
  intro n
  induction n with
  | zero => intro a _; simp [loop, List.range', WArr.isRangeLoop]
  | succ n ih =>
    intro a hb
    rw [loop_succ, hb a (Nat.le_refl a) (by omega)]
    simp only [List.range', WArr.isRangeLoop]
    cases hw : ws[a]? with
    | none => rfl
    | some w =>
      by_cases hc : (w &&& WArr.rangeMask start e (start / 32) (e / 32) a) ≠
          (if value then WArr.rangeMask start e (start / 32) (e / 32) a else 0)
      · simp only [if_pos hc]
      · simp only [if_neg hc]
        have e1 : (a : Int) + 1 = ((a + 1 : Nat) : Int) := by omega
        rw [e1]
        exact ih (a + 1) (fun i h1 h2 => hb i (by omega) (by omega))

when_kernel Gzx.Gen.K16b.arrayIsRange in
/-- `BitArray.IsRange(start, end, value)` = `WArr.isRange`: argument check, empty range, then word by word the masked
    bits against `mask` / 0 with `return false` at the first difference -/
theorem k_arrayIsRange_eq (a : WArr) (start end_ : Nat) (value : Bool) :
    Gen.K16b.arrayIsRange (words a.words) a.size start end_ value = expIsRange (WArr.isRange a start end_ value) := by
  simp only [Gen.K16b.arrayIsRange, WArr.isRange]
  by_cases h1 : end_ < start ∨ end_ > a.size
  · resolve_ifs; rfl
  by_cases h2 : end_ = start
  · resolve_ifs; rfl
  resolve_ifs
  have he : (end_ : Int) - 1 = ((end_ - 1 : Nat) : Int) := by omega
  have hi0 : Int.tdiv (start : Int) 32 = ((start / 32 : Nat) : Int) := by gonorm; omega
  have hn : tripUp (Int.tdiv (start : Int) 32) (Int.tdiv ((end_ - 1 : Nat) : Int) 32 + 1) 1 = (end_ - 1) / 32 + 1 - start / 32 := by
    rw [tripUp_one]; gonorm; omega
  rw [he, hn, hi0, isRange_loop a.words start (end_ - 1) value _ ((end_ - 1) / 32 + 1 - start / 32) (start / 32)]
  · cases hr : WArr.isRangeLoop a.words start (end_ - 1) (start / 32) ((end_ - 1) / 32) value
        (List.range' (start / 32) ((end_ - 1) / 32 + 1 - start / 32)) with
    | ok r => cases r <;> rfl
    | error er =>
      have := isRangeLoop_error _ _ _ _ _ _ _ _ hr
      cases er <;> first | rfl | exact absurd rfl this
  · intro i hi1 hi2
    simp only [Gen.K16b.arrayIsRange_body1]
    have hfi : ((i : Int) == ((start / 32 : Nat) : Int)) = decide (i = start / 32) := by
      rw [Bool.eq_iff_iff]; simp only [beq_iff_eq, decide_eq_true_eq]; omega
    have hli : ((i : Int) == Int.tdiv ((end_ - 1 : Nat) : Int) 32) = decide (i = (end_ - 1) / 32) := by
      gonorm; rw [Bool.eq_iff_iff]; simp only [beq_iff_eq, decide_eq_true_eq]; omega
    rw [hfi, hli]
    have hm : wrap 32 (wrap 32 (ishl 2 (wrap 64 (if decide (i = (end_ - 1) / 32) = true then Int.tmod ((end_ - 1 : Nat) : Int) 32 else 31))) -
        wrap 32 (ishl 1 (wrap 64 (if decide (i = start / 32) = true then Int.tmod (start : Int) 32 else 0)))) =
        ((WArr.rangeMask start (end_ - 1) (start / 32) ((end_ - 1) / 32) i : Nat) : Int) := by
      unfold WArr.rangeMask
      by_cases c1 : i = start / 32 <;> by_cases c2 : i = (end_ - 1) / 32 <;>
        simp (disch := assumption) only [decide_eq_true_eq, if_pos, if_neg] <;>
        gonorm <;> refine rangeMask_cast32 _ _ ?_ _ _ (by omega) (by omega) <;> omega
    rw [hm, idxC a.words i _ rfl]
    unfold wordAt
    cases hw : a.words[i]? with
    | none => rfl
    | some w =>
      simp only [iand_natCast]
      cases value <;> simp [Int.natCast_inj]

/-- what the regenerated `AppendBits` must return: `(failed, bits, size)` -/
def expAppendBits (orig : WArr) : Res WArr → Res (Bool × List Int × Int)
  | .ok a' => .ok (false, words a'.words, (a'.size : Int))
  | .error .illegalArg => .ok (true, words orig.words, (orig.size : Int))
  | .error e => .error e

theorem ensureCapacity_size (a : WArr) (n : Nat) : (WArr.ensureCapacity a n).size = a.size := by
  unfold WArr.ensureCapacity; split <;> rfl

when_kernel Gzx.Gen.K16b.arrayAppendBits in
/-- `BitArray.AppendBits(value, numBits)` = `WArr.appendBits`: range check of `numBits`, ensureCapacity(size+numBits), then for
    `numBitsLeft = numBits-1 … 0` bit `nextSize` is set when bit `numBitsLeft` of `value` is, `nextSize++`; `size = nextSize` -/
theorem k_arrayAppendBits_eq (a : WArr) (value numBits : Nat) :
    Gen.K16b.arrayAppendBits (words a.words) a.size value numBits = expAppendBits a (WArr.appendBits a value numBits) := by
  simp only [Gen.K16b.arrayAppendBits, WArr.appendBits]
  by_cases h1 : numBits > 32
  · resolve_ifs; rfl
  resolve_ifs
  rw [show (a.size : Int) + (numBits : Int) = ((a.size + numBits : Nat) : Int) by omega, k_arrayEnsureCapacity_eq]
  simp only [tryR_ok]
  rw [loop_down_fold' (fun (p : List Nat × Nat) => (words p.1, (p.2 : Int))) (WArr.appendBitsStep value) numBits
        ((WArr.ensureCapacity a (a.size + numBits)).words, (WArr.ensureCapacity a (a.size + numBits)).size)
        (by rw [ensureCapacity_size]) (by rw [tripDown_one]; omega) rfl, ofRes_thenR]
  · cases hf : (List.range numBits).reverse.foldlM (WArr.appendBitsStep value)
        ((WArr.ensureCapacity a (a.size + numBits)).words, (WArr.ensureCapacity a (a.size + numBits)).size) with
    | ok p => rfl
    | error e =>
      have hn : NotArg e := by
        refine foldlM_error NotArg _ (fun t k e h => ?_) _ _ _ hf
        unfold WArr.appendBitsStep at h
        split at h
        · cases hu : updWord t.1 (t.2 / 32) (fun w => w ||| 1 <<< (t.2 % 32)) with
          | ok ws => rw [hu] at h; cases h
          | error e' => rw [hu] at h; injection h with h; subst h; exact updWord_error hu
        · cases h
      cases e <;> first | rfl | exact absurd rfl hn
  · intro k hk p
    obtain ⟨ws, n⟩ := p
    simp only [Gen.K16b.arrayAppendBits_body1, WArr.appendBitsStep]
    rw [shl_of_nonneg _ _ (by omega)]
    simp only [tryC_ok]
    rw [ishl_one, iand_natCast, natCast_bne_zero]
    cases hb : (value &&& 1 <<< k != 0) with
    | false => simp [Except.map]
    | true =>
      simp only [if_true]
      rw [shl_of_nonneg _ _ (by gonorm; omega)]
      simp only [tryC_ok]
      rw [updC ws (n / 32) (fun w => w ||| 1 <<< (n % 32))]
      · cases updWord ws (n / 32) _ <;> simp [Except.map]
      · gonorm; omega
      · gonorm; omega
      · intro w; gonorm
        rw [bit_natCast _ (n % 32) (by omega) (by omega), ior_natCast]

when_kernel Gzx.Gen.K16b.arrayAppendBitArray in
/-- `BitArray.AppendBitArray(other)` = `WArr.appendBitArray`: ensureCapacity(size+other.size), then `AppendBit(other.Get(i))`
    for every `i < other.size` (through the regenerated `Get` and `AppendBit`) -/
theorem k_arrayAppendBitArray_eq (a other : WArr) :
    Gen.K16b.arrayAppendBitArray (words a.words) a.size (words other.words) other.size =
      expAS (WArr.appendBitArray a other) := by
  simp only [Gen.K16b.arrayAppendBitArray, WArr.appendBitArray, expAS]
  rw [show (a.size : Int) + (other.size : Int) = ((a.size + other.size : Nat) : Int) by omega, k_arrayEnsureCapacity_eq]
  simp only [tryR_ok]
  generalize hF : (fun (b : WArr) (i : Nat) => do let bit ← other.get i; b.appendBit bit) = F
  rw [List.range_eq_range', loop_up_fold' (fun (b : WArr) => (words b.words, (b.size : Int)))
        F 0 other.size (WArr.ensureCapacity a (a.size + other.size))
        (by rw [ensureCapacity_size]) (by rw [tripUp_one]; omega) (by omega), ofRes_thenR]
  · cases (List.range' 0 other.size).foldlM F (WArr.ensureCapacity a (a.size + other.size)) <;> rfl
  · subst hF
    intro i _ _ b
    simp only [Gen.K16b.arrayAppendBitArray_body1]
    rw [k_arrayGet_eq]
    simp only [bind, Except.bind]
    cases other.get i with
    | error e => rfl
    | ok bit =>
      simp only [tryC_ok]
      rw [k_arrayAppendBit_eq]
      cases b.appendBit bit <;> rfl

/-- the scan loop of `GetNextSet` / `GetNextUnset` (`for currentBits == 0 { bitsOffset++; if bitsOffset == len { return size }; … }`)
    is the model's `scanNonzero` over the following words -/
theorem scan_while (ws : List Nat) (inv : Bool) (size : Int) (body : Int × Int → Ctl (Int × Int) Int)
    (hb0 : ∀ off cur : Nat, cur ≠ 0 → body ((off : Int), (cur : Int)) = .brk ((off : Int), (cur : Int)))
    (hb1 : ∀ off : Nat, off + 1 ≤ ws.length → body ((off : Int), 0) =
      if off + 1 = ws.length then .ret size
      else match ws[off + 1]? with
        | some w => .next (((off + 1 : Nat) : Int), ((if inv then not32 w else w : Nat) : Int))
        | none => .panic oob) :
    ∀ (k off cur fuel : Nat), off + 1 + k = ws.length → k < fuel →
      whileLoop body fuel ((off : Int), (cur : Int)) =
        match WArr.scanNonzero inv cur (ws.drop (off + 1)) off with
        | none => .ret size
        | some (o, c) => .brk ((o : Int), (c : Int)) := by
  intro k
  induction k with
  | zero =>
    intro off cur fuel hk hf
    obtain ⟨fuel, rfl⟩ : ∃ n, fuel = n + 1 := ⟨fuel - 1, by omega⟩
    rw [whileLoop_succ]
    unfold WArr.scanNonzero
    by_cases hc : cur = 0
    · subst hc
      have hd : ws.drop (off + 1) = [] := List.drop_eq_nil_of_le (by omega)
      rw [show ((0 : Nat) : Int) = 0 from rfl, hb1 off (by omega), if_pos (by omega), hd]
      simp
    · rw [hb0 off cur hc]; simp [hc]
  | succ k ih =>
    intro off cur fuel hk hf
    obtain ⟨fuel, rfl⟩ : ∃ n, fuel = n + 1 := ⟨fuel - 1, by omega⟩
    rw [whileLoop_succ]
    unfold WArr.scanNonzero
    by_cases hc : cur = 0
    · subst hc
      have hlt : off + 1 < ws.length := by omega
      have hd : ws.drop (off + 1) = ws[off + 1] :: ws.drop (off + 1 + 1) := List.drop_eq_getElem_cons hlt
      rw [show ((0 : Nat) : Int) = 0 from rfl, hb1 off (by omega), if_neg (by omega), hd, List.getElem?_eq_getElem hlt]
      simp only [ne_eq, not_true_eq_false, if_false]
      exact ih (off + 1) _ fuel (by omega) (by omega)
    · rw [hb0 off cur hc]; simp [hc]

when_kernel Gzx.Gen.K16b.arrayGetNextSet in
/-- `BitArray.GetNextSet(from)` = `WArr.getNextSet` for every fuel above `len(bits)`: `from >= size`, the first word masked with
    `-(1 << (from&31))`, the scan over the following words with the early `return size` at the end of the slice,
    `bitsOffset*32 + TrailingZeros32`, capped at `size` -/
theorem k_arrayGetNextSet_eq (a : WArr) (frm fuel : Nat) (hf : a.words.length < fuel) :
    Gen.K16b.arrayGetNextSet fuel (words a.words) a.size frm = (WArr.getNextSet a frm).map Int.ofNat := by
  simp only [Gen.K16b.arrayGetNextSet, WArr.getNextSet, WArr.nextGeneric]
  by_cases h1 : frm ≥ a.size
  · resolve_ifs; rfl
  resolve_ifs
  rw [idxR a.words (frm / 32) _ (by gonorm; omega)]
  unfold wordAt
  cases hw : a.words[frm / 32]? with
  | none => rfl
  | some w0 =>
    simp only [Bool.false_eq_true, if_false]
    have hlt : frm / 32 < a.words.length := (List.getElem?_eq_some_iff.mp hw).1
    have hcur : iand (w0 : Int) (wrap 32 (-(wrap 32 (ishl 1 (wrap 64 (iand (frm : Int) 31)))))) =
        ((w0 &&& neg32 (1 <<< (frm % 32)) : Nat) : Int) := by
      gonorm
      rw [bit_natCast _ (frm % 32) (by omega) (by omega), neg32_natCast, iand_natCast]
    have hoff : Int.tdiv (frm : Int) 32 = ((frm / 32 : Nat) : Int) := by gonorm; omega
    rw [hcur, hoff, scan_while a.words false (a.size : Int) _ ?_ ?_ (a.words.length - (frm / 32 + 1)) (frm / 32) _ fuel
          (by omega) (by omega)]
    · cases WArr.scanNonzero false (w0 &&& neg32 (1 <<< (frm % 32))) (a.words.drop (frm / 32 + 1)) (frm / 32) with
      | none => rfl
      | some p =>
        obtain ⟨o, c⟩ := p
        simp only [brk_thenR, tz32_natCast, Except.map]
        by_cases hr : o * 32 + Bits.tz32 c > a.size
        · resolve_ifs; rfl
        · resolve_ifs; congr 1
    · intro off cur hc
      simp only [Gen.K16b.arrayGetNextSet_body1]
      have : ((cur : Int) == 0) = false := by simp; omega
      simp [this]
    · intro off hoff
      simp only [Gen.K16b.arrayGetNextSet_body1, len_words]
      by_cases he : off + 1 = a.words.length
      · have : ((off : Int) + 1 == (a.words.length : Int)) = true := by simp; omega
        simp [this, he]
      · have : ((off : Int) + 1 == (a.words.length : Int)) = false := by simp; omega
        simp only [beq_self_eq_true, if_true, this, Bool.false_eq_true, if_false, he]
        rw [idxC a.words (off + 1) _ (by omega)]
        unfold wordAt
        cases a.words[off + 1]? <;> rfl

when_kernel Gzx.Gen.K16b.arrayGetNextUnset in
/-- `BitArray.GetNextUnset(from)` = `WArr.getNextUnset` on an array whose words are below 2^32 (part of the representation
    invariant), for every fuel above `len(bits)`: as `GetNextSet` on the complemented words (`^b.bits[i]` in 32 bits) -/
theorem k_arrayGetNextUnset_eq (a : WArr) (h32 : ∀ w ∈ a.words, w < W32) (frm fuel : Nat) (hf : a.words.length < fuel) :
    Gen.K16b.arrayGetNextUnset fuel (words a.words) a.size frm = (WArr.getNextUnset a frm).map Int.ofNat := by
  simp only [Gen.K16b.arrayGetNextUnset, WArr.getNextUnset, WArr.nextGeneric]
  by_cases h1 : frm ≥ a.size
  · resolve_ifs; rfl
  resolve_ifs
  rw [idxR a.words (frm / 32) _ (by gonorm; omega)]
  unfold wordAt
  cases hw : a.words[frm / 32]? with
  | none => rfl
  | some w0 =>
    simp only [if_true]
    have hlt : frm / 32 < a.words.length := (List.getElem?_eq_some_iff.mp hw).1
    have hw0 : w0 < W32 := by
      have := (List.getElem?_eq_some_iff.mp hw).2
      rw [← this]; exact h32 _ (List.getElem_mem _)
    have hcur : iand (wrap 32 (inot (w0 : Int))) (wrap 32 (-(wrap 32 (ishl 1 (wrap 64 (iand (frm : Int) 31)))))) =
        ((not32 w0 &&& neg32 (1 <<< (frm % 32)) : Nat) : Int) := by
      gonorm
      rw [bit_natCast _ (frm % 32) (by omega) (by omega), neg32_natCast, not32_natCast _ hw0, iand_natCast]
    have hoff : Int.tdiv (frm : Int) 32 = ((frm / 32 : Nat) : Int) := by gonorm; omega
    rw [hcur, hoff, scan_while a.words true (a.size : Int) _ ?_ ?_ (a.words.length - (frm / 32 + 1)) (frm / 32) _ fuel
          (by omega) (by omega)]
    · cases WArr.scanNonzero true (not32 w0 &&& neg32 (1 <<< (frm % 32))) (a.words.drop (frm / 32 + 1)) (frm / 32) with
      | none => rfl
      | some p =>
        obtain ⟨o, c⟩ := p
        simp only [brk_thenR, tz32_natCast, Except.map]
        by_cases hr : o * 32 + Bits.tz32 c > a.size
        · resolve_ifs; rfl
        · resolve_ifs; congr 1
    · intro off cur hc
      simp only [Gen.K16b.arrayGetNextUnset_body1]
      have : ((cur : Int) == 0) = false := by simp; omega
      simp [this]
    · intro off hoff
      simp only [Gen.K16b.arrayGetNextUnset_body1, len_words]
      by_cases he : off + 1 = a.words.length
      · have : ((off : Int) + 1 == (a.words.length : Int)) = true := by simp; omega
        simp [this, he]
      · have : ((off : Int) + 1 == (a.words.length : Int)) = false := by simp; omega
        simp only [beq_self_eq_true, if_true, this, Bool.false_eq_true, if_false, he]
        rw [idxC a.words (off + 1) _ (by omega)]
        unfold wordAt
        have hl : off + 1 < a.words.length := by omega
        rw [List.getElem?_eq_getElem hl]
        simp only []
        rw [not32_natCast _ (h32 _ (List.getElem_mem hl))]
        rfl

/-- non-vacuity of `k_arrayGetNextSet_eq`: fuel 3 for a two-word array -/
example : ∃ (a : WArr) (fuel : Nat), a.words.length < fuel ∧ WArr.getNextSet a 3 = .ok 34 := ⟨⟨[5, 4], 40⟩, 3, by decide, by decide⟩

/-- non-vacuity of `k_arrayGetNextUnset_eq` -/
example : ∃ a : WArr, (∀ w ∈ a.words, w < W32) ∧ a.words.length < 3 := ⟨⟨[5, 4294967295], 40⟩, by decide, by decide⟩

/-! ### ToBytes -/

/-- one step of the inner loop of `ToBytes` with the running bit offset in the state -/
def toBytesBitStep (a : WArr) (p : Nat × Nat) (j : Nat) : Res (Nat × Nat) := do
  let bit ← a.get p.1
  pure (p.1 + 1, if bit then p.2 ||| (1 <<< (7 - j)) else p.2)

theorem toBytesBit_fold (a : WArr) (bo : Nat) : ∀ (n j0 tb : Nat),
    (List.range' j0 n).foldlM (toBytesBitStep a) (bo + j0, tb) =
      ((List.range' j0 n).foldlM (fun theByte j => do
        let bit ← a.get (bo + j)
        pure (if bit then theByte ||| (1 <<< (7 - j)) else theByte)) tb).map (fun tb' => (bo + (j0 + n), tb')) := by
  intro n
  induction n with
  | zero => intro j0 tb; simp [pure, Except.pure, Except.map]
  | succ n ih =>
    intro j0 tb
    simp only [List.range', List.foldlM, toBytesBitStep, bind, Except.bind]
    cases a.get (bo + j0) with
    | error e => rfl
    | ok bit =>
      simp only [pure, Except.pure]
      have := ih (j0 + 1) (if bit then tb ||| (1 <<< (7 - j0)) else tb)
      rw [show bo + (j0 + 1) = bo + j0 + 1 by omega] at this
      rw [this]
      congr 2; funext tb'; congr 1; omega

/-- one step of the outer loop of `ToBytes` with the running bit offset in the state -/
def toBytesByteStep (a : WArr) (offset : Nat) (p : Nat × List Nat) (i : Nat) : Res (Nat × List Nat) := do
  let theByte ← WArr.toBytesByte a p.1
  if offset + i < p.2.length then pure (p.1 + 8, p.2.set (offset + i) theByte)
  else .error (.panic "index out of range")

theorem toBytesByte_fold (a : WArr) (bo offset : Nat) : ∀ (n i0 : Nat) (arr : List Nat),
    (List.range' i0 n).foldlM (toBytesByteStep a offset) (bo + 8 * i0, arr) =
      ((List.range' i0 n).foldlM (fun (arr : List Nat) i => do
        let theByte ← WArr.toBytesByte a (bo + 8 * i)
        if offset + i < arr.length then pure (arr.set (offset + i) theByte)
        else .error (.panic "index out of range")) arr).map (fun arr' => (bo + 8 * (i0 + n), arr')) := by
  intro n
  induction n with
  | zero => intro i0 arr; simp [pure, Except.pure, Except.map]
  | succ n ih =>
    intro i0 arr
    simp only [List.range', List.foldlM, toBytesByteStep, bind, Except.bind]
    cases WArr.toBytesByte a (bo + 8 * i0) with
    | error e => rfl
    | ok tb =>
      simp only []
      by_cases hl : offset + i0 < arr.length
      · simp only [hl, if_true, pure, Except.pure]
        have := ih (i0 + 1) (arr.set (offset + i0) tb)
        rw [show bo + 8 * (i0 + 1) = bo + 8 * i0 + 8 by omega] at this
        rw [this]
        congr 2; funext arr'; congr 1; omega
      · simp only [hl, if_false]; rfl

when_kernel Gzx.Gen.K16b.arrayToBytes in
/-- `BitArray.ToBytes(bitOffset, array, offset, numBytes)` = `WArr.toBytes`: for every output byte eight `Get(bitOffset)` with
    `bitOffset++`, bit `7-j` of a `byte`, stored at `array[offset+i]` (index panics of `Get` and of the store) -/
theorem k_arrayToBytes_eq (a : WArr) (bitOffset : Nat) (array : List Nat) (offset numBytes : Nat) :
    Gen.K16b.arrayToBytes (words a.words) bitOffset (words array) offset numBytes =
      (WArr.toBytes a bitOffset array offset numBytes).map words := by
  simp only [Gen.K16b.arrayToBytes]
  have hm : (List.range' 0 numBytes).foldlM (toBytesByteStep a offset) (bitOffset, array) =
      (WArr.toBytes a bitOffset array offset numBytes).map (fun arr' => (bitOffset + 8 * numBytes, arr')) := by
    have := toBytesByte_fold a bitOffset offset numBytes 0 array
    rw [show bitOffset + 8 * 0 = bitOffset by omega, Nat.zero_add] at this
    rw [this, WArr.toBytes, List.range_eq_range']
  have hm2 : ∀ bo, (List.range' 0 8).foldlM (toBytesBitStep a) (bo, 0) =
      (WArr.toBytesByte a bo).map (fun tb => (bo + 8, tb)) := by
    intro bo
    have := toBytesBit_fold a bo 8 0 0
    rw [show bo + 0 = bo by omega, Nat.zero_add] at this
    rw [this, WArr.toBytesByte, List.range_eq_range']
  rw [loop_up_fold' (fun (p : Nat × List Nat) => ((p.1 : Int), words p.2)) (toBytesByteStep a offset) 0 numBytes (bitOffset, array)
        rfl (by rw [tripUp_one]; omega) (by omega), ofRes_thenR, hm]
  · cases WArr.toBytes a bitOffset array offset numBytes <;> rfl
  · intro i _ _ p
    obtain ⟨bo, arr⟩ := p
    simp only [Gen.K16b.arrayToBytes_body1]
    rw [show (0 : Int) = ((0 : Nat) : Int) from rfl,
      loop_up_fold' (fun (p : Nat × Nat) => ((p.1 : Int), (p.2 : Int))) (toBytesBitStep a) 0 8 (bo, 0) rfl
        (by rw [tripUp_one]; omega) rfl, ofRes_thenC, hm2]
    · simp only [toBytesByteStep, bind, Except.bind]
      cases WArr.toBytesByte a bo with
      | error e => rfl
      | ok tb =>
        simp only [Except.map]
        rw [setC arr (offset + i) tb _ (by omega) rfl]
        unfold setWord
        by_cases hl : offset + i < arr.length
        · simp [hl, pure, Except.pure]
        · simp [hl]
    · intro j _ hj q
      obtain ⟨bo', tb⟩ := q
      simp only [Gen.K16b.arrayToBytes_body2, toBytesBitStep]
      rw [k_arrayGet_eq]
      simp only [bind, Except.bind]
      cases a.get bo' with
      | error e => rfl
      | ok bit =>
        simp only [tryC_ok, pure, Except.pure, Except.map, ofRes_ok]
        cases bit with
        | false => simp
        | true =>
          have hb : wrap 8 (ishl 1 (wrap 64 (7 - (j : Int)))) = ((1 <<< (7 - j) : Nat) : Int) := by
            rw [show wrap 64 (7 - (j : Int)) = ((7 - j : Nat) : Int) by gonorm; omega, ishl_one, wrap_natCast]
            congr 1
            apply Nat.mod_eq_of_lt
            rw [Nat.one_shiftLeft]
            exact Nat.pow_lt_pow_right (by decide) (by omega)
          simp only [if_true, next_thenC]
          rw [hb, ior_natCast]
          simp

/-! ### Reverse -/

/-- the realignment loop of `Reverse` (`nextInt := newBits[i]; currentInt |= nextInt << (32-leftOffset); newBits[i-1] = currentInt;
    currentInt = nextInt >> leftOffset`, then `newBits[oldBitsLen-1] = currentInt`) is the model's `shiftLoop` over the words -/
theorem reverse_shift_loop {σ : Type} (lo : Nat) (body : Int → List Int × Int → Ctl (List Int × Int) (List Int))
    (hb : ∀ (i : Nat) (ws : List Nat) (cur : Nat), 1 ≤ i → body (i : Int) (words ws, (cur : Int)) =
      match ws[i]? with
      | none => .panic oob
      | some r =>
        match setWord ws (i - 1) (cur ||| shl32 r (32 - lo)) with
        | .ok ws' => .next (words ws', ((r >>> lo : Nat) : Int))
        | .error e => .panic e)
    (e : Int) (k : List Int → Ctl σ (List Int)) :
    ∀ (rest out : List Nat) (x cur : Nat) (T : List Nat), e = ((out.length + rest.length : Nat) : Int) →
      (loop body 1 rest.length ((out.length + 1 : Nat) : Int) (words (out ++ x :: rest ++ T), (cur : Int))).thenC
          (fun st => tryC (setIdx st.1 e st.2) k) =
        k (words (out ++ WArr.shiftLoop lo rest cur ++ T)) := by
  intro rest
  induction rest with
  | nil =>
    intro out x cur T he
    simp only [List.length_nil, loop_zero, next_thenC, WArr.shiftLoop, Nat.add_zero] at *
    rw [setC (out ++ x :: [] ++ T) out.length cur k he rfl]
    simp [setWord]
  | cons r rest ih =>
    intro out x cur T he
    rw [List.length_cons, loop_succ, hb (out.length + 1) _ cur (by omega)]
    have h1 : (out ++ x :: (r :: rest) ++ T)[out.length + 1]? = some r := by simp
    rw [h1]
    simp only [Nat.add_sub_cancel]
    have h2 : setWord (out ++ x :: (r :: rest) ++ T) out.length (cur ||| shl32 r (32 - lo)) =
        .ok ((out ++ [cur ||| shl32 r (32 - lo)]) ++ r :: rest ++ T) := by
      simp [setWord]
    rw [h2]
    simp only []
    have h3 : ((out.length + 1 : Nat) : Int) + 1 = (((out ++ [cur ||| shl32 r (32 - lo)]).length + 1 : Nat) : Int) := by
      simp
    rw [h3, ih (out ++ [cur ||| shl32 r (32 - lo)]) r (r >>> lo) T (by rw [he]; simp; omega)]
    simp [WArr.shiftLoop]

theorem setWord_length {ws ws' : List Nat} {i v : Nat} (h : setWord ws i v = .ok ws') : ws'.length = ws.length := by
  unfold setWord at h
  by_cases hl : i < ws.length
  · rw [if_pos hl] at h; injection h with h; rw [← h, List.length_set]
  · rw [if_neg hl] at h; cases h

/-- a loop of `setWord`s keeps the length of the slice -/
theorem foldlM_setWord_length {α : Type} (f : List Nat → α → Res (List Nat))
    (hf : ∀ ws a ws', f ws a = .ok ws' → ws'.length = ws.length) :
    ∀ (l : List α) (ws ws' : List Nat), l.foldlM f ws = .ok ws' → ws'.length = ws.length := by
  intro l
  induction l with
  | nil => intro ws ws' h; simp only [List.foldlM, pure, Except.pure] at h; injection h with h; rw [h]
  | cons a l ih =>
    intro ws ws' h
    simp only [List.foldlM, bind, Except.bind] at h
    cases hfa : f ws a with
    | error e => rw [hfa] at h; cases h
    | ok w1 => rw [hfa] at h; rw [ih w1 ws' h, hf ws a w1 hfa]

when_kernel Gzx.Gen.K16b.arrayReverse in
/-- `BitArray.Reverse()` = `WArr.reverse` on an array with enough words (`size ≤ 32*len(bits)`, part of the invariant): a new slice,
    `newBits[len-i] = Reverse32(bits[i])` for the words that hold bits, and — when `size` is not a multiple of 32 — the
    realignment by `leftOffset = oldBitsLen*32 - size` bits -/
theorem k_arrayReverse_eq (a : WArr) (hcap : a.size ≤ a.words.length * 32) :
    Gen.K16b.arrayReverse (words a.words) a.size = expA (WArr.reverse a) := by
  simp only [Gen.K16b.arrayReverse, WArr.reverse, expA]
  by_cases h0 : a.size = 0
  · resolve_ifs; rfl
  resolve_ifs
  have hlen : Int.tdiv ((a.size : Int) - 1) 32 = (((a.size - 1) / 32 : Nat) : Int) := by gonorm; omega
  rw [mk_words _ a.words.length (len_words _), hlen]
  simp only [tryR_ok]
  generalize hF : (fun (nb : List Nat) (i : Nat) => do
        let w ← wordAt a.words i
        setWord nb ((a.size - 1) / 32 - i) (rev32 w)) = F
  rw [List.range_eq_range', loop_up_fold' words F 0 ((a.size - 1) / 32 + 1) (List.replicate a.words.length 0) rfl
        (by rw [tripUp_one]; omega) (by omega), ofRes_thenR]
  · cases hf : (List.range' 0 ((a.size - 1) / 32 + 1)).foldlM F (List.replicate a.words.length 0) with
    | error e => rfl
    | ok nb1 =>
      have hl1 : nb1.length = a.words.length := by
        have := foldlM_setWord_length F (fun ws i ws' h => by
          subst hF
          simp only [bind, Except.bind] at h
          cases hw : wordAt a.words i with
          | error e => rw [hw] at h; cases h
          | ok w => rw [hw] at h; exact setWord_length h) _ _ _ hf
        rw [this, List.length_replicate]
      simp only [Except.map]
      by_cases hs : a.size = ((a.size - 1) / 32 + 1) * 32
      · resolve_ifs
        rfl
      · resolve_ifs
        have hlo : wrap 64 (((((a.size - 1) / 32 : Nat) : Int) + 1) * 32 - (a.size : Int)) =
            ((((a.size - 1) / 32 + 1) * 32 - a.size : Nat) : Int) := by gonorm; omega
        rw [hlo]
        have hn : (a.size - 1) / 32 + 1 ≤ nb1.length := by omega
        obtain ⟨w0, rest, T, hnb, hrl⟩ : ∃ w0 rest T, nb1 = w0 :: rest ++ T ∧ rest.length = (a.size - 1) / 32 ∧ True := by
          cases nb1 with
          | nil => simp at hn
          | cons w0 tl =>
            refine ⟨w0, tl.take ((a.size - 1) / 32), tl.drop ((a.size - 1) / 32), by simp, ?_, trivial⟩
            simp only [List.length_cons] at hn
            rw [List.length_take]; omega
        obtain ⟨hrl, _⟩ := hrl
        subst hnb
        rw [idxC (w0 :: rest ++ T) 0 _ (by omega)]
        simp only [wordAt, List.cons_append, List.getElem?_cons_zero, ishr_natCast]
        have key := reverse_shift_loop (((a.size - 1) / 32 + 1) * 32 - a.size)
          (Gen.K16b.arrayReverse_body2 (((((a.size - 1) / 32 + 1) * 32 - a.size : Nat)) : Int)) ?_
          ((((a.size - 1) / 32 : Nat) : Int) + 1 - 1) (fun t7 => (Ctl.next t7 : Ctl (List Int) (List Int))) rest [] w0
          (w0 >>> (((a.size - 1) / 32 + 1) * 32 - a.size)) T (by simp; omega)
        · simp only [List.nil_append, List.length_nil, Nat.zero_add] at key
          rw [show ((1 : Nat) : Int) = 1 from rfl] at key
          rw [show tripUp 1 ((((a.size - 1) / 32 : Nat) : Int) + 1) 1 = rest.length by rw [tripUp_one]; omega]
          rw [show (w0 :: (rest ++ T)) = (w0 :: rest ++ T) from rfl, key]
          simp only [next_thenR]
          have ht : (w0 :: rest ++ T).take ((a.size - 1) / 32 + 1) = w0 :: rest := by
            simp [List.take_append, hrl]
          have hd : (w0 :: rest ++ T).drop ((a.size - 1) / 32 + 1) = T := by
            simp [List.drop_append, hrl]
          rw [ht, hd]
        · intro i ws cur hi
          simp only [Gen.K16b.arrayReverse_body2]
          rw [idxC ws i _ rfl]
          unfold wordAt
          cases ws[i]? with
          | none => rfl
          | some r =>
            simp only []
            have hsh : ior (cur : Int) (wrap 32 (ishl (r : Int) (wrap 64 (32 -
                ((((a.size - 1) / 32 + 1) * 32 - a.size : Nat) : Int))))) =
                ((cur ||| shl32 r (32 - (((a.size - 1) / 32 + 1) * 32 - a.size)) : Nat) : Int) := by
              rw [show wrap 64 (32 - ((((a.size - 1) / 32 + 1) * 32 - a.size : Nat) : Int)) =
                  ((32 - (((a.size - 1) / 32 + 1) * 32 - a.size) : Nat) : Int) by gonorm; omega,
                ishl_natCast, wrap_natCast, ior_natCast]
              rfl
            rw [hsh, setC ws (i - 1) _ _ (by omega) rfl, ishr_natCast]
            cases setWord ws (i - 1) _ <;> rfl
  · subst hF
    intro i _ hi nb
    simp only [Gen.K16b.arrayReverse_body1]
    rw [idxC a.words i _ rfl]
    simp only [bind, Except.bind]
    cases wordAt a.words i with
    | error e => rfl
    | ok w =>
      simp only []
      rw [setC nb ((a.size - 1) / 32 - i) (rev32 w) _ (by omega) (rev32_natCast w)]
      cases setWord nb _ _ <;> rfl

/-- non-vacuity of `k_arrayReverse_eq`: 40 bits in two words -/
example : ∃ a : WArr, a.size ≤ a.words.length * 32 ∧ a.size % 32 ≠ 0 ∧ (WArr.reverse a).isOk :=
  ⟨⟨[5, 128], 40⟩, by decide, by decide, by decide⟩

end Gzx.Obligations.K16bArr
