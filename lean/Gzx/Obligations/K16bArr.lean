/-
  K16b (BitArray part) — whole BitArray methods regenerated from /repo's bit_array.go on every run (`Gzx.Gen.K16b`) and
  proved equal to the hand-written WORD model of Model/Bits.lean (`WArr.*`).  See Obligations/K16b.lean for conventions.
  Every theorem is for ALL arrays `a` (no invariant unless stated) and all natural-number arguments.
-/
import Gzx.Gen.K16b
import Gzx.KernelGuard
import Gzx.Proofs.GoMTie
namespace Gzx.Obligations.K16bArr
open Gzx Gzx.GoM Gzx.Bits Gzx.GoVal

/-- what a regenerated void method that only writes `b.bits` must return for a model result -/
def expA (r : Res WArr) : Res (List Int) := r.map (fun a' => words a'.words)

/-- … a void method that writes `b.bits` and `b.size` -/
def expAS (r : Res WArr) : Res (List Int × Int) := r.map (fun a' => (words a'.words, (a'.size : Int)))

/-- … a method with an `error` result that only writes `b.bits` -/
def expEA (orig : List Nat) : Res WArr → Res (Bool × List Int)
  | .ok a' => .ok (false, words a'.words)
  | .error .illegalArg => .ok (true, words orig)
  | .error e => .error e

theorem expEA_error (o : List Nat) {e : Fault} (h : NotArg e) : expEA o (.error e) = .error e := by
  cases e <;> first | rfl | exact absurd rfl h

macro "resolve_ifs" : tactic =>
  `(tactic| simp (disch := omega) only [Bool.or_eq_true, Bool.and_eq_true, decide_eq_true_eq, bne_iff_ne, beq_iff_eq, ne_eq,
      if_pos, if_neg])

when_kernel Gzx.Gen.K16b.arrayGet in
/-- `BitArray.Get(i)` = `WArr.get` (the copy of the kernel that the K16b callers use) -/
theorem k_arrayGet_eq (a : WArr) (i : Nat) : Gen.K16b.arrayGet (words a.words) i = WArr.get a i := by
  simp only [Gen.K16b.arrayGet, WArr.get]
  rw [idxR a.words (i / 32) _ (by gonorm; omega)]
  simp only [bind, Except.bind]
  cases wordAt a.words (i / 32) with
  | error e => rfl
  | ok w =>
    simp only [pure, Except.pure]
    gonorm
    rw [bit_natCast _ (i % 32) (by omega) (by omega), iand_natCast]
    congr 1
    cases hb : ((w &&& 1 <<< (i % 32)) != 0) <;> simp_all

when_kernel Gzx.Gen.K16b.arraySet in
/-- `BitArray.Set(i)` = `WArr.set` -/
theorem k_arraySet_eq (a : WArr) (i : Nat) : Gen.K16b.arraySet (words a.words) i = expA (WArr.set a i) := by
  simp only [Gen.K16b.arraySet, WArr.set, expA]
  rw [updR a.words (i / 32) (fun w => w ||| 1 <<< (i % 32))]
  · cases updWord a.words (i / 32) _ <;> rfl
  · gonorm; omega
  · gonorm; omega
  · intro w; gonorm
    rw [bit_natCast _ (i % 32) (by omega) (by omega), ior_natCast]

when_kernel Gzx.Gen.K16b.arrayFlip in
/-- `BitArray.Flip(i)` = `WArr.flip` -/
theorem k_arrayFlip_eq (a : WArr) (i : Nat) : Gen.K16b.arrayFlip (words a.words) i = expA (WArr.flip a i) := by
  simp only [Gen.K16b.arrayFlip, WArr.flip, expA]
  rw [updR a.words (i / 32) (fun w => w ^^^ 1 <<< (i % 32))]
  · cases updWord a.words (i / 32) _ <;> rfl
  · gonorm; omega
  · gonorm; omega
  · intro w; gonorm
    rw [bit_natCast _ (i % 32) (by omega) (by omega), ixor_natCast]

when_kernel Gzx.Gen.K16b.arraySetBulk in
/-- `BitArray.SetBulk(i, newBits)` = `WArr.setBulk` -/
theorem k_arraySetBulk_eq (a : WArr) (i newBits : Nat) :
    Gen.K16b.arraySetBulk (words a.words) i newBits = expA (WArr.setBulk a i newBits) := by
  simp only [Gen.K16b.arraySetBulk, WArr.setBulk, expA]
  rw [setR a.words (i / 32) newBits _ (by gonorm; omega) rfl]
  cases setWord a.words (i / 32) newBits <;> rfl

when_kernel Gzx.Gen.K16b.arrayClear in
/-- `BitArray.Clear()` = `WArr.clear` (`for i := range b.bits`) -/
theorem k_arrayClear_eq (a : WArr) : Gen.K16b.arrayClear (words a.words) = .ok (words (WArr.clear a).words) := by
  simp only [Gen.K16b.arrayClear, WArr.clear]
  rw [loop_up_fold' words (fun ws i => updWord ws i (fun _ => 0)) 0 a.words.length a.words rfl
        (by rw [tripUp_one]; gonorm; omega) (by omega), foldlM_updWord_all]
  · rfl
  · intro i _ _ ws
    simp only [Gen.K16b.arrayClear_body1]
    rw [setC ws i 0 _ (by omega) (by omega), setWord_eq_updWord]
    cases updWord ws i _ <;> rfl

when_kernel Gzx.Gen.K16b.makeArray in
/-- `makeArray(size)` = the model's `makeArray`: `(size+31)/32` zero words -/
theorem k_makeArray_eq (size : Nat) : Gen.K16b.makeArray size = .ok (words (Bits.makeArray size)) := by
  simp only [Gen.K16b.makeArray, Bits.makeArray]
  rw [mk_words _ ((size + 31) / 32) (by gonorm; omega)]
  rfl

when_kernel Gzx.Gen.K16b.arrayEnsureCapacity in
/-- `ensureCapacity(size)` = `WArr.ensureCapacity`: grows exactly when `size > 32*len(bits)`, to EXACTLY
    `makeArray(size)` words (no geometric growth), old words copied -/
theorem k_arrayEnsureCapacity_eq (a : WArr) (size : Nat) :
    Gen.K16b.arrayEnsureCapacity (words a.words) size = .ok (words (WArr.ensureCapacity a size).words) := by
  simp only [Gen.K16b.arrayEnsureCapacity, WArr.ensureCapacity, len_words]
  by_cases h : size > a.words.length * 32
  · resolve_ifs
    rw [k_makeArray_eq]
    simp only [tryR_ok, copyL_words]
  · resolve_ifs

end Gzx.Obligations.K16bArr
