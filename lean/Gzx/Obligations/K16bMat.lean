/-
  K16b (rest of BitMatrix) — the BitMatrix methods that the renderers do not use (Xor, SetRow, FlipAll, rotations, scans),
  regenerated from /repo's bit_matrix.go on every run (`Gzx.Gen.K16b`) and proved equal to the word model `WMat.*` of
  Model/Bits.lean.  Conventions and the renderers' methods (Set/Unset/Flip/SetRegion/Clear): Obligations/K16b.lean.
-/
import Gzx.Gen.K16b
import Gzx.KernelGuard
import Gzx.Proofs.GoMTie
namespace Gzx.Obligations.K16bMat
open Gzx Gzx.GoM Gzx.Bits Gzx.GoVal

when_kernel Gzx.Gen.K16b.matrixXor in
/-- `BitMatrix.Xor(mask)` = `WMat.xor`: dimension check (error, unchanged), then word by word
    `bits[y*rowSize+x] ^= mask.bits[y*mask.rowSize+x]`, index panics at the same iteration.
    (`b` and `mask` are different objects: the translation threads the two word slices separately.) -/
theorem k_matrixXor_eq (m mask : WMat) :
    Gen.K16b.matrixXor m.width m.height m.rowSize (words m.words) mask.width mask.height mask.rowSize (words mask.words) =
      expEW m.words (WMat.xor m mask) := by
  simp only [Gen.K16b.matrixXor, WMat.xor]
  by_cases h1 : m.width ≠ mask.width ∨ m.height ≠ mask.height ∨ m.rowSize ≠ mask.rowSize
  · resolve_ifs; rfl
  resolve_ifs
  generalize hF : (fun (ws : List Nat) (y : Nat) => (List.range m.rowSize).foldlM (fun ws x => do
          let o ← wordAt mask.words (y * mask.rowSize + x)
          updWord ws (y * m.rowSize + x) (fun w => w ^^^ o)) ws) = F
  rw [List.range_eq_range', loop_up_fold' words F 0 m.height m.words rfl (by rw [tripUp_one]; omega) (by omega), ofRes_thenR]
  · cases hf : (List.range' 0 m.height).foldlM F m.words with
    | ok ws => rfl
    | error e =>
      refine (expEW_error _ ?_).symm
      subst hF
      refine foldlM_error NotArg _ (fun _ y _ h => foldlM_error NotArg _ (fun _ x e h => ?_) _ _ _ h) _ _ _ hf
      simp only [bind, Except.bind] at h
      cases hw : wordAt mask.words (y * mask.rowSize + x) with
      | error e' => rw [hw] at h; injection h with h; subst h; exact wordAt_error hw
      | ok o => rw [hw] at h; exact updWord_error h
  · subst hF
    intro y _ _ ws
    simp only [Gen.K16b.matrixXor_body1]
    rw [List.range_eq_range', loop_up_fold' words (fun ws x => do
          let o ← wordAt mask.words (y * mask.rowSize + x)
          updWord ws (y * m.rowSize + x) (fun w => w ^^^ o)) 0 m.rowSize ws rfl (by rw [tripUp_one]; omega) (by omega), ofRes_thenC_next]
    intro x _ _ ws
    simp only [Gen.K16b.matrixXor_body2]
    rw [idxC mask.words (y * mask.rowSize + x) _ (by omega)]
    simp only [bind, Except.bind]
    cases wordAt mask.words (y * mask.rowSize + x) with
    | error e => rfl
    | ok o =>
      simp only []
      rw [updC ws (y * m.rowSize + x) (fun w => w ^^^ o) _ (by omega) (by omega) (fun w => ixor_natCast w o)]
      cases updWord ws (y * m.rowSize + x) _ <;> rfl

when_kernel Gzx.Gen.K16b.matrixSetRow in
/-- `BitMatrix.SetRow(y, row)` = `WMat.setRow`: `copy(bits[y*rowSize : y*rowSize+rowSize], row.bits)` with the slice-bounds panic -/
theorem k_matrixSetRow_eq (m : WMat) (y : Nat) (row : WArr) :
    Gen.K16b.matrixSetRow m.rowSize (words m.words) y (words row.words) = expW (WMat.setRow m y row) := by
  have hmul : (y : Int) * (m.rowSize : Int) = ((y * m.rowSize : Nat) : Int) := by simp
  simp only [Gen.K16b.matrixSetRow, WMat.setRow, expW, copySeg, words_length, hmul]
  by_cases h : y * m.rowSize + m.rowSize > m.words.length
  · simp (disch := omega) only [if_pos, if_neg]; rfl
  · simp (disch := omega) only [if_pos, if_neg]
    have e2 : (((y * m.rowSize : Nat) : Int) + (m.rowSize : Int)).toNat = y * m.rowSize + m.rowSize := by omega
    simp only [Int.toNat_natCast, e2, tryR_ok, Except.map]
    congr 1
    rw [show y * m.rowSize + m.rowSize - y * m.rowSize = m.rowSize by omega]
    simp only [words, ← List.map_take, ← List.map_drop]
    rw [show List.map Int.ofNat ((m.words.drop (y * m.rowSize)).take m.rowSize) =
          words ((m.words.drop (y * m.rowSize)).take m.rowSize) from rfl,
        show List.map Int.ofNat row.words = words row.words from rfl, copyL_words]
    simp [words]

when_kernel Gzx.Gen.K16b.matrixFlipAll in
/-- `BitMatrix.FlipAll()` = `WMat.flipAll` on a matrix satisfying the representation invariant (words below 2^32,
    `len(bits) = rowSize*height`, `rowSize ≥ 1`), for every fuel above `height`: every word complemented in 32 bits, then —
    when `width%32 ≠ 0` — the last word of every row (`i = rowSize-1; i < len; i += rowSize`) masked with `1<<shift - 1` -/
theorem k_matrixFlipAll_eq (m : WMat) (h : InvM m) (fuel : Nat) (hfuel : m.height < fuel) :
    Gen.K16b.matrixFlipAll fuel m.width m.rowSize (words m.words) = expW (WMat.flipAll m) := by
  obtain ⟨hw1, _, hrs, hlen, h32, _⟩ := h
  have hrs1 : 1 ≤ m.rowSize := by omega
  simp only [Gen.K16b.matrixFlipAll, WMat.flipAll, expW]
  rw [loop_up_fold' words (fun ws i => updWord ws i (fun w => (wrap 32 (inot (w : Int))).toNat)) 0 m.words.length m.words rfl
        (by rw [tripUp_one]; gonorm; omega) (by omega), foldlM_updWord_all,
      show m.words.map (fun (w : Nat) => (wrap 32 (inot (w : Int))).toNat) = m.words.map not32 from
        List.map_congr_left (fun w hw => by rw [not32_natCast w (h32 w hw), Int.toNat_natCast])]
  · simp only [ofRes_thenR, Except.map]
    have hsh : wrap 64 (Int.tmod (m.width : Int) 32) = ((m.width % 32 : Nat) : Int) := by gonorm; omega
    rw [hsh]
    by_cases hs : m.width % 32 = 0
    · simp [hs]
    · have hne : (((m.width % 32 : Nat) : Int) != 0) = true := by simp; omega
      simp only [hne, if_true, hs, ne_eq, not_false_eq_true]
      have hmask : wrap 32 (wrap 32 (ishl 1 ((m.width % 32 : Nat) : Int)) - 1) = ((1 <<< (m.width % 32) - 1 : Nat) : Int) := by
        rw [bit_natCast _ (m.width % 32) rfl (by omega)]
        have hp : 1 ≤ 1 <<< (m.width % 32) := by rw [Nat.one_shiftLeft]; exact Nat.one_le_two_pow
        have hlt := one_shl_lt (m.width % 32) (by omega)
        unfold W32 at hlt
        have e1 : ((1 <<< (m.width % 32) : Nat) : Int) - (1 : Int) = ((1 <<< (m.width % 32) - 1 : Nat) : Int) := by omega
        rw [e1]
        exact wrap_of_lt _ _ (by omega) (by omega)
      generalize hF : (fun (ws : List Nat) (y : Nat) =>
          updWord ws (y * m.rowSize + (m.rowSize - 1)) (fun w => w &&& (1 <<< (m.width % 32) - 1))) = F
      rw [hmask, show (m.rowSize : Int) - 1 = ((m.rowSize - 1 + 0 * m.rowSize : Nat) : Int) by omega, len_words,
        whileLoop_stride words F
          (m.rowSize - 1) m.rowSize (m.words.map not32).length _ ?_ ?_ m.height 0 (m.words.map not32) fuel hfuel ?_ ?_]
      · rw [List.range_eq_range']
        cases (List.range' 0 m.height).foldlM F (m.words.map not32) <;> rfl
      · subst hF
        intro j ws hj
        simp only [Gen.K16b.matrixFlipAll_body2, List.length_map]
        have hlt : (((m.rowSize - 1 + j * m.rowSize : Nat) : Int) < (m.words.length : Int)) := by
          simp only [List.length_map] at hj; omega
        simp only [hlt, decide_true, if_true]
        rw [updC ws (j * m.rowSize + (m.rowSize - 1)) (fun w => w &&& (1 <<< (m.width % 32) - 1)) _ (by omega) (by omega)
          (fun w => iand_natCast w _)]
        have e : ((m.rowSize - 1 + j * m.rowSize : Nat) : Int) + (m.rowSize : Int) = ((m.rowSize - 1 + (j + 1) * m.rowSize : Nat) : Int) := by
          rw [Nat.succ_mul]; omega
        cases updWord ws _ _ with
        | error er => rfl
        | ok ws' => simp only []; rw [e]
      · intro j ws hj
        simp only [Gen.K16b.matrixFlipAll_body2, List.length_map]
        have hlt : ¬ (((m.rowSize - 1 + j * m.rowSize : Nat) : Int) < (m.words.length : Int)) := by
          simp only [List.length_map] at hj; omega
        simp only [hlt, decide_false, Bool.false_eq_true, if_false]
      · intro i _ hi
        rw [List.length_map, hlen]
        have : (i + 1) * m.rowSize ≤ m.height * m.rowSize := Nat.mul_le_mul_right _ (by omega)
        rw [Nat.succ_mul] at this
        rw [Nat.mul_comm m.rowSize m.height]; omega
      · rw [List.length_map, hlen, Nat.zero_add, Nat.mul_comm m.rowSize m.height]; omega
  · intro i _ hi ws
    simp only [Gen.K16b.matrixFlipAll_body1]
    rw [updC ws i (fun w => (wrap 32 (inot (w : Int))).toNat) _ rfl rfl
      (fun w => (Int.toNat_of_nonneg (wrap_nonneg 32 _)).symm)]
    cases updWord ws i _ <;> rfl

/-- non-vacuity of `k_matrixFlipAll_eq`: a 33x2 matrix (two words per row, `width%32 ≠ 0`) satisfies the invariant, fuel 3 -/
example : ∃ m : WMat, InvM m ∧ m.width % 32 ≠ 0 ∧ m.height < 3 :=
  ⟨⟨33, 2, 2, [0, 0, 0, 0]⟩, ⟨by decide, by decide, by decide, by decide, by decide,
    fun x y _ _ => by
      show bitAt (List.replicate 4 0) _ = false
      unfold bitAt
      rw [List.getElem?_replicate]; split <;> simp⟩, by decide, by decide⟩

/-- all four fields, for a method that replaces the whole matrix -/
def expM (r : Res WMat) : Res (Int × Int × Int × List Int) :=
  r.map (fun m' => ((m'.width : Int), (m'.height : Int), (m'.rowSize : Int), words m'.words))

when_kernel Gzx.Gen.K16b.matrixRotate90 in
/-- `BitMatrix.Rotate90()` = `WMat.rotate90`: new dimensions and row size, a zeroed slice of `newRowSize*newHeight` words,
    and for every set cell `(x, y)` (word `y*rowSize + x/32`, bit `x&31`) the bit `y&31` of word
    `(newHeight-1-x)*newRowSize + y/32` of the new slice; all four fields are replaced -/
theorem k_matrixRotate90_eq (m : WMat) :
    Gen.K16b.matrixRotate90 m.width m.height m.rowSize (words m.words) = expM (WMat.rotate90 m) := by
  simp only [Gen.K16b.matrixRotate90, WMat.rotate90, expM]
  have hrs : Int.tdiv ((m.height : Int) + 31) 32 = (((m.height + 31) / 32 : Nat) : Int) := by gonorm; omega
  rw [hrs, mk_words _ ((m.height + 31) / 32 * m.width) (by simp)]
  simp only [tryR_ok]
  generalize hF : (fun (nb : List Nat) (y : Nat) => (List.range m.width).foldlM (fun nb x => do
        let w ← wordAt m.words (y * m.rowSize + x / 32)
        if ((w >>> (x % 32)) &&& 1) != 0 then
          updWord nb ((m.width - 1 - x) * ((m.height + 31) / 32) + y / 32) (fun v => v ||| (1 <<< (y % 32)))
        else pure nb) nb) = F
  rw [List.range_eq_range', loop_up_fold' words F 0 m.height (List.replicate ((m.height + 31) / 32 * m.width) 0) rfl
        (by rw [tripUp_one]; omega) (by omega), ofRes_thenR]
  · cases (List.range' 0 m.height).foldlM F (List.replicate ((m.height + 31) / 32 * m.width) 0) <;> rfl
  · subst hF
    intro y _ _ nb
    simp only [Gen.K16b.matrixRotate90_body1]
    rw [List.range_eq_range', loop_up_fold' words (fun nb x => do
        let w ← wordAt m.words (y * m.rowSize + x / 32)
        if ((w >>> (x % 32)) &&& 1) != 0 then
          updWord nb ((m.width - 1 - x) * ((m.height + 31) / 32) + y / 32) (fun v => v ||| (1 <<< (y % 32)))
        else pure nb) 0 m.width nb rfl (by rw [tripUp_one]; omega) (by omega), ofRes_thenC_next]
    intro x _ hx nb
    simp only [Gen.K16b.matrixRotate90_body2]
    rw [idxC m.words (y * m.rowSize + x / 32) _ (by gonorm; omega)]
    simp only [bind, Except.bind]
    cases wordAt m.words (y * m.rowSize + x / 32) with
    | error e => rfl
    | ok w =>
      simp only []
      rw [shr_of_nonneg _ _ (by gonorm; omega)]
      simp only [tryC_ok]
      have hsh : ishr (w : Int) (iand (x : Int) 31) = ((w >>> (x % 32) : Nat) : Int) := by
        gonorm; rw [show (x : Int) % 32 = ((x % 32 : Nat) : Int) by omega, ishr_natCast]
      have e1 : (1 : Int) = ((1 : Nat) : Int) := rfl
      rw [hsh, e1, iand_natCast, natCast_bne_zero]
      cases hb : ((w >>> (x % 32) &&& 1) != 0) with
      | false => simp [pure, Except.pure, Except.map]
      | true =>
        simp only [if_true]
        rw [shl_of_nonneg _ _ (by gonorm; omega)]
        simp only [tryC_ok]
        have h1 : ((m.width : Int) - ((1 : Nat) : Int) - (x : Int)) = ((m.width - 1 - x : Nat) : Int) := by omega
        rw [h1, ← Int.natCast_mul,
          updC nb ((m.width - 1 - x) * ((m.height + 31) / 32) + y / 32) (fun v => v ||| 1 <<< (y % 32))]
        · cases updWord nb _ _ <;> rfl
        · gonorm; omega
        · gonorm; omega
        · intro v; gonorm
          rw [← e1, bit_natCast _ (y % 32) (by omega) (by omega), ior_natCast]

/-! ### scans: `GetTopLeftOnBit`, `GetBottomRightOnBit` -/

/-- `bit := 0; for (theBits << (31-bit)) == 0 { bit++ }` on a non-zero 32-bit word is the model's `lowBit` -/
theorem lowBit_while {ρ : Type} (w : Nat) (hw0 : w ≠ 0) (hw : w < W32) (body : Int → Ctl Int ρ)
    (hb : ∀ bit : Nat, bit ≤ 31 → body (bit : Int) =
      if shl32 w (31 - bit) = 0 then .next ((bit + 1 : Nat) : Int) else .brk (bit : Int)) :
    ∀ (n bit fuel : Nat), 1 ≤ n → bit + n = 32 → n ≤ fuel →
      whileLoop body fuel (bit : Int) = .brk ((lowBitLoop n bit w : Nat) : Int) := by
  intro n
  induction n with
  | zero => intro _ _ h; omega
  | succ n ih =>
    intro bit fuel _ hbn hf
    obtain ⟨fuel, rfl⟩ : ∃ k, fuel = k + 1 := ⟨fuel - 1, by omega⟩
    rw [whileLoop_succ, hb bit (by omega)]
    unfold lowBitLoop
    by_cases hz : shl32 w (31 - bit) = 0
    · simp only [hz, if_true]
      have hbit : bit ≠ 31 := by
        intro h31; subst h31
        unfold shl32 at hz
        simp only [Nat.sub_self, Nat.shiftLeft_zero] at hz
        rw [Nat.mod_eq_of_lt hw] at hz
        exact hw0 hz
      exact ih (bit + 1) fuel (by omega) (by omega) (by omega)
    · simp only [hz, if_false]

/-- `bit := 31; for (theBits >> bit) == 0 { bit-- }` on a non-zero 32-bit word is the model's `highBit` -/
theorem highBit_while {ρ : Type} (w : Nat) (hw0 : w ≠ 0) (body : Int → Ctl Int ρ)
    (hb : ∀ bit : Nat, bit ≤ 31 → body (bit : Int) =
      if w >>> bit = 0 then .next ((bit - 1 : Nat) : Int) else .brk (bit : Int)) :
    ∀ (n bit fuel : Nat), n = bit + 1 → bit ≤ 31 → n ≤ fuel →
      whileLoop body fuel (bit : Int) = .brk ((highBitLoop n bit w : Nat) : Int) := by
  intro n
  induction n with
  | zero => intro _ _ h; omega
  | succ n ih =>
    intro bit fuel hn hb31 hf
    obtain ⟨fuel, rfl⟩ : ∃ k, fuel = k + 1 := ⟨fuel - 1, by omega⟩
    rw [whileLoop_succ, hb bit hb31]
    unfold highBitLoop
    by_cases hz : w >>> bit = 0
    · simp only [hz, if_true]
      have hbit : bit ≠ 0 := by
        intro h0; subst h0
        simp only [Nat.shiftRight_zero] at hz
        exact hw0 hz
      exact ih (bit - 1) fuel (by omega) (by omega) (by omega)
    · simp only [hz, if_false]

/-- `for bitsOffset < len && bits[bitsOffset] == 0 { bitsOffset++ }` is `findIdx (· != 0)` -/
theorem first_while {ρ : Type} (ws : List Nat) (body : Int → Ctl Int ρ)
    (hb : ∀ k : Nat, body (k : Int) =
      match ws[k]? with
      | some w => if w = 0 then .next ((k + 1 : Nat) : Int) else .brk (k : Int)
      | none => .brk (k : Int)) :
    ∀ (n k fuel : Nat), k + n = ws.length → n < fuel →
      whileLoop body fuel (k : Int) = .brk ((k + (ws.drop k).findIdx (fun w => w != 0) : Nat) : Int) := by
  intro n
  induction n with
  | zero =>
    intro k fuel hk hf
    obtain ⟨fuel, rfl⟩ : ∃ j, fuel = j + 1 := ⟨fuel - 1, by omega⟩
    rw [whileLoop_succ, hb k, List.getElem?_eq_none (by omega), List.drop_eq_nil_of_le (by omega)]
    simp
  | succ n ih =>
    intro k fuel hk hf
    obtain ⟨fuel, rfl⟩ : ∃ j, fuel = j + 1 := ⟨fuel - 1, by omega⟩
    have hlt : k < ws.length := by omega
    rw [whileLoop_succ, hb k, List.getElem?_eq_getElem hlt, List.drop_eq_getElem_cons hlt, List.findIdx_cons]
    by_cases hz : ws[k] = 0
    · simp only [hz, if_true, bne_self_eq_false, cond_false]
      rw [ih (k + 1) fuel (by omega) (by omega)]
      congr 2; omega
    · have : (ws[k] != 0) = true := by simp [hz]
      simp [hz, this]

/-- what the regenerated scans return: `nil` (empty) or the two coordinates -/
def expPt (r : Res (Option (List Nat))) : Res (List Int) :=
  r.map (fun o => match o with | none => [] | some l => l.map Int.ofNat)

when_kernel Gzx.Gen.K16b.matrixGetTopLeftOnBit in
/-- `BitMatrix.GetTopLeftOnBit()` = `WMat.getTopLeftOnBit` (words below 2^32; fuel above `len(bits)+32`): first non-zero word,
    `y = offset / rowSize`, `x = (offset % rowSize)*32 + lowest set bit`, `nil` for an empty matrix, the division panic for
    `rowSize = 0` -/
theorem k_matrixGetTopLeftOnBit_eq (m : WMat) (h32 : ∀ w ∈ m.words, w < W32) (fuel : Nat) (hf : m.words.length + 32 < fuel) :
    Gen.K16b.matrixGetTopLeftOnBit fuel m.rowSize (words m.words) = expPt (WMat.getTopLeftOnBit m) := by
  simp only [Gen.K16b.matrixGetTopLeftOnBit, WMat.getTopLeftOnBit, expPt, len_words]
  rw [show (0 : Int) = ((0 : Nat) : Int) from rfl, first_while m.words _ ?_ m.words.length 0 fuel (by omega) (by omega)]
  · simp only [brk_thenR, List.drop_zero, Nat.zero_add]
    generalize hk : m.words.findIdx (fun w => w != 0) = k
    by_cases hend : k = m.words.length
    · have : ((k : Int) == (m.words.length : Int)) = true := by simp; omega
      simp [this, hend, Except.map]
    · have hne : ((k : Int) == (m.words.length : Int)) = false := by simp; omega
      have hk' : k < m.words.length := by
        have := @List.findIdx_le_length _ (fun w => w != 0) m.words; omega
      simp only [hne, Bool.false_eq_true, if_false, List.getElem?_eq_getElem hk']
      by_cases hr0 : m.rowSize = 0
      · simp [hr0, GoM.div, Except.map]
      · have hr0' : ¬ ((m.rowSize : Int) = 0) := by omega
        simp only [GoM.div, GoM.mod, hr0, hr0', if_false, tryR_ok]
        rw [idxR m.words k _ rfl]
        simp only [wordAt, List.getElem?_eq_getElem hk']
        have hnz : m.words[k] ≠ 0 := by
          have := @List.findIdx_getElem _ (fun w => w != 0) m.words (by rw [hk]; exact hk')
          simp only [hk] at this
          simpa using this
        rw [lowBit_while m.words[k] hnz (h32 _ (List.getElem_mem hk')) _ ?_ 32 0 fuel (by omega) (by omega) (by omega)]
        · simp only [brk_thenR, Except.map, lowBit, List.map_cons, List.map_nil, Int.ofNat_eq_natCast]
          gonorm
          have e1 : (k : Int) % (m.rowSize : Int) * 32 + ((lowBitLoop 32 0 m.words[k] : Nat) : Int) =
              ((k % m.rowSize * 32 + lowBitLoop 32 0 m.words[k] : Nat) : Int) := by
            rw [Int.natCast_add, Int.natCast_mul, Int.natCast_emod]; rfl
          have e2 : (k : Int) / (m.rowSize : Int) = ((k / m.rowSize : Nat) : Int) := by rw [Int.natCast_ediv]
          rw [e1, e2]
        · intro bit hbit
          simp only [Gen.K16b.matrixGetTopLeftOnBit_body2]
          have e1 : wrap 64 (31 - (bit : Int)) = ((31 - bit : Nat) : Int) := by gonorm; omega
          have e2 : wrap 64 ((bit : Int) + 1) = ((bit + 1 : Nat) : Int) := by gonorm; omega
          rw [e1, e2, ishl_natCast, wrap_natCast]
          have e3 : (m.words[k] <<< (31 - bit)) % 2 ^ 32 = shl32 m.words[k] (31 - bit) := rfl
          rw [e3]
          by_cases hz : shl32 m.words[k] (31 - bit) = 0
          · simp [hz]
          · have : ((shl32 m.words[k] (31 - bit) : Int) == 0) = false := by simp; omega
            simp [hz, this]
  · intro k
    simp only [Gen.K16b.matrixGetTopLeftOnBit_body1, len_words]
    by_cases hk : k < m.words.length
    · have : decide ((k : Int) < (m.words.length : Int)) = true := by simp; omega
      simp only [this, if_true, List.getElem?_eq_getElem hk]
      rw [idxC m.words k _ rfl]
      simp only [wordAt, List.getElem?_eq_getElem hk]
      by_cases hz : m.words[k] = 0
      · simp [hz]
      · have : ((m.words[k] : Int) == 0) = false := by simp; omega
        simp [hz, this]
    · have : decide ((k : Int) < (m.words.length : Int)) = false := by simp; omega
      simp only [this, Bool.false_eq_true, if_false, List.getElem?_eq_none (by omega : m.words.length ≤ k)]

theorem lastNonzero_snoc (l : List Nat) (x : Nat) : ∀ i, WMat.lastNonzero (l ++ [x]) i =
    if x != 0 then some (i + l.length, x) else WMat.lastNonzero l i := by
  induction l with
  | nil => intro i; simp [WMat.lastNonzero]
  | cons w l ih =>
    intro i
    simp only [List.cons_append, WMat.lastNonzero, ih (i + 1), List.length_cons]
    by_cases hx : (x != 0) = true
    · simp only [hx, if_true]; congr 2; omega
    · simp only [hx, Bool.false_eq_true, if_false]

theorem lastNonzero_spec (l : List Nat) : ∀ (j i w : Nat), WMat.lastNonzero l j = some (i, w) →
    j ≤ i ∧ l[i - j]? = some w ∧ w ≠ 0 := by
  induction l with
  | nil => intro j i w h; simp [WMat.lastNonzero] at h
  | cons x l ih =>
    intro j i w h
    simp only [WMat.lastNonzero] at h
    cases hr : WMat.lastNonzero l (j + 1) with
    | some r =>
      rw [hr] at h
      simp only [Option.some.injEq] at h
      subst h
      obtain ⟨h1, h2, h3⟩ := ih (j + 1) i w hr
      refine ⟨by omega, ?_, h3⟩
      rw [show i - j = (i - (j + 1)) + 1 by omega, List.getElem?_cons_succ]; exact h2
    | none =>
      rw [hr] at h
      simp only [] at h
      by_cases hx : (x != 0) = true
      · simp only [hx, if_true, Option.some.injEq, Prod.mk.injEq] at h
        obtain ⟨rfl, rfl⟩ := h
        exact ⟨Nat.le_refl _, by simp, by simpa using hx⟩
      · simp [hx] at h

/-- `bitsOffset := len-1; for bitsOffset >= 0 && bits[bitsOffset] == 0 { bitsOffset-- }` is the model's `lastNonzero` -/
theorem last_while {ρ : Type} (ws : List Nat) (body : Int → Ctl Int ρ)
    (hneg : body (-1) = .brk (-1))
    (hb : ∀ k : Nat, k < ws.length → body (k : Int) = if ws[k]! = 0 then .next ((k : Int) - 1) else .brk (k : Int)) :
    ∀ (n fuel : Nat), n ≤ ws.length → n < fuel →
      whileLoop body fuel ((n : Int) - 1) =
        .brk (match WMat.lastNonzero (ws.take n) 0 with | none => -1 | some (i, _) => (i : Int)) := by
  intro n
  induction n with
  | zero =>
    intro fuel _ hf
    obtain ⟨fuel, rfl⟩ : ∃ j, fuel = j + 1 := ⟨fuel - 1, by omega⟩
    rw [whileLoop_succ, show ((0 : Nat) : Int) - 1 = -1 by omega, hneg]
    simp [WMat.lastNonzero]
  | succ n ih =>
    intro fuel hn hf
    obtain ⟨fuel, rfl⟩ : ∃ j, fuel = j + 1 := ⟨fuel - 1, by omega⟩
    have hlt : n < ws.length := by omega
    rw [whileLoop_succ, show ((n + 1 : Nat) : Int) - 1 = (n : Int) by omega, hb n hlt,
      List.take_succ_eq_append_getElem hlt, lastNonzero_snoc]
    have hget : ws[n]! = ws[n] := by simp [hlt]
    rw [hget]
    by_cases hz : ws[n] = 0
    · have : (ws[n] != 0) = false := by simp [hz]
      simp only [hz, if_true, this, Bool.false_eq_true, if_false]
      have := ih fuel (by omega) (by omega)
      rw [hz] at *
      exact this
    · have : (ws[n] != 0) = true := by simp [hz]
      simp [hz, this, Nat.min_eq_left (by omega : n ≤ ws.length)]

when_kernel Gzx.Gen.K16b.matrixGetBottomRightOnBit in
/-- `BitMatrix.GetBottomRightOnBit()` = `WMat.getBottomRightOnBit` (fuel above `len(bits)+32`): last non-zero word,
    `y = offset / rowSize`, `x = (offset % rowSize)*32 + highest set bit`, `nil` for an empty matrix -/
theorem k_matrixGetBottomRightOnBit_eq (m : WMat) (fuel : Nat) (hf : m.words.length + 32 < fuel) :
    Gen.K16b.matrixGetBottomRightOnBit fuel m.rowSize (words m.words) = expPt (WMat.getBottomRightOnBit m) := by
  simp only [Gen.K16b.matrixGetBottomRightOnBit, WMat.getBottomRightOnBit, expPt, len_words]
  rw [last_while m.words _ ?_ ?_ m.words.length fuel (Nat.le_refl _) (by omega), List.take_length]
  · simp only [brk_thenR]
    cases hl : WMat.lastNonzero m.words 0 with
    | none => simp [Except.map]
    | some p =>
      obtain ⟨k, w⟩ := p
      obtain ⟨_, hget, hw0⟩ := lastNonzero_spec m.words 0 k w hl
      simp only [Nat.sub_zero] at hget
      have hk' : k < m.words.length := (List.getElem?_eq_some_iff.mp hget).1
      have hnn : decide ((k : Int) < 0) = false := by simp
      simp only [hnn, Bool.false_eq_true, if_false]
      by_cases hr0 : m.rowSize = 0
      · simp [hr0, GoM.div, Except.map]
      · have hr0' : ¬ ((m.rowSize : Int) = 0) := by omega
        simp only [GoM.div, GoM.mod, hr0, hr0', if_false, tryR_ok]
        rw [idxR m.words k _ rfl]
        simp only [wordAt, hget]
        rw [show (31 : Int) = ((31 : Nat) : Int) from rfl,
          highBit_while w hw0 _ ?_ 32 31 fuel (by omega) (by omega) (by omega)]
        · simp only [brk_thenR, Except.map, highBit, List.map_cons, List.map_nil, Int.ofNat_eq_natCast]
          gonorm
          have e1 : (k : Int) % (m.rowSize : Int) * 32 + ((highBitLoop 32 31 w : Nat) : Int) =
              ((k % m.rowSize * 32 + highBitLoop 32 31 w : Nat) : Int) := by
            rw [Int.natCast_add, Int.natCast_mul, Int.natCast_emod]; rfl
          have e2 : (k : Int) / (m.rowSize : Int) = ((k / m.rowSize : Nat) : Int) := by rw [Int.natCast_ediv]
          rw [e1, e2]
        · intro bit hbit
          simp only [Gen.K16b.matrixGetBottomRightOnBit_body2]
          rw [ishr_natCast]
          by_cases hz : w >>> bit = 0
          · have hb0 : bit ≠ 0 := by
              intro h0; subst h0; simp only [Nat.shiftRight_zero] at hz; exact hw0 hz
            have e2 : wrap 64 ((bit : Int) - 1) = ((bit - 1 : Nat) : Int) := by gonorm; omega
            simp [hz, e2]
          · have : (((w >>> bit : Nat) : Int) == 0) = false := beq_eq_false_iff_ne.mpr (Int.natCast_ne_zero.mpr hz)
            simp only [this, Bool.false_eq_true, if_false, hz]
  · simp only [Gen.K16b.matrixGetBottomRightOnBit_body1]
    simp
  · intro k hk
    simp only [Gen.K16b.matrixGetBottomRightOnBit_body1]
    have : decide ((k : Int) ≥ 0) = true := by simp
    simp only [this, if_true]
    rw [idxC m.words k _ rfl]
    have hget : m.words[k]! = m.words[k] := by simp [hk]
    simp only [wordAt, List.getElem?_eq_getElem hk, hget]
    by_cases hz : m.words[k] = 0
    · simp [hz]
    · have : ((m.words[k] : Int) == 0) = false := by simp; omega
      simp [hz, this]

/-! ### GetEnclosingRectangle -/

/-- the scan state of `GetEnclosingRectangle` as the four Go ints -/
abbrev enclR (e : WMat.Encl) : Int × Int × Int × Int := ((e.left : Int), (e.top : Int), e.right, e.bottom)

when_kernel Gzx.Gen.K16b.matrixGetEnclosingRectangle in
/-- `BitMatrix.GetEnclosingRectangle()` = `WMat.getEnclosingRectangle` (words below 2^32, fuel ≥ 33): for every non-zero word the
    four bounds are updated — top/bottom by the row, left by the lowest set bit when the word starts left of `left`, right by
    the highest set bit when the word ends right of `right` — and `nil` when nothing was found -/
theorem k_matrixGetEnclosingRectangle_eq (m : WMat) (h32 : ∀ w ∈ m.words, w < W32) (fuel : Nat) (hf : 33 ≤ fuel) :
    Gen.K16b.matrixGetEnclosingRectangle fuel m.width m.height m.rowSize (words m.words) =
      expPt (WMat.getEnclosingRectangle m) := by
  simp only [Gen.K16b.matrixGetEnclosingRectangle, WMat.getEnclosingRectangle, expPt]
  generalize hF : (fun (e : WMat.Encl) (y : Nat) => (List.range m.rowSize).foldlM (fun e x32 => do
        let theBits ← wordAt m.words (y * m.rowSize + x32)
        pure (WMat.enclStep y x32 theBits e)) e) = F
  rw [List.range_eq_range', show (((m.width : Int), (m.height : Int), (-1 : Int), (-1 : Int))) = enclR ⟨m.width, m.height, -1, -1⟩ from rfl,
    loop_up_fold' enclR F 0 m.height ⟨m.width, m.height, -1, -1⟩ rfl (by rw [tripUp_one]; omega) (by omega), ofRes_thenR]
  · cases (List.range' 0 m.height).foldlM F ⟨m.width, m.height, -1, -1⟩ with
    | error e => rfl
    | ok e =>
      simp only [Except.map, enclR]
      by_cases hr : e.right < (e.left : Int) ∨ e.bottom < (e.top : Int)
      · resolve_ifs
      · resolve_ifs
        simp only [List.map_cons, List.map_nil, Int.ofNat_eq_natCast]
        rw [Int.toNat_of_nonneg (by omega), Int.toNat_of_nonneg (by omega)]
  · subst hF
    intro y _ _ e
    simp only [Gen.K16b.matrixGetEnclosingRectangle_body1, enclR]
    rw [List.range_eq_range', show (((e.left : Int), (e.top : Int), e.right, e.bottom)) = enclR e from rfl,
      loop_up_fold' enclR (fun e x32 => do
        let theBits ← wordAt m.words (y * m.rowSize + x32)
        pure (WMat.enclStep y x32 theBits e)) 0 m.rowSize e rfl (by rw [tripUp_one]; omega) (by omega)]
    · exact ofRes_thenC_next _
    · intro x32 _ _ e
      simp only [Gen.K16b.matrixGetEnclosingRectangle_body2, enclR]
      rw [idxC m.words (y * m.rowSize + x32) _ (by omega)]
      simp only [bind, Except.bind]
      cases hw : wordAt m.words (y * m.rowSize + x32) with
      | error er => rfl
      | ok w =>
        have hwlt : w < W32 := by
          unfold wordAt at hw
          cases hg : m.words[y * m.rowSize + x32]? with
          | none => rw [hg] at hw; cases hw
          | some v =>
            rw [hg] at hw; injection hw with hw; subst hw
            have := List.getElem?_eq_some_iff.mp hg
            rw [← this.2]; exact h32 _ (List.getElem_mem _)
        simp only [pure, Except.pure, Except.map, ofRes_ok, WMat.enclStep]
        by_cases hz : w = 0
        · subst hz; simp [enclR]
        · have hne : ((w : Int) != 0) = true := by simp; omega
          simp only [hne, if_true, hz, ne_eq, not_false_eq_true]
          have hlow : whileLoop (Gen.K16b.matrixGetEnclosingRectangle_body3 (w : Int)) fuel 0 =
              (.brk ((lowBit w : Nat) : Int) : Ctl Int (List Int)) := by
            rw [show (0 : Int) = ((0 : Nat) : Int) from rfl]
            refine lowBit_while w hz hwlt _ ?_ 32 0 fuel (by omega) (by omega) (by omega)
            intro bit hbit
            simp only [Gen.K16b.matrixGetEnclosingRectangle_body3]
            have e1 : wrap 64 (31 - (bit : Int)) = ((31 - bit : Nat) : Int) := by gonorm; omega
            rw [e1, ishl_natCast, wrap_natCast]
            have e3 : (w <<< (31 - bit)) % 2 ^ 32 = shl32 w (31 - bit) := rfl
            rw [e3]
            by_cases hs : shl32 w (31 - bit) = 0
            · simp [hs]
            · have : ((shl32 w (31 - bit) : Int) == 0) = false := by simp; omega
              simp only [this, Bool.false_eq_true, if_false, hs]
          have hhigh : whileLoop (Gen.K16b.matrixGetEnclosingRectangle_body4 (w : Int)) fuel 31 =
              (.brk ((highBit w : Nat) : Int) : Ctl Int (List Int)) := by
            rw [show (31 : Int) = ((31 : Nat) : Int) from rfl]
            refine highBit_while w hz _ ?_ 32 31 fuel (by omega) (by omega) (by omega)
            intro bit hbit
            simp only [Gen.K16b.matrixGetEnclosingRectangle_body4]
            have e1 : wrap 64 (bit : Int) = (bit : Int) := by gonorm
            rw [e1, ishr_natCast]
            by_cases hs : w >>> bit = 0
            · have hb0 : bit ≠ 0 := by
                intro h0; subst h0; simp only [Nat.shiftRight_zero] at hs; exact hz hs
              have e2 : (bit : Int) - 1 = ((bit - 1 : Nat) : Int) := by omega
              simp [hs, e2]
            · have : (((w >>> bit : Nat) : Int) == 0) = false := beq_eq_false_iff_ne.mpr (Int.natCast_ne_zero.mpr hs)
              simp only [this, Bool.false_eq_true, if_false, hs]
          simp only [hlow, hhigh, brk_thenC]
          by_cases c1 : y < e.top <;> by_cases c2 : (y : Int) > e.bottom <;>
            by_cases c3 : x32 * 32 < e.left <;> by_cases c4 : x32 * 32 + lowBit w < e.left <;>
            by_cases c5 : ((x32 * 32 + 31 : Nat) : Int) > e.right <;>
            by_cases c6 : ((x32 * 32 + highBit w : Nat) : Int) > e.right <;>
            simp (disch := omega) only [decide_eq_true_eq, if_pos, if_neg, next_thenC] <;>
            (try (congr 1)) <;> (try omega) <;> (try (simp only [Prod.mk.injEq]; omega))

/-- non-vacuity of the hypotheses of the scan theorems: a 40x1 matrix with bits in both words, words below 2^32, fuel 40 -/
example : ∃ (m : WMat) (fuel : Nat), (∀ w ∈ m.words, w < W32) ∧ m.words.length + 32 < fuel ∧ 33 ≤ fuel ∧
    WMat.getTopLeftOnBit m = .ok (some [3, 0]) ∧ WMat.getBottomRightOnBit m = .ok (some [39, 0]) :=
  ⟨⟨40, 1, 2, [8, 128]⟩, 40, by decide, by decide, by decide, by decide, by decide⟩

end Gzx.Obligations.K16bMat
