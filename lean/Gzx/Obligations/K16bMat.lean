/-
  K16b (rest of BitMatrix) — the BitMatrix methods that the renderers do not use (Xor, SetRow, FlipAll, rotations, scans),
  regenerated from /repo's bit_matrix.go on every run (`Gzx.Gen.K16b`) and proved equal to the word model `WMat.*` of
  Model/Bits.lean.  Conventions and the renderers' methods (Set/Unset/Flip/SetRegion/Clear): Obligations/K16b.lean.
-/
import Gzx.Obligations.K16b
namespace Gzx.Obligations.K16bMat
open Gzx Gzx.GoM Gzx.Bits Gzx.GoVal Gzx.Obligations.K16b

when_kernel Gzx.Gen.K16b.matrixXor in
/-- `BitMatrix.Xor(mask)` = `WMat.xor`: dimension check (error, unchanged), then word by word
    `bits[y*rowSize+x] ^= mask.bits[y*mask.rowSize+x]`, index panics at the same iteration.
    (`b` and `mask` are different objects: the translation threads the two word slices separately.) -/
theorem k_matrixXor_eq (m mask : WMat) :
    Gen.K16b.matrixXor m.width m.height m.rowSize (words m.words) mask.width mask.height mask.rowSize (words mask.words) =
      expEW m.words (WMat.xor m mask) := by
  simp only [Gen.K16b.matrixXor, WMat.xor]
  by_cases h1 : m.width ≠ mask.width ∨ m.height ≠ mask.height ∨ m.rowSize ≠ mask.rowSize
  · resolve_ifs; rfl
  resolve_ifs
  generalize hF : (fun (ws : List Nat) (y : Nat) => (List.range m.rowSize).foldlM (fun ws x => do
          let o ← wordAt mask.words (y * mask.rowSize + x)
          updWord ws (y * m.rowSize + x) (fun w => w ^^^ o)) ws) = F
  rw [List.range_eq_range', loop_up_fold' words F 0 m.height m.words rfl (by rw [tripUp_one]; omega) (by omega), ofRes_thenR]
  · cases hf : (List.range' 0 m.height).foldlM F m.words with
    | ok ws => rfl
    | error e =>
      refine (expEW_error _ ?_).symm
      subst hF
      refine foldlM_error NotArg _ (fun _ y _ h => foldlM_error NotArg _ (fun _ x e h => ?_) _ _ _ h) _ _ _ hf
      simp only [bind, Except.bind] at h
      cases hw : wordAt mask.words (y * mask.rowSize + x) with
      | error e' => rw [hw] at h; injection h with h; subst h; exact wordAt_error hw
      | ok o => rw [hw] at h; exact updWord_error h
  · subst hF
    intro y _ _ ws
    simp only [Gen.K16b.matrixXor_body1]
    rw [List.range_eq_range', loop_up_fold' words (fun ws x => do
          let o ← wordAt mask.words (y * mask.rowSize + x)
          updWord ws (y * m.rowSize + x) (fun w => w ^^^ o)) 0 m.rowSize ws rfl (by rw [tripUp_one]; omega) (by omega), ofRes_thenC_next]
    intro x _ _ ws
    simp only [Gen.K16b.matrixXor_body2]
    rw [idxC mask.words (y * mask.rowSize + x) _ (by omega)]
    simp only [bind, Except.bind]
    cases wordAt mask.words (y * mask.rowSize + x) with
    | error e => rfl
    | ok o =>
      simp only []
      rw [updC ws (y * m.rowSize + x) (fun w => w ^^^ o) _ (by omega) (by omega) (fun w => ixor_natCast w o)]
      cases updWord ws (y * m.rowSize + x) _ <;> rfl

when_kernel Gzx.Gen.K16b.matrixSetRow in
/-- `BitMatrix.SetRow(y, row)` = `WMat.setRow`: `copy(bits[y*rowSize : y*rowSize+rowSize], row.bits)` with the slice-bounds panic -/
theorem k_matrixSetRow_eq (m : WMat) (y : Nat) (row : WArr) :
    Gen.K16b.matrixSetRow m.rowSize (words m.words) y (words row.words) = expW (WMat.setRow m y row) := by
  have hmul : (y : Int) * (m.rowSize : Int) = ((y * m.rowSize : Nat) : Int) := by simp
  simp only [Gen.K16b.matrixSetRow, WMat.setRow, expW, copySeg, words_length, hmul]
  by_cases h : y * m.rowSize + m.rowSize > m.words.length
  · simp (disch := omega) only [if_pos, if_neg]; rfl
  · simp (disch := omega) only [if_pos, if_neg]
    have e2 : (((y * m.rowSize : Nat) : Int) + (m.rowSize : Int)).toNat = y * m.rowSize + m.rowSize := by omega
    simp only [Int.toNat_natCast, e2, tryR_ok, Except.map]
    congr 1
    rw [show y * m.rowSize + m.rowSize - y * m.rowSize = m.rowSize by omega]
    simp only [words, ← List.map_take, ← List.map_drop]
    rw [show List.map Int.ofNat ((m.words.drop (y * m.rowSize)).take m.rowSize) =
          words ((m.words.drop (y * m.rowSize)).take m.rowSize) from rfl,
        show List.map Int.ofNat row.words = words row.words from rfl, copyL_words]
    simp [words]

end Gzx.Obligations.K16bMat
