/-
  K16b (rest of BitMatrix) — the BitMatrix methods that the renderers do not use (Xor, SetRow, FlipAll, rotations, scans),
  regenerated from /repo's bit_matrix.go on every run (`Gzx.Gen.K16b`) and proved equal to the word model `WMat.*` of
  Model/Bits.lean.  Conventions and the renderers' methods (Set/Unset/Flip/SetRegion/Clear): Obligations/K16b.lean.
-/
import Gzx.Obligations.K16b
namespace Gzx.Obligations.K16bMat
open Gzx Gzx.GoM Gzx.Bits Gzx.GoVal Gzx.Obligations.K16b

when_kernel Gzx.Gen.K16b.matrixXor in
/-- `BitMatrix.Xor(mask)` = `WMat.xor`: dimension check (error, unchanged), then word by word
    `bits[y*rowSize+x] ^= mask.bits[y*mask.rowSize+x]`, index panics at the same iteration.
    (`b` and `mask` are different objects: the translation threads the two word slices separately.) -/
theorem k_matrixXor_eq (m mask : WMat) :
    Gen.K16b.matrixXor m.width m.height m.rowSize (words m.words) mask.width mask.height mask.rowSize (words mask.words) =
      expEW m.words (WMat.xor m mask) := by
  simp only [Gen.K16b.matrixXor, WMat.xor]
  by_cases h1 : m.width ≠ mask.width ∨ m.height ≠ mask.height ∨ m.rowSize ≠ mask.rowSize
  · resolve_ifs; rfl
  resolve_ifs
  generalize hF : (fun (ws : List Nat) (y : Nat) => (List.range m.rowSize).foldlM (fun ws x => do
          let o ← wordAt mask.words (y * mask.rowSize + x)
          updWord ws (y * m.rowSize + x) (fun w => w ^^^ o)) ws) = F
  rw [List.range_eq_range', loop_up_fold' words F 0 m.height m.words rfl (by rw [tripUp_one]; omega) (by omega), ofRes_thenR]
  · cases hf : (List.range' 0 m.height).foldlM F m.words with
    | ok ws => rfl
    | error e =>
      refine (expEW_error _ ?_).symm
      subst hF
      refine foldlM_error NotArg _ (fun _ y _ h => foldlM_error NotArg _ (fun _ x e h => ?_) _ _ _ h) _ _ _ hf
      simp only [bind, Except.bind] at h
      cases hw : wordAt mask.words (y * mask.rowSize + x) with
      | error e' => rw [hw] at h; injection h with h; subst h; exact wordAt_error hw
      | ok o => rw [hw] at h; exact updWord_error h
  · subst hF
    intro y _ _ ws
    simp only [Gen.K16b.matrixXor_body1]
    rw [List.range_eq_range', loop_up_fold' words (fun ws x => do
          let o ← wordAt mask.words (y * mask.rowSize + x)
          updWord ws (y * m.rowSize + x) (fun w => w ^^^ o)) 0 m.rowSize ws rfl (by rw [tripUp_one]; omega) (by omega), ofRes_thenC_next]
    intro x _ _ ws
    simp only [Gen.K16b.matrixXor_body2]
    rw [idxC mask.words (y * mask.rowSize + x) _ (by omega)]
    simp only [bind, Except.bind]
    cases wordAt mask.words (y * mask.rowSize + x) with
    | error e => rfl
    | ok o =>
      simp only []
      rw [updC ws (y * m.rowSize + x) (fun w => w ^^^ o) _ (by omega) (by omega) (fun w => ixor_natCast w o)]
      cases updWord ws (y * m.rowSize + x) _ <;> rfl

when_kernel Gzx.Gen.K16b.matrixSetRow in
/-- `BitMatrix.SetRow(y, row)` = `WMat.setRow`: `copy(bits[y*rowSize : y*rowSize+rowSize], row.bits)` with the slice-bounds panic -/
theorem k_matrixSetRow_eq (m : WMat) (y : Nat) (row : WArr) :
    Gen.K16b.matrixSetRow m.rowSize (words m.words) y (words row.words) = expW (WMat.setRow m y row) := by
  have hmul : (y : Int) * (m.rowSize : Int) = ((y * m.rowSize : Nat) : Int) := by simp
  simp only [Gen.K16b.matrixSetRow, WMat.setRow, expW, copySeg, words_length, hmul]
  by_cases h : y * m.rowSize + m.rowSize > m.words.length
  · simp (disch := omega) only [if_pos, if_neg]; rfl
  · simp (disch := omega) only [if_pos, if_neg]
    have e2 : (((y * m.rowSize : Nat) : Int) + (m.rowSize : Int)).toNat = y * m.rowSize + m.rowSize := by omega
    simp only [Int.toNat_natCast, e2, tryR_ok, Except.map]
    congr 1
    rw [show y * m.rowSize + m.rowSize - y * m.rowSize = m.rowSize by omega]
    simp only [words, ← List.map_take, ← List.map_drop]
    rw [show List.map Int.ofNat ((m.words.drop (y * m.rowSize)).take m.rowSize) =
          words ((m.words.drop (y * m.rowSize)).take m.rowSize) from rfl,
        show List.map Int.ofNat row.words = words row.words from rfl, copyL_words]
    simp [words]

when_kernel Gzx.Gen.K16b.matrixFlipAll in
/-- `BitMatrix.FlipAll()` = `WMat.flipAll` on a matrix satisfying the representation invariant (words below 2^32,
    `len(bits) = rowSize*height`, `rowSize ≥ 1`), for every fuel above `height`: every word complemented in 32 bits, then —
    when `width%32 ≠ 0` — the last word of every row (`i = rowSize-1; i < len; i += rowSize`) masked with `1<<shift - 1` -/
theorem k_matrixFlipAll_eq (m : WMat) (h : InvM m) (fuel : Nat) (hfuel : m.height < fuel) :
    Gen.K16b.matrixFlipAll fuel m.width m.rowSize (words m.words) = expW (WMat.flipAll m) := by
  obtain ⟨hw1, _, hrs, hlen, h32, _⟩ := h
  have hrs1 : 1 ≤ m.rowSize := by omega
  simp only [Gen.K16b.matrixFlipAll, WMat.flipAll, expW]
  rw [loop_up_fold' words (fun ws i => updWord ws i (fun w => (wrap 32 (inot (w : Int))).toNat)) 0 m.words.length m.words rfl
        (by rw [tripUp_one]; gonorm; omega) (by omega), foldlM_updWord_all,
      show m.words.map (fun (w : Nat) => (wrap 32 (inot (w : Int))).toNat) = m.words.map not32 from
        List.map_congr_left (fun w hw => by rw [not32_natCast w (h32 w hw), Int.toNat_natCast])]
  · simp only [ofRes_thenR, Except.map]
    have hsh : wrap 64 (Int.tmod (m.width : Int) 32) = ((m.width % 32 : Nat) : Int) := by gonorm; omega
    rw [hsh]
    by_cases hs : m.width % 32 = 0
    · simp [hs]
    · have hne : (((m.width % 32 : Nat) : Int) != 0) = true := by simp; omega
      simp only [hne, if_true, hs, ne_eq, not_false_eq_true]
      have hmask : wrap 32 (wrap 32 (ishl 1 ((m.width % 32 : Nat) : Int)) - 1) = ((1 <<< (m.width % 32) - 1 : Nat) : Int) := by
        rw [bit_natCast _ (m.width % 32) rfl (by omega)]
        have hp : 1 ≤ 1 <<< (m.width % 32) := by rw [Nat.one_shiftLeft]; exact Nat.one_le_two_pow
        have hlt := one_shl_lt (m.width % 32) (by omega)
        unfold W32 at hlt
        have e1 : ((1 <<< (m.width % 32) : Nat) : Int) - (1 : Int) = ((1 <<< (m.width % 32) - 1 : Nat) : Int) := by omega
        rw [e1]
        exact wrap_of_lt _ _ (by omega) (by omega)
      generalize hF : (fun (ws : List Nat) (y : Nat) =>
          updWord ws (y * m.rowSize + (m.rowSize - 1)) (fun w => w &&& (1 <<< (m.width % 32) - 1))) = F
      rw [hmask, show (m.rowSize : Int) - 1 = ((m.rowSize - 1 + 0 * m.rowSize : Nat) : Int) by omega, len_words,
        whileLoop_stride words F
          (m.rowSize - 1) m.rowSize (m.words.map not32).length _ ?_ ?_ m.height 0 (m.words.map not32) fuel hfuel ?_ ?_]
      · rw [List.range_eq_range']
        cases (List.range' 0 m.height).foldlM F (m.words.map not32) <;> rfl
      · subst hF
        intro j ws hj
        simp only [Gen.K16b.matrixFlipAll_body2, List.length_map]
        have hlt : (((m.rowSize - 1 + j * m.rowSize : Nat) : Int) < (m.words.length : Int)) := by
          simp only [List.length_map] at hj; omega
        simp only [hlt, decide_true, if_true]
        rw [updC ws (j * m.rowSize + (m.rowSize - 1)) (fun w => w &&& (1 <<< (m.width % 32) - 1)) _ (by omega) (by omega)
          (fun w => iand_natCast w _)]
        have e : ((m.rowSize - 1 + j * m.rowSize : Nat) : Int) + (m.rowSize : Int) = ((m.rowSize - 1 + (j + 1) * m.rowSize : Nat) : Int) := by
          rw [Nat.succ_mul]; omega
        cases updWord ws _ _ with
        | error er => rfl
        | ok ws' => simp only []; rw [e]
      · intro j ws hj
        simp only [Gen.K16b.matrixFlipAll_body2, List.length_map]
        have hlt : ¬ (((m.rowSize - 1 + j * m.rowSize : Nat) : Int) < (m.words.length : Int)) := by
          simp only [List.length_map] at hj; omega
        simp only [hlt, decide_false, Bool.false_eq_true, if_false]
      · intro i _ hi
        rw [List.length_map, hlen]
        have : (i + 1) * m.rowSize ≤ m.height * m.rowSize := Nat.mul_le_mul_right _ (by omega)
        rw [Nat.succ_mul] at this
        rw [Nat.mul_comm m.rowSize m.height]; omega
      · rw [List.length_map, hlen, Nat.zero_add, Nat.mul_comm m.rowSize m.height]; omega
  · intro i _ hi ws
    simp only [Gen.K16b.matrixFlipAll_body1]
    rw [updC ws i (fun w => (wrap 32 (inot (w : Int))).toNat) _ rfl rfl
      (fun w => (Int.toNat_of_nonneg (wrap_nonneg 32 _)).symm)]
    cases updWord ws i _ <;> rfl

/-- non-vacuity of `k_matrixFlipAll_eq`: a 33x2 matrix (two words per row, `width%32 ≠ 0`) satisfies the invariant, fuel 3 -/
example : ∃ m : WMat, InvM m ∧ m.width % 32 ≠ 0 ∧ m.height < 3 :=
  ⟨⟨33, 2, 2, [0, 0, 0, 0]⟩, ⟨by decide, by decide, by decide, by decide, by decide,
    fun x y _ _ => by
      show bitAt (List.replicate 4 0) _ = false
      unfold bitAt
      rw [List.getElem?_replicate]; split <;> simp⟩, by decide, by decide⟩

/-- all four fields, for a method that replaces the whole matrix -/
def expM (r : Res WMat) : Res (Int × Int × Int × List Int) :=
  r.map (fun m' => ((m'.width : Int), (m'.height : Int), (m'.rowSize : Int), words m'.words))

when_kernel Gzx.Gen.K16b.matrixRotate90 in
/-- `BitMatrix.Rotate90()` = `WMat.rotate90`: new dimensions and row size, a zeroed slice of `newRowSize*newHeight` words,
    and for every set cell `(x, y)` (word `y*rowSize + x/32`, bit `x&31`) the bit `y&31` of word
    `(newHeight-1-x)*newRowSize + y/32` of the new slice; all four fields are replaced -/
theorem k_matrixRotate90_eq (m : WMat) :
    Gen.K16b.matrixRotate90 m.width m.height m.rowSize (words m.words) = expM (WMat.rotate90 m) := by
  simp only [Gen.K16b.matrixRotate90, WMat.rotate90, expM]
  have hrs : Int.tdiv ((m.height : Int) + 31) 32 = (((m.height + 31) / 32 : Nat) : Int) := by gonorm; omega
  rw [hrs, mk_words _ ((m.height + 31) / 32 * m.width) (by simp)]
  simp only [tryR_ok]
  generalize hF : (fun (nb : List Nat) (y : Nat) => (List.range m.width).foldlM (fun nb x => do
        let w ← wordAt m.words (y * m.rowSize + x / 32)
        if ((w >>> (x % 32)) &&& 1) != 0 then
          updWord nb ((m.width - 1 - x) * ((m.height + 31) / 32) + y / 32) (fun v => v ||| (1 <<< (y % 32)))
        else pure nb) nb) = F
  rw [List.range_eq_range', loop_up_fold' words F 0 m.height (List.replicate ((m.height + 31) / 32 * m.width) 0) rfl
        (by rw [tripUp_one]; omega) (by omega), ofRes_thenR]
  · cases (List.range' 0 m.height).foldlM F (List.replicate ((m.height + 31) / 32 * m.width) 0) <;> rfl
  · subst hF
    intro y _ _ nb
    simp only [Gen.K16b.matrixRotate90_body1]
    rw [List.range_eq_range', loop_up_fold' words (fun nb x => do
        let w ← wordAt m.words (y * m.rowSize + x / 32)
        if ((w >>> (x % 32)) &&& 1) != 0 then
          updWord nb ((m.width - 1 - x) * ((m.height + 31) / 32) + y / 32) (fun v => v ||| (1 <<< (y % 32)))
        else pure nb) 0 m.width nb rfl (by rw [tripUp_one]; omega) (by omega), ofRes_thenC_next]
    intro x _ hx nb
    simp only [Gen.K16b.matrixRotate90_body2]
    rw [idxC m.words (y * m.rowSize + x / 32) _ (by gonorm; omega)]
    simp only [bind, Except.bind]
    cases wordAt m.words (y * m.rowSize + x / 32) with
    | error e => rfl
    | ok w =>
      simp only []
      rw [shr_of_nonneg _ _ (by gonorm; omega)]
      simp only [tryC_ok]
      have hsh : ishr (w : Int) (iand (x : Int) 31) = ((w >>> (x % 32) : Nat) : Int) := by
        gonorm; rw [show (x : Int) % 32 = ((x % 32 : Nat) : Int) by omega, ishr_natCast]
      have e1 : (1 : Int) = ((1 : Nat) : Int) := rfl
      rw [hsh, e1, iand_natCast, natCast_bne_zero]
      cases hb : ((w >>> (x % 32) &&& 1) != 0) with
      | false => simp [pure, Except.pure, Except.map]
      | true =>
        simp only [if_true]
        rw [shl_of_nonneg _ _ (by gonorm; omega)]
        simp only [tryC_ok]
        have h1 : ((m.width : Int) - ((1 : Nat) : Int) - (x : Int)) = ((m.width - 1 - x : Nat) : Int) := by omega
        rw [h1, ← Int.natCast_mul,
          updC nb ((m.width - 1 - x) * ((m.height + 31) / 32) + y / 32) (fun v => v ||| 1 <<< (y % 32))]
        · cases updWord nb _ _ <;> rfl
        · gonorm; omega
        · gonorm; omega
        · intro v; gonorm
          rw [← e1, bit_natCast _ (y % 32) (by omega) (by omega), ior_natCast]

end Gzx.Obligations.K16bMat
