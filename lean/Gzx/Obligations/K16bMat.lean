/-
  K16b (rest of BitMatrix) — the BitMatrix methods that the renderers do not use (Xor, SetRow, FlipAll, rotations, scans),
  regenerated from /repo's bit_matrix.go on every run (`Gzx.Gen.K16b`) and proved equal to the word model `WMat.*` of
  Model/Bits.lean.  Conventions and the renderers' methods (Set/Unset/Flip/SetRegion/Clear): Obligations/K16b.lean.
-/
import Gzx.Gen.K16b
import Gzx.KernelGuard
import Gzx.Proofs.GoMTie
namespace Gzx.Obligations.K16bMat
open Gzx Gzx.GoM Gzx.Bits Gzx.GoVal

when_kernel Gzx.Gen.K16b.matrixXor in
/-- `BitMatrix.Xor(mask)` = `WMat.xor`: dimension check (error, unchanged), then word by word
    `bits[y*rowSize+x] ^= mask.bits[y*mask.rowSize+x]`, index panics at the same iteration.
    (`b` and `mask` are different objects: the translation threads the two word slices separately.) -/
theorem k_matrixXor_eq (m mask : WMat) :
    Gen.K16b.matrixXor m.width m.height m.rowSize (words m.words) mask.width mask.height mask.rowSize (words mask.words) =
      expEW m.words (WMat.xor m mask) := by
  simp only [Gen.K16b.matrixXor, WMat.xor]
  by_cases h1 : m.width ≠ mask.width ∨ m.height ≠ mask.height ∨ m.rowSize ≠ mask.rowSize
  · resolve_ifs; rfl
  resolve_ifs
  generalize hF : (fun (ws : List Nat) (y : Nat) => (List.range m.rowSize).foldlM (fun ws x => do
          let o ← wordAt mask.words (y * mask.rowSize + x)
          updWord ws (y * m.rowSize + x) (fun w => w ^^^ o)) ws) = F
  rw [List.range_eq_range', loop_up_fold' words F 0 m.height m.words rfl (by rw [tripUp_one]; omega) (by omega), ofRes_thenR]
  · cases hf : (List.range' 0 m.height).foldlM F m.words with
    | ok ws => rfl
    | error e =>
      refine (expEW_error _ ?_).symm
      subst hF
      refine foldlM_error NotArg _ (fun _ y _ h => foldlM_error NotArg _ (fun _ x e h => ?_) _ _ _ h) _ _ _ hf
      simp only [bind, Except.bind] at h
      cases hw : wordAt mask.words (y * mask.rowSize + x) with
      | error e' => rw [hw] at h; injection h with h; subst h; exact wordAt_error hw
      | ok o => rw [hw] at h; exact updWord_error h
  · subst hF
    intro y _ _ ws
    simp only [Gen.K16b.matrixXor_body1]
    rw [List.range_eq_range', loop_up_fold' words (fun ws x => do
          let o ← wordAt mask.words (y * mask.rowSize + x)
          updWord ws (y * m.rowSize + x) (fun w => w ^^^ o)) 0 m.rowSize ws rfl (by rw [tripUp_one]; omega) (by omega), ofRes_thenC_next]
    intro x _ _ ws
    simp only [Gen.K16b.matrixXor_body2]
    rw [idxC mask.words (y * mask.rowSize + x) _ (by omega)]
    simp only [bind, Except.bind]
    cases wordAt mask.words (y * mask.rowSize + x) with
    | error e => rfl
    | ok o =>
      simp only []
      rw [updC ws (y * m.rowSize + x) (fun w => w ^^^ o) _ (by omega) (by omega) (fun w => ixor_natCast w o)]
      cases updWord ws (y * m.rowSize + x) _ <;> rfl

when_kernel Gzx.Gen.K16b.matrixSetRow in
/-- `BitMatrix.SetRow(y, row)` = `WMat.setRow`: `copy(bits[y*rowSize : y*rowSize+rowSize], row.bits)` with the slice-bounds panic -/
theorem k_matrixSetRow_eq (m : WMat) (y : Nat) (row : WArr) :
    Gen.K16b.matrixSetRow m.rowSize (words m.words) y (words row.words) = expW (WMat.setRow m y row) := by
  have hmul : (y : Int) * (m.rowSize : Int) = ((y * m.rowSize : Nat) : Int) := by simp
  simp only [Gen.K16b.matrixSetRow, WMat.setRow, expW, copySeg, words_length, hmul]
  by_cases h : y * m.rowSize + m.rowSize > m.words.length
  · simp (disch := omega) only [if_pos, if_neg]; rfl
  · simp (disch := omega) only [if_pos, if_neg]
    have e2 : (((y * m.rowSize : Nat) : Int) + (m.rowSize : Int)).toNat = y * m.rowSize + m.rowSize := by omega
    simp only [Int.toNat_natCast, e2, tryR_ok, Except.map]
    congr 1
    rw [show y * m.rowSize + m.rowSize - y * m.rowSize = m.rowSize by omega]
    simp only [words, ← List.map_take, ← List.map_drop]
    rw [show List.map Int.ofNat ((m.words.drop (y * m.rowSize)).take m.rowSize) =
          words ((m.words.drop (y * m.rowSize)).take m.rowSize) from rfl,
        show List.map Int.ofNat row.words = words row.words from rfl, copyL_words]
    simp [words]

when_kernel Gzx.Gen.K16b.matrixFlipAll in
/-- `BitMatrix.FlipAll()` = `WMat.flipAll` on a matrix satisfying the representation invariant (words below 2^32,
    `len(bits) = rowSize*height`, `rowSize ≥ 1`), for every fuel above `height`: every word complemented in 32 bits, then —
    when `width%32 ≠ 0` — the last word of every row (`i = rowSize-1; i < len; i += rowSize`) masked with `1<<shift - 1` -/
theorem k_matrixFlipAll_eq (m : WMat) (h : InvM m) (fuel : Nat) (hfuel : m.height < fuel) :
    Gen.K16b.matrixFlipAll fuel m.width m.rowSize (words m.words) = expW (WMat.flipAll m) := by
  obtain ⟨hw1, _, hrs, hlen, h32, _⟩ := h
  have hrs1 : 1 ≤ m.rowSize := by omega
  simp only [Gen.K16b.matrixFlipAll, WMat.flipAll, expW]
  rw [loop_up_fold' words (fun ws i => updWord ws i (fun w => (wrap 32 (inot (w : Int))).toNat)) 0 m.words.length m.words rfl
        (by rw [tripUp_one]; gonorm; omega) (by omega), foldlM_updWord_all,
      show m.words.map (fun (w : Nat) => (wrap 32 (inot (w : Int))).toNat) = m.words.map not32 from
        List.map_congr_left (fun w hw => by rw [not32_natCast w (h32 w hw), Int.toNat_natCast])]
  · simp only [ofRes_thenR, Except.map]
    have hsh : wrap 64 (Int.tmod (m.width : Int) 32) = ((m.width % 32 : Nat) : Int) := by gonorm; omega
    rw [hsh]
    by_cases hs : m.width % 32 = 0
    · simp [hs]
    · have hne : (((m.width % 32 : Nat) : Int) != 0) = true := by simp; omega
      simp only [hne, if_true, hs, ne_eq, not_false_eq_true]
      have hmask : wrap 32 (wrap 32 (ishl 1 ((m.width % 32 : Nat) : Int)) - 1) = ((1 <<< (m.width % 32) - 1 : Nat) : Int) := by
        rw [bit_natCast _ (m.width % 32) rfl (by omega)]
        have hp : 1 ≤ 1 <<< (m.width % 32) := by rw [Nat.one_shiftLeft]; exact Nat.one_le_two_pow
        have hlt := one_shl_lt (m.width % 32) (by omega)
        unfold W32 at hlt
        have e1 : ((1 <<< (m.width % 32) : Nat) : Int) - (1 : Int) = ((1 <<< (m.width % 32) - 1 : Nat) : Int) := by omega
        rw [e1]
        exact wrap_of_lt _ _ (by omega) (by omega)
      generalize hF : (fun (ws : List Nat) (y : Nat) =>
          updWord ws (y * m.rowSize + (m.rowSize - 1)) (fun w => w &&& (1 <<< (m.width % 32) - 1))) = F
      rw [hmask, show (m.rowSize : Int) - 1 = ((m.rowSize - 1 + 0 * m.rowSize : Nat) : Int) by omega, len_words,
        whileLoop_stride words F
          (m.rowSize - 1) m.rowSize (m.words.map not32).length _ ?_ ?_ m.height 0 (m.words.map not32) fuel hfuel ?_ ?_]
      · rw [List.range_eq_range']
        cases (List.range' 0 m.height).foldlM F (m.words.map not32) <;> rfl
      · subst hF
        intro j ws hj
        simp only [Gen.K16b.matrixFlipAll_body2, List.length_map]
        have hlt : (((m.rowSize - 1 + j * m.rowSize : Nat) : Int) < (m.words.length : Int)) := by
          simp only [List.length_map] at hj; omega
        simp only [hlt, decide_true, if_true]
        rw [updC ws (j * m.rowSize + (m.rowSize - 1)) (fun w => w &&& (1 <<< (m.width % 32) - 1)) _ (by omega) (by omega)
          (fun w => iand_natCast w _)]
        have e : ((m.rowSize - 1 + j * m.rowSize : Nat) : Int) + (m.rowSize : Int) = ((m.rowSize - 1 + (j + 1) * m.rowSize : Nat) : Int) := by
          rw [Nat.succ_mul]; omega
        cases updWord ws _ _ with
        | error er => rfl
        | ok ws' => simp only []; rw [e]
      · intro j ws hj
        simp only [Gen.K16b.matrixFlipAll_body2, List.length_map]
        have hlt : ¬ (((m.rowSize - 1 + j * m.rowSize : Nat) : Int) < (m.words.length : Int)) := by
          simp only [List.length_map] at hj; omega
        simp only [hlt, decide_false, Bool.false_eq_true, if_false]
      · intro i _ hi
        rw [List.length_map, hlen]
        have : (i + 1) * m.rowSize ≤ m.height * m.rowSize := Nat.mul_le_mul_right _ (by omega)
        rw [Nat.succ_mul] at this
        rw [Nat.mul_comm m.rowSize m.height]; omega
      · rw [List.length_map, hlen, Nat.zero_add, Nat.mul_comm m.rowSize m.height]; omega
  · intro i _ hi ws
    simp only [Gen.K16b.matrixFlipAll_body1]
    rw [updC ws i (fun w => (wrap 32 (inot (w : Int))).toNat) _ rfl rfl
      (fun w => (Int.toNat_of_nonneg (wrap_nonneg 32 _)).symm)]
    cases updWord ws i _ <;> rfl

/-- non-vacuity of `k_matrixFlipAll_eq`: a 33x2 matrix (two words per row, `width%32 ≠ 0`) satisfies the invariant, fuel 3 -/
example : ∃ m : WMat, InvM m ∧ m.width % 32 ≠ 0 ∧ m.height < 3 :=
  ⟨⟨33, 2, 2, [0, 0, 0, 0]⟩, ⟨by decide, by decide, by decide, by decide, by decide,
    fun x y _ _ => by
      show bitAt (List.replicate 4 0) _ = false
      unfold bitAt
      rw [List.getElem?_replicate]; split <;> simp⟩, by decide, by decide⟩

/-- all four fields, for a method that replaces the whole matrix -/
def expM (r : Res WMat) : Res (Int × Int × Int × List Int) :=
  r.map (fun m' => ((m'.width : Int), (m'.height : Int), (m'.rowSize : Int), words m'.words))

when_kernel Gzx.Gen.K16b.matrixRotate90 in
/-- `BitMatrix.Rotate90()` = `WMat.rotate90`: new dimensions and row size, a zeroed slice of `newRowSize*newHeight` words,
    and for every set cell `(x, y)` (word `y*rowSize + x/32`, bit `x&31`) the bit `y&31` of word
    `(newHeight-1-x)*newRowSize + y/32` of the new slice; all four fields are replaced -/
theorem k_matrixRotate90_eq (m : WMat) :
    Gen.K16b.matrixRotate90 m.width m.height m.rowSize (words m.words) = expM (WMat.rotate90 m) := by
  simp only [Gen.K16b.matrixRotate90, WMat.rotate90, expM]
  have hrs : Int.tdiv ((m.height : Int) + 31) 32 = (((m.height + 31) / 32 : Nat) : Int) := by gonorm; omega
  rw [hrs, mk_words _ ((m.height + 31) / 32 * m.width) (by simp)]
  simp only [tryR_ok]
  generalize hF : (fun (nb : List Nat) (y : Nat) => (List.range m.width).foldlM (fun nb x => do
        let w ← wordAt m.words (y * m.rowSize + x / 32)
        if ((w >>> (x % 32)) &&& 1) != 0 then
          updWord nb ((m.width - 1 - x) * ((m.height + 31) / 32) + y / 32) (fun v => v ||| (1 <<< (y % 32)))
        else pure nb) nb) = F
  rw [List.range_eq_range', loop_up_fold' words F 0 m.height (List.replicate ((m.height + 31) / 32 * m.width) 0) rfl
        (by rw [tripUp_one]; omega) (by omega), ofRes_thenR]
  · cases (List.range' 0 m.height).foldlM F (List.replicate ((m.height + 31) / 32 * m.width) 0) <;> rfl
  · subst hF
    intro y _ _ nb
    simp only [Gen.K16b.matrixRotate90_body1]
    rw [List.range_eq_range', loop_up_fold' words (fun nb x => do
        let w ← wordAt m.words (y * m.rowSize + x / 32)
        if ((w >>> (x % 32)) &&& 1) != 0 then
          updWord nb ((m.width - 1 - x) * ((m.height + 31) / 32) + y / 32) (fun v => v ||| (1 <<< (y % 32)))
        else pure nb) 0 m.width nb rfl (by rw [tripUp_one]; omega) (by omega), ofRes_thenC_next]
    intro x _ hx nb
    simp only [Gen.K16b.matrixRotate90_body2]
    rw [idxC m.words (y * m.rowSize + x / 32) _ (by gonorm; omega)]
    simp only [bind, Except.bind]
    cases wordAt m.words (y * m.rowSize + x / 32) with
    | error e => rfl
    | ok w =>
      simp only []
      rw [shr_of_nonneg _ _ (by gonorm; omega)]
      simp only [tryC_ok]
      have hsh : ishr (w : Int) (iand (x : Int) 31) = ((w >>> (x % 32) : Nat) : Int) := by
        gonorm; rw [show (x : Int) % 32 = ((x % 32 : Nat) : Int) by omega, ishr_natCast]
      have e1 : (1 : Int) = ((1 : Nat) : Int) := rfl
      rw [hsh, e1, iand_natCast, natCast_bne_zero]
      cases hb : ((w >>> (x % 32) &&& 1) != 0) with
      | false => simp [pure, Except.pure, Except.map]
      | true =>
        simp only [if_true]
        rw [shl_of_nonneg _ _ (by gonorm; omega)]
        simp only [tryC_ok]
        have h1 : ((m.width : Int) - ((1 : Nat) : Int) - (x : Int)) = ((m.width - 1 - x : Nat) : Int) := by omega
        rw [h1, ← Int.natCast_mul,
          updC nb ((m.width - 1 - x) * ((m.height + 31) / 32) + y / 32) (fun v => v ||| 1 <<< (y % 32))]
        · cases updWord nb _ _ <;> rfl
        · gonorm; omega
        · gonorm; omega
        · intro v; gonorm
          rw [← e1, bit_natCast _ (y % 32) (by omega) (by omega), ior_natCast]

/-! ### scans: `GetTopLeftOnBit`, `GetBottomRightOnBit` -/

/-- `bit := 0; for (theBits << (31-bit)) == 0 { bit++ }` on a non-zero 32-bit word is the model's `lowBit` -/
theorem lowBit_while {ρ : Type} (w : Nat) (hw0 : w ≠ 0) (hw : w < W32) (body : Int → Ctl Int ρ)
    (hb : ∀ bit : Nat, bit ≤ 31 → body (bit : Int) =
      if shl32 w (31 - bit) = 0 then .next ((bit + 1 : Nat) : Int) else .brk (bit : Int)) :
    ∀ (n bit fuel : Nat), 1 ≤ n → bit + n = 32 → n ≤ fuel →
      whileLoop body fuel (bit : Int) = .brk ((lowBitLoop n bit w : Nat) : Int) := by
  intro n
  induction n with
  | zero => intro _ _ h; omega
  | succ n ih =>
    intro bit fuel _ hbn hf
    obtain ⟨fuel, rfl⟩ : ∃ k, fuel = k + 1 := ⟨fuel - 1, by omega⟩
    rw [whileLoop_succ, hb bit (by omega)]
    unfold lowBitLoop
    by_cases hz : shl32 w (31 - bit) = 0
    · simp only [hz, if_true]
      have hbit : bit ≠ 31 := by
        intro h31; subst h31
        unfold shl32 at hz
        simp only [Nat.sub_self, Nat.shiftLeft_zero] at hz
        rw [Nat.mod_eq_of_lt hw] at hz
        exact hw0 hz
      exact ih (bit + 1) fuel (by omega) (by omega) (by omega)
    · simp only [hz, if_false]

/-- `bit := 31; for (theBits >> bit) == 0 { bit-- }` on a non-zero 32-bit word is the model's `highBit` -/
theorem highBit_while {ρ : Type} (w : Nat) (hw0 : w ≠ 0) (body : Int → Ctl Int ρ)
    (hb : ∀ bit : Nat, bit ≤ 31 → body (bit : Int) =
      if w >>> bit = 0 then .next ((bit - 1 : Nat) : Int) else .brk (bit : Int)) :
    ∀ (n bit fuel : Nat), n = bit + 1 → bit ≤ 31 → n ≤ fuel →
      whileLoop body fuel (bit : Int) = .brk ((highBitLoop n bit w : Nat) : Int) := by
  intro n
  induction n with
  | zero => intro _ _ h; omega
  | succ n ih =>
    intro bit fuel hn hb31 hf
    obtain ⟨fuel, rfl⟩ : ∃ k, fuel = k + 1 := ⟨fuel - 1, by omega⟩
    rw [whileLoop_succ, hb bit hb31]
    unfold highBitLoop
    by_cases hz : w >>> bit = 0
    · simp only [hz, if_true]
      have hbit : bit ≠ 0 := by
        intro h0; subst h0
        simp only [Nat.shiftRight_zero] at hz
        exact hw0 hz
      exact ih (bit - 1) fuel (by omega) (by omega) (by omega)
    · simp only [hz, if_false]

/-- `for bitsOffset < len && bits[bitsOffset] == 0 { bitsOffset++ }` is `findIdx (· != 0)` -/
theorem first_while {ρ : Type} (ws : List Nat) (body : Int → Ctl Int ρ)
    (hb : ∀ k : Nat, body (k : Int) =
      match ws[k]? with
      | some w => if w = 0 then .next ((k + 1 : Nat) : Int) else .brk (k : Int)
      | none => .brk (k : Int)) :
    ∀ (n k fuel : Nat), k + n = ws.length → n < fuel →
      whileLoop body fuel (k : Int) = .brk ((k + (ws.drop k).findIdx (fun w => w != 0) : Nat) : Int) := by
  intro n
  induction n with
  | zero =>
    intro k fuel hk hf
    obtain ⟨fuel, rfl⟩ : ∃ j, fuel = j + 1 := ⟨fuel - 1, by omega⟩
    rw [whileLoop_succ, hb k, List.getElem?_eq_none (by omega), List.drop_eq_nil_of_le (by omega)]
    simp
  | succ n ih =>
    intro k fuel hk hf
    obtain ⟨fuel, rfl⟩ : ∃ j, fuel = j + 1 := ⟨fuel - 1, by omega⟩
    have hlt : k < ws.length := by omega
    rw [whileLoop_succ, hb k, List.getElem?_eq_getElem hlt, List.drop_eq_getElem_cons hlt, List.findIdx_cons]
    by_cases hz : ws[k] = 0
    · simp only [hz, if_true, bne_self_eq_false, cond_false]
      rw [ih (k + 1) fuel (by omega) (by omega)]
      congr 2; omega
    · have : (ws[k] != 0) = true := by simp [hz]
      simp [hz, this]

/-- what the regenerated scans return: `nil` (empty) or the two coordinates -/
def expPt (r : Res (Option (List Nat))) : Res (List Int) :=
  r.map (fun o => match o with | none => [] | some l => l.map Int.ofNat)

when_kernel Gzx.Gen.K16b.matrixGetTopLeftOnBit in
/-- `BitMatrix.GetTopLeftOnBit()` = `WMat.getTopLeftOnBit` (words below 2^32; fuel above `len(bits)+32`): first non-zero word,
    `y = offset / rowSize`, `x = (offset % rowSize)*32 + lowest set bit`, `nil` for an empty matrix, the division panic for
    `rowSize = 0` -/
theorem k_matrixGetTopLeftOnBit_eq (m : WMat) (h32 : ∀ w ∈ m.words, w < W32) (fuel : Nat) (hf : m.words.length + 32 < fuel) :
    Gen.K16b.matrixGetTopLeftOnBit fuel m.rowSize (words m.words) = expPt (WMat.getTopLeftOnBit m) := by
  simp only [Gen.K16b.matrixGetTopLeftOnBit, WMat.getTopLeftOnBit, expPt, len_words]
  rw [show (0 : Int) = ((0 : Nat) : Int) from rfl, first_while m.words _ ?_ m.words.length 0 fuel (by omega) (by omega)]
  · simp only [brk_thenR, List.drop_zero, Nat.zero_add]
    generalize hk : m.words.findIdx (fun w => w != 0) = k
    by_cases hend : k = m.words.length
    · have : ((k : Int) == (m.words.length : Int)) = true := by simp; omega
      simp [this, hend, Except.map]
    · have hne : ((k : Int) == (m.words.length : Int)) = false := by simp; omega
      have hk' : k < m.words.length := by
        have := @List.findIdx_le_length _ (fun w => w != 0) m.words; omega
      simp only [hne, Bool.false_eq_true, if_false, List.getElem?_eq_getElem hk']
      by_cases hr0 : m.rowSize = 0
      · simp [hr0, GoM.div, Except.map]
      · have hr0' : ¬ ((m.rowSize : Int) = 0) := by omega
        simp only [GoM.div, GoM.mod, hr0, hr0', if_false, tryR_ok]
        rw [idxR m.words k _ rfl]
        simp only [wordAt, List.getElem?_eq_getElem hk']
        have hnz : m.words[k] ≠ 0 := by
          have := @List.findIdx_getElem _ (fun w => w != 0) m.words (by rw [hk]; exact hk')
          simp only [hk] at this
          simpa using this
        rw [lowBit_while m.words[k] hnz (h32 _ (List.getElem_mem hk')) _ ?_ 32 0 fuel (by omega) (by omega) (by omega)]
        · simp only [brk_thenR, Except.map, lowBit, List.map_cons, List.map_nil, Int.ofNat_eq_natCast]
          gonorm
          have e1 : (k : Int) % (m.rowSize : Int) * 32 + ((lowBitLoop 32 0 m.words[k] : Nat) : Int) =
              ((k % m.rowSize * 32 + lowBitLoop 32 0 m.words[k] : Nat) : Int) := by
            rw [Int.natCast_add, Int.natCast_mul, Int.natCast_emod]; rfl
          have e2 : (k : Int) / (m.rowSize : Int) = ((k / m.rowSize : Nat) : Int) := by rw [Int.natCast_ediv]
          rw [e1, e2]
        · intro bit hbit
          simp only [Gen.K16b.matrixGetTopLeftOnBit_body2]
          have e1 : wrap 64 (31 - (bit : Int)) = ((31 - bit : Nat) : Int) := by gonorm; omega
          have e2 : wrap 64 ((bit : Int) + 1) = ((bit + 1 : Nat) : Int) := by gonorm; omega
          rw [e1, e2, ishl_natCast, wrap_natCast]
          have e3 : (m.words[k] <<< (31 - bit)) % 2 ^ 32 = shl32 m.words[k] (31 - bit) := rfl
          rw [e3]
          by_cases hz : shl32 m.words[k] (31 - bit) = 0
          · simp [hz]
          · have : ((shl32 m.words[k] (31 - bit) : Int) == 0) = false := by simp; omega
            simp [hz, this]
  · intro k
    simp only [Gen.K16b.matrixGetTopLeftOnBit_body1, len_words]
    by_cases hk : k < m.words.length
    · have : decide ((k : Int) < (m.words.length : Int)) = true := by simp; omega
      simp only [this, if_true, List.getElem?_eq_getElem hk]
      rw [idxC m.words k _ rfl]
      simp only [wordAt, List.getElem?_eq_getElem hk]
      by_cases hz : m.words[k] = 0
      · simp [hz]
      · have : ((m.words[k] : Int) == 0) = false := by simp; omega
        simp [hz, this]
    · have : decide ((k : Int) < (m.words.length : Int)) = false := by simp; omega
      simp only [this, Bool.false_eq_true, if_false, List.getElem?_eq_none (by omega : m.words.length ≤ k)]

theorem lastNonzero_snoc (l : List Nat) (x : Nat) : ∀ i, WMat.lastNonzero (l ++ [x]) i =
    if x != 0 then some (i + l.length, x) else WMat.lastNonzero l i := by
  induction l with
  | nil => intro i; simp [WMat.lastNonzero]
  | cons w l ih =>
    intro i
    simp only [List.cons_append, WMat.lastNonzero, ih (i + 1), List.length_cons]
    by_cases hx : (x != 0) = true
    · simp only [hx, if_true]; congr 2; omega
    · simp only [hx, Bool.false_eq_true, if_false]

theorem lastNonzero_spec (l : List Nat) : ∀ (j i w : Nat), WMat.lastNonzero l j = some (i, w) →
    j ≤ i ∧ l[i - j]? = some w ∧ w ≠ 0 := by
  induction l with
  | nil => intro j i w h; simp [WMat.lastNonzero] at h
  | cons x l ih =>
    intro j i w h
    simp only [WMat.lastNonzero] at h
    cases hr : WMat.lastNonzero l (j + 1) with
    | some r =>
      rw [hr] at h
      simp only [Option.some.injEq] at h
      subst h
      obtain ⟨h1, h2, h3⟩ := ih (j + 1) i w hr
      refine ⟨by omega, ?_, h3⟩
      rw [show i - j = (i - (j + 1)) + 1 by omega, List.getElem?_cons_succ]; exact h2
    | none =>
      rw [hr] at h
      simp only [] at h
      by_cases hx : (x != 0) = true
      · simp only [hx, if_true, Option.some.injEq, Prod.mk.injEq] at h
        obtain ⟨rfl, rfl⟩ := h
        exact ⟨Nat.le_refl _, by simp, by simpa using hx⟩
      · simp [hx] at h

/-- `bitsOffset := len-1; for bitsOffset >= 0 && bits[bitsOffset] == 0 { bitsOffset-- }` is the model's `lastNonzero` -/
theorem last_while {ρ : Type} (ws : List Nat) (body : Int → Ctl Int ρ)
    (hneg : body (-1) = .brk (-1))
    (hb : ∀ k : Nat, k < ws.length → body (k : Int) = if ws[k]! = 0 then .next ((k : Int) - 1) else .brk (k : Int)) :
    ∀ (n fuel : Nat), n ≤ ws.length → n < fuel →
      whileLoop body fuel ((n : Int) - 1) =
        .brk (match WMat.lastNonzero (ws.take n) 0 with | none => -1 | some (i, _) => (i : Int)) := by
  intro n
  induction n with
  | zero =>
    intro fuel _ hf
    obtain ⟨fuel, rfl⟩ : ∃ j, fuel = j + 1 := ⟨fuel - 1, by omega⟩
    rw [whileLoop_succ, show ((0 : Nat) : Int) - 1 = -1 by omega, hneg]
    simp [WMat.lastNonzero]
  | succ n ih =>
    intro fuel hn hf
    obtain ⟨fuel, rfl⟩ : ∃ j, fuel = j + 1 := ⟨fuel - 1, by omega⟩
    have hlt : n < ws.length := by omega
    rw [whileLoop_succ, show ((n + 1 : Nat) : Int) - 1 = (n : Int) by omega, hb n hlt,
      List.take_succ_eq_append_getElem hlt, lastNonzero_snoc]
    have hget : ws[n]! = ws[n] := by simp [hlt]
    rw [hget]
    by_cases hz : ws[n] = 0
    · have : (ws[n] != 0) = false := by simp [hz]
      simp only [hz, if_true, this, Bool.false_eq_true, if_false]
      have := ih fuel (by omega) (by omega)
      rw [hz] at *
      exact this
    · have : (ws[n] != 0) = true := by simp [hz]
      simp [hz, this, Nat.min_eq_left (by omega : n ≤ ws.length)]

when_kernel Gzx.Gen.K16b.matrixGetBottomRightOnBit in
/-- `BitMatrix.GetBottomRightOnBit()` = `WMat.getBottomRightOnBit` (fuel above `len(bits)+32`): last non-zero word,
    `y = offset / rowSize`, `x = (offset % rowSize)*32 + highest set bit`, `nil` for an empty matrix -/
theorem k_matrixGetBottomRightOnBit_eq (m : WMat) (fuel : Nat) (hf : m.words.length + 32 < fuel) :
    Gen.K16b.matrixGetBottomRightOnBit fuel m.rowSize (words m.words) = expPt (WMat.getBottomRightOnBit m) := by
  simp only [Gen.K16b.matrixGetBottomRightOnBit, WMat.getBottomRightOnBit, expPt, len_words]
  rw [last_while m.words _ ?_ ?_ m.words.length fuel (Nat.le_refl _) (by omega), List.take_length]
  · simp only [brk_thenR]
    cases hl : WMat.lastNonzero m.words 0 with
    | none => simp [Except.map]
    | some p =>
      obtain ⟨k, w⟩ := p
      obtain ⟨_, hget, hw0⟩ := lastNonzero_spec m.words 0 k w hl
      simp only [Nat.sub_zero] at hget
      have hk' : k < m.words.length := (List.getElem?_eq_some_iff.mp hget).1
      have hnn : decide ((k : Int) < 0) = false := by simp
      simp only [hnn, Bool.false_eq_true, if_false]
      by_cases hr0 : m.rowSize = 0
      · simp [hr0, GoM.div, Except.map]
      · have hr0' : ¬ ((m.rowSize : Int) = 0) := by omega
        simp only [GoM.div, GoM.mod, hr0, hr0', if_false, tryR_ok]
        rw [idxR m.words k _ rfl]
        simp only [wordAt, hget]
        rw [show (31 : Int) = ((31 : Nat) : Int) from rfl,
          highBit_while w hw0 _ ?_ 32 31 fuel (by omega) (by omega) (by omega)]
        · simp only [brk_thenR, Except.map, highBit, List.map_cons, List.map_nil, Int.ofNat_eq_natCast]
          gonorm
          have e1 : (k : Int) % (m.rowSize : Int) * 32 + ((highBitLoop 32 31 w : Nat) : Int) =
              ((k % m.rowSize * 32 + highBitLoop 32 31 w : Nat) : Int) := by
            rw [Int.natCast_add, Int.natCast_mul, Int.natCast_emod]; rfl
          have e2 : (k : Int) / (m.rowSize : Int) = ((k / m.rowSize : Nat) : Int) := by rw [Int.natCast_ediv]
          rw [e1, e2]
        · intro bit hbit
          simp only [Gen.K16b.matrixGetBottomRightOnBit_body2]
          rw [ishr_natCast]
          by_cases hz : w >>> bit = 0
          · have hb0 : bit ≠ 0 := by
              intro h0; subst h0; simp only [Nat.shiftRight_zero] at hz; exact hw0 hz
            have e2 : wrap 64 ((bit : Int) - 1) = ((bit - 1 : Nat) : Int) := by gonorm; omega
            simp [hz, e2]
          · have : (((w >>> bit : Nat) : Int) == 0) = false := beq_eq_false_iff_ne.mpr (Int.natCast_ne_zero.mpr hz)
            simp only [this, Bool.false_eq_true, if_false, hz]
  · simp only [Gen.K16b.matrixGetBottomRightOnBit_body1]
    simp
  · intro k hk
    simp only [Gen.K16b.matrixGetBottomRightOnBit_body1]
    have : decide ((k : Int) ≥ 0) = true := by simp
    simp only [this, if_true]
    rw [idxC m.words k _ rfl]
    have hget : m.words[k]! = m.words[k] := by simp [hk]
    simp only [wordAt, List.getElem?_eq_getElem hk, hget]
    by_cases hz : m.words[k] = 0
    · simp [hz]
    · have : ((m.words[k] : Int) == 0) = false := by simp; omega
      simp [hz, this]

/-! ### GetEnclosingRectangle -/

/-- the scan state of `GetEnclosingRectangle` as the four Go ints -/
abbrev enclR (e : WMat.Encl) : Int × Int × Int × Int := ((e.left : Int), (e.top : Int), e.right, e.bottom)

when_kernel Gzx.Gen.K16b.matrixGetEnclosingRectangle in
/-- `BitMatrix.GetEnclosingRectangle()` = `WMat.getEnclosingRectangle` (words below 2^32, fuel ≥ 33): for every non-zero word the
    four bounds are updated — top/bottom by the row, left by the lowest set bit when the word starts left of `left`, right by
    the highest set bit when the word ends right of `right` — and `nil` when nothing was found -/
theorem k_matrixGetEnclosingRectangle_eq (m : WMat) (h32 : ∀ w ∈ m.words, w < W32) (fuel : Nat) (hf : 33 ≤ fuel) :
    Gen.K16b.matrixGetEnclosingRectangle fuel m.width m.height m.rowSize (words m.words) =
      expPt (WMat.getEnclosingRectangle m) := by
  simp only [Gen.K16b.matrixGetEnclosingRectangle, WMat.getEnclosingRectangle, expPt]
  generalize hF : (fun (e : WMat.Encl) (y : Nat) => (List.range m.rowSize).foldlM (fun e x32 => do
        let theBits ← wordAt m.words (y * m.rowSize + x32)
        pure (WMat.enclStep y x32 theBits e)) e) = F
  rw [List.range_eq_range', show (((m.width : Int), (m.height : Int), (-1 : Int), (-1 : Int))) = enclR ⟨m.width, m.height, -1, -1⟩ from rfl,
    loop_up_fold' enclR F 0 m.height ⟨m.width, m.height, -1, -1⟩ rfl (by rw [tripUp_one]; omega) (by omega), ofRes_thenR]
  · cases (List.range' 0 m.height).foldlM F ⟨m.width, m.height, -1, -1⟩ with
    | error e => rfl
    | ok e =>
      simp only [Except.map, enclR]
      by_cases hr : e.right < (e.left : Int) ∨ e.bottom < (e.top : Int)
      · resolve_ifs
      · resolve_ifs
        simp only [List.map_cons, List.map_nil, Int.ofNat_eq_natCast]
        rw [Int.toNat_of_nonneg (by omega), Int.toNat_of_nonneg (by omega)]
  · subst hF
    intro y _ _ e
    simp only [Gen.K16b.matrixGetEnclosingRectangle_body1, enclR]
    rw [List.range_eq_range', show (((e.left : Int), (e.top : Int), e.right, e.bottom)) = enclR e from rfl,
      loop_up_fold' enclR (fun e x32 => do
        let theBits ← wordAt m.words (y * m.rowSize + x32)
        pure (WMat.enclStep y x32 theBits e)) 0 m.rowSize e rfl (by rw [tripUp_one]; omega) (by omega)]
    · exact ofRes_thenC_next _
    · intro x32 _ _ e
      simp only [Gen.K16b.matrixGetEnclosingRectangle_body2, enclR]
      rw [idxC m.words (y * m.rowSize + x32) _ (by omega)]
      simp only [bind, Except.bind]
      cases hw : wordAt m.words (y * m.rowSize + x32) with
      | error er => rfl
      | ok w =>
        have hwlt : w < W32 := by
          unfold wordAt at hw
          cases hg : m.words[y * m.rowSize + x32]? with
          | none => rw [hg] at hw; cases hw
          | some v =>
            rw [hg] at hw; injection hw with hw; subst hw
            have := List.getElem?_eq_some_iff.mp hg
            rw [← this.2]; exact h32 _ (List.getElem_mem _)
        simp only [pure, Except.pure, Except.map, ofRes_ok, WMat.enclStep]
        by_cases hz : w = 0
        · subst hz; simp [enclR]
        · have hne : ((w : Int) != 0) = true := by simp; omega
          simp only [hne, if_true, hz, ne_eq, not_false_eq_true]
          have hlow : whileLoop (Gen.K16b.matrixGetEnclosingRectangle_body3 (w : Int)) fuel 0 =
              (.brk ((lowBit w : Nat) : Int) : Ctl Int (List Int)) := by
            rw [show (0 : Int) = ((0 : Nat) : Int) from rfl]
            refine lowBit_while w hz hwlt _ ?_ 32 0 fuel (by omega) (by omega) (by omega)
            intro bit hbit
            simp only [Gen.K16b.matrixGetEnclosingRectangle_body3]
            have e1 : wrap 64 (31 - (bit : Int)) = ((31 - bit : Nat) : Int) := by gonorm; omega
            rw [e1, ishl_natCast, wrap_natCast]
            have e3 : (w <<< (31 - bit)) % 2 ^ 32 = shl32 w (31 - bit) := rfl
            rw [e3]
            by_cases hs : shl32 w (31 - bit) = 0
            · simp [hs]
            · have : ((shl32 w (31 - bit) : Int) == 0) = false := by simp; omega
              simp only [this, Bool.false_eq_true, if_false, hs]
          have hhigh : whileLoop (Gen.K16b.matrixGetEnclosingRectangle_body4 (w : Int)) fuel 31 =
              (.brk ((highBit w : Nat) : Int) : Ctl Int (List Int)) := by
            rw [show (31 : Int) = ((31 : Nat) : Int) from rfl]
            refine highBit_while w hz _ ?_ 32 31 fuel (by omega) (by omega) (by omega)
            intro bit hbit
            simp only [Gen.K16b.matrixGetEnclosingRectangle_body4]
            have e1 : wrap 64 (bit : Int) = (bit : Int) := by gonorm
            rw [e1, ishr_natCast]
            by_cases hs : w >>> bit = 0
            · have hb0 : bit ≠ 0 := by
                intro h0; subst h0; simp only [Nat.shiftRight_zero] at hs; exact hz hs
              have e2 : (bit : Int) - 1 = ((bit - 1 : Nat) : Int) := by omega
              simp [hs, e2]
            · have : (((w >>> bit : Nat) : Int) == 0) = false := beq_eq_false_iff_ne.mpr (Int.natCast_ne_zero.mpr hs)
              simp only [this, Bool.false_eq_true, if_false, hs]
          simp only [hlow, hhigh, brk_thenC]
          by_cases c1 : y < e.top <;> by_cases c2 : (y : Int) > e.bottom <;>
            by_cases c3 : x32 * 32 < e.left <;> by_cases c4 : x32 * 32 + lowBit w < e.left <;>
            by_cases c5 : ((x32 * 32 + 31 : Nat) : Int) > e.right <;>
            by_cases c6 : ((x32 * 32 + highBit w : Nat) : Int) > e.right <;>
            simp (disch := omega) only [decide_eq_true_eq, if_pos, if_neg, next_thenC] <;>
            (try (congr 1)) <;> (try omega) <;> (try (simp only [Prod.mk.injEq]; omega))

/-- non-vacuity of the hypotheses of the scan theorems: a 40x1 matrix with bits in both words, words below 2^32, fuel 40 -/
example : ∃ (m : WMat) (fuel : Nat), (∀ w ∈ m.words, w < W32) ∧ m.words.length + 32 < fuel ∧ 33 ≤ fuel ∧
    WMat.getTopLeftOnBit m = .ok (some [3, 0]) ∧ WMat.getBottomRightOnBit m = .ok (some [39, 0]) :=
  ⟨⟨40, 1, 2, [8, 128]⟩, 40, by decide, by decide, by decide, by decide, by decide⟩

/-! ### Rotate180 -/

section rotate180
variable {σ ρ : Type}


/-- `b.bits[i], b.bits[j] = b.bits[j], b.bits[i]` inside a loop body -/
theorem swapC (ws : List Nat) (i j : Nat) {ei ej ei' ej' : Int} (k : List Int → Ctl σ ρ)
    (h1 : ej = j) (h2 : ei = i) (h3 : ei' = i) (h4 : ej' = j) :
    tryC (idx (words ws) ej) (fun t1 => tryC (idx (words ws) ei) fun t2 =>
        tryC (setIdx (words ws) ei' t1) fun t3 => tryC (setIdx t3 ej' t2) k) =
      match WMat.swapWords ws i j with
      | .ok ws' => k (words ws')
      | .error e => .panic e := by
  subst h1 h2 h3 h4
  rw [idxC ws j _ rfl]
  unfold WMat.swapWords wordAt
  cases hj : ws[j]? with
  | none =>
    cases hi : ws[i]? <;> rfl
  | some b =>
    simp only []
    rw [idxC ws i _ rfl]
    unfold wordAt
    cases hi : ws[i]? with
    | none => rfl
    | some a =>
      simp only [bind, Except.bind]
      have hil : i < ws.length := (List.getElem?_eq_some_iff.mp hi).1
      have hjl : j < ws.length := (List.getElem?_eq_some_iff.mp hj).1
      rw [setC ws i b _ rfl rfl]
      simp only [setWord, hil, if_true]
      rw [setC (ws.set i b) j a _ rfl rfl]
      simp [setWord, hjl]

theorem realignLoop_length (sh : Nat) : ∀ (rest : List Nat) (prev : Nat), (WMat.realignLoop sh rest prev).length = rest.length + 1 := by
  intro rest
  induction rest with
  | nil => intro prev; rfl
  | cons w rest ih => intro prev; simp [WMat.realignLoop, ih]

/-- the fused reverse-and-realign loop of one row of `Rotate180` -/
theorem realign_row_loop (sh offset : Nat) (body : Int → List Int → Ctl (List Int) ρ)
    (hb : ∀ (j : Nat) (ws : List Nat), 1 ≤ j → body (j : Int) (words ws) =
      match ws[offset + j]? with
      | none => .panic oob
      | some w =>
        match updWord ws (offset + j - 1) (fun v => v ||| shl32 (Bits.rev32 w) sh) with
        | .error e => .panic e
        | .ok ws1 =>
          match setWord ws1 (offset + j) (Bits.rev32 w >>> (32 - sh)) with
          | .ok ws2 => .next (words ws2)
          | .error e => .panic e) :
    ∀ (rest out : List Nat) (prev : Nat) (T : List Nat) (j0 : Nat), 1 ≤ j0 → out.length + 1 = offset + j0 →
      loop body 1 rest.length (j0 : Int) (words (out ++ prev :: rest ++ T)) =
        .next (words (out ++ WMat.realignLoop sh rest prev ++ T)) := by
  intro rest
  induction rest with
  | nil => intro out prev T j0 _ _; simp [loop, WMat.realignLoop]
  | cons w rest ih =>
    intro out prev T j0 hj0 hlen
    rw [List.length_cons, loop_succ, hb j0 _ hj0]
    have h1 : (out ++ prev :: (w :: rest) ++ T)[offset + j0]? = some w := by
      rw [← hlen]; simp
    rw [h1]
    simp only []
    have h2 : updWord (out ++ prev :: (w :: rest) ++ T) (offset + j0 - 1) (fun v => v ||| shl32 (Bits.rev32 w) sh) =
        .ok (out ++ (prev ||| shl32 (Bits.rev32 w) sh) :: (w :: rest) ++ T) := by
      rw [show offset + j0 - 1 = out.length by omega]
      simp [updWord]
    rw [h2]
    simp only []
    have h3 : setWord (out ++ (prev ||| shl32 (Bits.rev32 w) sh) :: (w :: rest) ++ T) (offset + j0) (Bits.rev32 w >>> (32 - sh)) =
        .ok ((out ++ [prev ||| shl32 (Bits.rev32 w) sh]) ++ (Bits.rev32 w >>> (32 - sh)) :: rest ++ T) := by
      rw [← hlen]
      simp [setWord]
    rw [h3]
    simp only []
    have h4 : (j0 : Int) + 1 = ((j0 + 1 : Nat) : Int) := by omega
    rw [h4, ih (out ++ [prev ||| shl32 (Bits.rev32 w) sh]) (Bits.rev32 w >>> (32 - sh)) T (j0 + 1) (by omega) (by simp; omega)]
    simp [WMat.realignLoop]

theorem realignRow_length (sh : Nat) (row : List Nat) : (WMat.realignRow sh row).length = row.length := by
  cases row with
  | nil => rfl
  | cons w rest => simp [WMat.realignRow, realignLoop_length]

/-- the loop over the rows of `Rotate180` (`shift ≠ 0`) is the model's `mapRows` -/
theorem rows_loop (rs sh : Nat) (body : Int → List Int → Ctl (List Int) ρ)
    (hb : ∀ (i : Nat) (done row later : List Nat), done.length = rs * i → row.length = rs →
      body (i : Int) (words (done ++ row ++ later)) = .next (words (done ++ WMat.realignRow sh row ++ later))) :
    ∀ (h i0 : Nat) (done ws : List Nat), done.length = rs * i0 → ws.length = rs * h →
      loop body 1 h (i0 : Int) (words (done ++ ws)) =
        .next (words (done ++ WMat.mapRows rs (WMat.realignRow sh) h ws)) := by
  intro h
  induction h with
  | zero => intro i0 done ws _ _; simp [loop, WMat.mapRows]
  | succ h ih =>
    intro i0 done ws hd hw
    have hsplit : ws = ws.take rs ++ ws.drop rs := (List.take_append_drop rs ws).symm
    have htl : (ws.take rs).length = rs := by
      rw [List.length_take, hw, Nat.mul_succ]; omega
    rw [loop_succ]
    have := hb i0 done (ws.take rs) (ws.drop rs) hd htl
    rw [List.append_assoc, ← hsplit] at this
    rw [this]
    simp only []
    have e : (i0 : Int) + 1 = ((i0 + 1 : Nat) : Int) := by omega
    have := ih (i0 + 1) (done ++ WMat.realignRow sh (ws.take rs)) (ws.drop rs)
      (by rw [List.length_append, realignRow_length, htl, hd, Nat.mul_succ])
      (by rw [List.length_drop, hw, Nat.mul_succ]; omega)
    rw [List.append_assoc] at this
    rw [e, List.append_assoc, this]
    simp [WMat.mapRows]

theorem foldlM_length_words {α : Type} (f : List Nat → α → Res (List Nat))
    (hf : ∀ ws a ws', f ws a = .ok ws' → ws'.length = ws.length) :
    ∀ (l : List α) (ws ws' : List Nat), l.foldlM f ws = .ok ws' → ws'.length = ws.length := by
  intro l
  induction l with
  | nil => intro ws ws' h; simp only [List.foldlM, pure, Except.pure] at h; injection h with h; rw [h]
  | cons a l ih =>
    intro ws ws' h
    simp only [List.foldlM, bind, Except.bind] at h
    cases hfa : f ws a with
    | error e => rw [hfa] at h; cases h
    | ok w1 => rw [hfa] at h; rw [ih w1 ws' h, hf ws a w1 hfa]

theorem setWord_len {ws ws' : List Nat} {i v : Nat} (h : setWord ws i v = .ok ws') : ws'.length = ws.length := by
  unfold setWord at h
  by_cases hl : i < ws.length
  · rw [if_pos hl] at h; injection h with h; rw [← h, List.length_set]
  · rw [if_neg hl] at h; cases h

theorem swapWords_len {ws ws' : List Nat} {i j : Nat} (h : WMat.swapWords ws i j = .ok ws') : ws'.length = ws.length := by
  unfold WMat.swapWords wordAt at h
  cases hi : ws[i]? with
  | none => rw [hi] at h; cases h
  | some a =>
    cases hj : ws[j]? with
    | none => rw [hi, hj] at h; cases h
    | some b =>
      rw [hi, hj] at h
      simp only [bind, Except.bind] at h
      cases h1 : setWord ws i b with
      | error e => rw [h1] at h; cases h
      | ok w1 =>
        rw [h1] at h
        rw [setWord_len h, setWord_len h1]

end rotate180

when_kernel Gzx.Gen.K16b.matrixRotate180 in
/-- `BitMatrix.Rotate180()` = `WMat.rotate180` on a matrix with `len(bits) = rowSize*height` and `rowSize ≥ 1` (part of the
    representation invariant): the word swaps of the row pairs and of the middle row (odd height), then — `width%32 ≠ 0` — per
    row the fused `Reverse32` + realignment by `shift` bits (in place: `bits[offset+j-1] |= cur << shift; bits[offset+j] = cur >>
    (32-shift)`), or — `width%32 = 0` — `Reverse32` of every word -/
theorem k_matrixRotate180_eq (m : WMat) (hlen : m.words.length = m.rowSize * m.height) (hrs : 1 ≤ m.rowSize) :
    Gen.K16b.matrixRotate180 m.width m.height m.rowSize (words m.words) = expW (WMat.rotate180 m) := by
  simp only [Gen.K16b.matrixRotate180, WMat.rotate180, WMat.rotate180Swap, expW]
  generalize hF1 : (fun (ws : List Nat) (i : Nat) => (List.range m.rowSize).foldlM
      (fun ws j => WMat.swapWords ws (i * m.rowSize + j) ((m.height - i) * m.rowSize - 1 - j)) ws) = F1
  have hh2 : Int.tdiv (m.height : Int) 2 = ((m.height / 2 : Nat) : Int) := by gonorm; omega
  rw [List.range_eq_range', hh2, loop_up_fold' words F1 0 (m.height / 2) m.words rfl (by rw [tripUp_one]; omega) (by omega), ofRes_thenR]
  · cases hf1 : (List.range' 0 (m.height / 2)).foldlM F1 m.words with
    | error e => rfl
    | ok ws1 =>
      simp only [Except.map]
      have hl1 : ws1.length = m.words.length := by
        subst hF1
        exact foldlM_length_words _ (fun ws i ws' h => foldlM_length_words _ (fun ws j ws' h => swapWords_len h) _ _ _ h) _ _ _ hf1
      -- the middle row (odd height)
      generalize hF2 : (fun (ws : List Nat) (j : Nat) => WMat.swapWords ws (m.rowSize * (m.height - 1) / 2 + j)
          (m.rowSize * (m.height - 1) / 2 + m.rowSize - 1 - j)) = F2
      have hmid : ∀ (k : List Int → Res (List Int)),
          (((if (Int.tmod (m.height : Int) 2 != 0) = true then
              (loop (Gen.K16b.matrixRotate180_body3 (m.rowSize : Int) (Int.tdiv ((m.rowSize : Int) * ((m.height : Int) - 1)) 2)) 1
                (tripUp 0 (Int.tdiv (m.rowSize : Int) 2) 1) 0 (words ws1)).thenC fun st => Ctl.next st
            else Ctl.next (words ws1) : Ctl (List Int) (List Int))).thenR k) =
          match (if m.height % 2 ≠ 0 then (List.range (m.rowSize / 2)).foldlM F2 ws1 else .ok ws1) with
          | .ok ws2 => k (words ws2)
          | .error e => .error e := by
        intro k
        by_cases hodd : m.height % 2 ≠ 0
        · have hc : (Int.tmod (m.height : Int) 2 != 0) = true := by gonorm; simp; omega
          have hoff : Int.tdiv ((m.rowSize : Int) * ((m.height : Int) - 1)) 2 = ((m.rowSize * (m.height - 1) / 2 : Nat) : Int) := by
            have h1 : ((m.height : Int) - 1) = ((m.height - 1 : Nat) : Int) := by omega
            rw [h1, ← Int.natCast_mul]; gonorm; omega
          have hr2 : Int.tdiv (m.rowSize : Int) 2 = ((m.rowSize / 2 : Nat) : Int) := by gonorm; omega
          simp only [hc, if_true, hodd, ne_eq, not_false_eq_true]
          rw [hoff, hr2, List.range_eq_range', loop_up_fold' words F2 0 (m.rowSize / 2) ws1 rfl (by rw [tripUp_one]; omega) (by omega),
            ofRes_thenC_next, ofRes_thenR]
          · cases (List.range' 0 (m.rowSize / 2)).foldlM F2 ws1 <;> rfl
          · subst hF2
            intro j _ hj ws
            simp only [Gen.K16b.matrixRotate180_body3]
            rw [swapC ws (m.rowSize * (m.height - 1) / 2 + j) (m.rowSize * (m.height - 1) / 2 + m.rowSize - 1 - j) _
              (by omega) (by omega) (by omega) (by omega)]
            cases WMat.swapWords ws _ _ <;> rfl
        · have hc : (Int.tmod (m.height : Int) 2 != 0) = false := by gonorm; simp; omega
          simp only [hc, Bool.false_eq_true, if_false, hodd, next_thenR]
      rw [hmid]
      cases hm2 : (if m.height % 2 ≠ 0 then (List.range (m.rowSize / 2)).foldlM F2 ws1 else .ok ws1) with
      | error e => rfl
      | ok ws2 =>
        have hl2 : ws2.length = m.rowSize * m.height := by
          rw [← hlen, ← hl1]
          by_cases hodd : m.height % 2 ≠ 0
          · rw [if_pos hodd] at hm2
            subst hF2
            exact foldlM_length_words _ (fun ws j ws' h => swapWords_len h) _ _ _ hm2
          · rw [if_neg hodd] at hm2; injection hm2 with hm2; rw [hm2]
        simp only []
        have hsh : wrap 64 (Int.tmod (m.width : Int) 32) = ((m.width % 32 : Nat) : Int) := by gonorm; omega
        rw [hsh]
        by_cases hs : m.width % 32 = 0
        · have hc : (((m.width % 32 : Nat) : Int) != 0) = false := by simp; omega
          simp only [hc, Bool.false_eq_true, if_false]
          rw [if_neg (by simp [hs])]
          rw [loop_up_fold' words (fun ws i => updWord ws i Bits.rev32) 0 ws2.length ws2 rfl
                (by rw [tripUp_one]; gonorm; omega) (by omega), foldlM_updWord_all]
          · rfl
          · intro i _ _ ws
            simp only [Gen.K16b.matrixRotate180_body6]
            rw [updC ws i Bits.rev32 _ rfl rfl (fun w => rev32_natCast w)]
            cases updWord ws i _ <;> rfl
        · have hc : (((m.width % 32 : Nat) : Int) != 0) = true := by simp; omega
          simp only [hc, if_true]
          rw [if_pos (by simpa using hs)]
          have := rows_loop (ρ := List Int) m.rowSize (m.width % 32)
            (Gen.K16b.matrixRotate180_body4 (m.rowSize : Int) ((m.width % 32 : Nat) : Int)) ?_ m.height 0 [] ws2 (by simp) hl2
          · simp only [List.nil_append] at this
            rw [show tripUp 0 (m.height : Int) 1 = m.height by rw [tripUp_one]; omega, show (0 : Int) = ((0 : Nat) : Int) from rfl, this]
            rfl
          · intro i done row later hd hr
            simp only [Gen.K16b.matrixRotate180_body4]
            obtain ⟨w0, rest, rfl⟩ : ∃ w0 rest, row = w0 :: rest := by
              cases row with
              | nil => simp at hr; omega
              | cons w0 rest => exact ⟨w0, rest, rfl⟩
            have hoff : (m.rowSize : Int) * (i : Int) = ((done.length : Nat) : Int) := by rw [hd]; simp
            rw [hoff, idxC (done ++ w0 :: rest ++ later) done.length _ rfl]
            have hg : wordAt (done ++ w0 :: rest ++ later) done.length = .ok w0 := by simp [wordAt]
            rw [hg]
            simp only []
            have hv : ishr (GoM.rev32 (w0 : Int)) (wrap 64 (32 - ((m.width % 32 : Nat) : Int))) =
                ((Bits.rev32 w0 >>> (32 - m.width % 32) : Nat) : Int) := by
              rw [show wrap 64 (32 - ((m.width % 32 : Nat) : Int)) = ((32 - m.width % 32 : Nat) : Int) by gonorm; omega,
                rev32_natCast, ishr_natCast]
            rw [setC (done ++ w0 :: rest ++ later) done.length (Bits.rev32 w0 >>> (32 - m.width % 32)) _ rfl hv]
            have hset : setWord (done ++ w0 :: rest ++ later) done.length (Bits.rev32 w0 >>> (32 - m.width % 32)) =
                .ok (done ++ (Bits.rev32 w0 >>> (32 - m.width % 32)) :: rest ++ later) := by simp [setWord]
            rw [hset]
            simp only []
            have hrl : rest.length = m.rowSize - 1 := by simp at hr; omega
            have key := realign_row_loop (ρ := List Int) (m.width % 32) done.length
              (Gen.K16b.matrixRotate180_body5 ((done.length : Nat) : Int) ((m.width % 32 : Nat) : Int)) ?_ rest done
              (Bits.rev32 w0 >>> (32 - m.width % 32)) later 1 (by omega) (by omega)
            · rw [show ((1 : Nat) : Int) = 1 from rfl] at key
              rw [show tripUp 1 (m.rowSize : Int) 1 = rest.length by rw [tripUp_one]; omega, key]
              simp [WMat.realignRow]
            · intro j ws hj
              simp only [Gen.K16b.matrixRotate180_body5]
              rw [idxC ws (done.length + j) _ (by omega)]
              unfold wordAt
              cases ws[done.length + j]? with
              | none => rfl
              | some w =>
                simp only [rev32_natCast]
                rw [updC ws (done.length + j - 1) (fun v => v ||| shl32 (Bits.rev32 w) (m.width % 32)) _ (by omega) (by omega)
                  (fun v => by rw [ishl_natCast, wrap_natCast, ior_natCast]; rfl)]
                cases updWord ws (done.length + j - 1) _ with
                | error e => rfl
                | ok ws1 =>
                  simp only []
                  rw [setC ws1 (done.length + j) (Bits.rev32 w >>> (32 - m.width % 32)) _ (by omega)
                    (by rw [show wrap 64 (32 - ((m.width % 32 : Nat) : Int)) = ((32 - m.width % 32 : Nat) : Int) by gonorm; omega,
                      ishr_natCast])]
                  cases setWord ws1 _ _ <;> rfl
  · subst hF1
    intro i _ hi ws
    simp only [Gen.K16b.matrixRotate180_body1]
    rw [List.range_eq_range', loop_up_fold' words (fun ws j => WMat.swapWords ws (i * m.rowSize + j) ((m.height - i) * m.rowSize - 1 - j))
      0 m.rowSize ws rfl (by rw [tripUp_one]; omega) (by omega), ofRes_thenC_next]
    intro j _ hj ws
    simp only [Gen.K16b.matrixRotate180_body2]
    have hmul : m.rowSize ≤ (m.height - i) * m.rowSize := Nat.le_mul_of_pos_left _ (by omega)
    have hbot : ((m.height : Int) - (i : Int)) * (m.rowSize : Int) - 1 - (j : Int) =
        (((m.height - i) * m.rowSize - 1 - j : Nat) : Int) := by
      have h1 : ((m.height : Int) - (i : Int)) = ((m.height - i : Nat) : Int) := by omega
      rw [h1, ← Int.natCast_mul]; omega
    rw [swapC ws (i * m.rowSize + j) ((m.height - i) * m.rowSize - 1 - j) _ hbot (by omega) (by omega) hbot]
    cases WMat.swapWords ws _ _ <;> rfl

/-- non-vacuity of `k_matrixRotate180_eq`: 33x3 (odd height, two words per row, `width%32 ≠ 0`) -/
example : ∃ m : WMat, m.words.length = m.rowSize * m.height ∧ 1 ≤ m.rowSize ∧ m.height % 2 ≠ 0 ∧ m.width % 32 ≠ 0 ∧
    (WMat.rotate180 m).isOk :=
  ⟨⟨33, 3, 2, [1, 0, 2, 1, 4, 0]⟩, by decide, by decide, by decide, by decide, by decide⟩

end Gzx.Obligations.K16bMat
