/-
  K16b (GetRow) — `BitMatrix.GetRow(y, row)` regenerated from /repo's bit_matrix.go on every run, with the BitArray pieces it
  calls (`NewBitArray`, `Clear`, `SetBulk`, all regenerated as well), proved equal to the word model `WMat.getRow`.
  The nil-able `row *BitArray` parameter is three values: `row == nil`, `row.bits`, `row.size`; the returned pointer is the two
  fields of the array it points to.  Conventions: Obligations/K16b.lean.
-/
import Gzx.Obligations.K16bArr
namespace Gzx.Obligations.K16bRow
open Gzx Gzx.GoM Gzx.Bits Gzx.GoVal Gzx.Obligations.K16bArr

when_kernel Gzx.Gen.K16b.newBitArray in
/-- `NewBitArray(size)` = `WArr.new`: `makeArray(size)` and the size -/
theorem k_newBitArray_eq (size : Nat) :
    Gen.K16b.newBitArray size = .ok (words (WArr.new size).words, (size : Int)) := by
  simp only [Gen.K16b.newBitArray, WArr.new]
  rw [k_makeArray_eq]
  rfl

theorem foldlM_inv {α τ : Type} (P : τ → Prop) (f : τ → α → Res τ) (hf : ∀ t a t', f t a = .ok t' → P t → P t') :
    ∀ (l : List α) (t t' : τ), l.foldlM f t = .ok t' → P t → P t' := by
  intro l
  induction l with
  | nil => intro t t' h hp; simp only [List.foldlM, pure, Except.pure] at h; injection h with h; rw [← h]; exact hp
  | cons a l ih =>
    intro t t' h hp
    simp only [List.foldlM, bind, Except.bind] at h
    cases hfa : f t a with
    | error e => rw [hfa] at h; cases h
    | ok t1 => rw [hfa] at h; exact ih t1 t' h (hf t a t1 hfa hp)

/-- the array `GetRow` fills: a fresh one when `row` is `nil` or too small, otherwise `row` cleared -/
def getRow0 (m : WMat) (row : Option WArr) : WArr :=
  match row with
  | some r => if r.size < m.width then WArr.new m.width else r.clear
  | none => WArr.new m.width

when_kernel Gzx.Gen.K16b.matrixGetRow in
/-- `BitMatrix.GetRow(y, row)` = `WMat.getRow`: a `nil` or too small `row` is replaced by `NewBitArray(width)`, otherwise it is
    cleared and reused (it keeps its size); then `row.SetBulk(x*32, bits[y*rowSize+x])` for every word of the row.
    (`bits₀`, `size₀` are whatever the fields of a `nil` row would be: they are not read.) -/
theorem k_matrixGetRow_eq (m : WMat) (y : Nat) (row : Option WArr) (bits₀ : List Nat) (size₀ : Nat) :
    Gen.K16b.matrixGetRow m.width m.rowSize (words m.words) y row.isNone
        (words (match row with | some r => r.words | none => bits₀))
        ((match row with | some r => r.size | none => size₀ : Nat) : Int) =
      expAS (WMat.getRow m y row) := by
  simp only [Gen.K16b.matrixGetRow, expAS]
  -- the array the loop starts from
  have hrow0 : ∀ (k : List Int × Int × Bool → Res (List Int × Int)),
      (((if (row.isNone || decide (((match row with | some r => r.size | none => size₀ : Nat) : Int) < (m.width : Int))) = true then
          tryC (Gen.K16b.newBitArray (m.width : Int)) fun t1 => Ctl.next (t1.1, t1.2, false)
        else
          tryC (Gen.K16b.arrayClear (words (match row with | some r => r.words | none => bits₀))) fun t2 =>
            Ctl.next (t2, ((match row with | some r => r.size | none => size₀ : Nat) : Int), row.isNone) :
          Ctl (List Int × Int × Bool) (List Int × Int))).thenR k) =
        k (words (getRow0 m row).words, ((getRow0 m row).size : Int), false) := by
    intro k
    cases row with
    | none => simp [k_newBitArray_eq, WArr.new, getRow0]
    | some r =>
      by_cases hs : r.size < m.width
      · have : decide ((r.size : Int) < (m.width : Int)) = true := by simp; omega
        simp [this, hs, k_newBitArray_eq, WArr.new, getRow0]
      · have : decide ((r.size : Int) < (m.width : Int)) = false := by simp; omega
        simp [this, hs, k_arrayClear_eq, WArr.clear, getRow0]
  rw [hrow0]
  clear hrow0
  simp only []
  have hmodel : WMat.getRow m y row = (List.range m.rowSize).foldlM (fun (r : WArr) (x : Nat) => do
      let w ← wordAt m.words (y * m.rowSize + x)
      r.setBulk (x * 32) w) (getRow0 m row) := by
    cases row <;> rfl
  rw [hmodel]
  generalize getRow0 m row = row0
  generalize hF : (fun (r : WArr) (x : Nat) => do
      let w ← wordAt m.words (y * m.rowSize + x)
      r.setBulk (x * 32) w) = F
  rw [List.range_eq_range', loop_up_fold' (fun (a : WArr) => words a.words) F 0 m.rowSize row0 rfl (by rw [tripUp_one]; omega) (by omega),
    ofRes_thenR]
  · cases hf : (List.range' 0 m.rowSize).foldlM F row0 with
    | error e => rfl
    | ok a' =>
      have hsz : a'.size = row0.size := by
        subst hF
        refine foldlM_inv (fun a => a.size = row0.size) _ (fun t x t' h hp => ?_) _ _ _ hf rfl
        simp only [bind, Except.bind] at h
        cases hw : wordAt m.words (y * m.rowSize + x) with
        | error e => rw [hw] at h; cases h
        | ok w =>
          rw [hw] at h
          simp only [WArr.setBulk, bind, Except.bind] at h
          cases hs : setWord t.words (x * 32 / 32) w with
          | error e => rw [hs] at h; cases h
          | ok ws => rw [hs] at h; simp only [pure, Except.pure] at h; injection h with h; rw [← h]; exact hp
      simp only [Except.map, hsz]
  · subst hF
    intro x _ _ a
    simp only [Gen.K16b.matrixGetRow_body1]
    rw [idxC m.words (y * m.rowSize + x) _ (by omega)]
    simp only [bind, Except.bind]
    cases wordAt m.words (y * m.rowSize + x) with
    | error e => rfl
    | ok w =>
      simp only []
      rw [show (x : Int) * 32 = ((x * 32 : Nat) : Int) by omega, k_arraySetBulk_eq]
      simp only [expA]
      cases WArr.setBulk a (x * 32) w <;> rfl

end Gzx.Obligations.K16bRow
