/-
  K16c (work package kfinish) — what wp c16tie left of the BitMatrix constructors: the argument check of `NewBitMatrix`
  (`Gen.K16c.newBitMatrixRejects`: the condition of its first `if`, translator kind `region`) and the forwarder
  `NewSquareBitMatrix` (`Gen.K16c.newSquareBitMatrix`, kind `funce`: `NewBitMatrix` is an abstract callee), regenerated from
  /repo's bit_matrix.go on every run and proved equal to `Bits.WMat.new` of Model/Bits.lean.
  NOT regenerated (outside every subset of the translator, still model + correspondence): ParseBoolMapToBitMatrix ([][]bool),
  ParseStringToBitMatrix (string prefix tests, []bool), ToString (append of byte strings), the image view At / Bounds (values of
  package image / image/color).
-/
import Gzx.Gen.K16c
import Gzx.KernelGuard
import Gzx.Proofs.GoMTie
namespace Gzx.Obligations.K16c
open Gzx Gzx.GoM Gzx.Bits

when_kernel Gzx.Gen.K16c.newBitMatrixRejects in
/-- `NewBitMatrix(width, height)` rejects exactly `width < 1 || height < 1` (any Go ints, negative ones included) -/
theorem k_newBitMatrixRejects_eq (w h : Int) : Gen.K16c.newBitMatrixRejects w h = .ok (decide (w < 1 ∨ h < 1)) := by
  simp only [Gen.K16c.newBitMatrixRejects]
  congr 1
  rw [Bool.eq_iff_iff]
  simp only [Bool.or_eq_true, decide_eq_true_eq]

when_kernel Gzx.Gen.K16c.newBitMatrixRejects in
/-- … which is when the model's constructor answers IllegalArgumentException -/
theorem k_newBitMatrixRejects_model (w h : Nat) :
    Gen.K16c.newBitMatrixRejects w h = .ok (decide (WMat.new w h = .error .illegalArg)) := by
  rw [k_newBitMatrixRejects_eq]
  congr 2
  unfold WMat.new
  by_cases hc : w < 1 ∨ h < 1
  · have : (w : Int) < 1 ∨ (h : Int) < 1 := by omega
    rw [if_pos hc]; simp only [this]
  · have : ¬ ((w : Int) < 1 ∨ (h : Int) < 1) := by omega
    rw [if_neg hc]; simp only [this]
    simp

/-- `NewBitMatrix` as the model has it, for Go ints: a matrix or the error -/
def newMatrixOpt (w h : Int) : Option WMat :=
  if w < 1 ∨ h < 1 then none else (WMat.new w.toNat h.toNat).toOption

when_kernel Gzx.Gen.K16c.newSquareBitMatrix in
/-- `NewSquareBitMatrix(dimension)` hands `dimension` to `NewBitMatrix` twice and returns its results unchanged — for every
    callee; with the model's constructor it is `WMat.new d d` -/
theorem k_newSquareBitMatrix_eq {F S : Type} (ops : NumOps F) (env : Gen.K16c.newSquareBitMatrix_Env F S) (d : Int) :
    Gen.K16c.newSquareBitMatrix ops env d = .ok (env.NewBitMatrix d d) := rfl

when_kernel Gzx.Gen.K16c.newSquareBitMatrix in
theorem k_newSquareBitMatrix_model (d : Nat) (hd : 1 ≤ d) :
    Gen.K16c.newSquareBitMatrix floatOps ⟨newMatrixOpt⟩ (d : Int) = .ok (WMat.new d d).toOption := by
  rw [k_newSquareBitMatrix_eq]
  show Except.ok (newMatrixOpt (d : Int) (d : Int)) = _
  unfold newMatrixOpt
  have : ¬ ((d : Int) < 1 ∨ (d : Int) < 1) := by omega
  rw [if_neg this, Int.toNat_natCast]

when_kernel Gzx.Gen.K16c.newSquareBitMatrix in
example : Gen.K16c.newSquareBitMatrix ratOps ⟨newMatrixOpt⟩ 33 = .ok (some ⟨33, 33, 2, List.replicate 66 0⟩) := by decide
when_kernel Gzx.Gen.K16c.newSquareBitMatrix in
example : Gen.K16c.newSquareBitMatrix ratOps ⟨newMatrixOpt⟩ 0 = .ok none := by decide

/-! ## `ParseBoolMapToBitMatrix` -/

theorem idxA_get {α : Type} (xs : List α) (i : Nat) :
    idxA xs ((i : Nat) : Int) = match xs[i]? with | some v => .ok v | none => .error oob := by
  unfold idxA
  have : ¬ (((i : Nat) : Int) < 0) := by omega
  simp only [this, if_false, Int.toNat_natCast]
  cases xs[i]? <;> rfl

variable {F S : Type}

/-- one cell: `if imageI[j] { bits.Set(j, i) }` -/
def cellK (env : Gen.K16c.parseBoolMap_Env F S) (row : List Bool) (i : Int) (b : S) (j : Nat) : Res S :=
  match row[j]? with
  | none => .error oob
  | some true => .ok (env.BitMatrix_Set b ((j : Nat) : Int) i)
  | some false => .ok b

/-- one row: `imageI := image[i]`, then `width` cells -/
def rowK (env : Gen.K16c.parseBoolMap_Env F S) (image : List (List Bool)) (width : Nat) (b : S) (i : Nat) : Res S :=
  match image[i]? with
  | none => .error oob
  | some row => (List.range' 0 width).foldlM (cellK env row ((i : Nat) : Int)) b

/-- `ParseBoolMapToBitMatrix(image)` in closed form: `height = len(image)`, `width = len(image[0])` (0 for no rows), the
    constructor's error handed on, then row by row, cell by cell -/
def parseSpec (env : Gen.K16c.parseBoolMap_Env F S) (image : List (List Bool)) : Res (Option S) :=
  let width := match image with | [] => 0 | r :: _ => r.length
  let t := env.NewBitMatrix ((width : Nat) : Int) ((image.length : Nat) : Int)
  if t.2 then .ok none else ((List.range' 0 image.length).foldlM (rowK env image width) t.1).map some

/-- the two loops of `ParseBoolMapToBitMatrix` for a given `width` -/
theorem parse_loops (env : Gen.K16c.parseBoolMap_Env F S) (image : List (List Bool)) (width : Nat) (bits : S) :
    ((loop (fun (i : Int) (st : S) => ((
        let bits := st
        tryC (idxA image i) fun t3 =>
        let imageI : List Bool := t3
        (loop (fun (j : Int) (st : S) => ((
            let bits := st
            tryC (idxA imageI j) fun t4 =>
            let bits :=
              if t4 then
                let bits := env.BitMatrix_Set bits j i
                bits
              else
                bits
            .next bits
            ) : Ctl (S) (Option S))) 1 (tripUp 0 ((width : Nat) : Int) 1) 0 bits).thenC fun st =>
        let bits := st
        .next bits
        ) : Ctl (S) (Option S))) 1 (tripUp 0 ((image.length : Nat) : Int) 1) 0 bits).thenR fun st => .ok (some st)) =
      ((List.range' 0 image.length).foldlM (rowK env image width) bits).map some := by
  simp only []
  rw [loop_up_fold' (fun (s : S) => s) (rowK env image width) 0 image.length bits rfl (by rw [tripUp_one]; omega)
        (show (0 : Int) = ((0 : Nat) : Int) from rfl)]
  · cases (List.range' 0 image.length).foldlM (rowK env image width) bits <;> rfl
  · intro i _ _ b
    simp only [rowK]
    rw [idxA_get]
    cases image[i]? with
    | none => rfl
    | some row =>
      simp only [tryC_ok]
      rw [loop_up_fold' (fun (s : S) => s) (cellK env row ((i : Nat) : Int)) 0 width b rfl (by rw [tripUp_one]; omega)
            (show (0 : Int) = ((0 : Nat) : Int) from rfl)]
      · cases (List.range' 0 width).foldlM (cellK env row ((i : Nat) : Int)) b <;> rfl
      · intro j _ _ b'
        simp only [cellK]
        rw [idxA_get]
        cases row[j]? with
        | none => rfl
        | some v => cases v <;> rfl

when_kernel Gzx.Gen.K16c.parseBoolMap in
/-- **ParseBoolMapToBitMatrix, Go source to closed form**, for every constructor / `Set` (the rows are read with checked accesses:
    a row shorter than the first one is the index panic) -/
theorem k_parseBoolMap_eq (ops : NumOps F) (env : Gen.K16c.parseBoolMap_Env F S) (image : List (List Bool)) :
    Gen.K16c.parseBoolMap ops env image = parseSpec env image := by
  unfold Gen.K16c.parseBoolMap parseSpec
  cases image with
  | nil =>
    simp only [lenA, List.length_nil]
    have h0 : ¬ ((((0 : Nat)) : Int) > 0) := by omega
    simp only [h0, decide_false, Bool.false_eq_true, if_false, tryR_ok]
    cases he : (env.NewBitMatrix 0 (((0 : Nat)) : Int)).2 with
    | true => simp only [he, if_true]
    | false =>
      simp only [he, Bool.false_eq_true, if_false]
      try exact parse_loops env [] 0 _
  | cons r rest =>
    have hpos : (((r :: rest).length : Nat) : Int) > 0 := by simp only [List.length_cons]; omega
    have e0 : idxA (r :: rest) 0 = .ok r := idxA_get (r :: rest) 0
    simp only [lenA, hpos, decide_true, if_true, e0, tryR_ok]
    cases he : (env.NewBitMatrix ((r.length : Nat) : Int) (((r :: rest).length : Nat) : Int)).2 with
    | true => simp only [he, if_true]
    | false =>
      simp only [he, Bool.false_eq_true, if_false]
      exact parse_loops env (r :: rest) r.length _

/-! ### … and the word model -/

/-- the constructor and `Set` of the word model as the callees: the matrix under construction is a `Res WMat` (a panic of `Set`
    stays in it; `Set` on an existing matrix of the right size never panics, Properties/C16) -/
def wmEnv : Gen.K16c.parseBoolMap_Env F (Res WMat) where
  NewBitMatrix := fun w h => (WMat.new w.toNat h.toNat, decide (w < 1 ∨ h < 1))
  BitMatrix_Set := fun s x y => s.bind fun m => m.set x.toNat y.toNat

/-- the model's run so far and the kernel's: the same matrix, or both failed (the model stops at a failed `Set`, the kernel carries it) -/
def Sim (mr : Res WMat) (kr : Res (Res WMat)) : Prop :=
  match mr with
  | .ok m => kr = .ok (.ok m)
  | .error _ => ∀ m, kr ≠ .ok (.ok m)

theorem sim_fold {β : Type} (f : WMat → β → Res WMat) (g : Res WMat → β → Res (Res WMat))
    (hstep : ∀ mr kr x, Sim mr kr → Sim (mr.bind (f · x)) (kr.bind (g · x))) :
    ∀ (l : List β) (mr : Res WMat) (kr : Res (Res WMat)), Sim mr kr → Sim (mr.bind (l.foldlM f)) (kr.bind (l.foldlM g)) := by
  intro l
  induction l with
  | nil =>
    intro mr kr h
    cases mr <;> cases kr <;> simpa [Sim, Except.bind, pure, Except.pure] using h
  | cons x l ih =>
    intro mr kr h
    have h1 := ih _ _ (hstep mr kr x h)
    have e1 : mr.bind (List.foldlM f · (x :: l)) = (mr.bind (f · x)).bind (l.foldlM f) := by
      cases mr <;> simp [List.foldlM, Except.bind, bind]
    have e2 : kr.bind (List.foldlM g · (x :: l)) = (kr.bind (g · x)).bind (l.foldlM g) := by
      cases kr <;> simp [List.foldlM, Except.bind, bind]
    rw [e1, e2]; exact h1

theorem sim_cell (row : List Bool) (i j : Nat) (mr : Res WMat) (kr : Res (Res WMat)) (h : Sim mr kr) :
    Sim (mr.bind (fun m => WMat.ofBoolMapCell m row i j)) (kr.bind (fun s => cellK (F := F) wmEnv row ((i : Nat) : Int) s j)) := by
  unfold WMat.ofBoolMapCell cellK
  cases mr with
  | ok m =>
    simp only [Sim] at h
    subst h
    simp only [Except.bind]
    cases row[j]? with
    | none => intro m'; simp
    | some v =>
      cases v with
      | false => simp [Sim, pure, Except.pure]
      | true =>
        simp only [wmEnv, Except.bind, Int.toNat_natCast]
        cases m.set j i with
        | ok m' => simp [Sim]
        | error e => intro m'; simp
  | error e =>
    simp only [Sim] at h
    simp only [Except.bind, Sim]
    intro m'
    cases kr with
    | error e' => simp [Except.bind]
    | ok s =>
      cases s with
      | ok m0 => exact absurd rfl (h m0)
      | error e' =>
        simp only [Except.bind]
        cases row[j]? with
        | none => simp
        | some v => cases v <;> simp [wmEnv, Except.bind]

theorem foldlM_congr_in {τ : Type} (f g : τ → Nat → Res τ) : ∀ (l : List Nat) (t : τ),
    (∀ x ∈ l, ∀ t, f t x = g t x) → l.foldlM f t = l.foldlM g t := by
  intro l
  induction l with
  | nil => intro t _; rfl
  | cons x l ih =>
    intro t h
    simp only [List.foldlM, bind, Except.bind]
    rw [h x List.mem_cons_self t]
    cases g t x with
    | error e => rfl
    | ok t' => exact ih t' (fun y hy => h y (List.mem_cons_of_mem _ hy))

/-- a loop over the indices of a list that reads `l[i]` = the fold over the list with indices -/
theorem foldlM_zipIdx {α τ : Type} (f : τ → α × Nat → Res τ) : ∀ (l : List α) (k : Nat) (b : τ),
    (l.zipIdx k).foldlM f b =
      (List.range' k l.length).foldlM (fun b i => match l[i - k]? with | none => .error oob | some a => f b (a, i)) b := by
  intro l
  induction l with
  | nil => intro k b; rfl
  | cons a l ih =>
    intro k b
    simp only [List.zipIdx_cons, List.length_cons, List.range'_succ, List.foldlM, Nat.sub_self, List.getElem?_cons_zero, bind, Except.bind]
    cases f b (a, k) with
    | error e => rfl
    | ok b' =>
      simp only []
      rw [ih (k + 1) b']
      apply foldlM_congr_in
      intro i hi t
      have hge : k + 1 ≤ i := by simp [List.mem_range'_1] at hi; omega
      rw [show i - k = (i - (k + 1)) + 1 by omega, List.getElem?_cons_succ]

/-- the rows from a given matrix on: the kernel's fold (on `Res WMat`) against the model's -/
theorem parse_core (image : List (List Bool)) (width : Nat) (m0 : WMat) :
    match image.zipIdx.foldlM (fun m p => (List.range width).foldlM (fun m j => WMat.ofBoolMapCell m p.1 p.2 j) m) m0 with
    | .ok m => ((List.range' 0 image.length).foldlM (rowK (F := F) wmEnv image width) (.ok m0)).map some = .ok (some (.ok m))
    | .error _ => ∀ m, ((List.range' 0 image.length).foldlM (rowK (F := F) wmEnv image width) (.ok m0)).map some ≠ .ok (some (.ok m)) := by
  have hk : (List.range' 0 image.length).foldlM (rowK (F := F) wmEnv image width) (.ok m0) =
      image.zipIdx.foldlM (fun b p => (List.range' 0 width).foldlM (cellK (F := F) wmEnv p.1 ((p.2 : Nat) : Int)) b) (.ok m0) := by
    rw [foldlM_zipIdx]
    apply foldlM_congr_in
    intro i _ t
    simp only [rowK, Nat.sub_zero]
    cases image[i]? <;> rfl
  rw [hk]
  have hsim := sim_fold
    (fun (m : WMat) (p : List Bool × Nat) => (List.range width).foldlM (fun m j => WMat.ofBoolMapCell m p.1 p.2 j) m)
    (fun (s : Res WMat) (p : List Bool × Nat) => (List.range' 0 width).foldlM (cellK (F := F) wmEnv p.1 ((p.2 : Nat) : Int)) s)
    (by
      intro mr kr p h
      rw [List.range_eq_range']
      exact sim_fold (fun m j => WMat.ofBoolMapCell m p.1 p.2 j) (fun s j => cellK (F := F) wmEnv p.1 ((p.2 : Nat) : Int) s j)
        (fun mr kr j h => sim_cell p.1 p.2 j mr kr h) (List.range' 0 width) mr kr h)
    image.zipIdx (.ok m0) (.ok (.ok m0)) rfl
  simp only [Except.bind] at hsim
  cases hm : image.zipIdx.foldlM (fun m p => (List.range width).foldlM (fun m j => WMat.ofBoolMapCell m p.1 p.2 j) m) m0 with
  | ok m =>
    rw [hm] at hsim
    simp only [Sim] at hsim
    simp only []
    rw [hsim]; rfl
  | error e =>
    rw [hm] at hsim
    simp only [Sim] at hsim
    simp only []
    intro m hc
    cases hf : image.zipIdx.foldlM (fun b p => (List.range' 0 width).foldlM (cellK (F := F) wmEnv p.1 ((p.2 : Nat) : Int)) b) (.ok m0) with
    | error e' => rw [hf] at hc; cases hc
    | ok s =>
      rw [hf] at hc
      simp only [Except.map, Except.ok.injEq, Option.some.injEq] at hc
      subst hc
      exact hsim m hf

when_kernel Gzx.Gen.K16c.parseBoolMap in
/-- **ParseBoolMapToBitMatrix, Go source to model**: with the word model's constructor and `Set` as callees the regenerated
    function builds the matrix of `WMat.ofBoolMap`; where the model fails (no rows or an empty first row: IllegalArgumentException;
    a row shorter than the first one: index panic) it does not return a matrix either -/
theorem k_parseBoolMap_model (ops : NumOps F) (image : List (List Bool)) :
    match WMat.ofBoolMap image with
    | .ok m => Gen.K16c.parseBoolMap ops wmEnv image = .ok (some (.ok m))
    | .error _ => ∀ m, Gen.K16c.parseBoolMap ops wmEnv image ≠ .ok (some (.ok m)) := by
  rw [k_parseBoolMap_eq]
  cases image with
  | nil =>
    have : WMat.ofBoolMap [] = .error .illegalArg := by decide
    rw [this]
    intro m hc
    have : parseSpec (F := F) wmEnv [] = .ok none := by
      unfold parseSpec; simp [wmEnv]
    rw [this] at hc; cases hc
  | cons r rest =>
    unfold parseSpec WMat.ofBoolMap
    simp only []
    have hnb : (wmEnv (F := F)).NewBitMatrix ((r.length : Nat) : Int) (((r :: rest).length : Nat) : Int) =
        (WMat.new r.length (r :: rest).length, decide (r.length < 1)) := by
      simp only [wmEnv, Int.toNat_natCast]
      congr 1
      rw [Bool.eq_iff_iff]; simp only [decide_eq_true_eq, List.length_cons]; omega
    rw [hnb]
    simp only []
    by_cases hbad : r.length < 1
    · have hnew : WMat.new r.length (r :: rest).length = .error .illegalArg := by
        unfold WMat.new; rw [if_pos (Or.inl hbad)]
      rw [hnew]
      simp only [hbad, decide_true, if_true]
      intro m hc; cases hc
    · have hnew : WMat.new r.length (r :: rest).length =
          .ok ⟨r.length, (r :: rest).length, (r.length + 31) / 32, List.replicate ((r.length + 31) / 32 * (r :: rest).length) 0⟩ := by
        unfold WMat.new
        rw [if_neg (by simp only [List.length_cons]; omega)]
      rw [hnew]
      simp only [hbad, decide_false, Bool.false_eq_true, if_false]
      exact parse_core (F := F) (r :: rest) r.length _

-- non-vacuity: a 2x2 map; an image without rows is refused; a ragged image (second row shorter) yields no matrix
when_kernel Gzx.Gen.K16c.parseBoolMap in
example : Gen.K16c.parseBoolMap ratOps wmEnv [[true, false], [false, true]] = .ok (some (.ok ⟨2, 2, 1, [1, 2]⟩)) := by decide
when_kernel Gzx.Gen.K16c.parseBoolMap in
example : Gen.K16c.parseBoolMap ratOps wmEnv [] = .ok none := by decide
when_kernel Gzx.Gen.K16c.parseBoolMap in
example : Gen.K16c.parseBoolMap ratOps wmEnv [[true, false], [false]] = .error oob := by decide

end Gzx.Obligations.K16c
