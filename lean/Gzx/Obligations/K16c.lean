/-
  K16c (work package kfinish) — what wp c16tie left of the BitMatrix constructors: the argument check of `NewBitMatrix`
  (`Gen.K16c.newBitMatrixRejects`: the condition of its first `if`, translator kind `region`) and the forwarder
  `NewSquareBitMatrix` (`Gen.K16c.newSquareBitMatrix`, kind `funce`: `NewBitMatrix` is an abstract callee), regenerated from
  /repo's bit_matrix.go on every run and proved equal to `Bits.WMat.new` of Model/Bits.lean.
  NOT regenerated (outside every subset of the translator, still model + correspondence): ParseBoolMapToBitMatrix ([][]bool),
  ParseStringToBitMatrix (string prefix tests, []bool), ToString (append of byte strings), the image view At / Bounds (values of
  package image / image/color).
-/
import Gzx.Gen.K16c
import Gzx.KernelGuard
import Gzx.Proofs.GoMTie
namespace Gzx.Obligations.K16c
open Gzx Gzx.GoM Gzx.Bits

when_kernel Gzx.Gen.K16c.newBitMatrixRejects in
/-- `NewBitMatrix(width, height)` rejects exactly `width < 1 || height < 1` (any Go ints, negative ones included) -/
theorem k_newBitMatrixRejects_eq (w h : Int) : Gen.K16c.newBitMatrixRejects w h = .ok (decide (w < 1 ∨ h < 1)) := by
  simp only [Gen.K16c.newBitMatrixRejects]
  congr 1
  rw [Bool.eq_iff_iff]
  simp only [Bool.or_eq_true, decide_eq_true_eq]

when_kernel Gzx.Gen.K16c.newBitMatrixRejects in
/-- … which is when the model's constructor answers IllegalArgumentException -/
theorem k_newBitMatrixRejects_model (w h : Nat) :
    Gen.K16c.newBitMatrixRejects w h = .ok (decide (WMat.new w h = .error .illegalArg)) := by
  rw [k_newBitMatrixRejects_eq]
  congr 2
  unfold WMat.new
  by_cases hc : w < 1 ∨ h < 1
  · have : (w : Int) < 1 ∨ (h : Int) < 1 := by omega
    rw [if_pos hc]; simp only [this]
  · have : ¬ ((w : Int) < 1 ∨ (h : Int) < 1) := by omega
    rw [if_neg hc]; simp only [this]
    simp

/-- `NewBitMatrix` as the model has it, for Go ints: a matrix or the error -/
def newMatrixOpt (w h : Int) : Option WMat :=
  if w < 1 ∨ h < 1 then none else (WMat.new w.toNat h.toNat).toOption

when_kernel Gzx.Gen.K16c.newSquareBitMatrix in
/-- `NewSquareBitMatrix(dimension)` hands `dimension` to `NewBitMatrix` twice and returns its results unchanged — for every
    callee; with the model's constructor it is `WMat.new d d` -/
theorem k_newSquareBitMatrix_eq {F S : Type} (ops : NumOps F) (env : Gen.K16c.newSquareBitMatrix_Env F S) (d : Int) :
    Gen.K16c.newSquareBitMatrix ops env d = .ok (env.NewBitMatrix d d) := rfl

when_kernel Gzx.Gen.K16c.newSquareBitMatrix in
theorem k_newSquareBitMatrix_model (d : Nat) (hd : 1 ≤ d) :
    Gen.K16c.newSquareBitMatrix floatOps ⟨newMatrixOpt⟩ (d : Int) = .ok (WMat.new d d).toOption := by
  rw [k_newSquareBitMatrix_eq]
  show Except.ok (newMatrixOpt (d : Int) (d : Int)) = _
  unfold newMatrixOpt
  have : ¬ ((d : Int) < 1 ∨ (d : Int) < 1) := by omega
  rw [if_neg this, Int.toNat_natCast]

when_kernel Gzx.Gen.K16c.newSquareBitMatrix in
example : Gen.K16c.newSquareBitMatrix ratOps ⟨newMatrixOpt⟩ 33 = .ok (some ⟨33, 33, 2, List.replicate 66 0⟩) := by decide
when_kernel Gzx.Gen.K16c.newSquareBitMatrix in
example : Gen.K16c.newSquareBitMatrix ratOps ⟨newMatrixOpt⟩ 0 = .ok none := by decide

end Gzx.Obligations.K16c
