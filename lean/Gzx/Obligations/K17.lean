/-
  K17 — binariser arithmetic of the root package regenerated from /repo on every run (`Gzx.Gen.K17`, translator kinds `funcm` /
  `region` with the k17k20 extension) and proved equal to the hand-written `Model/Binarizer.lean`, the model the C17 theorems
  (`Properties/C17*.lean`) are about.  Every theorem is for ALL arguments of the stated types (bucket counts / luminances are
  natural numbers, as a histogram / a byte slice holds them).
-/
import Gzx.Gen.K17
import Gzx.KernelGuard
import Gzx.Proofs.K17
namespace Gzx.Obligations.K17
open Gzx Gzx.GoM Gzx.Bits Gzx.GoVal Gzx.Binarizer Gzx.K17

/-! ## `GlobalHistogramBinarizer.estimateBlackPoint` -/

theorem words_append_getElem (pre : List Nat) (c : Nat) (suf : List Nat) :
    idx (words (pre ++ c :: suf)) ((pre.length : Nat) : Int) = .ok (c : Int) := by
  rw [idx_ofNat _ _ (by simp)]
  simp [words]

when_kernel Gzx.Gen.K17.estimateBlackPoint in
/-- loop 1 (tallest peak and `maxBucketCount`, both by the same strict comparison) -/
theorem ebp_loop1 : ∀ (suf pre : List Nat) (best : Nat × Int),
    loop (Gen.K17.estimateBlackPoint_body1 (words (pre ++ suf))) 1 suf.length ((pre.length : Nat) : Int)
        (best.2, ((best.1 : Nat) : Int), best.2) =
      .next (let r := argmaxStrict best (((List.range' pre.length suf.length).zip suf).map (fun (x, c) => (x, (c : Int))))
             (r.2, ((r.1 : Nat) : Int), r.2)) := by
  intro suf
  induction suf with
  | nil => intro pre best; simp [loop, argmaxStrict]
  | cons c suf ih =>
    intro pre best
    rw [List.length_cons, loop_succ]
    simp only [Gen.K17.estimateBlackPoint_body1, words_append_getElem, tryC_ok, List.range'_succ, List.zip_cons_cons,
      List.map_cons, argmaxStrict]
    have e : ((pre.length : Nat) : Int) + 1 = (((pre ++ [c]).length : Nat) : Int) := by simp
    have e2 : pre ++ c :: suf = (pre ++ [c]) ++ suf := by simp
    have e3 : pre.length + 1 = (pre ++ [c]).length := by simp
    by_cases h : (c : Int) > best.2
    · simp only [h, decide_true, if_true]
      rw [e, e2, e3]
      exact ih (pre ++ [c]) (pre.length, (c : Int))
    · simp only [h, decide_false, if_false]
      rw [e, e2, e3]
      exact ih (pre ++ [c]) best

when_kernel Gzx.Gen.K17.estimateBlackPoint in
/-- loop 2 (second peak: bucket count times squared distance from the first) -/
theorem ebp_loop2 (fp : Nat) : ∀ (suf pre : List Nat) (best : Nat × Int),
    loop (Gen.K17.estimateBlackPoint_body2 (words (pre ++ suf)) (fp : Int)) 1 suf.length ((pre.length : Nat) : Int)
        (((best.1 : Nat) : Int), best.2) =
      .next (let r := argmaxStrict best (((List.range' pre.length suf.length).zip suf).map
                (fun (x, c) => (x, ((c * sqDist x fp : Nat) : Int))))
             (((r.1 : Nat) : Int), r.2)) := by
  intro suf
  induction suf with
  | nil => intro pre best; simp [loop, argmaxStrict]
  | cons c suf ih =>
    intro pre best
    rw [List.length_cons, loop_succ]
    simp only [Gen.K17.estimateBlackPoint_body2, words_append_getElem, tryC_ok, List.range'_succ, List.zip_cons_cons,
      List.map_cons, argmaxStrict]
    have e : ((pre.length : Nat) : Int) + 1 = (((pre ++ [c]).length : Nat) : Int) := by simp
    have e2 : pre ++ c :: suf = (pre ++ [c]) ++ suf := by simp
    have e3 : pre.length + 1 = (pre ++ [c]).length := by simp
    have es : (c : Int) * (((pre.length : Nat) : Int) - (fp : Int)) * (((pre.length : Nat) : Int) - (fp : Int)) =
        ((c * sqDist pre.length fp : Nat) : Int) := by
      rw [Int.mul_assoc, sq_cast, Int.natCast_mul]
    rw [es]
    by_cases h : ((c * sqDist pre.length fp : Nat) : Int) > best.2
    · simp only [h, decide_true, if_true]
      rw [e, e2, e3]
      exact ih (pre ++ [c]) (pre.length, ((c * sqDist pre.length fp : Nat) : Int))
    · simp only [h, decide_false, if_false]
      rw [e, e2, e3]
      exact ih (pre ++ [c]) best

/-- the score of a valley candidate -/
def valleyScore (fp sp : Nat) (mbc : Int) (p : Nat × Nat) : Nat × Int :=
  (p.1, ((p.1 - fp) * (p.1 - fp) * (sp - p.1) : Nat) * (mbc - (p.2 : Int)))

when_kernel Gzx.Gen.K17.estimateBlackPoint in
/-- loop 3 (the valley, scanning from the second peak down to the first) -/
theorem ebp_loop3 (bs : List Nat) (fp sp : Nat) (mbc : Int) (hsp : sp ≤ bs.length) :
    ∀ (m : Nat) (best : Nat × Int), fp + m + 1 ≤ sp →
      loop (Gen.K17.estimateBlackPoint_body3 (words bs) mbc (fp : Int) (sp : Int)) (-1) m (((fp + m : Nat) : Int))
          (((best.1 : Nat) : Int), best.2) =
        .next (let r := argmaxStrict best ((((indexed bs).drop (fp + 1)).take m).reverse.map (valleyScore fp sp mbc))
               (((r.1 : Nat) : Int), r.2)) := by
  intro m
  induction m with
  | zero => intro best _; simp [loop, argmaxStrict]
  | succ m ih =>
    intro best hm
    have hlen := indexed_length bs
    have hlt : m < ((indexed bs).drop (fp + 1)).length := by simp [hlen]; omega
    rw [loop_succ, List.take_succ_eq_append_getElem hlt, List.reverse_append]
    simp only [List.reverse_cons, List.reverse_nil, List.nil_append, List.cons_append, List.map_cons, argmaxStrict,
      List.getElem_drop, indexed_getElem, valleyScore]
    simp only [Gen.K17.estimateBlackPoint_body3]
    have hi : fp + (m + 1) < bs.length := by omega
    rw [show (((fp + (m + 1) : Nat) : Int)) = ((fp + 1 + m : Nat) : Int) by omega,
      idx_words bs _ (fp + 1 + m) rfl, show wordAt bs (fp + 1 + m) = .ok bs[fp + 1 + m] by
        unfold wordAt; rw [List.getElem?_eq_getElem (by omega)]]
    simp only [Except.map, tryC_ok]
    have es : ((((fp + 1 + m : Nat) : Int) - (fp : Int)) * (((fp + 1 + m : Nat) : Int) - (fp : Int)) *
        ((sp : Int) - ((fp + 1 + m : Nat) : Int))) * (mbc - Int.ofNat bs[fp + 1 + m]) =
        (((fp + 1 + m - fp) * (fp + 1 + m - fp) * (sp - (fp + 1 + m)) : Nat) : Int) * (mbc - (bs[fp + 1 + m] : Int)) := by
      rw [Int.natCast_mul, Int.natCast_mul, Int.natCast_sub (by omega), Int.natCast_sub (by omega)]
      rfl
    rw [es]
    have e : ((fp + 1 + m : Nat) : Int) + -1 = ((fp + m : Nat) : Int) := by omega
    by_cases h : (((fp + 1 + m - fp) * (fp + 1 + m - fp) * (sp - (fp + 1 + m)) : Nat) : Int) * (mbc - (bs[fp + 1 + m] : Int)) > best.2
    · simp only [h, decide_true, if_true, e]
      exact ih (fp + 1 + m, _) (by omega)
    · simp only [h, decide_false, if_false, e]
      exact ih best (by omega)

/-- what the kernel must return for a result of the model: `(blackPoint, failed)` -/
def expEBP : Res Nat → Res (Int × Bool)
  | .ok v => .ok ((v : Int), false)
  | .error _ => .ok (0, true)

when_kernel Gzx.Gen.K17.estimateBlackPoint in
/-- `estimateBlackPoint(buckets)` = `Binarizer.estimateBlackPoint`: the two peak searches, the swap, the contrast rule
    `secondPeak - firstPeak <= numBuckets/16` (NotFound), the valley search from the right, `bestValley << 3` —
    for every histogram (any number of buckets, any counts). -/
theorem k_estimateBlackPoint_eq (bs : List Nat) :
    Gen.K17.estimateBlackPoint (words bs) = expEBP (Binarizer.estimateBlackPoint bs) := by
  simp only [Gen.K17.estimateBlackPoint, Binarizer.estimateBlackPoint]
  have hl : tripUp 0 (len (words bs)) 1 = bs.length := by rw [tripUp_one]; simp [len]
  have hidx : indexed bs = (List.range' 0 bs.length).zip bs := by simp [indexed, List.range_eq_range']
  have h1 := ebp_loop1 bs [] (0, 0)
  simp only [List.nil_append, List.length_nil] at h1
  have h1' : loop (Gen.K17.estimateBlackPoint_body1 (words bs)) 1 bs.length 0 (0, 0, 0) = _ := h1
  rw [hl, h1']
  simp only [next_thenR]
  rw [← hidx]
  generalize hfirst : argmaxStrict (0, 0) ((indexed bs).map (fun (x, c) => (x, (c : Int)))) = first
  have h2 := ebp_loop2 first.1 bs [] (0, 0)
  simp only [List.nil_append, List.length_nil] at h2
  have h2' : loop (Gen.K17.estimateBlackPoint_body2 (words bs) ((first.1 : Nat) : Int)) 1 bs.length 0 (0, 0) = _ := h2
  rw [h2']
  simp only [next_thenR]
  rw [← hidx]
  generalize hsecond : argmaxStrict (0, 0) ((indexed bs).map (fun (x, c) => (x, ((c * sqDist x first.1 : Nat) : Int)))) = second
  -- the peaks are indices of the histogram (or 0)
  have hf : first.1 = 0 ∨ first.1 < bs.length := by
    rw [← hfirst]
    exact argmaxStrict_fst _ bs.length (by
      intro p hp
      obtain ⟨q, hq, rfl⟩ := List.mem_map.mp hp
      exact mem_indexed_lt bs q hq) (0, 0)
  have hs : second.1 = 0 ∨ second.1 < bs.length := by
    rw [← hsecond]
    exact argmaxStrict_fst _ bs.length (by
      intro p hp
      obtain ⟨q, hq, rfl⟩ := List.mem_map.mp hp
      exact mem_indexed_lt bs q hq) (0, 0)
  -- the swap
  have hswap : (if decide (((first.1 : Nat) : Int) > ((second.1 : Nat) : Int)) = true then
        (((second.1 : Nat) : Int), ((first.1 : Nat) : Int)) else (((first.1 : Nat) : Int), ((second.1 : Nat) : Int))) =
      (((min first.1 second.1 : Nat) : Int), ((max first.1 second.1 : Nat) : Int)) := by
    by_cases h : first.1 > second.1
    · have : ((first.1 : Nat) : Int) > ((second.1 : Nat) : Int) := by omega
      simp [this]; omega
    · have : ¬ ((first.1 : Nat) : Int) > ((second.1 : Nat) : Int) := by omega
      simp [this]; omega
  simp only [hswap]
  generalize hfp : min first.1 second.1 = fp
  generalize hsp : max first.1 second.1 = sp
  have hfs : fp ≤ sp := by omega
  have hspn : sp = 0 ∨ sp < bs.length := by omega
  have hlen : len (words bs) = (bs.length : Int) := len_words bs
  rw [hlen]
  by_cases hc : sp - fp ≤ bs.length / 16
  · have : ((sp : Nat) : Int) - ((fp : Nat) : Int) ≤ Int.tdiv (bs.length : Int) 16 := by
      rw [Int.tdiv_eq_ediv_of_nonneg (by omega)]; omega
    rw [if_pos (decide_eq_true this), if_pos hc]; rfl
  · have : ¬ ((sp : Nat) : Int) - ((fp : Nat) : Int) ≤ Int.tdiv (bs.length : Int) 16 := by
      rw [Int.tdiv_eq_ediv_of_nonneg (by omega)]; omega
    simp only [hc, this, decide_false, if_false]
    have hlt : fp < sp := by omega
    have hspn' : sp ≤ bs.length := by omega
    rw [cands_eq bs fp sp hspn' hlt]
    have h3 := ebp_loop3 bs fp sp first.2 hspn' (sp - fp - 1) (sp - 1, -1) (by omega)
    have e1 : ((fp + (sp - fp - 1) : Nat) : Int) = (sp : Int) - 1 := by omega
    have e2 : (((sp - 1 : Nat)) : Int) = (sp : Int) - 1 := by omega
    have e3 : tripDown ((sp : Int) - 1) (fp : Int) 1 = sp - fp - 1 := by rw [tripDown_one]; omega
    rw [e1] at h3
    simp only [e2] at h3
    rw [e3, h3]
    simp only [next_thenR, expEBP]
    have hmap : ∀ l : List (Nat × Nat), l.map (valleyScore fp sp first.2) =
        l.map (fun (x, c) => (x, ((x - fp) * (x - fp) * (sp - x) : Nat) * (first.2 - (c : Int)))) := by
      intro l; rfl
    rw [hmap]
    simp only [Bool.false_eq_true, if_false]
    congr 2
    rw [show (3 : Int) = ((3 : Nat) : Int) from rfl, ishl_natCast, Nat.shiftLeft_eq]

-- non-vacuity: peaks at buckets 2 and 5 of 8 → valley 4 → black point 32; an empty histogram → NotFound
when_kernel Gzx.Gen.K17.estimateBlackPoint in
example : Gen.K17.estimateBlackPoint (words [0, 0, 9, 1, 0, 7, 0, 0]) = .ok (32, false) := by decide +kernel
when_kernel Gzx.Gen.K17.estimateBlackPoint in
example : Gen.K17.estimateBlackPoint (words [0, 0, 0, 0, 0, 0, 0, 0]) = .ok (0, true) := by decide +kernel

/-! ## `GlobalHistogramBinarizer.initArrays` -/

when_kernel Gzx.Gen.K17.initArrays in
/-- `initArrays(luminanceSize)`: a scratch row shorter than the request is replaced by `make([]byte, luminanceSize)`, and ALL 32
    buckets are zeroed (index panic on a histogram with fewer buckets) — the precondition of every histogram the two
    `GetBlack…` methods build. -/
theorem k_initArrays_eq (lum bk : List Int) (n : Nat) :
    Gen.K17.initArrays lum bk (n : Int) =
      if bk.length < 32 then .error oob
      else .ok (if lum.length < n then List.replicate n 0 else lum, List.replicate 32 0 ++ bk.drop 32) := by
  simp only [Gen.K17.initArrays]
  have hfirst : ∀ k : List Int → Res (List Int × List Int),
      ((if decide (len lum < (n : Int)) = true then tryC (mk (n : Int)) fun t1 => Ctl.next t1 else Ctl.next lum :
          Ctl (List Int) (List Int × List Int))).thenR k = k (if lum.length < n then List.replicate n 0 else lum) := by
    intro k
    by_cases h : lum.length < n
    · have : len lum < (n : Int) := by simp [len]; omega
      have hm : mk (n : Int) = .ok (List.replicate n 0) := by
        unfold mk; simp
      simp [h, this, hm]
    · have : ¬ len lum < (n : Int) := by simp [len]; omega
      simp [h, this]
  rw [hfirst]
  rw [loop_up_fold' (fun (t : List Int) => t) (fun (t : List Int) (i : Nat) => setIdx t (i : Int) 0) 0 32 bk rfl
        (by rw [tripUp_one]; rfl) (by omega)]
  · by_cases hb : bk.length < 32
    · have he : (List.range' 0 32).foldlM (fun (t : List Int) (i : Nat) => setIdx t (i : Int) 0) bk = .error oob :=
        K17.foldlM_range_error _ bk _ bk.length 32 oob hb (foldlM_setIdx_prefix 0 bk bk.length (Nat.le_refl _))
          (by rw [setIdx_ge]; simp)
      simp [he, hb, Except.map]
    · rw [foldlM_setIdx_prefix 0 bk 32 (by omega)]
      simp [hb, Except.map]
  · intro i _ _ t
    simp only [Gen.K17.initArrays_body1]
    cases setIdx t (i : Int) 0 <;> rfl

/-! ## the bucket-filling loop of `GetBlackRow` -/

when_kernel Gzx.Gen.K17.rowHistogram in
/-- `for x := 0; x < width; x++ { localBuckets[(localLuminances[x]&0xff)>>LUMINANCE_SHIFT]++ }` on the zeroed histogram that
    `initArrays` leaves = `Binarizer.histogram` of the first `width` luminances (index panic on a shorter row) -/
theorem k_rowHistogram_eq (lum : List Nat) (width : Nat) :
    Gen.K17.rowHistogram (words (histogram [])) width (bytes lum) =
      if lum.length < width then .error oob else .ok (words (histogram (lum.take width))) := by
  simp only [Gen.K17.rowHistogram]
  rw [loop_up_fold' words (K17.histStep lum) 0 width (histogram []) rfl (by rw [tripUp_one]; omega) (by omega)]
  · rw [K17.foldlM_hist]
    by_cases h : lum.length < width
    · simp [h, Except.map]
    · simp [h, Except.map]
  · intro x _ _ acc
    simp only [Gen.K17.rowHistogram_body1, K17.histStep]
    rw [bytes, idx_bytes]
    cases lum[x]? with
    | none => rfl
    | some p =>
      simp only [tryC_ok]
      have eb : ishr (iand ((p : Nat) : Int) 255) 3 = ((bucketOf p : Nat) : Int) := by
        rw [show (255 : Int) = ((255 : Nat) : Int) from rfl, iand_natCast, show (3 : Int) = ((3 : Nat) : Int) from rfl,
          ishr_natCast, Nat.shiftRight_eq_div_pow]
        have : p &&& 255 = p % 256 := Nat.and_two_pow_sub_one_eq_mod p 8
        rw [this]; rfl
      rw [eb, updC acc (bucketOf p) (· + 1) _ rfl rfl (fun w => by simp)]
      cases updWord acc (bucketOf p) (· + 1) <;> rfl

when_kernel Gzx.Gen.K17.rowHistogram in
example : Gen.K17.rowHistogram (words (histogram [])) 3 (bytes [0, 9, 255]) =
    .ok (words ((List.replicate 32 0).set 0 1 |>.set 1 1 |>.set 31 1)) := by decide +kernel

end Gzx.Obligations.K17
