/-
  K17 (rectangle scans) — `HybridBinarizer.thresholdBlock` and the final loop of `GlobalHistogramBinarizer.GetBlackMatrix`,
  regenerated from /repo on every run together with the `BitMatrix.Set` they call, proved equal to the pixel-by-pixel mirror
  `K17.rectW` (same checked reads, same `Set` calls on the word slice, same panics) for all arguments, and through
  `K17.rectW_agrees` to `Binarizer.thresholdBlock` / `Binarizer.scanRect`, the models of `Properties/C17*.lean`.
-/
import Gzx.Gen.K17
import Gzx.KernelGuard
import Gzx.Proofs.K17
namespace Gzx.Obligations.K17Hyb
open Gzx Gzx.GoM Gzx.Bits Gzx.GoVal Gzx.Binarizer Gzx.K17

variable {σ ρ τ α : Type}

/-- a counted loop that also carries a value determined by the iteration number (`offset += stride`) -/
theorem loop_up_fold_aux (R : τ → σ) (aux : Nat → α) (body : Int → σ × α → Ctl (σ × α) ρ) (f : τ → Nat → Res τ) :
    ∀ (n a : Nat) (t : τ),
      (∀ i, a ≤ i → i < a + n → ∀ t, body (i : Int) (R t, aux i) =
        match f t i with
        | .ok t' => .next (R t', aux (i + 1))
        | .error e => .panic e) →
      loop body 1 n (a : Int) (R t, aux a) =
        match (List.range' a n).foldlM f t with
        | .ok t' => .next (R t', aux (a + n))
        | .error e => .panic e := by
  intro n
  induction n with
  | zero => intro a t _; simp [loop, pure, Except.pure]
  | succ n ih =>
    intro a t hb
    rw [loop_succ, hb a (Nat.le_refl a) (by omega) t]
    simp only [List.range', List.foldlM, bind, Except.bind]
    cases hf : f t a with
    | error e => rfl
    | ok t' =>
      simp only []
      have e : (a : Int) + 1 = ((a + 1 : Nat) : Int) := by omega
      rw [e, show a + (n + 1) = (a + 1) + n by omega]
      exact ih (a + 1) t' (fun i h1 h2 => hb i (by omega) (by omega))

when_kernel Gzx.Gen.K17.matrixSet in
/-- `BitMatrix.Set(x, y)` (the copy of the kernel that the K17 callers use) = `K17.setW` -/
theorem k_matrixSet_eq (rs : Nat) (ws : List Nat) (x y : Nat) :
    Gen.K17.matrixSet rs (words ws) x y = (setW rs ws x y).map words := by
  simp only [Gen.K17.matrixSet, setW]
  rw [updR ws (y * rs + x / 32) (fun w => w ||| 1 <<< (x % 32))]
  · cases updWord ws (y * rs + x / 32) _ <;> rfl
  · gonorm; omega
  · gonorm; omega
  · intro w; gonorm
    rw [bit_natCast _ (x % 32) (by omega) (by omega), ior_natCast]

theorem byte_and (p : Nat) : iand (Int.ofNat p) 255 = ((p % 256 : Nat) : Int) := by
  rw [show (255 : Int) = ((255 : Nat) : Int) from rfl, show Int.ofNat p = (p : Int) from rfl, iand_natCast]
  have : p &&& 255 = p % 256 := Nat.and_two_pow_sub_one_eq_mod p 8
  rw [this]

when_kernel Gzx.Gen.K17.thresholdBlock in
/-- one pixel of `thresholdBlock` -/
theorem k_thresholdBlock_cell (lum : List Nat) (xo yo thr w rs yy xx : Nat) (ws : List Nat) :
    Gen.K17.thresholdBlock_body2 (bytes lum) xo yo thr rs (((yo * w + xo + yy * w : Nat)) : Int) yy (xx : Int) (words ws) =
      ofRes ((cellW lum w xo yo (fun p => decide (p ≤ thr)) rs yy ws xx).map words) := by
  simp only [Gen.K17.thresholdBlock_body2, cellW]
  have ei : ((yo * w + xo + yy * w : Nat) : Int) + (xx : Int) = (((yo + yy) * w + xo + xx : Nat) : Int) := by
    rw [Nat.add_mul]; omega
  rw [ei, bytes, idx_bytes]
  cases lum[(yo + yy) * w + xo + xx]? with
  | none => rfl
  | some p =>
    simp only [tryC_ok]
    rw [show ((p : Nat) : Int) = Int.ofNat p from rfl, byte_and]
    by_cases ht : p % 256 ≤ thr
    · have : ((p % 256 : Nat) : Int) ≤ (thr : Int) := by omega
      simp only [ht, this, decide_true, if_true]
      rw [show (xo : Int) + (xx : Int) = ((xo + xx : Nat) : Int) by omega,
        show (yo : Int) + (yy : Int) = ((yo + yy : Nat) : Int) by omega, k_matrixSet_eq]
      cases setW rs ws (xo + xx) (yo + yy) <;> rfl
    · have : ¬ ((p % 256 : Nat) : Int) ≤ (thr : Int) := by omega
      simp only [ht, this, decide_false, Bool.false_eq_true, if_false]
      rfl

when_kernel Gzx.Gen.K17.thresholdBlock in
/-- `thresholdBlock(luminances, xoffset, yoffset, threshold, stride, matrix)` = the 8x8 rectangle scan with `pixel <= threshold`
    (offset `yoffset*stride + xoffset`, advanced by `stride` per row) -/
theorem k_thresholdBlock_eq (lum : List Nat) (xo yo thr w rs : Nat) (ws : List Nat) :
    Gen.K17.thresholdBlock (bytes lum) xo yo thr w rs (words ws) =
      (rectW lum w xo yo 8 8 (fun p => decide (p ≤ thr)) rs ws).map words := by
  simp only [Gen.K17.thresholdBlock, rectW]
  have h := loop_up_fold_aux (ρ := List Int) words (fun i => (((yo * w + xo + i * w : Nat)) : Int))
    (Gen.K17.thresholdBlock_body1 (bytes lum) xo yo thr w rs) (rowW lum w xo yo 8 (fun p => decide (p ≤ thr)) rs) 8 0 ws
    (by
      intro yy _ _ t
      simp only [Gen.K17.thresholdBlock_body1, rowW]
      rw [loop_up_fold' words (cellW lum w xo yo (fun p => decide (p ≤ thr)) rs yy) 0 8 t rfl (by rw [tripUp_one]; rfl) (by omega)
            (fun xx _ _ t => k_thresholdBlock_cell lum xo yo thr w rs yy xx t)]
      cases (List.range' 0 8).foldlM (cellW lum w xo yo (fun p => decide (p ≤ thr)) rs yy) t with
      | error e => rfl
      | ok t' =>
        simp only [Except.map, ofRes_ok, next_thenC]
        congr 2
        rw [Nat.add_mul]; omega)
  have e0 : (((yo * w + xo + 0 * w : Nat)) : Int) = (yo : Int) * (w : Int) + (xo : Int) := by simp [Int.natCast_mul]
  rw [e0] at h
  rw [show tripUp 0 8 1 = 8 from rfl, show (0 : Int) = ((0 : Nat) : Int) from rfl, h]
  cases (List.range' 0 8).foldlM (rowW lum w xo yo 8 (fun p => decide (p ≤ thr)) rs) ws <;> rfl

when_kernel Gzx.Gen.K17.thresholdBlock in
/-- **thresholdBlock, Go source to model**: the regenerated function performs exactly the `Set` calls of
    `Binarizer.thresholdBlock` in the same order (or panics when the model reports a failed read) -/
theorem k_thresholdBlock_model (lum : List Nat) (xo yo thr w rs : Nat) (ws : List Nat) :
    ∃ r, Gen.K17.thresholdBlock (bytes lum) xo yo thr w rs (words ws) = r.map words ∧
      ScanAgrees rs ws r (Binarizer.thresholdBlock lum.toArray w xo yo thr) :=
  ⟨_, k_thresholdBlock_eq lum xo yo thr w rs ws, rectW_agrees lum w xo yo 8 8 _ rs ws⟩

when_kernel Gzx.Gen.K17.matrixThreshold in
/-- one pixel of the global `GetBlackMatrix` loop -/
theorem k_matrixThreshold_cell (lum : List Nat) (w bp rs yy xx : Nat) (ws : List Nat) :
    Gen.K17.matrixThreshold_body2 bp rs (bytes lum) yy ((yy : Int) * (w : Int)) (xx : Int) (words ws) =
      ofRes ((cellW lum w 0 0 (fun p => decide (p < bp)) rs yy ws xx).map words) := by
  simp only [Gen.K17.matrixThreshold_body2, cellW]
  have ei : (yy : Int) * (w : Int) + (xx : Int) = (((0 + yy) * w + 0 + xx : Nat) : Int) := by
    simp [Int.natCast_mul]
  rw [ei, bytes, idx_bytes]
  cases lum[(0 + yy) * w + 0 + xx]? with
  | none => rfl
  | some p =>
    simp only [tryC_ok]
    rw [show ((p : Nat) : Int) = Int.ofNat p from rfl, byte_and]
    by_cases ht : p % 256 < bp
    · have : ((p % 256 : Nat) : Int) < (bp : Int) := by omega
      simp only [ht, this, decide_true, if_true]
      rw [k_matrixSet_eq, show 0 + xx = xx by omega, show 0 + yy = yy by omega]
      cases setW rs ws xx yy <;> rfl
    · have : ¬ ((p % 256 : Nat) : Int) < (bp : Int) := by omega
      simp only [ht, this, decide_false, Bool.false_eq_true, if_false]
      rfl

when_kernel Gzx.Gen.K17.matrixThreshold in
/-- the final loop of `GlobalHistogramBinarizer.GetBlackMatrix` (`pixel < blackPoint` over the whole `GetMatrix()` array,
    offset `y*width`) = the `width x height` rectangle scan -/
theorem k_matrixThreshold_eq (lum : List Nat) (w h bp rs : Nat) (ws : List Nat) :
    Gen.K17.matrixThreshold w h rs (words ws) bp (bytes lum) =
      (rectW lum w 0 0 w h (fun p => decide (p < bp)) rs ws).map words := by
  simp only [Gen.K17.matrixThreshold, rectW]
  rw [loop_up_fold' words (rowW lum w 0 0 w (fun p => decide (p < bp)) rs) 0 h ws rfl (by rw [tripUp_one]; omega) (by omega)]
  · cases (List.range' 0 h).foldlM (rowW lum w 0 0 w (fun p => decide (p < bp)) rs) ws <;> rfl
  · intro yy _ _ t
    simp only [Gen.K17.matrixThreshold_body1, rowW]
    rw [loop_up_fold' words (cellW lum w 0 0 (fun p => decide (p < bp)) rs yy) 0 w t rfl (by rw [tripUp_one]; omega) (by omega)
          (fun xx _ _ t => k_matrixThreshold_cell lum w bp rs yy xx t)]
    cases (List.range' 0 w).foldlM (cellW lum w 0 0 (fun p => decide (p < bp)) rs yy) t <;> rfl

when_kernel Gzx.Gen.K17.matrixThreshold in
/-- **global threshold loop, Go source to model**: exactly the `Set` calls of `Binarizer.scanRect … (· < blackPoint)` -/
theorem k_matrixThreshold_model (lum : List Nat) (w h bp rs : Nat) (ws : List Nat) :
    ∃ r, Gen.K17.matrixThreshold w h rs (words ws) bp (bytes lum) = r.map words ∧
      ScanAgrees rs ws r (Binarizer.scanRect lum.toArray w 0 0 w h (fun p => decide (p < bp))) :=
  ⟨_, k_matrixThreshold_eq lum w h bp rs ws, rectW_agrees lum w 0 0 w h _ rs ws⟩

-- non-vacuity: a 2x2 image, black point 100: pixels (0,0) and (1,1) are set in a one-word-per-row matrix
when_kernel Gzx.Gen.K17.matrixThreshold in
example : Gen.K17.matrixThreshold 2 2 1 (words [0, 0]) 100 (bytes [10, 200, 150, 99]) = .ok (words [1, 2]) := by decide

end Gzx.Obligations.K17Hyb
