/-
  K17 (luminance sources) — index / validation arithmetic of rgb_luminance_source.go, planar_yuv_luminance_source.go,
  inverted_luminance_source.go and the hybrid / global binarisers' small helpers, regenerated from /repo on every run
  (`Gzx.Gen.K17`, kinds `funcm` / `region`; `F@if:k` is the condition of the k-th top-level `if` of F) and proved equal to
  what `Model/Luminance.lean` / `Model/Binarizer.lean` compute.  Conventions: byte slices are `bytes l` for `l : List Nat`.
-/
import Gzx.Gen.K17
import Gzx.KernelGuard
import Gzx.Proofs.K17
import Gzx.Model.Luminance
namespace Gzx.Obligations.K17Lum
open Gzx Gzx.GoM Gzx.GoVal Gzx.Luminance

/-! ## argument validation (`Crop`, `GetRow`, `NewPlanarYUVLuminanceSource`) -/

/-- the rectangle test of `Crop` / of the YUV constructor against a `W x H` frame, as the models state it -/
abbrev rectRejected (W H : Nat) (l t w h : Int) : Prop := w < 0 ∨ h < 0 ∨ l < 0 ∨ t < 0 ∨ l + w > W ∨ t + h > H

when_kernel Gzx.Gen.K17.rgbCropRejects in
/-- `RGBLuminanceSource.Crop`'s test (also used by the Go-image source): all six comparisons, against the CURRENT view -/
theorem k_rgbCropRejects_eq (W H : Nat) (l t w h : Int) :
    Gen.K17.rgbCropRejects W H l t w h = .ok (decide (rectRejected W H l t w h)) := by
  simp only [Gen.K17.rgbCropRejects, rectRejected]
  congr 1
  rw [Bool.eq_iff_iff]
  simp only [Bool.or_eq_true, decide_eq_true_eq]
  grind

when_kernel Gzx.Gen.K17.yuvCropRejects in
theorem k_yuvCropRejects_eq (W H : Nat) (l t w h : Int) :
    Gen.K17.yuvCropRejects W H l t w h = .ok (decide (rectRejected W H l t w h)) := by
  simp only [Gen.K17.yuvCropRejects, rectRejected]
  congr 1
  rw [Bool.eq_iff_iff]
  simp only [Bool.or_eq_true, decide_eq_true_eq]
  grind

when_kernel Gzx.Gen.K17.yuvNewRejects in
/-- `NewPlanarYUVLuminanceSource`'s test against the data frame -/
theorem k_yuvNewRejects_eq (dataW dataH : Nat) (l t w h : Int) :
    Gen.K17.yuvNewRejects dataW dataH l t w h = .ok (decide (rectRejected dataW dataH l t w h)) := by
  simp only [Gen.K17.yuvNewRejects, rectRejected]
  congr 1
  rw [Bool.eq_iff_iff]
  simp only [Bool.or_eq_true, decide_eq_true_eq]
  grind

/-- the model's `Crop` (RGB / Go-image views) rejects exactly the rectangles the regenerated test rejects -/
theorem cropI_illegal_iff (v : View) (hk : v.kind ≠ .yuv) (l t w h : Int) :
    cropI v l t w h = villegal ↔ rectRejected v.w v.h l t w h := by
  unfold cropI crop
  by_cases hw : w < 0 ∨ h < 0
  · simp only [hw, if_true, true_iff]; grind
  · simp only [hw, if_false]
    have e1 : ((w.toNat : Nat) : Int) = w := by omega
    have e2 : ((h.toNat : Nat) : Int) = h := by omega
    rw [e1, e2]
    by_cases hc : l < 0 ∨ t < 0 ∨ l + w > v.w ∨ t + h > v.h
    · simp only [hc, if_true, true_iff]; grind
    · simp only [hc, if_false]
      constructor
      · intro hh
        cases hkind : v.kind <;> simp [hkind, villegal] at hh hk
      · intro hh; grind

/-- … and the model's YUV constructor -/
theorem newYUV_illegal_iff (data : List Nat) (dataW dataH : Nat) (l t : Int) (w h : Nat) :
    newYUV data dataW dataH l t w h false = villegal ↔ rectRejected dataW dataH l t w h := by
  unfold newYUV
  by_cases hc : l < 0 ∨ t < 0 ∨ l + w > dataW ∨ t + h > dataH
  · simp only [hc, if_true, true_iff]; grind
  · simp only [hc, if_false]
    constructor
    · intro hh; simp [villegal] at hh
    · intro hh; grind

when_kernel Gzx.Gen.K17.rgbRowRejects in
/-- `GetRow`'s row test `y < 0 || y >= height` (as in `Luminance.baseGetRow`) -/
theorem k_rgbRowRejects_eq (H : Nat) (y : Int) : Gen.K17.rgbRowRejects H y = .ok (decide (y < 0 ∨ y ≥ H)) := by
  simp only [Gen.K17.rgbRowRejects]
  congr 1
  rw [Bool.eq_iff_iff]
  simp only [Bool.or_eq_true, decide_eq_true_eq]

when_kernel Gzx.Gen.K17.yuvRowRejects in
theorem k_yuvRowRejects_eq (H : Nat) (y : Int) : Gen.K17.yuvRowRejects H y = .ok (decide (y < 0 ∨ y ≥ H)) := by
  simp only [Gen.K17.yuvRowRejects]
  congr 1
  rw [Bool.eq_iff_iff]
  simp only [Bool.or_eq_true, decide_eq_true_eq]

when_kernel Gzx.Gen.K17.rgbRowOffset in
/-- `GetRow`'s offset `(y+top)*dataWidth + left` (as in `Luminance.baseGetRow`) -/
theorem k_rgbRowOffset_eq (dataW left top y : Nat) :
    Gen.K17.rgbRowOffset dataW left top y = .ok (((y + top) * dataW + left : Nat) : Int) := by
  simp only [Gen.K17.rgbRowOffset]
  simp [Int.natCast_add, Int.natCast_mul]

when_kernel Gzx.Gen.K17.yuvRowOffset in
theorem k_yuvRowOffset_eq (dataW left top y : Nat) :
    Gen.K17.yuvRowOffset dataW left top y = .ok (((y + top) * dataW + left : Nat) : Int) := by
  simp only [Gen.K17.yuvRowOffset]
  simp [Int.natCast_add, Int.natCast_mul]

/-! ## the binarisers' small helpers -/

when_kernel Gzx.Gen.K17.cap in
/-- `HybridBinarizer.cap(value, min, max)` = `Binarizer.cap` -/
theorem k_cap_eq (v lo hi : Nat) : Gen.K17.cap v lo hi = .ok ((Binarizer.cap v lo hi : Nat) : Int) := by
  simp only [Gen.K17.cap, Binarizer.cap]
  by_cases h1 : v < lo
  · have : (v : Int) < lo := by omega
    simp [h1, this]
  · have h1' : ¬ (v : Int) < lo := by omega
    by_cases h2 : v > hi
    · have : (v : Int) > hi := by omega
      simp [h1, h1', h2, this]
    · have h2' : ¬ (v : Int) > hi := by omega
      simp [h1, h1', h2, h2']

when_kernel Gzx.Gen.K17.hybridUsesLocal in
/-- `HybridBinarizer.GetBlackMatrix`: the local method from 40x40 up (`MINIMUM_DIMENSION`), as `Binarizer.hybridSets` tests -/
theorem k_hybridUsesLocal_eq (w h : Nat) :
    Gen.K17.hybridUsesLocal w h = .ok (decide (w ≥ Binarizer.MINIMUM_DIMENSION ∧ h ≥ Binarizer.MINIMUM_DIMENSION)) := by
  simp only [Gen.K17.hybridUsesLocal, Binarizer.MINIMUM_DIMENSION]
  congr 1
  rw [Bool.eq_iff_iff]
  simp only [Bool.and_eq_true, decide_eq_true_eq]
  grind

/-! ## element loops: `InvertedLuminanceSource`, `NewRGBLuminanceSource` -/

/-- `255 - (b & 0xff)` as a byte -/
theorem inv_byte (b : Nat) (hb : b < 256) : wrap 8 (255 - iand (b : Int) 255) = ((inv255 b : Nat) : Int) := by
  have e1 : iand (b : Int) 255 = (b : Int) := by
    rw [show (255 : Int) = ((255 : Nat) : Int) from rfl, iand_natCast]
    have : b &&& 255 = b % 256 := Nat.and_two_pow_sub_one_eq_mod b 8
    rw [this, Nat.mod_eq_of_lt hb]
  have e2 : ((2 : Int) ^ 8) = 256 := by decide
  rw [e1, wrap_of_lt 8 _ (by omega) (by omega)]
  unfold inv255; omega

theorem map_inv_bytes (l : List Nat) (hl : ∀ b ∈ l, b < 256) :
    (bytes l).map (fun v => wrap 8 (255 - iand v 255)) = bytes (l.map inv255) := by
  induction l with
  | nil => rfl
  | cons b l ih =>
    simp only [bytes, List.map_cons, List.map_map] at ih ⊢
    rw [ih (fun x hx => hl x (List.mem_cons_of_mem _ hx))]
    congr 1
    exact inv_byte b (hl b List.mem_cons_self)

when_kernel Gzx.Gen.K17.invertMatrix in
/-- `InvertedLuminanceSource.GetMatrix`'s loop = the model's `(m.take (w*h)).map inv255`, index panic when the delegate's
    matrix is shorter than `w*h` (`Luminance.getMatrix`) -/
theorem k_invertMatrix_eq (m : List Nat) (hm : ∀ b ∈ m, b < 256) (n : Nat) :
    Gen.K17.invertMatrix (bytes m) n =
      if m.length < n then .error oob else .ok (bytes ((m.take n).map inv255)) := by
  simp only [Gen.K17.invertMatrix]
  rw [mk_words _ n rfl]
  simp only [tryR_ok]
  rw [loop_up_fold' (fun (t : List Int) => t) (K17.fillStep (bytes m) (fun v => wrap 8 (255 - iand v 255))) 0 n
        (words (List.replicate n 0)) rfl (by rw [tripUp_one]; omega) (by omega)]
  · rw [K17.foldlM_fill _ _ _ n (by simp)]
    have hl : (bytes m).length = m.length := bytes_length m
    rw [hl]
    by_cases h : m.length < n
    · simp [h, Except.map]
    · simp only [h, if_false, Except.map, ofRes_ok, next_thenR]
      congr 1
      have hd : (words (List.replicate n 0)).drop n = [] := by simp
      rw [hd, List.append_nil, bytes_take, map_inv_bytes _ (fun b hb => hm b (List.mem_of_mem_take hb))]
  · intro i _ _ t
    simp only [Gen.K17.invertMatrix_body1, K17.fillStep]
    cases idx (bytes m) (i : Int) with
    | error e => rfl
    | ok v =>
      simp only [tryC_ok]
      cases setIdx t (i : Int) (wrap 8 (255 - iand v 255)) <;> rfl

when_kernel Gzx.Gen.K17.invertRow in
/-- `InvertedLuminanceSource.GetRow`'s loop: the first `width` bytes of the delegate's row inverted in place, the tail of a
    longer buffer kept (`Luminance.getRow`); index panic on a shorter row -/
theorem k_invertRow_eq (r : List Nat) (hr : ∀ b ∈ r, b < 256) (w : Nat) :
    Gen.K17.invertRow (bytes r) w =
      if r.length < w then .error oob else .ok (bytes ((r.take w).map inv255 ++ r.drop w)) := by
  simp only [Gen.K17.invertRow]
  rw [loop_up_fold' (fun (t : List Int) => t) (K17.mapStep (fun v => wrap 8 (255 - iand v 255))) 0 w
        (bytes r) rfl (by rw [tripUp_one]; omega) (by omega)]
  · rw [K17.foldlM_mapInPlace _ _ w]
    have hl : (bytes r).length = r.length := bytes_length r
    rw [hl]
    by_cases h : r.length < w
    · simp [h, Except.map]
    · simp only [h, if_false, Except.map, ofRes_ok, next_thenR]
      congr 1
      rw [bytes_take, map_inv_bytes _ (fun b hb => hr b (List.mem_of_mem_take hb))]
      simp [bytes]
  · intro i _ _ t
    simp only [Gen.K17.invertRow_body1, K17.mapStep]
    cases idx t (i : Int) with
    | error e => rfl
    | ok v =>
      simp only [tryC_ok]
      cases setIdx t (i : Int) (wrap 8 (255 - iand v 255)) <;> rfl

theorem and_510 (q : Nat) : q &&& 510 = 2 * ((q / 2) % 256) := by
  have h1 : (q &&& 510) / 2 = (q / 2) &&& 255 := Nat.and_div_two
  have h2 : (q / 2) &&& 255 = (q / 2) % 256 := Nat.and_two_pow_sub_one_eq_mod (q / 2) 8
  have h3 : (q &&& 510) % 2 = 0 := by
    have := @Nat.and_mod_two_eq_one q 510
    have m := Nat.mod_two_eq_zero_or_one (q &&& 510)
    have : ¬ ((q &&& 510) % 2 = 1) := by rw [this]; omega
    omega
  omega

/-- the pixel formula of `NewRGBLuminanceSource` on a non-negative `int` pixel is `Luminance.lumOfRGBInt` -/
theorem rgb_pixel (p : Nat) :
    wrap 8 (Int.tdiv ((iand (ishr (p : Int) 16) 255 + iand (ishr (p : Int) 7) 510) + iand (p : Int) 255) 4) =
      ((lumOfRGBInt (p : Int) : Nat) : Int) := by
  rw [show (16 : Int) = ((16 : Nat) : Int) from rfl, show (7 : Int) = ((7 : Nat) : Int) from rfl, ishr_natCast, ishr_natCast,
    show (255 : Int) = ((255 : Nat) : Int) from rfl, show (510 : Int) = ((510 : Nat) : Int) from rfl,
    iand_natCast, iand_natCast, iand_natCast, Nat.shiftRight_eq_div_pow, Nat.shiftRight_eq_div_pow, and_510]
  have a1 : ∀ x : Nat, x &&& 255 = x % 256 := fun x => Nat.and_two_pow_sub_one_eq_mod x 8
  rw [a1, a1]
  have e2 : ((2 : Int) ^ 8) = 256 := by decide
  have e16 : (2 : Nat) ^ 16 = 65536 := by decide
  have e7 : (2 : Nat) ^ 7 = 128 := by decide
  rw [e16, e7, Int.tdiv_eq_ediv_of_nonneg (by omega), wrap_of_lt 8 _ (by omega) (by omega)]
  unfold lumOfRGBInt
  have d : p / 128 / 2 = p / 256 := by omega
  rw [d]
  simp only []
  have c1 : ((p : Int) / 65536) % 256 = ((p / 65536 % 256 : Nat) : Int) := by omega
  have c2 : ((p : Int) / 256) % 256 = ((p / 256 % 256 : Nat) : Int) := by omega
  have c3 : (p : Int) % 256 = ((p % 256 : Nat) : Int) := by omega
  rw [c1, c2, c3]
  have b1 : p / 65536 % 256 < 256 := Nat.mod_lt _ (by decide)
  have b2 : p / 256 % 256 < 256 := Nat.mod_lt _ (by decide)
  have b3 : p % 256 < 256 := Nat.mod_lt _ (by decide)
  generalize p / 65536 % 256 = a at *
  generalize p / 256 % 256 = b at *
  generalize p % 256 = c at *
  omega

theorem map_rgb_words (l : List Nat) :
    (words l).map (fun p => wrap 8 (Int.tdiv ((iand (ishr p 16) 255 + iand (ishr p 7) 510) + iand p 255) 4)) =
      bytes (l.map (fun (p : Nat) => lumOfRGBInt (p : Int))) := by
  induction l with
  | nil => rfl
  | cons b l ih =>
    simp only [bytes, words, List.map_cons, List.map_map] at ih ⊢
    rw [ih]
    congr 1
    exact rgb_pixel b

when_kernel Gzx.Gen.K17.rgbPixels in
/-- `NewRGBLuminanceSource`: `make([]byte, width*height)` and the green-favouring average of every pixel =
    `Luminance.lumOfRGBInt` (non-negative pixels, i.e. `0xAARRGGBB` in a 64-bit `int`); index panic for too few pixels -/
theorem k_rgbPixels_eq (w h : Nat) (px : List Nat) :
    Gen.K17.rgbPixels w h (words px) =
      if px.length < w * h then .error oob else .ok (bytes ((px.take (w * h)).map (fun (p : Nat) => lumOfRGBInt (p : Int)))) := by
  simp only [Gen.K17.rgbPixels]
  rw [mk_words _ (w * h) (by simp [Int.natCast_mul])]
  simp only [tryR_ok]
  rw [loop_up_fold' (fun (t : List Int) => t)
        (K17.fillStep (words px) (fun p => wrap 8 (Int.tdiv ((iand (ishr p 16) 255 + iand (ishr p 7) 510) + iand p 255) 4)))
        0 (w * h) (words (List.replicate (w * h) 0)) rfl (by rw [tripUp_one, ← Int.natCast_mul]; omega) (by omega)]
  · rw [K17.foldlM_fill _ _ _ (w * h) (by simp)]
    rw [words_length]
    by_cases hl : px.length < w * h
    · simp [hl, Except.map]
    · simp only [hl, if_false, Except.map, ofRes_ok, next_thenR]
      congr 1
      have hd : (words (List.replicate (w * h) 0)).drop (w * h) = [] := by simp
      rw [hd, List.append_nil, show (words px).take (w * h) = words (px.take (w * h)) by simp [words, List.map_take],
        map_rgb_words]
  · intro i _ _ t
    simp only [Gen.K17.rgbPixels_body1, K17.fillStep]
    cases idx (words px) (i : Int) with
    | error e => rfl
    | ok v =>
      simp only [tryC_ok]
      cases setIdx t (i : Int) _ <;> rfl

-- non-vacuity
when_kernel Gzx.Gen.K17.rgbPixels in
example : Gen.K17.rgbPixels 2 1 (words [0xFFFFFFFF, 0xFF102030]) = .ok (bytes [255, 32]) := by decide
when_kernel Gzx.Gen.K17.invertRow in
example : Gen.K17.invertRow (bytes [0, 10, 255, 7]) 3 = .ok (bytes [255, 245, 0, 7]) := by decide
example : rectRejected 10 10 3 3 8 2 := by decide
example : ¬ rectRejected 10 10 3 3 7 7 := by decide

end Gzx.Obligations.K17Lum
