/-
  K17 (luminance sources) — index / validation arithmetic of rgb_luminance_source.go, planar_yuv_luminance_source.go,
  inverted_luminance_source.go and the hybrid / global binarisers' small helpers, regenerated from /repo on every run
  (`Gzx.Gen.K17`, kinds `funcm` / `region`; `F@if:k` is the condition of the k-th top-level `if` of F) and proved equal to
  what `Model/Luminance.lean` / `Model/Binarizer.lean` compute.  Conventions: byte slices are `bytes l` for `l : List Nat`.
-/
import Gzx.Gen.K17
import Gzx.KernelGuard
import Gzx.Proofs.K17
import Gzx.Model.Luminance
namespace Gzx.Obligations.K17Lum
open Gzx Gzx.GoM Gzx.GoVal Gzx.Luminance

/-! ## argument validation (`Crop`, `GetRow`, `NewPlanarYUVLuminanceSource`) -/

/-- the rectangle test of `Crop` / of the YUV constructor against a `W x H` frame, as the models state it -/
abbrev rectRejected (W H : Nat) (l t w h : Int) : Prop := w < 0 ∨ h < 0 ∨ l < 0 ∨ t < 0 ∨ l + w > W ∨ t + h > H

when_kernel Gzx.Gen.K17.rgbCropRejects in
/-- `RGBLuminanceSource.Crop`'s test (also used by the Go-image source): all six comparisons, against the CURRENT view -/
theorem k_rgbCropRejects_eq (W H : Nat) (l t w h : Int) :
    Gen.K17.rgbCropRejects W H l t w h = .ok (decide (rectRejected W H l t w h)) := by
  simp only [Gen.K17.rgbCropRejects, rectRejected]
  congr 1
  rw [Bool.eq_iff_iff]
  simp only [Bool.or_eq_true, decide_eq_true_eq]
  grind

when_kernel Gzx.Gen.K17.yuvCropRejects in
theorem k_yuvCropRejects_eq (W H : Nat) (l t w h : Int) :
    Gen.K17.yuvCropRejects W H l t w h = .ok (decide (rectRejected W H l t w h)) := by
  simp only [Gen.K17.yuvCropRejects, rectRejected]
  congr 1
  rw [Bool.eq_iff_iff]
  simp only [Bool.or_eq_true, decide_eq_true_eq]
  grind

when_kernel Gzx.Gen.K17.yuvNewRejects in
/-- `NewPlanarYUVLuminanceSource`'s test against the data frame -/
theorem k_yuvNewRejects_eq (dataW dataH : Nat) (l t w h : Int) :
    Gen.K17.yuvNewRejects dataW dataH l t w h = .ok (decide (rectRejected dataW dataH l t w h)) := by
  simp only [Gen.K17.yuvNewRejects, rectRejected]
  congr 1
  rw [Bool.eq_iff_iff]
  simp only [Bool.or_eq_true, decide_eq_true_eq]
  grind

/-- the model's `Crop` (RGB / Go-image views) rejects exactly the rectangles the regenerated test rejects -/
theorem cropI_illegal_iff (v : View) (hk : v.kind ≠ .yuv) (l t w h : Int) :
    cropI v l t w h = villegal ↔ rectRejected v.w v.h l t w h := by
  unfold cropI crop
  by_cases hw : w < 0 ∨ h < 0
  · simp only [hw, if_true, true_iff]; grind
  · simp only [hw, if_false]
    have e1 : ((w.toNat : Nat) : Int) = w := by omega
    have e2 : ((h.toNat : Nat) : Int) = h := by omega
    rw [e1, e2]
    by_cases hc : l < 0 ∨ t < 0 ∨ l + w > v.w ∨ t + h > v.h
    · simp only [hc, if_true, true_iff]; grind
    · simp only [hc, if_false]
      constructor
      · intro hh
        cases hkind : v.kind <;> simp [hkind, villegal] at hh hk
      · intro hh; grind

/-- … and the model's YUV constructor -/
theorem newYUV_illegal_iff (data : List Nat) (dataW dataH : Nat) (l t : Int) (w h : Nat) :
    newYUV data dataW dataH l t w h false = villegal ↔ rectRejected dataW dataH l t w h := by
  unfold newYUV
  by_cases hc : l < 0 ∨ t < 0 ∨ l + w > dataW ∨ t + h > dataH
  · simp only [hc, if_true, true_iff]; grind
  · simp only [hc, if_false]
    constructor
    · intro hh; simp [villegal] at hh
    · intro hh; grind

when_kernel Gzx.Gen.K17.rgbRowRejects in
/-- `GetRow`'s row test `y < 0 || y >= height` (as in `Luminance.baseGetRow`) -/
theorem k_rgbRowRejects_eq (H : Nat) (y : Int) : Gen.K17.rgbRowRejects H y = .ok (decide (y < 0 ∨ y ≥ H)) := by
  simp only [Gen.K17.rgbRowRejects]
  congr 1
  rw [Bool.eq_iff_iff]
  simp only [Bool.or_eq_true, decide_eq_true_eq]

when_kernel Gzx.Gen.K17.yuvRowRejects in
theorem k_yuvRowRejects_eq (H : Nat) (y : Int) : Gen.K17.yuvRowRejects H y = .ok (decide (y < 0 ∨ y ≥ H)) := by
  simp only [Gen.K17.yuvRowRejects]
  congr 1
  rw [Bool.eq_iff_iff]
  simp only [Bool.or_eq_true, decide_eq_true_eq]

when_kernel Gzx.Gen.K17.rgbRowOffset in
/-- `GetRow`'s offset `(y+top)*dataWidth + left` (as in `Luminance.baseGetRow`) -/
theorem k_rgbRowOffset_eq (dataW left top y : Nat) :
    Gen.K17.rgbRowOffset dataW left top y = .ok (((y + top) * dataW + left : Nat) : Int) := by
  simp only [Gen.K17.rgbRowOffset]
  simp [Int.natCast_add, Int.natCast_mul]

when_kernel Gzx.Gen.K17.yuvRowOffset in
theorem k_yuvRowOffset_eq (dataW left top y : Nat) :
    Gen.K17.yuvRowOffset dataW left top y = .ok (((y + top) * dataW + left : Nat) : Int) := by
  simp only [Gen.K17.yuvRowOffset]
  simp [Int.natCast_add, Int.natCast_mul]

/-! ## the binarisers' small helpers -/

when_kernel Gzx.Gen.K17.cap in
/-- `HybridBinarizer.cap(value, min, max)` = `Binarizer.cap` -/
theorem k_cap_eq (v lo hi : Nat) : Gen.K17.cap v lo hi = .ok ((Binarizer.cap v lo hi : Nat) : Int) := by
  simp only [Gen.K17.cap, Binarizer.cap]
  by_cases h1 : v < lo
  · have : (v : Int) < lo := by omega
    simp [h1, this]
  · have h1' : ¬ (v : Int) < lo := by omega
    by_cases h2 : v > hi
    · have : (v : Int) > hi := by omega
      simp [h1, h1', h2, this]
    · have h2' : ¬ (v : Int) > hi := by omega
      simp [h1, h1', h2, h2']

when_kernel Gzx.Gen.K17.hybridUsesLocal in
/-- `HybridBinarizer.GetBlackMatrix`: the local method from 40x40 up (`MINIMUM_DIMENSION`), as `Binarizer.hybridSets` tests -/
theorem k_hybridUsesLocal_eq (w h : Nat) :
    Gen.K17.hybridUsesLocal w h = .ok (decide (w ≥ Binarizer.MINIMUM_DIMENSION ∧ h ≥ Binarizer.MINIMUM_DIMENSION)) := by
  simp only [Gen.K17.hybridUsesLocal, Binarizer.MINIMUM_DIMENSION]
  congr 1
  rw [Bool.eq_iff_iff]
  simp only [Bool.and_eq_true, decide_eq_true_eq]
  grind

-- non-vacuity
example : rectRejected 10 10 3 3 8 2 := by decide
example : ¬ rectRejected 10 10 3 3 7 7 := by decide

end Gzx.Obligations.K17Lum
