/-
  K17b (work package kfinish) — the K17 kernels that were regenerated but had no theorem: `BitArray.Set`, the sharpening loop of
  `GetBlackRow`, the four sampled rows of the global `GetBlackMatrix`, `GetMatrix` of the RGB and YUV sources and the rotation
  loop of the Go-image source.  Each regenerated definition (`Gzx.Gen.K17`, rebuilt from /repo on every run) is proved equal, for
  ALL arguments of the stated types, to a word-level mirror of `Proofs/K17b.lean`, which in turn is proved equal to the
  hand-written model function of `Model/Binarizer.lean` / `Model/Luminance.lean` (`…_model` theorems).
  The two block loops of the hybrid binariser are in `Obligations/K17c.lean`.
-/
import Gzx.Gen.K17
import Gzx.KernelGuard
import Gzx.Proofs.K17b
import Gzx.Obligations.K17Hyb
namespace Gzx.Obligations.K17b
open Gzx Gzx.GoM Gzx.Bits Gzx.GoVal Gzx.Binarizer Gzx.K17 Gzx.K17b Gzx.Obligations.K17Hyb

variable {σ ρ τ α : Type}

/-! ## `BitArray.Set` -/

when_kernel Gzx.Gen.K17.arraySet in
/-- `BitArray.Set(i)` (the copy of the kernel that `GetBlackRow` calls) = `K17b.setA` = `WArr.set` on the words -/
theorem k_arraySet_eq (ws : List Nat) (i : Nat) : Gen.K17.arraySet (words ws) i = (setA ws i).map words := by
  simp only [Gen.K17.arraySet, setA]
  rw [updR ws (i / 32) (fun w => w ||| 1 <<< (i % 32))]
  · cases updWord ws (i / 32) _ <;> rfl
  · gonorm; omega
  · gonorm; omega
  · intro w; gonorm
    rw [bit_natCast _ (i % 32) (by omega) (by omega), ior_natCast]

when_kernel Gzx.Gen.K17.arraySet in
/-- … stated on the model's bit array -/
theorem k_arraySet_model (a : WArr) (i : Nat) :
    Gen.K17.arraySet (words a.words) i = (WArr.set a i).map (fun a' => words a'.words) := by
  rw [k_arraySet_eq, ← setA_eq_WArr]
  cases WArr.set a i <;> rfl

when_kernel Gzx.Gen.K17.arraySet in
example : Gen.K17.arraySet (words [0, 0]) 33 = .ok (words [0, 2]) := by decide

/-! ## the sharpening loop of `GlobalHistogramBinarizer.GetBlackRow` -/

when_kernel Gzx.Gen.K17.rowSharpen in
/-- one pixel of the small-row loop -/
theorem k_rowSharpen_small (lum : List Nat) (bp x : Nat) (ws : List Nat) :
    Gen.K17.rowSharpen_body1 (bytes lum) (bp : Int) (x : Int) (words ws) = ofRes ((smallStep lum bp ws x).map words) := by
  simp only [Gen.K17.rowSharpen_body1, smallStep]
  rw [bytes, idx_bytes]
  cases lum[x]? with
  | none => rfl
  | some p =>
    simp only [tryC_ok]
    rw [show ((p : Nat) : Int) = Int.ofNat p from rfl, byte_and]
    by_cases ht : p % 256 < bp
    · have : ((p % 256 : Nat) : Int) < (bp : Int) := by omega
      simp only [ht, this, decide_true, if_true]
      rw [k_arraySet_eq]
      cases setA ws x <;> rfl
    · have : ¬ ((p % 256 : Nat) : Int) < (bp : Int) := by omega
      simp only [ht, this, decide_false, Bool.false_eq_true, if_false]
      rfl

/-- `left` and `center` when the `-1 4 -1` loop reaches pixel `x` -/
def lc (lum : List Nat) (x : Nat) : Int × Int := (((lum.getD (x - 1) 0 % 256 : Nat) : Int), ((lum.getD x 0 % 256 : Nat) : Int))

when_kernel Gzx.Gen.K17.rowSharpen in
/-- one pixel of the `-1 4 -1` loop -/
theorem k_rowSharpen_step (lum : List Nat) (bp x : Nat) (hx : 1 ≤ x) (ws : List Nat) :
    Gen.K17.rowSharpen_body2 (bytes lum) (bp : Int) (x : Int) (words ws, lc lum x) =
      match sharpStep lum bp ws x with
      | .ok t' => .next (words t', lc lum (x + 1))
      | .error e => .panic e := by
  simp only [Gen.K17.rowSharpen_body2, sharpStep, lc]
  rw [show (x : Int) + 1 = ((x + 1 : Nat) : Int) by omega, bytes, idx_bytes]
  cases hr : lum[x + 1]? with
  | none => rfl
  | some r =>
    simp only [tryC_ok]
    rw [show ((r : Nat) : Int) = Int.ofNat r from rfl, byte_and]
    have er : lum.getD (x + 1) 0 = r := by simp [List.getD_eq_getElem?_getD, hr]
    have ex : x + 1 - 1 = x := by omega
    by_cases ht : sharpAt lum bp x = true
    · have ht' := ht
      unfold sharpAt at ht'
      rw [er] at ht'
      have hP := of_decide_eq_true ht'
      simp only [hP, ht, decide_true, if_true]
      rw [k_arraySet_eq]
      cases setA ws x with
      | error e => rfl
      | ok t' => simp only [Except.map, tryC_ok, next_thenC, ex, er]
    · have ht2 : sharpAt lum bp x = false := by simpa using ht
      have ht' := ht2
      unfold sharpAt at ht'
      rw [er] at ht'
      have hP := of_decide_eq_false ht'
      simp only [hP, ht2, decide_false, Bool.false_eq_true, if_false, next_thenC, ex, er]

when_kernel Gzx.Gen.K17.rowSharpen in
/-- the last statement of `GetBlackRow` (`if width < 3 { … } else { left, center … -1 4 -1 … }`) = the mirror `K17b.sharpenW`:
    the same checked reads of the luminance row, the same `row.Set(x)` calls in the same order, the same panics -/
theorem k_rowSharpen_eq (ws : List Nat) (width : Nat) (lum : List Nat) (bp : Nat) :
    Gen.K17.rowSharpen (words ws) width (bytes lum) bp = (sharpenW ws width lum bp).map words := by
  simp only [Gen.K17.rowSharpen, sharpenW]
  by_cases h3 : width < 3
  · have : (width : Int) < 3 := by omega
    simp only [h3, this, decide_true, if_true]
    rw [loop_up_fold' words (smallStep lum bp) 0 width ws rfl (by rw [tripUp_one]; omega) (by omega)
          (fun x _ _ t => k_rowSharpen_small lum bp x t)]
    cases (List.range' 0 width).foldlM (smallStep lum bp) ws <;> rfl
  · have : ¬ (width : Int) < 3 := by omega
    simp only [h3, this, decide_false, Bool.false_eq_true, if_false]
    have i0 : idx (bytes lum) 0 = _ := idx_bytes lum 0
    have i1 : idx (bytes lum) 1 = _ := idx_bytes lum 1
    rw [i0, i1]
    cases h0 : lum[0]? with
    | none => rfl
    | some p0 =>
      cases h1 : lum[1]? with
      | none => rfl
      | some p1 =>
        simp only [tryC_ok]
        rw [show ((p0 : Nat) : Int) = Int.ofNat p0 from rfl, show ((p1 : Nat) : Int) = Int.ofNat p1 from rfl, byte_and, byte_and]
        have e0 : lum.getD 0 0 = p0 := by simp [List.getD_eq_getElem?_getD, h0]
        have e1 : lum.getD 1 0 = p1 := by simp [List.getD_eq_getElem?_getD, h1]
        have hlc : (((p0 % 256 : Nat) : Int), ((p1 % 256 : Nat) : Int)) = lc lum 1 := by
          show _ = (((lum.getD (1 - 1) 0 % 256 : Nat) : Int), ((lum.getD 1 0 % 256 : Nat) : Int))
          rw [show 1 - 1 = 0 from rfl, e0, e1]
        have h := loop_up_fold_aux (ρ := List Int) words (lc lum) (Gen.K17.rowSharpen_body2 (bytes lum) (bp : Int))
          (sharpStep lum bp) (width - 2) 1 ws (by
            intro x hx1 _ t
            rw [k_rowSharpen_step lum bp x hx1 t]
            cases sharpStep lum bp t x <;> rfl)
        have ht : tripUp 1 ((width : Int) - 1) 1 = width - 2 := by rw [tripUp_one]; omega
        rw [ht, hlc]
        have h' : loop (Gen.K17.rowSharpen_body2 (bytes lum) (bp : Int)) 1 (width - 2) 1 (words ws, lc lum 1) = _ := h
        rw [h']
        cases (List.range' 1 (width - 2)).foldlM (sharpStep lum bp) ws <;> rfl

when_kernel Gzx.Gen.K17.rowSharpen in
/-- **the sharpening loop, Go source to model**: on the `width` luminances of a row the regenerated statement performs exactly the
    `Set(x)` calls of the bits that `Binarizer.blackRow` reports for the black point `bp` (`K17b.blackRow_eq`: `blackRow row` is
    `rowBits bp row` for the estimated `bp`) -/
theorem k_rowSharpen_model (ws : List Nat) (lum : List Nat) (bp : Nat) :
    Gen.K17.rowSharpen (words ws) lum.length (bytes lum) bp = (applyA ws (trueIdx (rowBits bp lum))).map words := by
  rw [k_rowSharpen_eq, sharpenW_agrees]

-- non-vacuity: 5 pixels, black point 100: the filter sets bit 2 only ((10*4 - 200 - 200)/2 < 100), the end pixels are never set
when_kernel Gzx.Gen.K17.rowSharpen in
example : Gen.K17.rowSharpen (words [0]) 5 (bytes [0, 200, 10, 200, 0]) 100 = .ok (words [4]) := by decide +kernel
when_kernel Gzx.Gen.K17.rowSharpen in
example : Gen.K17.rowSharpen (words [0]) 2 (bytes [0, 200]) 100 = .ok (words [1]) := by decide +kernel

/-! ## the sampled rows of `GlobalHistogramBinarizer.GetBlackMatrix` -/

when_kernel Gzx.Gen.K17.matrixHistogram in
/-- one sampled pixel: `localBuckets[(localLuminances[x]&0xff)>>3]++` -/
theorem k_matrixHistogram_cell (lum : List Nat) (x : Nat) (acc : List Nat) :
    Gen.K17.matrixHistogram_body2 (bytes lum) (x : Int) (words acc) = ofRes ((histStep lum acc x).map words) := by
  simp only [Gen.K17.matrixHistogram_body2, histStep]
  rw [bytes, idx_bytes]
  cases lum[x]? with
  | none => rfl
  | some p =>
    simp only [tryC_ok]
    have eb : ishr (iand ((p : Nat) : Int) 255) 3 = ((bucketOf p : Nat) : Int) := by
      rw [show (255 : Int) = ((255 : Nat) : Int) from rfl, iand_natCast, show (3 : Int) = ((3 : Nat) : Int) from rfl,
        ishr_natCast, Nat.shiftRight_eq_div_pow]
      have : p &&& 255 = p % 256 := Nat.and_two_pow_sub_one_eq_mod p 8
      rw [this]; rfl
    rw [eb, updC acc (bucketOf p) (· + 1) _ rfl rfl (fun w => by simp)]
    cases updWord acc (bucketOf p) (· + 1) <;> rfl

when_kernel Gzx.Gen.K17.matrixHistogram in
/-- the sampling loops of `GetBlackMatrix` (`for y := 1; y < 5; y++ { row := height*y/5; … for x := width/5; x < width*4/5; x++ }`)
    with `source.GetRow` as the function `getRow` = the mirror `K17b.sampleW`, for every accumulator -/
theorem k_matrixHistogram_eq (L : List Int) (getRow : Nat → List Nat) (w h : Nat) (acc : List Nat) :
    Gen.K17.matrixHistogram L (words acc) w h (fun r => bytes (getRow r.toNat)) = (sampleW getRow w h acc).map words := by
  simp only [Gen.K17.matrixHistogram, sampleW]
  rw [loop_up_fold' words (sampleRowW getRow w h) 1 4 acc rfl (by rfl) (by rfl)]
  · cases (List.range' 1 4).foldlM (sampleRowW getRow w h) acc <;> rfl
  · intro y _ _ t
    simp only [Gen.K17.matrixHistogram_body1, sampleRowW]
    have er : (Int.tdiv ((h : Int) * (y : Int)) 5).toNat = h * y / 5 := by
      rw [show (h : Int) * (y : Int) = ((h * y : Nat) : Int) by simp [Int.natCast_mul], show (5 : Int) = ((5 : Nat) : Int) from rfl,
        tdiv_natCast]; exact Int.toNat_natCast _
    have e5 : Int.tdiv (w : Int) 5 = ((w / 5 : Nat) : Int) := by
      rw [show (5 : Int) = ((5 : Nat) : Int) from rfl, tdiv_natCast]
    have e45 : Int.tdiv ((w : Int) * 4) 5 = ((w * 4 / 5 : Nat) : Int) := by
      rw [show (w : Int) * 4 = ((w * 4 : Nat) : Int) by simp [Int.natCast_mul], show (5 : Int) = ((5 : Nat) : Int) from rfl,
        tdiv_natCast]
    rw [er, e5, e45]
    rw [loop_up_fold' words (histStep (getRow (h * y / 5))) (w / 5) (w * 4 / 5 - w / 5) t rfl
          (by rw [tripUp_one]; omega) rfl (fun x _ _ t => k_matrixHistogram_cell _ x t)]
    cases (List.range' (w / 5) (w * 4 / 5 - w / 5)).foldlM (histStep (getRow (h * y / 5))) t <;> rfl

when_kernel Gzx.Gen.K17.matrixHistogram in
/-- **the sampling loops, Go source to model**: on a whole-image source (`GetRow(r)` = row `r` of the matrix) the zeroed histogram
    becomes `Binarizer.histogram` of `Binarizer.samples` (index panic where the model's read fails) -/
theorem k_matrixHistogram_model (L : List Int) (lum : List Nat) (w h : Nat) :
    Gen.K17.matrixHistogram L (words (histogram [])) w h (fun r => bytes (rowOf lum w r.toNat)) =
      match samples lum.toArray w h with
      | .ok ps => .ok (words (histogram ps))
      | .error _ => .error oob := by
  rw [k_matrixHistogram_eq, sampleW_agrees]
  cases samples lum.toArray w h <;> rfl

-- non-vacuity: a 5x5 image of value 9 → 4 rows x 3 columns (1..3) sampled, all in bucket 1
when_kernel Gzx.Gen.K17.matrixHistogram in
example : Gen.K17.matrixHistogram [] (words (histogram [])) 5 5 (fun r => bytes (rowOf (List.replicate 25 9) 5 r.toNat)) =
    .ok (words ((List.replicate 32 0).set 1 12)) := by decide +kernel

/-! ## `GetMatrix` of the RGB / Go-image and the YUV source -/

theorem sliceL_bytes (l : List Nat) (a b : Nat) (ea eb : Int) (ha : ea = a) (hb : eb = b) :
    sliceL (bytes l) ea eb = (sliceN l a b).map bytes := by
  subst ha hb
  unfold sliceL sliceN
  by_cases h : a ≤ b ∧ b ≤ l.length
  · have h' : (0 : Int) ≤ (a : Int) ∧ (a : Int) ≤ (b : Int) ∧ (b : Int) ≤ ((bytes l).length : Nat) := by
      rw [bytes_length]; omega
    simp only [h, h', and_self, if_true, Except.map, Int.toNat_natCast]
    congr 1
    rw [List.drop_take, bytes, bytes, List.map_take, List.map_drop]
  · have h' : ¬ ((0 : Int) ≤ (a : Int) ∧ (a : Int) ≤ (b : Int) ∧ (b : Int) ≤ ((bytes l).length : Nat)) := by
      rw [bytes_length]; omega
    simp only [h, h', if_false, Except.map]

theorem copyL_bytes (a b : List Nat) : copyL (bytes a) (bytes b) = bytes (copyInto a b) := by
  simp [copyL, copyInto, bytes, List.map_take, List.map_drop]

theorem copySeg_bytes (t : List Nat) (lo hi : Nat) (s : List Nat) (elo ehi : Int) (hlo : elo = lo) (hhi : ehi = hi) :
    copySeg (bytes t) elo ehi (bytes s) = (copySegN t lo hi s).map bytes := by
  subst hlo hhi
  unfold copySeg copySegN
  by_cases h : lo ≤ hi ∧ hi ≤ t.length
  · have h' : (0 : Int) ≤ (lo : Int) ∧ (lo : Int) ≤ (hi : Int) ∧ (hi : Int) ≤ ((bytes t).length : Nat) := by
      rw [bytes_length]; omega
    simp only [h, h', and_self, if_true, Except.map, Int.toNat_natCast]
    congr 1
    have e : (List.drop lo (bytes t)).take (hi - lo) = bytes ((t.drop lo).take (hi - lo)) := by
      simp [bytes, List.map_take, List.map_drop]
    rw [e, copyL_bytes]
    simp [bytes, List.map_take, List.map_drop]
  · have h' : ¬ ((0 : Int) ≤ (lo : Int) ∧ (lo : Int) ≤ (hi : Int) ∧ (hi : Int) ≤ ((bytes t).length : Nat)) := by
      rw [bytes_length]; omega
    simp only [h, h', if_false, Except.map]

theorem mk_bytes (e : Int) (n : Nat) (h : e = n) : mk e = .ok (bytes (List.replicate n 0)) := mk_words e n h

when_kernel Gzx.Gen.K17.rgbGetMatrix in
/-- one row of the RGB source's row-by-row copy (`copy(matrix[outputOffset:outputOffset+width], luminances[inputOffset:inputOffset+width])`) -/
theorem k_rgbGetMatrix_row (data : List Nat) (dataW w off y : Nat) (t : List Nat) :
    Gen.K17.rgbGetMatrix_body1 (bytes data) dataW w y (bytes t, ((off + y * dataW : Nat) : Int)) =
      match cropStep data dataW w off (fun _ y => y * w + w) t y with
      | .ok t' => .next (bytes t', ((off + (y + 1) * dataW : Nat) : Int))
      | .error e => .panic e := by
  simp only [Gen.K17.rgbGetMatrix_body1, cropStep, cropRow]
  rw [sliceL_bytes data (off + y * dataW) (off + y * dataW + w) _ _ rfl (by omega)]
  cases sliceN data (off + y * dataW) (off + y * dataW + w) with
  | error e => rfl
  | ok r =>
    simp only [Except.map, tryC_ok]
    rw [copySeg_bytes t (y * w) (y * w + w) r _ _ (by simp [Int.natCast_mul]) (by simp [Int.natCast_mul, Int.natCast_add])]
    cases copySegN t (y * w) (y * w + w) r with
    | error e => rfl
    | ok t' =>
      simp only [Except.map, tryC_ok]
      congr 2
      rw [Nat.add_mul]; simp [Int.natCast_add, Int.natCast_mul]; omega

when_kernel Gzx.Gen.K17.yuvGetMatrix in
/-- one row of the YUV source's row-by-row copy (`copy(matrix[outputOffset:], yuvData[inputOffset:inputOffset+width])`) -/
theorem k_yuvGetMatrix_row (data : List Nat) (dataW w off y : Nat) (t : List Nat) :
    Gen.K17.yuvGetMatrix_body1 (bytes data) dataW w y (bytes t, ((off + y * dataW : Nat) : Int)) =
      match cropStep data dataW w off (fun len _ => len) t y with
      | .ok t' => .next (bytes t', ((off + (y + 1) * dataW : Nat) : Int))
      | .error e => .panic e := by
  simp only [Gen.K17.yuvGetMatrix_body1, cropStep, cropRow]
  rw [sliceL_bytes data (off + y * dataW) (off + y * dataW + w) _ _ rfl (by omega)]
  cases sliceN data (off + y * dataW) (off + y * dataW + w) with
  | error e => rfl
  | ok r =>
    simp only [Except.map, tryC_ok]
    rw [copySeg_bytes t (y * w) t.length r _ _ (by simp [Int.natCast_mul]) (by simp [len, bytes])]
    cases copySegN t (y * w) t.length r with
    | error e => rfl
    | ok t' =>
      simp only [Except.map, tryC_ok]
      congr 2
      rw [Nat.add_mul]; simp [Int.natCast_add, Int.natCast_mul]; omega

/-- the three strategies around the row loop, shared by both sources -/
theorem getMatrix_shell (body : Int → List Int × Int → Ctl (List Int × Int) (List Int))
    (data : List Nat) (dataW dataH left top w h : Nat) (hiF : Nat → Nat → Nat)
    (hbody : ∀ (y : Nat) (t : List Nat), body (y : Int) (bytes t, ((top * dataW + left + y * dataW : Nat) : Int)) =
      match cropStep data dataW w (top * dataW + left) hiF t y with
      | .ok t' => .next (bytes t', ((top * dataW + left + (y + 1) * dataW : Nat) : Int))
      | .error e => .panic e) :
    (if (((w : Int) == (dataW : Int)) && ((h : Int) == (dataH : Int))) then (.ok (bytes data) : Res (List Int))
      else
        tryR (mk ((w : Int) * (h : Int))) fun t1 =>
        if ((w : Int) == (dataW : Int)) then
          tryR (sliceL (bytes data) ((top : Int) * (dataW : Int) + (left : Int)) ((top : Int) * (dataW : Int) + (left : Int) + (w : Int) * (h : Int))) fun t2 =>
          .ok (copyL t1 t2)
        else
          (loop body 1 (tripUp 0 (h : Int) 1) 0 (t1, (top : Int) * (dataW : Int) + (left : Int))).thenR fun st => .ok st.1) =
      (getMatrixW data dataW dataH left top w h hiF).map bytes := by
  unfold getMatrixW
  by_cases h1 : w = dataW ∧ h = dataH
  · obtain ⟨hw, hh⟩ := h1
    subst hw hh
    simp only [beq_self_eq_true, Bool.and_self, and_self, if_true, Except.map]
  · have : (((w : Int) == (dataW : Int)) && ((h : Int) == (dataH : Int))) = false := by
      rw [Bool.and_eq_false_iff]; simp only [beq_eq_false_iff_ne, ne_eq, Int.natCast_inj]; omega
    simp only [this, h1, Bool.false_eq_true, if_false]
    rw [mk_bytes _ (w * h) (by simp [Int.natCast_mul])]
    simp only [tryR_ok]
    by_cases h2 : w = dataW
    · subst h2
      simp only [beq_self_eq_true, if_true]
      rw [sliceL_bytes data (top * w + left) (top * w + left + w * h) _ _ (by simp [Int.natCast_mul])
        (by simp [Int.natCast_mul, Int.natCast_add])]
      cases sliceN data (top * w + left) (top * w + left + w * h) with
      | error e => rfl
      | ok s => simp only [Except.map, tryR_ok, copyL_bytes]
    · have : ((w : Int) == (dataW : Int)) = false := by
        simp only [beq_eq_false_iff_ne, ne_eq, Int.natCast_inj]; exact h2
      simp only [this, h2, Bool.false_eq_true, if_false]
      have hl := loop_up_fold_aux (ρ := List Int) bytes (fun y => ((top * dataW + left + y * dataW : Nat) : Int)) body
        (cropStep data dataW w (top * dataW + left) hiF) h 0 (List.replicate (w * h) 0) (by
          intro y _ _ t
          rw [hbody y t]
          cases cropStep data dataW w (top * dataW + left) hiF t y <;> rfl)
      have e0 : ((top * dataW + left + 0 * dataW : Nat) : Int) = (top : Int) * (dataW : Int) + (left : Int) := by
        simp [Int.natCast_mul, Int.natCast_add]
      rw [e0] at hl
      rw [show tripUp 0 (h : Int) 1 = h by rw [tripUp_one]; omega]
      have hl' : loop body 1 h 0 (bytes (List.replicate (w * h) 0), (top : Int) * (dataW : Int) + (left : Int)) = _ := hl
      rw [hl']
      cases (List.range' 0 h).foldlM (cropStep data dataW w (top * dataW + left) hiF) (List.replicate (w * h) 0) <;> rfl

when_kernel Gzx.Gen.K17.rgbGetMatrix in
/-- `RGBLuminanceSource.GetMatrix()` (also the Go-image source's) = the mirror `K17b.getMatrixW`: whole image → the original array;
    full width → one checked slice + `copy`; otherwise `height` checked row slices copied to `y*width` -/
theorem k_rgbGetMatrix_eq (data : List Nat) (dataW dataH left top w h : Nat) :
    Gen.K17.rgbGetMatrix w h (bytes data) dataW dataH left top =
      (getMatrixW data dataW dataH left top w h (fun _ y => y * w + w)).map bytes := by
  simp only [Gen.K17.rgbGetMatrix]
  exact getMatrix_shell _ data dataW dataH left top w h _ (fun y t => k_rgbGetMatrix_row data dataW w _ y t)

when_kernel Gzx.Gen.K17.yuvGetMatrix in
/-- `PlanarYUVLuminanceSource.GetMatrix()` = the mirror (destination slices `matrix[outputOffset:]`) -/
theorem k_yuvGetMatrix_eq (data : List Nat) (dataW dataH left top w h : Nat) :
    Gen.K17.yuvGetMatrix w h (bytes data) dataW dataH left top =
      (getMatrixW data dataW dataH left top w h (fun len _ => len)).map bytes := by
  simp only [Gen.K17.yuvGetMatrix]
  exact getMatrix_shell _ data dataW dataH left top w h _ (fun y t => k_yuvGetMatrix_row data dataW w _ y t)

when_kernel Gzx.Gen.K17.rgbGetMatrix in
/-- **RGB / Go-image GetMatrix, Go source to model**: for every view the regenerated method returns what
    `Luminance.baseGetMatrix` returns (the same bytes, or the slice-bounds panic) -/
theorem k_rgbGetMatrix_model (v : Luminance.View) :
    ∃ r, Gen.K17.rgbGetMatrix v.w v.h (bytes v.data) v.dataW v.dataH v.left v.top = r.map bytes ∧
      Luminance.baseGetMatrix v = liftV r :=
  ⟨_, k_rgbGetMatrix_eq _ _ _ _ _ _ _, getMatrixW_agrees v _ (fun _ _ => Or.inl rfl)⟩

when_kernel Gzx.Gen.K17.yuvGetMatrix in
/-- **YUV GetMatrix, Go source to model** -/
theorem k_yuvGetMatrix_model (v : Luminance.View) :
    ∃ r, Gen.K17.yuvGetMatrix v.w v.h (bytes v.data) v.dataW v.dataH v.left v.top = r.map bytes ∧
      Luminance.baseGetMatrix v = liftV r :=
  ⟨_, k_yuvGetMatrix_eq _ _ _ _ _ _ _, getMatrixW_agrees v _ (fun _ _ => Or.inr rfl)⟩

-- non-vacuity: a 2x2 crop at (1,1) of a 4x3 image (row-by-row branch); a too short array panics
when_kernel Gzx.Gen.K17.rgbGetMatrix in
example : Gen.K17.rgbGetMatrix 2 2 (bytes [0,1,2,3, 4,5,6,7, 8,9,10,11]) 4 3 1 1 = .ok (bytes [5, 6, 9, 10]) := by decide +kernel
when_kernel Gzx.Gen.K17.yuvGetMatrix in
example : Gen.K17.yuvGetMatrix 2 2 (bytes [0,1,2,3, 4,5,6,7, 8,9,10,11]) 4 3 1 1 = .ok (bytes [5, 6, 9, 10]) := by decide +kernel
when_kernel Gzx.Gen.K17.rgbGetMatrix in
example : Gen.K17.rgbGetMatrix 2 2 (bytes [0,1,2,3, 4,5,6,7, 8]) 4 3 1 1 = .error (.panic "slice bounds out of range") := by
  decide +kernel

/-! ## the rotation loop of `GoImageLuminanceSource.RotateCounterClockwise` -/

when_kernel Gzx.Gen.K17.rotateCCW in
/-- one element: `newLuminas[j*height+i] = oldLuminas[(top+i)*dataWidth + left+width-1-j]` -/
theorem k_rotateCCW_cell (data : List Nat) (dataW left top w h j i : Nat) (hj : j < w) (t : List Nat) :
    Gen.K17.rotateCCW_body2 h top dataW (bytes data) j ((left : Int) + (w : Int) - 1 - (j : Int)) (i : Int) (words t) =
      ofRes ((rotCell data dataW left top w h j t i).map words) := by
  simp only [Gen.K17.rotateCCW_body2, rotCell, rdR]
  have ei : ((top : Int) + (i : Int)) * (dataW : Int) + ((left : Int) + (w : Int) - 1 - (j : Int)) =
      (((top + i) * dataW + (left + w - 1 - j) : Nat) : Int) := by
    rw [Int.natCast_add, Int.natCast_mul, Int.natCast_add]
    omega
  rw [ei, bytes, idx_bytes]
  cases data[(top + i) * dataW + (left + w - 1 - j)]? with
  | none => rfl
  | some v =>
    simp only [tryC_ok]
    rw [setC t (j * h + i) v _ (by simp [Int.natCast_mul, Int.natCast_add]) rfl]
    cases setWord t (j * h + i) v <;> rfl

when_kernel Gzx.Gen.K17.rotateCCW in
/-- the rotation loops (`make([]byte, width*height)`, `for j … { x := left+width-1-j; for i … }`) = the mirror `K17b.rotateW` -/
theorem k_rotateCCW_eq (data : List Nat) (dataW left top w h : Nat) :
    Gen.K17.rotateCCW w h top left dataW (bytes data) = (rotateW data dataW left top w h).map words := by
  simp only [Gen.K17.rotateCCW, rotateW]
  rw [mk_words _ (w * h) (by simp [Int.natCast_mul])]
  simp only [tryR_ok]
  rw [loop_up_fold' words (rotColW data dataW left top w h) 0 w (List.replicate (w * h) 0) rfl
        (by rw [tripUp_one]; omega) (by omega)]
  · cases (List.range' 0 w).foldlM (rotColW data dataW left top w h) (List.replicate (w * h) 0) <;> rfl
  · intro j _ hj t
    simp only [Gen.K17.rotateCCW_body1, rotColW]
    rw [loop_up_fold' words (rotCell data dataW left top w h j) 0 h t rfl (by rw [tripUp_one]; omega) (by omega)
          (fun i _ _ t => k_rotateCCW_cell data dataW left top w h j i (by omega) t)]
    cases (List.range' 0 h).foldlM (rotCell data dataW left top w h j) t <;> rfl

when_kernel Gzx.Gen.K17.rotateCCW in
/-- **RotateCounterClockwise, Go source to model**: the regenerated loops produce the `data` of `Luminance.rotateCCW v`
    (rows of the rotated copy = columns of the view from the right; index panic where the model's read fails) -/
theorem k_rotateCCW_model (v : Luminance.View) :
    ∃ r, Gen.K17.rotateCCW v.w v.h v.top v.left v.dataW (bytes v.data) = r.map words ∧
      (mapME (Luminance.rotRow v) (List.range v.w)).map List.flatten = liftV r :=
  ⟨_, k_rotateCCW_eq _ _ _ _ _ _, rotateW_agrees v⟩

-- non-vacuity: the 2x2 view at (1,0) of a 3x2 image [[1,2,3],[4,5,6]] rotates to [[3,6],[2,5]]
when_kernel Gzx.Gen.K17.rotateCCW in
example : Gen.K17.rotateCCW 2 2 0 1 3 (bytes [1, 2, 3, 4, 5, 6]) = .ok (words [3, 6, 2, 5]) := by decide +kernel

end Gzx.Obligations.K17b
