/-
  K17b (work package kfinish) — the K17 kernels that were regenerated but had no theorem: `BitArray.Set`, the sharpening loop of
  `GetBlackRow`, the four sampled rows of the global `GetBlackMatrix`, `GetMatrix` of the RGB and YUV sources and the rotation
  loop of the Go-image source.  Each regenerated definition (`Gzx.Gen.K17`, rebuilt from /repo on every run) is proved equal, for
  ALL arguments of the stated types, to a word-level mirror of `Proofs/K17b.lean`, which in turn is proved equal to the
  hand-written model function of `Model/Binarizer.lean` / `Model/Luminance.lean` (`…_model` theorems).
  The two block loops of the hybrid binariser are in `Obligations/K17c.lean`.
-/
import Gzx.Gen.K17
import Gzx.KernelGuard
import Gzx.Proofs.K17b
import Gzx.Obligations.K17Hyb
namespace Gzx.Obligations.K17b
open Gzx Gzx.GoM Gzx.Bits Gzx.GoVal Gzx.Binarizer Gzx.K17 Gzx.K17b Gzx.Obligations.K17Hyb

variable {σ ρ τ α : Type}

/-! ## `BitArray.Set` -/

when_kernel Gzx.Gen.K17.arraySet in
/-- `BitArray.Set(i)` (the copy of the kernel that `GetBlackRow` calls) = `K17b.setA` = `WArr.set` on the words -/
theorem k_arraySet_eq (ws : List Nat) (i : Nat) : Gen.K17.arraySet (words ws) i = (setA ws i).map words := by
  simp only [Gen.K17.arraySet, setA]
  rw [updR ws (i / 32) (fun w => w ||| 1 <<< (i % 32))]
  · cases updWord ws (i / 32) _ <;> rfl
  · gonorm; omega
  · gonorm; omega
  · intro w; gonorm
    rw [bit_natCast _ (i % 32) (by omega) (by omega), ior_natCast]

when_kernel Gzx.Gen.K17.arraySet in
/-- … stated on the model's bit array -/
theorem k_arraySet_model (a : WArr) (i : Nat) :
    Gen.K17.arraySet (words a.words) i = (WArr.set a i).map (fun a' => words a'.words) := by
  rw [k_arraySet_eq, ← setA_eq_WArr]
  cases WArr.set a i <;> rfl

when_kernel Gzx.Gen.K17.arraySet in
example : Gen.K17.arraySet (words [0, 0]) 33 = .ok (words [0, 2]) := by decide

/-! ## the sharpening loop of `GlobalHistogramBinarizer.GetBlackRow` -/

when_kernel Gzx.Gen.K17.rowSharpen in
/-- one pixel of the small-row loop -/
theorem k_rowSharpen_small (lum : List Nat) (bp x : Nat) (ws : List Nat) :
    Gen.K17.rowSharpen_body1 (bytes lum) (bp : Int) (x : Int) (words ws) = ofRes ((smallStep lum bp ws x).map words) := by
  simp only [Gen.K17.rowSharpen_body1, smallStep]
  rw [bytes, idx_bytes]
  cases lum[x]? with
  | none => rfl
  | some p =>
    simp only [tryC_ok]
    rw [show ((p : Nat) : Int) = Int.ofNat p from rfl, byte_and]
    by_cases ht : p % 256 < bp
    · have : ((p % 256 : Nat) : Int) < (bp : Int) := by omega
      simp only [ht, this, decide_true, if_true]
      rw [k_arraySet_eq]
      cases setA ws x <;> rfl
    · have : ¬ ((p % 256 : Nat) : Int) < (bp : Int) := by omega
      simp only [ht, this, decide_false, Bool.false_eq_true, if_false]
      rfl

/-- `left` and `center` when the `-1 4 -1` loop reaches pixel `x` -/
def lc (lum : List Nat) (x : Nat) : Int × Int := (((lum.getD (x - 1) 0 % 256 : Nat) : Int), ((lum.getD x 0 % 256 : Nat) : Int))

when_kernel Gzx.Gen.K17.rowSharpen in
/-- one pixel of the `-1 4 -1` loop -/
theorem k_rowSharpen_step (lum : List Nat) (bp x : Nat) (hx : 1 ≤ x) (ws : List Nat) :
    Gen.K17.rowSharpen_body2 (bytes lum) (bp : Int) (x : Int) (words ws, lc lum x) =
      match sharpStep lum bp ws x with
      | .ok t' => .next (words t', lc lum (x + 1))
      | .error e => .panic e := by
  simp only [Gen.K17.rowSharpen_body2, sharpStep, lc]
  rw [show (x : Int) + 1 = ((x + 1 : Nat) : Int) by omega, bytes, idx_bytes]
  cases hr : lum[x + 1]? with
  | none => rfl
  | some r =>
    simp only [tryC_ok]
    rw [show ((r : Nat) : Int) = Int.ofNat r from rfl, byte_and]
    have er : lum.getD (x + 1) 0 = r := by simp [List.getD_eq_getElem?_getD, hr]
    have ex : x + 1 - 1 = x := by omega
    by_cases ht : sharpAt lum bp x = true
    · have ht' := ht
      unfold sharpAt at ht'
      rw [er] at ht'
      have hP := of_decide_eq_true ht'
      simp only [hP, ht, decide_true, if_true]
      rw [k_arraySet_eq]
      cases setA ws x with
      | error e => rfl
      | ok t' => simp only [Except.map, tryC_ok, next_thenC, ex, er]
    · have ht2 : sharpAt lum bp x = false := by simpa using ht
      have ht' := ht2
      unfold sharpAt at ht'
      rw [er] at ht'
      have hP := of_decide_eq_false ht'
      simp only [hP, ht2, decide_false, Bool.false_eq_true, if_false, next_thenC, ex, er]

when_kernel Gzx.Gen.K17.rowSharpen in
/-- the last statement of `GetBlackRow` (`if width < 3 { … } else { left, center … -1 4 -1 … }`) = the mirror `K17b.sharpenW`:
    the same checked reads of the luminance row, the same `row.Set(x)` calls in the same order, the same panics -/
theorem k_rowSharpen_eq (ws : List Nat) (width : Nat) (lum : List Nat) (bp : Nat) :
    Gen.K17.rowSharpen (words ws) width (bytes lum) bp = (sharpenW ws width lum bp).map words := by
  simp only [Gen.K17.rowSharpen, sharpenW]
  by_cases h3 : width < 3
  · have : (width : Int) < 3 := by omega
    simp only [h3, this, decide_true, if_true]
    rw [loop_up_fold' words (smallStep lum bp) 0 width ws rfl (by rw [tripUp_one]; omega) (by omega)
          (fun x _ _ t => k_rowSharpen_small lum bp x t)]
    cases (List.range' 0 width).foldlM (smallStep lum bp) ws <;> rfl
  · have : ¬ (width : Int) < 3 := by omega
    simp only [h3, this, decide_false, Bool.false_eq_true, if_false]
    have i0 : idx (bytes lum) 0 = _ := idx_bytes lum 0
    have i1 : idx (bytes lum) 1 = _ := idx_bytes lum 1
    rw [i0, i1]
    cases h0 : lum[0]? with
    | none => rfl
    | some p0 =>
      cases h1 : lum[1]? with
      | none => rfl
      | some p1 =>
        simp only [tryC_ok]
        rw [show ((p0 : Nat) : Int) = Int.ofNat p0 from rfl, show ((p1 : Nat) : Int) = Int.ofNat p1 from rfl, byte_and, byte_and]
        have e0 : lum.getD 0 0 = p0 := by simp [List.getD_eq_getElem?_getD, h0]
        have e1 : lum.getD 1 0 = p1 := by simp [List.getD_eq_getElem?_getD, h1]
        have hlc : (((p0 % 256 : Nat) : Int), ((p1 % 256 : Nat) : Int)) = lc lum 1 := by
          show _ = (((lum.getD (1 - 1) 0 % 256 : Nat) : Int), ((lum.getD 1 0 % 256 : Nat) : Int))
          rw [show 1 - 1 = 0 from rfl, e0, e1]
        have h := loop_up_fold_aux (ρ := List Int) words (lc lum) (Gen.K17.rowSharpen_body2 (bytes lum) (bp : Int))
          (sharpStep lum bp) (width - 2) 1 ws (by
            intro x hx1 _ t
            rw [k_rowSharpen_step lum bp x hx1 t]
            cases sharpStep lum bp t x <;> rfl)
        have ht : tripUp 1 ((width : Int) - 1) 1 = width - 2 := by rw [tripUp_one]; omega
        rw [ht, hlc]
        have h' : loop (Gen.K17.rowSharpen_body2 (bytes lum) (bp : Int)) 1 (width - 2) 1 (words ws, lc lum 1) = _ := h
        rw [h']
        cases (List.range' 1 (width - 2)).foldlM (sharpStep lum bp) ws <;> rfl

when_kernel Gzx.Gen.K17.rowSharpen in
/-- **the sharpening loop, Go source to model**: on the `width` luminances of a row the regenerated statement performs exactly the
    `Set(x)` calls of the bits that `Binarizer.blackRow` reports for the black point `bp` (`K17b.blackRow_eq`: `blackRow row` is
    `rowBits bp row` for the estimated `bp`) -/
theorem k_rowSharpen_model (ws : List Nat) (lum : List Nat) (bp : Nat) :
    Gen.K17.rowSharpen (words ws) lum.length (bytes lum) bp = (applyA ws (trueIdx (rowBits bp lum))).map words := by
  rw [k_rowSharpen_eq, sharpenW_agrees]

-- non-vacuity: 5 pixels, black point 100: the filter sets bit 2 only ((10*4 - 200 - 200)/2 < 100), the end pixels are never set
when_kernel Gzx.Gen.K17.rowSharpen in
example : Gen.K17.rowSharpen (words [0]) 5 (bytes [0, 200, 10, 200, 0]) 100 = .ok (words [4]) := by decide +kernel
when_kernel Gzx.Gen.K17.rowSharpen in
example : Gen.K17.rowSharpen (words [0]) 2 (bytes [0, 200]) 100 = .ok (words [1]) := by decide +kernel

/-! ## the sampled rows of `GlobalHistogramBinarizer.GetBlackMatrix` -/

when_kernel Gzx.Gen.K17.matrixHistogram in
/-- one sampled pixel: `localBuckets[(localLuminances[x]&0xff)>>3]++` -/
theorem k_matrixHistogram_cell (lum : List Nat) (x : Nat) (acc : List Nat) :
    Gen.K17.matrixHistogram_body2 (bytes lum) (x : Int) (words acc) = ofRes ((histStep lum acc x).map words) := by
  simp only [Gen.K17.matrixHistogram_body2, histStep]
  rw [bytes, idx_bytes]
  cases lum[x]? with
  | none => rfl
  | some p =>
    simp only [tryC_ok]
    have eb : ishr (iand ((p : Nat) : Int) 255) 3 = ((bucketOf p : Nat) : Int) := by
      rw [show (255 : Int) = ((255 : Nat) : Int) from rfl, iand_natCast, show (3 : Int) = ((3 : Nat) : Int) from rfl,
        ishr_natCast, Nat.shiftRight_eq_div_pow]
      have : p &&& 255 = p % 256 := Nat.and_two_pow_sub_one_eq_mod p 8
      rw [this]; rfl
    rw [eb, updC acc (bucketOf p) (· + 1) _ rfl rfl (fun w => by simp)]
    cases updWord acc (bucketOf p) (· + 1) <;> rfl

when_kernel Gzx.Gen.K17.matrixHistogram in
/-- the sampling loops of `GetBlackMatrix` (`for y := 1; y < 5; y++ { row := height*y/5; … for x := width/5; x < width*4/5; x++ }`)
    with `source.GetRow` as the function `getRow` = the mirror `K17b.sampleW`, for every accumulator -/
theorem k_matrixHistogram_eq (L : List Int) (getRow : Nat → List Nat) (w h : Nat) (acc : List Nat) :
    Gen.K17.matrixHistogram L (words acc) w h (fun r => bytes (getRow r.toNat)) = (sampleW getRow w h acc).map words := by
  simp only [Gen.K17.matrixHistogram, sampleW]
  rw [loop_up_fold' words (sampleRowW getRow w h) 1 4 acc rfl (by rfl) (by rfl)]
  · cases (List.range' 1 4).foldlM (sampleRowW getRow w h) acc <;> rfl
  · intro y _ _ t
    simp only [Gen.K17.matrixHistogram_body1, sampleRowW]
    have er : (Int.tdiv ((h : Int) * (y : Int)) 5).toNat = h * y / 5 := by
      rw [show (h : Int) * (y : Int) = ((h * y : Nat) : Int) by simp [Int.natCast_mul], show (5 : Int) = ((5 : Nat) : Int) from rfl,
        tdiv_natCast]; exact Int.toNat_natCast _
    have e5 : Int.tdiv (w : Int) 5 = ((w / 5 : Nat) : Int) := by
      rw [show (5 : Int) = ((5 : Nat) : Int) from rfl, tdiv_natCast]
    have e45 : Int.tdiv ((w : Int) * 4) 5 = ((w * 4 / 5 : Nat) : Int) := by
      rw [show (w : Int) * 4 = ((w * 4 : Nat) : Int) by simp [Int.natCast_mul], show (5 : Int) = ((5 : Nat) : Int) from rfl,
        tdiv_natCast]
    rw [er, e5, e45]
    rw [loop_up_fold' words (histStep (getRow (h * y / 5))) (w / 5) (w * 4 / 5 - w / 5) t rfl
          (by rw [tripUp_one]; omega) rfl (fun x _ _ t => k_matrixHistogram_cell _ x t)]
    cases (List.range' (w / 5) (w * 4 / 5 - w / 5)).foldlM (histStep (getRow (h * y / 5))) t <;> rfl

when_kernel Gzx.Gen.K17.matrixHistogram in
/-- **the sampling loops, Go source to model**: on a whole-image source (`GetRow(r)` = row `r` of the matrix) the zeroed histogram
    becomes `Binarizer.histogram` of `Binarizer.samples` (index panic where the model's read fails) -/
theorem k_matrixHistogram_model (L : List Int) (lum : List Nat) (w h : Nat) :
    Gen.K17.matrixHistogram L (words (histogram [])) w h (fun r => bytes (rowOf lum w r.toNat)) =
      match samples lum.toArray w h with
      | .ok ps => .ok (words (histogram ps))
      | .error _ => .error oob := by
  rw [k_matrixHistogram_eq, sampleW_agrees]
  cases samples lum.toArray w h <;> rfl

-- non-vacuity: a 5x5 image of value 9 → 4 rows x 3 columns (1..3) sampled, all in bucket 1
when_kernel Gzx.Gen.K17.matrixHistogram in
example : Gen.K17.matrixHistogram [] (words (histogram [])) 5 5 (fun r => bytes (rowOf (List.replicate 25 9) 5 r.toNat)) =
    .ok (words ((List.replicate 32 0).set 1 12)) := by decide +kernel

end Gzx.Obligations.K17b
