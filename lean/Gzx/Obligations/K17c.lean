/-
  K17c (work package kfinish) — `HybridBinarizer.calculateThresholdForBlock`, regenerated from /repo on every run together with the
  `cap`, `thresholdBlock` and `BitMatrix.Set` it calls (`Gzx.Gen.K17`), proved equal to the word-level mirror `K17c.hybW` (clamped
  pixel offsets, clamped 5x5 window, checked reads of `blackPoints`, `sum/25`, the 8x8 scan) and through `K17c.hybW_agrees`
  to `Binarizer.hybridBlocks`, the model the C17 theorems are about.
-/
import Gzx.Gen.K17
import Gzx.KernelGuard
import Gzx.Proofs.K17c
import Gzx.Obligations.K17Hyb
import Gzx.Obligations.K17Lum
namespace Gzx.Obligations.K17c
open Gzx Gzx.GoM Gzx.Bits Gzx.GoVal Gzx.Binarizer Gzx.K17 Gzx.K17b Gzx.K17c Gzx.Obligations.K17Hyb

/-- the Go `[][]int` of a model table of black points -/
def rows2 (bps : List (List Nat)) : List (List Int) := bps.map bytes

theorem idxRow_rows2 (bps : List (List Nat)) (r : Nat) :
    idxRow (rows2 bps) (r : Int) = match bps[r]? with | some row => .ok (bytes row) | none => .error oob := by
  unfold idxRow rows2
  have h0 : ¬ ((r : Int) < 0) := by omega
  simp only [h0, if_false, Int.toNat_natCast, List.getElem?_map]
  cases bps[r]? <;> rfl

theorem idxRow_neg (m : List (List Int)) (i : Int) (h : i < 0) : idxRow m i = .error oob := by
  unfold idxRow; simp [h]

/-- what the kernel makes of a model sum: the value, or the index panic -/
def expSum (s : Int) : Res Nat → Ctl Int (List Int)
  | .ok v => .next (s + (v : Int))
  | .error _ => .panic oob

when_kernel Gzx.Gen.K17.calculateThresholdForBlock in
/-- one row of the 5x5 window: `blackRow := blackPoints[top+z]; sum += blackRow[left-2] + … + blackRow[left+2]` -/
theorem k_ctb_row (bps : List (List Nat)) (top left r : Nat) (z : Int) (hz : (top : Int) + z = r) (s : Int) :
    Gen.K17.calculateThresholdForBlock_body3 (rows2 bps) top left z s = expSum s (rowSum5 bps left r) := by
  simp only [Gen.K17.calculateThresholdForBlock_body3, rowSum5]
  rw [hz, idxRow_rows2]
  cases bps[r]? with
  | none => rfl
  | some row =>
    simp only [tryC_ok, sum5]
    by_cases hl : left < 2
    · rw [idx_neg _ _ (by omega)]
      simp [hl, expSum]
    · simp only [hl, if_false]
      have e2 : (left : Int) - 2 = ((left - 2 : Nat) : Int) := by omega
      have e1 : (left : Int) - 1 = ((left - 1 : Nat) : Int) := by omega
      have e3 : (left : Int) + 1 = ((left + 1 : Nat) : Int) := by omega
      have e4 : (left : Int) + 2 = ((left + 2 : Nat) : Int) := by omega
      rw [e2, e1, e3, e4, bytes, idx_bytes, idx_bytes, idx_bytes, idx_bytes, idx_bytes]
      cases row[left - 2]? with
      | none => rfl
      | some a =>
        cases row[left - 1]? with
        | none => rfl
        | some b =>
          cases row[left]? with
          | none => rfl
          | some c =>
            cases row[left + 1]? with
            | none => rfl
            | some d =>
              cases row[left + 2]? with
              | none => rfl
              | some e =>
                simp only [tryC_ok, expSum]
                congr 1

when_kernel Gzx.Gen.K17.calculateThresholdForBlock in
/-- `k` rows of the window starting at row `r0` -/
theorem k_ctb_rows (bps : List (List Nat)) (top left : Nat) : ∀ (k r0 : Nat) (s : Int),
    loop (Gen.K17.calculateThresholdForBlock_body3 (rows2 bps) top left) 1 k ((r0 : Int) - (top : Int)) s =
      match mapME (rowSum5 bps left) (List.range' r0 k) with
      | .ok sums => .next (s + ((sums.foldl (· + ·) 0 : Nat) : Int))
      | .error _ => .panic oob := by
  intro k
  induction k with
  | zero => intro r0 s; simp [loop, mapME]
  | succ k ih =>
    intro r0 s
    rw [loop_succ, k_ctb_row bps top left r0 _ (by omega) s, List.range'_succ]
    simp only [mapME]
    cases rowSum5 bps left r0 with
    | error e => rfl
    | ok v =>
      simp only [expSum]
      rw [show (r0 : Int) - (top : Int) + 1 = ((r0 + 1 : Nat) : Int) - (top : Int) by omega, ih (r0 + 1) (s + (v : Int))]
      cases mapME (rowSum5 bps left) (List.range' (r0 + 1) k) with
      | error e => rfl
      | ok sums =>
        simp only [List.foldl_cons, Nat.zero_add]
        congr 1
        have : ∀ (l : List Nat) (a : Nat), l.foldl (· + ·) a = a + l.foldl (· + ·) 0 := by
          intro l
          induction l with
          | nil => intro a; simp
          | cons x l ihl => intro a; simp only [List.foldl_cons, Nat.zero_add]; rw [ihl (a + x), ihl x]; omega
        rw [this sums v]
        simp only [Int.natCast_add]; omega

when_kernel Gzx.Gen.K17.calculateThresholdForBlock in
/-- the whole window: the kernel's `sum` is `K17c.thrSum` (or the index panic) -/
theorem k_ctb_sum (bps : List (List Nat)) (top left : Nat) :
    loop (Gen.K17.calculateThresholdForBlock_body3 (rows2 bps) top left) 1 5 (-2) 0 =
      match thrSum bps top left with
      | .ok v => .next ((v : Nat) : Int)
      | .error _ => .panic oob := by
  unfold thrSum
  by_cases h : top < 2
  · simp only [h, if_true]
    rw [loop_succ]
    simp only [Gen.K17.calculateThresholdForBlock_body3]
    rw [idxRow_neg _ _ (by omega)]
    rfl
  · simp only [h, if_false]
    rw [five_rows top h]
    have := k_ctb_rows bps top left 5 (top - 2) 0
    rw [show (((top - 2 : Nat) : Int) - (top : Int)) = -2 by omega] at this
    rw [this]
    cases mapME (rowSum5 bps left) (List.range' (top - 2) 5) with
    | error e => rfl
    | ok sums => simp

/-- `x << 3` clamped to `dim - 8` -/
theorem blockOffset_cast (i dim : Nat) (hd : 8 ≤ dim) :
    (if decide (ishl (i : Int) 3 > (dim : Int) - 8) = true then (dim : Int) - 8 else ishl (i : Int) 3) =
      ((blockOffset i dim : Nat) : Int) := by
  have e : ishl (i : Int) 3 = ((i * 8 : Nat) : Int) := by
    rw [show (3 : Int) = ((3 : Nat) : Int) from rfl, ishl_natCast, Nat.shiftLeft_eq]
  rw [e]
  unfold blockOffset
  by_cases h : i * 8 > dim - 8
  · have : ((i * 8 : Nat) : Int) > (dim : Int) - 8 := by omega
    simp only [this, h, decide_true, if_true]; omega
  · have : ¬ ((i * 8 : Nat) : Int) > (dim : Int) - 8 := by omega
    simp only [this, h, decide_false, Bool.false_eq_true, if_false]

when_kernel Gzx.Gen.K17.calculateThresholdForBlock in
/-- one block -/
theorem k_ctb_block (lum : List Nat) (w h : Nat) (bps : List (List Nat)) (subW subH rs y x : Nat) (ws : List Nat)
    (hw : 8 ≤ w) (hh : 8 ≤ h) (hsw : 3 ≤ subW) (hsh : 3 ≤ subH) :
    Gen.K17.calculateThresholdForBlock_body2 (bytes lum) subW w (rows2 bps) rs ((w : Int) - 8) ((blockOffset y h : Nat) : Int)
        ((cap y 2 (subH - 3) : Nat) : Int) (x : Int) (words ws) =
      ofRes ((hybBlockW lum w h bps subW subH rs y ws x).map words) := by
  simp only [Gen.K17.calculateThresholdForBlock_body2, hybBlockW]
  have hc : Gen.K17.cap (x : Int) 2 ((subW - 3 : Nat) : Int) = .ok ((cap x 2 (subW - 3) : Nat) : Int) :=
    K17Lum.k_cap_eq x 2 (subW - 3)
  rw [blockOffset_cast x w hw, show (subW : Int) - 3 = ((subW - 3 : Nat) : Int) by omega, hc]
  simp only [tryC_ok]
  rw [show tripUp (-2) 3 1 = 5 from rfl, k_ctb_sum, blockThreshold_eq]
  cases thrSum bps (cap y 2 (subH - 3)) (cap x 2 (subW - 3)) with
  | error e => rfl
  | ok v =>
    simp only [Except.map, next_thenC]
    rw [show (25 : Int) = ((25 : Nat) : Int) from rfl, tdiv_natCast, k_thresholdBlock_eq]
    cases rectW lum w (blockOffset x w) (blockOffset y h) 8 8 (fun p => decide (p ≤ v / 25)) rs ws <;> rfl

when_kernel Gzx.Gen.K17.calculateThresholdForBlock in
/-- `calculateThresholdForBlock(luminances, subWidth, subHeight, width, height, blackPoints, matrix)` = the mirror `K17c.hybW`
    for every image of at least 8x8 pixels and at least 3x3 blocks (the method runs from 40x40 pixels = 5x5 blocks up) -/
theorem k_calculateThresholdForBlock_eq (lum : List Nat) (w h : Nat) (bps : List (List Nat)) (subW subH rs : Nat) (ws : List Nat)
    (hw : 8 ≤ w) (hh : 8 ≤ h) (hsw : 3 ≤ subW) (hsh : 3 ≤ subH) :
    Gen.K17.calculateThresholdForBlock (bytes lum) subW subH w h (rows2 bps) rs (words ws) =
      (hybW lum w h bps subW subH rs ws).map words := by
  simp only [Gen.K17.calculateThresholdForBlock, hybW]
  rw [loop_up_fold' words (hybRowW lum w h bps subW subH rs) 0 subH ws rfl (by rw [tripUp_one]; omega) (by omega)]
  · cases (List.range' 0 subH).foldlM (hybRowW lum w h bps subW subH rs) ws <;> rfl
  · intro y _ _ t
    simp only [Gen.K17.calculateThresholdForBlock_body1, hybRowW]
    have hc : Gen.K17.cap (y : Int) 2 ((subH - 3 : Nat) : Int) = .ok ((cap y 2 (subH - 3) : Nat) : Int) :=
      K17Lum.k_cap_eq y 2 (subH - 3)
    rw [blockOffset_cast y h hh, show (subH : Int) - 3 = ((subH - 3 : Nat) : Int) by omega, hc]
    simp only [tryC_ok]
    rw [loop_up_fold' words (hybBlockW lum w h bps subW subH rs y) 0 subW t rfl (by rw [tripUp_one]; omega) (by omega)
          (fun x _ _ t => k_ctb_block lum w h bps subW subH rs y x t hw hh hsw hsh)]
    cases (List.range' 0 subW).foldlM (hybBlockW lum w h bps subW subH rs y) t <;> rfl

when_kernel Gzx.Gen.K17.calculateThresholdForBlock in
/-- **calculateThresholdForBlock, Go source to model**: from 40x40 pixels up the regenerated function performs exactly the `Set`
    calls of `Binarizer.hybridBlocks` in the same order (or panics where the model reports a failed read) -/
theorem k_calculateThresholdForBlock_model (lum : List Nat) (w h : Nat) (bps : List (List Nat)) (rs : Nat) (ws : List Nat)
    (hw : 40 ≤ w) (hh : 40 ≤ h) :
    ∃ r, Gen.K17.calculateThresholdForBlock (bytes lum) (subDim w) (subDim h) w h (rows2 bps) rs (words ws) = r.map words ∧
      ScanAgrees rs ws r (hybridBlocks lum.toArray w h bps) :=
  ⟨_, k_calculateThresholdForBlock_eq lum w h bps _ _ rs ws (by omega) (by omega)
        (by unfold subDim; split <;> omega) (by unfold subDim; split <;> omega),
    hybW_agrees lum w h bps rs ws⟩

-- non-vacuity (of the panic branch): with 3x3 blocks the 5x5 window leaves the table of black points: index panic
when_kernel Gzx.Gen.K17.calculateThresholdForBlock in
example : Gen.K17.calculateThresholdForBlock (bytes (List.replicate 576 0)) 3 3 24 24
    (rows2 (List.replicate 3 (List.replicate 3 10))) 1 (words (List.replicate 24 0)) = .error oob := by decide +kernel

end Gzx.Obligations.K17c
