/-
  K17d (work package kfinish) — `HybridBinarizer.calculateBlackPoints`, regenerated from /repo on every run (`Gzx.Gen.K17`; nested
  counted loops, the two `for yy, offset … ; yy < BLOCK_SIZE; …` loops as fuel-bounded `for cond` loops, the `[][]int` table with
  checked row / element access) and proved equal to `Binarizer.calculateBlackPoints` of Model/Binarizer.lean:
  the pixel scan of a block with its short cut once the dynamic range is met (`k_scan_eq` = `Binarizer.scanBlock`), the black point
  of a block from the scan and the three neighbours (`k_cbp_block`), a row of blocks (`k_cbp_row` = `Binarizer.bpRow`) and the table
  (`k_calculateBlackPoints_eq`).  For every image of at least 8x8 pixels, every luminance array (too short ones: the index panic
  where the model's read fails) and every fuel ≥ 10.
-/
import Gzx.Gen.K17
import Gzx.KernelGuard
import Gzx.Proofs.K17c
import Gzx.Obligations.K17c
import Gzx.Proofs.K08c
namespace Gzx.Obligations.K17d
open Gzx Gzx.GoM Gzx.Bits Gzx.GoVal Gzx.Binarizer Gzx.K17 Gzx.K17b Gzx.K17c Gzx.Obligations.K17Hyb Gzx.Obligations.K17c

/-! ## reading eight pixels -/

/-- a loop step that reads one value through `g` and folds it into the state (every read failure is the index panic) -/
def readStep {τ : Type} (g : Nat → Res Nat) (step : τ → Nat → τ) (t : τ) (x : Nat) : Res τ :=
  match g x with
  | .ok p => .ok (step t p)
  | .error _ => .error oob

theorem foldlM_readStep {τ : Type} (g : Nat → Res Nat) (step : τ → Nat → τ) : ∀ (xs : List Nat) (t : τ),
    xs.foldlM (readStep g step) t =
      match mapME g xs with
      | .ok ps => .ok (ps.foldl step t)
      | .error _ => .error oob := by
  intro xs
  induction xs with
  | nil => intro t; rfl
  | cons x xs ih =>
    intro t
    simp only [List.foldlM, mapME, readStep, bind, Except.bind]
    cases g x with
    | error e => rfl
    | ok p =>
      simp only []
      rw [ih (step t p)]
      cases mapME g xs <;> rfl

/-- the state `(sum, min, max)` of the scan as Go ints -/
def tri (s : Scan) : Int × Int × Int := ((s.sum : Int), (s.mn : Int), (s.mx : Int))

theorem blockPixel_eq (lum : List Nat) (w xo yo yy xx : Nat) :
    blockPixel lum.toArray w xo yo yy xx =
      match lum[(yo + yy) * w + xo + xx]? with
      | some p => .ok (p % 256)
      | none => .error (.panic "luminances index out of range") := by
  unfold blockPixel rd
  rw [List.getElem?_toArray]
  cases lum[(yo + yy) * w + xo + xx]? <;> rfl

when_kernel Gzx.Gen.K17.calculateBlackPoints in
/-- the first pixel loop of a block row: `sum += pixel`, `min`, `max` -/
theorem k_cbp_rowScan (lum : List Nat) (w xo yo yy : Nat) (s : Scan) :
    loop (Gen.K17.calculateBlackPoints_body4 (bytes lum) ((((yo + yy) * w + xo : Nat)) : Int)) 1 8 0 (tri s) =
      match blockRow lum.toArray w xo yo yy with
      | .ok ps => .next (tri (ps.foldl scanPixel s))
      | .error _ => .panic oob := by
  rw [loop_up_fold' tri (readStep (blockPixel lum.toArray w xo yo yy) scanPixel) 0 8 s rfl rfl (show (0 : Int) = ((0 : Nat) : Int) from rfl)]
  · rw [foldlM_readStep]
    unfold blockRow
    rw [List.range_eq_range']
    cases mapME (blockPixel lum.toArray w xo yo yy) (List.range' 0 8) <;> rfl
  · intro xx _ _ t
    simp only [Gen.K17.calculateBlackPoints_body4, readStep, blockPixel_eq]
    rw [show ((((yo + yy) * w + xo : Nat)) : Int) + (xx : Int) = (((yo + yy) * w + xo + xx : Nat) : Int) by omega, bytes, idx_bytes]
    cases lum[(yo + yy) * w + xo + xx]? with
    | none => rfl
    | some p =>
      simp only [tryC_ok, tri]
      rw [show ((p : Nat) : Int) = Int.ofNat p from rfl, byte_and]
      have h1 : ((t.sum : Nat) : Int) + ((p % 256 : Nat) : Int) = ((t.sum + p % 256 : Nat) : Int) := by omega
      have hm1 : (((p % 256 : Nat) : Int) < ((t.mn : Nat) : Int)) = (p % 256 < t.mn) := propext (by omega)
      have hm2 : (((p % 256 : Nat) : Int) > ((t.mx : Nat) : Int)) = (p % 256 > t.mx) := propext (by omega)
      simp only [Except.map, ofRes_ok, scanPixel, tri, h1, hm1, hm2]
      by_cases hmn : p % 256 < t.mn
      · have e1 : min t.mn (p % 256) = p % 256 := by omega
        by_cases hmx : p % 256 > t.mx
        · have e2 : max t.mx (p % 256) = p % 256 := by omega
          simp only [hmn, hmx, decide_true, if_true, e1, e2]
        · have e2 : max t.mx (p % 256) = t.mx := by omega
          simp only [hmn, hmx, decide_true, decide_false, if_true, if_false, Bool.false_eq_true, e1, e2]
      · have e1 : min t.mn (p % 256) = t.mn := by omega
        by_cases hmx : p % 256 > t.mx
        · have e2 : max t.mx (p % 256) = p % 256 := by omega
          simp only [hmn, hmx, decide_true, decide_false, if_true, if_false, Bool.false_eq_true, e1, e2]
        · have e2 : max t.mx (p % 256) = t.mx := by omega
          simp only [hmn, hmx, decide_false, if_false, Bool.false_eq_true, e1, e2]

when_kernel Gzx.Gen.K17.calculateBlackPoints in
/-- the summing pixel loop of a block row (after the dynamic range was met) -/
theorem k_cbp_rowSum (lum : List Nat) (w xo yo yy : Nat) (sum : Nat) :
    loop (Gen.K17.calculateBlackPoints_body6 (bytes lum) ((((yo + yy) * w + xo : Nat)) : Int)) 1 8 0 ((sum : Nat) : Int) =
      match blockRow lum.toArray w xo yo yy with
      | .ok ps => .next (((ps.foldl (· + ·) sum : Nat)) : Int)
      | .error _ => .panic oob := by
  rw [loop_up_fold' (fun (n : Nat) => (n : Int)) (readStep (blockPixel lum.toArray w xo yo yy) (· + ·)) 0 8 sum rfl rfl (show (0 : Int) = ((0 : Nat) : Int) from rfl)]
  · rw [foldlM_readStep]
    unfold blockRow
    rw [List.range_eq_range']
    cases mapME (blockPixel lum.toArray w xo yo yy) (List.range' 0 8) <;> rfl
  · intro xx _ _ t
    simp only [Gen.K17.calculateBlackPoints_body6, readStep, blockPixel_eq]
    rw [show ((((yo + yy) * w + xo : Nat)) : Int) + (xx : Int) = (((yo + yy) * w + xo + xx : Nat) : Int) by omega, bytes, idx_bytes]
    cases lum[(yo + yy) * w + xo + xx]? with
    | none => rfl
    | some p =>
      simp only [tryC_ok]
      rw [show ((p : Nat) : Int) = Int.ofNat p from rfl, byte_and]
      simp only [Except.map, ofRes_ok, Int.natCast_add]

/-! ## the two `for yy, offset` loops -/

/-- once the range is met, the remaining rows only add to the sum -/
theorem foldl_scanRow_met (rows : List (List Nat)) : ∀ (s : Scan), s.met = true →
    rows.foldl scanRow s = { s with sum := rows.foldl (fun a ps => ps.foldl (· + ·) a) s.sum } := by
  induction rows with
  | nil => intro s _; rfl
  | cons ps rows ih =>
    intro s hs
    simp only [List.foldl_cons]
    have e : scanRow s ps = { s with sum := ps.foldl (· + ·) s.sum } := by unfold scanRow; simp [hs]
    rw [e, ih { s with sum := ps.foldl (· + ·) s.sum } hs]

theorem offset_cast (w xo yo yy : Nat) :
    (((yo * w + xo : Nat)) : Int) + (yy : Int) * (w : Int) = ((((yo + yy) * w + xo : Nat)) : Int) := by
  rw [Nat.add_mul]; simp only [Int.natCast_add, Int.natCast_mul]; omega

when_kernel Gzx.Gen.K17.calculateBlackPoints in
/-- the inner `for yy, offset = yy+1, offset+width; yy < BLOCK_SIZE; …` loop from row `k` on -/
theorem k_cbp_sumLoop (lum : List Nat) (w xo yo : Nat) : ∀ (m k : Nat) (sum fuel : Nat), k + m = 8 → m < fuel →
    whileLoop (Gen.K17.calculateBlackPoints_body5 (bytes lum) (w : Int)) fuel
        (((sum : Nat) : Int), ((k : Nat) : Int), (((yo + k) * w + xo : Nat) : Int)) =
      match mapME (blockRow lum.toArray w xo yo) (List.range' k m) with
      | .ok rows => .brk ((((rows.foldl (fun a ps => ps.foldl (· + ·) a) sum : Nat)) : Int), 8, (((yo + 8) * w + xo : Nat) : Int))
      | .error _ => .panic oob := by
  intro m
  induction m with
  | zero =>
    intro k sum fuel hk hf
    obtain ⟨fuel, rfl⟩ : ∃ f, fuel = f + 1 := ⟨fuel - 1, by omega⟩
    have : k = 8 := by omega
    subst this
    rw [whileLoop_succ]
    simp [Gen.K17.calculateBlackPoints_body5, mapME]
  | succ m ih =>
    intro k sum fuel hk hf
    obtain ⟨fuel, rfl⟩ : ∃ f, fuel = f + 1 := ⟨fuel - 1, by omega⟩
    rw [whileLoop_succ]
    have hlt : ((k : Nat) : Int) < 8 := by omega
    simp only [Gen.K17.calculateBlackPoints_body5, hlt, decide_true, if_true]
    rw [show tripUp 0 8 1 = 8 from rfl, k_cbp_rowSum lum w xo yo k sum, List.range'_succ]
    simp only [mapME]
    cases blockRow lum.toArray w xo yo k with
    | error e => rfl
    | ok ps =>
      simp only [next_thenC]
      have e1 : ((k : Nat) : Int) + 1 = ((k + 1 : Nat) : Int) := by omega
      have e2 : (((yo + k) * w + xo : Nat) : Int) + (w : Int) = (((yo + (k + 1)) * w + xo : Nat) : Int) := by
        have : (yo + (k + 1)) * w + xo = (yo + k) * w + xo + w := by
          rw [show yo + (k + 1) = (yo + k) + 1 by omega, Nat.add_mul, Nat.one_mul]; omega
        rw [this]; omega
      rw [e1, e2, ih (k + 1) _ fuel (by omega) (by omega)]
      cases mapME (blockRow lum.toArray w xo yo) (List.range' (k + 1) m) <;> rfl

when_kernel Gzx.Gen.K17.calculateBlackPoints in
/-- the outer `for yy, offset := 0, …` loop from row `k` on, while the dynamic range is not yet met -/
theorem k_cbp_scanLoop (lum : List Nat) (w xo yo fuelIn : Nat) (hfi : 8 < fuelIn) : ∀ (m k : Nat) (s : Scan) (fuel : Nat),
    k + m = 8 → m + 1 < fuel → s.met = false →
    ∃ yyf offf, whileLoop (Gen.K17.calculateBlackPoints_body3 fuelIn (bytes lum) (w : Int)) fuel
        (((s.sum : Nat) : Int), ((s.mn : Nat) : Int), ((s.mx : Nat) : Int), ((k : Nat) : Int), (((yo + k) * w + xo : Nat) : Int)) =
      match mapME (blockRow lum.toArray w xo yo) (List.range' k m) with
      | .ok rows => .brk ((((rows.foldl scanRow s).sum : Nat) : Int), (((rows.foldl scanRow s).mn : Nat) : Int),
          (((rows.foldl scanRow s).mx : Nat) : Int), yyf, offf)
      | .error _ => .panic oob := by
  intro m
  induction m with
  | zero =>
    intro k s fuel hk hf _
    obtain ⟨fuel, rfl⟩ : ∃ f, fuel = f + 1 := ⟨fuel - 1, by omega⟩
    have : k = 8 := by omega
    subst this
    refine ⟨8, (((yo + 8) * w + xo : Nat) : Int), ?_⟩
    rw [whileLoop_succ]
    simp [Gen.K17.calculateBlackPoints_body3, mapME]
  | succ m ih =>
    intro k s fuel hk hf hs
    obtain ⟨fuel, rfl⟩ : ∃ f, fuel = f + 1 := ⟨fuel - 1, by omega⟩
    have hlt : ((k : Nat) : Int) < 8 := by omega
    have hrow := k_cbp_rowScan lum w xo yo k s
    simp only [tri] at hrow
    have e1 : ((k : Nat) : Int) + 1 = ((k + 1 : Nat) : Int) := by omega
    have e2 : (((yo + k) * w + xo : Nat) : Int) + (w : Int) = (((yo + (k + 1)) * w + xo : Nat) : Int) := by
      have : (yo + (k + 1)) * w + xo = (yo + k) * w + xo + w := by
        rw [show yo + (k + 1) = (yo + k) + 1 by omega, Nat.add_mul, Nat.one_mul]; omega
      rw [this]; omega
    cases hr : blockRow lum.toArray w xo yo k with
    | error e =>
      refine ⟨0, 0, ?_⟩
      rw [whileLoop_succ]
      simp only [Gen.K17.calculateBlackPoints_body3, hlt, decide_true, if_true]
      rw [show tripUp 0 8 1 = 8 from rfl, hrow, hr, List.range'_succ]
      simp only [mapME, hr]
      rfl
    | ok ps =>
      rw [hr] at hrow
      simp only [] at hrow
      -- the state after this row
      have hsr : scanRow s ps = { ps.foldl scanPixel s with met := decide ((ps.foldl scanPixel s).mx - (ps.foldl scanPixel s).mn > MIN_DYNAMIC_RANGE) } := by
        unfold scanRow; simp [hs]
      by_cases hmet : (ps.foldl scanPixel s).mx - (ps.foldl scanPixel s).mn > 24
      · -- range met: the inner loop sums the rest, then both loops end
        have hcond : (((ps.foldl scanPixel s).mx : Nat) : Int) - (((ps.foldl scanPixel s).mn : Nat) : Int) > 24 := by omega
        have hinner := k_cbp_sumLoop lum w xo yo m (k + 1) (ps.foldl scanPixel s).sum fuelIn (by omega) (by omega)
        refine ⟨8 + 1, (((yo + 8) * w + xo : Nat) : Int) + (w : Int), ?_⟩
        rw [whileLoop_succ]
        simp only [Gen.K17.calculateBlackPoints_body3, hlt, decide_true, if_true]
        rw [show tripUp 0 8 1 = 8 from rfl, hrow]
        simp only [next_thenC, hcond, decide_true, if_true]
        rw [e1, e2, hinner, List.range'_succ]
        simp only [mapME, hr]
        cases hm : mapME (blockRow lum.toArray w xo yo) (List.range' (k + 1) m) with
        | error e => rfl
        | ok rows =>
          simp only [brk_thenC, List.foldl_cons]
          -- one more round of the outer loop: yy = 9 is not < 8
          obtain ⟨fuel, rfl⟩ : ∃ f, fuel = f + 1 := ⟨fuel - 1, by omega⟩
          rw [whileLoop_succ]
          have h9 : ¬ ((8 : Int) + 1 < 8) := by omega
          simp only [Gen.K17.calculateBlackPoints_body3, h9, decide_false, Bool.false_eq_true, if_false]
          have hmt : (scanRow s ps).met = true := by rw [hsr]; simp [MIN_DYNAMIC_RANGE, hmet]
          rw [foldl_scanRow_met rows _ hmt, hsr]
      · -- range not met: next row
        have hcond : ¬ ((((ps.foldl scanPixel s).mx : Nat) : Int) - (((ps.foldl scanPixel s).mn : Nat) : Int) > 24) := by omega
        have hmf : (scanRow s ps).met = false := by rw [hsr]; simp [MIN_DYNAMIC_RANGE, hmet]
        obtain ⟨yyf, offf, hih⟩ := ih (k + 1) (scanRow s ps) fuel (by omega) (by omega) hmf
        refine ⟨yyf, offf, ?_⟩
        rw [whileLoop_succ]
        simp only [Gen.K17.calculateBlackPoints_body3, hlt, decide_true, if_true]
        rw [show tripUp 0 8 1 = 8 from rfl, hrow]
        simp only [next_thenC, hcond, decide_false, Bool.false_eq_true, if_false]
        rw [e1, e2]
        have hst : (scanRow s ps).sum = (ps.foldl scanPixel s).sum ∧ (scanRow s ps).mn = (ps.foldl scanPixel s).mn ∧
            (scanRow s ps).mx = (ps.foldl scanPixel s).mx := by rw [hsr]; exact ⟨rfl, rfl, rfl⟩
        rw [← hst.1, ← hst.2.1, ← hst.2.2, hih, List.range'_succ]
        simp only [mapME, hr]
        cases mapME (blockRow lum.toArray w xo yo) (List.range' (k + 1) m) <;> rfl

when_kernel Gzx.Gen.K17.calculateBlackPoints in
/-- **the pixel scan of one block** = `Binarizer.scanBlock` (sum, min, max; the index panic where a read fails) -/
theorem k_scan_eq (lum : List Nat) (w xo yo fuel : Nat) (hf : 10 ≤ fuel) :
    ∃ yyf offf, whileLoop (Gen.K17.calculateBlackPoints_body3 fuel (bytes lum) (w : Int)) fuel
        (0, 255, 0, 0, (((yo * w + xo : Nat)) : Int)) =
      match scanBlock lum.toArray w xo yo with
      | .ok s => .brk (((s.sum : Nat) : Int), ((s.mn : Nat) : Int), ((s.mx : Nat) : Int), yyf, offf)
      | .error _ => .panic oob := by
  obtain ⟨yyf, offf, h⟩ := k_cbp_scanLoop lum w xo yo fuel (by omega) 8 0 scanInit fuel rfl (by omega) rfl
  refine ⟨yyf, offf, ?_⟩
  have e0 : (((yo + 0) * w + xo : Nat) : Int) = (((yo * w + xo : Nat)) : Int) := by simp
  rw [e0] at h
  have h' : whileLoop (Gen.K17.calculateBlackPoints_body3 fuel (bytes lum) (w : Int)) fuel
      (0, 255, 0, 0, (((yo * w + xo : Nat)) : Int)) = _ := h
  rw [h']
  unfold scanBlock
  rw [List.range_eq_range']
  cases mapME (blockRow lum.toArray w xo yo) (List.range' 0 8) <;> rfl

/-! ## the table of black points -/

/-- the Go table between two rows: `done` complete rows, nil rows below -/
def tableB (subH : Nat) (done : List (List Nat)) : List (List Int) := rows2 done ++ List.replicate (subH - done.length) []

/-- … while row `done.length` is being filled: its computed prefix `acc`, zeros behind -/
def tableOf (subW subH : Nat) (done : List (List Nat)) (acc : List Nat) : List (List Int) :=
  rows2 done ++ (bytes acc ++ List.replicate (subW - acc.length) 0) :: List.replicate (subH - done.length - 1) []

theorem rows2_length (done : List (List Nat)) : (rows2 done).length = done.length := by simp [rows2]

theorem idxRow_cur (subW subH : Nat) (done : List (List Nat)) (acc : List Nat) :
    idxRow (tableOf subW subH done acc) ((done.length : Nat) : Int) = .ok (bytes acc ++ List.replicate (subW - acc.length) 0) := by
  unfold idxRow tableOf
  have h0 : ¬ (((done.length : Nat) : Int) < 0) := by omega
  simp only [h0, if_false, Int.toNat_natCast]
  rw [List.getElem?_append_right (by rw [rows2_length]; exact Nat.le_refl _), rows2_length, Nat.sub_self]
  rfl

theorem idxRow_prev (subW subH : Nat) (done : List (List Nat)) (acc : List Nat) (i : Nat) (hi : i < done.length) :
    idxRow (tableOf subW subH done acc) ((i : Nat) : Int) = .ok (bytes done[i]) := by
  unfold idxRow tableOf
  have h0 : ¬ (((i : Nat) : Int) < 0) := by omega
  simp only [h0, if_false, Int.toNat_natCast]
  rw [List.getElem?_append_left (by rw [rows2_length]; exact hi)]
  simp [rows2, hi]

theorem setRow_cur (subW subH : Nat) (done : List (List Nat)) (acc : List Nat) (r : List Int) :
    setRow (tableOf subW subH done acc) ((done.length : Nat) : Int) r =
      .ok (rows2 done ++ r :: List.replicate (subH - done.length - 1) []) := by
  unfold setRow tableOf
  have h0 : ¬ (((done.length : Nat) : Int) < 0) := by omega
  simp only [h0, if_false, Int.toNat_natCast]
  have hl : done.length < (rows2 done ++ (bytes acc ++ List.replicate (subW - acc.length) 0) ::
      List.replicate (subH - done.length - 1) []).length := by simp [rows2_length]
  simp only [hl, if_true]
  congr 1
  rw [List.set_append_right _ _ (by rw [rows2_length]; exact Nat.le_refl _), rows2_length, Nat.sub_self]
  rfl

/-- `blackPoints[y][x] = v` for the next cell of the current row (after the row was fetched) -/
theorem table_write' (subW subH : Nat) (done : List (List Nat)) (acc : List Nat) (hx : acc.length < subW) (v : Nat) :
    (tryC (setIdx (bytes acc ++ List.replicate (subW - acc.length) 0) ((acc.length : Nat) : Int) ((v : Nat) : Int)) fun t13 =>
      tryC (setRow (tableOf subW subH done acc) ((done.length : Nat) : Int) t13) fun t14 =>
      (Ctl.next t14 : Ctl (List (List Int)) (List (List Int)))) = .next (tableOf subW subH done (acc ++ [v])) := by
  have hl : acc.length < (bytes acc ++ List.replicate (subW - acc.length) (0 : Int)).length := by simp [bytes]; omega
  rw [K08c.setIdx_nat _ _ _ hl]
  simp only [tryC_ok]
  rw [setRow_cur]
  simp only [tryC_ok]
  congr 1
  unfold tableOf
  congr 2
  have e1 : (bytes acc).length = acc.length := by simp [bytes]
  rw [List.set_append_right _ _ (by rw [e1]; exact Nat.le_refl _), e1, Nat.sub_self]
  obtain ⟨k, hk⟩ : ∃ k, subW - acc.length = k + 1 := ⟨subW - acc.length - 1, by omega⟩
  rw [hk, List.replicate_succ, List.set_cons_zero]
  have e2 : subW - (acc ++ [v]).length = k := by simp; omega
  rw [e2]
  simp [bytes]

/-- `blackPoints[y][x] = v` for the next cell of the current row -/
theorem table_write (subW subH : Nat) (done : List (List Nat)) (acc : List Nat) (hx : acc.length < subW) (v : Nat) :
    (tryC (idxRow (tableOf subW subH done acc) ((done.length : Nat) : Int)) fun t12 =>
      tryC (setIdx t12 ((acc.length : Nat) : Int) ((v : Nat) : Int)) fun t13 =>
      tryC (setRow (tableOf subW subH done acc) ((done.length : Nat) : Int) t13) fun t14 =>
      (Ctl.next t14 : Ctl (List (List Int)) (List (List Int)))) = .next (tableOf subW subH done (acc ++ [v])) := by
  rw [idxRow_cur]
  simp only [tryC_ok]
  exact table_write' subW subH done acc hx v

/-- one block of the model: the scan, the neighbours (present from the second row / column on), the black point -/
def bpStep (lum : List Nat) (w h : Nat) (done : List (List Nat)) (acc : List Nat) : Res Nat :=
  match scanBlock lum.toArray w (blockOffset acc.length w) (blockOffset done.length h) with
  | .error e => .error e
  | .ok s =>
    match neighboursOf done.getLast? acc acc.length with
    | .error e => .error e
    | .ok nb => .ok (blockBlackPoint s nb)

theorem idx_cur_prefix (subW : Nat) (acc : List Nat) (i : Nat) (hi : i < acc.length) :
    idx (bytes acc ++ List.replicate (subW - acc.length) 0) ((i : Nat) : Int) = .ok ((acc[i] : Nat) : Int) := by
  rw [idx_ofNat _ _ (by simp [bytes]; omega)]
  congr 1
  rw [List.getElem_append_left (by simp [bytes]; exact hi)]
  simp [bytes]

when_kernel Gzx.Gen.K17.calculateBlackPoints in
/-- **one block of `calculateBlackPoints`**: scan, default estimate `sum >> 6`, the low-contrast rule `min / 2` corrected by the
    neighbours `(bp[y-1][x] + 2·bp[y][x-1] + bp[y-1][x-1]) / 4`, and the write into the table -/
theorem k_cbp_block (lum : List Nat) (w h subW subH fuel : Nat) (hw : 8 ≤ w) (hh : 8 ≤ h) (hf : 10 ≤ fuel)
    (done : List (List Nat)) (acc : List Nat) (hrows : ∀ r ∈ done, r.length = subW) (hx : acc.length < subW) :
    Gen.K17.calculateBlackPoints_body2 fuel (bytes lum) (w : Int) ((w : Int) - 8) ((done.length : Nat) : Int)
        ((blockOffset done.length h : Nat) : Int) ((acc.length : Nat) : Int) (tableOf subW subH done acc) =
      match bpStep lum w h done acc with
      | .ok v => .next (tableOf subW subH done (acc ++ [v]))
      | .error _ => .panic oob := by
  simp only [Gen.K17.calculateBlackPoints_body2, bpStep]
  rw [blockOffset_cast acc.length w hw]
  have eoff : ((blockOffset done.length h : Nat) : Int) * (w : Int) + ((blockOffset acc.length w : Nat) : Int) =
      (((blockOffset done.length h * w + blockOffset acc.length w : Nat)) : Int) := by
    simp only [Int.natCast_add, Int.natCast_mul]
  rw [eoff]
  obtain ⟨yyf, offf, hscan⟩ := k_scan_eq lum w (blockOffset acc.length w) (blockOffset done.length h) fuel hf
  rw [hscan]
  cases scanBlock lum.toArray w (blockOffset acc.length w) (blockOffset done.length h) with
  | error e => rfl
  | ok s =>
    simp only [brk_thenC]
    have eavg : ishr ((s.sum : Nat) : Int) 6 = ((s.sum / 64 : Nat) : Int) := by
      rw [show (6 : Int) = ((6 : Nat) : Int) from rfl, ishr_natCast, Nat.shiftRight_eq_div_pow]
    have ehalf : Int.tdiv ((s.mn : Nat) : Int) 2 = ((s.mn / 2 : Nat) : Int) := by
      rw [show (2 : Int) = ((2 : Nat) : Int) from rfl, tdiv_natCast]
    have hcP : ((((s.mx : Nat) : Int) - ((s.mn : Nat) : Int)) ≤ 24) = (s.mx - s.mn ≤ MIN_DYNAMIC_RANGE) := by
      unfold MIN_DYNAMIC_RANGE; exact propext (by omega)
    simp only [eavg, ehalf, hcP, blockBlackPoint]
    by_cases hlow : s.mx - s.mn ≤ MIN_DYNAMIC_RANGE
    · simp only [hlow, decide_true, if_true]
      by_cases hy : done.length = 0
      · -- first row: no neighbours
        have hd : done = [] := List.eq_nil_of_length_eq_zero hy
        subst hd
        have hb : ((decide ((((([] : List (List Nat)).length : Nat)) : Int) > 0)) && (decide (((acc.length : Nat) : Int) > 0))) = false := by
          simp
        simp only [hb, Bool.false_eq_true, if_false, List.getLast?_nil, neighboursOf]
        exact table_write subW subH [] acc hx (s.mn / 2)
      · by_cases hx0 : acc.length = 0
        · have hb : ((decide (((done.length : Nat) : Int) > 0)) && (decide (((acc.length : Nat) : Int) > 0))) = false := by
            rw [hx0]; simp
          have hgl : done.getLast? = some done[done.length - 1] := by
            rw [List.getLast?_eq_getElem?, List.getElem?_eq_getElem (by omega)]
          simp only [hb, Bool.false_eq_true, if_false]
          simp only [hgl, neighboursOf, neighbours]
          rw [if_pos hx0]
          exact table_write subW subH done acc hx (s.mn / 2)
        · -- three neighbours
          have hb : ((decide (((done.length : Nat) : Int) > 0)) && (decide (((acc.length : Nat) : Int) > 0))) = true := by
            simp only [Bool.and_eq_true, decide_eq_true_eq]; omega
          have hgl : done.getLast? = some done[done.length - 1] := by
            rw [List.getLast?_eq_getElem?, List.getElem?_eq_getElem (by omega)]
          have hprl : (done[done.length - 1]'(by omega)).length = subW := hrows _ (List.getElem_mem _)
          simp only [hb, if_true, hgl, neighboursOf, neighbours, hx0, if_false]
          rw [show ((done.length : Nat) : Int) - 1 = ((done.length - 1 : Nat) : Int) by omega,
            show ((acc.length : Nat) : Int) - 1 = ((acc.length - 1 : Nat) : Int) by omega,
            idxRow_prev subW subH done acc (done.length - 1) (by omega), idxRow_cur]
          simp only [tryC_ok]
          rw [idx_cur_prefix subW acc (acc.length - 1) (by omega), bytes, idx_bytes, idx_bytes]
          rw [List.getElem?_eq_getElem (by omega : acc.length < (done[done.length - 1]'(by omega)).length),
            List.getElem?_eq_getElem (by omega : acc.length - 1 < (done[done.length - 1]'(by omega)).length),
            List.getElem?_eq_getElem (by omega : acc.length - 1 < acc.length)]
          simp only [tryC_ok]
          have eavgN : Int.tdiv ((((done[done.length - 1]'(by omega))[acc.length]'(by omega) : Nat) : Int) +
              2 * ((acc[acc.length - 1]'(by omega) : Nat) : Int) +
              (((done[done.length - 1]'(by omega))[acc.length - 1]'(by omega) : Nat) : Int)) 4 =
              ((((done[done.length - 1]'(by omega))[acc.length]'(by omega) + 2 * acc[acc.length - 1]'(by omega) +
                (done[done.length - 1]'(by omega))[acc.length - 1]'(by omega)) / 4 : Nat) : Int) := by
            rw [show (4 : Int) = ((4 : Nat) : Int) from rfl, ← tdiv_natCast]
            congr 1
          rw [eavgN]
          have hltP : ((((s.mn : Nat) : Int)) < ((((done[done.length - 1]'(by omega))[acc.length]'(by omega) +
              2 * acc[acc.length - 1]'(by omega) + (done[done.length - 1]'(by omega))[acc.length - 1]'(by omega)) / 4 : Nat) : Int)) =
              (s.mn < ((done[done.length - 1]'(by omega))[acc.length]'(by omega) + 2 * acc[acc.length - 1]'(by omega) +
                (done[done.length - 1]'(by omega))[acc.length - 1]'(by omega)) / 4) := propext (by omega)
          simp only [hltP]
          by_cases hlt : s.mn < ((done[done.length - 1]'(by omega))[acc.length]'(by omega) + 2 * acc[acc.length - 1]'(by omega) +
              (done[done.length - 1]'(by omega))[acc.length - 1]'(by omega)) / 4
          · simp only [hlt, decide_true, if_true]
            exact table_write' subW subH done acc hx _
          · simp only [hlt, decide_false, Bool.false_eq_true, if_false]
            exact table_write' subW subH done acc hx _
    · simp only [hlow, decide_false, Bool.false_eq_true, if_false]
      -- the neighbours are not looked at; the model computes them first: they never fail here
      have hnb : ∃ nb, neighboursOf done.getLast? acc acc.length = .ok nb := by
        by_cases hy : done.length = 0
        · have hd : done = [] := List.eq_nil_of_length_eq_zero hy
          subst hd; exact ⟨none, rfl⟩
        · have hgl : done.getLast? = some done[done.length - 1] := by
            rw [List.getLast?_eq_getElem?, List.getElem?_eq_getElem (by omega)]
          have hprl : (done[done.length - 1]'(by omega)).length = subW := hrows _ (List.getElem_mem _)
          rw [hgl]
          simp only [neighboursOf, neighbours]
          by_cases hx0 : acc.length = 0
          · exact ⟨none, by simp [hx0]⟩
          · simp only [hx0, if_false]
            rw [List.getElem?_eq_getElem (by omega : acc.length < (done[done.length - 1]'(by omega)).length),
              List.getElem?_eq_getElem (by omega : acc.length - 1 < (done[done.length - 1]'(by omega)).length),
              List.getElem?_eq_getElem (by omega : acc.length - 1 < acc.length)]
            exact ⟨_, rfl⟩
      obtain ⟨nb, hnb⟩ := hnb
      rw [hnb]
      simp only []
      exact table_write subW subH done acc hx _

/-! ## rows and the whole table -/

theorem bpRow_length (lum : Array Nat) (w ht y : Nat) (prev : Option (List Nat)) : ∀ (xs : List Nat) (acc row : List Nat),
    bpRow lum w ht y prev xs acc = .ok row → row.length = acc.length + xs.length := by
  intro xs
  induction xs with
  | nil => intro acc row he; simp only [bpRow, Except.ok.injEq] at he; subst he; simp
  | cons x xs ih =>
    intro acc row he
    simp only [bpRow] at he
    cases hs : scanBlock lum w (blockOffset x w) (blockOffset y ht) with
    | error e => simp [hs] at he
    | ok s =>
      cases hn : neighboursOf prev acc x with
      | error e => simp [hs, hn] at he
      | ok nb =>
        simp only [hs, hn] at he
        rw [ih _ _ he]; simp; omega

when_kernel Gzx.Gen.K17.calculateBlackPoints in
/-- the blocks `acc.length … subW-1` of a row -/
theorem k_cbp_rowLoop (lum : List Nat) (w h subW subH fuel : Nat) (hw : 8 ≤ w) (hh : 8 ≤ h) (hf : 10 ≤ fuel)
    (done : List (List Nat)) (hrows : ∀ r ∈ done, r.length = subW) : ∀ (n : Nat) (acc : List Nat), acc.length + n = subW →
    loop (Gen.K17.calculateBlackPoints_body2 fuel (bytes lum) (w : Int) ((w : Int) - 8) ((done.length : Nat) : Int)
        ((blockOffset done.length h : Nat) : Int)) 1 n ((acc.length : Nat) : Int) (tableOf subW subH done acc) =
      match bpRow lum.toArray w h done.length done.getLast? (List.range' acc.length n) acc with
      | .ok row => .next (tableOf subW subH done row)
      | .error _ => .panic oob := by
  intro n
  induction n with
  | zero => intro acc _; rfl
  | succ n ih =>
    intro acc hn
    rw [loop_succ, k_cbp_block lum w h subW subH fuel hw hh hf done acc hrows (by omega), List.range'_succ]
    simp only [bpRow, bpStep]
    cases scanBlock lum.toArray w (blockOffset acc.length w) (blockOffset done.length h) with
    | error e => rfl
    | ok s =>
      simp only []
      cases neighboursOf done.getLast? acc acc.length with
      | error e => rfl
      | ok nb =>
        simp only []
        have := ih (acc ++ [blockBlackPoint s nb]) (by simp; omega)
        simp only [List.length_append, List.length_cons, List.length_nil, Nat.zero_add] at this
        rw [show ((acc.length : Nat) : Int) + 1 = ((acc.length + 1 : Nat) : Int) by omega]
        exact this

when_kernel Gzx.Gen.K17.calculateBlackPoints in
/-- one row of the table: `blackPoints[y] = make([]int, subWidth)`, the clamped `yoffset`, the blocks -/
theorem k_cbp_row (lum : List Nat) (w h subW subH fuel : Nat) (hw : 8 ≤ w) (hh : 8 ≤ h) (hf : 10 ≤ fuel)
    (done : List (List Nat)) (hrows : ∀ r ∈ done, r.length = subW) (hy : done.length < subH) :
    Gen.K17.calculateBlackPoints_body1 fuel (bytes lum) (subW : Int) (w : Int) ((h : Int) - 8) ((w : Int) - 8)
        ((done.length : Nat) : Int) (tableB subH done) =
      match bpRow lum.toArray w h done.length done.getLast? (List.range subW) [] with
      | .ok row => .next (tableB subH (done ++ [row]))
      | .error _ => .panic oob := by
  simp only [Gen.K17.calculateBlackPoints_body1]
  rw [mk_words _ subW rfl]
  simp only [tryC_ok]
  have hset : setRow (tableB subH done) ((done.length : Nat) : Int) (words (List.replicate subW 0)) = .ok (tableOf subW subH done []) := by
    unfold setRow tableB tableOf
    have h0 : ¬ (((done.length : Nat) : Int) < 0) := by omega
    simp only [h0, if_false, Int.toNat_natCast]
    have hl : done.length < (rows2 done ++ List.replicate (subH - done.length) ([] : List Int)).length := by
      simp [rows2_length]; omega
    simp only [hl, if_true]
    congr 1
    rw [List.set_append_right _ _ (by rw [rows2_length]; exact Nat.le_refl _), rows2_length, Nat.sub_self]
    obtain ⟨k, hk⟩ : ∃ k, subH - done.length = k + 1 := ⟨subH - done.length - 1, by omega⟩
    rw [hk, List.replicate_succ, List.set_cons_zero, show k + 1 - 1 = k by omega]
    simp [bytes, words]
  rw [hset]
  simp only [tryC_ok]
  rw [blockOffset_cast done.length h hh, show tripUp 0 (subW : Int) 1 = subW by rw [tripUp_one]; omega]
  have hl := k_cbp_rowLoop lum w h subW subH fuel hw hh hf done hrows subW [] (by simp)
  simp only [List.length_nil] at hl
  have hl' : loop (Gen.K17.calculateBlackPoints_body2 fuel (bytes lum) (w : Int) ((w : Int) - 8) ((done.length : Nat) : Int)
      ((blockOffset done.length h : Nat) : Int)) 1 subW 0 (tableOf subW subH done []) = _ := hl
  rw [hl', List.range_eq_range']
  cases hr : bpRow lum.toArray w h done.length done.getLast? (List.range' 0 subW) [] with
  | error e => rfl
  | ok row =>
    simp only [next_thenC]
    have hrl : row.length = subW := by
      have := bpRow_length _ _ _ _ _ _ _ _ hr
      simpa using this
    congr 1
    unfold tableOf tableB
    rw [hrl, Nat.sub_self]
    simp only [List.replicate_zero, List.append_nil, List.length_append, List.length_cons, List.length_nil]
    rw [show subH - (done.length + (0 + 1)) = subH - done.length - 1 by omega]
    simp [rows2]

when_kernel Gzx.Gen.K17.calculateBlackPoints in
/-- the rows `done.length … subH-1` -/
theorem k_cbp_rows (lum : List Nat) (w h subW subH fuel : Nat) (hw : 8 ≤ w) (hh : 8 ≤ h) (hf : 10 ≤ fuel) :
    ∀ (m : Nat) (done : List (List Nat)), done.length + m = subH → (∀ r ∈ done, r.length = subW) →
    loop (Gen.K17.calculateBlackPoints_body1 fuel (bytes lum) (subW : Int) (w : Int) ((h : Int) - 8) ((w : Int) - 8)) 1 m
        ((done.length : Nat) : Int) (tableB subH done) =
      match bpRows lum.toArray w h subW (List.range' done.length m) done.getLast? done with
      | .ok all => .next (tableB subH all)
      | .error _ => .panic oob := by
  intro m
  induction m with
  | zero => intro done _ _; rfl
  | succ m ih =>
    intro done hm hrows
    rw [loop_succ, k_cbp_row lum w h subW subH fuel hw hh hf done hrows (by omega), List.range'_succ]
    simp only [bpRows]
    cases hr : bpRow lum.toArray w h done.length done.getLast? (List.range subW) [] with
    | error e => rfl
    | ok row =>
      simp only []
      have hrl : row.length = subW := by
        have := bpRow_length _ _ _ _ _ _ _ _ hr
        simpa using this
      have := ih (done ++ [row]) (by simp; omega) (by
        intro r hr'
        rcases List.mem_append.mp hr' with h1 | h1
        · exact hrows r h1
        · simp only [List.mem_singleton] at h1; rw [h1]; exact hrl)
      simp only [List.length_append, List.length_cons, List.length_nil, Nat.zero_add, List.getLast?_append, List.getLast?_singleton,
        Option.some_or] at this
      rw [show ((done.length : Nat) : Int) + 1 = ((done.length + 1 : Nat) : Int) by omega]
      exact this

when_kernel Gzx.Gen.K17.calculateBlackPoints in
/-- `calculateBlackPoints(luminances, subWidth, subHeight, width, height)` = `Binarizer.bpRows` over all rows, for every image
    of at least 8x8 pixels, any block counts, any luminance array and any fuel ≥ 10 -/
theorem k_calculateBlackPoints_eq (lum : List Nat) (w h subW subH fuel : Nat) (hw : 8 ≤ w) (hh : 8 ≤ h) (hf : 10 ≤ fuel) :
    Gen.K17.calculateBlackPoints fuel (bytes lum) subW subH w h =
      match bpRows lum.toArray w h subW (List.range subH) none [] with
      | .ok all => .ok (rows2 all)
      | .error _ => .error oob := by
  simp only [Gen.K17.calculateBlackPoints]
  have hmk : mk2 (subH : Int) = .ok (tableB subH []) := by
    unfold mk2 tableB
    have : ¬ ((subH : Int) < 0) := by omega
    simp [this, rows2]
  rw [hmk]
  simp only [tryR_ok]
  rw [show tripUp 0 (subH : Int) 1 = subH by rw [tripUp_one]; omega]
  have hl := k_cbp_rows lum w h subW subH fuel hw hh hf subH [] (by simp) (by simp)
  simp only [List.length_nil, List.getLast?_nil] at hl
  have hl' : loop (Gen.K17.calculateBlackPoints_body1 fuel (bytes lum) (subW : Int) (w : Int) ((h : Int) - 8) ((w : Int) - 8)) 1 subH
      0 (tableB subH []) = _ := hl
  rw [hl', List.range_eq_range']
  cases hr : bpRows lum.toArray w h subW (List.range' 0 subH) none [] with
  | error e => rfl
  | ok all =>
    simp only [next_thenR]
    -- all rows are there: no nil rows are left
    have hlen : ∀ (ys : List Nat) (prev : Option (List Nat)) (acc all : List (List Nat)),
        bpRows lum.toArray w h subW ys prev acc = .ok all → all.length = acc.length + ys.length := by
      intro ys
      induction ys with
      | nil => intro prev acc all he; simp only [bpRows, Except.ok.injEq] at he; subst he; simp
      | cons y ys ih =>
        intro prev acc all he
        simp only [bpRows] at he
        cases hb : bpRow lum.toArray w h y prev (List.range subW) [] with
        | error e => simp [hb] at he
        | ok row => simp only [hb] at he; rw [ih _ _ _ he]; simp; omega
    have := hlen _ _ _ _ hr
    simp only [List.length_nil, List.length_range', Nat.zero_add] at this
    unfold tableB
    rw [this, Nat.sub_self]
    simp

when_kernel Gzx.Gen.K17.calculateBlackPoints in
/-- **calculateBlackPoints, Go source to model**: with the block counts of the hybrid method the regenerated function returns the
    table of `Binarizer.calculateBlackPoints` (or the index panic where the model's read fails) -/
theorem k_calculateBlackPoints_model (lum : List Nat) (w h fuel : Nat) (hw : 8 ≤ w) (hh : 8 ≤ h) (hf : 10 ≤ fuel) :
    Gen.K17.calculateBlackPoints fuel (bytes lum) (subDim w) (subDim h) w h =
      match Binarizer.calculateBlackPoints lum.toArray w h with
      | .ok all => .ok (rows2 all)
      | .error _ => .error oob := by
  rw [k_calculateBlackPoints_eq lum w h _ _ fuel hw hh hf]
  rfl

-- non-vacuity: a 16x8 image, left block uniformly 200 (low contrast: black point 100), right block with values 0 / 255
-- (average 127, then the next block sees its left neighbour only in later rows)
when_kernel Gzx.Gen.K17.calculateBlackPoints in
example : Gen.K17.calculateBlackPoints 10 (bytes ((List.replicate 8 (List.replicate 8 200 ++ (List.replicate 4 0 ++ List.replicate 4 255))).flatten))
    2 1 16 8 = .ok [[100, 127]] := by decide +kernel

end Gzx.Obligations.K17d
