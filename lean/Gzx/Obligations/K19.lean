/-
  K19 (property C19) — `common.GridSampler_checkAndNudgePoints` REGENERATED from /repo's grid_sampler.go on every run
  (`Gzx.Gen.K19.checkAndNudge`, translator kind `funcn`: the two `for … && nudged` loops over the interleaved
  `[]float64`, every index read / write checked, float64 as an abstract number type `F` with `ops : NumOps F`) and proved
  equal to the recursion `K19.nudgeSpec` for EVERY number type, every slice (odd lengths included), every image size
  and every fuel above the slice length; hence (Proofs/K19.lean)
    * over exact rationals it IS the hand-written model `GridSampler.checkAndNudge` that the C19 theorems are about,
    * over Lean `Float` (what Go computes) it takes the decisions of the model on the truncated coordinates and writes
      `float64(0)`, `float64(width-1)`, `float64(height-1)`: `Float` enters only through `toInt` / `ofInt`.
  Proof style of Obligations/K16b*.lean: unfold the generated body ONCE to prove the three step equations; the loop
  lemmas never see generated text.  `when_kernel`: a kernel that left the translatable subset is skipped, not broken.
-/
import Gzx.Gen.K19
import Gzx.KernelGuard
import Gzx.Proofs.K19
import Gzx.Proofs.GridSampler
set_option linter.unusedSimpArgs false
namespace Gzx.Obligations.K19
open Gzx Gzx.GoM Gzx.K19

variable {F : Type}

/-- resolve every `if c then … else …` by `h : c` or `h : ¬ c` WITHOUT rewriting inside `c` (an equation `int(x) = width`
    used as a rewrite rule would turn the earlier test `int(x) = -1` into `width = -1`) -/
local macro "ite_by " h:ident : tactic =>
  `(tactic| first | simp only [eq_true $h, if_true] | simp only [eq_false $h, if_false])

/-- what the regenerated function must return for a result of the specification: `(err != nil, points)` -/
def Agrees (spec : Option (List F)) (gen : Res (Bool × List F)) : Prop :=
  match spec with
  | some r => gen = .ok (false, r)
  | none => ∃ ps, gen = .ok (true, ps)

when_kernel Gzx.Gen.K19.checkAndNudge in
/-- one iteration of the first loop at a visited pair: NotFound test, then the four `if`s in the source's order -/
theorem k_body1_step (ops : NumOps F) (w h mo : Int) (done : List F) (x y : F) (rest : List F)
    (hlt : ((done.length : Nat) : Int) < mo) :
    Gen.K19.checkAndNudge_body1 ops w h mo (done ++ x :: y :: rest, true, ((done.length : Nat) : Int)) =
      if beyondF ops w h x y then .ret (true, done ++ x :: y :: rest)
      else .next (done ++ (nudgeCoordF ops w x).1 :: (nudgeCoordF ops h y).1 :: rest,
                  (nudgeCoordF ops w x).2 || (nudgeCoordF ops h y).2, ((done.length : Nat) : Int) + 2) := by
  simp only [Gen.K19.checkAndNudge_body1, hlt, decide_true, if_true]
  rw [idxA_at done x (y :: rest) _ rfl, tryC_ok, idxA_at1 done x y rest _ rfl, tryC_ok]
  by_cases hb : beyondF ops w h x y = true
  · rw [if_pos hb, if_pos (by simpa [beyondF] using hb)]
  · rw [if_neg hb, if_neg (by simpa [beyondF] using hb)]
    unfold nudgeCoordF
    simp only [beq_iff_eq, eq_comm (a := (-1 : Int)), eq_comm (a := w), eq_comm (a := h)]
    by_cases hx1 : ops.toInt x = -1 <;> by_cases hx2 : ops.toInt x = w <;>
      by_cases hy1 : ops.toInt y = -1 <;> by_cases hy2 : ops.toInt y = h <;>
      (try ite_by hx1) <;> (try ite_by hx2) <;> (try ite_by hy1) <;> (try ite_by hy2) <;>
      simp [setIdxA_at done _ _ _ _ rfl, setIdxA_at1 done _ _ _ _ _ rfl]

when_kernel Gzx.Gen.K19.checkAndNudge in
/-- the first loop stops when `nudged` is down … -/
theorem k_body1_down (ops : NumOps F) (w h mo : Int) (pts : List F) (off : Int) :
    Gen.K19.checkAndNudge_body1 ops w h mo (pts, false, off) = .brk (pts, false, off) := by
  simp only [Gen.K19.checkAndNudge_body1]
  split <;> simp

when_kernel Gzx.Gen.K19.checkAndNudge in
/-- … or when `offset < maxOffset` fails -/
theorem k_body1_end (ops : NumOps F) (w h mo : Int) (pts : List F) (b : Bool) (off : Int) (hge : ¬ off < mo) :
    Gen.K19.checkAndNudge_body1 ops w h mo (pts, b, off) = .brk (pts, b, off) := by
  simp only [Gen.K19.checkAndNudge_body1, hge, decide_false]
  simp

when_kernel Gzx.Gen.K19.checkAndNudge in
/-- one iteration of the second loop at a visited pair (`offset >= 0`): the same body, `offset -= 2` -/
theorem k_body2_step (ops : NumOps F) (w h : Int) (pre : List F) (x y : F) (tail : List F) :
    Gen.K19.checkAndNudge_body2 ops w h (pre ++ x :: y :: tail, true, ((pre.length : Nat) : Int)) =
      if beyondF ops w h x y then .ret (true, pre ++ x :: y :: tail)
      else .next (pre ++ (nudgeCoordF ops w x).1 :: (nudgeCoordF ops h y).1 :: tail,
                  (nudgeCoordF ops w x).2 || (nudgeCoordF ops h y).2, ((pre.length : Nat) : Int) - 2) := by
  have h0 : ((pre.length : Nat) : Int) ≥ 0 := by omega
  simp only [Gen.K19.checkAndNudge_body2, h0, decide_true, if_true]
  rw [idxA_at pre x (y :: tail) _ rfl, tryC_ok, idxA_at1 pre x y tail _ rfl, tryC_ok]
  by_cases hb : beyondF ops w h x y = true
  · rw [if_pos hb, if_pos (by simpa [beyondF] using hb)]
  · rw [if_neg hb, if_neg (by simpa [beyondF] using hb)]
    unfold nudgeCoordF
    simp only [beq_iff_eq, eq_comm (a := (-1 : Int)), eq_comm (a := w), eq_comm (a := h)]
    by_cases hx1 : ops.toInt x = -1 <;> by_cases hx2 : ops.toInt x = w <;>
      by_cases hy1 : ops.toInt y = -1 <;> by_cases hy2 : ops.toInt y = h <;>
      (try ite_by hx1) <;> (try ite_by hx2) <;> (try ite_by hy1) <;> (try ite_by hy2) <;>
      simp [setIdxA_at pre _ _ _ _ rfl, setIdxA_at1 pre _ _ _ _ _ rfl]

when_kernel Gzx.Gen.K19.checkAndNudge in
theorem k_body2_down (ops : NumOps F) (w h : Int) (pts : List F) (off : Int) :
    Gen.K19.checkAndNudge_body2 ops w h (pts, false, off) = .brk (pts, false, off) := by
  simp only [Gen.K19.checkAndNudge_body2]
  split <;> simp

when_kernel Gzx.Gen.K19.checkAndNudge in
theorem k_body2_end (ops : NumOps F) (w h : Int) (pts : List F) (b : Bool) (off : Int) (hneg : ¬ off ≥ 0) :
    Gen.K19.checkAndNudge_body2 ops w h (pts, b, off) = .brk (pts, b, off) := by
  simp only [Gen.K19.checkAndNudge_body2, hneg, decide_false]
  simp

when_kernel Gzx.Gen.K19.checkAndNudge in
/-- **`GridSampler_checkAndNudgePoints` = `nudgeSpec`**, for every number type and operations, every image size (also
    `≤ 0`), every slice (odd lengths and the empty slice included) and every fuel above the slice length: the function
    returns `err == nil` and the slice contents of the specification, or an error exactly when the specification says
    NotFound; in particular no index is ever out of range and the fuel is never exhausted. -/
theorem k_checkAndNudge_eq (ops : NumOps F) (fuel : Nat) (w h : Int) (pts : List F) (hf : pts.length < fuel) :
    Agrees (nudgeSpec ops w h pts) (Gen.K19.checkAndNudge ops fuel w h pts) := by
  have f1 := fwd_loop ops w h ((pts.length : Nat) - 1) (Gen.K19.checkAndNudge_body1 ops w h ((pts.length : Nat) - 1))
    (k_body1_step ops w h _) (k_body1_down ops w h _) (k_body1_end ops w h _) pts [] fuel hf (by simp)
  simp only [List.nil_append, List.length_nil] at f1
  unfold Agrees nudgeSpec
  simp only [Gen.K19.checkAndNudge, lenA]
  cases hp : passFwdF ops w h pts with
  | none =>
    obtain ⟨ps, e⟩ := f1.2 hp
    exact ⟨ps, by rw [show ((0 : Nat) : Int) = 0 from rfl] at e; rw [e]; rfl⟩
  | some p1 =>
    obtain ⟨b, off, e⟩ := f1.1 p1 hp
    rw [show ((0 : Nat) : Int) = 0 from rfl] at e
    rw [e]
    simp only [brk_thenR]
    have hl : p1.length = pts.length := passFwdF_length ops w h pts hp
    have f2 := bwd_loop ops w h (Gen.K19.checkAndNudge_body2 ops w h)
      (k_body2_step ops w h) (k_body2_down ops w h) (k_body2_end ops w h) p1.reverse [] fuel (by simp; omega)
    simp only [List.reverse_reverse, List.append_nil, List.length_reverse] at f2
    cases hq : passBwdRevF ops w h p1.reverse with
    | none =>
      obtain ⟨ps, e2⟩ := f2.2 hq
      exact ⟨ps, by rw [e2]; rfl⟩
    | some r =>
      obtain ⟨b2, off2, e2⟩ := f2.1 r hq
      show _ = _
      rw [e2]; rfl

/-- the integers as a number type (`int(x) = x`, `float64(i) = i`): instantiates the hypotheses below, and lets the
    kernel EVALUATE the regenerated definition -/
def intOps : NumOps Int :=
  { add := (· + ·), sub := (· - ·), mul := (· * ·), div := Int.tdiv, neg := fun a => -a, ofInt := id, toInt := id,
    eq := fun a b => decide (a = b), lt := fun a b => decide (a < b), le := fun a b => decide (a ≤ b) }

when_kernel Gzx.Gen.K19.checkAndNudge in
/-- **Regenerated source = hand-written model, over exact rationals.**  On the interleaved slice of the points `ps`
    the regenerated `GridSampler_checkAndNudgePoints` returns `nil` and the slice of `GridSampler.checkAndNudge w h ps`,
    or an error exactly when the model answers NotFound (the model has no other failure).  Every C19 theorem about
    `checkAndNudge` (both passes clamp alike on all four edges, beyond ⇒ NotFound, within ⇒ accepted, inside ⇒
    unchanged) is thereby a theorem about the text of grid_sampler.go as it is in /repo now. -/
theorem k_checkAndNudge_model (fuel : Nat) (w h : Int) (ps : List GridSampler.Pt)
    (hf : 2 * ps.length < fuel) :
    match GridSampler.checkAndNudge w h ps with
    | .ok ps' => Gen.K19.checkAndNudge ratOps fuel w h (GridSampler.fromPairs ps) = .ok (false, GridSampler.fromPairs ps')
    | .error e => e = .notFound ∧ ∃ out, Gen.K19.checkAndNudge ratOps fuel w h (GridSampler.fromPairs ps) = .ok (true, out) := by
  have hlen : ∀ l : List GridSampler.Pt, (GridSampler.fromPairs l).length = 2 * l.length := by
    intro l; induction l with
    | nil => rfl
    | cons a l ih => simp only [GridSampler.fromPairs, List.length_cons, ih]; omega
  have hk := k_checkAndNudge_eq ratOps fuel w h (GridSampler.fromPairs ps) (by rw [hlen]; exact hf)
  rw [nudgeSpec_rat_even] at hk
  cases hm : GridSampler.checkAndNudge w h ps with
  | ok ps' => rw [hm] at hk; exact hk
  | error e => rw [hm] at hk; exact ⟨GridSampler.checkAndNudge_error hm, hk⟩

when_kernel Gzx.Gen.K19.checkAndNudge in
/-- the same on EVERY slice of rationals (odd lengths and the empty slice as coded): regenerated source =
    `GridSampler.checkAndNudgePoints`, the model function the differential suite `nudge` drives -/
theorem k_checkAndNudgePoints_model (fuel : Nat) (w h : Int) (pts : List Rat) (hf : pts.length < fuel) :
    match GridSampler.checkAndNudgePoints w h pts with
    | .ok r => Gen.K19.checkAndNudge ratOps fuel w h pts = .ok (false, r)
    | .error _ => ∃ out, Gen.K19.checkAndNudge ratOps fuel w h pts = .ok (true, out) := by
  have hk := k_checkAndNudge_eq ratOps fuel w h pts hf
  rw [nudgeSpec_rat] at hk
  cases hm : GridSampler.checkAndNudgePoints w h pts with
  | ok r => rw [hm] at hk; exact hk
  | error e => rw [hm] at hk; exact hk

example : GridSampler.checkAndNudge 10 10 [(5, 10), (5, 5)] = .ok [(5, 9), (5, 5)] := by decide

when_kernel Gzx.Gen.K19.checkAndNudge in
/-- **Through the truncation, for ANY number type** (Lean `Float` = Go's float64 in particular; it occurs only through
    the abstract `toInt` / `ofInt`): if `int(float64(k)) = k` for the three values the function writes (`0`, `width-1`,
    `height-1` — true of float64 for |k| < 2^53), then on every slice whose pixel indices `int(points[i])` are those of
    the rational points `ps`, the regenerated function fails exactly when the model answers NotFound, and otherwise
    leaves a slice whose pixel indices are those of the model's result. -/
theorem k_checkAndNudge_through_trunc (ops : NumOps F) (fuel : Nat) (w h : Int)
    (h0 : ops.toInt (ops.ofInt 0) = 0) (hw : ops.toInt (ops.ofInt (w - 1)) = w - 1) (hh : ops.toInt (ops.ofInt (h - 1)) = h - 1)
    (pts : List F) (ps : List GridSampler.Pt)
    (hpts : pts.map ops.toInt = (GridSampler.fromPairs ps).map GridSampler.trunc) (hf : pts.length < fuel) :
    match GridSampler.checkAndNudge w h ps with
    | .ok ps' => ∃ out, Gen.K19.checkAndNudge ops fuel w h pts = .ok (false, out) ∧
        out.map ops.toInt = (GridSampler.fromPairs ps').map GridSampler.trunc
    | .error _ => ∃ out, Gen.K19.checkAndNudge ops fuel w h pts = .ok (true, out) := by
  have H : WritesAgree ops ratOps w h :=
    ⟨by rw [h0]; exact (GridSampler.trunc_intCast 0).symm, by rw [hw]; exact (GridSampler.trunc_intCast _).symm,
     by rw [hh]; exact (GridSampler.trunc_intCast _).symm⟩
  have hs := nudgeSpec_sim ops ratOps w h H pts (GridSampler.fromPairs ps) hpts
  rw [nudgeSpec_rat_even] at hs
  have hk := k_checkAndNudge_eq ops fuel w h pts hf
  cases hm : GridSampler.checkAndNudge w h ps with
  | ok ps' =>
    rw [hm] at hs
    cases hn : nudgeSpec ops w h pts with
    | none => rw [hn] at hs; simp [optOf] at hs
    | some r =>
      rw [hn] at hs hk
      refine ⟨r, hk, ?_⟩
      have e : List.map ops.toInt r = List.map ratOps.toInt (GridSampler.fromPairs ps') := by simpa [optOf] using hs
      exact e
  | error e =>
    rw [hm] at hs
    cases hn : nudgeSpec ops w h pts with
    | none => rw [hn] at hk; exact hk
    | some r => rw [hn] at hs; simp [optOf] at hs

/-- non-vacuity of the hypotheses of `k_checkAndNudge_through_trunc` -/
example : intOps.toInt (intOps.ofInt 0) = 0 ∧ intOps.toInt (intOps.ofInt (10 - 1)) = 10 - 1 := ⟨rfl, rfl⟩

when_kernel Gzx.Gen.K19.checkAndNudge in
/-- the regenerated definition evaluated by the kernel: the repository's own unit-test row (all four edges, both ends) … -/
example : Gen.K19.checkAndNudge intOps 20 10 10 [-1, -1, 10, 10, 0, 0, -1, -1, 10, 10]
    = .ok (false, [0, 0, 9, 9, 0, 0, 0, 0, 9, 9]) := by decide

when_kernel Gzx.Gen.K19.checkAndNudge in
/-- … D8 (first loop, `y == height`) as repaired, a NotFound, an odd-length slice (element 0 is never visited by the
    second loop) and the empty slice -/
example : Gen.K19.checkAndNudge intOps 20 10 10 [5, 10, 5, 5] = .ok (false, [5, 9, 5, 5]) := by decide
when_kernel Gzx.Gen.K19.checkAndNudge in
example : (Gen.K19.checkAndNudge intOps 20 10 10 [5, 5, 11, 0]).map (·.1) = .ok true := by decide
when_kernel Gzx.Gen.K19.checkAndNudge in
example : Gen.K19.checkAndNudge intOps 20 10 10 [-1, 5, 10] = .ok (false, [0, 5, 9]) := by decide
when_kernel Gzx.Gen.K19.checkAndNudge in
example : Gen.K19.checkAndNudge intOps 1 10 10 [] = .ok (false, []) := by decide

end Gzx.Obligations.K19
