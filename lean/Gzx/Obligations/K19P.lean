/-
  K19P (property C19) — the perspective kernels of common/perspective_transform.go REGENERATED on every run
  (`Gzx.Gen.K19.squareToQuad`, `buildAdjoint`, `times`, `transformPoints`; translator kind `funcn`: float64 as an abstract
  number type, operations in the source's order) and proved EQUAL to `Model/Perspective.lean` for every carrier whose
  operations structure is its type-class arithmetic (`FieldLike`): exact rationals here, every field in GzxM/K19.lean.
  The algebra theorems of GzxM/Perspective.lean (`squareToQuad_corners`, `adjoint_is_projective_inverse`,
  `times_is_composition` …) are thereby theorems about the text of perspective_transform.go as it is in /repo now.
  `when_kernel`: a kernel that left the translatable subset is skipped, not broken.
-/
import Gzx.Gen.K19
import Gzx.KernelGuard
import Gzx.Proofs.K19
import Gzx.Proofs.K19P
set_option linter.unusedSimpArgs false
namespace Gzx.Obligations.K19P
open Gzx Gzx.GoM Gzx.K19 Gzx.Perspective

variable {α : Type} [Add α] [Sub α] [Mul α] [Div α] [Zero α] [One α] [DecidableEq α]

when_kernel Gzx.Gen.K19.squareToQuad in
/-- `PerspectiveTransform_SquareToQuadrilateral` = the model's `squareToQuadrilateral`: the affine test
    `dx3 == 0.0 && dy3 == 0.0`, both struct literals field by field, `a13`, `a23` and their common denominator -/
theorem k_squareToQuad_eq (ops : NumOps α) (H : FieldLike ops) (x0 y0 x1 y1 x2 y2 x3 y3 : α) :
    Gen.K19.squareToQuad ops x0 y0 x1 y1 x2 y2 x3 y3 = .ok (tup (squareToQuadrilateral x0 y0 x1 y1 x2 y2 x3 y3)) := by
  simp only [Gen.K19.squareToQuad, squareToQuadrilateral, H.add, H.sub, H.mul, H.div, H.zero, H.one, H.eq,
    Bool.and_eq_true, decide_eq_true_eq]
  split <;> rfl

when_kernel Gzx.Gen.K19.buildAdjoint in
/-- `buildAdjoint` = the model's `PT.buildAdjoint` (nine cofactors, in the order of the Go literal) -/
theorem k_buildAdjoint_eq (ops : NumOps α) (H : FieldLike ops) (p : PT α) :
    Gen.K19.buildAdjoint ops p.a11 p.a21 p.a31 p.a12 p.a22 p.a32 p.a13 p.a23 p.a33 = .ok (tup p.buildAdjoint) := by
  simp only [Gen.K19.buildAdjoint, PT.buildAdjoint, H.sub, H.mul, tup]

when_kernel Gzx.Gen.K19.times in
/-- `p.times(other)` = the model's `PT.times` (nine row-by-column sums, association as in the source) -/
theorem k_times_eq (ops : NumOps α) (H : FieldLike ops) (p o : PT α) :
    Gen.K19.times ops p.a11 p.a21 p.a31 p.a12 p.a22 p.a32 p.a13 p.a23 p.a33
      o.a11 o.a21 o.a31 o.a12 o.a22 o.a32 o.a13 o.a23 o.a33 = .ok (tup (p.times o)) := by
  simp only [Gen.K19.times, PT.times, H.add, H.mul, tup]

when_kernel Gzx.Gen.K19.transformPoints in
/-- `TransformPoints(points)` = the model's `PT.transformPoints` on EVERY slice: pairs `(points[i], points[i+1])` for
    `i = 0, 2, … < len-1`, a trailing odd element untouched, no index out of range -/
theorem k_transformPoints_eq (ops : NumOps α) (H : FieldLike ops) (p : PT α) (pts : List α) :
    Gen.K19.transformPoints ops p.a11 p.a21 p.a31 p.a12 p.a22 p.a32 p.a13 p.a23 p.a33 pts = .ok (p.transformPoints pts) := by
  have hl := loop_pairs (fun x y => p.apply x y) p.transformPoints
    (fun x y rest => by simp [PT.transformPoints])
    (fun l hl => by
      match l, hl with
      | [], _ => rfl
      | [_], _ => rfl)
    (Gen.K19.transformPoints_body1 ops p.a11 p.a21 p.a31 p.a12 p.a22 p.a32 p.a13 p.a23 p.a33)
    (fun done x y rest => by
      simp only [Gen.K19.transformPoints_body1]
      rw [idxA_at done x (y :: rest) _ rfl, tryC_ok, idxA_at1 done x y rest _ rfl, tryC_ok,
        setIdxA_at done x _ (y :: rest) _ rfl, tryC_ok, setIdxA_at1 done _ y _ rest _ rfl, tryC_ok]
      simp only [PT.apply, PT.denom, H.add, H.mul, H.div])
    pts [] (pts.length / 2) rfl
  simp only [Gen.K19.transformPoints, lenA]
  have ht : tripUp 0 (((pts.length : Nat) : Int) - 1) 2 = pts.length / 2 := by
    unfold tripUp
    by_cases h0 : pts.length = 0
    · simp [h0]
    · have : ((pts.length : Nat) : Int) - 1 - 0 + (2 - 1) = ((pts.length : Nat) : Int) := by omega
      rw [this, Int.tdiv_eq_ediv_of_nonneg (by omega)]
      omega
  rw [ht]
  simp only [List.nil_append, List.length_nil] at hl
  rw [show ((0 : Nat) : Int) = 0 from rfl] at hl
  rw [hl]
  rfl

when_kernel Gzx.Gen.K19.transformPointsXY in
/-- `TransformPointsXY(xValues, yValues)` = the model's `PT.transformPointsXY`: element `i` of both slices for
    `i < len(xValues)`, surplus `yValues` untouched, and an index panic exactly when `yValues` is the shorter slice -/
theorem k_transformPointsXY_eq (ops : NumOps α) (H : FieldLike ops) (p : PT α) (xs ys : List α) :
    match p.transformPointsXY xs ys with
    | .ok r => Gen.K19.transformPointsXY ops p.a11 p.a21 p.a31 p.a12 p.a22 p.a32 p.a13 p.a23 p.a33 xs ys = .ok r
    | .error _ => Gen.K19.transformPointsXY ops p.a11 p.a21 p.a31 p.a12 p.a22 p.a32 p.a13 p.a23 p.a33 xs ys = .error oob := by
  have hl := loop_zip (fun x y => p.apply x y)
    (Gen.K19.transformPointsXY_body1 ops p.a11 p.a21 p.a31 p.a12 p.a22 p.a32 p.a13 p.a23 p.a33)
    (fun dx dy x y xs ys hlen => by
      simp only [Gen.K19.transformPointsXY_body1]
      rw [idxA_at dx x xs _ rfl, tryC_ok, idxA_at dy y ys _ (by rw [hlen]), tryC_ok,
        setIdxA_at dx x _ xs _ rfl, tryC_ok, setIdxA_at dy y _ ys _ (by rw [hlen]), tryC_ok]
      simp only [PT.apply, PT.denom, H.add, H.mul, H.div])
    (fun dx dy x xs hlen => by
      simp only [Gen.K19.transformPointsXY_body1]
      rw [idxA_at dx x xs _ rfl, tryC_ok, idxA_ge dy _ (by rw [hlen]; omega), tryC_error])
    xs ys [] [] rfl
  simp only [List.nil_append, List.length_nil] at hl
  rw [show ((0 : Nat) : Int) = 0 from rfl] at hl
  have ht : tripUp 0 ((xs.length : Nat) : Int) 1 = xs.length := by
    unfold tripUp
    rw [show ((xs.length : Nat) : Int) - 0 + (1 - 1) = ((xs.length : Nat) : Int) by omega, Int.tdiv_one]
    omega
  unfold PT.transformPointsXY
  rw [transformXYLoop_eq]
  simp only [Gen.K19.transformPointsXY, lenA, ht, hl]
  by_cases hle : xs.length ≤ ys.length
  · simp only [hle, if_true]; rfl
  · simp only [hle, if_false]; rfl

/-- non-vacuity: exact rationals are `FieldLike` -/
example : FieldLike ratOps := ratOps_fieldLike

end Gzx.Obligations.K19P
