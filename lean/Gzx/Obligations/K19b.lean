/-
  K19b (work package kfinish) — `DefaultGridSampler.SampleGridWithTransform`, regenerated from common/default_grid_sampler.go on
  every run as a kernel with ABSTRACT CALLEES (`Gzx.Gen.K19b.sampleGridWT`, translator kind `funce`): float64 is the abstract number
  type `F` with operations `ops`, `transform.TransformPoints`, `GridSampler_checkAndNudgePoints`, `image.Get/GetWidth/GetHeight`,
  `gozxing.NewBitMatrix` and `bits.Set` are the fields of the environment `env`, the result matrix an abstract state `S`.

  `k_sampleGridWT_eq`: for EVERY number type, operations, environment whose two slice callees keep the slice length (the real ones
  do: they write in place), and all dimensions, the regenerated function never panics (all 4·dimX·dimY index operations are in
  range) and equals the closed form `sampleSpec`: per row `y` the interleaved cell centres `(x+0.5, y+0.5)` — built with exactly the
  float operations of the source —, transformed, nudged (NotFound when the nudge test fails), then read pairwise: NotFound at the
  first point whose truncated coordinates leave the image, otherwise `Set(x, y)` for the dark pixels, in order.
-/
import Gzx.Gen.K19b
import Gzx.KernelGuard
import Gzx.Proofs.GoMTie
namespace Gzx.Obligations.K19b
open Gzx Gzx.GoM

variable {F S : Type}

/-! ## the closed form -/

/-- the constant `0.5` as the source computes it -/
def half (ops : NumOps F) : F := ops.div (ops.ofInt 1) (ops.ofInt 2)

/-- element `i` of the points slice of row `y` after the fill loop: `x/2 + 0.5` at even, `y + 0.5` at odd positions -/
def centreAt (ops : NumOps F) (y : Int) (i : Nat) : F :=
  if i % 2 = 0 then ops.add (ops.ofInt ((i / 2 : Nat) : Int)) (half ops) else ops.add (ops.ofInt y) (half ops)

/-- the `2·n` interleaved coordinates of the cell centres of row `y` -/
def centres (ops : NumOps F) (n : Nat) (y : Int) : List F := (List.range (2 * n)).map (centreAt ops y)

/-- the reading loop from cell `k` on (`m` cells left): `none` = NotFound (or a slice that is too short: excluded by the theorem) -/
def readFrom (ops : NumOps F) (env : Gen.K19b.sampleGridWT_Env F S) (pts : List F) (y : Int) : Nat → Nat → S → Option S
  | 0, _, bits => some bits
  | m + 1, k, bits =>
    match pts[2 * k]?, pts[2 * k + 1]? with
    | some fx, some fy =>
      let px := ops.toInt fx
      let py := ops.toInt fy
      if px < 0 ∨ py < 0 ∨ px ≥ env.BitMatrix_GetWidth ∨ py ≥ env.BitMatrix_GetHeight then none
      else readFrom ops env pts y m (k + 1) (if env.BitMatrix_Get px py then env.BitMatrix_Set bits (k : Int) y else bits)
    | _, _ => none

/-- one row: the points the next row starts from, and the matrix (`none` = NotFound) -/
def rowSpec (ops : NumOps F) (env : Gen.K19b.sampleGridWT_Env F S) (n : Nat) (y : Int) (bits : S) : List F × Option S :=
  let r := env.GridSampler_checkAndNudgePoints (env.PerspectiveTransform_TransformPoints (centres ops n y))
  (r.2, if r.1 then none else readFrom ops env r.2 y n 0 bits)

/-- rows `y, y+1, …` (`m` rows left) -/
def rowsSpec (ops : NumOps F) (env : Gen.K19b.sampleGridWT_Env F S) (n : Nat) : Nat → Int → S → Option S
  | 0, _, bits => some bits
  | m + 1, y, bits =>
    match (rowSpec ops env n y bits).2 with
    | none => none
    | some bits' => rowsSpec ops env n m (y + 1) bits'

/-- `SampleGridWithTransform(image, dimensionX, dimensionY, transform)` in closed form -/
def sampleSpec (ops : NumOps F) (env : Gen.K19b.sampleGridWT_Env F S) (dimX dimY : Int) : Option S :=
  if dimX ≤ 0 ∨ dimY ≤ 0 then none
  else rowsSpec ops env dimX.toNat dimY.toNat 0 (env.NewBitMatrix dimX dimY)

/-! ## checked accesses that are in range -/

theorem idxA_nat (xs : List F) (i : Nat) (h : i < xs.length) : idxA xs (i : Int) = .ok xs[i] := by
  unfold idxA
  have : ¬ ((i : Int) < 0) := by omega
  simp [this, h]

theorem setIdxA_nat (xs : List F) (i : Nat) (v : F) (h : i < xs.length) : setIdxA xs (i : Int) v = .ok (xs.set i v) := by
  unfold setIdxA
  have : ¬ ((i : Int) < 0) := by omega
  simp [this, h]

/-! ## the fill loop -/

/-- the first `2k` elements are already the centres -/
def Filled (ops : NumOps F) (y : Int) (n k : Nat) (L : List F) : Prop :=
  L.length = 2 * n ∧ ∀ i, i < 2 * k → L[i]? = some (centreAt ops y i)

theorem filled_all (ops : NumOps F) (y : Int) (n : Nat) (L : List F) (h : Filled ops y n n L) : L = centres ops n y := by
  apply List.ext_getElem?
  intro i
  unfold centres
  by_cases hi : i < 2 * n
  · rw [h.2 i hi]; simp [hi]
  · rw [List.getElem?_eq_none (by rw [h.1]; omega), List.getElem?_eq_none (by simp; omega)]

theorem filled_step (ops : NumOps F) (y : Int) (n k : Nat) (L : List F) (h : Filled ops y n k L) (hk : k < n) :
    Filled ops y n (k + 1)
      ((L.set (2 * k) (ops.add (ops.ofInt ((k : Nat) : Int)) (half ops))).set (2 * k + 1) (ops.add (ops.ofInt y) (half ops))) := by
  refine ⟨by simp [h.1], ?_⟩
  intro i hi
  simp only [List.getElem?_set, List.length_set]
  by_cases h1 : 2 * k + 1 = i
  · subst h1
    have : 2 * k + 1 < L.length := by rw [h.1]; omega
    simp only [if_true, this]
    unfold centreAt
    have : ¬ ((2 * k + 1) % 2 = 0) := by omega
    simp [this]
  · simp only [h1, if_false]
    by_cases h0 : 2 * k = i
    · subst h0
      have : 2 * k < L.length := by rw [h.1]; omega
      simp only [if_true, this]
      unfold centreAt
      have e1 : (2 * k) % 2 = 0 := by omega
      have e2 : 2 * k / 2 = k := by omega
      simp [e1, e2]
    · simp only [h0, if_false]
      exact h.2 i (by omega)

when_kernel Gzx.Gen.K19b.sampleGridWT in
/-- the fill loop from cell `k` on -/
theorem fill_loop (ops : NumOps F) (y : Int) (n : Nat) : ∀ (m k : Nat) (L : List F), k + m = n → Filled ops y n k L →
    loop (fun (x : Int) (st : List F) =>
        ((let points := st
          tryC (setIdxA points x (ops.add (ops.ofInt (Int.tdiv x 2)) (ops.div (ops.ofInt 1) (ops.ofInt 2)))) fun points =>
          tryC (setIdxA points (x + 1) (ops.add (ops.ofInt y) (ops.div (ops.ofInt 1) (ops.ofInt 2)))) fun points =>
          .next points) : Ctl (List F) (Option S))) 2 m ((2 * k : Nat) : Int) L = .next (centres ops n y) := by
  intro m
  induction m with
  | zero =>
    intro k L hk h
    have : k = n := by omega
    subst this
    rw [loop_zero, filled_all ops y k L h]
  | succ m ih =>
    intro k L hk h
    rw [loop_succ]
    simp only []
    have hl0 : 2 * k < L.length := by rw [h.1]; omega
    have hd : Int.tdiv ((2 * k : Nat) : Int) 2 = ((k : Nat) : Int) := by
      have := tdiv_natCast (2 * k) 2
      rw [show ((2 : Nat) : Int) = 2 from rfl] at this
      rw [this]; congr 1; omega
    rw [setIdxA_nat L (2 * k) _ hl0, hd]
    simp only [tryC_ok]
    have hl1 : 2 * k + 1 < L.length := by rw [h.1]; omega
    rw [show ((2 * k : Nat) : Int) + 1 = ((2 * k + 1 : Nat) : Int) by omega,
      setIdxA_nat _ (2 * k + 1) _ (by rw [List.length_set]; exact hl1)]
    simp only [tryC_ok]
    rw [show ((2 * k : Nat) : Int) + 2 = ((2 * (k + 1) : Nat) : Int) by omega]
    exact ih (k + 1) _ (by omega) (filled_step ops y n k L h (by omega))

/-! ## the reading loop -/

when_kernel Gzx.Gen.K19b.sampleGridWT in
theorem read_loop (ops : NumOps F) (env : Gen.K19b.sampleGridWT_Env F S) (pts : List F) (y : Int) (n : Nat) (hl : pts.length = 2 * n) :
    ∀ (m k : Nat) (bits : S), k + m = n →
    loop (fun (x : Int) (st : S) =>
        ((let bits := st
          tryC (idxA pts x) fun t2 =>
          let px : Int := ops.toInt t2
          tryC (idxA pts (x + 1)) fun t3 =>
          let py : Int := ops.toInt t3
          if ((((decide (px < 0)) || (decide (py < 0))) || (decide (px >= env.BitMatrix_GetWidth))) || (decide (py >= env.BitMatrix_GetHeight))) then
            .ret none
          else
          let bits :=
            if (env.BitMatrix_Get px py) then
              let bits := env.BitMatrix_Set bits (Int.tdiv x 2) y
              bits
            else
              bits
          .next bits) : Ctl S (Option S))) 2 m ((2 * k : Nat) : Int) bits =
      match readFrom ops env pts y m k bits with
      | some b => .next b
      | none => .ret none := by
  intro m
  induction m with
  | zero => intro k bits _; rfl
  | succ m ih =>
    intro k bits hk
    rw [loop_succ]
    simp only []
    have h0 : 2 * k < pts.length := by omega
    have h1 : 2 * k + 1 < pts.length := by omega
    have hd : Int.tdiv ((2 * k : Nat) : Int) 2 = ((k : Nat) : Int) := by
      have := tdiv_natCast (2 * k) 2
      rw [show ((2 : Nat) : Int) = 2 from rfl] at this
      rw [this]; congr 1; omega
    rw [idxA_nat pts (2 * k) h0, show ((2 * k : Nat) : Int) + 1 = ((2 * k + 1 : Nat) : Int) by omega, idxA_nat pts (2 * k + 1) h1, hd]
    simp only [tryC_ok, readFrom, List.getElem?_eq_getElem h0, List.getElem?_eq_getElem h1]
    by_cases hc : ops.toInt pts[2 * k] < 0 ∨ ops.toInt pts[2 * k + 1] < 0 ∨ ops.toInt pts[2 * k] ≥ env.BitMatrix_GetWidth ∨
        ops.toInt pts[2 * k + 1] ≥ env.BitMatrix_GetHeight
    · have hb : ((((decide (ops.toInt pts[2 * k] < 0)) || (decide (ops.toInt pts[2 * k + 1] < 0))) ||
          (decide (ops.toInt pts[2 * k] >= env.BitMatrix_GetWidth))) || (decide (ops.toInt pts[2 * k + 1] >= env.BitMatrix_GetHeight))) = true := by
        simp only [Bool.or_eq_true, decide_eq_true_eq]; omega
      simp only [hb, hc, if_true]
    · have hb : ((((decide (ops.toInt pts[2 * k] < 0)) || (decide (ops.toInt pts[2 * k + 1] < 0))) ||
          (decide (ops.toInt pts[2 * k] >= env.BitMatrix_GetWidth))) || (decide (ops.toInt pts[2 * k + 1] >= env.BitMatrix_GetHeight))) = false := by
        simp only [Bool.or_eq_false_iff, decide_eq_false_iff_not]; omega
      simp only [hb, hc, Bool.false_eq_true, if_false]
      rw [show ((2 * k : Nat) : Int) + 2 = ((2 * (k + 1) : Nat) : Int) by omega]
      exact ih (k + 1) _ (by omega)

/-! ## rows and the whole function -/

/-- the outer loop, for any body that computes `rowSpec` on slices of the right length -/
theorem rows_loop (ops : NumOps F) (env : Gen.K19b.sampleGridWT_Env F S) (n : Nat)
    (body : Int → List F × S → Ctl (List F × S) (Option S))
    (hbody : ∀ (y : Int) (pts : List F) (bits : S), pts.length = 2 * n →
      body y (pts, bits) = match (rowSpec ops env n y bits).2 with
        | some b => .next ((rowSpec ops env n y bits).1, b)
        | none => .ret none)
    (hlen : ∀ (y : Int) (bits b : S), (rowSpec ops env n y bits).2 = some b → (rowSpec ops env n y bits).1.length = 2 * n) :
    ∀ (m : Nat) (y : Int) (pts : List F) (bits : S), pts.length = 2 * n →
      match rowsSpec ops env n m y bits with
      | some b => ∃ pts', loop body 1 m y (pts, bits) = .next (pts', b)
      | none => loop body 1 m y (pts, bits) = .ret none := by
  intro m
  induction m with
  | zero => intro y pts bits _; exact ⟨pts, rfl⟩
  | succ m ih =>
    intro y pts bits hl
    rw [loop_succ, hbody y pts bits hl]
    simp only [rowsSpec]
    cases hr : (rowSpec ops env n y bits).2 with
    | none => rfl
    | some b' =>
      simp only []
      exact ih (y + 1) _ b' (hlen y bits b' hr)

/-- … followed by `return bits, nil` -/
theorem rows_final (ops : NumOps F) (env : Gen.K19b.sampleGridWT_Env F S) (n : Nat)
    {body : Int → List F × S → Ctl (List F × S) (Option S)}
    (hbody : ∀ (y : Int) (pts : List F) (bits : S), pts.length = 2 * n →
      body y (pts, bits) = match (rowSpec ops env n y bits).2 with
        | some b => .next ((rowSpec ops env n y bits).1, b)
        | none => .ret none)
    (hlen : ∀ (y : Int) (bits b : S), (rowSpec ops env n y bits).2 = some b → (rowSpec ops env n y bits).1.length = 2 * n)
    (m : Nat) (pts : List F) (bits : S) (hl : pts.length = 2 * n) :
    (loop body 1 m 0 (pts, bits)).thenR (fun st => .ok (some st.2)) = .ok (rowsSpec ops env n m 0 bits) := by
  have key := rows_loop ops env n body hbody hlen m 0 pts bits hl
  cases hr : rowsSpec ops env n m 0 bits with
  | none => rw [hr] at key; simp only [] at key; rw [key]; rfl
  | some b => rw [hr] at key; obtain ⟨pts', hk⟩ := key; rw [hk]; rfl

theorem tripUp_even (n : Nat) : tripUp 0 (((2 * n : Nat)) : Int) 2 = n := by
  rw [tripUp_two]; omega

when_kernel Gzx.Gen.K19b.sampleGridWT in
/-- **SampleGridWithTransform, Go source to closed form** (general form): it suffices that the nudged slice of every row that passes
    the nudge test has the length of the row (`2·dimensionX`) -/
theorem k_sampleGridWT_eq_rows (ops : NumOps F) (env : Gen.K19b.sampleGridWT_Env F S) (dimX dimY : Int)
    (hN : ∀ y, (env.GridSampler_checkAndNudgePoints (env.PerspectiveTransform_TransformPoints (centres ops dimX.toNat y))).1 = false →
      (env.GridSampler_checkAndNudgePoints (env.PerspectiveTransform_TransformPoints (centres ops dimX.toNat y))).2.length = 2 * dimX.toNat) :
    Gen.K19b.sampleGridWT ops env dimX dimY = .ok (sampleSpec ops env dimX dimY) := by
  unfold Gen.K19b.sampleGridWT sampleSpec
  by_cases hd : dimX ≤ 0 ∨ dimY ≤ 0
  · have hb : ((decide (dimX ≤ 0)) || (decide (dimY ≤ 0))) = true := by simp only [Bool.or_eq_true, decide_eq_true_eq]; exact hd
    simp only [hb, hd, if_true]
  · have hb : ((decide (dimX ≤ 0)) || (decide (dimY ≤ 0))) = false := by
      simp only [Bool.or_eq_false_iff, decide_eq_false_iff_not]; omega
    simp only [hb, hd, Bool.false_eq_true, if_false]
    have hmk : mkA (ops.ofInt 0) (2 * dimX) = .ok (List.replicate (2 * dimX.toNat) (ops.ofInt 0)) := by
      unfold mkA
      have : ¬ (2 * dimX < 0) := by omega
      simp only [this, if_false]
      congr 2; omega
    rw [hmk]
    simp only [tryR_ok]
    have hlen : ∀ (y : Int) (bits b : S), (rowSpec ops env dimX.toNat y bits).2 = some b →
        (rowSpec ops env dimX.toNat y bits).1.length = 2 * dimX.toNat := by
      intro y bits b hb
      simp only [rowSpec] at hb ⊢
      cases hn : (env.GridSampler_checkAndNudgePoints (env.PerspectiveTransform_TransformPoints (centres ops dimX.toNat y))).1 with
      | true => rw [hn] at hb; simp at hb
      | false => exact hN y hn
    rw [show tripUp 0 dimY 1 = dimY.toNat by rw [tripUp_one]; omega]
    rw [rows_final ops env dimX.toNat ?hbody hlen dimY.toNat _ _ (by simp)]
    · intro y pts bits hl
      simp only []
      have hmax : lenA pts = ((2 * dimX.toNat : Nat) : Int) := by simp [lenA, hl]
      rw [hmax, tripUp_even]
      have hf := fill_loop (S := S) ops y dimX.toNat dimX.toNat 0 pts (by omega) ⟨hl, fun i hi => by omega⟩
      have hf' : loop (fun (x : Int) (st : List F) =>
          ((let points := st
            tryC (setIdxA points x (ops.add (ops.ofInt (Int.tdiv x 2)) (ops.div (ops.ofInt 1) (ops.ofInt 2)))) fun points =>
            tryC (setIdxA points (x + 1) (ops.add (ops.ofInt y) (ops.div (ops.ofInt 1) (ops.ofInt 2)))) fun points =>
            .next points) : Ctl (List F) (Option S))) 2 dimX.toNat 0 pts = .next (centres ops dimX.toNat y) := hf
      rw [hf']
      simp only [next_thenC, rowSpec]
      cases hn : (env.GridSampler_checkAndNudgePoints (env.PerspectiveTransform_TransformPoints (centres ops dimX.toNat y))).1 with
      | true => simp only [if_true]
      | false =>
        simp only [Bool.false_eq_true, if_false]
        have hl2 : (env.GridSampler_checkAndNudgePoints (env.PerspectiveTransform_TransformPoints (centres ops dimX.toNat y))).2.length =
            2 * dimX.toNat := hN y hn
        have hrd := read_loop ops env _ y dimX.toNat hl2 dimX.toNat 0 bits (by omega)
        have hrd' : loop (fun (x : Int) (st : S) =>
            ((let bits := st
              tryC (idxA (env.GridSampler_checkAndNudgePoints (env.PerspectiveTransform_TransformPoints (centres ops dimX.toNat y))).2 x) fun t2 =>
              let px : Int := ops.toInt t2
              tryC (idxA (env.GridSampler_checkAndNudgePoints (env.PerspectiveTransform_TransformPoints (centres ops dimX.toNat y))).2 (x + 1)) fun t3 =>
              let py : Int := ops.toInt t3
              if ((((decide (px < 0)) || (decide (py < 0))) || (decide (px >= env.BitMatrix_GetWidth))) || (decide (py >= env.BitMatrix_GetHeight))) then
                .ret none
              else
              let bits :=
                if (env.BitMatrix_Get px py) then
                  let bits := env.BitMatrix_Set bits (Int.tdiv x 2) y
                  bits
                else
                  bits
              .next bits) : Ctl S (Option S))) 2 dimX.toNat 0 bits = _ := hrd
        rw [hrd']
        cases readFrom ops env _ y dimX.toNat 0 bits <;> rfl

theorem centres_length (ops : NumOps F) (n : Nat) (y : Int) : (centres ops n y).length = 2 * n := by simp [centres]

when_kernel Gzx.Gen.K19b.sampleGridWT in
/-- **SampleGridWithTransform, Go source to closed form**: for every number type, every environment whose slice callees keep the
    slice length (the real ones write in place), and all dimensions, the regenerated function returns `sampleSpec` — in particular
    it never panics -/
theorem k_sampleGridWT_eq (ops : NumOps F) (env : Gen.K19b.sampleGridWT_Env F S) (dimX dimY : Int)
    (hT : ∀ l, (env.PerspectiveTransform_TransformPoints l).length = l.length)
    (hN : ∀ l, (env.GridSampler_checkAndNudgePoints l).2.length = l.length) :
    Gen.K19b.sampleGridWT ops env dimX dimY = .ok (sampleSpec ops env dimX dimY) :=
  k_sampleGridWT_eq_rows ops env dimX dimY (fun y _ => by rw [hN, hT, centres_length])

-- non-vacuity: a 2x1 grid on a 2x1 image whose left pixel is dark, identity "transform", no nudging (exact rationals; the matrix
-- is the list of `Set` calls): cell (0,0) is set, cell (1,0) is not; and a dimension 0 is NotFound
def demoEnv : Gen.K19b.sampleGridWT_Env Rat (List (Int × Int)) where
  NewBitMatrix := fun _ _ => []
  PerspectiveTransform_TransformPoints := fun l => l
  GridSampler_checkAndNudgePoints := fun l => (false, l)
  BitMatrix_GetWidth := 2
  BitMatrix_GetHeight := 1
  BitMatrix_Get := fun x _ => x == 0
  BitMatrix_Set := fun b x y => b ++ [(x, y)]

when_kernel Gzx.Gen.K19b.sampleGridWT in
example : Gen.K19b.sampleGridWT ratOps demoEnv 2 1 = .ok (some [(0, 0)]) := by
  rw [k_sampleGridWT_eq ratOps demoEnv 2 1 (fun _ => rfl) (fun _ => rfl)]; decide +kernel
when_kernel Gzx.Gen.K19b.sampleGridWT in
example : Gen.K19b.sampleGridWT ratOps demoEnv 0 1 = .ok none := by
  rw [k_sampleGridWT_eq ratOps demoEnv 0 1 (fun _ => rfl) (fun _ => rfl)]; decide +kernel

end Gzx.Obligations.K19b
