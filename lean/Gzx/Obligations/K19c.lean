/-
  K19c (work package kfinish) — the regenerated `SampleGridWithTransform` (`Gen.K19b.sampleGridWT`) with its environment
  instantiated by the REGENERATED AND TIED callees (`Gen.K19.transformPoints`, `Gen.K19.checkAndNudge`, both over exact rationals)
  equals the hand-written model `GridSampler.sampleGridWithTransform` (Model/GridSampler.lean) that the C19 theorems are about:
  `k_sampleGrid_model`.  The result matrix is represented by the list of its `Set(x, y)` calls (`setsFrom`: the dark cells of the
  model's rows in reading order).  Hypotheses: the image answers `Get` inside its bounds (`hget`; BitMatrix.Get does), and no
  sampled point has a vanishing denominator (`hden`: there the model answers NotFound for Go's ±Inf / NaN, exact rationals have
  no such values).
-/
import Gzx.Obligations.K19b
import Gzx.Obligations.K19
import Gzx.Obligations.K19P
import Gzx.Proofs.GridSampler
namespace Gzx.Obligations.K19c
open Gzx Gzx.GoM Gzx.GridSampler Gzx.Perspective Gzx.K19 Gzx.Obligations.K19b

/-- the environment of the sampler built from the regenerated callees (exact rationals; `S` = the list of `Set` calls) -/
def envOf (img : Image) (t : PT Rat) (g : Int → Int → Bool) (fuel : Nat) : Gen.K19b.sampleGridWT_Env Rat (List (Int × Int)) where
  NewBitMatrix := fun _ _ => []
  PerspectiveTransform_TransformPoints := fun pts =>
    match Gen.K19.transformPoints ratOps t.a11 t.a21 t.a31 t.a12 t.a22 t.a32 t.a13 t.a23 t.a33 pts with
    | .ok r => r
    | .error _ => pts
  GridSampler_checkAndNudgePoints := fun pts =>
    match Gen.K19.checkAndNudge ratOps fuel img.w img.h pts with
    | .ok r => r
    | .error _ => (true, pts)
  BitMatrix_GetWidth := img.w
  BitMatrix_GetHeight := img.h
  BitMatrix_Get := g
  BitMatrix_Set := fun b x y => b ++ [(x, y)]

/-- the `Set(x, y)` calls of one row of the model's result, columns numbered from `k` -/
def setsRow (row : List Bool) (k : Nat) (y : Int) : List (Int × Int) :=
  (row.zipIdx k).filterMap (fun p => if p.1 then some (((p.2 : Nat) : Int), y) else none)

/-- … of the rows, numbered from `k` -/
def setsFrom (rows : List (List Bool)) (k : Nat) : List (Int × Int) :=
  (rows.zipIdx k).flatMap (fun p => setsRow p.1 0 ((p.2 : Nat) : Int))

/-! ## the callees on a row -/

theorem fromPairs_snoc : ∀ (l : List Pt) (p : Pt), fromPairs (l ++ [p]) = fromPairs l ++ [p.1, p.2]
  | [], p => rfl
  | q :: l, p => by simp [fromPairs, fromPairs_snoc l p]

theorem half_rat : half ratOps = (1 / 2 : Rat) := rfl

/-- the fill loop's points are the model's cell centres, interleaved -/
theorem centres_rat (y : Nat) : ∀ n : Nat, centres ratOps n ((y : Nat) : Int) = fromPairs (rowCentres n y)
  | 0 => rfl
  | n + 1 => by
    have ih := centres_rat y n
    unfold centres rowCentres at ih ⊢
    rw [show 2 * (n + 1) = 2 * n + 1 + 1 by omega, List.range_succ, List.range_succ, List.map_append, List.map_append, ih,
      List.range_succ, List.map_append]
    simp only [List.map_cons, List.map_nil]
    rw [fromPairs_snoc]
    simp only [List.append_assoc, List.cons_append, List.nil_append]
    congr 2
    · unfold centreAt
      have e1 : (2 * n) % 2 = 0 := by omega
      have e2 : 2 * n / 2 = n := by omega
      simp only [e1, e2, if_true]
      rfl
    · congr 1
      unfold centreAt
      have e1 : ¬ ((2 * n + 1) % 2 = 0) := by omega
      simp only [e1, if_false]
      rfl

theorem transformPoints_row (t : PT Rat) : ∀ (ps qs : List Pt), transformRow t ps = some qs →
    t.transformPoints (fromPairs ps) = fromPairs qs
  | [], qs, h => by simp [transformRow] at h; subst h; rfl
  | p :: ps, qs, h => by
    unfold transformRow at h
    cases h1 : t.apply? p.1 p.2 with
    | none => rw [h1] at h; simp at h
    | some q =>
      cases h2 : transformRow t ps with
      | none => rw [h1, h2] at h; simp at h
      | some qs' =>
        rw [h1, h2] at h
        simp only [Option.some.injEq] at h
        subst h
        have hq : t.apply p.1 p.2 = q := by
          unfold PT.apply? at h1
          split at h1
          · cases h1
          · exact Option.some.inj h1
        simp only [fromPairs, PT.transformPoints, hq]
        rw [transformPoints_row t ps qs' h2]

theorem transformPoints_length (t : PT Rat) : ∀ (n : Nat) (l : List Rat), l.length = n → (t.transformPoints l).length = l.length
  | n, [], _ => rfl
  | n, [_], _ => rfl
  | n, x :: y :: rest, h => by
    simp only [PT.transformPoints, List.length_cons]
    rw [transformPoints_length t rest.length rest rfl]

theorem checkAndNudge_length {w h : Int} {ps ps' : List Pt} (hc : checkAndNudge w h ps = .ok ps') : ps'.length = ps.length := by
  unfold checkAndNudge at hc
  cases h1 : nudgePass w h ps with
  | error e => rw [h1] at hc; cases hc
  | ok ps1 =>
    rw [h1] at hc
    simp only [] at hc
    cases h2 : nudgePass w h ps1.reverse with
    | error e => rw [h2] at hc; cases hc
    | ok ps2 =>
      rw [h2] at hc
      simp only [Except.ok.injEq] at hc
      subst hc
      have l1 := (nudgePass_ok h1).length_eq
      have l2 := (nudgePass_ok h2).length_eq
      simp only [List.length_reverse] at l2 ⊢
      omega

when_kernel Gzx.Gen.K19.transformPoints in
theorem env_transform (img : Image) (t : PT Rat) (g : Int → Int → Bool) (fuel : Nat) (pts : List Rat) :
    (envOf img t g fuel).PerspectiveTransform_TransformPoints pts = t.transformPoints pts := by
  show (match Gen.K19.transformPoints ratOps t.a11 t.a21 t.a31 t.a12 t.a22 t.a32 t.a13 t.a23 t.a33 pts with
    | .ok r => r | .error _ => pts) = _
  rw [Obligations.K19P.k_transformPoints_eq ratOps ratOps_fieldLike t pts]

when_kernel Gzx.Gen.K19.checkAndNudge in
theorem env_nudge (img : Image) (t : PT Rat) (g : Int → Int → Bool) (fuel : Nat) (ps : List Pt) (hf : 2 * ps.length < fuel) :
    match checkAndNudge img.w img.h ps with
    | .ok ps' => (envOf img t g fuel).GridSampler_checkAndNudgePoints (fromPairs ps) = (false, fromPairs ps')
    | .error _ => ((envOf img t g fuel).GridSampler_checkAndNudgePoints (fromPairs ps)).1 = true := by
  have hk := Obligations.K19.k_checkAndNudge_model fuel img.w img.h ps hf
  cases hm : checkAndNudge img.w img.h ps with
  | ok ps' =>
    rw [hm] at hk
    show (match Gen.K19.checkAndNudge ratOps fuel img.w img.h (fromPairs ps) with | .ok r => r | .error _ => (true, fromPairs ps)) = _
    rw [hk]
  | error e =>
    rw [hm] at hk
    obtain ⟨_, out, ho⟩ := hk
    show (match Gen.K19.checkAndNudge ratOps fuel img.w img.h (fromPairs ps) with | .ok r => r | .error _ => (true, fromPairs ps)).1 = true
    rw [ho]

/-! ## the reading loop on the model's points -/

theorem setsRow_cons (b : Bool) (row : List Bool) (k : Nat) (y : Int) :
    setsRow (b :: row) k y = (if b then [(((k : Nat) : Int), y)] else []) ++ setsRow row (k + 1) y := by
  unfold setsRow
  cases b <;> simp [List.zipIdx_cons]

theorem read_pairs (img : Image) (t : PT Rat) (g : Int → Int → Bool) (fuel : Nat) (y : Int)
    (hget : ∀ x y, 0 ≤ x → x < img.w → 0 ≤ y → y < img.h → img.get x y = .ok (g x y)) :
    ∀ (ps : List Pt) (pre : List Rat) (k : Nat) (bits : List (Int × Int)), pre.length = 2 * k →
      readFrom ratOps (envOf img t g fuel) (pre ++ fromPairs ps) y ps.length k bits =
        match mapRes (readPoint img) ps with
        | .ok row => some (bits ++ setsRow row k y)
        | .error _ => none := by
  intro ps
  induction ps with
  | nil => intro pre k bits _; simp [readFrom, mapRes, setsRow]
  | cons p ps ih =>
    intro pre k bits hpre
    have h0 : (pre ++ fromPairs (p :: ps))[2 * k]? = some p.1 := by
      rw [List.getElem?_append_right (by omega), hpre, Nat.sub_self]; rfl
    have h1 : (pre ++ fromPairs (p :: ps))[2 * k + 1]? = some p.2 := by
      rw [List.getElem?_append_right (by omega), hpre, show 2 * k + 1 - 2 * k = 1 by omega]; rfl
    simp only [List.length_cons, readFrom, h0, h1, mapRes, readPoint, readPointG]
    have etr : ∀ x : Rat, ratOps.toInt x = trunc x := fun _ => rfl
    simp only [etr]
    by_cases hc : trunc p.1 < 0 ∨ trunc p.2 < 0 ∨ trunc p.1 ≥ (envOf img t g fuel).BitMatrix_GetWidth ∨
        trunc p.2 ≥ (envOf img t g fuel).BitMatrix_GetHeight
    · have hb : ((true && (decide (trunc p.1 < 0) || decide (trunc p.2 < 0))) || decide (trunc p.1 ≥ img.w) || decide (trunc p.2 ≥ img.h)) = true := by
        have hc' : trunc p.1 < 0 ∨ trunc p.2 < 0 ∨ trunc p.1 ≥ img.w ∨ trunc p.2 ≥ img.h := hc
        simp only [Bool.true_and, Bool.or_eq_true, decide_eq_true_eq]; omega
      simp only [hc, hb, if_true]
    · have hc' : ¬ (trunc p.1 < 0 ∨ trunc p.2 < 0 ∨ trunc p.1 ≥ img.w ∨ trunc p.2 ≥ img.h) := hc
      have hb : ((true && (decide (trunc p.1 < 0) || decide (trunc p.2 < 0))) || decide (trunc p.1 ≥ img.w) || decide (trunc p.2 ≥ img.h)) = false := by
        simp only [Bool.true_and, Bool.or_eq_false_iff, decide_eq_false_iff_not]; omega
      simp only [hc, hb, Bool.false_eq_true, if_false]
      rw [hget _ _ (by omega) (by omega) (by omega) (by omega)]
      have e : pre ++ fromPairs (p :: ps) = (pre ++ [p.1, p.2]) ++ fromPairs ps := by simp [fromPairs]
      rw [e, ih (pre ++ [p.1, p.2]) (k + 1) _ (by simp; omega)]
      simp only []
      cases mapRes (readPoint img) ps with
      | error e => rfl
      | ok row =>
        simp only [setsRow_cons]
        show some ((if g (trunc p.1) (trunc p.2) = true then bits ++ [(((k : Nat) : Int), y)] else bits) ++ setsRow row (k + 1) y) = _
        cases g (trunc p.1) (trunc p.2) <;> simp

/-! ## rows and the whole grid -/

theorem setsFrom_cons (row : List Bool) (rows : List (List Bool)) (k : Nat) :
    setsFrom (row :: rows) k = setsRow row 0 ((k : Nat) : Int) ++ setsFrom rows (k + 1) := by
  unfold setsFrom
  simp [List.zipIdx_cons]

when_kernel Gzx.Gen.K19b.sampleGridWT in
theorem row_model (img : Image) (t : PT Rat) (g : Int → Int → Bool) (fuel n : Nat) (hf : 2 * n < fuel)
    (hget : ∀ x y, 0 ≤ x → x < img.w → 0 ≤ y → y < img.h → img.get x y = .ok (g x y))
    (y : Nat) (hden : transformRow t (rowCentres n y) ≠ none) (bits : List (Int × Int)) :
    (rowSpec ratOps (envOf img t g fuel) n ((y : Nat) : Int) bits).2 =
      match sampleRow img t n y with
      | .ok row => some (bits ++ setsRow row 0 ((y : Nat) : Int))
      | .error _ => none := by
  unfold rowSpec sampleRow
  simp only []
  cases htr : transformRow t (rowCentres n y) with
  | none => exact absurd htr hden
  | some qs =>
    simp only []
    rw [centres_rat, env_transform, transformPoints_row t _ qs htr]
    have hql : qs.length = n := by
      have := (transformRow_some htr).length_eq
      simp [rowCentres] at this; omega
    have hn := env_nudge img t g fuel qs (by omega)
    cases hc : checkAndNudge img.w img.h qs with
    | error e =>
      rw [hc] at hn
      simp only [] at hn
      simp only [hn, if_true]
    | ok ps' =>
      rw [hc] at hn
      simp only [] at hn
      rw [hn]
      simp only [Bool.false_eq_true, if_false]
      have hpl : ps'.length = n := by rw [checkAndNudge_length hc, hql]
      have := read_pairs img t g fuel ((y : Nat) : Int) hget ps' [] 0 bits rfl
      rw [hpl] at this
      simp only [List.nil_append] at this
      rw [this]

when_kernel Gzx.Gen.K19b.sampleGridWT in
theorem rows_model (img : Image) (t : PT Rat) (g : Int → Int → Bool) (fuel n : Nat) (hf : 2 * n < fuel)
    (hget : ∀ x y, 0 ≤ x → x < img.w → 0 ≤ y → y < img.h → img.get x y = .ok (g x y)) :
    ∀ (m k : Nat) (bits : List (Int × Int)), (∀ y, k ≤ y → y < k + m → transformRow t (rowCentres n y) ≠ none) →
      rowsSpec ratOps (envOf img t g fuel) n m ((k : Nat) : Int) bits =
        match mapRes (sampleRow img t n) (List.range' k m) with
        | .ok rows => some (bits ++ setsFrom rows k)
        | .error _ => none := by
  intro m
  induction m with
  | zero => intro k bits _; simp [rowsSpec, mapRes, setsFrom]
  | succ m ih =>
    intro k bits hden
    simp only [rowsSpec, List.range'_succ, mapRes]
    rw [row_model img t g fuel n hf hget k (hden k (Nat.le_refl k) (by omega)) bits]
    cases sampleRow img t n k with
    | error e => rfl
    | ok row =>
      simp only []
      rw [show ((k : Nat) : Int) + 1 = ((k + 1 : Nat) : Int) by omega, ih (k + 1) _ (fun y h1 h2 => hden y (by omega) (by omega))]
      cases mapRes (sampleRow img t n) (List.range' (k + 1) m) with
      | error e => rfl
      | ok rows => simp [setsFrom_cons]

when_kernel Gzx.Gen.K19b.sampleGridWT in
/-- **SampleGridWithTransform, Go source to model**: the regenerated sampler running the regenerated `TransformPoints` and
    `checkAndNudgePoints` (exact rationals) performs exactly the `Set` calls of the dark cells of
    `GridSampler.sampleGridWithTransform` in reading order, and answers NotFound exactly when the model does -/
theorem k_sampleGrid_model (img : Image) (t : PT Rat) (g : Int → Int → Bool) (fuel : Nat) (dimX dimY : Int)
    (hget : ∀ x y, 0 ≤ x → x < img.w → 0 ≤ y → y < img.h → img.get x y = .ok (g x y))
    (hden : ∀ y : Nat, y < dimY.toNat → transformRow t (rowCentres dimX.toNat y) ≠ none)
    (hf : 2 * dimX.toNat < fuel) :
    Gen.K19b.sampleGridWT ratOps (envOf img t g fuel) dimX dimY =
      .ok (match sampleGridWithTransform img dimX dimY t with
        | .ok rows => some (setsFrom rows 0)
        | .error _ => none) := by
  rw [k_sampleGridWT_eq_rows]
  · unfold sampleSpec sampleGridWithTransform
    by_cases hd : dimX ≤ 0 ∨ dimY ≤ 0
    · simp only [hd, if_true]
    · simp only [hd, if_false]
      have := rows_model img t g fuel dimX.toNat hf hget dimY.toNat 0 [] (fun y _ h2 => hden y (by omega))
      rw [show (((0 : Nat)) : Int) = 0 from rfl] at this
      rw [show (envOf img t g fuel).NewBitMatrix dimX dimY = [] from rfl, this, List.range_eq_range']
      cases mapRes (sampleRow img t dimX.toNat) (List.range' 0 dimY.toNat) with
      | error e => rfl
      | ok rows => simp
  · -- the nudged slice of a row that passes the test has the row's length
    intro y hy
    rw [env_transform] at hy ⊢
    have hl : (t.transformPoints (centres ratOps dimX.toNat y)).length = 2 * dimX.toNat := by
      rw [transformPoints_length t _ _ rfl, centres_length]
    obtain ⟨hfp, _⟩ := toPairs_even _ (by rw [hl]; omega)
    have hpl : (toPairs (t.transformPoints (centres ratOps dimX.toNat y))).1.length = dimX.toNat := by
      have := congrArg List.length hfp
      rw [hl, fromPairs_length] at this; omega
    have hn := env_nudge img t g fuel (toPairs (t.transformPoints (centres ratOps dimX.toNat y))).1 (by omega)
    rw [← hfp] at hn
    cases hc : checkAndNudge img.w img.h (toPairs (t.transformPoints (centres ratOps dimX.toNat y))).1 with
    | error e => rw [hc] at hn; simp only [] at hn; rw [hn] at hy; cases hy
    | ok ps' =>
      rw [hc] at hn
      simp only [] at hn
      rw [hn, fromPairs_length, checkAndNudge_length hc, hpl]

-- non-vacuity of the hypotheses: the identity transform on a 2x1 image given by rows (`Image.ofRows` answers inside its bounds,
-- no denominator vanishes); the model samples the dark left pixel
def idT : PT Rat := ⟨1, 0, 0, 0, 1, 0, 0, 0, 1⟩
example : ∀ y : Nat, y < (1 : Int).toNat → transformRow idT (rowCentres (2 : Int).toNat y) ≠ none := by decide +kernel
example : ∀ x y : Int, 0 ≤ x → x < (Image.ofRows 2 1 [[true, false]]).w → 0 ≤ y → y < (Image.ofRows 2 1 [[true, false]]).h →
    (Image.ofRows 2 1 [[true, false]]).get x y = .ok (([[true, false]].getD y.toNat []).getD x.toNat false) := by
  intro x y h0 h1 h2 h3
  have hw : (Image.ofRows 2 1 [[true, false]]).w = 2 := rfl
  have hh : (Image.ofRows 2 1 [[true, false]]).h = 1 := rfl
  rw [hw] at h1; rw [hh] at h3
  show (if x < 0 ∨ y < 0 ∨ x ≥ ((2 : Nat) : Int) ∨ y ≥ ((1 : Nat) : Int) then _ else _) = _
  have : ¬ (x < 0 ∨ y < 0 ∨ x ≥ ((2 : Nat) : Int) ∨ y ≥ ((1 : Nat) : Int)) := by omega
  rw [if_neg this]
example : sampleGridWithTransform (Image.ofRows 2 1 [[true, false]]) 2 1 idT = .ok [[true, false]] := by decide +kernel

end Gzx.Obligations.K19c
