/-
  K19d (work package kfinish) — `PerspectiveTransform_QuadrilateralToSquare` and `…_QuadrilateralToQuadrilateral`, regenerated from
  common/perspective_transform.go on every run as compositions of abstract callees (`Gen.K19b.quadToSquare`, `quadToQuad`,
  translator kind `funce`: the call chain `SquareToQuadrilateral(…).buildAdjoint()`, the local objects `qToS`, `sToQ`,
  `sToQ.times(qToS)`), with the callees instantiated by the REGENERATED AND TIED kernels of K19 (`squareToQuad`, `buildAdjoint`,
  `times`, and `quadToSquare` itself), proved equal to the models `quadrilateralToSquare` / `quadrilateralToQuadrilateral` of
  Model/Perspective.lean for every carrier whose operations are its type-class arithmetic (exact rationals; every field in GzxM).
-/
import Gzx.Gen.K19b
import Gzx.KernelGuard
import Gzx.Obligations.K19P
namespace Gzx.Obligations.K19d
open Gzx Gzx.GoM Gzx.K19 Gzx.Perspective

variable {α : Type} [Add α] [Sub α] [Mul α] [Div α] [Zero α] [One α] [DecidableEq α]

/-- a transform as the regenerated kernels return it: the nine coefficients, or a panic (none of them has one) -/
abbrev T9 (α : Type) := Res (α × α × α × α × α × α × α × α × α)

when_kernel Gzx.Gen.K19.buildAdjoint in
/-- `buildAdjoint` of K19 on a returned transform -/
def adjK (ops : NumOps α) (s : T9 α) : T9 α :=
  s.bind fun t => Gen.K19.buildAdjoint ops t.1 t.2.1 t.2.2.1 t.2.2.2.1 t.2.2.2.2.1 t.2.2.2.2.2.1 t.2.2.2.2.2.2.1 t.2.2.2.2.2.2.2.1 t.2.2.2.2.2.2.2.2

when_kernel Gzx.Gen.K19.times in
/-- `times` of K19 on two returned transforms -/
def timesK (ops : NumOps α) (a b : T9 α) : T9 α :=
  a.bind fun t => b.bind fun u =>
    Gen.K19.times ops t.1 t.2.1 t.2.2.1 t.2.2.2.1 t.2.2.2.2.1 t.2.2.2.2.2.1 t.2.2.2.2.2.2.1 t.2.2.2.2.2.2.2.1 t.2.2.2.2.2.2.2.2
      u.1 u.2.1 u.2.2.1 u.2.2.2.1 u.2.2.2.2.1 u.2.2.2.2.2.1 u.2.2.2.2.2.2.1 u.2.2.2.2.2.2.2.1 u.2.2.2.2.2.2.2.2

when_kernel Gzx.Gen.K19b.quadToSquare in
/-- the callees of `QuadrilateralToSquare`: the regenerated kernels -/
def envQS (ops : NumOps α) : Gen.K19b.quadToSquare_Env α (T9 α) where
  PerspectiveTransform_SquareToQuadrilateral := Gen.K19.squareToQuad ops
  PerspectiveTransform_buildAdjoint := adjK ops

when_kernel Gzx.Gen.K19b.quadToSquare in
/-- `QuadrilateralToSquare` = `SquareToQuadrilateral(…).buildAdjoint()` of the regenerated kernels = the model -/
theorem k_quadToSquare_eq (ops : NumOps α) (H : FieldLike ops) (x0 y0 x1 y1 x2 y2 x3 y3 : α) :
    Gen.K19b.quadToSquare ops (envQS ops) x0 y0 x1 y1 x2 y2 x3 y3 = .ok (.ok (tup (quadrilateralToSquare x0 y0 x1 y1 x2 y2 x3 y3))) := by
  simp only [Gen.K19b.quadToSquare, envQS, adjK]
  rw [Obligations.K19P.k_squareToQuad_eq ops H]
  simp only [Except.bind]
  exact congrArg Except.ok (Obligations.K19P.k_buildAdjoint_eq ops H (squareToQuadrilateral x0 y0 x1 y1 x2 y2 x3 y3))

when_kernel Gzx.Gen.K19b.quadToQuad in
/-- the callees of `QuadrilateralToQuadrilateral`: the regenerated `QuadrilateralToSquare` (above), `SquareToQuadrilateral`, `times` -/
def envQQ (ops : NumOps α) : Gen.K19b.quadToQuad_Env α (T9 α) where
  PerspectiveTransform_QuadrilateralToSquare := fun x0 y0 x1 y1 x2 y2 x3 y3 =>
    (Gen.K19b.quadToSquare ops (envQS ops) x0 y0 x1 y1 x2 y2 x3 y3).bind id
  PerspectiveTransform_SquareToQuadrilateral := Gen.K19.squareToQuad ops
  PerspectiveTransform_times := timesK ops

when_kernel Gzx.Gen.K19b.quadToQuad in
/-- **QuadrilateralToQuadrilateral, Go source to model**: `sToQ.times(qToS)` with `qToS` the adjoint of the square-to-quadrilateral
    map of the first quadrilateral — every step a regenerated function -/
theorem k_quadToQuad_eq (ops : NumOps α) (H : FieldLike ops) (x0 y0 x1 y1 x2 y2 x3 y3 x0p y0p x1p y1p x2p y2p x3p y3p : α) :
    Gen.K19b.quadToQuad ops (envQQ ops) x0 y0 x1 y1 x2 y2 x3 y3 x0p y0p x1p y1p x2p y2p x3p y3p =
      .ok (.ok (tup (quadrilateralToQuadrilateral x0 y0 x1 y1 x2 y2 x3 y3 x0p y0p x1p y1p x2p y2p x3p y3p))) := by
  simp only [Gen.K19b.quadToQuad, envQQ, timesK]
  rw [k_quadToSquare_eq ops H, Obligations.K19P.k_squareToQuad_eq ops H]
  simp only [Except.bind, id]
  exact congrArg Except.ok (Obligations.K19P.k_times_eq ops H (squareToQuadrilateral x0p y0p x1p y1p x2p y2p x3p y3p)
    (quadrilateralToSquare x0 y0 x1 y1 x2 y2 x3 y3))

-- non-vacuity: exact rationals are field-like; the unit square onto itself is (a multiple of) the identity
when_kernel Gzx.Gen.K19b.quadToQuad in
example : Gen.K19b.quadToQuad ratOps (envQQ ratOps) 0 0 1 0 1 1 0 1 0 0 1 0 1 1 0 1 =
    .ok (.ok (tup (quadrilateralToQuadrilateral (0 : Rat) 0 1 0 1 1 0 1 0 0 1 0 1 1 0 1))) :=
  k_quadToQuad_eq ratOps ratOps_fieldLike _ _ _ _ _ _ _ _ _ _ _ _ _ _ _ _

end Gzx.Obligations.K19d
