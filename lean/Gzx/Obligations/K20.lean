/-
  K20 — the run-length primitives of oned/oned_reader.go regenerated from /repo on every run (`Gzx.Gen.K20`, translator kinds
  `funcm` / `region`, with the k17k20 extension: `counters[i]++`, calls of translated functions that take the row and write
  the caller's slice) and proved equal to the word-level mirror `Model/K20RunLength.lean`, for ALL row word slices (also
  corrupt ones: the panic of `BitArray.Get` is part of the statement), all natural `size`, `start`, all `counters` and every
  `fuel` above the stated bound.  `Proofs/K20.lean` links the mirror to `Model/RunLength.lean` (the model the C20 theorems
  are about).  The pixel getter is the regenerated `BitArray.Get` itself (`Gen.K20.arrayGet`, tied to `WArr.get` below).
-/
import Gzx.Gen.K20
import Gzx.KernelGuard
import Gzx.Proofs.K20
import Gzx.Proofs.BitsArr
namespace Gzx.Obligations.K20
open Gzx Gzx.GoM Gzx.Bits Gzx.GoVal

/-- the row's pixel getter as the kernels call it -/
def getK (row_bits : List Int) (i : Nat) : Res Bool := Gen.K20.arrayGet row_bits (i : Int)

when_kernel Gzx.Gen.K20.arrayGet in
/-- `BitArray.Get(i)` = `WArr.get` (the copy of the kernel that the K20 callers use) -/
theorem k_arrayGet_eq (a : WArr) (i : Nat) : Gen.K20.arrayGet (words a.words) i = WArr.get a i := by
  simp only [Gen.K20.arrayGet, WArr.get]
  rw [idxR a.words (i / 32) _ (by gonorm; omega)]
  simp only [bind, Except.bind]
  cases wordAt a.words (i / 32) with
  | error e => rfl
  | ok w =>
    simp only [pure, Except.pure]
    gonorm
    rw [bit_natCast _ (i % 32) (by omega) (by omega), iand_natCast]
    congr 1
    cases hb : ((w &&& 1 <<< (i % 32)) != 0) <;> simp_all

/-- what the `for i < end` loop must leave for a result of the mirror -/
def expScan : Res (List Int × Nat × Bool × Int) → Ctl (List Int × Int × Bool × Int) (Bool × List Int)
  | .ok (cs, i, w, cp) => .brk (cs, (i : Int), w, cp)
  | .error e => .panic e

when_kernel Gzx.Gen.K20.recordPattern in
/-- the pixel loop of `RecordPattern` = `K20.rpScan`: same reads, same counter writes, same exits, same panics -/
theorem k_recordPattern_scan (row_bits : List Int) (n : Int) (size : Nat) :
    ∀ (k i : Nat) (cs : List Int) (w : Bool) (cp : Int) (fuel : Nat), k < fuel → i + k = size →
      whileLoop (Gen.K20.recordPattern_body2 row_bits n (size : Int)) fuel (cs, (i : Int), w, cp) =
        expScan (K20.rpScan (getK row_bits) n k i cs w cp) := by
  intro k
  induction k with
  | zero =>
    intro i cs w cp fuel hf hi
    obtain ⟨fuel, rfl⟩ : ∃ f, fuel = f + 1 := ⟨fuel - 1, by omega⟩
    have hc : ¬ ((i : Int) < (size : Int)) := by omega
    simp [whileLoop_succ, Gen.K20.recordPattern_body2, hc, K20.rpScan, expScan]
  | succ k ih =>
    intro i cs w cp fuel hf hi
    obtain ⟨fuel, rfl⟩ : ∃ f, fuel = f + 1 := ⟨fuel - 1, by omega⟩
    have hc : (i : Int) < (size : Int) := by omega
    have e1 : (i : Int) + 1 = ((i + 1 : Nat) : Int) := by omega
    rw [whileLoop_succ]
    simp only [Gen.K20.recordPattern_body2, hc, decide_true, if_true, K20.rpScan, getK]
    cases hg : Gen.K20.arrayGet row_bits (i : Int) with
    | error e => rfl
    | ok b =>
      simp only [tryC_ok]
      by_cases hb : (b != w) = true
      · simp only [hb, if_true]
        cases hx : idx cs cp with
        | error e => rfl
        | ok c =>
          simp only [tryC_ok]
          cases hs : setIdx cs cp (c + 1) with
          | error e => rfl
          | ok cs' =>
            simp only [tryC_ok, e1]
            exact ih (i + 1) cs' w cp fuel (by omega) (by omega)
      · simp only [hb]
        by_cases hn : (cp + 1 == n) = true
        · simp only [hn, if_true]; rfl
        · simp only [hn]
          cases hs : setIdx cs (cp + 1) 1 with
          | error e => rfl
          | ok cs' =>
            simp only [tryC_ok, e1]
            exact ih (i + 1) cs' (!w) (cp + 1) fuel (by omega) (by omega)

when_kernel Gzx.Gen.K20.recordPattern in
/-- `RecordPattern(row, start, counters)` = `K20.recordPattern` on the regenerated getter: counters zeroed, NotFound
    for `start ≥ size`, the pixel loop, the final test `counterPosition == n || (counterPosition == n-1 && i == end)` -/
theorem k_recordPattern_eq (row_bits : List Int) (size start : Nat) (counters : List Int) (fuel : Nat) (hf : size < fuel) :
    Gen.K20.recordPattern fuel row_bits (size : Int) (start : Int) counters =
      K20.recordPattern (getK row_bits) size start counters := by
  simp only [Gen.K20.recordPattern, K20.recordPattern]
  rw [loop_up_fold' (fun (t : List Int) => t) (fun (t : List Int) (i : Nat) => setIdx t (i : Int) 0) 0 counters.length counters rfl
        (by rw [tripUp_one]; simp [len]) (by omega)]
  · rw [foldlM_setIdx_all]
    simp only [Except.map, ofRes_ok, next_thenR]
    by_cases hs : start ≥ size
    · have : (start : Int) ≥ (size : Int) := by omega
      simp [hs, this]
    · have : ¬ (start : Int) ≥ (size : Int) := by omega
      simp only [hs, this, decide_false, if_false, getK]
      cases hg : Gen.K20.arrayGet row_bits (start : Int) with
      | error e => rfl
      | ok b =>
        simp only [tryR_ok]
        rw [k_recordPattern_scan row_bits _ size (size - start) start _ _ _ fuel (by omega) (by omega)]
        cases hr : K20.rpScan (getK row_bits) (len counters) (size - start) start (counters.map fun _ => 0) (!b) 0 with
        | error e => simp [len] at hr; simp [hr, expScan, len]
        | ok r =>
          obtain ⟨cs, i, w, cp⟩ := r
          simp [len] at hr
          simp [hr, expScan, len]
  · intro i _ _ t
    simp only [Gen.K20.recordPattern_body1]
    cases setIdx t (i : Int) 0 <;> rfl

/-- what the backwards loop must leave for a result of the mirror -/
def expRev : Res (Nat × Int × Bool) → Ctl (Int × Int × Bool) (Bool × List Int)
  | .ok (s, l, last) => .brk ((s : Int), l, last)
  | .error e => .panic e

when_kernel Gzx.Gen.K20.recordPatternInReverse in
/-- the backwards walk of `RecordPatternInReverse` = `K20.revScan` -/
theorem k_recordPatternInReverse_scan (row_bits : List Int) :
    ∀ (s : Nat) (l : Int) (last : Bool) (fuel : Nat), s < fuel →
      whileLoop (Gen.K20.recordPatternInReverse_body1 row_bits) fuel ((s : Int), l, last) =
        expRev (K20.revScan (getK row_bits) s l last) := by
  intro s
  induction s with
  | zero =>
    intro l last fuel hf
    obtain ⟨fuel, rfl⟩ : ∃ f, fuel = f + 1 := ⟨fuel - 1, by omega⟩
    simp [whileLoop_succ, Gen.K20.recordPatternInReverse_body1, K20.revScan, expRev]
  | succ s ih =>
    intro l last fuel hf
    obtain ⟨fuel, rfl⟩ : ∃ f, fuel = f + 1 := ⟨fuel - 1, by omega⟩
    have hc : ((s + 1 : Nat) : Int) > 0 := by omega
    have e1 : ((s + 1 : Nat) : Int) - 1 = (s : Int) := by omega
    rw [whileLoop_succ]
    simp only [Gen.K20.recordPatternInReverse_body1, hc, decide_true, if_true, K20.revScan, getK, e1]
    by_cases hl : l ≥ 0
    · simp only [hl, decide_true, if_true]
      cases hg : Gen.K20.arrayGet row_bits (s : Int) with
      | error e => rfl
      | ok b =>
        simp only [tryC_ok]
        by_cases hb : (b != last) = true
        · simp only [hb, if_true]
          exact ih (l - 1) (!last) fuel (by omega)
        · simp only [hb]
          exact ih l last fuel (by omega)
    · simp only [hl, decide_false]
      simp [expRev]

when_kernel Gzx.Gen.K20.recordPatternInReverse in
/-- `RecordPatternInReverse(row, start, counters)` = `K20.recordPatternInReverse`: `row.Get(start)`, the walk back over
    `len(counters)+1` transitions, NotFound when the row start is reached first (counters untouched), else
    `RecordPattern(row, start+1, counters)` -/
theorem k_recordPatternInReverse_eq (row_bits : List Int) (size start : Nat) (counters : List Int) (fuel : Nat)
    (hf : size < fuel) (hs : start < fuel) :
    Gen.K20.recordPatternInReverse fuel row_bits (size : Int) (start : Int) counters =
      K20.recordPatternInReverse (getK row_bits) size start counters := by
  simp only [Gen.K20.recordPatternInReverse, K20.recordPatternInReverse, getK]
  cases hg : Gen.K20.arrayGet row_bits (start : Int) with
  | error e => rfl
  | ok last =>
    simp only [tryR_ok]
    rw [k_recordPatternInReverse_scan row_bits start _ last fuel hs]
    cases hr : K20.revScan (getK row_bits) start (len counters) last with
    | error e => simp [len] at hr; simp [hr, expRev]
    | ok r =>
      obtain ⟨s, l, lst⟩ := r
      simp [len] at hr
      simp only [hr, expRev, brk_thenR]
      by_cases hl : l ≥ 0
      · simp [hl]
      · simp only [hl, decide_false]
        have e : (s : Int) + 1 = ((s + 1 : Nat) : Int) := by omega
        rw [e, k_recordPattern_eq row_bits size (s + 1) counters fuel hf]
        cases K20.recordPattern (getK row_bits) size (s + 1) counters <;> rfl

when_kernel Gzx.Gen.K20.pmvSums in
/-- the first loop of `PatternMatchVariance` (`total`, `patternLength`) = `K20.pmvSums`: sums over `i < len(counters)`,
    index panic when `pattern` is shorter -/
theorem k_pmvSums_eq (counters pattern : List Int) :
    Gen.K20.pmvSums counters pattern = K20.pmvSums counters pattern 0 0 := by
  simp only [Gen.K20.pmvSums]
  have key : ∀ (cs ps pre qre : List Int) (t p : Int), pre.length = qre.length →
      loop (Gen.K20.pmvSums_body1 (pre ++ cs) (qre ++ ps)) 1 cs.length (pre.length : Nat) (t, p) =
        ofRes (K20.pmvSums cs ps t p) := by
    intro cs
    induction cs with
    | nil => intro ps pre qre t p _; simp [loop, K20.pmvSums]
    | cons c cs ih =>
      intro ps pre qre t p hl
      rw [List.length_cons, loop_succ]
      simp only [Gen.K20.pmvSums_body1]
      rw [idx_ofNat _ _ (by simp), List.getElem_append_right (Nat.le_refl _)]
      simp only [Nat.sub_self, List.getElem_cons_zero, tryC_ok]
      cases ps with
      | nil =>
        rw [idx_ge _ _ (by simp; omega)]
        simp [K20.pmvSums]
      | cons q ps =>
        rw [hl, idx_ofNat _ _ (by simp), List.getElem_append_right (Nat.le_refl _)]
        simp only [Nat.sub_self, List.getElem_cons_zero, tryC_ok, K20.pmvSums]
        have e : (qre.length : Int) + 1 = ((pre ++ [c]).length : Nat) := by simp; omega
        have := ih ps (pre ++ [c]) (qre ++ [q]) (t + c) (p + q) (by simp; omega)
        simp only [List.append_assoc, List.singleton_append] at this
        rw [e]; exact this
  have := key counters pattern [] [] 0 0 rfl
  simp only [List.nil_append, List.length_nil] at this
  rw [tripUp_one, show (len counters - 0).toNat = counters.length by simp [len]]
  have e0 : ((0 : Nat) : Int) = 0 := rfl
  rw [e0] at this
  rw [this]
  cases K20.pmvSums counters pattern 0 0 <;> rfl

/-! ### end to end: the regenerated code on a well-formed `BitArray` is the model the C20 theorems are about -/

when_kernel Gzx.Gen.K20.arrayGet in
theorem getK_absA (a : WArr) (ha : a.size ≤ a.words.length * 32) :
    ∀ j (h : j < (absA a).length), getK (words a.words) j = .ok (absA a)[j] := by
  intro j h
  have hj : j < a.size := by simpa [absA] using h
  rw [getK, k_arrayGet_eq, WArr.get_eq_bitAt a j (by omega)]
  simp [absA]

when_kernel Gzx.Gen.K20.recordPattern in
/-- **RecordPattern, Go source to run-length specification**: the function regenerated from oned_reader.go, run on the word
    slice of any `BitArray` with enough words for its size (every array the library builds), agrees with
    `RunLength.recordPattern` on the array's pixels — the model that `Properties/C20.recordPattern_eq_runs` proves equal
    to the first `n` maximal run lengths.  (`K20.Agrees`: equal counters on success, NotFound together, panic together.) -/
theorem k_recordPattern_model (a : WArr) (ha : a.size ≤ a.words.length * 32) (start : Nat) (counters : List Int)
    (fuel : Nat) (hf : a.size < fuel) :
    K20.Agrees (Gen.K20.recordPattern fuel (words a.words) (a.size : Int) (start : Int) counters)
      (RunLength.recordPattern (absA a) start counters.length) := by
  rw [k_recordPattern_eq _ _ _ _ _ hf]
  have := K20.recordPattern_agrees (getK (words a.words)) (absA a) start counters (getK_absA a ha)
  simpa [absA] using this

-- non-vacuity: a 40-pixel row `1100 0111 1000 …` built by `WArr`, three counters from pixel 2: runs 3, 4, 31 (cut by the row end)
when_kernel Gzx.Gen.K20.recordPattern in
example : Gen.K20.recordPattern 41 (words [0x1E3, 0]) 40 2 [7, 7, 7] = .ok (false, [3, 4, 31]) := by decide
when_kernel Gzx.Gen.K20.recordPattern in
example : Gen.K20.recordPattern 41 (words [0x1E3, 0]) 40 9 [7, 7, 7] = .ok (true, [31, 0, 0]) := by decide
when_kernel Gzx.Gen.K20.recordPatternInReverse in
example : Gen.K20.recordPatternInReverse 41 (words [0x1E3, 0]) 40 12 [5, 5] = .ok (false, [3, 4]) := by decide
when_kernel Gzx.Gen.K20.pmvSums in
example : Gen.K20.pmvSums [3, 4, 3] [1, 1, 1, 9] = .ok (10, 3) := by decide
example : (⟨[0x1E3, 0], 40⟩ : WArr).size ≤ (⟨[0x1E3, 0], 40⟩ : WArr).words.length * 32 := by decide

end Gzx.Obligations.K20
