/-
  KDetrest — integer arithmetic of the code modelled by work package detrest, regenerated from /repo on
  every run (`Gzx.Gen.KDetrest`, translator/tables.d/Detrest.txt) and proved equal, for ALL arguments, to the
  definitions the models use (property C06):
    * datamatrix extractPureBits: the statements computing top / bottom / left / right / matrixWidth /
      matrixHeight (two checked slice reads each, two divisions by the module size) and the half-module nudge;
    * aztec/detector getDimension, max, min;
    * multi/qrcode/detector FindMulti: the row step.
  A one-token change of that arithmetic in the Go source (`+ 1` → `+ 2`, `/ 2` → `/ 3`, `15` → `16`, `<` → `<=` …)
  breaks one of these theorems deterministically.
-/
import Gzx.Gen.KDetrest
import Gzx.KernelGuard
import Gzx.Model.PureBits
import Gzx.Model.DetAztec2
import Gzx.Model.DetMulti
namespace Gzx.Obligations.KDetrest
open Gzx Gzx.Det

when_kernel Gzx.Gen.KDetrest.dmPureDims in
/-- the geometry statements of the Data Matrix `extractPureBits` = `Pure.DM.dims`, for the two-element slices
    `GetTopLeftOnBit` / `GetBottomRightOnBit` return and EVERY module size (0 included: both panic) -/
theorem k_dmPureDims_eq (lt rb : Int × Int) (ms : Int) :
    Gen.KDetrest.dmPureDims [lt.1, lt.2] [rb.1, rb.2] ms = Pure.DM.dims lt rb ms := by
  unfold Gen.KDetrest.dmPureDims Pure.DM.dims
  by_cases h : ms = 0
  · simp [GoM.tryR, GoM.idx, GoM.div, Pure.goDiv, h, bind, Except.bind]
  · simp [GoM.tryR, GoM.idx, GoM.div, Pure.goDiv, h, bind, Except.bind, pure, Except.pure]

when_kernel Gzx.Gen.KDetrest.dmPureNudge in
/-- `nudge := moduleSize / 2; top += nudge; left += nudge` = `Pure.DM.nudged` -/
theorem k_dmPureNudge_eq (ms top left : Int) :
    Gen.KDetrest.dmPureNudge ms top left = .ok (Pure.DM.nudged ms top left) := by
  unfold Gen.KDetrest.dmPureNudge Pure.DM.nudged
  rfl

when_kernel Gzx.Gen.KDetrest.azDimension in
/-- `Detector.getDimension()` = `AZ.getDimension` -/
theorem k_azDimension_eq (compact : Bool) (nbLayers : Int) :
    Gen.KDetrest.azDimension compact nbLayers = .ok (AZ.getDimension compact nbLayers) := by
  unfold Gen.KDetrest.azDimension AZ.getDimension
  cases compact <;> simp <;> omega

when_kernel Gzx.Gen.KDetrest.azMax in
/-- aztec/detector `max` / `min` = the model's `imax` / `imin` -/
theorem k_azMax_eq (a b : Int) : Gen.KDetrest.azMax a b = AZ.imax a b := by
  unfold Gen.KDetrest.azMax AZ.imax
  by_cases h : a > b <;> simp [h]

when_kernel Gzx.Gen.KDetrest.azMin in
theorem k_azMin_eq (a b : Int) : Gen.KDetrest.azMin a b = AZ.imin a b := by
  unfold Gen.KDetrest.azMin AZ.imin
  by_cases h : a < b <;> simp [h]

when_kernel Gzx.Gen.KDetrest.multiRowStep in
/-- the row step of `FindMulti` = `Multi.rowStep` -/
theorem k_multiRowStep_eq (tryHarder : Bool) (maxI : Int) :
    Gen.KDetrest.multiRowStep tryHarder maxI = .ok (Multi.rowStep maxI tryHarder) := by
  unfold Gen.KDetrest.multiRowStep Multi.rowStep
  by_cases h : Int.tdiv (3 * maxI) 388 < 3 <;> cases tryHarder <;> simp [h]

end Gzx.Obligations.KDetrest
