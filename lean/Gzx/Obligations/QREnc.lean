/-
  wp `qrenc` — per-run obligation: the two kernels regenerated from /repo's working tree
  (`getNumDataBytesAndNumECBytesForBlockID`, `MaskUtil_getDataMaskBit`) satisfy the hypothesis `KernelsOK` of the
  mirror-model theorems (`Properties/C07Mirror.lean`), so those theorems hold for the mirror run with the Go
  functions as they are now.  Guarded: if a kernel leaves the translatable subset the theorem is skipped
  (reported in the evidence) and that function is tied by the `c07m blk` / `c07 mask` correspondence only.
-/
import Gzx.KernelGuard
import Gzx.Obligations.C07
import Gzx.Proofs.QREncData
namespace Gzx.Obligations.QREnc
open Gzx Gzx.QREnc

when_kernel Gzx.Gen.C07Kernels.blockSizes in
when_kernel Gzx.Gen.QRMask.getDataMaskBit in
theorem gen_kernels_ok : KernelsOK ⟨Gen.C07Kernels.blockSizes, Gen.QRMask.getDataMaskBit⟩ :=
  ⟨fun D e n b hn hb => Gzx.Obligations.C07.block_split_formula D e n b hn hb,
   fun k x y hk => Gzx.Obligations.C07.enc_mask_formula k x y hk⟩

end Gzx.Obligations.QREnc
