/-
  C11 composition lemmas: stuffWords/unstuff on whole messages, HighLevelDecode of a script's bits
  plus padding, codeword chunking, and the decoder model run on a reference symbol.
-/
import Gzx.Proofs.AztecHL
import Gzx.Proofs.AztecLayout
namespace Gzx.AztecCompose
open Gzx Gzx.AztecDecoder Gzx.Ref.Aztec Gzx.AztecLink Gzx.AztecStuff Gzx.AztecHL

/-! ### stuffing -/

theorem stuffWords_unstuff (b : Nat) (hb : 2 ≤ b) (bits : List Bool) :
    ∃ k, k < b ∧
      unstuff b ((stuffWords b bits).map fromBits) = .ok (bits ++ List.replicate k true) := by
  unfold stuffWords
  cases hbits : bits with
  | nil =>
    refine ⟨b - 1, by omega, ?_⟩
    have hpow : 2 ^ b = 2 * 2 ^ (b - 1) := by
      have : b = (b - 1) + 1 := by omega
      rw [this, Nat.pow_succ]; simp; omega
    have hp : 0 < 2 ^ (b - 1) := Nat.two_pow_pos _
    have hval : fromBits (List.replicate (b - 1) true ++ [false]) = 2 ^ b - 2 := by
      rw [fromBits_append_single, fromBits_replicate_true, hpow]; simp; omega
    simp only [List.isEmpty_nil, if_true, List.map_cons, List.map_nil, hval]
    rw [unstuff_ones b hb [] [] rfl]
    simp
  | cons x xs =>
    rw [← hbits]
    have : bits.isEmpty = false := by rw [hbits]; rfl
    simp only [this, Bool.false_eq_true, if_false]
    exact stuff_unstuff_aux b hb (bits.length + 1) bits (by omega)

theorem stuffAux_word_length (b : Nat) (hb : 1 ≤ b) :
    ∀ (fuel : Nat) (bits : List Bool), ∀ wd ∈ stuffAux b fuel bits, wd.length = b := by
  intro fuel
  induction fuel with
  | zero => intro bits wd h; simp [stuffAux] at h
  | succ fuel ih =>
    intro bits wd h
    cases hbits : bits with
    | nil => rw [hbits] at h; simp [stuffAux] at h
    | cons x xs =>
      have hst : stuffAux b (fuel + 1) bits =
          (let head := bits.take (b - 1)
           let padded := head ++ List.replicate (b - 1 - head.length) true
           if padded.all (· == true) then (padded ++ [false]) :: stuffAux b fuel (bits.drop (b - 1))
           else if padded.all (· == false) then (padded ++ [true]) :: stuffAux b fuel (bits.drop (b - 1))
           else
             let nxt := ((bits.drop (b - 1)).head?).getD true
             (padded ++ [nxt]) :: stuffAux b fuel (bits.drop b)) := by
        rw [hbits]; rfl
      rw [hst] at h
      dsimp only at h
      have hplen : ∀ y : Bool, ((bits.take (b - 1) ++
          List.replicate (b - 1 - (bits.take (b - 1)).length) true) ++ [y]).length = b := by
        intro y; simp; omega
      split at h
      · rcases List.mem_cons.mp h with h | h
        · rw [h]; exact hplen _
        · exact ih _ _ h
      · split at h
        · rcases List.mem_cons.mp h with h | h
          · rw [h]; exact hplen _
          · exact ih _ _ h
        · rcases List.mem_cons.mp h with h | h
          · rw [h]; exact hplen _
          · exact ih _ _ h

theorem stuffWords_word_length (b : Nat) (hb : 1 ≤ b) (bits : List Bool) :
    ∀ wd ∈ stuffWords b bits, wd.length = b := by
  intro wd h
  unfold stuffWords at h
  split at h
  · simp at h; rw [h]; simp; omega
  · exact stuffAux_word_length b hb _ _ wd h

theorem stuffWords_values_lt (b : Nat) (hb : 1 ≤ b) (bits : List Bool) :
    ∀ x ∈ (stuffWords b bits).map fromBits, x < 2 ^ b := by
  intro x h
  obtain ⟨wd, hwd, rfl⟩ := List.mem_map.mp h
  have := fromBits_lt wd
  rwa [stuffWords_word_length b hb bits wd hwd] at this

/-! ### HighLevelDecode of a script -/

theorem hld_script (reg : Nat → Bool) (ops : List Op) (bits : List Bool)
    (henc : encodeScript .upper ops = some bits) (hok : scriptOK reg ops) (k : Nat) (hk : k < 12) :
    getEncodedData refTables reg (bits ++ List.replicate k true) =
      .ok (segments ((scriptItems .upper ops).map toEvent)) := by
  have h1 := script_loop reg ops .upper bits henc hok (List.replicate k true) (k + 1)
  rw [pad_loop reg _ k hk] at h1
  have h2 : loop refTables reg (k + 1 + scriptSteps ops) (mctl .upper)
      (bits ++ List.replicate k true) = .ok ((scriptItems .upper ops).map toEvent) := by
    rw [h1]; simp [Except.map]
  have hle := scriptSteps_le ops .upper bits henc
  have h3 := loop_mono reg _ _ _ _ h2 ((bits ++ List.replicate k true).length + 1)
    (by simp; omega)
  unfold getEncodedData
  have : Ctl.init = mctl .upper := rfl
  rw [this, h3]
  rfl

/-! ### segments of plain byte events -/

theorem foldl_bytes (bss : List (List Nat)) (d : Data) :
    (bss.map Event.bytes).foldl Data.apply d = { d with decoded := d.decoded ++ bss.flatten } := by
  induction bss generalizing d with
  | nil => simp
  | cons bs bss ih =>
    simp only [List.map_cons, List.foldl_cons, ih, Data.apply, List.flatten_cons, List.append_assoc]

theorem segments_bytes (bss : List (List Nat)) :
    segments (bss.map Event.bytes) =
      (if bss.flatten.isEmpty then [] else [.enc none bss.flatten]) := by
  unfold segments
  rw [foldl_bytes]
  simp only [Data.flush, List.nil_append]
  split <;> simp_all

theorem latin1_render (bs : List Nat) :
    renderDefault (if bs.isEmpty then [] else [.enc none bs]) = some (latin1ToUtf8 bs) := by
  split
  · rename_i h
    have : bs = [] := by simpa using h
    subst this; rfl
  · simp [renderDefault]

/-! ### codewords -/

theorem chunkWords_flatMap (w : Nat) (ws : List Nat) (h : ∀ x ∈ ws, x < 2 ^ w) :
    chunkWords w ws.length (ws.flatMap (toBits w)) = ws := by
  induction ws with
  | nil => rfl
  | cons x ws ih =>
    have hx : x < 2 ^ w := h x (by simp)
    have hrest : ∀ y ∈ ws, y < 2 ^ w := fun y hy => h y (by simp [hy])
    simp only [List.length_cons, chunkWords, List.flatMap_cons]
    have ht : (toBits w x ++ ws.flatMap (toBits w)).take w = toBits w x := by
      apply List.take_left'; exact length_toBits w x
    have hd : (toBits w x ++ ws.flatMap (toBits w)).drop w = ws.flatMap (toBits w) := by
      apply List.drop_left'; exact length_toBits w x
    rw [ht, hd, readCode_toBits w x hx, ih hrest]

theorem length_flatMap_toBits (w : Nat) (ws : List Nat) :
    (ws.flatMap (toBits w)).length = ws.length * w := by
  induction ws with
  | nil => simp
  | cons x ws ih => simp [length_toBits, ih, Nat.succ_mul]; omega

theorem codewordSize_eq (layers : Nat) : codewordSize layers = wordSize layers := rfl

theorem wordSize_bounds (layers : Nat) : 6 ≤ wordSize layers ∧ wordSize layers ≤ 12 := by
  unfold wordSize
  by_cases h1 : layers ≤ 2
  · simp [h1]
  · by_cases h2 : layers ≤ 8
    · simp [h1, h2]
    · by_cases h3 : layers ≤ 22 <;> simp [h1, h2, h3]

/-! ### the decoder on a reference symbol -/

/-- `correctBits` on the stream of a reference symbol, with a Reed-Solomon decoder that returns the
    (valid) codeword unchanged -/
theorem correctBits_ref (rs : RSDecoder) (compact : Bool) (layers : Nat) (hl : List Bool)
    (chk : List Nat) (minCheck : Nat)
    (hfit : ((stuffWords (wordSize layers) hl).map fromBits).length + minCheck ≤
        totalBits compact layers / wordSize layers)
    (hchk : chk.length = totalBits compact layers / wordSize layers -
        ((stuffWords (wordSize layers) hl).map fromBits).length)
    (hchklt : ∀ x ∈ chk, x < 2 ^ wordSize layers)
    (hpos : 0 < totalBits compact layers / wordSize layers)
    (hrs : rs (wordSize layers) ((stuffWords (wordSize layers) hl).map fromBits ++ chk) chk.length =
        .ok ((stuffWords (wordSize layers) hl).map fromBits ++ chk)) :
    ∃ k c, k < 12 ∧
      correctBits rs
        (List.replicate (totalBits compact layers % wordSize layers) false ++
          ((stuffWords (wordSize layers) hl).map fromBits ++ chk).flatMap (toBits (wordSize layers)))
        layers ((stuffWords (wordSize layers) hl).map fromBits).length = .ok c ∧
      c.bits = hl ++ List.replicate k true := by
  generalize hb : wordSize layers = b at *
  generalize hws : (stuffWords b hl).map fromBits = words at *
  generalize htot : totalBits compact layers = total at *
  have hb6 : 6 ≤ b ∧ b ≤ 12 := by rw [← hb]; exact wordSize_bounds layers
  obtain ⟨k, hk, hun⟩ := stuffWords_unstuff b (by omega) hl
  rw [hws] at hun
  have hwlt : ∀ x ∈ words ++ chk, x < 2 ^ b := by
    intro x hx
    rcases List.mem_append.mp hx with hx | hx
    · rw [← hws] at hx; exact stuffWords_values_lt b (by omega) hl x hx
    · exact hchklt x hx
  have hlen : (words ++ chk).length = total / b := by
    rw [List.length_append, hchk]; omega
  have hslen : (List.replicate (total % b) false ++ (words ++ chk).flatMap (toBits b)).length =
      total := by
    rw [List.length_append, List.length_replicate, length_flatMap_toBits, hlen]
    have := Nat.mod_add_div total b
    rw [Nat.mul_comm] at this
    omega
  refine ⟨k, ⟨hl ++ List.replicate k true, 100 * (total / b - words.length) / (total / b)⟩,
    by omega, ?_, rfl⟩
  unfold correctBits
  simp only [codewordSize_eq, hb, hslen]
  have h1 : ¬ (total / b < words.length) := by omega
  have hdrop : (List.replicate (total % b) false ++ (words ++ chk).flatMap (toBits b)).drop
      (total % b) = (words ++ chk).flatMap (toBits b) := by
    apply List.drop_left'; simp
  have hchunk : chunkWords b (total / b) ((words ++ chk).flatMap (toBits b)) = words ++ chk := by
    rw [← hlen]; exact chunkWords_flatMap b _ hwlt
  have htwoS : total / b - words.length = chk.length := by omega
  have htake : (words ++ chk).take words.length = words := List.take_left' rfl
  have hne : ¬ (total / b = 0) := by omega
  simp only [h1, if_false, hdrop, hchunk, htwoS, hrs, htake, hun, hne]
  rfl

end Gzx.AztecCompose
