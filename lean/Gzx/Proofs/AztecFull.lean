/-
  C11 composition with the Reed-Solomon decoder of C04 plugged in (`rsModel`): shape of a reference symbol,
  capacity of every size against the field size, `correctBits` on an arbitrary received stream, and the decoder
  model on any matrix whose extracted codewords differ from the reference codeword sequence in at most
  ⌊check words / 2⌋ positions.
-/
import Gzx.Proofs.AztecCompose
import Gzx.Proofs.AztecRS
namespace Gzx.AztecFull
open Gzx Gzx.AztecDecoder Gzx.Ref.Aztec Gzx.AztecLink Gzx.AztecStuff Gzx.AztecHL Gzx.AztecCompose Gzx.AztecRS
open Gzx.Properties.C04 (hamming)

/-! ### sizes against fields -/

theorem wordOK_wordSize (layers : Nat) : WordOK (wordSize layers) := by
  unfold wordSize WordOK
  split
  · simp
  · split
    · simp
    · split <;> simp

/-- every size (layer count 1..32, compact or not) holds at most `2^w - 1` codewords of its size `w`:
    the codeword sequence of a symbol fits one Reed-Solomon block over its field -/
theorem capacity_le (compact : Bool) : ∀ (layers : Nat), layers ≤ 32 →
    totalBits compact layers / wordSize layers ≤ 2 ^ wordSize layers - 1 := by
  cases compact <;> decide

theorem capacity_pos (compact : Bool) : ∀ (layers : Nat), layers ≤ 32 → 1 ≤ layers →
    0 < totalBits compact layers / wordSize layers := by
  cases compact <;> decide

/-! ### extracted stream -/

theorem readAll_length (m : Matrix) : ∀ (ps : List (Nat × Nat)) (bs : List Bool),
    readAll m ps = .ok bs → bs.length = ps.length
  | [], bs, h => by
    simp only [readAll] at h
    cases h; rfl
  | p :: ps, bs, h => by
    simp only [readAll] at h
    split at h
    · cases h
    · split at h
      · cases h
      · rename_i bs' hbs
        cases h
        simp [readAll_length m ps bs' hbs]

theorem extractBits_length (m : Matrix) (layers : Nat) (compact : Bool) (raw : List Bool)
    (hlay : AztecLayout.layoutOK compact layers = true)
    (h : extractBits m layers compact = .ok raw) : raw.length = totalBits compact layers := by
  simp only [AztecLayout.layoutOK, Bool.and_eq_true] at hlay
  rw [readAll_length m _ raw h]
  exact Nat.eq_of_beq_eq_true hlay.1

theorem chunkWords_length (w : Nat) : ∀ (n : Nat) (bs : List Bool), (chunkWords w n bs).length = n
  | 0, _ => rfl
  | n + 1, bs => by simp [chunkWords, chunkWords_length w n]

theorem chunkWords_lt (w : Nat) : ∀ (n : Nat) (bs : List Bool), ∀ x ∈ chunkWords w n bs, x < 2 ^ w
  | 0, _, x, h => by simp [chunkWords] at h
  | n + 1, bs, x, h => by
    simp only [chunkWords, List.mem_cons] at h
    rcases h with rfl | h
    · have h1 := fromBits_lt (bs.take w)
      rw [readCode_eq_fromBits]
      exact Nat.lt_of_lt_of_le h1 (Nat.pow_le_pow_right (by omega) (by simp; omega))
    · exact chunkWords_lt w n _ x h

/-- the received codewords of a stream made of pad bits and codewords are those codewords -/
theorem receivedWords_stream (layers : Nat) (pad : List Bool) (v : List Nat)
    (hpad : pad.length < wordSize layers) (hv : ∀ x ∈ v, x < 2 ^ wordSize layers) :
    receivedWords layers (pad ++ v.flatMap (toBits (wordSize layers))) = v := by
  have hb := wordSize_bounds layers
  unfold receivedWords
  simp only [codewordSize_eq]
  generalize wordSize layers = b at *
  have hlen : (pad ++ v.flatMap (toBits b)).length = pad.length + v.length * b := by
    rw [List.length_append, length_flatMap_toBits]
  have hdiv : (pad.length + v.length * b) / b = v.length := by
    rw [Nat.add_comm, Nat.mul_comm, Nat.mul_add_div (by omega), Nat.div_eq_of_lt hpad]; omega
  have hmod : (pad.length + v.length * b) % b = pad.length := by
    rw [Nat.add_mul_mod_self_right, Nat.mod_eq_of_lt hpad]
  rw [hlen, hdiv, hmod, List.drop_left' rfl]
  exact chunkWords_flatMap b v hv

/-! ### shape of a reference symbol -/

theorem stuffWords_ne_nil (b : Nat) (bits : List Bool) : stuffWords b bits ≠ [] := by
  unfold stuffWords
  cases bits with
  | nil => simp
  | cons x xs =>
    simp only [List.isEmpty_cons, Bool.false_eq_true, if_false, List.length_cons, stuffAux]
    split
    · simp
    · split <;> simp

/-- what `encodeOps … = .ok sym` says about `sym` -/
theorem encodeOps_shape (compact : Bool) (layers : Nat) (ops : List Op) (minCheck : Nat) (sym : Symbol)
    (henc : encodeOps compact layers ops minCheck = .ok sym) :
    ∃ hl, encodeScript .upper ops = some hl ∧
      (1 ≤ layers ∧ layers ≤ (if compact then 4 else 32)) ∧
      sym.dataWords = (stuffWords (wordSize layers) hl).map fromBits ∧
      sym.checkWords = rsParity (wordSize layers)
        (totalBits compact layers / wordSize layers - sym.dataWords.length) sym.dataWords ∧
      sym.dataWords.length + minCheck ≤ totalBits compact layers / wordSize layers ∧
      sym.stream = List.replicate (totalBits compact layers % wordSize layers) false ++
        (sym.dataWords ++ sym.checkWords).flatMap (toBits (wordSize layers)) ∧
      sym.modeMsg = modeMessage compact layers sym.dataWords.length ∧
      sym.matrix = layout compact layers sym.stream sym.modeMsg := by
  unfold encodeOps at henc
  cases hs : encodeScript .upper ops with
  | none => rw [hs] at henc; cases henc
  | some hl =>
    rw [hs] at henc
    unfold encodeBits at henc
    cases hlay : badLayers compact layers with
    | true => simp only [hlay, if_true] at henc; cases henc
    | false =>
      simp only [hlay, Bool.false_eq_true, if_false] at henc
      cases hfit : tooLong compact (totalBits compact layers / wordSize layers)
          ((stuffWords (wordSize layers) hl).map fromBits).length minCheck with
      | true => simp only [hfit, if_true] at henc; cases henc
      | false =>
        simp only [hfit, Bool.false_eq_true, if_false] at henc
        cases hint : badShape (wordSize layers) (totalBits compact layers / wordSize layers -
            ((stuffWords (wordSize layers) hl).map fromBits).length)
            (rsParity (wordSize layers) (totalBits compact layers / wordSize layers -
              ((stuffWords (wordSize layers) hl).map fromBits).length)
              ((stuffWords (wordSize layers) hl).map fromBits)) with
        | true => simp only [hint, if_true] at henc; cases henc
        | false =>
          simp only [hint, Bool.false_eq_true, if_false] at henc
          injection henc with henc
          subst henc
          refine ⟨hl, rfl, ?_, rfl, rfl, ?_, rfl, rfl, rfl⟩
          · unfold badLayers at hlay
            cases compact <;> simp at hlay ⊢ <;> omega
          · unfold tooLong at hfit
            simp at hfit
            simp
            omega

/-! ### correctBits on an arbitrary stream -/

theorem correctBits_of_rs (rs : RSDecoder) (raw : List Bool) (layers nData : Nat) (cw : List Nat)
    (bits : List Bool)
    (hN : nData ≤ raw.length / codewordSize layers) (hpos : 0 < raw.length / codewordSize layers)
    (hrs : rs (codewordSize layers) (receivedWords layers raw)
      (raw.length / codewordSize layers - nData) = .ok cw)
    (hun : unstuff (codewordSize layers) (cw.take nData) = .ok bits) :
    correctBits rs raw layers nData =
      .ok ⟨bits, 100 * (raw.length / codewordSize layers - nData) / (raw.length / codewordSize layers)⟩ := by
  unfold correctBits
  unfold receivedWords at hrs
  simp only at hrs
  have h1 : ¬ (raw.length / codewordSize layers < nData) := by omega
  have h2 : ¬ (raw.length / codewordSize layers = 0) := by omega
  simp only [h1, if_false, hrs, hun, h2]
  rfl

/-- **the decoder model with the C04 Reed-Solomon decoder, on any matrix whose extracted codewords are within
    ⌊check words / 2⌋ of the reference codeword sequence** -/
theorem decode_received (reg : Nat → Bool) (compact : Bool) (layers : Nat) (ops : List Op) (minCheck : Nat)
    (sym : Symbol) (henc : encodeOps compact layers ops minCheck = .ok sym) (hok : scriptOK reg ops)
    (hlay : AztecLayout.layoutOK compact layers = true)
    (m' : Matrix) (raw : List Bool) (hext : extractBits m' layers compact = .ok raw)
    (hdam : 2 * hamming (sym.dataWords ++ sym.checkWords) (receivedWords layers raw) ≤
      sym.checkWords.length) :
    ∃ d, decode refTables reg rsModel m' compact sym.dataWords.length layers = .ok d ∧
      d.segs = segments ((scriptItems .upper ops).map toEvent) := by
  obtain ⟨hl, hs, hvalid, hdw, hcw, hfit, _, _, _⟩ := encodeOps_shape compact layers ops minCheck sym henc
  have hl32 : layers ≤ 32 := by
    cases compact <;> simp at hvalid <;> omega
  have hrawlen := extractBits_length m' layers compact raw hlay hext
  have hcap := capacity_le compact layers hl32
  have hpos := capacity_pos compact layers hl32 hvalid.1
  have hW := wordOK_wordSize layers
  have hb := wordSize_bounds layers
  have hne : sym.dataWords ≠ [] := by
    rw [hdw]
    intro h
    exact stuffWords_ne_nil (wordSize layers) hl (List.map_eq_nil_iff.1 h)
  have hdlt : ∀ x ∈ sym.dataWords, x < 2 ^ wordSize layers := by
    rw [hdw]; exact stuffWords_values_lt (wordSize layers) (by omega) hl
  have hcwl : sym.checkWords.length =
      totalBits compact layers / wordSize layers - sym.dataWords.length := by
    rw [hcw]; exact Gzx.AztecMode.rsParity_length _ _ _
  have hrecl : (receivedWords layers raw).length = totalBits compact layers / wordSize layers := by
    unfold receivedWords
    simp only [chunkWords_length, codewordSize_eq, hrawlen]
  have hreclt : ∀ x ∈ receivedWords layers raw, x < 2 ^ wordSize layers := by
    unfold receivedWords
    simp only [codewordSize_eq]
    exact chunkWords_lt _ _ _
  rw [hcw] at hdam
  rw [Gzx.AztecMode.rsParity_length] at hdam
  have hrs := rsModel_corrects (wordSize layers) hW
    (totalBits compact layers / wordSize layers - sym.dataWords.length) sym.dataWords
    (receivedWords layers raw) hne hdlt (by omega) (by rw [hrecl]; omega) hreclt hdam
  obtain ⟨k, hk, hun⟩ := stuffWords_unstuff (wordSize layers) (by omega) hl
  rw [← hdw] at hun
  have htake : (sym.dataWords ++ rsParity (wordSize layers)
      (totalBits compact layers / wordSize layers - sym.dataWords.length) sym.dataWords).take
      sym.dataWords.length = sym.dataWords := List.take_left' rfl
  have hcb := correctBits_of_rs rsModel raw layers sym.dataWords.length _ (hl ++ List.replicate k true)
    (by rw [codewordSize_eq, hrawlen]; omega) (by rw [codewordSize_eq, hrawlen]; exact hpos)
    (by rw [codewordSize_eq, hrawlen]; exact hrs) (by rw [htake, codewordSize_eq]; exact hun)
  have hhl := hld_script reg ops hl hs hok k (by omega)
  refine ⟨⟨segments ((scriptItems .upper ops).map toEvent), toByteArray (hl ++ List.replicate k true),
    (hl ++ List.replicate k true).length,
    100 * (raw.length / codewordSize layers - sym.dataWords.length) / (raw.length / codewordSize layers)⟩,
    ?_, rfl⟩
  unfold decode
  rw [hext]
  simp only [bind, Except.bind]
  rw [hcb]
  simp only [hhl]
  rfl

/-- all codewords of a reference symbol are field elements, there are exactly as many as the size holds -/
theorem ref_codewords (compact : Bool) (layers : Nat) (ops : List Op) (minCheck : Nat) (sym : Symbol)
    (henc : encodeOps compact layers ops minCheck = .ok sym) :
    (∀ x ∈ sym.dataWords ++ sym.checkWords, x < 2 ^ wordSize layers) ∧
    (sym.dataWords ++ sym.checkWords).length = totalBits compact layers / wordSize layers ∧
    sym.dataWords ≠ [] := by
  obtain ⟨hl, hs, hvalid, hdw, hcw, hfit, _, _, _⟩ := encodeOps_shape compact layers ops minCheck sym henc
  have hb := wordSize_bounds layers
  have hdlt : ∀ x ∈ sym.dataWords, x < 2 ^ wordSize layers := by
    rw [hdw]; exact stuffWords_values_lt (wordSize layers) (by omega) hl
  refine ⟨?_, ?_, ?_⟩
  · have h := (rsParity_codeword (wordSize layers) (wordOK_wordSize layers)
      (totalBits compact layers / wordSize layers - sym.dataWords.length) sym.dataWords hdlt).1
    rw [← hcw] at h
    intro x hx
    have := h x hx
    rwa [gfOf_size _ (wordOK_wordSize layers)] at this
  · rw [List.length_append, hcw, Gzx.AztecMode.rsParity_length]; omega
  · rw [hdw]
    intro h
    exact stuffWords_ne_nil (wordSize layers) hl (List.map_eq_nil_iff.1 h)

end Gzx.AztecFull
