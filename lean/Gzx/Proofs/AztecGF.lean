/-
  C11 ↔ C04, part 1: the arithmetic of the REFERENCE Aztec encoder (Gzx/Ref/Aztec.lean §5) is the field
  arithmetic of C04.

  * `gfMul w a b` (shift-and-add modulo `primPoly w`) = C04's reference product `gmul (primPoly w) a b`;
  * the exp/log tables `GF.make w` builds hold `x^i` and its inverse, hence the table product `GF.mul` is
    the same product.

  Everything is algebraic and parametric in the codeword size `w` with the single decidable hypothesis
  `ParamsOK (primPoly w) (2^w)` (one (2^w-2)-step order loop, the same check C04's obligations run); no
  enumeration of field elements, so GF(4096) costs the same as GF(16).
-/
import Gzx.Proofs.GF
import Gzx.Ref.Aztec
namespace Gzx.AztecRS
open Gzx Gzx.GF Gzx.Ref.GF Gzx.Proofs.GF Gzx.Proofs.GF2 Gzx.Ref.Aztec

/-- the five codeword sizes of ISO/IEC 24778 (4 = mode message) -/
def WordOK (w : Nat) : Prop := w = 4 ∨ w = 6 ∨ w = 8 ∨ w = 10 ∨ w = 12

/-- each primitive polynomial of the reference encoder is primitive of the right degree (kernel evaluation of
    C04's order loop: 14, 62, 254, 1022, 4094 doubling steps) -/
theorem paramsOK (w : Nat) (h : WordOK w) : ParamsOK (primPoly w) (2 ^ w) := by
  rcases h with rfl | rfl | rfl | rfl | rfl <;> decide +kernel

section field
variable {w : Nat} (ok : ParamsOK (primPoly w) (2 ^ w))
include ok

omit ok in
theorem log2_size : (2 ^ w).log2 = w := Nat.log2_two_pow

/-- the doubling step of `gfMulAux` is C04's `xt` -/
theorem dbl_eq_xt (a : Nat) (ha : a < 2 ^ w) :
    (if a * 2 ≥ 2 ^ w then a * 2 ^^^ primPoly w else a * 2) = xt (primPoly w) w a := by
  unfold xt
  have e : a * 2 = 2 * a := Nat.mul_comm _ _
  rw [e]
  by_cases hb : (2 * a).testBit w = true
  · have hge : 2 * a ≥ 2 ^ w := Nat.ge_two_pow_of_testBit hb
    rw [if_pos hge, if_pos hb]
  · have hb' : (2 * a).testBit w = false := by simpa using hb
    have hlt : 2 * a < 2 ^ w := by
      apply lt_two_pow_of_bits
      intro i hi
      by_cases hid : i = w
      · subst hid; exact hb'
      · apply testBit_false_of_lt (n := w + 1) _ (by omega)
        rw [Nat.pow_succ]; omega
    have : ¬ 2 * a ≥ 2 ^ w := by omega
    rw [if_neg this, if_neg hb]

theorem xt_lt' (a : Nat) (ha : a < 2 ^ w) : xt (primPoly w) w a < 2 ^ w := by
  have := xt_lt_size ok a ha
  rw [log2_size] at this
  exact this

/-- the shift-and-add loop of the reference encoder, in terms of C04's `peasant` -/
theorem gfMulAux_eq : ∀ (k a b acc : Nat), a < 2 ^ w →
    gfMulAux (primPoly w) (2 ^ w) k a b acc = acc ^^^ peasant (primPoly w) w k b a
  | 0, _, _, acc, _ => by simp [gfMulAux, peasant]
  | k + 1, a, b, acc, ha => by
    unfold gfMulAux peasant
    simp only
    rw [dbl_eq_xt ok a ha, gfMulAux_eq k _ _ _ (xt_lt' ok a ha), peasant_xt]
    by_cases hb : b % 2 = 1
    · simp [hb, Nat.xor_assoc]
    · simp [hb]

omit ok in
theorem peasant_fuel (p d : Nat) (b : Nat) : ∀ (k a : Nat), a < 2 ^ k → ∀ j,
    peasant p d (k + j) a b = peasant p d k a b
  | 0, a, ha, j => by
    have : a = 0 := by simpa using ha
    subst this
    rw [peasant_zero_left, peasant_zero_left]
  | k + 1, a, ha, j => by
    have e : k + 1 + j = (k + j) + 1 := by omega
    rw [e]
    unfold peasant
    have ha2 : a / 2 < 2 ^ k := by
      have : 2 ^ (k + 1) = 2 ^ k * 2 := Nat.pow_succ _ _
      omega
    rw [peasant_fuel p d b k (a / 2) ha2 j]

/-- **the reference multiplication is C04's reference product** -/
theorem gfMul_eq_gmul (a b : Nat) (ha : a < 2 ^ w) (hb : b < 2 ^ w) :
    gfMul w a b = gmul (primPoly w) a b := by
  unfold gfMul
  rw [gfMulAux_eq ok w a b 0 ha, Nat.zero_xor, gmul_comm ok a b ha hb, gmul_eq_peasant ok b a ha,
    log2_size]
  by_cases hb0 : b = 0
  · subst hb0; rw [peasant_zero_left, peasant_zero_left]
  · have hl : b.log2 < w := (Nat.log2_lt hb0).2 hb
    have := peasant_fuel (primPoly w) w a (b.log2 + 1) b Nat.lt_log2_self (w - (b.log2 + 1))
    rw [show b.log2 + 1 + (w - (b.log2 + 1)) = w by omega] at this
    exact this

omit ok in
theorem pw_one (hw : 2 ≤ w) : pw (primPoly w) (2 ^ w) 1 = 2 := by
  show xt (primPoly w) (2 ^ w).log2 1 = 2
  rw [log2_size]
  unfold xt
  have : (2 * 1).testBit w = false := by
    apply testBit_false_of_lt (n := w) _ (Nat.le_refl _)
    calc 2 * 1 < 2 ^ 2 := by decide
      _ ≤ 2 ^ w := Nat.pow_le_pow_right (by omega) hw
  simp [this]

/-- multiplication by `x` in the reference encoder is C04's `xt` -/
theorem gfMul_two (hw : 2 ≤ w) (a : Nat) (ha : a < 2 ^ w) : gfMul w a 2 = xt (primPoly w) w a := by
  have h2 : 2 < 2 ^ w := by
    calc 2 < 2 ^ 2 := by decide
      _ ≤ 2 ^ w := Nat.pow_le_pow_right (by omega) hw
  rw [gfMul_eq_gmul ok a 2 ha h2]
  have := gmul_pw ok a 1 ha
  rw [pw_one hw, log2_size] at this
  exact this

end field

/-! ## the exp/log tables of `GF.make` -/

theorem foldl_push_iter (f : Nat → Nat) (x : Nat) : ∀ n,
    (List.range n).foldl (fun (p : Array Nat × Nat) _ => (p.1.push p.2, f p.2)) (#[], x) =
      (((List.range n).map (fun i => iter f i x)).toArray, iter f n x)
  | 0 => rfl
  | n + 1 => by
    rw [List.range_succ, List.foldl_append, foldl_push_iter f x n]
    simp only [List.foldl_cons, List.foldl_nil, List.map_append, List.map_cons, List.map_nil,
      List.push_toArray, iter_succ']

theorem iter_congr (S : Nat) (f g : Nat → Nat) (hfg : ∀ x, x < S → f x = g x) (hg : ∀ x, x < S → g x < S) :
    ∀ (j x : Nat), x < S → iter f j x = iter g j x
  | 0, _, _ => rfl
  | j + 1, x, hx => by
    show iter f j (f x) = iter g j (g x)
    rw [hfg x hx]
    exact iter_congr S f g hfg hg j _ (hg x hx)

theorem setFold_size (e : Nat → Nat) : ∀ (n : Nat) (init : Array Nat),
    ((List.range n).foldl (fun (l : Array Nat) i => l.setIfInBounds (e i) i) init).size = init.size
  | 0, _ => rfl
  | n + 1, init => by
    rw [List.range_succ, List.foldl_append]
    simp only [List.foldl_cons, List.foldl_nil, Array.size_setIfInBounds]
    exact setFold_size e n init

/-- the second loop of `GF.make`: an injective `e` is inverted on its range -/
theorem setFold_get (e : Nat → Nat) (size : Nat) (init : Array Nat) (hinit : init.size = size) :
    ∀ (n : Nat), (∀ i, i < n → e i < size) → (∀ i j, i < j → j < n → e i ≠ e j) →
    ∀ j, j < n →
      ((List.range n).foldl (fun (l : Array Nat) i => l.setIfInBounds (e i) i) init)[e j]? = some j
  | 0, _, _, j, hj => by omega
  | n + 1, hlt, hinj, j, hj => by
    rw [List.range_succ, List.foldl_append]
    simp only [List.foldl_cons, List.foldl_nil, Array.getElem?_setIfInBounds, setFold_size, hinit]
    by_cases hjn : j = n
    · subst hjn
      simp [hlt j (by omega)]
    · have hne : e n ≠ e j := fun h => hinj j n (by omega) (by omega) h.symm
      rw [if_neg hne]
      exact setFold_get e size init hinit n (fun i hi => hlt i (by omega))
        (fun i j hij hj => hinj i j hij (by omega)) j (by omega)

section tables
variable {w : Nat} (ok : ParamsOK (primPoly w) (2 ^ w)) (hw : 2 ≤ w)
include ok hw

/-- `exp[i] = x^i` for `i < 2^w - 1` -/
theorem make_exp_get (i : Nat) (hi : i < 2 ^ w - 1) :
    (GF.make w).exp[i]? = some (pw (primPoly w) (2 ^ w) i) := by
  unfold GF.make
  simp only
  rw [foldl_push_iter (fun x => gfMul w x 2) 1]
  simp only [List.getElem?_toArray, List.getElem?_map, List.getElem?_range hi, Option.map_some]
  unfold pw
  rw [log2_size]
  congr 1
  exact iter_congr (2 ^ w) _ _ (fun x hx => gfMul_two ok hw x hx) (fun x hx => xt_lt' ok x hx) i 1
    (one_lt_size ok)

theorem make_exp (i : Nat) (hi : i < 2 ^ w - 1) (d : Nat) :
    (GF.make w).exp.getD i d = pw (primPoly w) (2 ^ w) i := by
  rw [Array.getD_eq_getD_getElem?, make_exp_get ok hw i hi]
  rfl

/-- `log[x^j] = j` for `j < 2^w - 1` -/
theorem make_log (j : Nat) (hj : j < 2 ^ w - 1) :
    (GF.make w).log.getD (pw (primPoly w) (2 ^ w) j) 0 = j := by
  have key := setFold_get (fun i => (GF.make w).exp.getD i 0) (2 ^ w) (Array.replicate (2 ^ w) 0)
    (by simp) (2 ^ w - 1)
    (fun i hi => by
      show (GF.make w).exp.getD i 0 < 2 ^ w
      rw [make_exp ok hw i hi 0]; exact pw_lt ok i)
    (fun i j hij hj => by
      show (GF.make w).exp.getD i 0 ≠ (GF.make w).exp.getD j 0
      rw [make_exp ok hw i (by omega) 0, make_exp ok hw j hj 0]; exact pw_inj ok i j hij hj)
    j hj
  simp only [make_exp ok hw j hj 0] at key
  rw [Array.getD_eq_getD_getElem?]
  show ((List.range (2 ^ w - 1)).foldl (fun (l : Array Nat) i => l.setIfInBounds ((GF.make w).exp.getD i 0) i)
    (Array.replicate (2 ^ w) 0))[pw (primPoly w) (2 ^ w) j]?.getD 0 = j
  rw [key]
  rfl

/-- **the table product of the reference encoder is C04's reference product** -/
theorem make_mul (a b : Nat) (ha : a < 2 ^ w) (hb : b < 2 ^ w) :
    (GF.make w).mul a b = gmul (primPoly w) a b := by
  unfold Ref.Aztec.GF.mul
  by_cases h0 : a = 0 ∨ b = 0
  · rw [if_pos h0]
    cases h0 with
    | inl h => subst h; rw [gmul_zero_left ok b hb]
    | inr h => subst h; rw [gmul_zero_right ok]
  · rw [if_neg h0]
    have ha0 : a ≠ 0 := fun h => h0 (Or.inl h)
    have hb0 : b ≠ 0 := fun h => h0 (Or.inr h)
    obtain ⟨i, hi, rfl⟩ := pw_surj ok a ha0 ha
    obtain ⟨j, hj, rfl⟩ := pw_surj ok b hb0 hb
    have hwf : (GF.make w).w = w := rfl
    have hs : 0 < 2 ^ w - 1 := by omega
    rw [make_log ok hw i hi, make_log ok hw j hj, hwf, make_exp ok hw _ (Nat.mod_lt _ hs) 0, pw_mod ok,
      gmul_pw_pw ok]

end tables
end Gzx.AztecRS
