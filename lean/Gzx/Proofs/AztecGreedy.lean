/-
  C11: the greedy text -> script encoder of the reference (Ref.Aztec.greedy) always produces a
  script the code tables accept, without FLG(n), whose data bytes are the text.
-/
import Gzx.Proofs.AztecHL
set_option linter.unusedSimpArgs false
namespace Gzx.AztecGreedy
open Gzx Gzx.Ref.Aztec Gzx.AztecHL

theorem encodeScript_cons (m m' : Mode) (op : Op) (ops : List Op) (b bs : List Bool)
    (h1 : encodeOp m op = some (b, m')) (h2 : encodeScript m' ops = some bs) :
    encodeScript m (op :: ops) = some (b ++ bs) := by
  simp [encodeScript, h1, h2]

theorem scriptItems_append (a b : List Op) : ∀ m,
    scriptItems m (a ++ b) = scriptItems m a ++ scriptItems (finalMode m a) b := by
  induction a with
  | nil => intro m; rfl
  | cons op a ih => intro m; simp [scriptItems, finalMode, ih]

theorem encodeScript_append (a b : List Op) : ∀ m (x y : List Bool),
    encodeScript m a = some x → encodeScript (finalMode m a) b = some y →
    encodeScript m (a ++ b) = some (x ++ y) := by
  induction a with
  | nil =>
    intro m x y h1 h2
    simp only [encodeScript] at h1
    injection h1 with h1
    subst h1
    simpa [finalMode] using h2
  | cons op a ih =>
    intro m x y h1 h2
    simp only [encodeScript] at h1
    cases he : encodeOp m op with
    | none => rw [he] at h1; cases h1
    | some p =>
      obtain ⟨bb, m'⟩ := p
      rw [he] at h1
      simp only at h1
      cases hs : encodeScript m' a with
      | none => rw [hs] at h1; cases h1
      | some xs =>
        rw [hs] at h1
        simp only [Option.map_some] at h1
        injection h1 with h1
        subst h1
        have hm := encodeOp_mode m m' op bb he
        subst hm
        simp only [finalMode] at h2
        have := ih (opMode m op) xs y hs h2
        simp only [List.cons_append, encodeScript, he, this, Option.map_some, List.append_assoc]

/-- the latch chains between the four non-Punct modes are accepted, end in the target, emit no data -/
theorem latchPath_ok (m t : Mode) (hm : m ≠ .punct) (ht : t ≠ .punct) (hne : m ≠ t) :
    (encodeScript m ((latchPath m t).map .latch)).isSome = true ∧
    finalMode m ((latchPath m t).map .latch) = t ∧
    scriptItems m ((latchPath m t).map .latch) = [] ∧
    PlainScript ((latchPath m t).map .latch) := by
  cases m <;> cases t <;> first | exact absurd rfl hm | exact absurd rfl ht | exact absurd rfl hne | decide

theorem homeMode_ne_punct (b : Nat) (t : Mode) (h : homeMode? b = some t) : t ≠ .punct := by
  unfold homeMode? at h
  have := List.mem_of_find?_eq_some h
  intro ht
  subst ht
  simp at this

theorem binRun_length_le : ∀ (cap : Nat) (l : List Nat), (binRun cap l).length ≤ cap := by
  intro cap
  induction cap with
  | zero => intro l; simp [binRun]
  | succ cap ih =>
    intro l
    cases l with
    | nil => simp [binRun]
    | cons b bs =>
      simp only [binRun]
      split
      · simp
      · simp only [List.length_cons]; have := ih bs; omega

theorem binRun_prefix : ∀ (cap : Nat) (l : List Nat),
    l = binRun cap l ++ l.drop (binRun cap l).length := by
  intro cap
  induction cap with
  | zero => intro l; simp [binRun]
  | succ cap ih =>
    intro l
    cases l with
    | nil => simp [binRun]
    | cons b bs =>
      simp only [binRun]
      split
      · simp
      · simp only [List.length_cons, List.drop_succ_cons, List.cons_append]
        rw [← ih bs]

theorem binRun_subset (cap : Nat) (l : List Nat) : ∀ x ∈ binRun cap l, x ∈ l := by
  intro x hx
  have := binRun_prefix cap l
  rw [this]
  exact List.mem_append_left _ hx

theorem bshift_code (m : Mode) (hm : m ≠ .punct) (hd : m ≠ .digit) :
    ∃ s, findCode (tableOf m) Entry.bshift = some s := by
  cases m <;> first | exact absurd rfl hm | exact absurd rfl hd | exact ⟨31, by decide⟩

theorem pshift_code (m : Mode) (hm : m ≠ .punct) :
    ∃ s, findCode (tableOf m) (Entry.shift .punct) = some s := by
  cases m <;> first | exact absurd rfl hm | exact ⟨0, by decide⟩

/-- encoding a binary run from a mode that has B/S -/
theorem bin_ok (m : Mode) (hm : m ≠ .punct) (hd : m ≠ .digit) (run : List Nat)
    (hall : ∀ x ∈ run, x < 256) (h1 : 1 ≤ run.length) (h2 : run.length ≤ 2078) :
    ∃ b, encodeOp m (.bin run) = some (b, m) := by
  obtain ⟨s, hs⟩ := bshift_code m hm hd
  have hall' : run.all (· < 256) = true := by
    simp only [List.all_eq_true, decide_eq_true_eq]; exact hall
  simp only [encodeOp, hs, hall']
  by_cases h31 : run.length ≤ 31
  · exact ⟨toBits (width m) s ++ toBits 5 run.length ++ bytesBits run, by simp [h1, h31]⟩
  · have h32 : 32 ≤ run.length := by omega
    have hn : ¬ (1 ≤ run.length ∧ run.length ≤ 31) := by omega
    exact ⟨toBits (width m) s ++ toBits 5 0 ++ toBits 11 (run.length - 31) ++ bytesBits run,
      by simp [hn, h32, h2]⟩

theorem greedy_ok : ∀ (fuel : Nat) (m : Mode) (text : List Nat),
    m ≠ .punct → text.length < fuel → (∀ b ∈ text, b < 256) →
    (encodeScript m (greedyAux fuel m text)).isSome = true ∧
    itemsBytes (scriptItems m (greedyAux fuel m text)) = text ∧
    PlainScript (greedyAux fuel m text) := by
  intro fuel
  induction fuel with
  | zero => intro m text _ h; omega
  | succ fuel ih =>
    intro m text hm hlen hbytes
    cases text with
    | nil => simp [greedyAux, encodeScript, scriptItems, itemsBytes, PlainScript]
    | cons b rest =>
      have hrestlen : rest.length < fuel := by simp at hlen; omega
      have hrestb : ∀ x ∈ rest, x < 256 := fun x hx => hbytes x (by simp [hx])
      obtain ⟨ps, hps⟩ := pshift_code m hm
      -- a P/S + punct code step
      have shStep : ∀ (c : Nat) (bs : List Nat) (tail : List Nat),
          (tableOf .punct)[c]? = some (.lit bs) → tail.length < fuel → (∀ x ∈ tail, x < 256) →
          (encodeScript m (.sh .punct c :: greedyAux fuel m tail)).isSome = true ∧
          itemsBytes (scriptItems m (.sh .punct c :: greedyAux fuel m tail)) = bs ++ tail ∧
          PlainScript (.sh .punct c :: greedyAux fuel m tail) := by
        intro c bs tail hc hl hb
        obtain ⟨i1, i2, i3⟩ := ih m tail hm hl hb
        obtain ⟨x, hx⟩ := Option.isSome_iff_exists.mp i1
        have he : encodeOp m (.sh .punct c) =
            some (toBits (width m) ps ++ toBits (width .punct) c, m) := by
          simp [encodeOp, hps, hc]
        refine ⟨by rw [encodeScript_cons m m _ _ _ _ he hx]; rfl, ?_, ?_⟩
        · simp only [scriptItems, opItems, hc, opMode, itemsBytes, List.flatMap_append,
            List.flatMap_cons, List.flatMap_nil, List.append_nil] at i2 ⊢
          rw [i2]
        · intro op hop
          rcases List.mem_cons.mp hop with h | h
          · subst h; rfl
          · exact i3 op h
      -- the definition, one branch at a time
      unfold greedyAux
      -- 1. two-byte punctuation code
      split
      · rename_i c rest2 hpair
        cases rest with
        | nil => simp at hpair
        | cons b2 r2 =>
          simp only at hpair
          cases hl : litCode? .punct [b, b2] with
          | none => rw [hl] at hpair; simp at hpair
          | some c' =>
            rw [hl] at hpair
            simp only [Option.map_some, Option.some.injEq, Prod.mk.injEq] at hpair
            obtain ⟨hc, hr⟩ := hpair
            subst hc; subst hr
            have hc := findCode_spec _ _ _ hl
            have := shStep c' [b, b2] r2 hc (by simp at hrestlen; omega)
              (fun x hx => hrestb x (by simp [hx]))
            simpa using this
      · rename_i hpair
        -- 2. the current table
        cases hcur : litCode? m [b] with
        | some c =>
          simp only
          have hc := findCode_spec _ _ _ hcur
          obtain ⟨i1, i2, i3⟩ := ih m rest hm hrestlen hrestb
          obtain ⟨x, hx⟩ := Option.isSome_iff_exists.mp i1
          have he : encodeOp m (.ch c) = some (toBits (width m) c, m) := by
            simp [encodeOp, hc]
          refine ⟨by rw [encodeScript_cons m m _ _ _ _ he hx]; rfl, ?_, ?_⟩
          · simp only [scriptItems, opItems, hc, opMode, itemsBytes, List.flatMap_append,
              List.flatMap_cons, List.flatMap_nil, List.append_nil] at i2 ⊢
            rw [i2]; rfl
          · intro op hop
            rcases List.mem_cons.mp hop with h | h
            · subst h; rfl
            · exact i3 op h
        | none =>
          simp only
          -- 3. single punctuation by P/S
          cases hp : litCode? .punct [b] with
          | some c =>
            simp only
            have hc := findCode_spec _ _ _ hp
            have := shStep c [b] rest hc hrestlen hrestb
            simpa using this
          | none =>
            simp only
            -- 4. latch to the home table
            cases hh : homeMode? b with
            | some t =>
              simp only
              have ht := homeMode_ne_punct b t hh
              cases hlt : litCode? t [b] with
              | none =>
                -- impossible: homeMode? returned t because litCode? t [b] is some
                unfold homeMode? at hh
                have := List.find?_some hh
                simp [hlt] at this
              | some c =>
                simp only
                have hne : m ≠ t := by
                  intro h; subst h; rw [hcur] at hlt; cases hlt
                obtain ⟨l1, l2, l3, l4⟩ := latchPath_ok m t hm ht hne
                obtain ⟨lx, hlx⟩ := Option.isSome_iff_exists.mp l1
                have hc := findCode_spec _ _ _ hlt
                obtain ⟨i1, i2, i3⟩ := ih t rest ht hrestlen hrestb
                obtain ⟨x, hx⟩ := Option.isSome_iff_exists.mp i1
                have he : encodeOp t (.ch c) = some (toBits (width t) c, t) := by
                  simp [encodeOp, hc]
                have htail : encodeScript t (.ch c :: greedyAux fuel t rest) =
                    some (toBits (width t) c ++ x) := encodeScript_cons t t _ _ _ _ he hx
                refine ⟨?_, ?_, ?_⟩
                · rw [encodeScript_append _ _ m lx _ hlx (by rw [l2]; exact htail)]; rfl
                · rw [scriptItems_append, l3, l2]
                  simp only [List.nil_append, scriptItems, opItems, hc, opMode, itemsBytes,
                    List.flatMap_append, List.flatMap_cons, List.flatMap_nil,
                    List.append_nil] at i2 ⊢
                  rw [i2]; rfl
                · intro op hop
                  rcases List.mem_append.mp hop with h | h
                  · exact l4 op h
                  · rcases List.mem_cons.mp h with h | h
                    · subst h; rfl
                    · exact i3 op h
            | none =>
              simp only
              -- 5. binary shift
              have hrl := binRun_length_le 2077 rest
              have hpre := binRun_prefix 2077 rest
              have hrun256 : ∀ x ∈ b :: binRun 2077 rest, x < 256 := by
                intro x hx
                rcases List.mem_cons.mp hx with h | h
                · subst h; exact hbytes _ (by simp)
                · exact hrestb x (binRun_subset 2077 rest x h)
              have hdroplen : (rest.drop ((b :: binRun 2077 rest).length - 1)).length < fuel := by
                simp; omega
              have hdropb : ∀ x ∈ rest.drop ((b :: binRun 2077 rest).length - 1), x < 256 :=
                fun x hx => hrestb x (List.mem_of_mem_drop hx)
              have htext : (b :: binRun 2077 rest) ++
                  rest.drop ((b :: binRun 2077 rest).length - 1) = b :: rest := by
                simp only [List.length_cons, Nat.add_sub_cancel, List.cons_append]
                rw [← hpre]
              by_cases hdg : m = .digit
              · subst hdg
                simp only [if_true]
                obtain ⟨i1, i2, i3⟩ := ih .upper _ (by decide) hdroplen hdropb
                obtain ⟨x, hx⟩ := Option.isSome_iff_exists.mp i1
                obtain ⟨bb, hbb⟩ := bin_ok .upper (by decide) (by decide) _ hrun256
                  (by simp) (by simp; omega)
                have h2 := encodeScript_cons .upper .upper _ _ _ _ hbb hx
                have hl : encodeOp .digit (.latch .upper) = some (toBits 4 14, .upper) := by decide
                refine ⟨by rw [List.singleton_append, encodeScript_cons _ _ _ _ _ _ hl h2]; rfl,
                  ?_, ?_⟩
                · simp only [List.singleton_append, scriptItems, opItems, opMode, itemsBytes,
                    List.flatMap_append, List.flatMap_cons, List.flatMap_nil, List.append_nil,
                    List.nil_append] at i2 ⊢
                  rw [i2]; exact htext
                · intro op hop
                  simp only [List.singleton_append, List.mem_cons] at hop
                  rcases hop with h | h | h
                  · subst h; rfl
                  · subst h; rfl
                  · exact i3 op h
              · simp only [hdg, if_false, List.nil_append]
                obtain ⟨i1, i2, i3⟩ := ih m _ hm hdroplen hdropb
                obtain ⟨x, hx⟩ := Option.isSome_iff_exists.mp i1
                obtain ⟨bb, hbb⟩ := bin_ok m hm hdg _ hrun256 (by simp) (by simp; omega)
                refine ⟨by rw [encodeScript_cons _ _ _ _ _ _ hbb hx]; rfl, ?_, ?_⟩
                · simp only [scriptItems, opItems, opMode, itemsBytes, List.flatMap_append,
                    List.flatMap_cons, List.flatMap_nil, List.append_nil] at i2 ⊢
                  rw [i2]; exact htext
                · intro op hop
                  rcases List.mem_cons.mp hop with h | h
                  · subst h; rfl
                  · exact i3 op h

end Gzx.AztecGreedy
