/-
  C11 high-level lemmas: the decoder model's control loop (`AztecDecoder.step/loop`) run on the bits
  the reference encoder produces for a script (`Ref.Aztec.encodeScript`) emits exactly the script's
  items as events, also when followed by up to 11 pad ones.
-/
import Gzx.Proofs.AztecStuff
namespace Gzx.AztecHL
open Gzx Gzx.AztecDecoder Gzx.Ref.Aztec Gzx.AztecLink Gzx.AztecStuff

/-! ### small facts -/

theorem splitN?_append {α} (h t : List α) : splitN? h.length (h ++ t) = some (h, t) := by
  induction h with
  | nil => rfl
  | cons a h ih => simp [splitN?, ih]

theorem splitN?_toBits (w n : Nat) (t : List Bool) :
    splitN? w (toBits w n ++ t) = some (toBits w n, t) := by
  have := splitN?_append (toBits w n) t
  rwa [length_toBits] at this

theorem readCode_toBits (w n : Nat) (h : n < 2 ^ w) : readCode (toBits w n) = n := by
  rw [readCode_eq_fromBits, fromBits_toBits_of_lt w n h]

theorem table_length (m : Mode) : (tableOf m).length = 2 ^ width m := by
  cases m <;> decide

theorem toTable_ne_binary (m : Mode) : toTable m ≠ .binary := by
  cases m <;> decide

theorem size_eq_width (m : Mode) : (if toTable m = Table.digit then 4 else 5) = width m := by
  cases m <;> decide

theorem getCharacter_ref (m : Mode) (c : Nat) :
    getCharacter refTables (toTable m) c =
      (match (tableOf m)[c]? with
       | some e => .ok (toD e)
       | none => .error .format) := by
  cases m <;> simp only [getCharacter, refTables, toTable, tableOf, List.getElem?_map] <;>
    cases (_ : List Entry)[c]? <;> rfl

theorem findCode_spec (t : List Entry) (e : Entry) (c : Nat) (h : findCode t e = some c) :
    t[c]? = some e := by
  unfold findCode at h
  simp only at h
  split at h
  · rename_i hlt
    injection h with h
    subst h
    have := List.findIdx_getElem (w := hlt)
    simp only [beq_iff_eq] at this
    rw [List.getElem?_eq_getElem hlt, this]
  · cases h

theorem lookup_lt {m : Mode} {c : Nat} {e : Entry} (h : (tableOf m)[c]? = some e) :
    c < 2 ^ width m := by
  rw [← table_length]
  exact (List.getElem?_eq_some_iff.mp h).1

theorem map_nil_append (x : Res (List Event)) : x.map ([] ++ ·) = x := by
  cases x <;> rfl

theorem map_id' (x : Res (List Event)) : x.map (fun y => y) = x := by
  cases x <;> rfl

theorem map_map_append (x : Res (List Event)) (a b : List Event) :
    (x.map (b ++ ·)).map (a ++ ·) = x.map ((a ++ b) ++ ·) := by
  cases x <;> simp [Except.map]

/-! ### the loop -/

theorem loop_next (reg : Nat → Bool) (f : Nat) (c c' : Ctl) (bits rest : List Bool)
    (ev : List Event) (hne : bits.isEmpty = false)
    (h : step refTables reg c bits = .next c' rest ev) :
    loop refTables reg (f + 1) c bits = (loop refTables reg f c' rest).map (ev ++ ·) := by
  simp only [loop, hne, h]
  rfl

theorem loop_mono (reg : Nat → Bool) :
    ∀ (f : Nat) (c : Ctl) (bits : List Bool) (r : List Event),
      loop refTables reg f c bits = .ok r → ∀ f', f ≤ f' → loop refTables reg f' c bits = .ok r := by
  intro f
  induction f with
  | zero => intro c bits r h; simp [loop] at h
  | succ f ih =>
    intro c bits r h f' hf
    obtain ⟨g, rfl⟩ : ∃ g, f' = g + 1 := ⟨f' - 1, by omega⟩
    cases hb : bits.isEmpty with
    | true =>
      simp only [loop, hb, if_true] at h ⊢
      exact h
    | false =>
      simp only [loop, hb, Bool.false_eq_true, if_false] at h ⊢
      cases hs : step refTables reg c bits with
      | next c' rest ev =>
        simp only [hs] at h ⊢
        cases hl : loop refTables reg f c' rest with
        | error e => rw [hl] at h; cases h
        | ok r0 =>
          rw [hl] at h
          rw [ih c' rest r0 hl g (by omega)]
          exact h
      | stop => simp only [hs] at h ⊢; exact h
      | fail e => simp only [hs] at h ⊢; exact h

/-! ### one table read -/

theorem isEmpty_toBits_append (w n : Nat) (t : List Bool) (hw : 0 < w) :
    (toBits w n ++ t).isEmpty = false := by
  cases h : toBits w n ++ t with
  | nil =>
    have := congrArg List.length h
    simp [length_toBits] at this
    omega
  | cons _ _ => rfl

theorem width_pos (m : Mode) : 0 < width m := by cases m <;> decide

/-- reading a literal -/
theorem step_lit (reg : Nat → Bool) (ctl : Ctl) (ms : Mode) (c : Nat) (bs : List Nat)
    (rest : List Bool) (hs : ctl.shift = toTable ms) (h : (tableOf ms)[c]? = some (.lit bs)) :
    step refTables reg ctl (toBits (width ms) c ++ rest) =
      .next ⟨ctl.latch, ctl.latch⟩ rest [.bytes bs] := by
  have hlt := lookup_lt h
  simp only [step, hs, toTable_ne_binary, if_false, size_eq_width, splitN?_toBits,
    readCode_toBits _ _ hlt, getCharacter_ref, h, toD]

/-- reading a latch / shift / binary-shift code -/
theorem step_ctrl (reg : Nat → Bool) (ctl : Ctl) (ms : Mode) (c : Nat) (e : Entry) (t : Table)
    (isL : Bool) (rest : List Bool) (hs : ctl.shift = toTable ms)
    (h : (tableOf ms)[c]? = some e) (he : toD e = .ctrl t isL) :
    step refTables reg ctl (toBits (width ms) c ++ rest) =
      .next ⟨bif isL then t else toTable ms, t⟩ rest [] := by
  have hlt := lookup_lt h
  simp only [step, hs, toTable_ne_binary, if_false, size_eq_width, splitN?_toBits,
    readCode_toBits _ _ hlt, getCharacter_ref, h, he]
  cases isL <;> rfl

/-! ### binary shift -/

theorem takeBytes_bytesBits (bytes : List Nat) (rest : List Bool) (hb : bytes.all (· < 256) = true) :
    ∀ acc, takeBytes bytes.length (bytesBits bytes ++ rest) acc = (acc ++ bytes, rest) := by
  induction bytes with
  | nil => intro acc; simp [takeBytes, bytesBits]
  | cons b bs ih =>
    intro acc
    simp only [List.all_cons, Bool.and_eq_true, decide_eq_true_eq] at hb
    have h8 : b < 2 ^ 8 := by omega
    simp only [List.length_cons, takeBytes, bytesBits, List.flatMap_cons, List.append_assoc,
      splitN?_toBits, readCode_toBits 8 b h8]
    have := ih hb.2 (acc ++ [b])
    simp only [bytesBits] at this
    rw [this]
    simp

theorem step_binary_short (reg : Nat → Bool) (l : Table) (bytes : List Nat) (rest : List Bool)
    (hb : bytes.all (· < 256) = true) (h1 : 1 ≤ bytes.length) (h31 : bytes.length ≤ 31) :
    step refTables reg ⟨l, .binary⟩ (toBits 5 bytes.length ++ bytesBits bytes ++ rest) =
      .next ⟨l, l⟩ rest [.bytes bytes] := by
  have hlt : bytes.length < 2 ^ 5 := by omega
  have hne : ¬ bytes.length = 0 := by omega
  have hemp : bytes.isEmpty = false := by
    cases bytes with
    | nil => simp at h1
    | cons _ _ => rfl
  simp only [step, if_true, List.append_assoc, splitN?_toBits, readCode_toBits 5 _ hlt, hne,
    if_false, takeBytes_bytesBits bytes rest hb [], List.nil_append, hemp, Bool.false_eq_true]

theorem step_binary_long (reg : Nat → Bool) (l : Table) (bytes : List Nat) (rest : List Bool)
    (hb : bytes.all (· < 256) = true) (h32 : 32 ≤ bytes.length) (hmax : bytes.length ≤ 2078) :
    step refTables reg ⟨l, .binary⟩
        (toBits 5 0 ++ toBits 11 (bytes.length - 31) ++ bytesBits bytes ++ rest) =
      .next ⟨l, l⟩ rest [.bytes bytes] := by
  have hlt : bytes.length - 31 < 2 ^ 11 := by omega
  have h0 : (0 : Nat) < 2 ^ 5 := by decide
  have hlen : bytes.length - 31 + 31 = bytes.length := by omega
  have hemp : bytes.isEmpty = false := by
    cases bytes with
    | nil => simp at h32
    | cons _ _ => rfl
  simp only [step, if_true, List.append_assoc, splitN?_toBits, readCode_toBits 5 0 h0,
    readCode_toBits 11 _ hlt, hlen, takeBytes_bytesBits bytes rest hb [], List.nil_append, hemp,
    Bool.false_eq_true, if_false]

/-! ### FLG(n) -/

theorem readDigits_spec (ds : List Nat) (rest : List Bool) (hd : ds.all (· < 10) = true) :
    ∀ acc, readDigits ds.length (ds.flatMap (fun d => toBits 4 (d + 2)) ++ rest) acc =
      .ok (ds.foldl (fun a d => 10 * a + d) acc, rest) := by
  induction ds with
  | nil => intro acc; simp [readDigits]
  | cons d ds ih =>
    intro acc
    simp only [List.all_cons, Bool.and_eq_true, decide_eq_true_eq] at hd
    have h4 : d + 2 < 2 ^ 4 := by omega
    have hnot : ¬ (d + 2 < 2 ∨ d + 2 > 11) := by omega
    simp only [List.length_cons, readDigits, List.flatMap_cons, List.append_assoc, splitN?_toBits,
      readCode_toBits 4 _ h4, hnot, if_false, List.foldl_cons]
    have : acc * 10 + (d + 2 - 2) = 10 * acc + d := by omega
    rw [this]
    exact ih hd.2 _

theorem length_digitBits (ds : List Nat) :
    (ds.flatMap (fun d => toBits 4 (d + 2))).length = 4 * ds.length := by
  induction ds with
  | nil => rfl
  | cons d ds ih => simp [length_toBits, ih]; omega

/-- events of an FLG(n) payload -/
def flgEvent (n : Nat) (ds : List Nat) : Event := if n = 0 then .fnc1 else .eci (digitsVal ds)

/-- the ECI designators of a script are values the library knows -/
def flgOK (reg : Nat → Bool) (n : Nat) (ds : List Nat) : Prop :=
  n = 0 ∨ (digitsVal ds < 900 ∧ reg (digitsVal ds) = true)

theorem step_flg (reg : Nat → Bool) (ctl : Ctl) (ms : Mode) (c n : Nat) (ds : List Nat)
    (p rest : List Bool) (hs : ctl.shift = toTable ms)
    (h : (tableOf ms)[c]? = some .flg) (hp : flgBits n ds = some p) (hok : flgOK reg n ds) :
    step refTables reg ctl (toBits (width ms) c ++ p ++ rest) =
      .next ⟨ctl.latch, ctl.latch⟩ rest [flgEvent n ds] := by
  have hlt := lookup_lt h
  unfold flgBits at hp
  split at hp
  · rename_i hcond
    obtain ⟨hn6, hlen, hall⟩ := hcond
    injection hp with hp
    subst hp
    have hn8 : n < 2 ^ 3 := by omega
    simp only [step, hs, toTable_ne_binary, if_false, size_eq_width, List.append_assoc,
      splitN?_toBits, readCode_toBits _ _ hlt, getCharacter_ref, h, toD, readCode_toBits 3 n hn8]
    by_cases hn0 : n = 0
    · have : ds = [] := by
        apply List.eq_nil_of_length_eq_zero; omega
      subst this
      simp [hn0, flgEvent]
    · have hn7 : ¬ n = 7 := by omega
      have hlen' : ¬ ((ds.flatMap (fun d => toBits 4 (d + 2)) ++ rest).length < 4 * n) := by
        rw [List.length_append, length_digitBits, hlen]; omega
      have hrd := readDigits_spec ds rest hall 0
      rw [hlen] at hrd
      rcases hok with hok | ⟨h900, hreg⟩
      · exact absurd hok hn0
      · have h900' : ¬ (List.foldl (fun a d => 10 * a + d) 0 ds ≥ 900) := by
          unfold digitsVal at h900; omega
        have hreg' : reg (List.foldl (fun a d => 10 * a + d) 0 ds) = true := hreg
        simp only [hn0, hn7, if_false, hlen', hrd, h900', hreg', flgEvent, digitsVal]
        rfl
  · cases hp

/-! ### ops -/

def toEvent : Item → Event
  | .bytes bs => .bytes bs
  | .fnc1 => .fnc1
  | .eci n => .eci n

/-- loop iterations an op takes -/
def opSteps : Op → Nat
  | .ch _ | .latch _ | .flg _ _ => 1
  | .sh _ _ | .bin _ | .shFlg _ _ => 2

/-- side condition on a script: its ECI designators are registered -/
def opOK (reg : Nat → Bool) : Op → Prop
  | .flg n ds | .shFlg n ds => flgOK reg n ds
  | _ => True

def mctl (m : Mode) : Ctl := ⟨toTable m, toTable m⟩

theorem isEmpty_code (m : Mode) (c : Nat) (t : List Bool) :
    (toBits (width m) c ++ t).isEmpty = false :=
  isEmpty_toBits_append _ _ _ (width_pos m)

theorem op_loop (reg : Nat → Bool) (m m' : Mode) (op : Op) (b : List Bool)
    (henc : encodeOp m op = some (b, m')) (hok : opOK reg op) (rest : List Bool) (f : Nat) :
    loop refTables reg (f + opSteps op) (mctl m) (b ++ rest) =
      (loop refTables reg f (mctl m') rest).map ((opItems m op).map toEvent ++ ·) := by
  cases op with
  | ch c =>
    simp only [encodeOp] at henc
    split at henc
    · rename_i bs hl
      injection henc with henc
      injection henc with hb hm
      subst hb; subst hm
      rw [show f + opSteps (.ch c) = f + 1 from rfl,
        loop_next reg f (mctl m) _ _ _ _ (isEmpty_code m c rest)
          (step_lit reg (mctl m) m c bs rest rfl hl)]
      simp [opItems, hl, toEvent, mctl]
    · cases henc
  | latch mt =>
    simp only [encodeOp] at henc
    cases hf : findCode (tableOf m) (Entry.latch mt) with
    | none => rw [hf] at henc; cases henc
    | some c =>
      rw [hf] at henc
      simp only [Option.map_some] at henc
      injection henc with henc
      injection henc with hb hm
      subst hb; subst hm
      have hl := findCode_spec _ _ _ hf
      rw [show f + opSteps (.latch mt) = f + 1 from rfl,
        loop_next reg f (mctl m) _ _ _ _ (isEmpty_code m c rest)
          (step_ctrl reg (mctl m) m c _ (toTable mt) true rest rfl hl rfl)]
      simp [opItems, mctl, map_id']
  | sh mt c =>
    simp only [encodeOp] at henc
    cases hf : findCode (tableOf m) (Entry.shift mt) with
    | none => rw [hf] at henc; cases henc
    | some s =>
      rw [hf] at henc
      cases hl2 : (tableOf mt)[c]? with
      | none => rw [hl2] at henc; cases henc
      | some e =>
        rw [hl2] at henc
        cases e with
        | lit bs =>
          simp only at henc
          injection henc with henc
          injection henc with hb hm
          subst hb; subst hm
          have hl := findCode_spec _ _ _ hf
          rw [show f + opSteps (.sh mt c) = (f + 1) + 1 from rfl, List.append_assoc,
            loop_next reg (f + 1) (mctl m) _ _ _ _ (isEmpty_code m s _)
              (step_ctrl reg (mctl m) m s _ (toTable mt) false _ rfl hl rfl)]
          simp only [cond_false]
          rw [loop_next reg f _ _ _ _ _ (isEmpty_code mt c rest)
              (step_lit reg ⟨toTable m, toTable mt⟩ mt c bs rest rfl hl2)]
          simp [opItems, hl2, toEvent, mctl, map_id']
        | latch _ => cases henc
        | shift _ => cases henc
        | bshift => cases henc
        | flg => cases henc
  | bin bytes =>
    simp only [encodeOp] at henc
    cases hf : findCode (tableOf m) Entry.bshift with
    | none => rw [hf] at henc; cases henc
    | some s =>
      rw [hf] at henc
      simp only at henc
      have hl := findCode_spec _ _ _ hf
      split at henc
      · cases henc
      · rename_i hall
        have hall' : bytes.all (· < 256) = true := by simpa using hall
        split at henc
        · rename_i hshort
          injection henc with henc
          injection henc with hb hm
          subst hb; subst hm
          rw [show f + opSteps (.bin bytes) = (f + 1) + 1 from rfl]
          rw [show (toBits (width m) s ++ toBits 5 bytes.length ++ bytesBits bytes) ++ rest =
            toBits (width m) s ++ (toBits 5 bytes.length ++ bytesBits bytes ++ rest) by simp]
          rw [loop_next reg (f + 1) (mctl m) _ _ _ _ (isEmpty_code m s _)
              (step_ctrl reg (mctl m) m s _ .binary false _ rfl hl rfl)]
          simp only [cond_false]
          have hne : (toBits 5 bytes.length ++ bytesBits bytes ++ rest).isEmpty = false := by
            rw [List.append_assoc]; exact isEmpty_toBits_append 5 _ _ (by decide)
          rw [loop_next reg f _ _ _ _ _ hne
              (step_binary_short reg (toTable m) bytes rest hall' hshort.1 hshort.2)]
          simp [opItems, toEvent, mctl, map_id']
        · split at henc
          · rename_i hlong
            injection henc with henc
            injection henc with hb hm
            subst hb; subst hm
            rw [show f + opSteps (.bin bytes) = (f + 1) + 1 from rfl]
            rw [show (toBits (width m) s ++ toBits 5 0 ++ toBits 11 (bytes.length - 31) ++
                  bytesBits bytes) ++ rest =
                toBits (width m) s ++
                  (toBits 5 0 ++ toBits 11 (bytes.length - 31) ++ bytesBits bytes ++ rest) by simp]
            rw [loop_next reg (f + 1) (mctl m) _ _ _ _ (isEmpty_code m s _)
                (step_ctrl reg (mctl m) m s _ .binary false _ rfl hl rfl)]
            simp only [cond_false]
            have hne : (toBits 5 0 ++ toBits 11 (bytes.length - 31) ++ bytesBits bytes ++
                rest).isEmpty = false := by
              rw [List.append_assoc, List.append_assoc]
              exact isEmpty_toBits_append 5 _ _ (by decide)
            rw [loop_next reg f _ _ _ _ _ hne
                (step_binary_long reg (toTable m) bytes rest hall' hlong.1 hlong.2)]
            simp [opItems, toEvent, mctl, map_id']
          · cases henc
  | flg n ds =>
    simp only [encodeOp] at henc
    cases hf : findCode (tableOf m) Entry.flg with
    | none => rw [hf] at henc; cases henc
    | some c =>
      rw [hf] at henc
      cases hp : flgBits n ds with
      | none => rw [hp] at henc; cases henc
      | some p =>
        rw [hp] at henc
        simp only at henc
        injection henc with henc
        injection henc with hb hm
        subst hb; subst hm
        have hl := findCode_spec _ _ _ hf
        rw [show f + opSteps (.flg n ds) = f + 1 from rfl,
          loop_next reg f (mctl m) _ _ _ _
            (by rw [List.append_assoc]; exact isEmpty_code m c _)
            (step_flg reg (mctl m) m c n ds p rest rfl hl hp hok)]
        simp only [opItems, mctl, flgEvent]
        split <;> rfl
  | shFlg n ds =>
    simp only [encodeOp] at henc
    cases hf : findCode (tableOf m) (Entry.shift Mode.punct) with
    | none => rw [hf] at henc; cases henc
    | some s =>
      rw [hf] at henc
      cases hf2 : findCode punctTable Entry.flg with
      | none => rw [hf2] at henc; cases henc
      | some c =>
        rw [hf2] at henc
        cases hp : flgBits n ds with
        | none => rw [hp] at henc; cases henc
        | some p =>
          rw [hp] at henc
          simp only at henc
          injection henc with henc
          injection henc with hb hm
          subst hb; subst hm
          have hl := findCode_spec _ _ _ hf
          have hl2 : (tableOf Mode.punct)[c]? = some Entry.flg := findCode_spec _ _ _ hf2
          rw [show f + opSteps (.shFlg n ds) = (f + 1) + 1 from rfl]
          rw [show (toBits (width m) s ++ toBits 5 c ++ p) ++ rest =
            toBits (width m) s ++ (toBits (width Mode.punct) c ++ p ++ rest) by simp [width]]
          rw [loop_next reg (f + 1) (mctl m) _ _ _ _ (isEmpty_code m s _)
              (step_ctrl reg (mctl m) m s _ .punct false _ rfl hl rfl)]
          simp only [cond_false]
          rw [loop_next reg f _ _ _ _ _
              (by rw [List.append_assoc]; exact isEmpty_code Mode.punct c _)
              (step_flg reg ⟨toTable m, .punct⟩ Mode.punct c n ds p rest rfl hl2 hp hok)]
          simp only [opItems, mctl, flgEvent, map_nil_append]
          split <;> rfl

/-! ### scripts -/

def scriptSteps : List Op → Nat
  | [] => 0
  | op :: ops => opSteps op + scriptSteps ops

def scriptOK (reg : Nat → Bool) (ops : List Op) : Prop := ∀ op ∈ ops, opOK reg op

/-- final mode of a script -/
def finalMode : Mode → List Op → Mode
  | m, [] => m
  | m, op :: ops => finalMode (opMode m op) ops

theorem encodeOp_mode (m m' : Mode) (op : Op) (b : List Bool) (h : encodeOp m op = some (b, m')) :
    m' = opMode m op := by
  cases op <;> simp only [encodeOp] at h
  case ch c =>
    split at h
    · injection h with h; injection h with _ hm; exact hm.symm
    · cases h
  case latch mt =>
    cases hf : findCode (tableOf m) (Entry.latch mt) <;> rw [hf] at h
    · cases h
    · simp only [Option.map_some] at h; injection h with h; injection h with _ hm; exact hm.symm
  case sh mt c =>
    split at h
    · injection h with h; injection h with _ hm; exact hm.symm
    · cases h
  case bin bytes =>
    split at h
    · cases h
    · split at h
      · cases h
      · split at h
        · injection h with h; injection h with _ hm; exact hm.symm
        · split at h
          · injection h with h; injection h with _ hm; exact hm.symm
          · cases h
  case flg n ds =>
    split at h
    · injection h with h; injection h with _ hm; exact hm.symm
    · cases h
  case shFlg n ds =>
    split at h
    · injection h with h; injection h with _ hm; exact hm.symm
    · cases h

theorem script_loop (reg : Nat → Bool) :
    ∀ (ops : List Op) (m : Mode) (bits : List Bool),
      encodeScript m ops = some bits → scriptOK reg ops → ∀ (rest : List Bool) (f : Nat),
      loop refTables reg (f + scriptSteps ops) (mctl m) (bits ++ rest) =
        (loop refTables reg f (mctl (finalMode m ops)) rest).map
          ((scriptItems m ops).map toEvent ++ ·) := by
  intro ops
  induction ops with
  | nil =>
    intro m bits h _ rest f
    simp only [encodeScript] at h
    injection h with h
    subst h
    simp [scriptSteps, finalMode, scriptItems, map_id']
  | cons op ops ih =>
    intro m bits h hok rest f
    simp only [encodeScript] at h
    cases he : encodeOp m op with
    | none => rw [he] at h; cases h
    | some p =>
      obtain ⟨b, m'⟩ := p
      rw [he] at h
      simp only at h
      cases hs : encodeScript m' ops with
      | none => rw [hs] at h; cases h
      | some bs =>
        rw [hs] at h
        simp only [Option.map_some] at h
        injection h with h
        subst h
        have hm' := encodeOp_mode m m' op b he
        have hok1 : opOK reg op := hok op (by simp)
        have hok2 : scriptOK reg ops := fun o ho => hok o (by simp [ho])
        have e1 : f + scriptSteps (op :: ops) = (f + scriptSteps ops) + opSteps op := by
          simp [scriptSteps]; omega
        rw [e1, List.append_assoc, op_loop reg m m' op b he hok1 (bs ++ rest) (f + scriptSteps ops),
          ih m' bs hs hok2 rest f, map_map_append]
        subst hm'
        simp [finalMode, scriptItems]

/-- every op emits at least as many bits as it takes loop iterations -/
theorem opSteps_le (m m' : Mode) (op : Op) (b : List Bool) (h : encodeOp m op = some (b, m')) :
    opSteps op ≤ b.length := by
  have hw : 4 ≤ width m := by cases m <;> decide
  cases op <;> simp only [encodeOp] at h
  case ch c =>
    split at h
    · injection h with h; injection h with hb _; subst hb; simp [length_toBits, opSteps]; omega
    · cases h
  case latch mt =>
    cases hf : findCode (tableOf m) (Entry.latch mt) <;> rw [hf] at h
    · cases h
    · simp only [Option.map_some] at h; injection h with h; injection h with hb _; subst hb
      simp [length_toBits, opSteps]; omega
  case sh mt c =>
    split at h
    · injection h with h; injection h with hb _; subst hb; simp [length_toBits, opSteps]; omega
    · cases h
  case bin bytes =>
    split at h
    · cases h
    · split at h
      · cases h
      · split at h
        · injection h with h; injection h with hb _; subst hb; simp [length_toBits, opSteps]; omega
        · split at h
          · injection h with h; injection h with hb _; subst hb
            simp [length_toBits, opSteps]; omega
          · cases h
  case flg n ds =>
    split at h
    · injection h with h; injection h with hb _; subst hb; simp [length_toBits, opSteps]; omega
    · cases h
  case shFlg n ds =>
    split at h
    · injection h with h; injection h with hb _; subst hb; simp [length_toBits, opSteps]; omega
    · cases h

theorem scriptSteps_le :
    ∀ (ops : List Op) (m : Mode) (bits : List Bool),
      encodeScript m ops = some bits → scriptSteps ops ≤ bits.length := by
  intro ops
  induction ops with
  | nil => intro m bits _; simp [scriptSteps]
  | cons op ops ih =>
    intro m bits h
    simp only [encodeScript] at h
    cases he : encodeOp m op with
    | none => rw [he] at h; cases h
    | some p =>
      obtain ⟨b, m'⟩ := p
      rw [he] at h
      simp only at h
      cases hs : encodeScript m' ops with
      | none => rw [hs] at h; cases h
      | some bs =>
        rw [hs] at h
        simp only [Option.map_some] at h
        injection h with h
        subst h
        have := opSteps_le m m' op b he
        have := ih m' bs hs
        simp [scriptSteps]; omega

/-- up to 11 pad ones after the message decode to nothing, whatever the final mode -/
theorem pad_loop (reg : Nat → Bool) (m : Mode) (k : Nat) (hk : k < 12) :
    loop refTables reg (k + 1) (mctl m) (List.replicate k true) = .ok [] := by
  have : k = 0 ∨ k = 1 ∨ k = 2 ∨ k = 3 ∨ k = 4 ∨ k = 5 ∨ k = 6 ∨ k = 7 ∨ k = 8 ∨ k = 9 ∨
      k = 10 ∨ k = 11 := by omega
  -- the registry is never consulted on these inputs: plain evaluation
  rcases this with h | h | h | h | h | h | h | h | h | h | h | h <;> subst h <;> cases m <;> rfl

/-! ### plain scripts -/

/-- an op that is not FLG(n) -/
def isPlain : Op → Bool
  | .flg _ _ | .shFlg _ _ => false
  | _ => true

/-- a script without FLG(n): only data bytes -/
def PlainScript (ops : List Op) : Prop := ∀ op ∈ ops, isPlain op = true

instance (ops : List Op) : Decidable (PlainScript ops) := by unfold PlainScript; infer_instance

end Gzx.AztecHL
