/-
  C11 layout lemmas: if the decoder's read positions, classified by the reference layout, are
  exactly `data 0, data 1, ...` (a decidable per-size check `layoutOK`), then reading back a laid-out
  symbol returns the bit stream.
-/
import Gzx.Ref.AztecLayout
import Gzx.Model.AztecExtract
namespace Gzx.AztecLayout
open Gzx Gzx.AztecDecoder Gzx.Ref.Aztec

/-- single pass over the read positions: in range, and the n-th position is reference cell `data n` -/
def checkFrom (compact : Bool) (layers size : Nat) : List (Nat × Nat) → Nat → Bool
  | [], _ => true
  | p :: ps, n =>
    (Nat.blt p.1 size && Nat.blt p.2 size &&
      (match cellAt compact layers p.1 p.2 with
       | .data m => Nat.beq m n
       | _ => false))
    && checkFrom compact layers size ps (n + 1)

/-- the decoder reads exactly the data cells of the reference layout, each once, in stream order -/
def layoutOK (compact : Bool) (layers : Nat) : Bool :=
  let ps := readPositions layers compact
  Nat.beq ps.length (totalBits compact layers) &&
    checkFrom compact layers (symbolSize compact layers) ps 0

theorem getBit_layout (compact : Bool) (layers : Nat) (stream mode : List Bool) (x y : Nat)
    (hx : x < symbolSize compact layers) (hy : y < symbolSize compact layers) :
    getBit (layout compact layers stream mode) x y =
      .ok (cellValue stream.toArray mode.toArray (cellAt compact layers x y)) := by
  simp [getBit, layout, hx, hy]

theorem cellValue_data (stream mode : List Bool) (n : Nat) :
    cellValue stream.toArray mode.toArray (.data n) = stream[n]?.getD false := by
  simp [cellValue]

theorem readAll_layout (compact : Bool) (layers : Nat) (stream mode : List Bool) :
    ∀ (ps : List (Nat × Nat)) (n : Nat),
      checkFrom compact layers (symbolSize compact layers) ps n = true →
      readAll (layout compact layers stream mode) ps =
        .ok ((List.range' n ps.length).map (fun i => stream[i]?.getD false)) := by
  intro ps
  induction ps with
  | nil => intro n _; simp [readAll]
  | cons p ps ih =>
    intro n h
    simp only [checkFrom, Bool.and_eq_true, Nat.blt_eq] at h
    obtain ⟨⟨⟨hx, hy⟩, hc⟩, hrest⟩ := h
    have hcell : cellAt compact layers p.1 p.2 = .data n := by
      split at hc
      · rename_i m hm
        have : m = n := Nat.eq_of_beq_eq_true hc
        rw [hm, this]
      · cases hc
    simp only [readAll, getBit_layout compact layers stream mode p.1 p.2 hx hy, hcell,
      cellValue_data, ih (n + 1) hrest, List.length_cons, List.range'_succ, List.map_cons]

theorem range'_map_getD (l : List Bool) :
    (List.range' 0 l.length).map (fun i => l[i]?.getD false) = l := by
  apply List.ext_getElem
  · simp
  · intro i h1 h2
    simp at h1
    simp [h1]

/-- reading back a laid-out symbol returns the stream, for every size passing the check -/
theorem extract_layout (compact : Bool) (layers : Nat) (stream mode : List Bool)
    (hok : layoutOK compact layers = true)
    (hlen : stream.length = totalBits compact layers) :
    extractBits (layout compact layers stream mode) layers compact = .ok stream := by
  simp only [layoutOK, Bool.and_eq_true] at hok
  obtain ⟨hl, hc⟩ := hok
  have hl' : (readPositions layers compact).length = stream.length := by
    rw [hlen]; exact Nat.eq_of_beq_eq_true hl
  unfold extractBits
  rw [readAll_layout compact layers stream mode _ 0 hc, hl', range'_map_getD]

end Gzx.AztecLayout
