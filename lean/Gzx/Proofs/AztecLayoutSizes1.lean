/- C11: per-size kernel checks (`decide +kernel`) that the decoder's read order equals the
   reference layout's write order.  GENERATED list of sizes, balanced over 8 files for parallel builds. -/
import Gzx.Proofs.AztecLayout
namespace Gzx.AztecLayout

theorem layoutOK_full_7 : layoutOK false 7 = true := by decide +kernel
theorem layoutOK_full_9 : layoutOK false 9 = true := by decide +kernel
theorem layoutOK_full_17 : layoutOK false 17 = true := by decide +kernel
theorem layoutOK_full_32 : layoutOK false 32 = true := by decide +kernel

end Gzx.AztecLayout
