/- C11: per-size kernel checks (`decide +kernel`) that the decoder's read order equals the
   reference layout's write order.  GENERATED list of sizes, balanced over 8 files for parallel builds. -/
import Gzx.Proofs.AztecLayout
namespace Gzx.AztecLayout

theorem layoutOK_full_8 : layoutOK false 8 = true := by decide +kernel
theorem layoutOK_full_10 : layoutOK false 10 = true := by decide +kernel
theorem layoutOK_full_18 : layoutOK false 18 = true := by decide +kernel
theorem layoutOK_full_31 : layoutOK false 31 = true := by decide +kernel

end Gzx.AztecLayout
