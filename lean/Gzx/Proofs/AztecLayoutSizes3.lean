/- C11: per-size kernel checks (`decide +kernel`) that the decoder's read order equals the
   reference layout's write order.  GENERATED list of sizes, balanced over 8 files for parallel builds. -/
import Gzx.Proofs.AztecLayout
namespace Gzx.AztecLayout

theorem layoutOK_full_6 : layoutOK false 6 = true := by decide +kernel
theorem layoutOK_full_11 : layoutOK false 11 = true := by decide +kernel
theorem layoutOK_full_19 : layoutOK false 19 = true := by decide +kernel
theorem layoutOK_full_30 : layoutOK false 30 = true := by decide +kernel
theorem layoutOK_compact_1 : layoutOK true 1 = true := by decide +kernel
theorem layoutOK_compact_2 : layoutOK true 2 = true := by decide +kernel

end Gzx.AztecLayout
