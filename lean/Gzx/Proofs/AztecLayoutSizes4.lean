/- C11: per-size kernel checks (`decide +kernel`) that the decoder's read order equals the
   reference layout's write order.  GENERATED list of sizes, balanced over 8 files for parallel builds. -/
import Gzx.Proofs.AztecLayout
namespace Gzx.AztecLayout

theorem layoutOK_full_3 : layoutOK false 3 = true := by decide +kernel
theorem layoutOK_full_5 : layoutOK false 5 = true := by decide +kernel
theorem layoutOK_full_12 : layoutOK false 12 = true := by decide +kernel
theorem layoutOK_full_20 : layoutOK false 20 = true := by decide +kernel
theorem layoutOK_full_29 : layoutOK false 29 = true := by decide +kernel

end Gzx.AztecLayout
