/- C11: per-size kernel checks (`decide +kernel`) that the decoder's read order equals the
   reference layout's write order.  GENERATED list of sizes, balanced over 8 files for parallel builds. -/
import Gzx.Proofs.AztecLayout
namespace Gzx.AztecLayout

theorem layoutOK_full_4 : layoutOK false 4 = true := by decide +kernel
theorem layoutOK_full_13 : layoutOK false 13 = true := by decide +kernel
theorem layoutOK_full_21 : layoutOK false 21 = true := by decide +kernel
theorem layoutOK_full_28 : layoutOK false 28 = true := by decide +kernel
theorem layoutOK_compact_3 : layoutOK true 3 = true := by decide +kernel

end Gzx.AztecLayout
