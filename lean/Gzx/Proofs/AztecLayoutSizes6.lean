/- C11: per-size kernel checks (`decide +kernel`) that the decoder's read order equals the
   reference layout's write order.  GENERATED list of sizes, balanced over 8 files for parallel builds. -/
import Gzx.Proofs.AztecLayout
namespace Gzx.AztecLayout

theorem layoutOK_full_1 : layoutOK false 1 = true := by decide +kernel
theorem layoutOK_full_14 : layoutOK false 14 = true := by decide +kernel
theorem layoutOK_full_22 : layoutOK false 22 = true := by decide +kernel
theorem layoutOK_full_27 : layoutOK false 27 = true := by decide +kernel
theorem layoutOK_compact_4 : layoutOK true 4 = true := by decide +kernel

end Gzx.AztecLayout
