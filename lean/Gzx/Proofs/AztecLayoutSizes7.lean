/- C11: per-size kernel checks (`decide +kernel`) that the decoder's read order equals the
   reference layout's write order.  GENERATED list of sizes, balanced over 8 files for parallel builds. -/
import Gzx.Proofs.AztecLayout
namespace Gzx.AztecLayout

theorem layoutOK_full_2 : layoutOK false 2 = true := by decide +kernel
theorem layoutOK_full_15 : layoutOK false 15 = true := by decide +kernel
theorem layoutOK_full_23 : layoutOK false 23 = true := by decide +kernel
theorem layoutOK_full_26 : layoutOK false 26 = true := by decide +kernel

end Gzx.AztecLayout
