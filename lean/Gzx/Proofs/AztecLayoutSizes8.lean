/- C11: per-size kernel checks (`decide +kernel`) that the decoder's read order equals the
   reference layout's write order.  GENERATED list of sizes, balanced over 8 files for parallel builds. -/
import Gzx.Proofs.AztecLayout
namespace Gzx.AztecLayout

theorem layoutOK_full_16 : layoutOK false 16 = true := by decide +kernel
theorem layoutOK_full_24 : layoutOK false 24 = true := by decide +kernel
theorem layoutOK_full_25 : layoutOK false 25 = true := by decide +kernel

end Gzx.AztecLayout
