/-
  C11 glue between the reference encoder (Gzx.Ref.Aztec), the decoder model (Gzx.AztecDecoder) and
  the regenerated Go tables: typed views, the reference tables in the decoder's vocabulary, the
  orientation constants the standard implies for the detector's reading order.
-/
import Gzx.GoVal
import Gzx.Ref.Aztec
import Gzx.Model.AztecDecoder
namespace Gzx.AztecLink
open Gzx Gzx.AztecDecoder

/-- the decoder's table for a reference mode -/
def toTable : Ref.Aztec.Mode → Table
  | .upper => .upper | .lower => .lower | .mixed => .mixed | .punct => .punct | .digit => .digit

/-- a reference table cell in the decoder's vocabulary -/
def toD : Ref.Aztec.Entry → DEntry
  | .lit bs => .lit bs
  | .latch m => .ctrl (toTable m) true
  | .shift m => .ctrl (toTable m) false
  | .bshift => .ctrl .binary false
  | .flg => .flg

/-- the five reference tables as the decoder sees them -/
def refTables : Tables :=
  { upper := Ref.Aztec.upperTable.map toD
    lower := Ref.Aztec.lowerTable.map toD
    mixed := Ref.Aztec.mixedTable.map toD
    punct := Ref.Aztec.punctTable.map toD
    digit := Ref.Aztec.digitTable.map toD }

/-- typed view of a regenerated `[]string` table -/
def tableOfGen (v : GoVal) : Option (List DEntry) :=
  v.asStrList?.bind (·.mapM classify)

def tablesOfGen (u l m p d : GoVal) : Option Tables := do
  let u ← tableOfGen u
  let l ← tableOfGen l
  let m ← tableOfGen m
  let p ← tableOfGen p
  let d ← tableOfGen d
  pure ⟨u, l, m, p, d⟩

/-! ### orientation marks as the detector reads them

The detector samples the ring just outside the bull's eye as four sides of `2R` modules, side `j`
running from corner `j` to corner `j+1` (corners clockwise from the top-RIGHT of the image:
0 = top-right, 1 = bottom-right, 2 = bottom-left, 3 = top-left), first module = most significant
bit.  `shift` is the corner index holding the three orientation marks. -/

/-- the four sides of the core ring of an upright reference symbol, clockwise from the top-left
    corner (top, right, bottom, left); `mode` = mode message bits -/
def uprightSides (compact : Bool) (mode : List Bool) : List Nat :=
  let R := if compact then 5 else 7
  let c := Ref.Aztec.symbolSize compact 1 / 2
  let ma := mode.toArray
  let v (x y : Nat) : Bool := Ref.Aztec.cellValue #[] ma (Ref.Aztec.cellAt compact 1 x y)
  let side (f : Nat → Nat × Nat) : Nat :=
    Ref.Aztec.fromBits ((List.range (2 * R)).map (fun i => let p := f i; v p.1 p.2))
  [ side (fun i => (c - R + i, c - R)),        -- top: left -> right
    side (fun i => (c + R, c - R + i)),        -- right: top -> bottom
    side (fun i => (c + R - i, c + R)),        -- bottom: right -> left
    side (fun i => (c - R, c + R - i)) ]       -- left: bottom -> top

/-- the detector's `sides` for a symbol whose three-mark corner sits at image corner `shift` -/
def sidesAt (compact : Bool) (mode : List Bool) (shift : Nat) : List Nat :=
  let up := uprightSides compact mode
  (List.range 4).map (fun j => up.getD ((j + 4 - shift) % 4) 0)

/-- the 12 orientation bits in the detector's packing: per side `XX......X`, concatenated, then the
    lowest bit moved to the top -/
def cornerBitsOf (sides : List Nat) (length : Nat) : Nat :=
  let cb := sides.foldl (fun cb side =>
    cb * 8 + ((side / 2 ^ (length - 2)) * 2 + side % 2)) 0
  (cb % 2) * 2048 + cb / 2

/-- what EXPECTED_CORNER_BITS must be, from the standard's orientation marks -/
def refExpectedCornerBits : List Nat :=
  (List.range 4).map (fun s => cornerBitsOf (sidesAt true (List.replicate 28 false) s) 10)

end Gzx.AztecLink
