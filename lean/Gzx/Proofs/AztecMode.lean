/-
  C11 mode message lemmas: the integer tail of the detector (getRotation, parameterData,
  correctedParameters) applied to an ideal sampling of the reference core ring recovers the
  orientation and the mode message, for every mode message and all four rotations.
  (The explicit 28/40-variable statements are GENERATED text; proofs are kernel evaluations over
  Bool-quantified side lemmas plus linear arithmetic.)
-/
import Gzx.Proofs.AztecStuff
set_option linter.unusedSimpArgs false
namespace Gzx.AztecMode
open Gzx Gzx.AztecDecoder Gzx.Ref.Aztec Gzx.AztecLink Gzx.AztecStuff

/-! ### the detector's per-side extractions -/

/-- the three orientation bits of a side `XX......X` -/
def tOf (len side : Nat) : Nat := ((side >>> (len - 2)) <<< 1) + (side &&& 1)

/-- the message bits of a side -/
def msgOf (compact : Bool) (side : Nat) : Nat :=
  if compact then (side >>> 1) &&& 0x7F
  else ((side >>> 2) &&& (0x1f <<< 5)) + ((side >>> 1) &&& 0x1F)

/-- `getRotation` on the orientation bits -/
def rotOfT (expected : List Nat) (ts : List Nat) : Res Nat :=
  let cornerBits := ts.foldl (fun cb t => (cb <<< 3) + t) 0
  let cornerBits := ((cornerBits &&& 1) <<< 11) + (cornerBits >>> 1)
  let popcount (n : Nat) : Nat := ((List.range 16).filter (fun i => n.testBit i)).length
  match (List.range 4).find? (fun shift =>
      match expected[shift]? with
      | some e => popcount ((cornerBits ^^^ e) % 65536) ≤ 2
      | none => false) with
  | some s => .ok s
  | none => .error .notFound

theorem getRotation_eq (E sides : List Nat) (len : Nat) :
    getRotation E sides len = rotOfT E (sides.map (tOf len)) := by
  simp only [getRotation, rotOfT, List.foldl_map, tOf]
  rfl

theorem parameterData_eq (compact : Bool) (sides : List Nat) (shift : Nat) :
    parameterData compact sides shift =
      (List.range 4).foldl (fun pd i =>
        (pd <<< (if compact then 7 else 10)) + msgOf compact (sides.getD ((shift + i) % 4) 0)) 0 := by
  cases compact <;> rfl

/-- compact side `o1 o2 m0..m6 z`: the 7 message bits and the 3 orientation bits as the detector extracts them -/
theorem side_compact : ∀ o1 o2 m0 m1 m2 m3 m4 m5 m6 z : Bool,
    msgOf true (fromBits [o1, o2, m0, m1, m2, m3, m4, m5, m6, z]) =
        fromBits [m0, m1, m2, m3, m4, m5, m6] ∧
    tOf 10 (fromBits [o1, o2, m0, m1, m2, m3, m4, m5, m6, z]) = fromBits [o1, o2, z] := by
  decide +kernel

/-- full-range side `o1 o2 a0..a4 g b0..b4 z` (g = reference grid module) -/
theorem side_full : ∀ o1 o2 a0 a1 a2 a3 a4 g b0 b1 b2 b3 b4 z : Bool,
    msgOf false (fromBits [o1, o2, a0, a1, a2, a3, a4, g, b0, b1, b2, b3, b4, z]) =
        fromBits [a0, a1, a2, a3, a4, b0, b1, b2, b3, b4] ∧
    tOf 14 (fromBits [o1, o2, a0, a1, a2, a3, a4, g, b0, b1, b2, b3, b4, z]) = fromBits [o1, o2, z] := by
  decide +kernel

theorem list_succ (l : List Bool) (n : Nat) (h : l.length = n + 1) :
    ∃ b t, l = b :: t ∧ t.length = n := by
  cases l with
  | nil => simp at h
  | cons b t => exact ⟨b, t, rfl, by simpa using h⟩

theorem list28 (l0 : List Bool) (h0 : l0.length = 28) :
    ∃ b0 b1 b2 b3 b4 b5 b6 b7 b8 b9 b10 b11 b12 b13 b14 b15 b16 b17 b18 b19 b20 b21 b22 b23 b24 b25 b26 b27 : Bool, l0 = [b0, b1, b2, b3, b4, b5, b6, b7, b8, b9, b10, b11, b12, b13, b14, b15, b16, b17, b18, b19, b20, b21, b22, b23, b24, b25, b26, b27] := by
  obtain ⟨b0, l1, rfl, h1⟩ := list_succ l0 _ h0
  obtain ⟨b1, l2, rfl, h2⟩ := list_succ l1 _ h1
  obtain ⟨b2, l3, rfl, h3⟩ := list_succ l2 _ h2
  obtain ⟨b3, l4, rfl, h4⟩ := list_succ l3 _ h3
  obtain ⟨b4, l5, rfl, h5⟩ := list_succ l4 _ h4
  obtain ⟨b5, l6, rfl, h6⟩ := list_succ l5 _ h5
  obtain ⟨b6, l7, rfl, h7⟩ := list_succ l6 _ h6
  obtain ⟨b7, l8, rfl, h8⟩ := list_succ l7 _ h7
  obtain ⟨b8, l9, rfl, h9⟩ := list_succ l8 _ h8
  obtain ⟨b9, l10, rfl, h10⟩ := list_succ l9 _ h9
  obtain ⟨b10, l11, rfl, h11⟩ := list_succ l10 _ h10
  obtain ⟨b11, l12, rfl, h12⟩ := list_succ l11 _ h11
  obtain ⟨b12, l13, rfl, h13⟩ := list_succ l12 _ h12
  obtain ⟨b13, l14, rfl, h14⟩ := list_succ l13 _ h13
  obtain ⟨b14, l15, rfl, h15⟩ := list_succ l14 _ h14
  obtain ⟨b15, l16, rfl, h16⟩ := list_succ l15 _ h15
  obtain ⟨b16, l17, rfl, h17⟩ := list_succ l16 _ h16
  obtain ⟨b17, l18, rfl, h18⟩ := list_succ l17 _ h17
  obtain ⟨b18, l19, rfl, h19⟩ := list_succ l18 _ h18
  obtain ⟨b19, l20, rfl, h20⟩ := list_succ l19 _ h19
  obtain ⟨b20, l21, rfl, h21⟩ := list_succ l20 _ h20
  obtain ⟨b21, l22, rfl, h22⟩ := list_succ l21 _ h21
  obtain ⟨b22, l23, rfl, h23⟩ := list_succ l22 _ h22
  obtain ⟨b23, l24, rfl, h24⟩ := list_succ l23 _ h23
  obtain ⟨b24, l25, rfl, h25⟩ := list_succ l24 _ h24
  obtain ⟨b25, l26, rfl, h26⟩ := list_succ l25 _ h25
  obtain ⟨b26, l27, rfl, h27⟩ := list_succ l26 _ h26
  obtain ⟨b27, l28, rfl, h28⟩ := list_succ l27 _ h27
  have : l28 = [] := List.eq_nil_of_length_eq_zero h28
  subst this
  exact ⟨b0, b1, b2, b3, b4, b5, b6, b7, b8, b9, b10, b11, b12, b13, b14, b15, b16, b17, b18, b19, b20, b21, b22, b23, b24, b25, b26, b27, rfl⟩

theorem list40 (l0 : List Bool) (h0 : l0.length = 40) :
    ∃ b0 b1 b2 b3 b4 b5 b6 b7 b8 b9 b10 b11 b12 b13 b14 b15 b16 b17 b18 b19 b20 b21 b22 b23 b24 b25 b26 b27 b28 b29 b30 b31 b32 b33 b34 b35 b36 b37 b38 b39 : Bool, l0 = [b0, b1, b2, b3, b4, b5, b6, b7, b8, b9, b10, b11, b12, b13, b14, b15, b16, b17, b18, b19, b20, b21, b22, b23, b24, b25, b26, b27, b28, b29, b30, b31, b32, b33, b34, b35, b36, b37, b38, b39] := by
  obtain ⟨b0, l1, rfl, h1⟩ := list_succ l0 _ h0
  obtain ⟨b1, l2, rfl, h2⟩ := list_succ l1 _ h1
  obtain ⟨b2, l3, rfl, h3⟩ := list_succ l2 _ h2
  obtain ⟨b3, l4, rfl, h4⟩ := list_succ l3 _ h3
  obtain ⟨b4, l5, rfl, h5⟩ := list_succ l4 _ h4
  obtain ⟨b5, l6, rfl, h6⟩ := list_succ l5 _ h5
  obtain ⟨b6, l7, rfl, h7⟩ := list_succ l6 _ h6
  obtain ⟨b7, l8, rfl, h8⟩ := list_succ l7 _ h7
  obtain ⟨b8, l9, rfl, h9⟩ := list_succ l8 _ h8
  obtain ⟨b9, l10, rfl, h10⟩ := list_succ l9 _ h9
  obtain ⟨b10, l11, rfl, h11⟩ := list_succ l10 _ h10
  obtain ⟨b11, l12, rfl, h12⟩ := list_succ l11 _ h11
  obtain ⟨b12, l13, rfl, h13⟩ := list_succ l12 _ h12
  obtain ⟨b13, l14, rfl, h14⟩ := list_succ l13 _ h13
  obtain ⟨b14, l15, rfl, h15⟩ := list_succ l14 _ h14
  obtain ⟨b15, l16, rfl, h16⟩ := list_succ l15 _ h15
  obtain ⟨b16, l17, rfl, h17⟩ := list_succ l16 _ h16
  obtain ⟨b17, l18, rfl, h18⟩ := list_succ l17 _ h17
  obtain ⟨b18, l19, rfl, h19⟩ := list_succ l18 _ h18
  obtain ⟨b19, l20, rfl, h20⟩ := list_succ l19 _ h19
  obtain ⟨b20, l21, rfl, h21⟩ := list_succ l20 _ h20
  obtain ⟨b21, l22, rfl, h22⟩ := list_succ l21 _ h21
  obtain ⟨b22, l23, rfl, h23⟩ := list_succ l22 _ h22
  obtain ⟨b23, l24, rfl, h24⟩ := list_succ l23 _ h23
  obtain ⟨b24, l25, rfl, h25⟩ := list_succ l24 _ h24
  obtain ⟨b25, l26, rfl, h26⟩ := list_succ l25 _ h25
  obtain ⟨b26, l27, rfl, h27⟩ := list_succ l26 _ h26
  obtain ⟨b27, l28, rfl, h28⟩ := list_succ l27 _ h27
  obtain ⟨b28, l29, rfl, h29⟩ := list_succ l28 _ h28
  obtain ⟨b29, l30, rfl, h30⟩ := list_succ l29 _ h29
  obtain ⟨b30, l31, rfl, h31⟩ := list_succ l30 _ h30
  obtain ⟨b31, l32, rfl, h32⟩ := list_succ l31 _ h31
  obtain ⟨b32, l33, rfl, h33⟩ := list_succ l32 _ h32
  obtain ⟨b33, l34, rfl, h34⟩ := list_succ l33 _ h33
  obtain ⟨b34, l35, rfl, h35⟩ := list_succ l34 _ h34
  obtain ⟨b35, l36, rfl, h36⟩ := list_succ l35 _ h35
  obtain ⟨b36, l37, rfl, h37⟩ := list_succ l36 _ h36
  obtain ⟨b37, l38, rfl, h38⟩ := list_succ l37 _ h37
  obtain ⟨b38, l39, rfl, h39⟩ := list_succ l38 _ h38
  obtain ⟨b39, l40, rfl, h40⟩ := list_succ l39 _ h39
  have : l40 = [] := List.eq_nil_of_length_eq_zero h40
  subst this
  exact ⟨b0, b1, b2, b3, b4, b5, b6, b7, b8, b9, b10, b11, b12, b13, b14, b15, b16, b17, b18, b19, b20, b21, b22, b23, b24, b25, b26, b27, b28, b29, b30, b31, b32, b33, b34, b35, b36, b37, b38, b39, rfl⟩

theorem sides_compact (b0 b1 b2 b3 b4 b5 b6 b7 b8 b9 b10 b11 b12 b13 b14 b15 b16 b17 b18 b19 b20 b21 b22 b23 b24 b25 b26 b27 : Bool) :
    uprightSides true [b0, b1, b2, b3, b4, b5, b6, b7, b8, b9, b10, b11, b12, b13, b14, b15, b16, b17, b18, b19, b20, b21, b22, b23, b24, b25, b26, b27] =
      [fromBits [true, true, b0, b1, b2, b3, b4, b5, b6, false], fromBits [true, true, b7, b8, b9, b10, b11, b12, b13, true],
       fromBits [false, false, b14, b15, b16, b17, b18, b19, b20, false], fromBits [false, false, b21, b22, b23, b24, b25, b26, b27, true]] := by
  rfl

theorem sides_full (b0 b1 b2 b3 b4 b5 b6 b7 b8 b9 b10 b11 b12 b13 b14 b15 b16 b17 b18 b19 b20 b21 b22 b23 b24 b25 b26 b27 b28 b29 b30 b31 b32 b33 b34 b35 b36 b37 b38 b39 : Bool) :
    uprightSides false [b0, b1, b2, b3, b4, b5, b6, b7, b8, b9, b10, b11, b12, b13, b14, b15, b16, b17, b18, b19, b20, b21, b22, b23, b24, b25, b26, b27, b28, b29, b30, b31, b32, b33, b34, b35, b36, b37, b38, b39] =
      [fromBits [true, true, b0, b1, b2, b3, b4, false, b5, b6, b7, b8, b9, false], fromBits [true, true, b10, b11, b12, b13, b14, false, b15, b16, b17, b18, b19, true],
       fromBits [false, false, b20, b21, b22, b23, b24, false, b25, b26, b27, b28, b29, false], fromBits [false, false, b30, b31, b32, b33, b34, false, b35, b36, b37, b38, b39, true]] := by
  rfl

/-- compact: orientation and the 28 mode message bits are recovered from the reference core, for
    every mode message and each of the four rotations -/
theorem rotation_params_compact (mm : List Bool) (h : mm.length = 28) (s : Nat) (hs : s < 4) :
    getRotation refExpectedCornerBits (sidesAt true mm s) 10 = .ok s ∧
    parameterData true (sidesAt true mm s) s = fromBits mm := by
  obtain ⟨b0, b1, b2, b3, b4, b5, b6, b7, b8, b9, b10, b11, b12, b13, b14, b15, b16, b17, b18, b19, b20, b21, b22, b23, b24, b25, b26, b27, rfl⟩ := list28 mm h
  have hs0 := side_compact true true b0 b1 b2 b3 b4 b5 b6 false
  have hs1 := side_compact true true b7 b8 b9 b10 b11 b12 b13 true
  have hs2 := side_compact false false b14 b15 b16 b17 b18 b19 b20 false
  have hs3 := side_compact false false b21 b22 b23 b24 b25 b26 b27 true
  have hup := sides_compact b0 b1 b2 b3 b4 b5 b6 b7 b8 b9 b10 b11 b12 b13 b14 b15 b16 b17 b18 b19 b20 b21 b22 b23 b24 b25 b26 b27
  have hmsg : fromBits [b0, b1, b2, b3, b4, b5, b6, b7, b8, b9, b10, b11, b12, b13, b14, b15, b16, b17, b18, b19, b20, b21, b22, b23, b24, b25, b26, b27] =
      ((fromBits [b0, b1, b2, b3, b4, b5, b6] * 2 ^ 7 + fromBits [b7, b8, b9, b10, b11, b12, b13]) * 2 ^ 7 + fromBits [b14, b15, b16, b17, b18, b19, b20]) * 2 ^ 7 +
        fromBits [b21, b22, b23, b24, b25, b26, b27] := by
    have e : [b0, b1, b2, b3, b4, b5, b6, b7, b8, b9, b10, b11, b12, b13, b14, b15, b16, b17, b18, b19, b20, b21, b22, b23, b24, b25, b26, b27] = [b0, b1, b2, b3, b4, b5, b6] ++ ([b7, b8, b9, b10, b11, b12, b13] ++ ([b14, b15, b16, b17, b18, b19, b20] ++ [b21, b22, b23, b24, b25, b26, b27])) := rfl
    rw [e, fromBits_append, fromBits_append, fromBits_append]
    simp only [List.length_append, List.length_cons, List.length_nil]
    generalize fromBits [b0, b1, b2, b3, b4, b5, b6] = v0
    generalize fromBits [b7, b8, b9, b10, b11, b12, b13] = v1
    generalize fromBits [b14, b15, b16, b17, b18, b19, b20] = v2
    generalize fromBits [b21, b22, b23, b24, b25, b26, b27] = v3
    omega
  have hcases : s = 0 ∨ s = 1 ∨ s = 2 ∨ s = 3 := by omega
  rcases hcases with rfl | rfl | rfl | rfl
  all_goals
    refine ⟨?_, ?_⟩
    · rw [getRotation_eq, sidesAt, hup]
      simp only [List.range, List.range.loop, List.map, List.getD_cons_zero, List.getD_cons_succ,
        Nat.reduceAdd, Nat.reduceSub, Nat.reduceMod, Nat.zero_add]
      rw [hs0.2, hs1.2, hs2.2, hs3.2]
      decide
    · rw [parameterData_eq, sidesAt, hup]
      simp only [List.range, List.range.loop, List.map, List.foldl, List.getD_cons_zero,
        List.getD_cons_succ, Nat.reduceAdd, Nat.reduceSub, Nat.reduceMod, Nat.zero_add]
      rw [hs0.1, hs1.1, hs2.1, hs3.1, hmsg]
      simp only [Nat.shiftLeft_eq, Bool.false_eq_true, if_false, if_true]
      omega

/-- full: orientation and the 40 mode message bits are recovered from the reference core, for
    every mode message and each of the four rotations -/
theorem rotation_params_full (mm : List Bool) (h : mm.length = 40) (s : Nat) (hs : s < 4) :
    getRotation refExpectedCornerBits (sidesAt false mm s) 14 = .ok s ∧
    parameterData false (sidesAt false mm s) s = fromBits mm := by
  obtain ⟨b0, b1, b2, b3, b4, b5, b6, b7, b8, b9, b10, b11, b12, b13, b14, b15, b16, b17, b18, b19, b20, b21, b22, b23, b24, b25, b26, b27, b28, b29, b30, b31, b32, b33, b34, b35, b36, b37, b38, b39, rfl⟩ := list40 mm h
  have hs0 := side_full true true b0 b1 b2 b3 b4 false b5 b6 b7 b8 b9 false
  have hs1 := side_full true true b10 b11 b12 b13 b14 false b15 b16 b17 b18 b19 true
  have hs2 := side_full false false b20 b21 b22 b23 b24 false b25 b26 b27 b28 b29 false
  have hs3 := side_full false false b30 b31 b32 b33 b34 false b35 b36 b37 b38 b39 true
  have hup := sides_full b0 b1 b2 b3 b4 b5 b6 b7 b8 b9 b10 b11 b12 b13 b14 b15 b16 b17 b18 b19 b20 b21 b22 b23 b24 b25 b26 b27 b28 b29 b30 b31 b32 b33 b34 b35 b36 b37 b38 b39
  have hmsg : fromBits [b0, b1, b2, b3, b4, b5, b6, b7, b8, b9, b10, b11, b12, b13, b14, b15, b16, b17, b18, b19, b20, b21, b22, b23, b24, b25, b26, b27, b28, b29, b30, b31, b32, b33, b34, b35, b36, b37, b38, b39] =
      ((fromBits [b0, b1, b2, b3, b4, b5, b6, b7, b8, b9] * 2 ^ 10 + fromBits [b10, b11, b12, b13, b14, b15, b16, b17, b18, b19]) * 2 ^ 10 + fromBits [b20, b21, b22, b23, b24, b25, b26, b27, b28, b29]) * 2 ^ 10 +
        fromBits [b30, b31, b32, b33, b34, b35, b36, b37, b38, b39] := by
    have e : [b0, b1, b2, b3, b4, b5, b6, b7, b8, b9, b10, b11, b12, b13, b14, b15, b16, b17, b18, b19, b20, b21, b22, b23, b24, b25, b26, b27, b28, b29, b30, b31, b32, b33, b34, b35, b36, b37, b38, b39] = [b0, b1, b2, b3, b4, b5, b6, b7, b8, b9] ++ ([b10, b11, b12, b13, b14, b15, b16, b17, b18, b19] ++ ([b20, b21, b22, b23, b24, b25, b26, b27, b28, b29] ++ [b30, b31, b32, b33, b34, b35, b36, b37, b38, b39])) := rfl
    rw [e, fromBits_append, fromBits_append, fromBits_append]
    simp only [List.length_append, List.length_cons, List.length_nil]
    generalize fromBits [b0, b1, b2, b3, b4, b5, b6, b7, b8, b9] = v0
    generalize fromBits [b10, b11, b12, b13, b14, b15, b16, b17, b18, b19] = v1
    generalize fromBits [b20, b21, b22, b23, b24, b25, b26, b27, b28, b29] = v2
    generalize fromBits [b30, b31, b32, b33, b34, b35, b36, b37, b38, b39] = v3
    omega
  have hcases : s = 0 ∨ s = 1 ∨ s = 2 ∨ s = 3 := by omega
  rcases hcases with rfl | rfl | rfl | rfl
  all_goals
    refine ⟨?_, ?_⟩
    · rw [getRotation_eq, sidesAt, hup]
      simp only [List.range, List.range.loop, List.map, List.getD_cons_zero, List.getD_cons_succ,
        Nat.reduceAdd, Nat.reduceSub, Nat.reduceMod, Nat.zero_add]
      rw [hs0.2, hs1.2, hs2.2, hs3.2]
      decide
    · rw [parameterData_eq, sidesAt, hup]
      simp only [List.range, List.range.loop, List.map, List.foldl, List.getD_cons_zero,
        List.getD_cons_succ, Nat.reduceAdd, Nat.reduceSub, Nat.reduceMod, Nat.zero_add]
      rw [hs0.1, hs1.1, hs2.1, hs3.1, hmsg]
      simp only [Nat.shiftLeft_eq, Bool.false_eq_true, if_false, if_true]
      omega

/-! ### the mode message fields -/

/-- the 4-bit words `getCorrectedParameterData` cuts the parameter word into -/
def paramWords (compact : Bool) (pd : Nat) : List Nat :=
  let n := if compact then 7 else 10
  (List.range n).map (fun i => (pd >>> (4 * (n - 1 - i))) &&& 0xF)

theorem correctedParameters_eq (rs : RSDecoder) (compact : Bool) (pd : Nat) :
    correctedParameters rs compact pd =
      (match rs 4 (paramWords compact pd) (if compact then 5 else 6) with
       | .error _ => .error .notFound
       | .ok ws =>
         let r := (ws.take (if compact then 2 else 4)).foldl (fun r w => (r <<< 4) + w) 0
         if compact then .ok ((r >>> 6) + 1, (r &&& 0x3F) + 1)
         else .ok ((r >>> 11) + 1, (r &&& 0x7FF) + 1)) := by
  cases compact <;> rfl

theorem and15 (n : Nat) : n &&& 0xF = n % 16 := Nat.and_two_pow_sub_one_eq_mod n 4
theorem and63 (n : Nat) : n &&& 0x3F = n % 64 := Nat.and_two_pow_sub_one_eq_mod n 6
theorem and2047 (n : Nat) : n &&& 0x7FF = n % 2048 := Nat.and_two_pow_sub_one_eq_mod n 11

/-- the mode message starts with its header bits -/
theorem modeMessage_compact_split (layers dw : Nat) :
    ∃ rest, modeMessage true layers dw = (toBits 2 (layers - 1) ++ toBits 6 (dw - 1)) ++ rest := by
  generalize hh : toBits 2 (layers - 1) ++ toBits 6 (dw - 1) = hdr
  have hlen : hdr.length = 8 := by rw [← hh]; simp [length_toBits]
  have h1 : (hdr.take 4).length = 4 := by simp [hlen]
  have h2 : (hdr.drop 4).length = 4 := by simp [hlen]
  have e1 := toBits_fromBits (hdr.take 4)
  have e2 := toBits_fromBits (hdr.drop 4)
  rw [h1] at e1
  rw [h2] at e2
  refine ⟨(rsParity 4 5 [fromBits (hdr.take 4), fromBits (hdr.drop 4)]).flatMap (toBits 4), ?_⟩
  simp only [modeMessage, if_true, hh, List.flatMap_append, List.flatMap_cons, List.flatMap_nil,
    List.append_nil, e1, e2]
  rw [List.take_append_drop]

theorem modeMessage_full_split (layers dw : Nat) :
    ∃ rest, modeMessage false layers dw = (toBits 5 (layers - 1) ++ toBits 11 (dw - 1)) ++ rest := by
  generalize hh : toBits 5 (layers - 1) ++ toBits 11 (dw - 1) = hdr
  have hlen : hdr.length = 16 := by rw [← hh]; simp [length_toBits]
  have h1 : (hdr.take 4).length = 4 := by simp [hlen]
  have h2 : ((hdr.drop 4).take 4).length = 4 := by simp [hlen]
  have h3 : ((hdr.drop 8).take 4).length = 4 := by simp [hlen]
  have h4 : (hdr.drop 12).length = 4 := by simp [hlen]
  have e1 := toBits_fromBits (hdr.take 4)
  have e2 := toBits_fromBits ((hdr.drop 4).take 4)
  have e3 := toBits_fromBits ((hdr.drop 8).take 4)
  have e4 := toBits_fromBits (hdr.drop 12)
  rw [h1] at e1
  rw [h2] at e2
  rw [h3] at e3
  rw [h4] at e4
  refine ⟨(rsParity 4 6 [fromBits (hdr.take 4), fromBits ((hdr.drop 4).take 4),
      fromBits ((hdr.drop 8).take 4), fromBits (hdr.drop 12)]).flatMap (toBits 4), ?_⟩
  simp only [modeMessage, Bool.false_eq_true, if_false, hh, List.flatMap_append, List.flatMap_cons,
    List.flatMap_nil, List.append_nil, e1, e2, e3, e4]
  have : hdr.take 4 ++ ((hdr.drop 4).take 4 ++ ((hdr.drop 8).take 4 ++ hdr.drop 12)) = hdr := by
    have a1 : (hdr.drop 8).take 4 ++ hdr.drop 12 = hdr.drop 8 := by
      have := List.take_append_drop 4 (hdr.drop 8)
      rwa [List.drop_drop] at this
    have a2 : (hdr.drop 4).take 4 ++ hdr.drop 8 = hdr.drop 4 := by
      have := List.take_append_drop 4 (hdr.drop 4)
      rwa [List.drop_drop] at this
    rw [a1, a2, List.take_append_drop]
  simp only [← List.append_assoc] at this ⊢
  rw [this]

/-- compact: the header fields are recovered from the parameter word -/
theorem mode_fields_compact (rs : RSDecoder) (layers dw : Nat)
    (hl : 1 ≤ layers ∧ layers ≤ 4) (hd : 1 ≤ dw ∧ dw ≤ 64)
    (hlen : (modeMessage true layers dw).length = 28)
    (hrs : rs 4 (paramWords true (fromBits (modeMessage true layers dw))) 5 =
      .ok (paramWords true (fromBits (modeMessage true layers dw)))) :
    correctedParameters rs true (fromBits (modeMessage true layers dw)) = .ok (layers, dw) := by
  obtain ⟨rest, hsplit⟩ := modeMessage_compact_split layers dw
  have hrl : rest.length = 20 := by
    have := congrArg List.length hsplit
    rw [hlen] at this
    simp [length_toBits] at this
    omega
  have hpd : fromBits (modeMessage true layers dw) =
      ((layers - 1) * 64 + (dw - 1)) * 2 ^ 20 + fromBits rest := by
    rw [hsplit, fromBits_append, fromBits_append, hrl, length_toBits,
      fromBits_toBits_of_lt 2 (layers - 1) (by omega), fromBits_toBits_of_lt 6 (dw - 1) (by omega)]
  have hrlt : fromBits rest < 2 ^ 20 := by
    have := fromBits_lt rest
    rwa [hrl] at this
  rw [correctedParameters_eq]
  simp only [if_true]
  rw [hrs]
  generalize fromBits (modeMessage true layers dw) = pd at hpd
  generalize fromBits rest = q at hpd hrlt
  simp only [paramWords, if_true, List.range, List.range.loop, List.map, List.take, List.foldl,
    Nat.shiftRight_eq_div_pow, Nat.shiftLeft_eq, and15, and63]
  have e1 : (0 * 2 ^ 4 + pd / 2 ^ (4 * (7 - 1 - 0)) % 16) * 2 ^ 4 +
      pd / 2 ^ (4 * (7 - 1 - 1)) % 16 = (layers - 1) * 64 + (dw - 1) := by
    simp only [Nat.reducePow, Nat.reduceMul, Nat.reduceSub] at hpd hrlt ⊢
    omega
  rw [e1]
  have e2 : ((layers - 1) * 64 + (dw - 1)) / 2 ^ 6 + 1 = layers := by omega
  have e3 : ((layers - 1) * 64 + (dw - 1)) % 64 + 1 = dw := by omega
  rw [e2, e3]

/-- full-range: the header fields are recovered from the parameter word -/
theorem mode_fields_full (rs : RSDecoder) (layers dw : Nat)
    (hl : 1 ≤ layers ∧ layers ≤ 32) (hd : 1 ≤ dw ∧ dw ≤ 2048)
    (hlen : (modeMessage false layers dw).length = 40)
    (hrs : rs 4 (paramWords false (fromBits (modeMessage false layers dw))) 6 =
      .ok (paramWords false (fromBits (modeMessage false layers dw)))) :
    correctedParameters rs false (fromBits (modeMessage false layers dw)) = .ok (layers, dw) := by
  obtain ⟨rest, hsplit⟩ := modeMessage_full_split layers dw
  have hrl : rest.length = 24 := by
    have := congrArg List.length hsplit
    rw [hlen] at this
    simp [length_toBits] at this
    omega
  have hpd : fromBits (modeMessage false layers dw) =
      ((layers - 1) * 2048 + (dw - 1)) * 2 ^ 24 + fromBits rest := by
    rw [hsplit, fromBits_append, fromBits_append, hrl, length_toBits,
      fromBits_toBits_of_lt 5 (layers - 1) (by omega), fromBits_toBits_of_lt 11 (dw - 1) (by omega)]
  have hrlt : fromBits rest < 2 ^ 24 := by
    have := fromBits_lt rest
    rwa [hrl] at this
  rw [correctedParameters_eq]
  simp only [Bool.false_eq_true, if_false]
  rw [hrs]
  generalize fromBits (modeMessage false layers dw) = pd at hpd
  generalize fromBits rest = q at hpd hrlt
  simp only [paramWords, Bool.false_eq_true, if_false, List.range, List.range.loop, List.map,
    List.take, List.foldl, Nat.shiftRight_eq_div_pow, Nat.shiftLeft_eq, and15, and2047]
  have e1 : (((0 * 2 ^ 4 + pd / 2 ^ (4 * (10 - 1 - 0)) % 16) * 2 ^ 4 +
      pd / 2 ^ (4 * (10 - 1 - 1)) % 16) * 2 ^ 4 + pd / 2 ^ (4 * (10 - 1 - 2)) % 16) * 2 ^ 4 +
      pd / 2 ^ (4 * (10 - 1 - 3)) % 16 = (layers - 1) * 2048 + (dw - 1) := by
    simp only [Nat.reducePow, Nat.reduceMul, Nat.reduceSub] at hpd hrlt ⊢
    omega
  rw [e1]
  have e2 : ((layers - 1) * 2048 + (dw - 1)) / 2 ^ 11 + 1 = layers := by omega
  have e3 : ((layers - 1) * 2048 + (dw - 1)) % 2048 + 1 = dw := by omega
  rw [e2, e3]

/-! ### length of the Reed-Solomon parity, hence of the mode message -/

theorem polyMulLin_size (gf : GF) (g : Array Nat) (r : Nat) : (polyMulLin gf g r).size = g.size + 1 := by
  simp [polyMulLin]

theorem genPoly_fold_size (gf : GF) (r : Nat → Nat) :
    ∀ (l : List Nat) (g : Array Nat),
      (l.foldl (fun g i => polyMulLin gf g (r i)) g).size = g.size + l.length := by
  intro l
  induction l with
  | nil => intro g; simp
  | cons i l ih => intro g; simp only [List.foldl_cons, ih, polyMulLin_size, List.length_cons]; omega

theorem genPoly_size (gf : GF) (n : Nat) : (genPoly gf n).size = n + 1 := by
  unfold genPoly
  rw [genPoly_fold_size gf (fun i => gf.exp.getD ((i + 1) % (2 ^ gf.w - 1)) 1)]
  simp
  omega

theorem rsParity_length (w n : Nat) (data : List Nat) : (rsParity w n data).length = n := by
  unfold rsParity
  simp only
  generalize hgl : ((genPoly (GF.make w) n).toList.drop 1) = gl
  have hgll : gl.length = n := by
    rw [← hgl]; simp [genPoly_size]
  have key : ∀ (data : List Nat) (rem : List Nat), rem.length = n →
      (data.foldl (fun (rem : List Nat) d =>
        List.zipWith (fun r gc => r ^^^ (GF.make w).mul (d ^^^ rem.headD 0) gc)
          (rem.drop 1 ++ [0]) gl) rem).length = n := by
    intro data
    induction data with
    | nil => intro rem h; simpa using h
    | cons d ds ih =>
      intro rem h
      simp only [List.foldl_cons]
      apply ih
      simp [List.length_zipWith, hgll, h]
      omega
  exact key data _ (by simp)

theorem modeMessage_length (compact : Bool) (layers dw : Nat) :
    (modeMessage compact layers dw).length = if compact then 28 else 40 := by
  have hfl : ∀ ws : List Nat, (ws.flatMap (toBits 4)).length = 4 * ws.length := by
    intro ws
    induction ws with
    | nil => rfl
    | cons x ws ih => simp [length_toBits, ih]; omega
  cases compact
  · simp only [modeMessage, Bool.false_eq_true, if_false, hfl, List.length_append, rsParity_length]
    simp
  · simp only [modeMessage, if_true, hfl, List.length_append, rsParity_length]
    simp

end Gzx.AztecMode
