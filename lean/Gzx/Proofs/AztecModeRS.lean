/-
  C11 mode message with the C04 Reed-Solomon decoder over GF(16) plugged in: the 4-bit words that
  `getCorrectedParameterData` cuts from the reference mode message are `header nibbles ++ rsParity 4 (5|6) …`,
  a code word of C04's code over `aztecParam`; hence the clean round trip and the tolerance of 2 (compact) /
  3 (full-range) wrong words.
-/
import Gzx.Proofs.AztecMode
import Gzx.Proofs.AztecRS
namespace Gzx.AztecModeRS
open Gzx Gzx.AztecDecoder Gzx.Ref.Aztec Gzx.AztecLink Gzx.AztecStuff Gzx.AztecMode Gzx.AztecRS
open Gzx.Properties.C04 (hamming)

/-- `n` 4-bit words of `pd`, most significant first -/
def digits16 (n pd : Nat) : List Nat := (List.range n).map (fun i => (pd >>> (4 * (n - 1 - i))) &&& 0xF)

theorem paramWords_eq (compact : Bool) (pd : Nat) :
    paramWords compact pd = digits16 (if compact then 7 else 10) pd := rfl

theorem digits16_snoc (n pd a : Nat) (ha : a < 16) :
    digits16 (n + 1) (pd * 16 + a) = digits16 n pd ++ [a] := by
  unfold digits16
  rw [List.range_succ, List.map_append]
  congr 1
  · apply List.map_congr_left
    intro i hi
    have hi' : i < n := List.mem_range.1 hi
    have e : 4 * (n + 1 - 1 - i) = 4 * (n - 1 - i) + 4 := by omega
    rw [e, and15, and15, Nat.shiftRight_eq_div_pow, Nat.shiftRight_eq_div_pow, Nat.pow_add,
      Nat.mul_comm (2 ^ (4 * (n - 1 - i))) (2 ^ 4), ← Nat.div_div_eq_div_mul]
    congr 2
    omega
  · simp only [List.map_cons, List.map_nil, and15, Nat.shiftRight_eq_div_pow]
    have : 4 * (n + 1 - 1 - n) = 0 := by omega
    rw [this]
    simp
    omega

/-- cutting the concatenated 4-bit words gives the words back -/
theorem digits16_flatMap (ws : List Nat) : (∀ x ∈ ws, x < 16) →
    digits16 ws.length (fromBits (ws.flatMap (toBits 4))) = ws := by
  induction ws using snoc_ind with
  | nil => intro _; rfl
  | append_singleton ws a ih =>
    intro h
    have ha : a < 16 := h a (by simp)
    have hws : ∀ x ∈ ws, x < 16 := fun x hx => h x (by simp [hx])
    rw [List.flatMap_append, fromBits_append]
    simp only [List.flatMap_cons, List.flatMap_nil, List.append_nil, length_toBits, List.length_append,
      List.length_cons, List.length_nil]
    rw [fromBits_toBits_of_lt 4 a ha]
    show digits16 (ws.length + 1) (fromBits (ws.flatMap (toBits 4)) * 16 + a) = ws ++ [a]
    rw [digits16_snoc _ _ _ ha, ih hws]

/-- header nibbles of the mode message -/
def headerNibbles (compact : Bool) (layers dw : Nat) : List Nat :=
  let hdr := if compact then toBits 2 (layers - 1) ++ toBits 6 (dw - 1)
             else toBits 5 (layers - 1) ++ toBits 11 (dw - 1)
  if compact then [fromBits (hdr.take 4), fromBits (hdr.drop 4)]
  else [fromBits (hdr.take 4), fromBits ((hdr.drop 4).take 4),
        fromBits ((hdr.drop 8).take 4), fromBits (hdr.drop 12)]

theorem modeMessage_eq (compact : Bool) (layers dw : Nat) :
    modeMessage compact layers dw =
      (headerNibbles compact layers dw ++
        rsParity 4 (if compact then 5 else 6) (headerNibbles compact layers dw)).flatMap (toBits 4) := rfl

theorem fromBits_lt16 (bs : List Bool) (h : bs.length ≤ 4) : fromBits bs < 16 :=
  Nat.lt_of_lt_of_le (fromBits_lt bs) (Nat.pow_le_pow_right (by omega) h)

theorem headerNibbles_lt (compact : Bool) (layers dw : Nat) : ∀ x ∈ headerNibbles compact layers dw, x < 2 ^ 4 := by
  intro x hx
  cases compact
  · simp only [headerNibbles, Bool.false_eq_true, if_false, List.mem_cons, List.not_mem_nil, or_false] at hx
    rcases hx with rfl | rfl | rfl | rfl <;> apply fromBits_lt16 <;> simp [length_toBits] <;> omega
  · simp only [headerNibbles, if_true, List.mem_cons, List.not_mem_nil, or_false] at hx
    rcases hx with rfl | rfl <;> apply fromBits_lt16 <;> simp [length_toBits] <;> omega

theorem headerNibbles_length (compact : Bool) (layers dw : Nat) :
    (headerNibbles compact layers dw).length = if compact then 2 else 4 := by
  cases compact <;> rfl

theorem wordOK4 : WordOK 4 := Or.inl rfl

/-- **the words `getCorrectedParameterData` hands to the Reed-Solomon decoder are header nibbles followed by
    their reference check nibbles** -/
theorem paramWords_ref (compact : Bool) (layers dw : Nat) :
    paramWords compact (fromBits (modeMessage compact layers dw)) =
      headerNibbles compact layers dw ++
        rsParity 4 (if compact then 5 else 6) (headerNibbles compact layers dw) := by
  have hlt : ∀ x ∈ headerNibbles compact layers dw ++
      rsParity 4 (if compact then 5 else 6) (headerNibbles compact layers dw), x < 16 := by
    have := (rsParity_codeword 4 wordOK4 (if compact then 5 else 6) (headerNibbles compact layers dw)
      (headerNibbles_lt compact layers dw)).1
    intro x hx
    have h := this x hx
    rwa [gfOf_size 4 wordOK4] at h
  have hlen : (headerNibbles compact layers dw ++
      rsParity 4 (if compact then 5 else 6) (headerNibbles compact layers dw)).length =
      if compact then 7 else 10 := by
    rw [List.length_append, rsParity_length, headerNibbles_length]
    cases compact <;> rfl
  rw [paramWords_eq, modeMessage_eq, ← hlen]
  exact digits16_flatMap _ hlt

/-- the clean mode message passes the C04 decoder over GF(16) unchanged -/
theorem mode_rs_clean (compact : Bool) (layers dw : Nat) :
    rsModel 4 (paramWords compact (fromBits (modeMessage compact layers dw))) (if compact then 5 else 6) =
      .ok (paramWords compact (fromBits (modeMessage compact layers dw))) := by
  rw [paramWords_ref]
  exact rsModel_clean 4 wordOK4 _ _ (by cases compact <;> simp [headerNibbles])
    (headerNibbles_lt compact layers dw) (by cases compact <;> decide)

theorem digits16_lt (n pd : Nat) : ∀ x ∈ digits16 n pd, x < 2 ^ 4 := by
  intro x hx
  unfold digits16 at hx
  obtain ⟨i, _, rfl⟩ := List.mem_map.1 hx
  rw [and15]
  omega

/-- any parameter word whose 4-bit words differ from the reference mode message's in at most 2 (compact) /
    3 (full-range) positions is corrected to it -/
theorem mode_rs_corrects (compact : Bool) (layers dw pd' : Nat)
    (hdam : hamming (paramWords compact (fromBits (modeMessage compact layers dw))) (paramWords compact pd') ≤
      (if compact then 2 else 3)) :
    rsModel 4 (paramWords compact pd') (if compact then 5 else 6) =
      .ok (paramWords compact (fromBits (modeMessage compact layers dw))) := by
  rw [paramWords_ref] at hdam ⊢
  apply rsModel_corrects 4 wordOK4 _ _ _ (by cases compact <;> simp [headerNibbles])
    (headerNibbles_lt compact layers dw)
  · rw [headerNibbles_length]; cases compact <;> decide
  · rw [headerNibbles_length, paramWords_eq]; cases compact <;> simp [digits16]
  · rw [paramWords_eq]; exact digits16_lt _ _
  · cases compact <;> simp at hdam ⊢ <;> omega

/-- `correctedParameters` only looks at what the Reed-Solomon decoder returns -/
theorem correctedParameters_of_rs (rs : RSDecoder) (compact : Bool) (pd' : Nat) (ws : List Nat)
    (h : rs 4 (paramWords compact pd') (if compact then 5 else 6) = .ok ws) :
    correctedParameters rs compact pd' = correctedParameters (fun _ _ _ => .ok ws) compact 0 := by
  rw [correctedParameters_eq, correctedParameters_eq, h]

end Gzx.AztecModeRS
