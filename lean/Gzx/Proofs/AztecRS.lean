/-
  C11 ↔ C04, part 2: the Reed-Solomon check words of the REFERENCE Aztec encoder (`Ref.Aztec.rsParity`:
  generator polynomial `(x-α)(x-α²)…(x-αⁿ)` built with `polyMulLin`, LFSR long division) make `data ++ parity`
  a word with zero syndromes `S_0 … S_{n-1}` over C04's model field, for every codeword size, every `n` and every
  data word over the field.  Hence (`rs_encode_unique`) they ARE what the model of the library's encoder
  computes, the model decoder returns the reference codeword unchanged (`rs_decode_clean`) and restores it from
  ≤ ⌊n/2⌋ wrong words (`rs_corrects_received`).  Algebraic: nothing here enumerates field elements.
-/
import Gzx.Proofs.AztecGF
import Gzx.Proofs.AztecMode
import Gzx.Model.AztecRS
import Gzx.Properties.C04
namespace Gzx.AztecRS
open Gzx Gzx.GF Gzx.Ref.GF Gzx.Proofs.GF Gzx.Proofs.GF2 Gzx.Proofs.Poly Gzx.Ref.Aztec

/-! ## list form of `polyMulLin` -/

theorem mapA (G : List Nat) :
    (List.range (G.length + 1)).map (fun i => if i < G.length then G.getD i 0 else 0) = G ++ [0] := by
  apply List.ext_getElem?
  intro i
  simp only [List.getElem?_map, List.getD_eq_getElem?_getD]
  by_cases h : i < G.length
  · rw [List.getElem?_range (by omega)]
    simp [h, List.getElem?_append_left h]
  · by_cases h2 : i = G.length
    · subst h2
      simp
    · rw [List.getElem?_eq_none (by simp; omega), List.getElem?_eq_none (by simp; omega)]
      rfl

theorem mapB (m : Nat → Nat) (G : List Nat) :
    (List.range (G.length + 1)).map (fun i => if i ≥ 1 then m (G.getD (i - 1) 0) else 0) = 0 :: G.map m := by
  apply List.ext_getElem?
  intro i
  cases i with
  | zero => simp
  | succ i =>
    simp only [List.getElem?_map, List.getElem?_cons_succ, List.getD_eq_getElem?_getD]
    by_cases h : i < G.length
    · rw [List.getElem?_range (by omega)]
      simp [h]
    · rw [List.getElem?_eq_none (by simp; omega), List.getElem?_eq_none (by omega)]
      rfl

/-- `g · (x + r)`: `g·x` xor-ed with `r·g` -/
theorem polyMulLin_toList (gf : Ref.Aztec.GF) (g : Array Nat) (r : Nat) :
    (polyMulLin gf g r).toList =
      List.zipWith (· ^^^ ·) (g.toList ++ [0]) (0 :: g.toList.map (gf.mul · r)) := by
  rw [← mapA, ← mapB (gf.mul · r), List.zipWith_map_left, List.zipWith_map_right, List.zipWith_self]
  unfold polyMulLin
  simp only [Array.toList_map, Array.toList_range, Array.length_toList, Array.getD_eq_getD_getElem?,
    List.getD_eq_getElem?_getD, Array.getElem?_toList]

/-! ## evaluation lemmas over an arbitrary C04 field -/

section algebra
variable {prim size : Nat} (ok : ParamsOK prim size)
include ok

theorem evalH_single_zero (a : Nat) : evalH prim a [0] = 0 := by
  unfold evalH
  rw [evalFrom_cons, evalFrom_nil, gmul_zero_right ok, Nat.xor_zero]

theorem gpow_one (a : Nat) (ha : a < size) : gpow prim a 1 = a := by
  show gmul prim 1 a = a
  exact gmul_one_left ok a ha

theorem evalH_shift (a : Nat) (ha : a < size) (G : List Nat) (hG : InR size G) :
    evalH prim a (G ++ [0]) = gmul prim a (evalH prim a G) := by
  rw [evalH_append ok a ha G [0] hG (InR.cons (zero_lt_size ok) InR.nil), evalH_single_zero ok, Nat.xor_zero]
  show gmul prim (gpow prim a 1) _ = _
  rw [gpow_one ok a ha]

theorem evalH_xor (a : Nat) (cs ds : List Nat) (hl : cs.length = ds.length) (hc : InR size cs)
    (hd : InR size ds) :
    evalH prim a (List.zipWith (· ^^^ ·) cs ds) = evalH prim a cs ^^^ evalH prim a ds := by
  have := evalFrom_xor ok a cs ds 0 0 hl (zero_lt_size ok) (zero_lt_size ok) hc hd
  rw [Nat.xor_zero] at this
  exact this

theorem evalH_map_right (a s : Nat) (ha : a < size) (hs : s < size) (cs : List Nat) (hc : InR size cs) :
    evalH prim a (cs.map (fun c => gmul prim c s)) = gmul prim s (evalH prim a cs) := by
  rw [← evalH_scale ok a s ha hs cs hc]
  congr 1
  apply List.map_congr_left
  intro c hcm
  exact gmul_comm ok c s (hc c hcm) hs

/-- value of `g·(x + r)` -/
theorem evalH_mulLin (a r : Nat) (ha : a < size) (hr : r < size) (G : List Nat) (hG : InR size G) :
    evalH prim a (List.zipWith (· ^^^ ·) (G ++ [0]) (0 :: G.map (fun c => gmul prim c r))) =
      gmul prim a (evalH prim a G) ^^^ gmul prim r (evalH prim a G) := by
  rw [evalH_xor ok a _ _ (by simp) (InR.append hG (InR.cons (zero_lt_size ok) InR.nil))
    (InR.cons (zero_lt_size ok) (InR_map_gmul' ok r G)), evalH_shift ok a ha G hG, evalH_zero_cons ok,
    evalH_map_right ok a r ha hr G hG]

/-- a monic polynomial `x^n + gl` vanishing at `a`: `gl(a) = a^n` -/
theorem evalH_tail_of_root (a : Nat) (ha : a < size) (gl : List Nat) (hgl : InR size gl)
    (hroot : evalH prim a (1 :: gl) = 0) : evalH prim a gl = gpow prim a gl.length := by
  have h1 : evalH prim a (1 :: gl) = evalFrom prim a 1 gl := by
    unfold evalH
    rw [evalFrom_cons, gmul_zero_right ok, Nat.zero_xor]
  rw [h1, evalFrom_split ok a ha gl 1 (one_lt_size ok) hgl, gmul_one_right ok _ (gpow_lt ok a _)] at hroot
  exact (xor_eq_zero hroot).symm

omit ok in
theorem xor_rot (x y z : Nat) : (x ^^^ y) ^^^ z = y ^^^ (z ^^^ x) := by
  apply Nat.eq_of_testBit_eq; intro i
  simp only [Nat.testBit_xor]
  cases x.testBit i <;> cases y.testBit i <;> cases z.testBit i <;> rfl

/-- one LFSR step keeps `a^n · (value of the data read so far) = value of the register` at every root `a` of
    the generator -/
theorem lfsr_step_eval (a : Nat) (ha : a < size) (gl : List Nat) (hgl : InR size gl)
    (hroot : evalH prim a (1 :: gl) = 0) (rem : List Nat) (hlen : rem.length = gl.length)
    (hrem : InR size rem) (d acc : Nat) (hd : d < size) (hacc : acc < size)
    (hinv : gmul prim (gpow prim a gl.length) acc = evalH prim a rem) :
    let rem' := List.zipWith (· ^^^ ·) (rem.drop 1 ++ [0]) (gl.map (gmul prim (d ^^^ rem.headD 0)))
    rem'.length = gl.length ∧ InR size rem' ∧
      gmul prim (gpow prim a gl.length) (gmul prim a acc ^^^ d) = evalH prim a rem' := by
  intro rem'
  have hEgl := evalH_tail_of_root ok a ha gl hgl hroot
  cases rem with
  | nil =>
    exfalso
    have : gl = [] := List.eq_nil_of_length_eq_zero (by simpa using hlen.symm)
    subst this
    have h1 : evalH prim a [1] = 1 := by
      unfold evalH
      rw [evalFrom_cons, evalFrom_nil, gmul_zero_right ok, Nat.zero_xor]
    rw [h1] at hroot
    exact absurd hroot (by decide)
  | cons r0 rs =>
    have hr0 : r0 < size := hrem.head
    have hrs : InR size rs := hrem.tail
    have hfb : d ^^^ r0 < size := xor_lt_size ok d r0 hd hr0
    have hS : InR size (rs ++ [0]) := InR.append hrs (InR.cons (zero_lt_size ok) InR.nil)
    have hM : InR size (gl.map (gmul prim (d ^^^ r0))) := InR_map_gmul ok _ gl
    have hn : gl.length = rs.length + 1 := by simpa using hlen.symm
    have hP : gpow prim a gl.length = gmul prim (gpow prim a rs.length) a := by rw [hn]; rfl
    have hQ := gpow_lt ok a rs.length
    have hPlt := gpow_lt ok a gl.length
    have hErs := evalH_lt ok a rs hrs
    refine ⟨by simp [rem', hn], InR_zipWith_xor ok _ _ hS hM, ?_⟩
    show _ = evalH prim a (List.zipWith (· ^^^ ·) (rs ++ [0]) (gl.map (gmul prim (d ^^^ r0))))
    rw [evalH_xor ok a _ _ (by simp [hn]) hS hM, evalH_shift ok a ha rs hrs,
      evalH_scale ok a _ ha hfb gl hgl, hEgl]
    -- the invariant, unfolded at the head of the register
    have hinv' : gmul prim (gpow prim a gl.length) acc =
        gmul prim (gpow prim a rs.length) r0 ^^^ evalH prim a rs := by
      rw [hinv]
      have : evalH prim a (r0 :: rs) = evalFrom prim a r0 rs := by
        unfold evalH
        rw [evalFrom_cons, gmul_zero_right ok, Nat.zero_xor]
      rw [this, evalFrom_split ok a ha rs r0 hr0 hrs]
    -- left-hand side
    have hmacc := gmul_lt ok a acc
    rw [gmul_xor_right ok _ _ _ hmacc hd,
      ← gmul_assoc ok _ a acc hPlt ha hacc, gmul_comm ok _ a hPlt ha,
      gmul_assoc ok a _ acc ha hPlt hacc, hinv',
      gmul_xor_right ok a _ _ (gmul_lt ok _ _) hErs,
      ← gmul_assoc ok a _ r0 ha hQ hr0, gmul_comm ok a _ ha hQ, ← hP,
      gmul_xor_left ok d r0 _ hd hr0 hPlt,
      gmul_comm ok d _ hd hPlt, gmul_comm ok r0 _ hr0 hPlt]
    exact xor_rot _ _ _

/-- the whole LFSR run -/
theorem lfsr_fold_eval (a : Nat) (ha : a < size) (gl : List Nat) (hgl : InR size gl)
    (hroot : evalH prim a (1 :: gl) = 0) : ∀ (data rem : List Nat) (acc : Nat),
    rem.length = gl.length → InR size rem → InR size data → acc < size →
    gmul prim (gpow prim a gl.length) acc = evalH prim a rem →
    let rem' := data.foldl (fun (rem : List Nat) d =>
      List.zipWith (· ^^^ ·) (rem.drop 1 ++ [0]) (gl.map (gmul prim (d ^^^ rem.headD 0)))) rem
    rem'.length = gl.length ∧ InR size rem' ∧
      gmul prim (gpow prim a gl.length) (evalFrom prim a acc data) = evalH prim a rem'
  | [], rem, acc, hlen, hrem, _, _, hinv => ⟨hlen, hrem, hinv⟩
  | d :: ds, rem, acc, hlen, hrem, hdata, hacc, hinv => by
    obtain ⟨h1, h2, h3⟩ := lfsr_step_eval ok a ha gl hgl hroot rem hlen hrem d acc hdata.head hacc hinv
    exact lfsr_fold_eval a ha gl hgl hroot ds _ _ h1 h2 hdata.tail
      (xor_lt_size ok _ _ (gmul_lt ok _ _) hdata.head) h3

end algebra

/-! ## the reference generator polynomial and check words -/

section ref
variable {w : Nat} (ok : ParamsOK (primPoly w) (2 ^ w)) (hw : 2 ≤ w)
include ok hw

/-- the `i`-th root the reference encoder uses is `α^(i+1)` -/
theorem genRoot (i : Nat) :
    (GF.make w).exp.getD ((i + 1) % (2 ^ (GF.make w).w - 1)) 1 = pw (primPoly w) (2 ^ w) (i + 1) := by
  have hwf : (GF.make w).w = w := rfl
  have hs : 0 < 2 ^ w - 1 := by have := one_lt_size ok; omega
  rw [hwf, make_exp ok hw _ (Nat.mod_lt _ hs) 1, pw_mod ok]

theorem genPoly_succ (n : Nat) :
    genPoly (GF.make w) (n + 1) =
      polyMulLin (GF.make w) (genPoly (GF.make w) n) (pw (primPoly w) (2 ^ w) (n + 1)) := by
  unfold genPoly
  rw [List.range_succ, List.foldl_append]
  simp only [List.foldl_cons, List.foldl_nil]
  rw [genRoot ok hw n]

/-- the generator polynomial is monic of degree `n`, over the field, and vanishes at `α^1 … α^n` -/
theorem genPoly_spec : ∀ (n : Nat), ∃ gl, (genPoly (GF.make w) n).toList = 1 :: gl ∧ gl.length = n ∧
    InR (2 ^ w) gl ∧ ∀ j, j < n → evalH (primPoly w) (pw (primPoly w) (2 ^ w) (j + 1)) (1 :: gl) = 0
  | 0 => ⟨[], rfl, rfl, InR.nil, fun j hj => by omega⟩
  | n + 1 => by
    obtain ⟨gl, h1, h2, h3, h4⟩ := genPoly_spec n
    have hG : InR (2 ^ w) (1 :: gl) := InR.cons (one_lt_size ok) h3
    have hr : pw (primPoly w) (2 ^ w) (n + 1) < 2 ^ w := pw_lt ok _
    have hmap : (1 :: gl).map ((GF.make w).mul · (pw (primPoly w) (2 ^ w) (n + 1))) =
        (1 :: gl).map (fun c => gmul (primPoly w) c (pw (primPoly w) (2 ^ w) (n + 1))) :=
      List.map_congr_left (fun c hc => make_mul ok hw c _ (hG c hc) hr)
    have hlist : (genPoly (GF.make w) (n + 1)).toList =
        List.zipWith (· ^^^ ·) ((1 :: gl) ++ [0])
          (0 :: (1 :: gl).map (fun c => gmul (primPoly w) c (pw (primPoly w) (2 ^ w) (n + 1)))) := by
      rw [genPoly_succ ok hw n, polyMulLin_toList, h1, hmap]
    have hInR : InR (2 ^ w) (List.zipWith (· ^^^ ·) ((1 :: gl) ++ [0])
          (0 :: (1 :: gl).map (fun c => gmul (primPoly w) c (pw (primPoly w) (2 ^ w) (n + 1))))) :=
      InR_zipWith_xor ok _ _ (InR.append hG (InR.cons (zero_lt_size ok) InR.nil))
        (InR.cons (zero_lt_size ok) (InR_map_gmul' ok _ _))
    refine ⟨List.zipWith (· ^^^ ·) (gl ++ [0])
      ((1 :: gl).map (fun c => gmul (primPoly w) c (pw (primPoly w) (2 ^ w) (n + 1)))), ?_, ?_, ?_, ?_⟩
    · rw [hlist]; rfl
    · simp [h2]
    · exact fun c hc => hInR c (List.mem_cons_of_mem _ hc)
    · intro j hj
      have hcons : (1 : Nat) :: List.zipWith (· ^^^ ·) (gl ++ [0])
          ((1 :: gl).map (fun c => gmul (primPoly w) c (pw (primPoly w) (2 ^ w) (n + 1)))) =
          List.zipWith (· ^^^ ·) ((1 :: gl) ++ [0])
          (0 :: (1 :: gl).map (fun c => gmul (primPoly w) c (pw (primPoly w) (2 ^ w) (n + 1)))) := rfl
      rw [hcons, evalH_mulLin ok _ _ (pw_lt ok _) hr _ hG]
      by_cases hjn : j = n
      · subst hjn
        exact Nat.xor_self _
      · rw [h4 j (by omega), gmul_zero_right ok, gmul_zero_right ok]
        rfl

/-- **zero syndromes**: `data ++ rsParity w n data` vanishes at `α^1 … α^n` -/
theorem rsParity_roots (n : Nat) (data : List Nat) (hd : InR (2 ^ w) data) :
    InR (2 ^ w) (rsParity w n data) ∧
    ∀ j, j < n → evalH (primPoly w) (pw (primPoly w) (2 ^ w) (j + 1)) (data ++ rsParity w n data) = 0 := by
  obtain ⟨gl, h1, h2, h3, h4⟩ := genPoly_spec ok hw n
  -- the reference LFSR with C04's product
  have hpar : ∀ (data rem : List Nat), InR (2 ^ w) data → InR (2 ^ w) rem → rem.length = gl.length →
      data.foldl (fun (rem : List Nat) d =>
        List.zipWith (fun r gc => r ^^^ (GF.make w).mul (d ^^^ rem.headD 0) gc) (rem.drop 1 ++ [0]) gl) rem =
      data.foldl (fun (rem : List Nat) d =>
        List.zipWith (· ^^^ ·) (rem.drop 1 ++ [0]) (gl.map (gmul (primPoly w) (d ^^^ rem.headD 0)))) rem := by
    intro data
    induction data with
    | nil => intro rem _ _ _; rfl
    | cons d ds ih =>
      intro rem hdd hrem hlen
      simp only [List.foldl_cons]
      have hfb : d ^^^ rem.headD 0 < 2 ^ w := by
        apply xor_lt_size ok _ _ hdd.head
        cases rem with
        | nil => exact zero_lt_size ok
        | cons r0 _ => exact hrem.head
      have hstep : List.zipWith (fun r gc => r ^^^ (GF.make w).mul (d ^^^ rem.headD 0) gc) (rem.drop 1 ++ [0]) gl =
          List.zipWith (· ^^^ ·) (rem.drop 1 ++ [0]) (gl.map (gmul (primPoly w) (d ^^^ rem.headD 0))) := by
        have : gl.map (gmul (primPoly w) (d ^^^ rem.headD 0)) = gl.map ((GF.make w).mul (d ^^^ rem.headD 0)) :=
          List.map_congr_left (fun c hc => (make_mul ok hw _ c hfb (h3 c hc)).symm)
        rw [this, List.zipWith_map_right]
      rw [hstep]
      apply ih _ hdd.tail
      · exact InR_zipWith_xor ok _ _ (InR.append hrem.drop (InR.cons (zero_lt_size ok) InR.nil))
          (InR_map_gmul ok _ gl)
      · simp only [List.length_zipWith, List.length_append, List.length_drop, List.length_map,
          List.length_cons, List.length_nil]
        cases rem with
        | nil => simp at hlen ⊢; omega
        | cons _ _ => simp at hlen ⊢; omega
  have hrs : rsParity w n data = data.foldl (fun (rem : List Nat) d =>
        List.zipWith (· ^^^ ·) (rem.drop 1 ++ [0]) (gl.map (gmul (primPoly w) (d ^^^ rem.headD 0))))
        (List.replicate n 0) := by
    have hgl : (genPoly (GF.make w) n).toList.drop 1 = gl := by rw [h1]; rfl
    rw [← hpar data _ hd (InR.replicate (zero_lt_size ok)) (by simp [h2])]
    unfold rsParity
    simp only [hgl]
  have hzl : (List.replicate n 0).length = gl.length := by simp [h2]
  have hInR : InR (2 ^ w) (rsParity w n data) := by
    by_cases hn : n = 0
    · subst hn
      have : (rsParity w 0 data).length = 0 := Gzx.AztecMode.rsParity_length w 0 data
      rw [List.eq_nil_of_length_eq_zero this]; exact InR.nil
    · have hroot0 := h4 0 (by omega)
      have := lfsr_fold_eval ok _ (pw_lt ok _) gl h3 hroot0 data (List.replicate n 0) 0 hzl
        (InR.replicate (zero_lt_size ok)) hd (zero_lt_size ok) (by
          rw [gmul_zero_right ok]
          have := evalFrom_zeros ok (pw (primPoly w) (2 ^ w) (0 + 1)) (pw_lt ok _) n 0 (zero_lt_size ok)
          rw [gmul_zero_right ok] at this
          exact this.symm)
      rw [hrs]
      exact this.2.1
  refine ⟨hInR, ?_⟩
  intro j hj
  have ha := pw_lt ok (j + 1)
  have hfold := lfsr_fold_eval ok _ ha gl h3 (h4 j hj) data (List.replicate n 0) 0 hzl
    (InR.replicate (zero_lt_size ok)) hd (zero_lt_size ok) (by
      rw [gmul_zero_right ok]
      have := evalFrom_zeros ok (pw (primPoly w) (2 ^ w) (j + 1)) ha n 0 (zero_lt_size ok)
      rw [gmul_zero_right ok] at this
      exact this.symm)
  rw [← hrs] at hfold
  obtain ⟨hl, _, hev⟩ := hfold
  rw [evalH_append ok _ ha data _ hd hInR, hl, ← hev]
  exact Nat.xor_self _

end ref

/-! ## the link to C04 -/

open Gzx.AztecDecoder Gzx.Properties.C04

/-- the field `correctBits` / `getCorrectedParameterData` select is the field of the reference encoder -/
theorem gfOf_eq (w : Nat) (h : WordOK w) : gfOf w = mk' (primPoly w) (2 ^ w) 1 := by
  rcases h with rfl | rfl | rfl | rfl | rfl <;> rfl

theorem gfOf_ok (w : Nat) (h : WordOK w) : FieldOK (gfOf w) := by
  rw [gfOf_eq w h]; exact fieldOK_mk' (paramsOK w h)

theorem gfOf_prim (w : Nat) (h : WordOK w) : (gfOf w).prim = primPoly w := by rw [gfOf_eq w h]; rfl
theorem gfOf_size (w : Nat) (h : WordOK w) : (gfOf w).size = 2 ^ w := by rw [gfOf_eq w h]; rfl
theorem gfOf_base (w : Nat) (h : WordOK w) : (gfOf w).base = 1 := by rw [gfOf_eq w h]; rfl

theorem wordOK_two_le (w : Nat) (h : WordOK w) : 2 ≤ w := by
  rcases h with rfl | rfl | rfl | rfl | rfl <;> decide

/-- **`data ++ rsParity w n data` is a code word of C04's code** (in the field, zero syndromes `S_0 … S_{n-1}`),
    for each of the five codeword sizes, every number `n` of check words and every data word over the field -/
theorem rsParity_codeword (w : Nat) (h : WordOK w) (n : Nat) (data : List Nat) (hd : ∀ x ∈ data, x < 2 ^ w) :
    InField (gfOf w) (data ++ rsParity w n data) ∧ ZeroSyndromes (gfOf w) (data ++ rsParity w n data) n := by
  obtain ⟨h1, h2⟩ := rsParity_roots (paramsOK w h) (wordOK_two_le w h) n data hd
  constructor
  · intro x hx
    rw [gfOf_size w h]
    exact InR.append hd h1 x hx
  · intro i hi
    rw [alpha_eq_pw _ (gfOf_ok w h), gfOf_prim w h, gfOf_size w h, gfOf_base w h]
    exact h2 i hi

/-- **the reference check words are what the model of the library's Reed-Solomon ENCODER computes**
    (`ReedSolomonEncoder.Encode` over the same field; the library has no Aztec writer, so this only says that
    the reference encoder and common/reedsolomon agree on the code) -/
theorem rsParity_eq_rs_encode (w : Nat) (h : WordOK w) (n : Nat) (data : List Nat) (hne : data ≠ [])
    (hn : 0 < n) (hd : ∀ x ∈ data, x < 2 ^ w) (hlen : data.length + n ≤ 2 ^ w - 1) :
    Gzx.RS.encode (gfOf w) data n = .ok (rsParity w n data) := by
  obtain ⟨h1, h2⟩ := rsParity_codeword w h n data hd
  have hs := gfOf_size w h
  have hb := gfOf_base w h
  exact rs_encode_unique (gfOf w) (gfOf_ok w h) data (rsParity w n data) n hne hn
    (fun x hx => h1 x (List.mem_append_left _ hx)) (fun x hx => h1 x (List.mem_append_right _ hx))
    (Gzx.AztecMode.rsParity_length w n data) (by rw [hs]; exact hlen) (by rw [hs, hb]; omega) h2

/-- the model decoder returns a reference code word unchanged -/
theorem rsModel_clean (w : Nat) (h : WordOK w) (n : Nat) (data : List Nat) (hne : data ≠ [])
    (hd : ∀ x ∈ data, x < 2 ^ w) (hn : n + 1 ≤ 2 ^ w) :
    rsModel w (data ++ rsParity w n data) n = .ok (data ++ rsParity w n data) := by
  obtain ⟨h1, h2⟩ := rsParity_codeword w h n data hd
  unfold rsModel
  exact rs_decode_clean (gfOf w) (gfOf_ok w h) _ n (by simp [hne]) h1
    (by rw [gfOf_size w h, gfOf_base w h]; exact hn) h2

/-- the model decoder restores a reference code word from any received word over the field that differs from
    it in at most ⌊n/2⌋ positions -/
theorem rsModel_corrects (w : Nat) (h : WordOK w) (n : Nat) (data v : List Nat) (hne : data ≠ [])
    (hd : ∀ x ∈ data, x < 2 ^ w) (hlen : data.length + n ≤ 2 ^ w - 1)
    (hvl : v.length = data.length + n) (hv : ∀ x ∈ v, x < 2 ^ w)
    (hham : 2 * hamming (data ++ rsParity w n data) v ≤ n) :
    rsModel w v n = .ok (data ++ rsParity w n data) := by
  obtain ⟨h1, h2⟩ := rsParity_codeword w h n data hd
  have hs := gfOf_size w h
  have hb := gfOf_base w h
  have hcl : (data ++ rsParity w n data).length = data.length + n := by
    rw [List.length_append, Gzx.AztecMode.rsParity_length]
  unfold rsModel
  exact rs_corrects_received (gfOf w) (gfOf_ok w h) (by rw [hb]; omega) _ v n (by rw [hcl, hvl])
    (by rw [hcl, hs]; exact hlen) h1 (by intro x hx; rw [hs]; exact hv x hx) h2 (by simp [hne])
    (by rw [hs, hb]; have := List.length_pos_iff.2 hne; omega) hham

end Gzx.AztecRS
