/-
  C11 bit-level lemmas: toBits/fromBits/readCode/wordBits, and bit stuffing (reference) vs
  un-stuffing (decoder model).
-/
import Gzx.Proofs.AztecLink
namespace Gzx.AztecStuff
open Gzx Gzx.AztecDecoder Gzx.Ref.Aztec

/-- induction from the right end of a list -/
theorem snoc_ind {α} {P : List α → Prop} (nil : P [])
    (append_singleton : ∀ l a, P l → P (l ++ [a])) : ∀ l, P l := by
  intro l
  have h : ∀ r : List α, P r.reverse := by
    intro r
    induction r with
    | nil => exact nil
    | cons a r ih => rw [List.reverse_cons]; exact append_singleton _ _ ih
  have h' := h l.reverse
  rwa [List.reverse_reverse] at h'

/-! ### fromBits / readCode -/

theorem readCode_eq_fromBits (bs : List Bool) : readCode bs = fromBits bs := rfl

theorem fromBits_append_single (bs : List Bool) (x : Bool) :
    fromBits (bs ++ [x]) = 2 * fromBits bs + (if x then 1 else 0) := by
  simp [fromBits, List.foldl_append]

theorem foldl_shift (bs : List Bool) (a : Nat) :
    bs.foldl (fun acc b => 2 * acc + (if b then 1 else 0)) a =
      a * 2 ^ bs.length + bs.foldl (fun acc b => 2 * acc + (if b then 1 else 0)) 0 := by
  induction bs generalizing a with
  | nil => simp
  | cons b bs ih =>
    simp only [List.foldl_cons, List.length_cons]
    rw [ih (2 * a + _), ih (2 * 0 + _)]
    rw [Nat.pow_succ]
    cases b <;> simp <;> grind

theorem fromBits_append (xs ys : List Bool) :
    fromBits (xs ++ ys) = fromBits xs * 2 ^ ys.length + fromBits ys := by
  unfold fromBits
  rw [List.foldl_append, foldl_shift]

theorem fromBits_lt (bs : List Bool) : fromBits bs < 2 ^ bs.length := by
  induction bs using snoc_ind with
  | nil => simp [fromBits]
  | append_singleton bs x ih =>
    rw [fromBits_append_single, List.length_append, List.length_singleton, Nat.pow_succ]
    cases x <;> simp <;> omega

theorem length_toBits (w n : Nat) : (toBits w n).length = w := by
  induction w generalizing n with
  | zero => simp [toBits]
  | succ w ih => simp [toBits, ih]

theorem fromBits_toBits (w n : Nat) : fromBits (toBits w n) = n % 2 ^ w := by
  induction w generalizing n with
  | zero => simp [toBits, fromBits, Nat.mod_one]
  | succ w ih =>
    simp only [toBits]
    rw [fromBits_append_single, ih, Nat.pow_succ]
    have h2 : (if (n % 2 == 1) = true then 1 else 0) = n % 2 := by
      rcases Nat.mod_two_eq_zero_or_one n with h | h <;> simp [h]
    rw [h2]
    have := Nat.mod_mul_right_div_self n 2 (2 ^ w)
    have h3 : n % (2 * 2 ^ w) = 2 * (n / 2 % 2 ^ w) + n % 2 := by
      rw [Nat.mod_mul, Nat.add_comm]
    rw [Nat.mul_comm (2 ^ w) 2, h3]

theorem fromBits_toBits_of_lt (w n : Nat) (h : n < 2 ^ w) : fromBits (toBits w n) = n := by
  rw [fromBits_toBits, Nat.mod_eq_of_lt h]

theorem wordBits_eq_toBits (w n : Nat) : wordBits w n = toBits w n := by
  induction w generalizing n with
  | zero => rfl
  | succ w ih => simp [wordBits, toBits, ih]

/-- `toBits` inverts `fromBits` on words of the right length -/
theorem toBits_fromBits (bs : List Bool) : toBits bs.length (fromBits bs) = bs := by
  induction bs using snoc_ind with
  | nil => rfl
  | append_singleton bs x ih =>
    rw [List.length_append, List.length_singleton, fromBits_append_single]
    simp only [toBits]
    have h1 : (2 * fromBits bs + (if x then 1 else 0)) / 2 = fromBits bs := by
      cases x <;> simp <;> omega
    have h2 : ((2 * fromBits bs + (if x then 1 else 0)) % 2 == 1) = x := by
      cases x <;> simp <;> omega
    rw [h1, h2, ih]

theorem fromBits_replicate_true (n : Nat) : fromBits (List.replicate n true) = 2 ^ n - 1 := by
  induction n with
  | zero => simp [fromBits]
  | succ n ih =>
    rw [List.replicate_succ', fromBits_append_single, ih, Nat.pow_succ]
    have : 0 < 2 ^ n := Nat.two_pow_pos n
    simp; omega

theorem fromBits_replicate_false (n : Nat) : fromBits (List.replicate n false) = 0 := by
  induction n with
  | zero => simp [fromBits]
  | succ n ih => rw [List.replicate_succ', fromBits_append_single, ih]; simp

theorem all_true_eq_replicate (bs : List Bool) (h : bs.all (· == true) = true) :
    bs = List.replicate bs.length true := by
  induction bs with
  | nil => rfl
  | cons b bs ih =>
    simp only [List.all_cons, Bool.and_eq_true, beq_iff_eq] at h
    rw [List.length_cons, List.replicate_succ, ← ih h.2, h.1]

theorem all_false_eq_replicate (bs : List Bool) (h : bs.all (· == false) = true) :
    bs = List.replicate bs.length false := by
  induction bs with
  | nil => rfl
  | cons b bs ih =>
    simp only [List.all_cons, Bool.and_eq_true, beq_iff_eq] at h
    rw [List.length_cons, List.replicate_succ, ← ih h.2, h.1]

/-- not all ones: the value is below 2^n - 1 -/
theorem fromBits_lt_of_not_all_true (bs : List Bool) (h : bs.all (· == true) = false) :
    fromBits bs + 2 ≤ 2 ^ bs.length := by
  induction bs using snoc_ind with
  | nil => simp at h
  | append_singleton bs x ih =>
    rw [fromBits_append_single, List.length_append, List.length_singleton, Nat.pow_succ]
    have hlt := fromBits_lt bs
    cases x with
    | false => simp; omega
    | true =>
      have : bs.all (· == true) = false := by
        simpa [List.all_append] using h
      have := ih this
      simp; omega

/-- not all zeros: the value is positive -/
theorem fromBits_pos_of_not_all_false (bs : List Bool) (h : bs.all (· == false) = false) :
    1 ≤ fromBits bs := by
  induction bs using snoc_ind with
  | nil => simp at h
  | append_singleton bs x ih =>
    rw [fromBits_append_single]
    cases x with
    | true => simp
    | false =>
      have : bs.all (· == false) = false := by
        simpa [List.all_append] using h
      have := ih this
      simp; omega

/-! ### un-stuffing one codeword -/

theorem unstuff_ones (b : Nat) (hb : 2 ≤ b) (ds : List Nat) (r : List Bool)
    (h : unstuff b ds = .ok r) :
    unstuff b ((2 ^ b - 2) :: ds) = .ok (List.replicate (b - 1) true ++ r) := by
  have hp : 4 ≤ 2 ^ b := by
    calc 4 = 2 ^ 2 := rfl
      _ ≤ 2 ^ b := Nat.pow_le_pow_right (by decide) hb
  have h1 : ¬ (2 ^ b - 2 = 0 ∨ 2 ^ b - 2 = 2 ^ b - 1) := by omega
  have h2 : (2 ^ b - 2 = 1 ∨ 2 ^ b - 2 = 2 ^ b - 1 - 1) := by omega
  have h3 : decide (2 ^ b - 2 > 1) = true := by simp; omega
  simp only [unstuff, h1, if_false, h, h2, if_true, h3]
  rfl

theorem unstuff_zeros (b : Nat) (hb : 2 ≤ b) (ds : List Nat) (r : List Bool)
    (h : unstuff b ds = .ok r) :
    unstuff b (1 :: ds) = .ok (List.replicate (b - 1) false ++ r) := by
  have hp : 4 ≤ 2 ^ b := by
    calc 4 = 2 ^ 2 := rfl
      _ ≤ 2 ^ b := Nat.pow_le_pow_right (by decide) hb
  have h1 : ¬ ((1 : Nat) = 0 ∨ 1 = 2 ^ b - 1) := by omega
  simp only [unstuff, h1, if_false, h, true_or, if_true]
  rfl

theorem unstuff_plain (b d : Nat) (ds : List Nat) (r : List Bool)
    (hd1 : 2 ≤ d) (hd2 : d + 3 ≤ 2 ^ b) (h : unstuff b ds = .ok r) :
    unstuff b (d :: ds) = .ok (toBits b d ++ r) := by
  have h1 : ¬ (d = 0 ∨ d = 2 ^ b - 1) := by omega
  have h2 : ¬ (d = 1 ∨ d = 2 ^ b - 1 - 1) := by omega
  simp only [unstuff, h1, if_false, h, h2, wordBits_eq_toBits]
  rfl

/-! ### stuffing then un-stuffing -/

theorem stuff_unstuff_aux (b : Nat) (hb : 2 ≤ b) :
    ∀ (fuel : Nat) (bits : List Bool), bits.length < fuel →
      ∃ k, k < b ∧
        unstuff b ((stuffAux b fuel bits).map fromBits) = .ok (bits ++ List.replicate k true) := by
  intro fuel
  induction fuel with
  | zero => intro bits h; omega
  | succ fuel ih =>
    intro bits hlen
    cases hbits : bits with
    | nil => exact ⟨0, by omega, by simp [stuffAux, unstuff]⟩
    | cons x xs =>
      rw [← hbits]
      have hne : 0 < bits.length := by rw [hbits]; simp
      have hst : stuffAux b (fuel + 1) bits =
          (let head := bits.take (b - 1)
           let padded := head ++ List.replicate (b - 1 - head.length) true
           if padded.all (· == true) then (padded ++ [false]) :: stuffAux b fuel (bits.drop (b - 1))
           else if padded.all (· == false) then (padded ++ [true]) :: stuffAux b fuel (bits.drop (b - 1))
           else
             let nxt := ((bits.drop (b - 1)).head?).getD true
             (padded ++ [nxt]) :: stuffAux b fuel (bits.drop b)) := by
        rw [hbits]; rfl
      rw [hst]
      dsimp only
      -- abbreviations
      generalize hhead : bits.take (b - 1) = head
      have hheadlen : head.length = min (b - 1) bits.length := by rw [← hhead]; simp
      generalize hj : b - 1 - head.length = j
      have hplen : (head ++ List.replicate j true).length = b - 1 := by
        simp; omega
      have hpow : 2 ^ b = 2 * 2 ^ (b - 1) := by
        have : b = (b - 1) + 1 := by omega
        rw [this, Nat.pow_succ]; simp; omega
      have hp2 : 2 ≤ 2 ^ (b - 1) := by
        calc 2 = 2 ^ 1 := rfl
          _ ≤ 2 ^ (b - 1) := Nat.pow_le_pow_right (by decide) (by omega)
      have hdrop1 : (bits.drop (b - 1)).length < fuel := by simp; omega
      have hdropb : (bits.drop b).length < fuel := by simp; omega
      by_cases hall1 : (head ++ List.replicate j true).all (· == true) = true
      · -- stuffed 1...10
        rw [if_pos hall1]
        obtain ⟨k, hk, hrec⟩ := ih (bits.drop (b - 1)) hdrop1
        have hval : fromBits ((head ++ List.replicate j true) ++ [false]) = 2 ^ b - 2 := by
          rw [fromBits_append_single, all_true_eq_replicate _ hall1, hplen,
            fromBits_replicate_true, hpow]
          simp; omega
        simp only [List.map_cons, hval]
        rw [unstuff_ones b hb _ _ hrec]
        have hpad : List.replicate (b - 1) true = head ++ List.replicate j true := by
          have := all_true_eq_replicate _ hall1
          rw [hplen] at this
          exact this.symm
        by_cases hfull : b - 1 ≤ bits.length
        · -- a full head: no padding
          have hj0 : j = 0 := by omega
          refine ⟨k, hk, ?_⟩
          rw [hpad, hj0]
          simp only [List.replicate_zero, List.append_nil]
          rw [← hhead, ← List.append_assoc, List.take_append_drop]
        · -- the message ends inside this codeword
          have hd : bits.drop (b - 1) = [] := by
            apply List.drop_eq_nil_of_le; omega
          have hh : head = bits := by
            rw [← hhead]; apply List.take_of_length_le; omega
          rw [hd] at hrec
          have hnil : stuffAux b fuel [] = [] := by cases fuel <;> rfl
          rw [hnil] at hrec
          simp only [List.map_nil, unstuff] at hrec
          have hk0 : List.replicate k true = [] := by
            injection hrec with hrec
            simpa using hrec.symm
          refine ⟨j, by omega, ?_⟩
          rw [hd, hk0, hpad, hh]
          simp
      · rw [if_neg hall1]
        have hall1' : (head ++ List.replicate j true).all (· == true) = false := by
          simpa using hall1
        by_cases hall0 : (head ++ List.replicate j true).all (· == false) = true
        · -- stuffed 0...01 (only possible without padding)
          rw [if_pos hall0]
          have hj0 : j = 0 := by
            cases j with
            | zero => rfl
            | succ j =>
              simp [List.all_append, List.replicate_succ] at hall0
          have hfull : b - 1 ≤ bits.length := by omega
          obtain ⟨k, hk, hrec⟩ := ih (bits.drop (b - 1)) hdrop1
          have hval : fromBits ((head ++ List.replicate j true) ++ [true]) = 1 := by
            rw [fromBits_append_single, all_false_eq_replicate _ hall0, hplen,
              fromBits_replicate_false]
            simp
          simp only [List.map_cons, hval]
          rw [unstuff_zeros b hb _ _ hrec]
          have hpad : List.replicate (b - 1) false = head ++ List.replicate j true := by
            have := all_false_eq_replicate _ hall0
            rw [hplen] at this
            exact this.symm
          refine ⟨k, hk, ?_⟩
          rw [hpad, hj0]
          simp only [List.replicate_zero, List.append_nil]
          rw [← hhead, ← List.append_assoc, List.take_append_drop]
        · -- an ordinary codeword: b-1 mixed bits and the next bit (or a pad 1)
          rw [if_neg hall0]
          have hall0' : (head ++ List.replicate j true).all (· == false) = false := by
            simpa using hall0
          generalize hnxt : ((bits.drop (b - 1)).head?).getD true = nxt
          obtain ⟨k, hk, hrec⟩ := ih (bits.drop b) hdropb
          have hlo := fromBits_pos_of_not_all_false _ hall0'
          have hhi := fromBits_lt_of_not_all_true _ hall1'
          rw [hplen] at hhi
          have hval := fromBits_append_single (head ++ List.replicate j true) nxt
          have hd1 : 2 ≤ fromBits ((head ++ List.replicate j true) ++ [nxt]) := by
            rw [hval]; omega
          have hd2 : fromBits ((head ++ List.replicate j true) ++ [nxt]) + 3 ≤ 2 ^ b := by
            rw [hval, hpow]; cases nxt <;> simp <;> omega
          simp only [List.map_cons]
          rw [unstuff_plain b _ _ _ hd1 hd2 hrec]
          have hwl : ((head ++ List.replicate j true) ++ [nxt]).length = b := by
            rw [List.length_append, hplen]; simp; omega
          have htb := toBits_fromBits ((head ++ List.replicate j true) ++ [nxt])
          rw [hwl] at htb
          rw [htb]
          by_cases hfull : b ≤ bits.length
          · -- b bits consumed
            have hj0 : j = 0 := by omega
            have hnx : bits.drop (b - 1) = nxt :: bits.drop b := by
              have hlt : b - 1 < bits.length := by omega
              rw [List.drop_eq_getElem_cons hlt]
              have : b - 1 + 1 = b := by omega
              rw [this]
              rw [List.drop_eq_getElem_cons hlt] at hnxt
              simp at hnxt
              have : bits[b - 1]? = some bits[b - 1] := List.getElem?_eq_getElem hlt
              rw [this] at hnxt
              simp at hnxt
              rw [hnxt]
            refine ⟨k, hk, ?_⟩
            rw [hj0]
            simp only [List.replicate_zero, List.append_nil]
            rw [← hhead]
            have : bits = bits.take (b - 1) ++ (nxt :: bits.drop b) := by
              rw [← hnx, List.take_append_drop]
            conv => rhs; rw [this]
            simp
          · -- fewer than b bits left: the rest of the codeword is padding
            have hdb : bits.drop b = [] := by
              apply List.drop_eq_nil_of_le; omega
            rw [hdb] at hrec
            have hnil : stuffAux b fuel [] = [] := by cases fuel <;> rfl
            rw [hnil] at hrec
            simp only [List.map_nil, unstuff] at hrec
            have hk0 : List.replicate k true = [] := by
              injection hrec with hrec
              simpa using hrec.symm
            rw [hdb, hk0]
            by_cases hb1 : b - 1 ≤ bits.length
            · -- exactly b-1 bits: head = bits, next bit is a pad 1
              have hlen1 : bits.length = b - 1 := by omega
              have hd : bits.drop (b - 1) = [] := by
                apply List.drop_eq_nil_of_le; omega
              have hh : head = bits := by
                rw [← hhead]; apply List.take_of_length_le; omega
              have hj0 : j = 0 := by omega
              rw [hd] at hnxt
              simp at hnxt
              refine ⟨1, by omega, ?_⟩
              rw [hj0, hh, ← hnxt]
              simp
            · have hd : bits.drop (b - 1) = [] := by
                apply List.drop_eq_nil_of_le; omega
              have hh : head = bits := by
                rw [← hhead]; apply List.take_of_length_le; omega
              rw [hd] at hnxt
              simp at hnxt
              refine ⟨j + 1, by omega, ?_⟩
              rw [hh, ← hnxt, List.replicate_succ']
              simp

end Gzx.AztecStuff
