/-
  Panic-freedom of the Aztec decoder model on ARBITRARY input (feeds property C06):
  `extractBits` on every matrix at least as large as the symbol (every layer count), `correctBits` with the C04
  Reed-Solomon decoder on every bit stream, `getEncodedData` on every bit string (its loop terminates: every
  iteration consumes at least four bits), and their composition `Decoder.Decode`.
-/
import Gzx.Proofs.AztecFull
import Gzx.Proofs.Total
namespace Gzx.AztecTotal
open Gzx Gzx.AztecDecoder Gzx.AztecRS

/-! ### extractBits -/

theorem alignmentMap_lt (layers : Nat) (compact : Bool) (idx : Nat)
    (h : idx < baseMatrixSize layers compact) :
    alignmentMap layers compact idx < matrixSize layers compact := by
  unfold alignmentMap matrixSize baseMatrixSize at *
  cases compact
  · simp only [Bool.false_eq_true, if_false] at h ⊢
    split <;> omega
  · simp only [if_true] at h ⊢
    exact h

theorem mem_jk (rowSize : Nat) (p : Nat × Nat)
    (h : p ∈ (List.range rowSize).flatMap (fun j => [(j, 0), (j, 1)])) : p.1 < rowSize ∧ p.2 ≤ 1 := by
  simp only [List.mem_flatMap, List.mem_range, List.mem_cons, List.not_mem_nil, or_false] at h
  obtain ⟨j, hj, rfl | rfl⟩ := h <;> exact ⟨hj, by omega⟩

theorem layerPositions_lt (layers : Nat) (compact : Bool) (i : Nat) (hi : i < layers) :
    ∀ p ∈ layerPositions layers compact i,
      p.1 < matrixSize layers compact ∧ p.2 < matrixSize layers compact := by
  intro p hp
  simp only [layerPositions, List.mem_append, List.mem_map] at hp
  have hb : baseMatrixSize layers compact = layers * 4 + (if compact then 11 else 14) := rfl
  have key : ∀ q : Nat × Nat, q ∈ (List.range ((layers - i) * 4 + (if compact then 9 else 12))).flatMap
      (fun j => [(j, 0), (j, 1)]) →
      i * 2 + q.2 < baseMatrixSize layers compact ∧ i * 2 + q.1 < baseMatrixSize layers compact ∧
      baseMatrixSize layers compact - 1 - i * 2 - q.2 < baseMatrixSize layers compact ∧
      baseMatrixSize layers compact - 1 - i * 2 - q.1 < baseMatrixSize layers compact := by
    intro q hq
    obtain ⟨h1, h2⟩ := mem_jk _ q hq
    rw [hb]
    cases compact <;> simp at h1 ⊢ <;> omega
  rcases hp with ((⟨q, hq, rfl⟩ | ⟨q, hq, rfl⟩) | ⟨q, hq, rfl⟩) | ⟨q, hq, rfl⟩ <;>
    obtain ⟨k1, k2, k3, k4⟩ := key q hq <;>
    exact ⟨alignmentMap_lt _ _ _ (by assumption), alignmentMap_lt _ _ _ (by assumption)⟩

theorem readPositions_lt (layers : Nat) (compact : Bool) :
    ∀ p ∈ readPositions layers compact,
      p.1 < matrixSize layers compact ∧ p.2 < matrixSize layers compact := by
  intro p hp
  simp only [readPositions, List.mem_flatMap, List.mem_range] at hp
  obtain ⟨i, hi, hp⟩ := hp
  exact layerPositions_lt layers compact i hi p hp

/-- the module matrix has at least `n` rows of at least `n` modules -/
def WellSized (m : Matrix) (n : Nat) : Prop := n ≤ m.length ∧ ∀ row ∈ m, n ≤ row.length

theorem getBit_ok (m : Matrix) (n x y : Nat) (hm : WellSized m n) (hx : x < n) (hy : y < n) :
    ∃ b, getBit m x y = .ok b := by
  unfold getBit
  have hy' : y < m.length := Nat.lt_of_lt_of_le hy hm.1
  rw [List.getElem?_eq_getElem hy']
  have hrow := hm.2 m[y] (List.getElem_mem hy')
  have hx' : x < m[y].length := Nat.lt_of_lt_of_le hx hrow
  simp only [List.getElem?_eq_getElem hx']
  exact ⟨_, rfl⟩

theorem readAll_ok (m : Matrix) (n : Nat) (hm : WellSized m n) : ∀ (ps : List (Nat × Nat)),
    (∀ p ∈ ps, p.1 < n ∧ p.2 < n) → ∃ bs, readAll m ps = .ok bs
  | [], _ => ⟨[], rfl⟩
  | p :: ps, h => by
    obtain ⟨b, hb⟩ := getBit_ok m n p.1 p.2 hm (h p (by simp)).1 (h p (by simp)).2
    obtain ⟨bs, hbs⟩ := readAll_ok m n hm ps (fun q hq => h q (by simp [hq]))
    exact ⟨b :: bs, by simp only [readAll, hb, hbs]⟩

/-- `extractBits` succeeds on every matrix that is at least as large as the symbol, for EVERY layer count -/
theorem extractBits_ok (m : Matrix) (layers : Nat) (compact : Bool)
    (hm : WellSized m (matrixSize layers compact)) : ∃ raw, extractBits m layers compact = .ok raw :=
  readAll_ok m _ hm _ (readPositions_lt layers compact)

/-! ### correctBits -/

theorem unstuff_total (w : Nat) : ∀ (ds : List Nat),
    (∃ bits, unstuff w ds = .ok bits) ∨ unstuff w ds = .error .format
  | [] => Or.inl ⟨[], rfl⟩
  | d :: ds => by
    unfold unstuff
    simp only
    split
    · exact Or.inr rfl
    · rcases unstuff_total w ds with ⟨bits, hb⟩ | hb
      · rw [hb]
        simp only [bind, Except.bind]
        split <;> exact Or.inl ⟨_, rfl⟩
      · rw [hb]; exact Or.inr rfl

theorem rsModel_nil (w r : Nat) : rsModel w [] r = .error .checksum := rfl

/-- `correctBits` with the C04 Reed-Solomon decoder never panics (in particular the division
    `100 * … / numCodewords` is never reached with zero code words: the Reed-Solomon decoder rejects the empty
    word first): corrected bits or FormatException, for every stream, layer count and data-word count -/
theorem correctBits_total (raw : List Bool) (layers nData : Nat) :
    (∃ c, correctBits rsModel raw layers nData = .ok c) ∨
      correctBits rsModel raw layers nData = .error .format := by
  unfold correctBits
  simp only
  split
  · exact Or.inr rfl
  · split
    · exact Or.inr rfl
    · rename_i corrected hrs
      rcases unstuff_total (codewordSize layers) (corrected.take nData) with ⟨bits, hb⟩ | hb
      · rw [hb]
        simp only [bind, Except.bind]
        split
        · rename_i h0
          rw [h0] at hrs
          simp only [chunkWords, rsModel_nil] at hrs
          cases hrs
        · exact Or.inl ⟨_, rfl⟩
      · rw [hb]; exact Or.inr rfl

/-! ### getEncodedData -/

theorem splitN?_some {α} : ∀ (k : Nat) (bs a r : List α), splitN? k bs = some (a, r) →
    r.length + k = bs.length
  | 0, bs, a, r, h => by simp only [splitN?, Option.some.injEq, Prod.mk.injEq] at h; rw [← h.2]; rfl
  | k + 1, [], a, r, h => by simp [splitN?] at h
  | k + 1, b :: bs, a, r, h => by
    simp only [splitN?, Option.map_eq_some_iff] at h
    obtain ⟨⟨a', r'⟩, h1, h2⟩ := h
    simp only [Prod.mk.injEq] at h2
    have := splitN?_some k bs a' r' h1
    rw [← h2.2]
    simp; omega

theorem splitN?_of_le {α} : ∀ (k : Nat) (bs : List α), k ≤ bs.length → ∃ a r, splitN? k bs = some (a, r)
  | 0, bs, _ => ⟨[], bs, rfl⟩
  | k + 1, [], h => by simp at h
  | k + 1, b :: bs, h => by
    obtain ⟨a, r, har⟩ := splitN?_of_le k bs (by simpa using h)
    exact ⟨b :: a, r, by simp [splitN?, har]⟩

theorem takeBytes_length : ∀ (n : Nat) (bits : List Bool) (acc : List Nat),
    (takeBytes n bits acc).2.length ≤ bits.length
  | 0, _, _ => Nat.le_refl _
  | n + 1, bits, acc => by
    unfold takeBytes
    cases h : splitN? 8 bits with
    | none => simp
    | some p =>
      obtain ⟨b, rest⟩ := p
      simp only
      have := splitN?_some 8 bits b rest h
      have := takeBytes_length n rest (acc ++ [readCode b])
      omega

theorem readDigits_total : ∀ (n : Nat) (bits : List Bool) (eci : Nat), 4 * n ≤ bits.length →
    (∃ e r, readDigits n bits eci = .ok (e, r) ∧ r.length ≤ bits.length) ∨
      readDigits n bits eci = .error .format
  | 0, bits, eci, _ => Or.inl ⟨eci, bits, rfl, Nat.le_refl _⟩
  | n + 1, bits, eci, h => by
    obtain ⟨d, rest, hd⟩ := splitN?_of_le 4 bits (by omega)
    have hl := splitN?_some 4 bits d rest hd
    unfold readDigits
    simp only [hd]
    split
    · exact Or.inr rfl
    · rcases readDigits_total n rest (eci * 10 + (readCode d - 2)) (by omega) with ⟨e, r, h1, h2⟩ | h1
      · exact Or.inl ⟨e, r, h1, by omega⟩
      · exact Or.inr h1

/-- one iteration: continues on a strictly shorter rest, stops, or fails with FormatException -/
theorem step_total (T : Tables) (reg : Nat → Bool) (c : Ctl) (bits : List Bool) :
    (∃ c' rest ev, step T reg c bits = .next c' rest ev ∧ rest.length < bits.length) ∨
      step T reg c bits = .stop ∨ step T reg c bits = .fail .format := by
  unfold step
  split
  · -- binary shift
    cases h5 : splitN? 5 bits with
    | none => exact Or.inr (Or.inl rfl)
    | some p =>
      obtain ⟨l5, bits1⟩ := p
      have hl5 := splitN?_some 5 bits l5 bits1 h5
      simp only
      by_cases hz : readCode l5 = 0
      · simp only [hz, if_true]
        cases h11 : splitN? 11 bits1 with
        | none => exact Or.inr (Or.inl rfl)
        | some q =>
          obtain ⟨l11, bits2⟩ := q
          have hl11 := splitN?_some 11 bits1 l11 bits2 h11
          simp only
          have := takeBytes_length (readCode l11 + 31) bits2 []
          exact Or.inl ⟨_, _, _, rfl, by omega⟩
      · simp only [hz, if_false]
        have := takeBytes_length (readCode l5) bits1 []
        exact Or.inl ⟨_, _, _, rfl, by omega⟩
  · dsimp only
    cases hs : splitN? (if c.shift = Table.digit then 4 else 5) bits with
    | none => exact Or.inr (Or.inl rfl)
    | some p =>
      obtain ⟨cb, bits1⟩ := p
      have hl1 := splitN?_some _ bits cb bits1 hs
      have hsz : 4 ≤ (if c.shift = Table.digit then 4 else 5) := by split <;> omega
      simp only
      cases hg : getCharacter T c.shift (readCode cb) with
      | error e =>
        simp only
        have : e = .format := by
          unfold getCharacter at hg
          simp only at hg
          split at hg
          · cases hg; rfl
          · split at hg
            · cases hg; rfl
            · cases hg
        subst this
        exact Or.inr (Or.inr rfl)
      | ok ent =>
        cases ent with
        | flg =>
          simp only
          cases h3 : splitN? 3 bits1 with
          | none => exact Or.inr (Or.inl rfl)
          | some q =>
            obtain ⟨nb, bits2⟩ := q
            have hl3 := splitN?_some 3 bits1 nb bits2 h3
            simp only
            split
            · exact Or.inl ⟨_, _, _, rfl, by omega⟩
            · split
              · exact Or.inr (Or.inr rfl)
              · split
                · exact Or.inl ⟨_, _, _, rfl, by omega⟩
                · rename_i hlen
                  rcases readDigits_total (readCode nb) bits2 0 (by omega) with ⟨e, r, h1, h2⟩ | h1
                  · rw [h1]
                    simp only
                    split
                    · exact Or.inr (Or.inr rfl)
                    · split
                      · exact Or.inr (Or.inr rfl)
                      · exact Or.inl ⟨_, _, _, rfl, by omega⟩
                  · rw [h1]; exact Or.inr (Or.inr rfl)
        | ctrl t isLatch => exact Or.inl ⟨_, _, _, rfl, by omega⟩
        | lit bytes => exact Or.inl ⟨_, _, _, rfl, by omega⟩

theorem loop_total (T : Tables) (reg : Nat → Bool) : ∀ (fuel : Nat) (c : Ctl) (bits : List Bool),
    bits.length < fuel →
    (∃ evs, loop T reg fuel c bits = .ok evs) ∨ loop T reg fuel c bits = .error .format
  | 0, _, _, h => by omega
  | fuel + 1, c, bits, h => by
    unfold loop
    split
    · exact Or.inl ⟨[], rfl⟩
    · rcases step_total T reg c bits with ⟨c', rest, ev, hs, hlt⟩ | hs | hs
      · rw [hs]
        simp only
        rcases loop_total T reg fuel c' rest (by omega) with ⟨evs, he⟩ | he
        · rw [he]; exact Or.inl ⟨_, rfl⟩
        · rw [he]; exact Or.inr rfl
      · rw [hs]; exact Or.inl ⟨[], rfl⟩
      · rw [hs]; exact Or.inr rfl

/-- `getEncodedData` / `HighLevelDecode` on EVERY bit string and every table set: segments or FormatException
    (no panic, and the loop's fuel `len + 1` is never exhausted) -/
theorem getEncodedData_total (T : Tables) (reg : Nat → Bool) (bits : List Bool) :
    (∃ segs, getEncodedData T reg bits = .ok segs) ∨ getEncodedData T reg bits = .error .format := by
  unfold getEncodedData
  rcases loop_total T reg (bits.length + 1) Ctl.init bits (by omega) with ⟨evs, he⟩ | he
  · rw [he]; exact Or.inl ⟨_, rfl⟩
  · rw [he]; exact Or.inr rfl

/-! ### the Reed-Solomon call inside correctBits never panics (so mapping its failures to FormatException hides nothing) -/

theorem jk_length : ∀ r : Nat, ((List.range r).flatMap (fun j => [(j, 0), (j, 1)])).length = 2 * r
  | 0 => rfl
  | r + 1 => by
    rw [List.range_succ, List.flatMap_append, List.length_append, jk_length r]
    simp; omega

theorem layerPositions_length (L : Nat) (c : Bool) (i : Nat) :
    (layerPositions L c i).length = 8 * ((L - i) * 4 + (if c then 9 else 12)) := by
  simp only [layerPositions, List.length_append, List.length_map, jk_length]
  omega

/-- `extractBits` returns `totalBitsInLayer` bits (layer counts 0..32, compact or not) -/
theorem readPositions_length (c : Bool) : ∀ L : Nat, L ≤ 32 →
    (readPositions L c).length = totalBitsInLayer L c := by
  intro L hL
  unfold readPositions
  rw [List.length_flatMap]
  simp only [layerPositions_length]
  revert L
  cases c <;> decide

theorem codeword_count_le (c : Bool) : ∀ L : Nat, L ≤ 32 →
    totalBitsInLayer L c / codewordSize L ≤ 2 ^ codewordSize L - 1 := by
  cases c <;> decide

theorem wordOK_codewordSize (layers : Nat) : WordOK (codewordSize layers) :=
  AztecFull.wordOK_wordSize layers

/-- on the words `correctBits` cuts from a stream, the C04 decoder returns a word list or a
    `ReedSolomonException` (`.checksum`) — never a panic, never fuel exhaustion — as soon as the number of code
    words fits the field (which it does for every layer count up to 32: `codeword_count_le`) -/
theorem rs_on_received_total (raw : List Bool) (layers nData : Nat)
    (hpos : 0 < raw.length / codewordSize layers)
    (hN : raw.length / codewordSize layers ≤ 2 ^ codewordSize layers - 1) :
    (∃ ws, rsModel (codewordSize layers) (receivedWords layers raw)
        (raw.length / codewordSize layers - nData) = .ok ws) ∨
      rsModel (codewordSize layers) (receivedWords layers raw)
        (raw.length / codewordSize layers - nData) = .error .checksum := by
  have hW := wordOK_codewordSize layers
  have hlen : (receivedWords layers raw).length = raw.length / codewordSize layers := by
    unfold receivedWords; simp only [AztecFull.chunkWords_length]
  have hne : receivedWords layers raw ≠ [] := by
    intro h; rw [h] at hlen; simp at hlen; omega
  have hin : Gzx.Properties.C04.InField (gfOf (codewordSize layers)) (receivedWords layers raw) := by
    intro x hx
    rw [gfOf_size _ hW]
    unfold receivedWords at hx
    exact AztecFull.chunkWords_lt _ _ _ x hx
  unfold rsModel
  rcases Gzx.Properties.C04.rs_decode_total (gfOf (codewordSize layers)) (gfOf_ok _ hW)
    (receivedWords layers raw) (raw.length / codewordSize layers - nData) hne hin
    (by rw [gfOf_size _ hW, gfOf_base _ hW]; omega) with ⟨w', h1, _, _⟩ | h1
  · exact Or.inl ⟨w', h1⟩
  · exact Or.inr h1

/-! ### Decode -/

theorem decode_total (T : Tables) (reg : Nat → Bool) (m : Matrix) (compact : Bool) (nData layers : Nat)
    (hm : WellSized m (matrixSize layers compact)) :
    (∃ d, decode T reg rsModel m compact nData layers = .ok d) ∨
      decode T reg rsModel m compact nData layers = .error .format := by
  obtain ⟨raw, hraw⟩ := extractBits_ok m layers compact hm
  unfold decode
  rw [hraw]
  simp only [bind, Except.bind]
  rcases correctBits_total raw layers nData with ⟨c, hc⟩ | hc
  · rw [hc]
    simp only
    rcases getEncodedData_total T reg c.bits with ⟨segs, hs⟩ | hs
    · rw [hs]; exact Or.inl ⟨_, rfl⟩
    · rw [hs]; exact Or.inr rfl
  · rw [hc]; exact Or.inr rfl

end Gzx.AztecTotal
