import Gzx.Model.Binarizer
import Gzx.Proofs.ExceptList
namespace Gzx.Binarizer
open Gzx

/-! ## index arithmetic and pixel reads -/

theorem idx_lt (w h x y : Nat) (hx : x < w) (hy : y < h) : y * w + x < w * h := by
  have h1 : (y + 1) * w ≤ h * w := Nat.mul_le_mul_right w hy
  rw [Nat.succ_mul] at h1
  rw [Nat.mul_comm w h]
  omega

theorem rd_ok (lum : Array Nat) (i : Nat) (hi : i < lum.size) :
    ∃ p, rd lum i = .ok p ∧ lum[i]? = some p := by
  refine ⟨lum[i], ?_, ?_⟩
  · simp [rd, hi]
  · simp [hi]

theorem rd_inv (lum : Array Nat) (i p : Nat) (h : rd lum i = .ok p) : lum[i]? = some p := by
  unfold rd at h
  split at h
  · rename_i v hv; cases h; exact hv
  · cases h

/-! ## scanRect -/

theorem scanRect_spec (lum : Array Nat) (w h x0 y0 nx ny : Nat) (test : Nat → Bool)
    (hsz : lum.size = w * h) (hx : x0 + nx ≤ w) (hy : y0 + ny ≤ h) :
    ∃ sets, scanRect lum w x0 y0 nx ny test = .ok sets ∧
      ∀ X Y, (X, Y) ∈ sets ↔
        (x0 ≤ X ∧ X < x0 + nx ∧ y0 ≤ Y ∧ Y < y0 + ny ∧
          ∃ p, lum[Y * w + X]? = some p ∧ test (p % 256) = true) := by
  -- the pure image of the two traversals
  let px : Nat → Nat := fun i => (lum[i]?).getD 0
  let g : Nat → List (Nat × Nat × Bool) := fun yy =>
    (List.range nx).map (fun xx => (x0 + xx, y0 + yy, test (px ((y0 + yy) * w + x0 + xx) % 256)))
  have hinner : ∀ yy ∈ List.range ny, scanCells lum w x0 y0 nx test yy = .ok (g yy) := by
    intro yy hyy
    unfold scanCells
    apply mapME_eq_map
    intro xx hxx
    have hyy' : yy < ny := List.mem_range.mp hyy
    have hxx' : xx < nx := List.mem_range.mp hxx
    have hlt : (y0 + yy) * w + (x0 + xx) < lum.size := by
      rw [hsz]; exact idx_lt w h (x0 + xx) (y0 + yy) (by omega) (by omega)
    have hlt' : (y0 + yy) * w + x0 + xx < lum.size := by omega
    obtain ⟨p, hp, hp'⟩ := rd_ok lum _ hlt'
    simp only [scanCell, hp]
    simp [px, hp']
  have houter := mapME_eq_map _ g (List.range ny) hinner
  have hres : scanRect lum w x0 y0 nx ny test =
      .ok ((((List.range ny).map g).flatten).filterMap keepSet) := by
    unfold scanRect; rw [houter]
  refine ⟨_, hres, ?_⟩
  intro X Y
  simp only [List.mem_filterMap, List.mem_flatten, List.mem_map, List.mem_range]
  constructor
  · rintro ⟨⟨x, y, b⟩, ⟨l, ⟨yy, hyy, rfl⟩, hmem⟩, hsome⟩
    simp only [g, List.mem_map, List.mem_range] at hmem
    obtain ⟨xx, hxx, heq⟩ := hmem
    simp only [Prod.mk.injEq] at heq
    obtain ⟨rfl, rfl, rfl⟩ := heq
    simp only [keepSet] at hsome
    split at hsome
    · rename_i hb
      simp only [Option.some.injEq, Prod.mk.injEq] at hsome
      obtain ⟨rfl, rfl⟩ := hsome
      have hlt : (y0 + yy) * w + (x0 + xx) < lum.size := by
        rw [hsz]; exact idx_lt w h (x0 + xx) (y0 + yy) (by omega) (by omega)
      refine ⟨by omega, by omega, by omega, by omega, lum[(y0 + yy) * w + (x0 + xx)], by simp [hlt], ?_⟩
      have : px ((y0 + yy) * w + x0 + xx) = lum[(y0 + yy) * w + (x0 + xx)] := by
        simp [px, Nat.add_assoc, hlt]
      rw [← this]; exact hb
    · cases hsome
  · rintro ⟨h1, h2, h3, h4, p, hp, ht⟩
    refine ⟨(X, Y, true), ⟨g (Y - y0), ⟨Y - y0, by omega, rfl⟩, ?_⟩, by simp [keepSet]⟩
    simp only [g, List.mem_map, List.mem_range]
    refine ⟨X - x0, by omega, ?_⟩
    have e1 : x0 + (X - x0) = X := by omega
    have e2 : y0 + (Y - y0) = Y := by omega
    have e3 : Y * w + x0 + (X - x0) = Y * w + X := by omega
    simp only [e1, e2, Prod.mk.injEq, true_and]
    simp only [px, e3, hp, Option.getD_some, ht]

/-! ## block scan invariant -/

/-- after `n` pixels: the sum is at most `255·n` minus the slack of the smallest pixel seen -/
def ScanInv (s : Scan) (n : Nat) : Prop :=
  s.sum + (255 - s.mn) ≤ 255 * n ∧ s.mn ≤ 255 ∧ s.mx ≤ 255

theorem scanPixel_inv (s : Scan) (n p : Nat) (hp : p ≤ 255) (h : ScanInv s n) :
    ScanInv (scanPixel s p) (n + 1) := by
  obtain ⟨h1, h2, h3⟩ := h
  simp only [ScanInv, scanPixel]
  refine ⟨?_, ?_, ?_⟩ <;> omega

theorem foldl_scanPixel_inv (ps : List Nat) (s : Scan) (n : Nat) (hps : ∀ p ∈ ps, p ≤ 255)
    (h : ScanInv s n) : ScanInv (ps.foldl scanPixel s) (n + ps.length) := by
  induction ps generalizing s n with
  | nil => simpa using h
  | cons p ps ih =>
    simp only [List.foldl_cons, List.length_cons]
    have := ih (scanPixel s p) (n + 1) (fun q hq => hps q (by simp [hq]))
      (scanPixel_inv s n p (hps p (by simp)) h)
    have e : n + 1 + ps.length = n + (ps.length + 1) := by omega
    rw [e] at this; exact this

theorem foldl_add_le (ps : List Nat) (a B : Nat) (hps : ∀ p ∈ ps, p ≤ B) :
    ps.foldl (· + ·) a ≤ a + B * ps.length := by
  induction ps generalizing a with
  | nil => simp
  | cons p ps ih =>
    simp only [List.foldl_cons, List.length_cons]
    have := ih (a + p) (fun q hq => hps q (by simp [hq]))
    have hp := hps p (by simp)
    rw [Nat.mul_succ]; omega

theorem scanRow_inv (s : Scan) (n : Nat) (ps : List Nat) (hps : ∀ p ∈ ps, p ≤ 255)
    (h : ScanInv s n) : ScanInv (scanRow s ps) (n + ps.length) := by
  unfold scanRow
  split
  · obtain ⟨h1, h2, h3⟩ := h
    have := foldl_add_le ps s.sum 255 hps
    simp only [ScanInv]
    refine ⟨?_, h2, h3⟩
    rw [Nat.mul_add]; omega
  · have := foldl_scanPixel_inv ps s n hps h
    simpa [ScanInv] using this

theorem foldl_scanRow_inv (rows : List (List Nat)) (s : Scan) (n : Nat)
    (hrows : ∀ r ∈ rows, r.length = 8 ∧ ∀ p ∈ r, p ≤ 255) (h : ScanInv s n) :
    ScanInv (rows.foldl scanRow s) (n + 8 * rows.length) := by
  induction rows generalizing s n with
  | nil => simpa using h
  | cons r rows ih =>
    simp only [List.foldl_cons, List.length_cons]
    obtain ⟨hl, hp⟩ := hrows r (by simp)
    have h' := scanRow_inv s n r hp h
    rw [hl] at h'
    have := ih (scanRow s r) (n + 8) (fun q hq => hrows q (by simp [hq])) h'
    have e : n + 8 + 8 * rows.length = n + 8 * (rows.length + 1) := by omega
    rw [e] at this; exact this

theorem blockBlackPoint_le (s : Scan) (nb : Option (Nat × Nat × Nat)) (h : ScanInv s 64)
    (hnb : ∀ a b c, nb = some (a, b, c) → a ≤ 254 ∧ b ≤ 254 ∧ c ≤ 254) :
    blockBlackPoint s nb ≤ 254 := by
  obtain ⟨h1, h2, h3⟩ := h
  unfold blockBlackPoint MIN_DYNAMIC_RANGE
  split
  · match nb, hnb with
    | none, _ => simp only; omega
    | some (a, b, c), hnb =>
      obtain ⟨ha, hb, hc⟩ := hnb a b c rfl
      simp only
      split <;> omega
  · omega

theorem blockRow_ok (lum : Array Nat) (w h xo yo yy : Nat) (hsz : lum.size = w * h)
    (hx : xo + 8 ≤ w) (hy : yo + yy < h) :
    ∃ ps, blockRow lum w xo yo yy = .ok ps ∧ ps.length = 8 ∧ ∀ p ∈ ps, p ≤ 255 := by
  have hex : ∀ xx ∈ List.range 8, ∃ b, blockPixel lum w xo yo yy xx = .ok b := by
    intro xx hxx
    have hxx' : xx < 8 := List.mem_range.mp hxx
    have hlt : (yo + yy) * w + (xo + xx) < lum.size := by
      rw [hsz]; exact idx_lt w h (xo + xx) (yo + yy) (by omega) hy
    have hlt' : (yo + yy) * w + xo + xx < lum.size := by omega
    obtain ⟨p, hp, _⟩ := rd_ok lum _ hlt'
    exact ⟨p % 256, by simp only [blockPixel, hp]⟩
  obtain ⟨ps, hps⟩ := mapME_exists _ _ hex
  refine ⟨ps, hps, ?_, ?_⟩
  · simpa using mapME_length _ _ _ hps
  · intro p hp
    obtain ⟨xx, _, hf⟩ := mapME_mem_right _ _ _ hps p hp
    unfold blockPixel at hf
    split at hf
    · cases hf
    · cases hf; omega

theorem scanBlock_ok (lum : Array Nat) (w h xo yo : Nat) (hsz : lum.size = w * h)
    (hx : xo + 8 ≤ w) (hy : yo + 8 ≤ h) :
    ∃ s, scanBlock lum w xo yo = .ok s ∧ ScanInv s 64 := by
  have hex : ∀ yy ∈ List.range 8, ∃ ps, blockRow lum w xo yo yy = .ok ps := by
    intro yy hyy
    have : yy < 8 := List.mem_range.mp hyy
    obtain ⟨ps, h1, _⟩ := blockRow_ok lum w h xo yo yy hsz hx (by omega)
    exact ⟨ps, h1⟩
  obtain ⟨rows, hrows⟩ := mapME_exists _ _ hex
  refine ⟨rows.foldl scanRow scanInit, by simp only [scanBlock, hrows], ?_⟩
  have hlen : rows.length = 8 := by simpa using mapME_length _ _ _ hrows
  have hall : ∀ r ∈ rows, r.length = 8 ∧ ∀ p ∈ r, p ≤ 255 := by
    intro r hr
    obtain ⟨yy, hyy, hf⟩ := mapME_mem_right _ _ _ hrows r hr
    have : yy < 8 := List.mem_range.mp hyy
    obtain ⟨ps, h1, h2, h3⟩ := blockRow_ok lum w h xo yo yy hsz hx (by omega)
    rw [h1] at hf; cases hf
    exact ⟨h2, h3⟩
  have hinit : ScanInv scanInit 0 := by simp [ScanInv, scanInit]
  have := foldl_scanRow_inv rows scanInit 0 hall hinit
  rw [hlen] at this
  simpa using this

theorem blockOffset_le (i dim : Nat) (hd : 8 ≤ dim) : blockOffset i dim + 8 ≤ dim := by
  unfold blockOffset; split <;> omega

/-! ## black points: every entry is ≤ 254 -/

def GoodRow (subW : Nat) (r : List Nat) : Prop := r.length = subW ∧ ∀ v ∈ r, v ≤ 254

theorem neighbours_ok (pr acc : List Nat) (subW k : Nat) (hpr : GoodRow subW pr)
    (hk : k < subW) (hacc : acc.length = k) (haccv : ∀ v ∈ acc, v ≤ 254) :
    ∃ nb, neighbours pr acc k = .ok nb ∧
      ∀ a b c, nb = some (a, b, c) → a ≤ 254 ∧ b ≤ 254 ∧ c ≤ 254 := by
  unfold neighbours
  split
  · exact ⟨none, rfl, by simp⟩
  · rename_i hk0
    obtain ⟨hl, hv⟩ := hpr
    have h1 : k < pr.length := by omega
    have h2 : k - 1 < acc.length := by omega
    have h3 : k - 1 < pr.length := by omega
    have e1 : pr[k]? = some pr[k] := by simp [h1]
    have e2 : acc[k - 1]? = some acc[k - 1] := by simp [h2]
    have e3 : pr[k - 1]? = some pr[k - 1] := by simp [h3]
    rw [e1, e2, e3]
    refine ⟨_, rfl, ?_⟩
    intro a b c habc
    simp only [Option.some.injEq, Prod.mk.injEq] at habc
    obtain ⟨rfl, rfl, rfl⟩ := habc
    exact ⟨hv _ (List.getElem_mem h1), haccv _ (List.getElem_mem h2), hv _ (List.getElem_mem h3)⟩

theorem bpRow_ok (lum : Array Nat) (w h y subW : Nat) (hsz : lum.size = w * h)
    (hw : 8 ≤ w) (hh : 8 ≤ h) (prev : Option (List Nat))
    (hprev : ∀ pr, prev = some pr → GoodRow subW pr)
    (n k : Nat) (acc : List Nat) (hacc : acc.length = k) (haccv : ∀ v ∈ acc, v ≤ 254)
    (hk : k + n = subW) :
    ∃ row, bpRow lum w h y prev (List.range' k n) acc = .ok row ∧ GoodRow subW row := by
  induction n generalizing k acc with
  | zero =>
    refine ⟨acc, by simp [bpRow], ?_, haccv⟩
    omega
  | succ n ih =>
    rw [List.range'_succ]
    unfold bpRow
    obtain ⟨s, hs, hinv⟩ := scanBlock_ok lum w h (blockOffset k w) (blockOffset y h) hsz
      (blockOffset_le k w hw) (blockOffset_le y h hh)
    rw [hs]
    have hnb : ∃ nb, neighboursOf prev acc k = .ok nb ∧
          ∀ a b c, nb = some (a, b, c) → a ≤ 254 ∧ b ≤ 254 ∧ c ≤ 254 := by
      match prev, hprev with
      | none, _ => exact ⟨none, rfl, by simp⟩
      | some pr, hprev =>
        simp only [neighboursOf]
        exact neighbours_ok pr acc subW k (hprev pr rfl) (by omega) hacc haccv
    obtain ⟨nb, hnb1, hnb2⟩ := hnb
    simp only [hnb1]
    apply ih (k + 1) (acc ++ [blockBlackPoint s nb])
    · simp [hacc]
    · intro v hv
      rcases List.mem_append.mp hv with hv | hv
      · exact haccv v hv
      · simp at hv; subst hv; exact blockBlackPoint_le s nb hinv hnb2
    · omega

theorem bpRows_ok (lum : Array Nat) (w h subW : Nat) (hsz : lum.size = w * h)
    (hw : 8 ≤ w) (hh : 8 ≤ h) (n k : Nat) (prev : Option (List Nat))
    (hprev : ∀ pr, prev = some pr → GoodRow subW pr)
    (acc : List (List Nat)) (hacc : acc.length = k) (haccv : ∀ r ∈ acc, GoodRow subW r) :
    ∃ bps, bpRows lum w h subW (List.range' k n) prev acc = .ok bps ∧ bps.length = k + n ∧
      ∀ r ∈ bps, GoodRow subW r := by
  induction n generalizing k prev acc with
  | zero => exact ⟨acc, by simp [bpRows], by simpa using hacc, haccv⟩
  | succ n ih =>
    rw [List.range'_succ]
    unfold bpRows
    have hr := bpRow_ok lum w h k subW hsz hw hh prev hprev subW 0 [] rfl (by simp) (by omega)
    rw [← List.range_eq_range'] at hr
    obtain ⟨row, hrow, hgood⟩ := hr
    rw [hrow]
    simp only
    have := ih (k + 1) (some row) (by intro pr hpr; cases hpr; exact hgood) (acc ++ [row])
      (by simp [hacc]) (by
        intro r hr
        rcases List.mem_append.mp hr with hr | hr
        · exact haccv r hr
        · simp at hr; subst hr; exact hgood)
    obtain ⟨bps, h1, h2, h3⟩ := this
    exact ⟨bps, h1, by omega, h3⟩

theorem calculateBlackPoints_ok (lum : Array Nat) (w h : Nat) (hsz : lum.size = w * h)
    (hw : 8 ≤ w) (hh : 8 ≤ h) :
    ∃ bps, calculateBlackPoints lum w h = .ok bps ∧ bps.length = subDim h ∧
      ∀ r ∈ bps, GoodRow (subDim w) r := by
  unfold calculateBlackPoints
  rw [List.range_eq_range']
  have := bpRows_ok lum w h (subDim w) hsz hw hh (subDim h) 0 none (by simp) [] rfl (by simp)
  simpa using this

/-! ## thresholds -/

theorem cap_bounds (v hi : Nat) (h : 2 ≤ hi) : 2 ≤ cap v 2 hi ∧ cap v 2 hi ≤ hi := by
  unfold cap; split
  · omega
  · split <;> omega

theorem sum5_ok (row : List Nat) (subW left : Nat) (hrow : GoodRow subW row)
    (h2 : 2 ≤ left) (h3 : left + 3 ≤ subW) : ∃ s, sum5 row left = .ok s ∧ s ≤ 1270 := by
  obtain ⟨hl, hv⟩ := hrow
  unfold sum5
  have : ¬ left < 2 := by omega
  simp only [this, if_false]
  have i0 : left - 2 < row.length := by omega
  have i1 : left - 1 < row.length := by omega
  have i2 : left < row.length := by omega
  have i3 : left + 1 < row.length := by omega
  have i4 : left + 2 < row.length := by omega
  have e0 : row[left - 2]? = some row[left - 2] := by simp [i0]
  have e1 : row[left - 1]? = some row[left - 1] := by simp [i1]
  have e2 : row[left]? = some row[left] := by simp [i2]
  have e3 : row[left + 1]? = some row[left + 1] := by simp [i3]
  have e4 : row[left + 2]? = some row[left + 2] := by simp [i4]
  rw [e0, e1, e2, e3, e4]
  refine ⟨_, rfl, ?_⟩
  have b0 := hv _ (List.getElem_mem i0)
  have b1 := hv _ (List.getElem_mem i1)
  have b2 := hv _ (List.getElem_mem i2)
  have b3 := hv _ (List.getElem_mem i3)
  have b4 := hv _ (List.getElem_mem i4)
  omega

theorem blockThreshold_ok (bps : List (List Nat)) (subW subH x y : Nat)
    (hW : 5 ≤ subW) (hH : 5 ≤ subH) (hlen : bps.length = subH)
    (hgood : ∀ r ∈ bps, GoodRow subW r) :
    ∃ thr, blockThreshold bps subW subH x y = .ok thr ∧ thr ≤ 254 := by
  unfold blockThreshold
  obtain ⟨t2, t3⟩ := cap_bounds y (subH - 3) (by omega)
  obtain ⟨l2, l3⟩ := cap_bounds x (subW - 3) (by omega)
  have : ¬ cap y 2 (subH - 3) < 2 := by omega
  simp only [this, if_false]
  have hex : ∀ r ∈ [cap y 2 (subH - 3) - 2, cap y 2 (subH - 3) - 1, cap y 2 (subH - 3),
      cap y 2 (subH - 3) + 1, cap y 2 (subH - 3) + 2],
      ∃ s, rowSum5 bps (cap x 2 (subW - 3)) r = .ok s ∧ s ≤ 1270 := by
    intro r hr
    have hr' : r < bps.length := by
      simp only [List.mem_cons, List.mem_nil_iff, or_false] at hr
      omega
    have e : bps[r]? = some bps[r] := by simp [hr']
    unfold rowSum5
    rw [e]
    exact sum5_ok bps[r] subW _ (hgood _ (List.getElem_mem hr')) l2 (by omega)
  obtain ⟨sums, hsums⟩ := mapME_exists _ _ (fun r hr => (hex r hr).imp (fun _ h => h.1))
  rw [hsums]
  refine ⟨_, rfl, ?_⟩
  have hl : sums.length = 5 := by simpa using mapME_length _ _ _ hsums
  have hb : ∀ s ∈ sums, s ≤ 1270 := by
    intro s hs
    obtain ⟨r, hr, hf⟩ := mapME_mem_right _ _ _ hsums s hs
    obtain ⟨s', hs', hle⟩ := hex r hr
    rw [hs'] at hf; cases hf; exact hle
  have := foldl_add_le sums 0 1270 hb
  rw [hl] at this
  omega

/-! ## coverage of the image by the (clamped) blocks -/

theorem subDim_ge (n : Nat) (hn : 40 ≤ n) : 5 ≤ subDim n := by
  unfold subDim; split <;> omega

theorem block_covers (X dim : Nat) (hX : X < dim) (hd : 8 ≤ dim) :
    X / 8 < subDim dim ∧ blockOffset (X / 8) dim ≤ X ∧ X < blockOffset (X / 8) dim + 8 := by
  unfold subDim blockOffset
  refine ⟨?_, ?_, ?_⟩
  · split <;> omega
  · split <;> omega
  · split <;> omega

/-! ## the local method: no panic, 0 is black, 255 is white -/

theorem hybridBlock_spec (lum : Array Nat) (w h : Nat) (bps : List (List Nat)) (x y : Nat)
    (hsz : lum.size = w * h) (hw : 40 ≤ w) (hh : 40 ≤ h)
    (hlen : bps.length = subDim h) (hgood : ∀ r ∈ bps, GoodRow (subDim w) r) :
    ∃ sets thr, hybridBlock lum w h bps x y = .ok sets ∧ thr ≤ 254 ∧
      ∀ X Y, (X, Y) ∈ sets ↔
        (blockOffset x w ≤ X ∧ X < blockOffset x w + 8 ∧ blockOffset y h ≤ Y ∧ Y < blockOffset y h + 8 ∧
          ∃ p, lum[Y * w + X]? = some p ∧ p % 256 ≤ thr) := by
  obtain ⟨thr, hthr, hle⟩ := blockThreshold_ok bps (subDim w) (subDim h) x y
    (subDim_ge w hw) (subDim_ge h hh) hlen hgood
  obtain ⟨sets, hsets, hmem⟩ := scanRect_spec lum w h (blockOffset x w) (blockOffset y h) 8 8
    (fun p => decide (p ≤ thr)) hsz (blockOffset_le x w (by omega)) (blockOffset_le y h (by omega))
  refine ⟨sets, thr, by simp only [hybridBlock, hthr, thresholdBlock, hsets], hle, ?_⟩
  intro X Y
  rw [hmem X Y]
  simp

theorem hybridBlocks_spec (lum : Array Nat) (w h : Nat) (bps : List (List Nat))
    (hsz : lum.size = w * h) (hw : 40 ≤ w) (hh : 40 ≤ h)
    (hlen : bps.length = subDim h) (hgood : ∀ r ∈ bps, GoodRow (subDim w) r) :
    ∃ sets, hybridBlocks lum w h bps = .ok sets ∧
      (∀ X Y, (X, Y) ∈ sets → X < w ∧ Y < h ∧ ∃ p, lum[Y * w + X]? = some p ∧ p % 256 ≤ 254) ∧
      (∀ X Y p, X < w → Y < h → lum[Y * w + X]? = some p → p % 256 = 0 → (X, Y) ∈ sets) := by
  have hblk := fun x y => hybridBlock_spec lum w h bps x y hsz hw hh hlen hgood
  -- rows of blocks
  have hrow : ∀ y ∈ List.range (subDim h), ∃ bl, hybridRow lum w h bps y = .ok bl := by
    intro y _
    obtain ⟨bl, hbl⟩ := mapME_exists (fun x => hybridBlock lum w h bps x y) (List.range (subDim w))
      (fun x _ => by obtain ⟨s, _, hs, _⟩ := hblk x y; exact ⟨s, hs⟩)
    exact ⟨bl.flatten, by simp only [hybridRow, hbl]⟩
  obtain ⟨perRow, hper⟩ := mapME_exists _ _ hrow
  refine ⟨perRow.flatten, by simp only [hybridBlocks, hper], ?_, ?_⟩
  · intro X Y hXY
    obtain ⟨rowSets, hrs, hin⟩ := List.mem_flatten.mp hXY
    obtain ⟨y, _, hf⟩ := mapME_mem_right _ _ _ hper rowSets hrs
    unfold hybridRow at hf
    split at hf
    · cases hf
    · rename_i bl hbl
      cases hf
      obtain ⟨bs, hbs, hin'⟩ := List.mem_flatten.mp hin
      obtain ⟨x, _, hfx⟩ := mapME_mem_right _ _ _ hbl bs hbs
      obtain ⟨sets, thr, hs, hthr, hmem⟩ := hblk x y
      rw [hs] at hfx; cases hfx
      obtain ⟨h1, h2, h3, h4, p, hp, hpt⟩ := (hmem X Y).mp hin'
      have bx := blockOffset_le x w (by omega)
      have by' := blockOffset_le y h (by omega)
      exact ⟨by omega, by omega, p, hp, by omega⟩
  · intro X Y p hX hY hp h0
    obtain ⟨cx1, cx2, cx3⟩ := block_covers X w hX (by omega)
    obtain ⟨cy1, cy2, cy3⟩ := block_covers Y h hY (by omega)
    obtain ⟨rowSets, hrs, hf⟩ := mapME_mem_left _ _ _ hper (Y / 8) (List.mem_range.mpr cy1)
    unfold hybridRow at hf
    split at hf
    · cases hf
    · rename_i bl hbl
      cases hf
      obtain ⟨bs, hbs, hfx⟩ := mapME_mem_left _ _ _ hbl (X / 8) (List.mem_range.mpr cx1)
      obtain ⟨sets, thr, hs, hthr, hmem⟩ := hblk (X / 8) (Y / 8)
      rw [hs] at hfx; cases hfx
      refine List.mem_flatten.mpr ⟨_, hrs, List.mem_flatten.mpr ⟨_, hbs, ?_⟩⟩
      exact (hmem X Y).mpr ⟨cx2, cx3, cy2, cy3, p, hp, by omega⟩

theorem hybridSets_local (lum : Array Nat) (w h : Nat)
    (hsz : lum.size = w * h) (hw : 40 ≤ w) (hh : 40 ≤ h) :
    ∃ sets, hybridSets lum w h = .ok sets ∧
      (∀ X Y, (X, Y) ∈ sets → X < w ∧ Y < h ∧ ∃ p, lum[Y * w + X]? = some p ∧ p % 256 ≤ 254) ∧
      (∀ X Y p, X < w → Y < h → lum[Y * w + X]? = some p → p % 256 = 0 → (X, Y) ∈ sets) := by
  obtain ⟨bps, hbps, hlen, hgood⟩ := calculateBlackPoints_ok lum w h hsz (by omega) (by omega)
  obtain ⟨sets, hs, h1, h2⟩ := hybridBlocks_spec lum w h bps hsz hw hh hlen hgood
  refine ⟨sets, ?_, h1, h2⟩
  unfold hybridSets MINIMUM_DIMENSION
  have : w ≥ 40 ∧ h ≥ 40 := ⟨hw, hh⟩
  simp only [this, and_self, if_true, hbps, hs]

end Gzx.Binarizer

namespace Gzx.Binarizer
open Gzx

/-! ## estimateBlackPoint: a successful result lies strictly between two bucket indices -/

theorem argmaxStrict_mem (best : Nat × Int) (cands : List (Nat × Int)) :
    argmaxStrict best cands = best ∨ argmaxStrict best cands ∈ cands := by
  induction cands generalizing best with
  | nil => left; rfl
  | cons c cs ih =>
    obtain ⟨x, s⟩ := c
    unfold argmaxStrict
    split
    · rcases ih (x, s) with h | h
      · right; rw [h]; simp
      · right; simp [h]
    · rcases ih best with h | h
      · left; exact h
      · right; simp [h]

theorem indexed_fst_lt (bs : List Nat) (x c : Nat) (h : (x, c) ∈ indexed bs) : x < bs.length := by
  unfold indexed at h
  have := (List.of_mem_zip h).1
  exact List.mem_range.mp this

theorem estimateBlackPoint_bounds (buckets : List Nat) (bp : Nat) (hlen : 16 ≤ buckets.length)
    (h : estimateBlackPoint buckets = .ok bp) :
    8 ≤ bp ∧ bp + 16 ≤ 8 * buckets.length := by
  unfold estimateBlackPoint at h
  simp only at h
  generalize hfirst : argmaxStrict (0, 0) ((indexed buckets).map (fun (x, c) => (x, (c : Int)))) = first at h
  generalize hsecond : argmaxStrict (0, 0)
    ((indexed buckets).map (fun (x, c) => (x, ((c * sqDist x first.1 : Nat) : Int)))) = second at h
  split at h
  · cases h
  · rename_i hcontrast
    generalize hbest : argmaxStrict _ _ = best at h
    cases h
    -- both peaks are bucket indices (or the initial 0)
    have hf : first.1 < buckets.length ∨ first.1 = 0 := by
      rcases argmaxStrict_mem (0, 0) ((indexed buckets).map (fun (x, c) => (x, (c : Int)))) with e | e
      · right; rw [hfirst] at e; rw [e]
      · left; rw [hfirst] at e
        obtain ⟨⟨x, c⟩, hm, he⟩ := List.mem_map.mp e
        have := indexed_fst_lt buckets x c hm
        rw [← he]; exact this
    have hs : second.1 < buckets.length ∨ second.1 = 0 := by
      rcases argmaxStrict_mem (0, 0)
        ((indexed buckets).map (fun (x, c) => (x, ((c * sqDist x first.1 : Nat) : Int)))) with e | e
      · right; rw [hsecond] at e; rw [e]
      · left; rw [hsecond] at e
        obtain ⟨⟨x, c⟩, hm, he⟩ := List.mem_map.mp e
        have := indexed_fst_lt buckets x c hm
        rw [← he]; exact this
    -- the valley lies strictly between them
    have hb : min first.1 second.1 < best.1 ∧ best.1 < max first.1 second.1 := by
      rcases argmaxStrict_mem _ _ |>.symm with e | e
      · rw [hbest] at e
        obtain ⟨⟨x, c⟩, hm, he⟩ := List.mem_map.mp e
        have hm' := List.mem_reverse.mp hm
        have := (List.mem_filter.mp hm').2
        simp only [decide_eq_true_eq] at this
        rw [← he]; exact this
      · rw [hbest] at e; rw [e]; simp only; omega
    omega

/-! ## the global method -/

theorem sampleRow_ok (lum : Array Nat) (w h row : Nat) (hsz : lum.size = w * h) (hrow : row < h) :
    ∃ ps, sampleRow lum w row = .ok ps := by
  unfold sampleRow
  apply mapME_exists
  intro x hx
  have hx' : x < w * 4 / 5 := List.mem_range.mp (List.mem_of_mem_drop hx)
  have hlt : row * w + x < lum.size := by
    rw [hsz]; exact idx_lt w h x row (by omega) hrow
  obtain ⟨p, hp, _⟩ := rd_ok lum _ hlt
  exact ⟨p, hp⟩

theorem samples_ok (lum : Array Nat) (w h : Nat) (hsz : lum.size = w * h) (hh : 1 ≤ h) :
    ∃ ps, samples lum w h = .ok ps := by
  have : ∃ rows, mapME (sampleRowAt lum w h) [1, 2, 3, 4] = .ok rows := by
    apply mapME_exists
    intro y hy
    have hy' : y ≤ 4 := by
      simp only [List.mem_cons, List.mem_nil_iff, or_false] at hy; omega
    exact sampleRow_ok lum w h (h * y / 5) hsz (by
      have : h * y ≤ h * 4 := Nat.mul_le_mul_left h hy'
      omega)
  obtain ⟨rows, hrows⟩ := this
  exact ⟨rows.flatten, by simp only [samples, hrows]⟩

/-- `GlobalHistogramBinarizer.GetBlackMatrix` never panics; it answers NotFound or sets exactly the pixels
    below a black point that lies in `[8, 240]` -/
theorem globalSets_spec (lum : Array Nat) (w h : Nat) (hsz : lum.size = w * h) (hw : 1 ≤ w) (hh : 1 ≤ h) :
    globalSets lum w h = .error .notFound ∨
    ∃ sets bp, globalSets lum w h = .ok sets ∧ 8 ≤ bp ∧ bp ≤ 240 ∧
      ∀ X Y, (X, Y) ∈ sets ↔ (X < w ∧ Y < h ∧ ∃ p, lum[Y * w + X]? = some p ∧ p % 256 < bp) := by
  obtain ⟨ps, hps⟩ := samples_ok lum w h hsz hh
  unfold globalSets
  have hn : ¬ (w < 1 ∨ h < 1) := by omega
  simp only [hn, if_false, hps]
  cases hbp : estimateBlackPoint (histogram ps) with
  | error e =>
    left
    -- the only error of estimateBlackPoint is NotFound
    unfold estimateBlackPoint at hbp
    simp only at hbp
    split at hbp
    · cases hbp; rfl
    · cases hbp
  | ok bp =>
    right
    have hl : (histogram ps).length = 32 := by simp [histogram, LUMINANCE_BUCKETS]
    obtain ⟨b1, b2⟩ := estimateBlackPoint_bounds _ bp (by omega) hbp
    rw [hl] at b2
    obtain ⟨sets, hsets, hmem⟩ := scanRect_spec lum w h 0 0 w h (fun p => decide (p < bp)) hsz
      (by omega) (by omega)
    refine ⟨sets, bp, hsets, b1, by omega, ?_⟩
    intro X Y
    rw [hmem X Y]
    simp

end Gzx.Binarizer

namespace Gzx.Binarizer
open Gzx

/-! ## black rows -/

theorem sharpen_length (bp : Nat) : ∀ row : List Nat, (sharpen bp row).length = row.length - 2
  | [] => by simp [sharpen]
  | [_] => by simp [sharpen]
  | [_, _] => by simp [sharpen]
  | l :: c :: r :: rest => by
    have := sharpen_length bp (c :: r :: rest)
    simp only [sharpen, List.length_cons] at this ⊢
    omega

theorem sharpen_get (bp : Nat) : ∀ (row : List Nat) (i : Nat) (h : i + 2 < row.length),
    (sharpen bp row)[i]? =
      some (decide (Int.tdiv ((row[i + 1] : Int) * 4 - (row[i] : Int) - (row[i + 2] : Int)) 2 < bp))
  | [], i, h => by simp at h
  | [_], i, h => by simp at h
  | [_, _], i, h => by simp only [List.length_cons, List.length_nil] at h; omega
  | l :: c :: r :: rest, 0, h => by simp [sharpen]
  | l :: c :: r :: rest, i + 1, h => by
    have := sharpen_get bp (c :: r :: rest) i (by simp only [List.length_cons] at h ⊢; omega)
    simp only [sharpen, List.getElem?_cons_succ, List.getElem_cons_succ]
    exact this

theorem sharpen_bilevel_decision (bp : Nat) (h1 : 8 ≤ bp) (h2 : bp ≤ 240) (a b c : Nat)
    (ha : a = 0 ∨ a = 255) (hb : b = 0 ∨ b = 255) (hc : c = 0 ∨ c = 255) :
    decide (Int.tdiv ((c : Int) * 4 - a - b) 2 < bp) = decide (c = 0) := by
  rcases ha with rfl | rfl <;> rcases hb with rfl | rfl <;> rcases hc with rfl | rfl <;> simp <;> omega

theorem blackRow_error (row : List Nat) (e : Fault) (h : blackRow row = .error e) : e = .notFound := by
  unfold blackRow at h
  split at h
  · rename_i e' he
    cases h
    unfold estimateBlackPoint at he
    simp only at he
    split at he
    · cases he; rfl
    · cases he
  · split at h <;> cases h

end Gzx.Binarizer

namespace Gzx.Binarizer
open Gzx

/-! ## rendering: the bit picture has bit (X, Y) set iff `Set(X, Y)` was called -/

theorem idx_inj (w x y X Y : Nat) (hx : x < w) (hX : X < w) (h : y * w + x = Y * w + X) : x = X ∧ y = Y := by
  have h1 : (x + y * w) % w = (X + Y * w) % w := by rw [Nat.add_comm x, Nat.add_comm X, h]
  rw [Nat.add_mul_mod_self_right, Nat.add_mul_mod_self_right, Nat.mod_eq_of_lt hx, Nat.mod_eq_of_lt hX] at h1
  subst h1
  have h2 : y * w = Y * w := by omega
  have hw : 0 < w := by omega
  exact ⟨rfl, Nat.eq_of_mul_eq_mul_right hw h2⟩

theorem render_fold (w h : Nat) (X Y : Nat) (hX : X < w) (hY : Y < h) (sets : List (Nat × Nat)) :
    ∀ (a : Array Bool), a.size = w * h →
      (sets.foldl (fun a (p : Nat × Nat) => if p.1 < w then a.setIfInBounds (p.2 * w + p.1) true else a) a)[Y * w + X]? =
        some ((a[Y * w + X]?).getD false || decide ((X, Y) ∈ sets)) := by
  have hi : Y * w + X < w * h := idx_lt w h X Y hX hY
  induction sets with
  | nil => intro a ha; simp [ha, hi]
  | cons p rest ih =>
    intro a ha
    obtain ⟨x, y⟩ := p
    simp only [List.foldl_cons]
    by_cases hx : x < w
    · simp only [hx, if_true]
      rw [ih _ (by simp [ha])]
      congr 1
      rw [Array.getElem?_setIfInBounds]
      by_cases he : y * w + x = Y * w + X
      · obtain ⟨rfl, rfl⟩ := idx_inj w x y X Y hx hX he
        simp [ha, hi]
      · have hne : (X, Y) ≠ (x, y) := by
          intro hc; cases hc; exact he rfl
        simp [he, hne]
    · have hne : (X, Y) ≠ (x, y) := by
        intro hc; cases hc; exact hx hX
      simp only [hx, if_false]
      rw [ih a ha]
      simp [hne]

theorem render_spec (w h : Nat) (sets : List (Nat × Nat)) (X Y : Nat) (hX : X < w) (hY : Y < h) :
    (render w h sets)[Y * w + X]? = some (decide ((X, Y) ∈ sets)) := by
  unfold render
  rw [render_fold w h X Y hX hY sets _ (by simp)]
  have hi : Y * w + X < w * h := idx_lt w h X Y hX hY
  simp [hi]

end Gzx.Binarizer
