/-
  Helper lemmas for Properties/C06.lean : bounds-safety and arithmetic of the BitSource model.
-/
import Gzx.Model.BitSource
namespace Gzx.BitSource

theorem byteAt_ok (s : BitSource) (i : Nat) (h : i < s.bytes.length) :
    ∃ b, byteAt s i = .ok b := by
  unfold byteAt
  have : s.bytes[i]? = some s.bytes[i] := List.getElem?_eq_getElem h
  rw [this]
  exact ⟨_, rfl⟩

theorem shl_or_lt (a x t m : Nat) (ha : a < 2 ^ t) (hx : x < 2 ^ m) :
    (a <<< m) ||| x < 2 ^ (t + m) := by
  apply Nat.or_lt_two_pow
  · rw [Nat.shiftLeft_eq, Nat.pow_add]
    exact Nat.mul_lt_mul_of_lt_of_le ha (Nat.le_refl _) (Nat.two_pow_pos m)
  · calc x < 2 ^ m := hx
      _ ≤ 2 ^ (t + m) := Nat.pow_le_pow_right (by decide) (by omega)

/-- the whole-byte loop never leaves the buffer when `off + k ≤ len`; it advances by `k` bytes
    and appends `8k` bits to the accumulator -/
theorem readWhole_ok (s : BitSource) :
    ∀ (k off acc t : Nat), off + k ≤ s.bytes.length → acc < 2 ^ t →
      ∃ v, readWhole s k off acc = .ok (v, off + k) ∧ v < 2 ^ (t + 8 * k) := by
  intro k
  induction k with
  | zero =>
    intro off acc t _ hacc
    exact ⟨acc, by simp [readWhole], by simpa using hacc⟩
  | succ k ih =>
    intro off acc t hlen hacc
    obtain ⟨b, hb⟩ := byteAt_ok s off (by omega)
    have hand : b &&& 0xFF < 2 ^ 8 := Nat.and_lt_two_pow b (by decide : 0xFF < 2 ^ 8)
    have hacc' : (acc <<< 8) ||| (b &&& 0xFF) < 2 ^ (t + 8) := shl_or_lt acc _ t 8 hacc hand
    obtain ⟨v, hv, hvb⟩ := ih (off + 1) ((acc <<< 8) ||| (b &&& 0xFF)) (t + 8) (by omega) hacc'
    refine ⟨v, ?_, ?_⟩
    · simp only [readWhole, hb]
      rw [hv]
      congr 2
      omega
    · have : t + 8 + 8 * k = t + 8 * (k + 1) := by omega
      rw [← this]; exact hvb

/-- phase 1 stays inside the buffer and accounts for exactly the bits it consumed -/
theorem readFirst_ok (s : BitSource) (hs : WF s) (n : Nat) (hn : 1 ≤ n)
    (hav : n + s.bitOffset ≤ 8 * (s.bytes.length - s.byteOffset)) :
    ∃ r n1 byo bio, readFirst s n = .ok (r, n1, byo, bio) ∧ n1 ≤ n ∧ r < 2 ^ (n - n1) ∧
      8 * byo + bio + n1 = 8 * s.byteOffset + s.bitOffset + n ∧ bio < 8 ∧ (n1 > 0 → bio = 0) ∧
      (bio > 0 → byo < s.bytes.length) ∧ 8 * byo + bio + n1 ≤ 8 * s.bytes.length := by
  obtain ⟨h8, hle, hlt⟩ := hs
  unfold readFirst
  by_cases hb : s.bitOffset > 0
  · simp only [hb, if_true]
    obtain ⟨b, hbyte⟩ := byteAt_ok s s.byteOffset (hlt hb)
    simp only [hbyte]
    have hlen := hlt hb
    by_cases hsmall : n < 8 - s.bitOffset
    · simp only [hsmall, if_true]
      have hne : ¬ (s.bitOffset + n = 8) := by omega
      simp only [hne, if_false]
      refine ⟨_, _, _, _, rfl, by omega, ?_, by omega, by omega, by omega, fun _ => hlen, by omega⟩
      have : n - (n - n) = n := by omega
      rw [this]
      exact Nat.mod_lt _ (Nat.two_pow_pos n)
    · simp only [hsmall, if_false]
      have he : s.bitOffset + (8 - s.bitOffset) = 8 := by omega
      simp only [he, if_true]
      refine ⟨_, _, _, _, rfl, by omega, ?_, by omega, by omega, by omega, by omega, by omega⟩
      have : n - (n - (8 - s.bitOffset)) = 8 - s.bitOffset := by omega
      rw [this]
      exact Nat.mod_lt _ (Nat.two_pow_pos _)
  · simp only [hb, if_false]
    have h0 : s.bitOffset = 0 := by omega
    refine ⟨0, n, s.byteOffset, 0, rfl, by omega, ?_, by omega, by omega, by omega, by omega, by omega⟩
    simp

/-- phases 2 and 3 stay inside the buffer -/
theorem readRest_ok (s : BitSource) (r n1 byo bio t : Nat) (hr : r < 2 ^ t)
    (hbio : bio < 8) (hz : n1 > 0 → bio = 0) (hin : bio > 0 → byo < s.bytes.length)
    (hav : 8 * byo + bio + n1 ≤ 8 * s.bytes.length) :
    ∃ v s', readRest s r n1 byo bio = .ok (v, s') ∧ v < 2 ^ (t + n1) ∧
      position s' = 8 * byo + bio + n1 ∧ WF s' ∧ s'.bytes = s.bytes := by
  unfold readRest
  by_cases hn1 : n1 > 0
  · simp only [hn1, if_true]
    have hb0 : bio = 0 := hz hn1
    subst hb0
    obtain ⟨v, hv, hvb⟩ := readWhole_ok s (n1 / 8) byo r t (by omega) hr
    simp only [hv]
    by_cases hn2 : n1 % 8 > 0
    · simp only [hn2, if_true]
      obtain ⟨b, hbyte⟩ := byteAt_ok s (byo + n1 / 8) (by omega)
      simp only [hbyte]
      refine ⟨_, _, rfl, ?_, ?_, ?_, rfl⟩
      · have hx : (b >>> (8 - n1 % 8)) % 2 ^ (n1 % 8) < 2 ^ (n1 % 8) := Nat.mod_lt _ (Nat.two_pow_pos _)
        have := shl_or_lt v _ (t + 8 * (n1 / 8)) (n1 % 8) hvb hx
        have e : t + 8 * (n1 / 8) + n1 % 8 = t + n1 := by omega
        rw [e] at this; exact this
      · simp only [position]; omega
      · refine ⟨?_, ?_, ?_⟩ <;> simp only <;> omega
    · simp only [hn2, if_false]
      refine ⟨_, _, rfl, ?_, ?_, ?_, rfl⟩
      · have e : t + 8 * (n1 / 8) = t + n1 := by omega
        rw [e] at hvb; exact hvb
      · simp only [position]; omega
      · refine ⟨?_, ?_, ?_⟩ <;> simp only <;> omega
  · simp only [hn1, if_false]
    have : n1 = 0 := by omega
    subst this
    refine ⟨r, _, rfl, by simpa using hr, ?_, ?_, rfl⟩
    · simp only [position]; omega
    · refine ⟨?_, ?_, ?_⟩ <;> simp only
      · exact hbio
      · omega
      · exact hin

end Gzx.BitSource
