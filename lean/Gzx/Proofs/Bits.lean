/-
  Helper lemmas for C16: 32-bit word primitives as `Nat.testBit` facts, the bit-stream view
  `bitAt`, and the per-operation refinement lemmas (word model vs naive model).
-/
import Gzx.Model.Bits
namespace Gzx.Bits
open Gzx

/-! ## word primitives -/

theorem W32_eq : W32 = 2 ^ 32 := by decide

theorem testBit_not32 (v j : Nat) : (not32 v).testBit j = (v.testBit j ^^ decide (j < 32)) := by
  unfold not32
  rw [Nat.testBit_xor]
  have : (4294967295 : Nat) = 2 ^ 32 - 1 := by decide
  rw [this, Nat.testBit_two_pow_sub_one]

theorem not32_lt {v : Nat} (h : v < W32) : not32 v < W32 := by
  unfold not32
  rw [W32_eq] at *
  exact Nat.xor_lt_two_pow h (by decide)

theorem and_two_pow_ne_zero (w k : Nat) : ((w &&& 2 ^ k) != 0) = w.testBit k := by
  cases h : w.testBit k
  · have : w &&& 2 ^ k = 0 := by
      apply Nat.eq_of_testBit_eq
      intro i
      rw [Nat.testBit_and, Nat.testBit_two_pow, Nat.zero_testBit]
      by_cases hki : k = i
      · subst hki; simp [h]
      · simp [hki]
    simp [this]
  · have : (w &&& 2 ^ k).testBit k = true := by
      rw [Nat.testBit_and, Nat.testBit_two_pow]; simp [h]
    have hne : w &&& 2 ^ k ≠ 0 := by
      intro h0; rw [h0, Nat.zero_testBit] at this; cases this
    simp [hne]

theorem shr_and_one_ne_zero (w k : Nat) : (((w >>> k) &&& 1) != 0) = w.testBit k := by
  unfold Nat.testBit
  rw [Nat.and_comm]

theorem testBit_shl32 (v k j : Nat) :
    (shl32 v k).testBit j = (decide (j < 32) && (decide (k ≤ j) && v.testBit (j - k))) := by
  unfold shl32
  rw [W32_eq, Nat.testBit_mod_two_pow, Nat.testBit_shiftLeft]

theorem shl32_lt (v k : Nat) : shl32 v k < W32 := by
  unfold shl32; exact Nat.mod_lt _ (by decide)

/-- `uint32(2^(l+1) - 2^f)` has exactly the bits `f..l` -/
theorem testBit_pow_sub_pow (f l j : Nat) (hfl : f ≤ l + 1) :
    (2 ^ (l + 1) - 2 ^ f).testBit j = (decide (f ≤ j) && decide (j < l + 1)) := by
  have h1 : 2 ^ (l + 1) - 2 ^ f = (2 ^ (l + 1 - f) - 1) * 2 ^ f := by
    rw [Nat.sub_mul, ← Nat.pow_add, Nat.one_mul]
    congr 2; omega
  rw [h1, Nat.testBit_mul_two_pow, Nat.testBit_two_pow_sub_one]
  by_cases hfj : f ≤ j
  · simp [hfj]; omega
  · simp [hfj]

theorem testBit_neg32_two_pow (k j : Nat) (hk : k < 32) :
    (neg32 (2 ^ k)).testBit j = (decide (k ≤ j) && decide (j < 32)) := by
  unfold neg32
  have hlt : 2 ^ k < W32 := by rw [W32_eq]; exact Nat.pow_lt_pow_right (by decide) hk
  have hpos : 0 < 2 ^ k := Nat.pow_pos (by decide)
  rw [Nat.mod_eq_of_lt hlt, Nat.mod_eq_of_lt (by omega), W32_eq]
  exact testBit_pow_sub_pow k 31 j (by omega)

theorem neg32_lt (v : Nat) : neg32 v < W32 := by
  unfold neg32; exact Nat.mod_lt _ (by decide)

/-! ### Reverse32 -/

theorem revBits_lt (n w : Nat) : revBits n w < 2 ^ n := by
  induction n generalizing w with
  | zero => simp [revBits]
  | succ n ih =>
    unfold revBits
    have h1 := ih (w / 2)
    have h2 : w % 2 < 2 := Nat.mod_lt _ (by decide)
    have h3 : w % 2 * 2 ^ n ≤ 1 * 2 ^ n := Nat.mul_le_mul_right _ (by omega)
    rw [Nat.pow_succ]; omega

theorem testBit_revBits (n w j : Nat) :
    (revBits n w).testBit j = (decide (j < n) && w.testBit (n - 1 - j)) := by
  induction n generalizing w j with
  | zero => simp [revBits]
  | succ n ih =>
    unfold revBits
    rw [Nat.mul_comm, Nat.testBit_two_pow_mul_add _ (revBits_lt n (w / 2))]
    by_cases hjn : j < n
    · simp only [hjn, if_true]
      rw [ih, Nat.testBit_div_two]
      have : n - 1 - j + 1 = n + 1 - 1 - j := by omega
      rw [this]; simp [hjn]; omega
    · simp only [hjn, if_false]
      by_cases hj : j = n
      · subst hj
        have : j + 1 - 1 - j = 0 := by omega
        rw [this]; simp [Nat.testBit_zero]
      · have hlt : ¬ j < n + 1 := by omega
        have h2 : w % 2 < 2 ^ (j - n) := by
          have : w % 2 < 2 := Nat.mod_lt _ (by decide)
          have : 2 ^ 1 ≤ 2 ^ (j - n) := Nat.pow_le_pow_right (by decide) (by omega)
          omega
        simp [hlt, Nat.testBit_lt_two_pow h2]

theorem testBit_rev32 (w j : Nat) : (rev32 w).testBit j = (decide (j < 32) && w.testBit (31 - j)) := by
  unfold rev32; rw [testBit_revBits]

theorem rev32_lt (w : Nat) : rev32 w < W32 := by
  rw [W32_eq]; exact revBits_lt 32 w

/-! ### TrailingZeros32 -/

theorem ctz_spec (fuel w : Nat) (hw : w ≠ 0) (hlt : w < 2 ^ fuel) :
    w.testBit (ctz fuel w) = true ∧ ∀ j, j < ctz fuel w → w.testBit j = false := by
  induction fuel generalizing w with
  | zero => simp at hlt; omega
  | succ f ih =>
    unfold ctz
    by_cases h1 : w % 2 = 1
    · simp only [h1, if_true]
      refine ⟨?_, fun j hj => by omega⟩
      rw [Nat.testBit_zero]; simp [h1]
    · simp only [h1, if_false]
      have hw2 : w / 2 ≠ 0 := by omega
      have hlt2 : w / 2 < 2 ^ f := by rw [Nat.pow_succ] at hlt; omega
      obtain ⟨a, b⟩ := ih (w / 2) hw2 hlt2
      constructor
      · rw [Nat.add_comm, ← Nat.testBit_div_two]; exact a
      · intro j hj
        cases j with
        | zero => rw [Nat.testBit_zero]; simp; omega
        | succ j => rw [← Nat.testBit_div_two]; exact b j (by omega)

theorem tz32_spec (w : Nat) (hw : w ≠ 0) (hlt : w < W32) :
    w.testBit (tz32 w) = true ∧ ∀ j, j < tz32 w → w.testBit j = false :=
  ctz_spec 32 w hw (by rw [← W32_eq]; exact hlt)

theorem tz32_lt (w : Nat) (hw : w ≠ 0) (hlt : w < W32) : tz32 w < 32 := by
  have h := (tz32_spec w hw hlt).1
  false_or_by_contra
  rename_i hge
  have : w < 2 ^ (tz32 w) := by
    have : 2 ^ 32 ≤ 2 ^ tz32 w := Nat.pow_le_pow_right (by decide) (by omega)
    rw [W32_eq] at hlt; omega
  rw [Nat.testBit_lt_two_pow this] at h; cases h

/-! ## the bit stream of a word list -/

theorem bitAt_set (ws : List Nat) (k v g : Nat) (hk : k < ws.length) :
    bitAt (ws.set k v) g = if g / 32 = k then v.testBit (g % 32) else bitAt ws g := by
  unfold bitAt
  rw [List.getElem?_set]
  by_cases h : g / 32 = k
  · subst h; simp [hk]
  · have : ¬ k = g / 32 := fun e => h e.symm
    simp [h, this]

theorem bitAt_of_ge (ws : List Nat) (g : Nat) (h : ws.length * 32 ≤ g) : bitAt ws g = false := by
  unfold bitAt
  have : ws.length ≤ g / 32 := by omega
  rw [List.getElem?_eq_none this]; simp

theorem bitAt_eq_testBit (ws : List Nat) (k j : Nat) (hj : j < 32) :
    bitAt ws (k * 32 + j) = (ws[k]?.getD 0).testBit j := by
  unfold bitAt
  have h1 : (k * 32 + j) / 32 = k := by omega
  have h2 : (k * 32 + j) % 32 = j := by omega
  rw [h1, h2]


theorem two_pow_lt_W32 {b : Nat} (hb : b < 32) : 2 ^ b < W32 := by
  rw [W32_eq]; exact Nat.pow_lt_pow_right (by decide) hb

theorem wordAt_ok (ws : List Nat) (k : Nat) (hk : k < ws.length) : wordAt ws k = .ok ws[k] := by
  unfold wordAt; rw [List.getElem?_eq_getElem hk]

theorem updWord_ok (ws : List Nat) (k : Nat) (f : Nat → Nat) (hk : k < ws.length) :
    updWord ws k f = .ok (ws.set k (f ws[k])) := by
  unfold updWord; rw [List.getElem?_eq_getElem hk]

theorem setWord_ok (ws : List Nat) (k v : Nat) (hk : k < ws.length) :
    setWord ws k v = .ok (ws.set k v) := by
  unfold setWord; simp [hk]

theorem bitAt_getElem (ws : List Nat) (g : Nat) (h : g / 32 < ws.length) :
    bitAt ws g = (ws[g / 32]).testBit (g % 32) := by
  unfold bitAt; rw [List.getElem?_eq_getElem h]; rfl

/-- global-bit view of `ws[k] |= 1<<b` -/
theorem bitAt_set_or (ws : List Nat) (k b g : Nat) (hk : k < ws.length) (hb : b < 32) :
    bitAt (ws.set k (ws[k] ||| 1 <<< b)) g = (bitAt ws g || decide (g = k * 32 + b)) := by
  rw [bitAt_set _ _ _ _ hk, Nat.one_shiftLeft]
  by_cases h : g / 32 = k
  · subst h
    rw [if_pos rfl, Nat.testBit_or, Nat.testBit_two_pow, bitAt_getElem ws g hk]
    congr 1
    by_cases h2 : b = g % 32
    · simp [h2]; omega
    · simp [h2]; omega
  · rw [if_neg h]
    have : ¬ g = k * 32 + b := by omega
    simp [this]

theorem bitAt_set_xor (ws : List Nat) (k b g : Nat) (hk : k < ws.length) (hb : b < 32) :
    bitAt (ws.set k (ws[k] ^^^ 1 <<< b)) g = (bitAt ws g ^^ decide (g = k * 32 + b)) := by
  rw [bitAt_set _ _ _ _ hk, Nat.one_shiftLeft]
  by_cases h : g / 32 = k
  · subst h
    rw [if_pos rfl, Nat.testBit_xor, Nat.testBit_two_pow, bitAt_getElem ws g hk]
    congr 1
    by_cases h2 : b = g % 32
    · simp [h2]; omega
    · simp [h2]; omega
  · rw [if_neg h]
    have : ¬ g = k * 32 + b := by omega
    simp [this]

theorem bitAt_set_andnot (ws : List Nat) (k b g : Nat) (hk : k < ws.length) (hb : b < 32) :
    bitAt (ws.set k (ws[k] &&& not32 (1 <<< b))) g = (bitAt ws g && !decide (g = k * 32 + b)) := by
  rw [bitAt_set _ _ _ _ hk, Nat.one_shiftLeft]
  by_cases h : g / 32 = k
  · subst h
    rw [if_pos rfl, Nat.testBit_and, testBit_not32, Nat.testBit_two_pow, bitAt_getElem ws g hk]
    congr 1
    have h32 : g % 32 < 32 := Nat.mod_lt _ (by decide)
    by_cases h2 : b = g % 32
    · simp [h2, h32]; omega
    · simp [h2, h32]; omega
  · rw [if_neg h]
    have : ¬ g = k * 32 + b := by omega
    simp [this]

theorem words_lt_set {ws : List Nat} {k v : Nat} (h : ∀ w ∈ ws, w < W32) (hv : v < W32) :
    ∀ w ∈ ws.set k v, w < W32 := by
  intro w hw
  rcases List.mem_or_eq_of_mem_set hw with h1 | h1
  · exact h w h1
  · exact h1 ▸ hv

theorem or_lt_W32 {x y : Nat} (hx : x < W32) (hy : y < W32) : x ||| y < W32 := by
  rw [W32_eq] at *; exact Nat.or_lt_two_pow hx hy
theorem xor_lt_W32 {x y : Nat} (hx : x < W32) (hy : y < W32) : x ^^^ y < W32 := by
  rw [W32_eq] at *; exact Nat.xor_lt_two_pow hx hy
theorem and_lt_W32 {x y : Nat} (hx : x < W32) : x &&& y < W32 :=
  Nat.lt_of_le_of_lt Nat.and_le_left hx
theorem one_shl_lt_W32 {b : Nat} (hb : b < 32) : 1 <<< b < W32 := by
  rw [Nat.one_shiftLeft]; exact two_pow_lt_W32 hb

/-! ## BitArray: abstraction facts -/

theorem absA_length (a : WArr) : (absA a).length = a.size := by simp [absA]

theorem absA_getElem? (a : WArr) (i : Nat) :
    (absA a)[i]? = if i < a.size then some (bitAt a.words i) else none := by
  unfold absA
  rw [List.getElem?_map]
  by_cases h : i < a.size
  · rw [List.getElem?_range h]; simp [h]
  · rw [List.getElem?_eq_none (by simp; omega)]; simp [h]

/-- word result refines spec result -/
def RefinesA (r : Res WArr) (s : SArr) : Prop := ∃ a', r = .ok a' ∧ InvA a' ∧ absA a' = s

/-- to show `absA a' = s`: same length and same bits -/
theorem absA_eq_of (a' : WArr) (s : SArr) (hl : s.length = a'.size)
    (hb : ∀ i, i < a'.size → s[i]? = some (bitAt a'.words i)) : absA a' = s := by
  apply List.ext_getElem?
  intro i
  rw [absA_getElem?]
  by_cases h : i < a'.size
  · rw [if_pos h, hb i h]
  · rw [if_neg h, List.getElem?_eq_none (by omega)]

theorem InvA.idx {a : WArr} (h : InvA a) {i : Nat} (hi : i < a.size) : i / 32 < a.words.length := by
  have := h.1; omega

end Gzx.Bits
