/-
  C16 helper lemmas: refinement of the BitArray word operations.
-/
import Gzx.Proofs.Bits
namespace Gzx.Bits
open Gzx

namespace WArr

theorem get_refines (a : WArr) (i : Nat) (h : InvA a) (hi : i < a.size) :
    a.get i = .ok (SArr.get (absA a) i) := by
  have hk := h.idx hi
  unfold WArr.get
  rw [wordAt_ok _ _ hk]
  simp only [bind, Except.bind, pure, Except.pure]
  rw [Nat.one_shiftLeft, and_two_pow_ne_zero]
  unfold SArr.get
  rw [absA_getElem?, if_pos hi, bitAt_getElem _ _ hk]; rfl

/-- `Get` reads the stream bit whenever the word exists (also beyond `size`) -/
theorem get_eq_bitAt (a : WArr) (i : Nat) (hk : i / 32 < a.words.length) :
    a.get i = .ok (bitAt a.words i) := by
  unfold WArr.get
  rw [wordAt_ok _ _ hk]
  simp only [bind, Except.bind, pure, Except.pure]
  rw [Nat.one_shiftLeft, and_two_pow_ne_zero, bitAt_getElem _ _ hk]

theorem set_refines (a : WArr) (i : Nat) (h : InvA a) (hi : i < a.size) :
    RefinesA (a.set i) (SArr.set (absA a) i) := by
  have hk := h.idx hi
  have hb : i % 32 < 32 := Nat.mod_lt _ (by decide)
  unfold WArr.set
  rw [updWord_ok _ _ _ hk]
  refine ⟨_, rfl, ⟨?_, ?_, ?_⟩, ?_⟩
  · simpa using h.1
  · exact words_lt_set h.2.1 (or_lt_W32 (h.2.1 _ (List.getElem_mem hk)) (one_shl_lt_W32 hb))
  · intro g hg
    show bitAt (a.words.set _ _) g = false
    rw [bitAt_set_or _ _ _ _ hk hb, h.2.2 g hg]
    have : ¬ g = i / 32 * 32 + i % 32 := by have := h.1; simp at hg; omega
    simp [this]
  · apply absA_eq_of
    · simp [SArr.set, absA_length]
    · intro g hg
      show _ = some (bitAt (a.words.set _ _) g)
      rw [bitAt_set_or _ _ _ _ hk hb]
      unfold SArr.set
      rw [List.getElem?_set, absA_length, absA_getElem?]
      have hg' : g < a.size := hg
      by_cases e : i = g
      · subst e
        have : i = i / 32 * 32 + i % 32 := by omega
        simp [hi, ← this]
      · have : ¬ g = i / 32 * 32 + i % 32 := by omega
        simp [e, hg', this]

theorem flip_refines (a : WArr) (i : Nat) (h : InvA a) (hi : i < a.size) :
    RefinesA (a.flip i) (SArr.flip (absA a) i) := by
  have hk := h.idx hi
  have hb : i % 32 < 32 := Nat.mod_lt _ (by decide)
  unfold WArr.flip
  rw [updWord_ok _ _ _ hk]
  refine ⟨_, rfl, ⟨?_, ?_, ?_⟩, ?_⟩
  · simpa using h.1
  · exact words_lt_set h.2.1 (xor_lt_W32 (h.2.1 _ (List.getElem_mem hk)) (one_shl_lt_W32 hb))
  · intro g hg
    show bitAt (a.words.set _ _) g = false
    rw [bitAt_set_xor _ _ _ _ hk hb, h.2.2 g hg]
    have : ¬ g = i / 32 * 32 + i % 32 := by have := h.1; simp at hg; omega
    simp [this]
  · apply absA_eq_of
    · simp [SArr.flip, absA_length]
    · intro g hg
      show _ = some (bitAt (a.words.set _ _) g)
      rw [bitAt_set_xor _ _ _ _ hk hb]
      unfold SArr.flip
      rw [List.getElem?_modify, absA_getElem?]
      have hg' : g < a.size := hg
      by_cases e : i = g
      · subst e
        have : i = i / 32 * 32 + i % 32 := by omega
        simp [hi, ← this]
      · have : ¬ g = i / 32 * 32 + i % 32 := by omega
        simp [e, hg', this]

theorem clear_refines (a : WArr) (h : InvA a) :
    InvA a.clear ∧ absA a.clear = SArr.clear (absA a) := by
  have hz : ∀ g, bitAt (a.words.map (fun _ => 0)) g = false := by
    intro g; unfold bitAt
    rw [List.getElem?_map]
    cases a.words[g / 32]? <;> simp
  refine ⟨⟨?_, ?_, ?_⟩, ?_⟩
  · simpa [WArr.clear] using h.1
  · intro w hw; simp [WArr.clear] at hw; rw [← hw.2]; decide
  · intro g _; exact hz g
  · apply absA_eq_of
    · simp [SArr.clear, absA_length, WArr.clear]
    · intro g hg
      have hg' : g < a.size := hg
      show _ = some (bitAt (a.words.map (fun _ => 0)) g)
      rw [hz]
      simp [SArr.clear, absA_length, hg']

/-- `SetBulk(i, v)`: in range means `i < size`, `v` is a 32-bit value without bits beyond `size` -/
theorem setBulk_refines (a : WArr) (i v : Nat) (h : InvA a) (hi : i < a.size) (hv : v < W32)
    (hpad : ∀ j, j < 32 → a.size ≤ i / 32 * 32 + j → v.testBit j = false) :
    RefinesA (a.setBulk i v) (SArr.setBulk (absA a) i v) := by
  have hk := h.idx hi
  unfold WArr.setBulk
  rw [setWord_ok _ _ _ hk]
  refine ⟨_, rfl, ⟨?_, ?_, ?_⟩, ?_⟩
  · simpa using h.1
  · exact words_lt_set h.2.1 hv
  · intro g hg
    show bitAt (a.words.set _ _) g = false
    rw [bitAt_set _ _ _ _ hk]
    by_cases e : g / 32 = i / 32
    · rw [if_pos e]
      exact hpad (g % 32) (Nat.mod_lt _ (by decide)) (by have : a.size ≤ g := hg; omega)
    · rw [if_neg e]; exact h.2.2 g hg
  · apply absA_eq_of
    · simp [SArr.setBulk, absA_length]
    · intro g hg
      have hg' : g < a.size := hg
      show _ = some (bitAt (a.words.set _ _) g)
      rw [bitAt_set _ _ _ _ hk]
      unfold SArr.setBulk
      rw [List.getElem?_mapIdx, absA_getElem?, if_pos hg']
      by_cases e : g / 32 = i / 32 <;> simp [e]


theorem bitAt_append_zeros (ws : List Nat) (k g : Nat) :
    bitAt (ws ++ List.replicate k 0) g = bitAt ws g := by
  unfold bitAt
  rw [List.getElem?_append]
  by_cases h : g / 32 < ws.length
  · rw [if_pos h]
  · rw [if_neg h, List.getElem?_eq_none (Nat.le_of_not_lt h), List.getElem?_replicate]
    split <;> simp

theorem ensureCapacity_words (a : WArr) (n : Nat) :
    ∃ k, (ensureCapacity a n).words = a.words ++ List.replicate k 0 ∧
      n ≤ (a.words.length + k) * 32 := by
  unfold ensureCapacity
  by_cases hgt : n > a.words.length * 32
  · rw [if_pos hgt]
    refine ⟨(n + 31) / 32 - a.words.length, ?_, by omega⟩
    simp only [copyInto, makeArray, List.length_replicate, List.drop_replicate]
    rw [List.take_of_length_le (by omega)]
  · rw [if_neg hgt]; exact ⟨0, by simp, by omega⟩

theorem ensureCapacity_size (a : WArr) (n : Nat) : (ensureCapacity a n).size = a.size := by
  unfold ensureCapacity; split <;> rfl

theorem ensureCapacity_inv (a : WArr) (n : Nat) (h : InvA a) :
    InvA (ensureCapacity a n) ∧ n ≤ (ensureCapacity a n).words.length * 32 ∧
    (∀ g, bitAt (ensureCapacity a n).words g = bitAt a.words g) := by
  obtain ⟨k, hw, hn⟩ := ensureCapacity_words a n
  have hb : ∀ g, bitAt (ensureCapacity a n).words g = bitAt a.words g := by
    intro g; rw [hw, bitAt_append_zeros]
  refine ⟨⟨?_, ?_, ?_⟩, ?_, hb⟩
  · rw [ensureCapacity_size, hw]; have := h.1; simp; omega
  · intro w hmem
    rw [hw] at hmem
    rcases List.mem_append.mp hmem with h1 | h1
    · exact h.2.1 w h1
    · rw [(List.mem_replicate.mp h1).2]; decide
  · intro g hg; rw [hb]; rw [ensureCapacity_size] at hg; exact h.2.2 g hg
  · rw [hw]; simpa using hn

theorem appendBit_refines (a : WArr) (bit : Bool) (h : InvA a) :
    RefinesA (a.appendBit bit) (SArr.appendBit (absA a) bit) := by
  obtain ⟨h1, hcap, hb1⟩ := ensureCapacity_inv a (a.size + 1) h
  have hsz := ensureCapacity_size a (a.size + 1)
  unfold WArr.appendBit
  generalize ensureCapacity a (a.size + 1) = a1 at *
  have hk : a1.size / 32 < a1.words.length := by omega
  have hb : a1.size % 32 < 32 := Nat.mod_lt _ (by decide)
  have hspec : ∀ (ws : List Nat), (∀ g, bitAt ws g = (bitAt a1.words g || (bit && decide (g = a1.size)))) →
      ws.length = a1.words.length → (∀ w ∈ ws, w < W32) →
      InvA ⟨ws, a1.size + 1⟩ ∧ absA ⟨ws, a1.size + 1⟩ = SArr.appendBit (absA a) bit := by
    intro ws hws hlen hlt
    refine ⟨⟨?_, hlt, ?_⟩, ?_⟩
    · show a1.size + 1 ≤ ws.length * 32; omega
    · intro g hg
      have hg' : a1.size + 1 ≤ g := hg
      rw [hws, h1.2.2 g (by omega)]
      have : ¬ g = a1.size := by omega
      simp [this]
    · apply absA_eq_of
      · simp [SArr.appendBit, absA_length]; omega
      · intro g hg
        have hg' : g < a1.size + 1 := hg
        show _ = some (bitAt ws g)
        rw [hws]
        unfold SArr.appendBit
        rw [List.getElem?_append, absA_length, absA_getElem?]
        by_cases e : g < a.size
        · have : ¬ g = a1.size := by omega
          simp [e, this, hb1]
        · have e2 : g = a1.size := by omega
          have : g - a.size = 0 := by omega
          rw [if_neg e, this, h1.2.2 g (by omega)]
          simp [e2]
  cases bit with
  | true =>
    simp only [if_true]
    rw [updWord_ok _ _ _ hk]
    refine ⟨_, rfl, hspec _ ?_ (by simp) ?_⟩
    · intro g
      rw [bitAt_set_or _ _ _ _ hk hb]
      have : a1.size / 32 * 32 + a1.size % 32 = a1.size := by omega
      rw [this]; simp
    · exact words_lt_set h1.2.1 (or_lt_W32 (h1.2.1 _ (List.getElem_mem hk)) (one_shl_lt_W32 hb))
  | false =>
    simp only [Bool.false_eq_true, if_false]
    exact ⟨_, rfl, hspec _ (by intro g; simp) rfl h1.2.1⟩

end WArr
end Gzx.Bits
