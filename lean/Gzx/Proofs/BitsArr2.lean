/-
  C16 helper lemmas: SetRange / IsRange / Xor / AppendBits / AppendBitArray / ToBytes.
-/
import Gzx.Proofs.BitsArr
namespace Gzx.Bits
open Gzx

/-- a `foldlM` of in-place word updates over consecutive indices -/
theorem foldlM_updWord_range' (F : Nat → Nat → Nat) (n : Nat) : ∀ (ws : List Nat) (s : Nat),
    s + n ≤ ws.length →
    ∃ ws', (List.range' s n).foldlM (fun ws i => updWord ws i (F i)) ws = .ok ws' ∧
      ws'.length = ws.length ∧
      ∀ k, ws'[k]? = if s ≤ k ∧ k < s + n then (ws[k]?).map (F k) else ws[k]? := by
  induction n with
  | zero =>
    intro ws s _
    refine ⟨ws, by simp [pure, Except.pure], rfl, ?_⟩
    intro k; have : ¬ (s ≤ k ∧ k < s + 0) := by omega
    rw [if_neg this]
  | succ n ih =>
    intro ws s h
    have hs : s < ws.length := by omega
    rw [List.range'_succ, List.foldlM_cons, updWord_ok _ _ _ hs]
    obtain ⟨ws', h1, h2, h3⟩ := ih (ws.set s (F s ws[s])) (s + 1) (by simp; omega)
    refine ⟨ws', ?_, by simpa using h2, ?_⟩
    · simpa [bind, Except.bind] using h1
    · intro k
      rw [h3 k, List.getElem?_set]
      by_cases e : s = k
      · subst e
        have c1 : ¬ (s + 1 ≤ s ∧ s < s + 1 + n) := by omega
        have c2 : s ≤ s ∧ s < s + (n + 1) := by omega
        simp [c1, c2, hs]
      · by_cases c : s + 1 ≤ k ∧ k < s + 1 + n
        · have c2 : s ≤ k ∧ k < s + (n + 1) := by omega
          simp [c, c2, e]
        · have c2 : ¬ (s ≤ k ∧ k < s + (n + 1)) := by omega
          simp [c, c2, e]

theorem testBit_rangeMask (start e i j : Nat) (hfi : start / 32 ≤ i) (hil : i ≤ e / 32)
    (hse : start ≤ e) (hj : j < 32) :
    (WArr.rangeMask start e (start / 32) (e / 32) i).testBit j =
      (decide (start ≤ i * 32 + j) && decide (i * 32 + j ≤ e)) := by
  unfold WArr.rangeMask
  simp only
  generalize hf : (if i = start / 32 then start % 32 else 0) = f
  generalize hl : (if i = e / 32 then e % 32 else 31) = l
  have hl31 : l ≤ 31 := by rw [← hl]; split <;> omega
  have hfl : f ≤ l + 1 := by
    rw [← hf, ← hl]; split <;> split <;> omega
  have e1 : 2 <<< l = 2 ^ (l + 1) := by rw [Nat.shiftLeft_eq, Nat.pow_succ, Nat.mul_comm]
  rw [e1, Nat.one_shiftLeft]
  have hlt : 2 ^ (l + 1) - 2 ^ f < W32 := by
    have : 2 ^ (l + 1) ≤ 2 ^ 32 := Nat.pow_le_pow_right (by decide) (by omega)
    have : 0 < 2 ^ f := Nat.pow_pos (by decide)
    rw [W32_eq]; omega
  rw [Nat.mod_eq_of_lt hlt, testBit_pow_sub_pow f l j hfl]
  rw [Bool.eq_iff_iff]
  simp only [Bool.and_eq_true, decide_eq_true_eq]
  rw [← hf, ← hl]
  split <;> split <;> omega

theorem rangeMask_lt (start e f l i : Nat) : WArr.rangeMask start e f l i < W32 := by
  unfold WArr.rangeMask; exact Nat.mod_lt _ (by decide)

namespace WArr

theorem setRange_refines (a : WArr) (s e : Nat) (h : InvA a) :
    match SArr.setRange (absA a) s e with
    | .ok r => RefinesA (a.setRange s e) r
    | .error err => a.setRange s e = .error err := by
  unfold SArr.setRange WArr.setRange
  rw [absA_length]
  by_cases hbad : e < s ∨ e > a.size
  · simp [hbad]
  · rw [if_neg hbad, if_neg hbad]
    simp only
    by_cases hse : e = s
    · rw [if_pos hse]
      refine ⟨a, rfl, h, ?_⟩
      apply absA_eq_of
      · simp [absA_length]
      · intro g hg
        rw [List.getElem?_mapIdx, absA_getElem?, if_pos hg]
        have : ¬ (s ≤ g ∧ g < e) := by omega
        simp; intro h1 h2; omega
    · rw [if_neg hse]
      have hlen := h.1
      have hrange : s / 32 + ((e - 1) / 32 + 1 - s / 32) ≤ a.words.length := by omega
      obtain ⟨ws', h1, h2, h3⟩ := foldlM_updWord_range'
        (fun i w => w ||| rangeMask s (e - 1) (s / 32) ((e - 1) / 32) i) _ a.words (s / 32) hrange
      rw [h1]
      have hbit : ∀ g, bitAt ws' g = (bitAt a.words g || (decide (s ≤ g) && decide (g < e))) := by
        intro g
        unfold bitAt
        rw [h3]
        by_cases c : s / 32 ≤ g / 32 ∧ g / 32 < s / 32 + ((e - 1) / 32 + 1 - s / 32)
        · rw [if_pos c]
          have hk : g / 32 < a.words.length := by omega
          rw [List.getElem?_eq_getElem hk]
          simp only [Option.map_some, Option.getD_some]
          rw [Nat.testBit_or, testBit_rangeMask s (e - 1) (g / 32) (g % 32) c.1 (by omega) (by omega)
            (Nat.mod_lt _ (by decide))]
          congr 1
          rw [Bool.eq_iff_iff]
          simp only [Bool.and_eq_true, decide_eq_true_eq]
          omega
        · rw [if_neg c]
          have : ¬ (s ≤ g ∧ g < e) := by omega
          have : (decide (s ≤ g) && decide (g < e)) = false := by simp; omega
          rw [this]; simp
      refine ⟨_, rfl, ⟨?_, ?_, ?_⟩, ?_⟩
      · show a.size ≤ ws'.length * 32; omega
      · intro w hw
        have hw' : w ∈ ws' := hw
        obtain ⟨k, hk, rfl⟩ := List.getElem_of_mem hw'
        have := h3 k
        rw [List.getElem?_eq_getElem hk, List.getElem?_eq_getElem (by omega : k < a.words.length)] at this
        have hwk := h.2.1 _ (List.getElem_mem (by omega : k < a.words.length))
        split at this
        · simp only [Option.map_some, Option.some.injEq] at this
          rw [this]; exact or_lt_W32 hwk (rangeMask_lt _ _ _ _ _)
        · simp only [Option.some.injEq] at this; rw [this]; exact hwk
      · intro g hg
        have hg' : a.size ≤ g := hg
        show bitAt ws' g = false
        rw [hbit, h.2.2 g hg]
        simp; omega
      · apply absA_eq_of
        · simp [absA_length]
        · intro g hg
          have hg' : g < a.size := hg
          show _ = some (bitAt ws' g)
          rw [List.getElem?_mapIdx, absA_getElem?, if_pos hg', hbit]; rfl


theorem masked_eq_iff (w mask : Nat) (v : Bool) :
    (w &&& mask) = (if v then mask else 0) ↔ ∀ j, mask.testBit j = true → w.testBit j = v := by
  constructor
  · intro h j hm
    have h2 := congrArg (fun x => x.testBit j) h
    simp only [Nat.testBit_and, hm, Bool.and_true] at h2
    cases v
    · simpa using h2
    · simpa [hm] using h2
  · intro h
    apply Nat.eq_of_testBit_eq
    intro j
    rw [Nat.testBit_and]
    cases hm : mask.testBit j
    · cases v <;> simp [hm]
    · have := h j hm
      cases v <;> simp_all

theorem isRangeLoop_eq (ws : List Nat) (start e f l : Nat) (value : Bool) (is : List Nat)
    (h : ∀ i ∈ is, i < ws.length) :
    isRangeLoop ws start e f l value is =
      .ok (is.all (fun i => decide ((ws[i]?.getD 0 &&& rangeMask start e f l i) =
        (if value then rangeMask start e f l i else 0)))) := by
  induction is with
  | nil => simp [isRangeLoop]
  | cons i is ih =>
    have hi : i < ws.length := h i (by simp)
    unfold isRangeLoop
    simp only [List.all_cons]
    rw [List.getElem?_eq_getElem hi]
    simp only [Option.getD_some]
    by_cases c : (ws[i] &&& rangeMask start e f l i) = (if value then rangeMask start e f l i else 0)
    · rw [if_neg (by simpa using c), ih (fun j hj => h j (by simp [hj]))]
      simp [c]
    · rw [if_pos (by simpa using c)]
      simp [c]

theorem isRange_refines (a : WArr) (s e : Nat) (v : Bool) (h : InvA a) :
    a.isRange s e v = SArr.isRange (absA a) s e v := by
  unfold SArr.isRange WArr.isRange
  rw [absA_length]
  by_cases hbad : e < s ∨ e > a.size
  · simp [hbad]
  · rw [if_neg hbad, if_neg hbad]
    have hlen := h.1
    by_cases hse : e = s
    · rw [if_pos hse]; subst hse
      congr 1; symm
      rw [List.all_eq_true]
      intro x hx
      have : (List.drop e (List.take e (absA a))) = [] := by
        apply List.drop_eq_nil_of_le; simp; omega
      rw [this] at hx; cases hx
    · rw [if_neg hse]
      simp only
      rw [isRangeLoop_eq]
      · congr 1
        rw [Bool.eq_iff_iff, List.all_eq_true, List.all_eq_true]
        have key : (∀ g, s ≤ g → g < e → bitAt a.words g = v) ↔
            ∀ x ∈ List.drop s (List.take e (absA a)), (x == v) = true := by
          constructor
          · intro hg x hx
            obtain ⟨i, hi⟩ := List.mem_iff_getElem?.mp hx
            rw [List.getElem?_drop, List.getElem?_take] at hi
            split at hi
            · rw [absA_getElem?] at hi
              split at hi
              · simp only [Option.some.injEq] at hi
                rw [← hi, hg (s + i) (by omega) (by omega)]; simp
              · cases hi
            · cases hi
          · intro hx g h1 h2
            have : (List.drop s (List.take e (absA a)))[g - s]? = some (bitAt a.words g) := by
              rw [List.getElem?_drop, List.getElem?_take, absA_getElem?]
              have e1 : s + (g - s) = g := by omega
              rw [e1, if_pos h2, if_pos (by omega)]
            have := hx _ (List.mem_iff_getElem?.mpr ⟨_, this⟩)
            simpa using this
        rw [← key]
        constructor
        · intro hall g h1 h2
          have hi : g / 32 ∈ List.range' (s / 32) ((e - 1) / 32 + 1 - s / 32) := by
            rw [List.mem_range']; exact ⟨g / 32 - s / 32, by omega, by omega⟩
          have := hall _ hi
          simp only [decide_eq_true_eq] at this
          rw [masked_eq_iff] at this
          have hk : g / 32 < a.words.length := by omega
          have := this (g % 32) (by
            rw [testBit_rangeMask s (e - 1) (g / 32) (g % 32) (by omega) (by omega) (by omega)
              (Nat.mod_lt _ (by decide))]
            simp; omega)
          rw [bitAt_getElem _ _ hk]
          rw [List.getElem?_eq_getElem hk] at this
          exact this
        · intro hall i hi
          rw [List.mem_range'] at hi
          obtain ⟨d, hd, rfl⟩ := hi
          simp only [decide_eq_true_eq, Nat.one_mul]
          rw [masked_eq_iff]
          intro j hj
          have hj32 : j < 32 := by
            false_or_by_contra
            have := Nat.testBit_lt_two_pow (x := rangeMask s (e - 1) (s / 32) ((e - 1) / 32) (s / 32 + d)) (i := j)
              (Nat.lt_of_lt_of_le (by rw [← W32_eq]; exact rangeMask_lt _ _ _ _ _)
                (Nat.pow_le_pow_right (by decide) (by omega)))
            rw [this] at hj; cases hj
          rw [testBit_rangeMask s (e - 1) (s / 32 + d) j (by omega) (by omega) (by omega) hj32] at hj
          simp only [Bool.and_eq_true, decide_eq_true_eq] at hj
          have hk : s / 32 + d < a.words.length := by omega
          have := hall ((s / 32 + d) * 32 + j) (by omega) (by omega)
          rw [bitAt_eq_testBit _ _ _ hj32] at this
          exact this
      · intro i hi
        rw [List.mem_range'] at hi
        obtain ⟨d, hd, rfl⟩ := hi
        omega


theorem foldlM_congr_mem {α β : Type} (f g : β → α → Res β) (l : List α) (b : β)
    (h : ∀ x ∈ l, ∀ b, f b x = g b x) : l.foldlM f b = l.foldlM g b := by
  induction l generalizing b with
  | nil => rfl
  | cons x xs ih =>
    rw [List.foldlM_cons, List.foldlM_cons, h x (by simp)]
    cases g b x with
    | error e => rfl
    | ok b' => exact ih b' (fun y hy => h y (by simp [hy]))

theorem xor_refines (a o : WArr) (h : InvA a) (ho : InvA o) :
    match SArr.xor (absA a) (absA o) with
    | .ok r => RefinesA (a.xor o) r
    | .error err => a.xor o = .error err := by
  unfold SArr.xor WArr.xor
  rw [absA_length, absA_length]
  by_cases hsz : a.size ≠ o.size
  · simp [hsz]
  · rw [if_neg hsz, if_neg hsz]
    have hsz' : a.size = o.size := by omega
    have hla := h.1
    have hlo := ho.1
    simp only
    have hn : 0 + (a.size + 31) / 32 ≤ a.words.length := by omega
    rw [List.range_eq_range', foldlM_congr_mem _
      (fun ws i => updWord ws i (fun w => w ^^^ (o.words[i]?.getD 0)))]
    · obtain ⟨ws', h1, h2, h3⟩ := foldlM_updWord_range'
        (fun i w => w ^^^ (o.words[i]?.getD 0)) _ a.words 0 hn
      rw [h1]
      have hbit : ∀ g, bitAt ws' g = (bitAt a.words g ^^ bitAt o.words g) := by
        intro g
        by_cases c : 0 ≤ g / 32 ∧ g / 32 < 0 + (a.size + 31) / 32
        · unfold bitAt
          rw [h3, if_pos c]
          have hk : g / 32 < a.words.length := by omega
          rw [List.getElem?_eq_getElem hk]
          simp only [Option.map_some, Option.getD_some]
          rw [Nat.testBit_xor]
        · have hg : a.size ≤ g := by omega
          have : bitAt ws' g = bitAt a.words g := by
            unfold bitAt; rw [h3, if_neg c]
          rw [this, h.2.2 g hg, ho.2.2 g (by omega)]; rfl
      refine ⟨_, rfl, ⟨?_, ?_, ?_⟩, ?_⟩
      · show a.size ≤ ws'.length * 32; omega
      · intro w hw
        have hw' : w ∈ ws' := hw
        obtain ⟨k, hk, rfl⟩ := List.getElem_of_mem hw'
        have := h3 k
        rw [List.getElem?_eq_getElem hk, List.getElem?_eq_getElem (by omega : k < a.words.length)] at this
        have hwk := h.2.1 _ (List.getElem_mem (by omega : k < a.words.length))
        split at this
        · simp only [Option.map_some, Option.some.injEq] at this
          rw [this]
          apply xor_lt_W32 hwk
          cases hok : o.words[k]? with
          | none => simp; decide
          | some v => simp; exact ho.2.1 v (List.mem_of_getElem? hok)
        · simp only [Option.some.injEq] at this; rw [this]; exact hwk
      · intro g hg
        have hg' : a.size ≤ g := hg
        show bitAt ws' g = false
        rw [hbit, h.2.2 g hg', ho.2.2 g (by omega)]; rfl
      · apply absA_eq_of
        · simp [absA_length]; omega
        · intro g hg
          have hg' : g < a.size := hg
          show _ = some (bitAt ws' g)
          rw [List.getElem?_zipWith, absA_getElem?, absA_getElem?, if_pos hg', if_pos (by omega), hbit]
    · intro i hi ws
      rw [List.mem_range'] at hi
      obtain ⟨d, hd, rfl⟩ := hi
      have hk : 0 + 1 * d < o.words.length := by omega
      have hk' : d < o.words.length := by omega
      rw [wordAt_ok _ _ hk]
      simp [bind, Except.bind, List.getElem?_eq_getElem hk']

/-- under sufficient capacity one step of the `AppendBits` loop is `AppendBit` -/
theorem appendBitsStep_eq (value : Nat) (ws : List Nat) (sz k : Nat) (hcap : sz + 1 ≤ ws.length * 32) :
    appendBitsStep value (ws, sz) k =
      (WArr.appendBit ⟨ws, sz⟩ (value.testBit k)).map (fun a => (a.words, a.size)) := by
  unfold appendBitsStep WArr.appendBit
  have he : ensureCapacity ⟨ws, sz⟩ (sz + 1) = ⟨ws, sz⟩ := by
    unfold ensureCapacity; rw [if_neg (by simp; omega)]
  rw [Nat.one_shiftLeft, and_two_pow_ne_zero]
  simp only [he]
  cases value.testBit k
  · simp [Except.map]
  · simp only [if_true]
    cases updWord ws (sz / 32) (fun w => w ||| 1 <<< (sz % 32)) <;> rfl

theorem appendBitsLoop (value : Nat) (ks : List Nat) : ∀ (ws : List Nat) (sz : Nat),
    InvA ⟨ws, sz⟩ → sz + ks.length ≤ ws.length * 32 →
    ∃ ws', ks.foldlM (appendBitsStep value) (ws, sz) = .ok (ws', sz + ks.length) ∧
      InvA ⟨ws', sz + ks.length⟩ ∧
      absA ⟨ws', sz + ks.length⟩ = absA ⟨ws, sz⟩ ++ ks.map (fun k => value.testBit k) := by
  induction ks with
  | nil => intro ws sz h _; exact ⟨ws, rfl, h, by simp⟩
  | cons k ks ih =>
    intro ws sz h hcap
    simp only [List.length_cons] at hcap
    rw [List.foldlM_cons, appendBitsStep_eq _ _ _ _ (by omega)]
    obtain ⟨a', h1, h2, h3⟩ := appendBit_refines ⟨ws, sz⟩ (value.testBit k) h
    rw [h1]
    have hsz : a'.size = sz + 1 := by
      have := congrArg List.length h3
      simpa [absA_length, SArr.appendBit] using this
    have hlen : ws.length ≤ a'.words.length := by
      unfold WArr.appendBit at h1
      have he : ensureCapacity ⟨ws, sz⟩ (sz + 1) = ⟨ws, sz⟩ := by
        unfold ensureCapacity; rw [if_neg (by simp; omega)]
      simp only [he] at h1
      split at h1
      · split at h1
        · rename_i ws2 heq
          simp only [Except.ok.injEq] at h1
          unfold updWord at heq
          split at heq
          · simp only [Except.ok.injEq] at heq
            rw [← h1, ← heq]; simp
          · cases heq
        · cases h1
      · simp only [Except.ok.injEq] at h1; rw [← h1]; simp
    obtain ⟨a'w, a's⟩ := a'
    simp only at hsz hlen
    subst hsz
    obtain ⟨ws', g1, g2, g3⟩ := ih a'w (sz + 1) h2 (by omega)
    refine ⟨ws', ?_, ?_, ?_⟩
    · simp only [Except.map, bind, Except.bind, List.length_cons]
      rw [g1]; congr 2; omega
    · have : sz + (ks.length + 1) = sz + 1 + ks.length := by omega
      simp only [List.length_cons]; rw [this]; exact g2
    · have : sz + (ks.length + 1) = sz + 1 + ks.length := by omega
      simp only [List.length_cons, List.map_cons]; rw [this, g3, h3]
      simp [SArr.appendBit]

theorem reverse_range_map (n : Nat) (f : Nat → Bool) :
    (List.range n).reverse.map f = (List.range n).map (fun k => f (n - 1 - k)) := by
  apply List.ext_getElem?
  intro i
  rw [List.getElem?_map, List.getElem?_map]
  by_cases hi : i < n
  · rw [List.getElem?_reverse (by simpa using hi), List.getElem?_range hi]
    simp only [List.length_range]
    rw [List.getElem?_range (by omega)]
    rfl
  · rw [List.getElem?_eq_none (by simp; omega), List.getElem?_eq_none (by simp; omega)]
    rfl

theorem appendBits_refines (a : WArr) (value n : Nat) (h : InvA a) :
    match SArr.appendBits (absA a) value n with
    | .ok r => RefinesA (a.appendBits value n) r
    | .error err => a.appendBits value n = .error err := by
  unfold SArr.appendBits WArr.appendBits
  by_cases hn : n > 32
  · simp [hn]
  · rw [if_neg hn, if_neg hn]
    obtain ⟨h1, hcap, hb1⟩ := ensureCapacity_inv a (a.size + n) h
    have hsz := ensureCapacity_size a (a.size + n)
    have habs : absA (ensureCapacity a (a.size + n)) = absA a := by
      apply absA_eq_of
      · rw [absA_length, hsz]
      · intro i hi; rw [hsz] at hi; rw [absA_getElem?, if_pos hi, hb1]
    simp only
    generalize ensureCapacity a (a.size + n) = a1 at *
    obtain ⟨w1, s1⟩ := a1
    simp only at hsz hcap
    subst hsz
    obtain ⟨ws', g1, g2, g3⟩ := appendBitsLoop value (List.range n).reverse w1 a.size h1
      (by simpa using hcap)
    rw [g1]
    refine ⟨_, rfl, g2, ?_⟩
    rw [g3, habs, reverse_range_map]

/-- appending bits obtained one by one -/
theorem appendLoop {α : Type} (gt : α → Res Bool) (f : α → Bool) (xs : List α) : ∀ (a : WArr),
    InvA a → (∀ x ∈ xs, gt x = .ok (f x)) →
    RefinesA (xs.foldlM (fun b x => do let bit ← gt x; b.appendBit bit) a) (absA a ++ xs.map f) := by
  induction xs with
  | nil => intro a h _; exact ⟨a, rfl, h, by simp⟩
  | cons x xs ih =>
    intro a h hg
    rw [List.foldlM_cons, hg x (by simp)]
    obtain ⟨a', h1, h2, h3⟩ := appendBit_refines a (f x) h
    simp only [bind, Except.bind]
    rw [h1]
    obtain ⟨a'', k1, k2, k3⟩ := ih a' h2 (fun y hy => hg y (by simp [hy]))
    refine ⟨a'', ?_, k2, ?_⟩
    · simpa [bind, Except.bind] using k1
    · rw [k3, h3]; simp [SArr.appendBit]

theorem appendBitArray_refines (a o : WArr) (h : InvA a) (ho : InvA o) :
    RefinesA (a.appendBitArray o) (SArr.appendBitArray (absA a) (absA o)) := by
  unfold WArr.appendBitArray SArr.appendBitArray
  obtain ⟨h1, _, hb1⟩ := ensureCapacity_inv a (a.size + o.size) h
  have hsz := ensureCapacity_size a (a.size + o.size)
  have habs : absA (ensureCapacity a (a.size + o.size)) = absA a := by
    apply absA_eq_of
    · rw [absA_length, hsz]
    · intro i hi; rw [hsz] at hi; rw [absA_getElem?, if_pos hi, hb1]
  have := appendLoop (fun i => o.get i) (fun i => bitAt o.words i) (List.range o.size)
    (ensureCapacity a (a.size + o.size)) h1 (by
      intro i hi
      rw [List.mem_range] at hi
      exact get_eq_bitAt o i (ho.idx hi))
  rw [habs] at this
  exact this

end WArr
end Gzx.Bits
