/-
  C16 helper lemmas: the word-level constructors ParseBoolMapToBitMatrix / ParseStringToBitMatrix /
  NewSquareBitMatrix build what the naive constructors build.
-/
import Gzx.Proofs.BitsRot90
import Gzx.Proofs.BitsParse
namespace Gzx.Bits
open Gzx

namespace WMat

/-- cell `(x', y')` after `Set(x, y)` -/
theorem mbit_after_set (m m1 : WMat) (x y : Nat) (h : InvM m) (hx : x < m.width) (hy : y < m.height)
    (h1 : m.set x y = .ok m1) :
    InvM m1 ∧ m1.width = m.width ∧ m1.height = m.height ∧
    ∀ x' y', x' < m.width → y' < m.height →
      mbit m1 x' y' = (mbit m x' y' || (decide (x' = x) && decide (y' = y))) := by
  obtain ⟨m2, e1, e2, e3⟩ := set_refines m x y h hx hy
  rw [h1] at e1
  have e : m1 = m2 := by cases e1; rfl
  subst e
  have hdim : m1.width = m.width ∧ m1.height = m.height :=
    ⟨congrArg SMat.width e3, congrArg SMat.height e3⟩
  refine ⟨e2, hdim.1, hdim.2, ?_⟩
  intro x' y' hx' hy'
  have : (absM m1).get x' y' = ((absM m).set x y).get x' y' := by rw [e3]
  rw [absM_get m1 x' y' (by rw [hdim.1]; exact hx') (by rw [hdim.2]; exact hy'),
    SMat.set_eq _ (absM_WF m) x y hx hy] at this
  rw [this]
  show (SMat.ofFn m.width m.height _).get x' y' = _
  rw [SMat.get_ofFn _ _ _ _ _ hx' hy', absM_get m x' y' hx' hy']
  by_cases c : x' = x ∧ y' = y
  · rw [if_pos c]; simp [c.1, c.2]
  · rw [if_neg c]
    have : (decide (x' = x) && decide (y' = y)) = false := by
      simp only [Bool.and_eq_false_iff, decide_eq_false_iff_not]
      by_cases cx : x' = x
      · right; intro cy; exact c ⟨cx, cy⟩
      · left; exact cx
    rw [this, Bool.or_false]

/-- setting a list of cells, one by one -/
theorem foldlM_set_cells (cells : List (Nat × Nat)) : ∀ (m0 : WMat), InvM m0 →
    (∀ p ∈ cells, p.1 < m0.width ∧ p.2 < m0.height) →
    ∃ m', cells.foldlM (fun (m : WMat) p => m.set p.1 p.2) m0 = .ok m' ∧ InvM m' ∧
      m'.width = m0.width ∧ m'.height = m0.height ∧
      ∀ x y, x < m0.width → y < m0.height →
        mbit m' x y = (mbit m0 x y || decide ((x, y) ∈ cells)) := by
  induction cells with
  | nil => intro m0 h0 _; exact ⟨m0, rfl, h0, rfl, rfl, by simp⟩
  | cons p cells ih =>
    intro m0 h0 hin
    have hp := hin p (by simp)
    obtain ⟨m1, e1, _, _⟩ := set_refines m0 p.1 p.2 h0 hp.1 hp.2
    obtain ⟨i1, w1, hh1, b1⟩ := mbit_after_set m0 m1 p.1 p.2 h0 hp.1 hp.2 e1
    obtain ⟨m', g1, g2, g3, g4, g5⟩ := ih m1 i1 (by
      intro q hq; rw [w1, hh1]; exact hin q (by simp [hq]))
    rw [List.foldlM_cons, e1]
    refine ⟨m', by simpa [bind, Except.bind] using g1, g2, by rw [g3, w1], by rw [g4, hh1], ?_⟩
    intro x y hx hy
    rw [g5 x y (by rw [w1]; exact hx) (by rw [hh1]; exact hy), b1 x y hx hy]
    rw [Bool.or_assoc]
    congr 1
    rw [Bool.eq_iff_iff]
    simp only [Bool.or_eq_true, Bool.and_eq_true, decide_eq_true_eq, List.mem_cons]
    constructor
    · rintro (⟨a, b⟩ | c)
      · left; exact Prod.ext a b
      · right; exact c
    · rintro (a | c)
      · left; exact ⟨congrArg Prod.fst a, congrArg Prod.snd a⟩
      · right; exact c

/-- a freshly constructed matrix -/
theorem newMat_props (w h : Nat) (hw : 1 ≤ w) (hh : 1 ≤ h) :
    ∃ m0, WMat.new w h = .ok m0 ∧ InvM m0 ∧ m0.width = w ∧ m0.height = h ∧
      ∀ x y, mbit m0 x y = false := by
  unfold WMat.new
  rw [if_neg (by omega)]
  refine ⟨_, rfl, ⟨hw, hh, rfl, by simp, ?_, ?_⟩, rfl, rfl, ?_⟩
  · intro v hv; rw [(List.mem_replicate.mp hv).2]; decide
  · intro x y _ _; exact bitAt_zeros _ _
  · intro x y; exact bitAt_zeros _ _

/-- `ParseBoolMapToBitMatrix` on a non-empty rectangular image -/
theorem ofBoolMap_refines (r0 : List Bool) (rest : List (List Bool))
    (hrect0 : ∀ r ∈ r0 :: rest, r.length = r0.length) :
    match SMat.ofBoolMap (r0 :: rest) with
    | .ok s => RefinesM (WMat.ofBoolMap (r0 :: rest)) s
    | .error e => WMat.ofBoolMap (r0 :: rest) = .error e := by
  unfold SMat.ofBoolMap WMat.ofBoolMap
  simp only
  generalize hw : r0.length = w at hrect0 ⊢
  generalize himg : r0 :: rest = image at hrect0 ⊢
  have hrect : ∀ r ∈ image, r.length = w := hrect0
  by_cases hbad : w < 1 ∨ image.length < 1
  · rw [if_pos hbad]
    simp only
    unfold WMat.new
    rw [if_pos hbad]
  · rw [if_neg hbad]
    simp only
    obtain ⟨m0, n1, n2, n3, n4, n5⟩ := newMat_props w image.length (by omega) (by omega)
    rw [n1]
    simp only
    -- flatten, resolve the reads, filter, map to cells
    rw [foldlM_nested (fun (m : WMat) (a : List Bool × Nat) j => ofBoolMapCell m a.1 a.2 j)]
    generalize hps : (image.zipIdx.flatMap (fun a => (List.range w).map (fun b => (a, b)))) = ps
    have hmem : ∀ p, p ∈ ps ↔ image[p.1.2]? = some p.1.1 ∧ p.2 < w := by
      intro p
      rw [← hps, List.mem_flatMap]
      constructor
      · rintro ⟨a, ha, hp⟩
        obtain ⟨b, hb, rfl⟩ := List.mem_map.mp hp
        exact ⟨List.mem_zipIdx_iff_getElem?.mp ha, List.mem_range.mp hb⟩
      · rintro ⟨h1, h2⟩
        exact ⟨p.1, List.mem_zipIdx_iff_getElem?.mpr h1,
          List.mem_map.mpr ⟨p.2, List.mem_range.mpr h2, rfl⟩⟩
    have hstep : ps.foldlM (fun (m : WMat) (p : (List Bool × Nat) × Nat) =>
          ofBoolMapCell m p.1.1 p.1.2 p.2) m0 =
        ((ps.filter (fun p => p.1.1[p.2]?.getD false)).map (fun p => (p.2, p.1.2))).foldlM
          (fun (m : WMat) c => m.set c.1 c.2) m0 := by
      rw [List.foldlM_map, ← foldlM_filter]
      apply WArr.foldlM_congr_mem
      intro p hp m
      have hp' := (hmem p).mp hp
      have hlen : p.1.1.length = w := hrect _ (List.mem_of_getElem? hp'.1)
      unfold ofBoolMapCell
      rw [List.getElem?_eq_getElem (by omega)]
      cases p.1.1[p.2] <;> simp
    rw [hstep]
    generalize hcells : ((ps.filter (fun p => p.1.1[p.2]?.getD false)).map (fun p => (p.2, p.1.2))) = cells
    have hcmem : ∀ x y, (x, y) ∈ cells ↔ x < w ∧ ∃ r, image[y]? = some r ∧ r[x]? = some true := by
      intro x y
      rw [← hcells, List.mem_map]
      constructor
      · rintro ⟨p, hp, he⟩
        rw [List.mem_filter] at hp
        have hp' := (hmem p).mp hp.1
        have e1 : p.2 = x := congrArg Prod.fst he
        have e2 : p.1.2 = y := congrArg Prod.snd he
        have hlen : p.1.1.length = w := hrect _ (List.mem_of_getElem? hp'.1)
        have hx : x < w := by rw [← e1]; exact hp'.2
        refine ⟨hx, p.1.1, by rw [← e2]; exact hp'.1, ?_⟩
        have hb := hp.2
        rw [e1] at hb
        have hxl : x < p.1.1.length := by omega
        rw [List.getElem?_eq_getElem hxl] at hb ⊢
        simpa using hb
      · rintro ⟨hx, r, h1, h2⟩
        refine ⟨((r, y), x), List.mem_filter.mpr ⟨(hmem _).mpr ⟨h1, hx⟩, ?_⟩, rfl⟩
        simp [h2]
    obtain ⟨m', g1, g2, g3, g4, g5⟩ := foldlM_set_cells cells m0 n2 (by
      intro p hp
      obtain ⟨hx, r, h1, _⟩ := (hcmem p.1 p.2).mp hp
      rw [n3, n4]
      refine ⟨hx, ?_⟩
      false_or_by_contra
      rw [List.getElem?_eq_none (by omega)] at h1; cases h1)
    rw [g1]
    refine ⟨m', rfl, g2, ?_⟩
    apply absM_eq_of
    · constructor
      · simp
      · intro r hr
        simp only [List.mem_map] at hr
        obtain ⟨r0, h0, rfl⟩ := hr
        rw [List.length_take, hrect r0 h0]; simp
    · rw [g3, n3]
    · rw [g4, n4]
    · intro x y hx hy
      rw [g3, n3] at hx
      rw [g4, n4] at hy
      rw [g5 x y (by rw [n3]; exact hx) (by rw [n4]; exact hy), n5, Bool.false_or]
      unfold SMat.get
      simp only
      rw [List.getElem?_map, List.getElem?_eq_getElem hy]
      simp only [Option.map_some, Option.getD_some]
      have hlen : image[y].length = w := hrect _ (List.getElem_mem hy)
      rw [List.getElem?_take, if_pos hx, List.getElem?_eq_getElem (by omega)]
      simp only [Option.getD_some]
      rw [Bool.eq_iff_iff]
      simp only [decide_eq_true_eq]
      rw [hcmem]
      constructor
      · intro hb
        exact ⟨hx, image[y], List.getElem?_eq_getElem hy, by
          rw [List.getElem?_eq_getElem (by omega), hb]⟩
      · rintro ⟨_, r, h1, h2⟩
        rw [List.getElem?_eq_getElem hy] at h1
        simp only [Option.some.injEq] at h1
        subst h1
        rw [List.getElem?_eq_getElem (by omega)] at h2
        simpa using h2

end WMat
end Gzx.Bits

namespace Gzx.Bits
open Gzx

theorem div_mod_rs' {rs i : Nat} (_h : 0 < rs) : i / rs * rs + i % rs = i := by
  have := Nat.div_add_mod i rs
  rw [Nat.mul_comm] at this; exact this

/-! ## ParseStringToBitMatrix: shape of what the tokeniser returns -/

/-- invariant of the tokeniser state: completed rows all have `rowLength` cells -/
def PInv (st : ParseSt) : Prop :=
  st.bitsRev.length = st.bitsPos ∧ st.rowStartPos ≤ st.bitsPos ∧
  match st.rowLength with
  | none => st.rowStartPos = 0 ∧ st.nRows = 0
  | some rl => 1 ≤ rl ∧ st.rowStartPos = st.nRows * rl

theorem parseEndRow_inv (st st' : ParseSt) (h : PInv st) (he : parseEndRow st = .ok st') :
    PInv st' ∧ st'.rowStartPos = st'.bitsPos ∧ st'.bitsRev = st.bitsRev := by
  obtain ⟨h1, h2, h3⟩ := h
  unfold parseEndRow at he
  by_cases c : st.bitsPos > st.rowStartPos
  · rw [if_pos c] at he
    cases hrl : st.rowLength with
    | none =>
      rw [hrl] at he h3
      simp only [Except.ok.injEq] at he
      subst he
      refine ⟨⟨h1, Nat.le_refl _, ?_⟩, rfl, rfl⟩
      simp only
      obtain ⟨a, b⟩ := h3
      refine ⟨by omega, ?_⟩
      rw [b, a]; simp
    | some rl =>
      rw [hrl] at he h3
      simp only at he
      by_cases c2 : st.bitsPos - st.rowStartPos ≠ rl
      · rw [if_pos c2] at he; cases he
      · rw [if_neg c2] at he
        simp only [Except.ok.injEq] at he
        subst he
        refine ⟨⟨h1, Nat.le_refl _, ?_⟩, rfl, rfl⟩
        simp only [hrl]
        obtain ⟨a, b⟩ := h3
        refine ⟨a, ?_⟩
        rw [Nat.add_mul, Nat.one_mul, ← b]; omega
  · rw [if_neg c] at he
    simp only [Except.ok.injEq] at he
    subst he
    exact ⟨⟨h1, h2, h3⟩, by omega, rfl⟩

theorem parseLoop_inv (set unset : List Nat) (total : Nat) : ∀ (fuel : Nat) (s : List Nat)
    (st st' : ParseSt), PInv st → parseLoop set unset total fuel s st = .ok st' → PInv st' := by
  intro fuel
  induction fuel with
  | zero => intro s st st' _ he; simp [parseLoop] at he
  | succ fuel ih =>
    intro s st st' h he
    cases s with
    | nil =>
      simp only [parseLoop, Except.ok.injEq] at he
      rw [← he]; exact h
    | cons c rest =>
      unfold parseLoop at he
      by_cases c1 : c = 10 ∨ c = 13
      · rw [if_pos c1] at he
        cases hend : parseEndRow st with
        | error e => rw [hend] at he; cases he
        | ok st1 =>
          rw [hend] at he
          exact ih rest st1 st' (parseEndRow_inv st st1 h hend).1 he
      · rw [if_neg c1] at he
        have hcell : ∀ b, PInv { st with bitsRev := b :: st.bitsRev, bitsPos := st.bitsPos + 1 } := by
          intro b
          obtain ⟨h1, h2, h3⟩ := h
          exact ⟨by simp [h1], by simp; omega, h3⟩
        by_cases c2 : set.isPrefixOf (c :: rest) = true
        · rw [if_pos c2] at he
          by_cases c3 : st.bitsPos ≥ total
          · rw [if_pos c3] at he; cases he
          · rw [if_neg c3] at he
            exact ih _ _ st' (hcell true) he
        · rw [if_neg c2] at he
          by_cases c4 : unset.isPrefixOf (c :: rest) = true
          · rw [if_pos c4] at he
            by_cases c3 : st.bitsPos ≥ total
            · rw [if_pos c3] at he; cases he
            · rw [if_neg c3] at he
              exact ih _ _ st' (hcell false) he
          · rw [if_neg c4] at he; cases he

/-- what `parseGrid` returns: at least one row and one column, exactly `nRows * rowLength` cells -/
theorem parseGrid_shape (s set unset : List Nat) (rl n : Nat) (bits : List Bool)
    (h : parseGrid s set unset = .ok (rl, n, bits)) : 1 ≤ rl ∧ 1 ≤ n ∧ bits.length = n * rl := by
  unfold parseGrid at h
  by_cases c : s.isEmpty = true
  · rw [if_pos c] at h; cases h
  · rw [if_neg c] at h
    cases hl : parseLoop set unset s.length (2 * s.length + 2) s ⟨[], 0, 0, none, 0⟩ with
    | error e => rw [hl] at h; cases h
    | ok st =>
      rw [hl] at h
      simp only at h
      have hinv0 : PInv ⟨[], 0, 0, none, 0⟩ := ⟨rfl, Nat.le_refl _, rfl, rfl⟩
      have hinv := parseLoop_inv set unset s.length _ s _ st hinv0 hl
      cases hend : parseEndRow st with
      | error e => rw [hend] at h; cases h
      | ok st' =>
        rw [hend] at h
        simp only at h
        obtain ⟨⟨i1, i2, i3⟩, i4, i5⟩ := parseEndRow_inv st st' hinv hend
        cases hrl : st'.rowLength with
        | none => rw [hrl] at h; cases h
        | some rl' =>
          rw [hrl] at h i3
          simp only at h
          by_cases c2 : rl' < 1 ∨ st'.nRows < 1
          · rw [if_pos c2] at h; cases h
          · rw [if_neg c2] at h
            simp only [Except.ok.injEq, Prod.mk.injEq] at h
            obtain ⟨e1, e2, e3⟩ := h
            subst e1 e2 e3
            refine ⟨by omega, by omega, ?_⟩
            rw [List.length_reverse, i1, ← i4, i3.2]

namespace WMat

/-- `ParseStringToBitMatrix`: same errors as the naive parser, otherwise the same grid -/
theorem parse_refines (s set unset : List Nat) :
    match SMat.parse s set unset with
    | .ok g => RefinesM (WMat.parse s set unset) g
    | .error e => WMat.parse s set unset = .error e := by
  unfold SMat.parse WMat.parse
  cases hg : parseGrid s set unset with
  | error e => rfl
  | ok r =>
    obtain ⟨rl, n, bits⟩ := r
    simp only
    obtain ⟨h1, h2, h3⟩ := parseGrid_shape s set unset rl n bits hg
    obtain ⟨m0, n1, n2, n3, n4, n5⟩ := newMat_props rl n h1 h2
    rw [n1]
    simp only
    -- conditional sets = sets over the filtered positions
    have hstep : bits.zipIdx.foldlM (fun (m : WMat) (p : Bool × Nat) =>
          if p.1 then m.set (p.2 % rl) (p.2 / rl) else pure m) m0 =
        ((bits.zipIdx.filter (fun p => p.1)).map (fun p => (p.2 % rl, p.2 / rl))).foldlM
          (fun (m : WMat) c => m.set c.1 c.2) m0 := by
      rw [List.foldlM_map, ← foldlM_filter]
    rw [hstep]
    generalize hcells : ((bits.zipIdx.filter (fun p => p.1)).map (fun p => (p.2 % rl, p.2 / rl))) = cells
    have hcmem : ∀ x y, (x, y) ∈ cells ↔ ∃ i, bits[i]? = some true ∧ x = i % rl ∧ y = i / rl := by
      intro x y
      rw [← hcells, List.mem_map]
      constructor
      · rintro ⟨p, hp, he⟩
        rw [List.mem_filter] at hp
        have := List.mem_zipIdx_iff_getElem?.mp hp.1
        refine ⟨p.2, ?_, (congrArg Prod.fst he).symm, (congrArg Prod.snd he).symm⟩
        rw [this]; congr 1; exact hp.2
      · rintro ⟨i, hi, rfl, rfl⟩
        exact ⟨(true, i), List.mem_filter.mpr ⟨List.mem_zipIdx_iff_getElem?.mpr hi, rfl⟩, rfl⟩
    obtain ⟨m', g1, g2, g3, g4, g5⟩ := foldlM_set_cells cells m0 n2 (by
      intro p hp
      obtain ⟨i, hi, e1, e2⟩ := (hcmem p.1 p.2).mp hp
      have hil : i < bits.length := by
        false_or_by_contra
        rw [List.getElem?_eq_none (by omega)] at hi; cases hi
      rw [n3, n4, e1, e2]
      refine ⟨Nat.mod_lt _ (by omega), ?_⟩
      rw [h3, Nat.mul_comm] at hil
      exact Nat.div_lt_of_lt_mul hil)
    rw [g1]
    refine ⟨m', rfl, g2, ?_⟩
    apply absM_eq_of
    · constructor
      · simp
      · intro r hr
        simp only [List.mem_map, List.mem_range] at hr
        obtain ⟨y, hy, rfl⟩ := hr
        rw [List.length_take, List.length_drop, h3]
        have : (y + 1) * rl ≤ n * rl := Nat.mul_le_mul_right _ hy
        rw [Nat.add_mul, Nat.one_mul] at this
        simp only; omega
    · rw [g3, n3]
    · rw [g4, n4]
    · intro x y hx hy
      rw [g3, n3] at hx
      rw [g4, n4] at hy
      rw [g5 x y (by rw [n3]; exact hx) (by rw [n4]; exact hy), n5, Bool.false_or]
      unfold SMat.get
      simp only
      rw [List.getElem?_map, List.getElem?_range hy]
      simp only [Option.map_some, Option.getD_some]
      rw [List.getElem?_take, if_pos hx, List.getElem?_drop]
      have hidx : y * rl + x < bits.length := by
        rw [h3]
        have : (y + 1) * rl ≤ n * rl := Nat.mul_le_mul_right _ hy
        rw [Nat.add_mul, Nat.one_mul] at this
        omega
      rw [List.getElem?_eq_getElem hidx]
      simp only [Option.getD_some]
      rw [Bool.eq_iff_iff]
      simp only [decide_eq_true_eq]
      rw [hcmem]
      constructor
      · intro hb
        refine ⟨y * rl + x, by rw [List.getElem?_eq_getElem hidx, hb], ?_, ?_⟩
        · rw [Nat.mul_comm, Nat.mul_add_mod, Nat.mod_eq_of_lt hx]
        · rw [Nat.mul_comm, Nat.mul_add_div (by omega), Nat.div_eq_of_lt hx]; rfl
      · rintro ⟨i, hi, e1, e2⟩
        have : y * rl + x = i := by
          rw [e1, e2]; exact div_mod_rs' (by omega)
        rw [← this, List.getElem?_eq_getElem hidx] at hi
        simpa using hi

end WMat
end Gzx.Bits
