/-
  C16 helper lemmas: GetEnclosingRectangle — the scan invariant of the word model.
-/
import Gzx.Proofs.BitsScan2
import Gzx.Proofs.BitsMat3
namespace Gzx.Bits
open Gzx

/-- `l t r b` is the bounding box of the set cells of `cell` -/
def IsBox (cell : Nat → Nat → Bool) (l t r b : Nat) : Prop :=
  (∃ y, cell l y = true) ∧ (∃ y, cell r y = true) ∧ (∃ x, cell x t = true) ∧ (∃ x, cell x b = true) ∧
  ∀ x y, cell x y = true → l ≤ x ∧ x ≤ r ∧ t ≤ y ∧ y ≤ b

theorem isBox_unique {cell : Nat → Nat → Bool} {l t r b l' t' r' b' : Nat}
    (h1 : IsBox cell l t r b) (h2 : IsBox cell l' t' r' b') : l = l' ∧ t = t' ∧ r = r' ∧ b = b' := by
  obtain ⟨⟨y1, a1⟩, ⟨y2, a2⟩, ⟨x3, a3⟩, ⟨x4, a4⟩, a5⟩ := h1
  obtain ⟨⟨y1', c1⟩, ⟨y2', c2⟩, ⟨x3', c3⟩, ⟨x4', c4⟩, c5⟩ := h2
  have := a5 _ _ c1; have := a5 _ _ c2; have := a5 _ _ c3; have := a5 _ _ c4
  have := c5 _ _ a1; have := c5 _ _ a2; have := c5 _ _ a3; have := c5 _ _ a4
  omega

/-- invariant of the `GetEnclosingRectangle` scan: `P` = cells looked at so far -/
structure EInv (m : WMat) (P : Nat → Nat → Prop) (e : WMat.Encl) : Prop where
  lo : ∀ x y, P x y → mbit m x y = true →
    e.left ≤ x ∧ e.top ≤ y ∧ (x : Int) ≤ e.right ∧ (y : Int) ≤ e.bottom
  lw : e.left ≤ m.width
  tw : e.top ≤ m.height
  rw' : -1 ≤ e.right
  bw : -1 ≤ e.bottom
  la : e.left < m.width → ∃ y, P e.left y ∧ mbit m e.left y = true
  ta : e.top < m.height → ∃ x, P x e.top ∧ mbit m x e.top = true
  ra : 0 ≤ e.right → ∃ y, P e.right.toNat y ∧ mbit m e.right.toNat y = true
  ba : 0 ≤ e.bottom → ∃ x, P x e.bottom.toNat ∧ mbit m x e.bottom.toNat = true

theorem einv_init (m : WMat) : EInv m (fun _ _ => False) ⟨m.width, m.height, -1, -1⟩ where
  lo := by intro x y hp; exact absurd hp id
  lw := Nat.le_refl _
  tw := Nat.le_refl _
  rw' := by simp
  bw := by simp
  la := by intro h; simp at h
  ta := by intro h; simp at h
  ra := by intro h; simp at h
  ba := by intro h; simp at h

/-- one word of the scan -/
theorem enclStep_inv (m : WMat) (h : InvM m) (P : Nat → Nat → Prop) (e : WMat.Encl)
    (hinv : EInv m P e) (y0 x32 : Nat) (hy : y0 < m.height) (hx : x32 < m.rowSize) :
    EInv m (fun x y => P x y ∨ (y = y0 ∧ x / 32 = x32))
      (WMat.enclStep y0 x32 (m.words[y0 * m.rowSize + x32]?.getD 0) e) := by
  have hlen := h.2.2.2.1
  have hkidx : y0 * m.rowSize + x32 < m.words.length := by rw [hlen]; exact row_idx_lt hx hy
  rw [List.getElem?_eq_getElem hkidx]
  simp only [Option.getD_some]
  generalize hw : m.words[y0 * m.rowSize + x32] = w
  have hw32 : w < W32 := by rw [← hw]; exact h.2.2.2.2.1 _ (List.getElem_mem hkidx)
  -- cells of this word
  have hcell : ∀ x, x / 32 = x32 → mbit m x y0 = w.testBit (x % 32) := by
    intro x hx32
    rw [mbit_word, hx32, List.getElem?_eq_getElem hkidx, hw]; rfl
  obtain ⟨lo, lw, tw, rw', bw, la, ta, ra, ba⟩ := hinv
  unfold WMat.enclStep
  by_cases hz : w ≠ 0
  · rw [if_pos hz]
    obtain ⟨l1, l2, l3⟩ := lowBit_spec w hz hw32
    obtain ⟨h1, h2, h3⟩ := highBit_spec w hz hw32
    have hlh : lowBit w ≤ highBit w := by
      false_or_by_contra
      have := h3 (lowBit w) (by omega)
      rw [this] at l2; cases l2
    -- the two extreme cells of the word
    have hcl : mbit m (x32 * 32 + lowBit w) y0 = true := by
      rw [hcell _ (by omega)]
      have : (x32 * 32 + lowBit w) % 32 = lowBit w := by omega
      rw [this]; exact l2
    have hch : mbit m (x32 * 32 + highBit w) y0 = true := by
      rw [hcell _ (by omega)]
      have : (x32 * 32 + highBit w) % 32 = highBit w := by omega
      rw [this]; exact h2
    have hclw : x32 * 32 + lowBit w < m.width := by
      false_or_by_contra
      have := h.2.2.2.2.2 (x32 * 32 + lowBit w) y0 (by omega) (by omega)
      rw [this] at hcl; cases hcl
    have hchw : x32 * 32 + highBit w < m.width := by
      false_or_by_contra
      have := h.2.2.2.2.2 (x32 * 32 + highBit w) y0 (by omega) (by omega)
      rw [this] at hch; cases hch
    -- every set cell of the word lies between them
    have hbetween : ∀ x, x / 32 = x32 → mbit m x y0 = true →
        x32 * 32 + lowBit w ≤ x ∧ x ≤ x32 * 32 + highBit w := by
      intro x hx32 hb
      rw [hcell x hx32] at hb
      have a1 : ¬ x % 32 < lowBit w := by
        intro hh; rw [l3 _ hh] at hb; cases hb
      have a2 : ¬ highBit w < x % 32 := by
        intro hh; rw [h3 _ hh] at hb; cases hb
      omega
    show EInv m _ ⟨(if x32 * 32 < e.left then
        (if x32 * 32 + lowBit w < e.left then x32 * 32 + lowBit w else e.left) else e.left),
      (if y0 < e.top then y0 else e.top),
      (if ((x32 * 32 + 31 : Nat) : Int) > e.right then
        (if ((x32 * 32 + highBit w : Nat) : Int) > e.right then ((x32 * 32 + highBit w : Nat) : Int)
          else e.right) else e.right),
      (if (y0 : Int) > e.bottom then (y0 : Int) else e.bottom)⟩
    generalize hL : (if x32 * 32 < e.left then
        (if x32 * 32 + lowBit w < e.left then x32 * 32 + lowBit w else e.left) else e.left) = L'
    generalize hT : (if y0 < e.top then y0 else e.top) = T'
    generalize hR : (if ((x32 * 32 + 31 : Nat) : Int) > e.right then
        (if ((x32 * 32 + highBit w : Nat) : Int) > e.right then ((x32 * 32 + highBit w : Nat) : Int)
          else e.right) else e.right) = R'
    generalize hB : (if (y0 : Int) > e.bottom then (y0 : Int) else e.bottom) = B'
    have fL : L' ≤ e.left ∧ L' ≤ x32 * 32 + lowBit w ∧ (L' = e.left ∨ L' = x32 * 32 + lowBit w) := by
      rw [← hL]
      split
      · split <;> omega
      · omega
    have fT : T' ≤ e.top ∧ T' ≤ y0 ∧ (T' = e.top ∨ T' = y0) := by
      rw [← hT]
      split <;> omega
    have fR : e.right ≤ R' ∧ ((x32 * 32 + highBit w : Nat) : Int) ≤ R' ∧
        (R' = e.right ∨ R' = ((x32 * 32 + highBit w : Nat) : Int)) := by
      rw [← hR]
      split
      · split <;> omega
      · omega
    have fB : e.bottom ≤ B' ∧ (y0 : Int) ≤ B' ∧ (B' = e.bottom ∨ B' = (y0 : Int)) := by
      rw [← hB]
      split <;> omega
    have hdivl : (x32 * 32 + lowBit w) / 32 = x32 := by omega
    have hdivh : (x32 * 32 + highBit w) / 32 = x32 := by omega
    refine ⟨?_, by show L' ≤ m.width; omega, by show T' ≤ m.height; omega,
      by show -1 ≤ R'; omega, by show -1 ≤ B'; omega, ?_, ?_, ?_, ?_⟩
    · -- lo
      intro x y hp hb
      show L' ≤ x ∧ T' ≤ y ∧ (x : Int) ≤ R' ∧ (y : Int) ≤ B'
      rcases hp with hp | ⟨rfl, hx32⟩
      · have := lo x y hp hb
        omega
      · have hbt := hbetween x hx32 hb
        omega
    · -- la
      show L' < m.width → ∃ y, _ ∧ mbit m L' y = true
      intro hlt
      rcases fL.2.2 with e1 | e1
      · rw [e1] at hlt ⊢
        obtain ⟨y, p1, p2⟩ := la hlt
        exact ⟨y, Or.inl p1, p2⟩
      · rw [e1]
        exact ⟨y0, Or.inr ⟨rfl, hdivl⟩, hcl⟩
    · -- ta
      show T' < m.height → ∃ x, _ ∧ mbit m x T' = true
      intro hlt
      rcases fT.2.2 with e1 | e1
      · rw [e1] at hlt ⊢
        obtain ⟨x, p1, p2⟩ := ta hlt
        exact ⟨x, Or.inl p1, p2⟩
      · rw [e1]
        exact ⟨x32 * 32 + lowBit w, Or.inr ⟨rfl, hdivl⟩, hcl⟩
    · -- ra
      show 0 ≤ R' → ∃ y, _ ∧ mbit m R'.toNat y = true
      intro hge
      rcases fR.2.2 with e1 | e1
      · rw [e1] at hge ⊢
        obtain ⟨y, p1, p2⟩ := ra hge
        exact ⟨y, Or.inl p1, p2⟩
      · rw [e1, Int.toNat_natCast]
        exact ⟨y0, Or.inr ⟨rfl, hdivh⟩, hch⟩
    · -- ba
      show 0 ≤ B' → ∃ x, _ ∧ mbit m x B'.toNat = true
      intro hge
      rcases fB.2.2 with e1 | e1
      · rw [e1] at hge ⊢
        obtain ⟨x, p1, p2⟩ := ba hge
        exact ⟨x, Or.inl p1, p2⟩
      · rw [e1, Int.toNat_natCast]
        exact ⟨x32 * 32 + highBit w, Or.inr ⟨rfl, hdivh⟩, hch⟩
  · rw [if_neg hz]
    have hw0 : w = 0 := by omega
    refine ⟨?_, lw, tw, rw', bw, ?_, ?_, ?_, ?_⟩
    · intro x y hp hb
      rcases hp with hp | ⟨rfl, hx32⟩
      · exact lo x y hp hb
      · rw [hcell x hx32, hw0, Nat.zero_testBit] at hb; cases hb
    · intro hh; obtain ⟨y, p1, p2⟩ := la hh; exact ⟨y, Or.inl p1, p2⟩
    · intro hh; obtain ⟨x, p1, p2⟩ := ta hh; exact ⟨x, Or.inl p1, p2⟩
    · intro hh; obtain ⟨y, p1, p2⟩ := ra hh; exact ⟨y, Or.inl p1, p2⟩
    · intro hh; obtain ⟨x, p1, p2⟩ := ba hh; exact ⟨x, Or.inl p1, p2⟩

theorem einv_congr {m : WMat} {P Q : Nat → Nat → Prop} {e : WMat.Encl} (h : EInv m P e)
    (hpq : ∀ x y, P x y ↔ Q x y) : EInv m Q e := by
  have : P = Q := by funext x y; exact propext (hpq x y)
  rw [← this]; exact h

/-- the scan over a list of word positions -/
theorem encl_foldl (m : WMat) (h : InvM m) (ps : List (Nat × Nat)) : ∀ (P : Nat → Nat → Prop)
    (e : WMat.Encl), EInv m P e → (∀ p ∈ ps, p.1 < m.height ∧ p.2 < m.rowSize) →
    EInv m (fun x y => P x y ∨ ∃ p ∈ ps, y = p.1 ∧ x / 32 = p.2)
      (ps.foldl (fun e p => WMat.enclStep p.1 p.2 (m.words[p.1 * m.rowSize + p.2]?.getD 0) e) e) := by
  induction ps with
  | nil =>
    intro P e hinv _
    exact einv_congr hinv (by intro x y; simp)
  | cons p ps ih =>
    intro P e hinv hin
    have hp := hin p (by simp)
    have h1 := enclStep_inv m h P e hinv p.1 p.2 hp.1 hp.2
    have h2 := ih _ _ h1 (fun q hq => hin q (by simp [hq]))
    rw [List.foldl_cons]
    apply einv_congr h2
    intro x y
    simp only [List.mem_cons]
    constructor
    · rintro ((a | a) | ⟨q, hq, a⟩)
      · exact Or.inl a
      · exact Or.inr ⟨p, Or.inl rfl, a⟩
      · exact Or.inr ⟨q, Or.inr hq, a⟩
    · rintro (a | ⟨q, hq | hq, a⟩)
      · exact Or.inl (Or.inl a)
      · rw [hq] at a; exact Or.inl (Or.inr a)
      · exact Or.inr ⟨q, hq, a⟩

/-- a loop whose steps never fail is a pure fold -/
theorem foldlM_pure {α β : Type} (l : List α) (f : β → α → Res β) (g : β → α → β)
    (hfg : ∀ a ∈ l, ∀ b, f b a = .ok (g b a)) : ∀ init, l.foldlM f init = .ok (l.foldl g init) := by
  induction l with
  | nil => intro init; rfl
  | cons a l ih =>
    intro init
    rw [List.foldlM_cons, hfg a (by simp), List.foldl_cons]
    simp only [bind, Except.bind]
    exact ih (fun b hb => hfg b (by simp [hb])) _

namespace WMat

/-- word side of `GetEnclosingRectangle` -/
theorem encl_word (m : WMat) (h : InvM m) :
    (m.getEnclosingRectangle = .ok none ∧ ∀ x y, x < m.width → y < m.height → mbit m x y = false) ∨
    (∃ l t r b, m.getEnclosingRectangle = .ok (some [l, t, r - l + 1, b - t + 1]) ∧
      IsBox (fun x y => (absM m).get x y) l t r b) := by
  have hwl := h.width_le
  have hlen := h.2.2.2.1
  unfold WMat.getEnclosingRectangle
  rw [foldlM_nested (fun (e : Encl) y x32 => do
      let theBits ← wordAt m.words (y * m.rowSize + x32)
      pure (enclStep y x32 theBits e))]
  generalize hps : ((List.range m.height).flatMap
    (fun a => (List.range m.rowSize).map (fun b => (a, b)))) = ps
  have hmem : ∀ p, p ∈ ps ↔ p.1 < m.height ∧ p.2 < m.rowSize := by
    intro p
    rw [← hps, List.mem_flatMap]
    constructor
    · rintro ⟨a, ha, hp⟩
      obtain ⟨b, hb, rfl⟩ := List.mem_map.mp hp
      exact ⟨List.mem_range.mp ha, List.mem_range.mp hb⟩
    · rintro ⟨h1, h2⟩
      exact ⟨p.1, List.mem_range.mpr h1, List.mem_map.mpr ⟨p.2, List.mem_range.mpr h2, rfl⟩⟩
  rw [foldlM_pure ps _
    (fun e p => enclStep p.1 p.2 (m.words[p.1 * m.rowSize + p.2]?.getD 0) e) (by
      intro p hp e
      have hp' := (hmem p).mp hp
      have hk : p.1 * m.rowSize + p.2 < m.words.length := by
        rw [hlen]; exact row_idx_lt hp'.2 hp'.1
      rw [wordAt_ok _ _ hk, List.getElem?_eq_getElem hk]
      rfl)]
  simp only
  have hinv := encl_foldl m h ps _ _ (einv_init m) (fun p hp => (hmem p).mp hp)
  generalize ps.foldl (fun e p => enclStep p.1 p.2 (m.words[p.1 * m.rowSize + p.2]?.getD 0) e)
    ⟨m.width, m.height, -1, -1⟩ = e at hinv ⊢
  -- every cell of the matrix has been looked at
  have hP : ∀ x y, x < m.rowSize * 32 → y < m.height →
      (False ∨ ∃ p ∈ ps, y = p.1 ∧ x / 32 = p.2) := by
    intro x y hx hy
    exact Or.inr ⟨(y, x / 32), (hmem _).mpr ⟨hy, by omega⟩, rfl, rfl⟩
  have hPin : ∀ x y, (False ∨ ∃ p ∈ ps, y = p.1 ∧ x / 32 = p.2) → y < m.height := by
    rintro x y (hf | ⟨p, hp, rfl, _⟩)
    · exact absurd hf id
    · exact ((hmem p).mp hp).1
  obtain ⟨lo, lw, tw, rw', bw, la, ta, ra, ba⟩ := hinv
  have hget : ∀ x y, (absM m).get x y = true ↔ (x < m.width ∧ y < m.height ∧ mbit m x y = true) := by
    intro x y
    by_cases c : x < m.width ∧ y < m.height
    · rw [absM_get m x y c.1 c.2]; simp [c.1, c.2]
    · rw [absM_eq_ofFn, SMat.get_ofFn_out _ _ _ _ _ c]
      constructor
      · intro hh; cases hh
      · rintro ⟨a, b, _⟩; exact absurd ⟨a, b⟩ c
  by_cases hany : ∃ x y, x < m.width ∧ y < m.height ∧ mbit m x y = true
  · right
    obtain ⟨x0, y0, hx0, hy0, hb0⟩ := hany
    have b0 := lo x0 y0 (hP x0 y0 (by omega) hy0) hb0
    rw [if_neg (by omega)]
    obtain ⟨yl, pl, bl⟩ := la (by omega)
    obtain ⟨xt, pt, bt⟩ := ta (by omega)
    obtain ⟨yr, pr, br⟩ := ra (by omega)
    obtain ⟨xb, pb, bb⟩ := ba (by omega)
    have hrn : (e.right.toNat : Int) = e.right := Int.toNat_of_nonneg (by omega)
    have hbn : (e.bottom.toNat : Int) = e.bottom := Int.toNat_of_nonneg (by omega)
    refine ⟨e.left, e.top, e.right.toNat, e.bottom.toNat, ?_, ?_⟩
    · have e3 : (e.right - (e.left : Int) + 1).toNat = e.right.toNat - e.left + 1 := by omega
      have e4 : (e.bottom - (e.top : Int) + 1).toNat = e.bottom.toNat - e.top + 1 := by omega
      rw [e3, e4]
    · -- set cells are inside the matrix, so the witnesses are cells of the naive grid
      have hinw : ∀ x y, (False ∨ ∃ p ∈ ps, y = p.1 ∧ x / 32 = p.2) → mbit m x y = true →
          x < m.width ∧ y < m.height := by
        intro x y hp hb
        have hy := hPin x y hp
        refine ⟨?_, hy⟩
        false_or_by_contra
        rcases hp with hf | ⟨p, hp, _, hx32⟩
        · exact absurd hf id
        · have hp2 := ((hmem p).mp hp).2
          have := h.2.2.2.2.2 x y (by omega) (by omega)
          rw [this] at hb; cases hb
      refine ⟨⟨yl, (hget _ _).mpr ⟨(hinw _ _ pl bl).1, (hinw _ _ pl bl).2, bl⟩⟩,
        ⟨yr, (hget _ _).mpr ⟨(hinw _ _ pr br).1, (hinw _ _ pr br).2, br⟩⟩,
        ⟨xt, (hget _ _).mpr ⟨(hinw _ _ pt bt).1, (hinw _ _ pt bt).2, bt⟩⟩,
        ⟨xb, (hget _ _).mpr ⟨(hinw _ _ pb bb).1, (hinw _ _ pb bb).2, bb⟩⟩, ?_⟩
      intro x y hg
      obtain ⟨hx, hy, hb⟩ := (hget x y).mp hg
      have := lo x y (hP x y (by omega) hy) hb
      omega
  · left
    have hnone : ∀ x y, x < m.width → y < m.height → mbit m x y = false := by
      intro x y hx hy
      cases hb : mbit m x y with
      | false => rfl
      | true => exact absurd ⟨x, y, hx, hy, hb⟩ hany
    have hl : e.left = m.width := by
      false_or_by_contra
      obtain ⟨y, p1, p2⟩ := la (by omega)
      have hy := hPin _ _ p1
      rw [hnone _ _ (by omega) hy] at p2; cases p2
    have hr : e.right = -1 := by
      false_or_by_contra
      obtain ⟨y, p1, p2⟩ := ra (by omega)
      have hy := hPin _ _ p1
      by_cases c : e.right.toNat < m.width
      · rw [hnone _ _ c hy] at p2; cases p2
      · rcases p1 with hf | ⟨p, hp, _, hx32⟩
        · exact absurd hf id
        · have hp2 := ((hmem p).mp hp).2
          have := h.2.2.2.2.2 e.right.toNat y (by omega) (by omega)
          rw [this] at p2; cases p2
    rw [if_pos (Or.inl (by rw [hr, hl]; have := h.1; omega))]
    exact ⟨rfl, hnone⟩

end WMat
end Gzx.Bits
