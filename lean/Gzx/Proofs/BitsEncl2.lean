/-
  C16 helper lemmas: GetEnclosingRectangle — naive side and the refinement theorem.
-/
import Gzx.Proofs.BitsEncl
namespace Gzx.Bits
open Gzx

namespace SMat

theorem mem_onCells (m : SMat) (x y : Nat) : (x, y) ∈ m.onCells ↔ m.get x y = true := by
  unfold SMat.onCells SMat.get
  rw [List.mem_flatMap]
  constructor
  · rintro ⟨⟨r, y'⟩, h1, h2⟩
    have hr := List.mem_zipIdx_iff_getElem?.mp h1
    simp only at hr h2
    rw [List.mem_filterMap] at h2
    obtain ⟨⟨b, x'⟩, h3, h4⟩ := h2
    have hb := List.mem_zipIdx_iff_getElem?.mp h3
    simp only at hb h4
    cases b with
    | false => simp at h4
    | true =>
      simp only [if_true, Option.some.injEq, Prod.mk.injEq] at h4
      obtain ⟨rfl, rfl⟩ := h4
      rw [hr]; simp [hb]
  · intro hg
    cases hr : m.rows[y]? with
    | none => rw [hr] at hg; simp at hg
    | some r =>
      rw [hr] at hg
      simp only [Option.getD_some] at hg
      cases hb : r[x]? with
      | none => rw [hb] at hg; simp at hg
      | some b =>
        rw [hb] at hg
        simp only [Option.getD_some] at hg
        subst hg
        refine ⟨(r, y), List.mem_zipIdx_iff_getElem?.mpr hr, ?_⟩
        simp only
        rw [List.mem_filterMap]
        exact ⟨(true, x), List.mem_zipIdx_iff_getElem?.mpr hb, by simp⟩

theorem minL_spec (xs : List Nat) : ∀ d, minL xs d ≤ d ∧ (∀ x ∈ xs, minL xs d ≤ x) ∧
    (minL xs d = d ∨ minL xs d ∈ xs) := by
  induction xs with
  | nil => intro d; simp [minL]
  | cons a xs ih =>
    intro d
    unfold minL
    generalize hd : (if a < d then a else d) = d'
    have fd : d' ≤ d ∧ d' ≤ a ∧ (d' = d ∨ d' = a) := by rw [← hd]; split <;> omega
    obtain ⟨i1, i2, i3⟩ := ih d'
    refine ⟨by omega, ?_, ?_⟩
    · intro x hx
      rcases List.mem_cons.mp hx with rfl | hx
      · omega
      · exact i2 x hx
    · rcases i3 with e | e
      · rcases fd.2.2 with f | f
        · left; omega
        · right; rw [e, f]; simp
      · right; exact List.mem_cons_of_mem _ e

theorem maxL_spec (xs : List Nat) : ∀ d, d ≤ maxL xs d ∧ (∀ x ∈ xs, x ≤ maxL xs d) ∧
    (maxL xs d = d ∨ maxL xs d ∈ xs) := by
  induction xs with
  | nil => intro d; simp [maxL]
  | cons a xs ih =>
    intro d
    unfold maxL
    generalize hd : (if a > d then a else d) = d'
    have fd : d ≤ d' ∧ a ≤ d' ∧ (d' = d ∨ d' = a) := by rw [← hd]; split <;> omega
    obtain ⟨i1, i2, i3⟩ := ih d'
    refine ⟨by omega, ?_, ?_⟩
    · intro x hx
      rcases List.mem_cons.mp hx with rfl | hx
      · omega
      · exact i2 x hx
    · rcases i3 with e | e
      · rcases fd.2.2 with f | f
        · left; omega
        · right; rw [e, f]; simp
      · right; exact List.mem_cons_of_mem _ e

/-- what the naive `enclosingRectangle` returns -/
theorem encl_spec (m : SMat) :
    match m.enclosingRectangle with
    | none => ∀ x y, m.get x y = false
    | some p => ∃ l t r b, p = [l, t, r - l + 1, b - t + 1] ∧ IsBox (fun x y => m.get x y) l t r b := by
  unfold SMat.enclosingRectangle
  cases hcs : m.onCells with
  | nil =>
    simp only
    intro x y
    cases hg : m.get x y with
    | false => rfl
    | true =>
      have := (mem_onCells m x y).mpr hg
      rw [hcs] at this; cases this
  | cons c cs =>
    obtain ⟨x0, y0⟩ := c
    simp only
    have hmem : ∀ x y, m.get x y = true ↔ ((x, y) = (x0, y0) ∨ (x, y) ∈ cs) := by
      intro x y
      rw [← mem_onCells, hcs, List.mem_cons]
    obtain ⟨l1, l2, l3⟩ := minL_spec (cs.map (·.1)) x0
    obtain ⟨r1, r2, r3⟩ := maxL_spec (cs.map (·.1)) x0
    obtain ⟨t1, t2, t3⟩ := minL_spec (cs.map (·.2)) y0
    obtain ⟨b1, b2, b3⟩ := maxL_spec (cs.map (·.2)) y0
    refine ⟨_, _, _, _, rfl, ?_, ?_, ?_, ?_, ?_⟩
    · rcases l3 with e | e
      · exact ⟨y0, by rw [e]; exact (hmem x0 y0).mpr (Or.inl rfl)⟩
      · obtain ⟨p, hp, he⟩ := List.mem_map.mp e
        exact ⟨p.2, by rw [← he]; exact (hmem p.1 p.2).mpr (Or.inr hp)⟩
    · rcases r3 with e | e
      · exact ⟨y0, by rw [e]; exact (hmem x0 y0).mpr (Or.inl rfl)⟩
      · obtain ⟨p, hp, he⟩ := List.mem_map.mp e
        exact ⟨p.2, by rw [← he]; exact (hmem p.1 p.2).mpr (Or.inr hp)⟩
    · rcases t3 with e | e
      · exact ⟨x0, by rw [e]; exact (hmem x0 y0).mpr (Or.inl rfl)⟩
      · obtain ⟨p, hp, he⟩ := List.mem_map.mp e
        exact ⟨p.1, by rw [← he]; exact (hmem p.1 p.2).mpr (Or.inr hp)⟩
    · rcases b3 with e | e
      · exact ⟨x0, by rw [e]; exact (hmem x0 y0).mpr (Or.inl rfl)⟩
      · obtain ⟨p, hp, he⟩ := List.mem_map.mp e
        exact ⟨p.1, by rw [← he]; exact (hmem p.1 p.2).mpr (Or.inr hp)⟩
    · intro x y hg
      rcases (hmem x y).mp hg with e | e
      · have e1 : x = x0 := congrArg Prod.fst e
        have e2 : y = y0 := congrArg Prod.snd e
        omega
      · have hx := l2 x (List.mem_map.mpr ⟨(x, y), e, rfl⟩)
        have hx' := r2 x (List.mem_map.mpr ⟨(x, y), e, rfl⟩)
        have hy := t2 y (List.mem_map.mpr ⟨(x, y), e, rfl⟩)
        have hy' := b2 y (List.mem_map.mpr ⟨(x, y), e, rfl⟩)
        omega

end SMat

namespace WMat

/-- `GetEnclosingRectangle()` -/
theorem encl_refines (m : WMat) (h : InvM m) :
    m.getEnclosingRectangle = .ok (absM m).enclosingRectangle := by
  have hs := SMat.encl_spec (absM m)
  rcases encl_word m h with ⟨e1, e2⟩ | ⟨l, t, r, b, e1, e2⟩
  · rw [e1]
    split at hs
    · rename_i heq; rw [heq]
    · obtain ⟨l, t, r, b, _, ⟨y, hy⟩, _⟩ := hs
      simp only at hy
      by_cases c : l < m.width ∧ y < m.height
      · rw [absM_get m l y c.1 c.2, e2 l y c.1 c.2] at hy; cases hy
      · rw [absM_eq_ofFn, SMat.get_ofFn_out _ _ _ _ _ c] at hy; cases hy
  · rw [e1]
    split at hs
    · obtain ⟨⟨y, hy⟩, _⟩ := e2
      simp only at hy
      rw [hs l y] at hy; cases hy
    · rename_i p heq
      obtain ⟨l', t', r', b', rfl, hb⟩ := hs
      obtain ⟨rfl, rfl, rfl, rfl⟩ := isBox_unique e2 hb
      rw [heq]

end WMat
end Gzx.Bits
