/-
  C16 helper lemmas: BitMatrix — naive-grid facts, abstraction facts, single-cell operations.
-/
import Gzx.Proofs.BitsRev
namespace Gzx.Bits
open Gzx

/-! ## naive grid -/

namespace SMat

theorem get_eq (m : SMat) (x y : Nat) (hy : y < m.rows.length) :
    m.get x y = (m.rows[y])[x]?.getD false := by
  unfold SMat.get; rw [List.getElem?_eq_getElem hy]; rfl

/-- two well-formed grids of the same shape with the same cells are equal -/
theorem ext_get (a b : SMat) (ha : a.WF) (hb : b.WF) (hw : a.width = b.width) (hh : a.height = b.height)
    (hc : ∀ x y, x < a.width → y < a.height → a.get x y = b.get x y) : a = b := by
  obtain ⟨aw, ah, ar⟩ := a
  obtain ⟨bw, bh, br⟩ := b
  simp only at hw hh
  subst hw hh
  obtain ⟨ha1, ha2⟩ := ha
  obtain ⟨hb1, hb2⟩ := hb
  simp only at ha1 ha2 hb1 hb2 hc
  congr 1
  apply List.ext_getElem (by omega)
  intro y h1 h2
  have hl1 : ar[y].length = aw := ha2 _ (List.getElem_mem h1)
  have hl2 : br[y].length = aw := hb2 _ (List.getElem_mem h2)
  apply List.ext_getElem (by omega)
  intro x g1 g2
  have := hc x y (by omega) (by omega)
  rw [get_eq _ _ _ (by simpa using h1), get_eq _ _ _ (by simpa using h2)] at this
  simp only at this
  rw [List.getElem?_eq_getElem g1, List.getElem?_eq_getElem g2] at this
  simpa using this

/-- grid given by a cell function -/
def ofFn (w h : Nat) (f : Nat → Nat → Bool) : SMat :=
  ⟨w, h, (List.range h).map (fun y => (List.range w).map (fun x => f x y))⟩

theorem ofFn_WF (w h : Nat) (f : Nat → Nat → Bool) : (ofFn w h f).WF := by
  constructor
  · simp [ofFn]
  · intro r hr
    simp only [ofFn, List.mem_map] at hr
    obtain ⟨y, _, rfl⟩ := hr
    simp [ofFn]

theorem get_ofFn (w h : Nat) (f : Nat → Nat → Bool) (x y : Nat) (hx : x < w) (hy : y < h) :
    (ofFn w h f).get x y = f x y := by
  unfold SMat.get ofFn
  simp only
  rw [List.getElem?_map, List.getElem?_range hy]
  simp only [Option.map_some, Option.getD_some]
  rw [List.getElem?_map, List.getElem?_range hx]
  rfl

/-- a well-formed grid is determined by its cells -/
theorem eq_ofFn (m : SMat) (hm : m.WF) : m = ofFn m.width m.height (fun x y => m.get x y) := by
  apply ext_get _ _ hm (ofFn_WF _ _ _) rfl rfl
  intro x y hx hy
  rw [get_ofFn _ _ _ _ _ hx hy]

theorem eq_ofFn_of (m : SMat) (hm : m.WF) (w h : Nat) (f : Nat → Nat → Bool) (hw : m.width = w)
    (hh : m.height = h) (hc : ∀ x y, x < w → y < h → m.get x y = f x y) : m = ofFn w h f := by
  subst hw hh
  apply ext_get _ _ hm (ofFn_WF _ _ _) rfl rfl
  intro x y hx hy
  rw [get_ofFn _ _ _ _ _ hx hy]; exact hc x y hx hy

end SMat

/-! ## abstraction -/

theorem absM_eq_ofFn (m : WMat) : absM m = SMat.ofFn m.width m.height (fun x y => mbit m x y) := rfl

theorem absM_WF (m : WMat) : (absM m).WF := SMat.ofFn_WF _ _ _

theorem absM_get (m : WMat) (x y : Nat) (hx : x < m.width) (hy : y < m.height) :
    (absM m).get x y = mbit m x y := SMat.get_ofFn _ _ _ _ _ hx hy

/-- word result refines naive result -/
def RefinesM (r : Res WMat) (s : SMat) : Prop := ∃ m', r = .ok m' ∧ InvM m' ∧ absM m' = s

theorem absM_eq_of (m' : WMat) (s : SMat) (hs : s.WF) (hw : s.width = m'.width)
    (hh : s.height = m'.height)
    (hc : ∀ x y, x < m'.width → y < m'.height → s.get x y = mbit m' x y) : absM m' = s := by
  symm
  rw [absM_eq_ofFn]
  exact SMat.eq_ofFn_of s hs _ _ _ hw hh hc

/-! ## index arithmetic of the row-padded layout -/

theorem InvM.rs_pos {m : WMat} (h : InvM m) : 0 < m.rowSize := by
  have := h.1; have := h.2.2.1; omega

theorem InvM.width_le {m : WMat} (h : InvM m) : m.width ≤ m.rowSize * 32 := by
  have := h.2.2.1; omega

theorem row_idx_lt {rs h y k : Nat} (hk : k < rs) (hy : y < h) : y * rs + k < rs * h := by
  have : (y + 1) * rs ≤ h * rs := Nat.mul_le_mul_right rs hy
  rw [Nat.add_mul, Nat.one_mul] at this
  rw [Nat.mul_comm rs h]; omega

theorem InvM.idx {m : WMat} (h : InvM m) {x y : Nat} (hx : x < m.width) (hy : y < m.height) :
    y * m.rowSize + x / 32 < m.words.length := by
  rw [h.2.2.2.1]
  have := h.width_le
  exact row_idx_lt (by omega) hy

/-- distinct cells live at distinct stream positions -/
theorem cell_inj {rs x y x' y' : Nat} (hx : x < rs * 32) (hx' : x' < rs * 32) :
    (y' * rs) * 32 + x' = (y * rs) * 32 + x ↔ (x' = x ∧ y' = y) := by
  constructor
  · intro h
    have e1 : y' * rs * 32 = y' * (rs * 32) := Nat.mul_assoc _ _ _
    have e2 : y * rs * 32 = y * (rs * 32) := Nat.mul_assoc _ _ _
    rw [e1, e2] at h
    have hm := congrArg (· % (rs * 32)) h
    simp only [Nat.mul_add_mod_self_right] at hm
    rw [Nat.mod_eq_of_lt hx', Nat.mod_eq_of_lt hx] at hm
    subst hm
    have : y' * (rs * 32) = y * (rs * 32) := by omega
    exact ⟨rfl, Nat.eq_of_mul_eq_mul_right (by omega) this⟩
  · rintro ⟨rfl, rfl⟩; rfl

theorem mbit_eq (m : WMat) (x y : Nat) : mbit m x y = bitAt m.words ((y * m.rowSize) * 32 + x) := rfl

/-- a cell-wise change of the words: invariant and abstraction of the result -/
theorem cellwise (m : WMat) (h : InvM m) (ws' : List Nat) (f : Nat → Nat → Bool)
    (hl : ws'.length = m.words.length) (hlt : ∀ w ∈ ws', w < W32)
    (hb : ∀ x y, x < m.rowSize * 32 → y < m.height →
      bitAt ws' ((y * m.rowSize) * 32 + x) = if x < m.width then f x y else false) :
    InvM { m with words := ws' } ∧
      absM { m with words := ws' } = SMat.ofFn m.width m.height f := by
  refine ⟨⟨h.1, h.2.1, h.2.2.1, by rw [hl]; exact h.2.2.2.1, hlt, ?_⟩, ?_⟩
  · intro x y hx1 hx2
    have hx1' : m.width ≤ x := hx1
    have hx2' : x < m.rowSize * 32 := hx2
    show bitAt ws' ((y * m.rowSize) * 32 + x) = false
    by_cases hy : y < m.height
    · rw [hb x y hx2' hy, if_neg (by omega)]
    · apply bitAt_of_ge
      rw [hl, h.2.2.2.1]
      have : m.height * m.rowSize ≤ y * m.rowSize := Nat.mul_le_mul_right _ (by omega)
      rw [Nat.mul_comm m.rowSize]; omega
  · apply absM_eq_of _ _ (SMat.ofFn_WF _ _ _) rfl rfl
    intro x y hx hy
    have hx' : x < m.width := hx
    rw [SMat.get_ofFn _ _ _ _ _ hx' hy]
    show _ = bitAt ws' ((y * m.rowSize) * 32 + x)
    rw [hb x y (by have := h.width_le; omega) hy, if_pos hx']

end Gzx.Bits
