/-
  C16 helper lemmas: BitMatrix Get/Set/Unset/Flip/Clear/FlipAll/Xor/SetRegion.
-/
import Gzx.Proofs.BitsMat
import Gzx.Proofs.BitsArr2
namespace Gzx.Bits
open Gzx

namespace SMat

theorem get_rows_modify (w h : Nat) (rows : List (List Bool)) (y : Nat)
    (f : List Bool → List Bool) (x' y' : Nat) :
    (SMat.mk w h (rows.modify y f)).get x' y' =
      if y = y' then (match rows[y']? with
        | some r => (f r)[x']?.getD false
        | none => false)
      else (SMat.mk w h rows).get x' y' := by
  unfold SMat.get
  simp only
  rw [List.getElem?_modify]
  by_cases e : y = y'
  · rw [if_pos e]
    cases rows[y']? <;> simp [e]
  · rw [if_neg e]
    cases rows[y']? <;> simp [e]

theorem WF_rows_modify (m : SMat) (hm : m.WF) (y : Nat) (f : List Bool → List Bool)
    (hf : ∀ r, (f r).length = r.length) : (SMat.mk m.width m.height (m.rows.modify y f)).WF := by
  constructor
  · simpa using hm.1
  · intro r hr
    simp only at hr
    obtain ⟨i, hi, rfl⟩ := List.getElem_of_mem hr
    rw [List.getElem_modify]
    have hi' : i < m.rows.length := by simpa using hi
    have := hm.2 _ (List.getElem_mem hi')
    split
    · rw [hf]; exact this
    · exact this

/-- single-cell update of a well-formed grid, as a cell function -/
theorem modifyCell_eq (m : SMat) (hm : m.WF) (x y : Nat) (hx : x < m.width) (hy : y < m.height)
    (c : Bool → Bool) (f : List Bool → List Bool) (hf : ∀ r, (f r).length = r.length)
    (hfc : ∀ r x', (f r)[x']?.getD false = if x' = x ∧ x < r.length then c (r[x']?.getD false) else r[x']?.getD false) :
    SMat.mk m.width m.height (m.rows.modify y f) =
      ofFn m.width m.height (fun x' y' => if x' = x ∧ y' = y then c (m.get x' y') else m.get x' y') := by
  apply eq_ofFn_of _ (WF_rows_modify m hm y f hf) _ _ _ rfl rfl
  intro x' y' hx' hy'
  rw [get_rows_modify]
  have hyl : y' < m.rows.length := by rw [hm.1]; exact hy'
  rw [List.getElem?_eq_getElem hyl]
  simp only
  have hrl : m.rows[y'].length = m.width := hm.2 _ (List.getElem_mem hyl)
  have hg : m.get x' y' = (m.rows[y'])[x']?.getD false := get_eq m x' y' hyl
  by_cases e : y = y'
  · rw [if_pos e, hfc, hrl]
    by_cases e2 : x' = x
    · subst e2; simp [hx, e, hg]
    · simp [e2, hg]
  · rw [if_neg e]
    have : ¬ (x' = x ∧ y' = y) := fun hh => e hh.2.symm
    rw [if_neg this]

theorem set_eq (m : SMat) (hm : m.WF) (x y : Nat) (hx : x < m.width) (hy : y < m.height) :
    m.set x y = ofFn m.width m.height (fun x' y' => if x' = x ∧ y' = y then true else m.get x' y') := by
  unfold SMat.set
  rw [modifyCell_eq m hm x y hx hy (fun _ => true) (fun r => r.set x true) (by simp)]
  intro r x'
  rw [List.getElem?_set]
  by_cases e : x = x'
  · subst e
    by_cases hl : x < r.length
    · simp [hl]
    · have : r[x]? = none := List.getElem?_eq_none (by omega)
      simp [hl, this]
  · have : ¬ x' = x := fun h => e h.symm
    simp [e, this]

theorem unset_eq (m : SMat) (hm : m.WF) (x y : Nat) (hx : x < m.width) (hy : y < m.height) :
    m.unset x y = ofFn m.width m.height (fun x' y' => if x' = x ∧ y' = y then false else m.get x' y') := by
  unfold SMat.unset
  rw [modifyCell_eq m hm x y hx hy (fun _ => false) (fun r => r.set x false) (by simp)]
  intro r x'
  rw [List.getElem?_set]
  by_cases e : x = x'
  · subst e
    by_cases hl : x < r.length
    · simp [hl]
    · have : r[x]? = none := List.getElem?_eq_none (by omega)
      simp [hl, this]
  · have : ¬ x' = x := fun h => e h.symm
    simp [e, this]

theorem flip_eq (m : SMat) (hm : m.WF) (x y : Nat) (hx : x < m.width) (hy : y < m.height) :
    m.flip x y = ofFn m.width m.height (fun x' y' => if x' = x ∧ y' = y then !m.get x' y' else m.get x' y') := by
  unfold SMat.flip
  rw [modifyCell_eq m hm x y hx hy (fun b => !b) (fun r => r.modify x (fun b => !b)) (by simp)]
  intro r x'
  rw [List.getElem?_modify]
  by_cases e : x = x'
  · subst e
    by_cases hl : x < r.length
    · have : r[x]? = some r[x] := List.getElem?_eq_getElem hl
      simp [hl, this]
    · have : r[x]? = none := List.getElem?_eq_none (by omega)
      simp [hl, this]
  · have : ¬ x' = x := fun h => e h.symm
    cases r[x']? <;> simp [e, this]

theorem get_ofFn_out (w h : Nat) (f : Nat → Nat → Bool) (x y : Nat) (hout : ¬ (x < w ∧ y < h)) :
    (ofFn w h f).get x y = false := by
  unfold SMat.get ofFn
  simp only
  by_cases hy : y < h
  · have hx : w ≤ x := by omega
    have e1 : ((List.range h).map (fun y => (List.range w).map (fun x => f x y)))[y]? =
        some ((List.range w).map (fun x => f x y)) := by
      rw [List.getElem?_map, List.getElem?_range hy]; rfl
    rw [e1]
    simp only [Option.getD_some]
    have e2 : ((List.range w).map (fun x => f x y))[x]? = none :=
      List.getElem?_eq_none (by simp; omega)
    rw [e2]; rfl
  · have e1 : ((List.range h).map (fun y => (List.range w).map (fun x => f x y)))[y]? = none :=
      List.getElem?_eq_none (by simp; omega)
    rw [e1]; rfl

end SMat

namespace WMat

theorem get_refines (m : WMat) (x y : Nat) (h : InvM m) :
    m.get x y = .ok ((absM m).get x y) := by
  unfold WMat.get
  by_cases hout : x ≥ m.width ∨ y ≥ m.height
  · rw [if_pos hout]
    congr 1
    -- outside the grid the naive model answers false
    rw [absM_eq_ofFn, SMat.get_ofFn_out _ _ _ _ _ (by omega)]
  · rw [if_neg hout]
    have hx : x < m.width := by omega
    have hy : y < m.height := by omega
    have hk := h.idx hx hy
    simp only
    rw [wordAt_ok _ _ hk]
    simp only [bind, Except.bind, pure, Except.pure]
    rw [shr_and_one_ne_zero, absM_get m x y hx hy, mbit_eq, bitAt_getElem _ _ (by omega)]
    have e1 : (y * m.rowSize * 32 + x) / 32 = y * m.rowSize + x / 32 := by omega
    have e2 : (y * m.rowSize * 32 + x) % 32 = x % 32 := by omega
    simp only [e1, e2]

/-- common part of Set / Unset / Flip -/
theorem cellUpdate (m : WMat) (h : InvM m) (x y : Nat) (hx : x < m.width) (hy : y < m.height)
    (f : Nat → Nat) (c : Bool → Bool)
    (hlt : ∀ w, w < W32 → f w < W32)
    (hbit : ∀ ws k g (hk : k < ws.length), bitAt (ws.set k (f ws[k])) g =
      if g = k * 32 + x % 32 then c (bitAt ws g) else bitAt ws g) :
    ∃ ws', updWord m.words (y * m.rowSize + x / 32) f = .ok ws' ∧
      InvM { m with words := ws' } ∧
      absM { m with words := ws' } = SMat.ofFn m.width m.height
        (fun x' y' => if x' = x ∧ y' = y then c ((absM m).get x' y') else (absM m).get x' y') := by
  have hk := h.idx hx hy
  rw [updWord_ok _ _ _ hk]
  refine ⟨_, rfl, ?_⟩
  have hwl := h.width_le
  have := cellwise m h (m.words.set (y * m.rowSize + x / 32) (f m.words[y * m.rowSize + x / 32]))
    (fun x' y' => if x' = x ∧ y' = y then c ((absM m).get x' y') else (absM m).get x' y')
    (by simp) (words_lt_set h.2.2.2.2.1 (hlt _ (h.2.2.2.2.1 _ (List.getElem_mem hk)))) (by
      intro x' y' hx' hy'
      rw [hbit _ _ _ hk]
      have e0 : (y * m.rowSize + x / 32) * 32 + x % 32 = (y * m.rowSize) * 32 + x := by omega
      rw [e0]
      have hinj := cell_inj (rs := m.rowSize) (x := x) (y := y) (x' := x') (y' := y') (by omega) hx'
      by_cases hin : x' < m.width
      · rw [if_pos hin, absM_get m x' y' hin hy', mbit_eq]
        by_cases e : x' = x ∧ y' = y
        · rw [if_pos (hinj.mpr e), if_pos e]
        · rw [if_neg (fun hh => e (hinj.mp hh)), if_neg e]
      · rw [if_neg hin]
        have : ¬ (y' * m.rowSize * 32 + x' = y * m.rowSize * 32 + x) := by
          intro hh; have := (hinj.mp hh).1; omega
        rw [if_neg this]
        exact h.2.2.2.2.2 x' y' (by omega) hx')
  exact this

theorem set_refines (m : WMat) (x y : Nat) (h : InvM m) (hx : x < m.width) (hy : y < m.height) :
    RefinesM (m.set x y) ((absM m).set x y) := by
  have hb : x % 32 < 32 := Nat.mod_lt _ (by decide)
  obtain ⟨ws', h1, h2, h3⟩ := cellUpdate m h x y hx hy (fun w => w ||| 1 <<< (x % 32)) (fun _ => true)
    (fun w hw => or_lt_W32 hw (one_shl_lt_W32 hb)) (by
      intro ws k g hk
      rw [bitAt_set_or _ _ _ _ hk hb]
      by_cases e : g = k * 32 + x % 32 <;> simp [e])
  unfold WMat.set
  simp only [bind, Except.bind, pure, Except.pure]
  rw [h1]
  refine ⟨_, rfl, h2, ?_⟩
  rw [h3, SMat.set_eq _ (absM_WF m) x y hx hy]; rfl

theorem unset_refines (m : WMat) (x y : Nat) (h : InvM m) (hx : x < m.width) (hy : y < m.height) :
    RefinesM (m.unset x y) ((absM m).unset x y) := by
  have hb : x % 32 < 32 := Nat.mod_lt _ (by decide)
  obtain ⟨ws', h1, h2, h3⟩ := cellUpdate m h x y hx hy (fun w => w &&& not32 (1 <<< (x % 32)))
    (fun _ => false) (fun w hw => and_lt_W32 hw) (by
      intro ws k g hk
      rw [bitAt_set_andnot _ _ _ _ hk hb]
      by_cases e : g = k * 32 + x % 32 <;> simp [e])
  unfold WMat.unset
  simp only [bind, Except.bind, pure, Except.pure]
  rw [h1]
  refine ⟨_, rfl, h2, ?_⟩
  rw [h3, SMat.unset_eq _ (absM_WF m) x y hx hy]; rfl

theorem flip_refines (m : WMat) (x y : Nat) (h : InvM m) (hx : x < m.width) (hy : y < m.height) :
    RefinesM (m.flip x y) ((absM m).flip x y) := by
  have hb : x % 32 < 32 := Nat.mod_lt _ (by decide)
  obtain ⟨ws', h1, h2, h3⟩ := cellUpdate m h x y hx hy (fun w => w ^^^ 1 <<< (x % 32))
    (fun b => !b) (fun w hw => xor_lt_W32 hw (one_shl_lt_W32 hb)) (by
      intro ws k g hk
      rw [bitAt_set_xor _ _ _ _ hk hb]
      by_cases e : g = k * 32 + x % 32 <;> simp [e])
  unfold WMat.flip
  simp only [bind, Except.bind, pure, Except.pure]
  rw [h1]
  refine ⟨_, rfl, h2, ?_⟩
  rw [h3, SMat.flip_eq _ (absM_WF m) x y hx hy]; rfl

end WMat
end Gzx.Bits
