/-
  C16 helper lemmas: BitMatrix Clear / FlipAll / Xor / SetRegion (whole-grid operations).
-/
import Gzx.Proofs.BitsMat2
namespace Gzx.Bits
open Gzx

/-! ## generic loops -/

/-- nested loops are one loop over the flattened index list -/
theorem foldlM_nested {α β γ : Type} (f : γ → α → β → Res γ) (as : List α) (bs : α → List β) :
    ∀ (init : γ),
    as.foldlM (fun s a => (bs a).foldlM (fun s b => f s a b) s) init =
      (as.flatMap (fun a => (bs a).map (fun b => (a, b)))).foldlM (fun s p => f s p.1 p.2) init := by
  induction as with
  | nil => intro init; rfl
  | cons a as ih =>
    intro init
    rw [List.foldlM_cons, List.flatMap_cons, List.foldlM_append, List.foldlM_map]
    simp only [bind, Except.bind]
    cases (bs a).foldlM (fun s b => f s a b) init with
    | error e => rfl
    | ok s => exact ih s

/-- a loop of `bits[g/32] |= 1 << (g%32)` over a list of stream positions -/
theorem foldlM_orBits (gs : List Nat) : ∀ (ws : List Nat),
    (∀ g ∈ gs, g / 32 < ws.length) → (∀ w ∈ ws, w < W32) →
    ∃ ws', gs.foldlM (fun ws g => updWord ws (g / 32) (fun w => w ||| 1 <<< (g % 32))) ws = .ok ws' ∧
      ws'.length = ws.length ∧ (∀ w ∈ ws', w < W32) ∧
      ∀ g, bitAt ws' g = (bitAt ws g || decide (g ∈ gs)) := by
  induction gs with
  | nil => intro ws _ hlt; exact ⟨ws, rfl, rfl, hlt, by simp⟩
  | cons g0 gs ih =>
    intro ws hidx hlt
    have hk : g0 / 32 < ws.length := hidx g0 (by simp)
    have hb : g0 % 32 < 32 := Nat.mod_lt _ (by decide)
    rw [List.foldlM_cons, updWord_ok _ _ _ hk]
    obtain ⟨ws', h1, h2, h3, h4⟩ := ih (ws.set (g0 / 32) (ws[g0 / 32] ||| 1 <<< (g0 % 32)))
      (by intro g hg; simpa using hidx g (by simp [hg]))
      (words_lt_set hlt (or_lt_W32 (hlt _ (List.getElem_mem hk)) (one_shl_lt_W32 hb)))
    refine ⟨ws', by simpa [bind, Except.bind] using h1, by simpa using h2, h3, ?_⟩
    intro g
    rw [h4, bitAt_set_or _ _ _ _ hk hb]
    have e : g0 / 32 * 32 + g0 % 32 = g0 := by omega
    rw [e]
    by_cases c : g = g0
    · simp [c]
    · simp [c, Bool.or_assoc]

/-- per-row loop `for y < n { bits[y*rs + c] = F(bits[y*rs + c]) }` -/
theorem foldlM_updWord_stride (F : Nat → Nat) (rs c : Nat) (hc : c < rs) (n : Nat) : ∀ (ws : List Nat),
    rs * n ≤ ws.length →
    ∃ ws', (List.range n).foldlM (fun ws y => updWord ws (y * rs + c) F) ws = .ok ws' ∧
      ws'.length = ws.length ∧
      ∀ k, ws'[k]? = if k % rs = c ∧ k / rs < n then (ws[k]?).map F else ws[k]? := by
  induction n with
  | zero =>
    intro ws _
    refine ⟨ws, rfl, rfl, ?_⟩
    intro k; rw [if_neg (fun hh => Nat.not_lt_zero _ hh.2)]
  | succ n ih =>
    intro ws hlen
    have hlen' : rs * n ≤ ws.length := by rw [Nat.mul_succ] at hlen; omega
    obtain ⟨ws1, h1, h2, h3⟩ := ih ws hlen'
    rw [List.range_succ, List.foldlM_append, h1]
    simp only [bind, Except.bind, List.foldlM_cons, List.foldlM_nil, pure, Except.pure]
    have hk : n * rs + c < ws1.length := by
      rw [h2, Nat.mul_comm n rs]; rw [Nat.mul_succ] at hlen; omega
    rw [updWord_ok _ _ _ hk]
    refine ⟨_, rfl, by simpa using h2, ?_⟩
    intro k
    have hmod : (n * rs + c) % rs = c := by
      rw [Nat.mul_add_mod_self_right]; exact Nat.mod_eq_of_lt hc
    have hdiv : (n * rs + c) / rs = n := by
      rw [Nat.mul_comm, Nat.mul_add_div (by omega), Nat.div_eq_of_lt hc]; rfl
    rw [List.getElem?_set]
    by_cases e : n * rs + c = k
    · subst e
      rw [if_pos rfl, if_pos hk, hmod, hdiv, if_pos ⟨rfl, by omega⟩]
      have := h3 (n * rs + c)
      rw [hmod, hdiv, if_neg (by omega)] at this
      rw [List.getElem?_eq_getElem hk] at this
      rw [← this]; rfl
    · rw [if_neg e, h3 k]
      have hkk : k / rs = n → k % rs = c → False := by
        intro a b
        have := Nat.div_add_mod k rs
        rw [a, b, Nat.mul_comm] at this; omega
      by_cases c1 : k % rs = c ∧ k / rs < n
      · rw [if_pos c1, if_pos ⟨c1.1, by omega⟩]
      · rw [if_neg c1]
        have : ¬ (k % rs = c ∧ k / rs < n + 1) := by
          intro hh
          have : k / rs = n := by have := hh.2; omega
          exact hkk this hh.1
        rw [if_neg this]

/-! ## naive side on `ofFn` grids -/

namespace SMat

theorem flipAll_ofFn (w h : Nat) (f : Nat → Nat → Bool) :
    (ofFn w h f).flipAll = ofFn w h (fun x y => !f x y) := by
  simp [SMat.flipAll, ofFn, List.map_map, Function.comp_def]

theorem clear_ofFn (w h : Nat) (f : Nat → Nat → Bool) :
    (ofFn w h f).clear = ofFn w h (fun _ _ => false) := by
  simp [SMat.clear, ofFn, List.map_map, Function.comp_def]

theorem xor_ofFn (w h : Nat) (f g : Nat → Nat → Bool) :
    (ofFn w h f).xor (ofFn w h g) = .ok (ofFn w h (fun x y => f x y ^^ g x y)) := by
  simp [SMat.xor, ofFn, List.zipWith_map, List.zipWith_self]

theorem get_some (m : SMat) (hm : m.WF) (x y : Nat) (hx : x < m.width) (hy : y < m.height) :
    ∃ r, m.rows[y]? = some r ∧ r.length = m.width ∧ r[x]? = some (m.get x y) := by
  have hyl : y < m.rows.length := by rw [hm.1]; exact hy
  have hrl := hm.2 _ (List.getElem_mem hyl)
  refine ⟨m.rows[y], List.getElem?_eq_getElem hyl, hrl, ?_⟩
  rw [get_eq m x y hyl, List.getElem?_eq_getElem (by omega)]; rfl

theorem setRegion_eq (m : SMat) (hm : m.WF) (l t w h : Nat)
    (hok : ¬ (h < 1 ∨ w < 1) ∧ ¬ (t + h > m.height ∨ l + w > m.width)) :
    m.setRegion l t w h = .ok (ofFn m.width m.height (fun x y =>
      m.get x y || (decide (l ≤ x) && decide (x < l + w) && (decide (t ≤ y) && decide (y < t + h))))) := by
  unfold SMat.setRegion
  rw [if_neg hok.1, if_neg hok.2]
  congr 1
  apply eq_ofFn_of _ _ _ _ _ rfl rfl
  · intro x y hx hy
    obtain ⟨r, h1, h2, h3⟩ := get_some m hm x y hx hy
    unfold SMat.get
    simp only
    rw [List.getElem?_mapIdx, h1]
    simp only [Option.map_some, Option.getD_some]
    by_cases c : t ≤ y ∧ y < t + h
    · rw [if_pos c, List.getElem?_mapIdx, h3]
      simp [c.1, c.2]
    · rw [if_neg c, h3]
      have : (decide (t ≤ y) && decide (y < t + h)) = false := by simp; omega
      simp [this]
  · constructor
    · simpa using hm.1
    · intro r hr
      simp only at hr
      obtain ⟨i, hi, rfl⟩ := List.getElem_of_mem hr
      rw [List.getElem_mapIdx]
      have hi' : i < m.rows.length := by simpa using hi
      have := hm.2 _ (List.getElem_mem hi')
      split <;> simp [this]

end SMat

namespace WMat

theorem clear_refines (m : WMat) (h : InvM m) :
    InvM m.clear ∧ absM m.clear = (absM m).clear := by
  have hz : ∀ g, bitAt (m.words.map (fun _ => 0)) g = false := by
    intro g; unfold bitAt
    rw [List.getElem?_map]
    cases m.words[g / 32]? <;> simp
  have := cellwise m h (m.words.map (fun _ => 0)) (fun _ _ => false) (by simp)
    (by intro w hw; simp at hw; rw [← hw.2]; decide)
    (by intro x y _ _; rw [hz]; simp)
  rw [absM_eq_ofFn m, SMat.clear_ofFn]
  exact this

theorem flipAll_refines (m : WMat) (h : InvM m) :
    RefinesM m.flipAll (absM m).flipAll := by
  unfold WMat.flipAll
  rw [absM_eq_ofFn m, SMat.flipAll_ofFn]
  have hrs := h.2.2.1
  have hwl := h.width_le
  have hlen := h.2.2.2.1
  have hnot : ∀ g, g / 32 < m.words.length → bitAt (m.words.map not32) g = !bitAt m.words g := by
    intro g hg
    rw [bitAt_getElem _ _ (by simpa using hg), bitAt_getElem _ _ hg, List.getElem_map, testBit_not32]
    have : g % 32 < 32 := Nat.mod_lt _ (by decide)
    simp [this]
  have hnotlt : ∀ w ∈ m.words.map not32, w < W32 := by
    intro w hw
    obtain ⟨v, hv, rfl⟩ := List.mem_map.mp hw
    exact not32_lt (h.2.2.2.2.1 v hv)
  simp only
  by_cases hs : m.width % 32 ≠ 0
  · rw [if_pos hs]
    obtain ⟨ws', h1, h2, h3⟩ := foldlM_updWord_stride (fun w => w &&& ((1 <<< (m.width % 32)) - 1))
      m.rowSize (m.rowSize - 1) (by have := h.rs_pos; omega) m.height (m.words.map not32)
      (by simp [hlen])
    rw [h1]
    refine ⟨_, rfl, ?_⟩
    apply cellwise m h ws' _ (by simpa using h2)
    · intro w hw
      obtain ⟨k, hk, rfl⟩ := List.getElem_of_mem hw
      have hk' : k < (m.words.map not32).length := by omega
      have := h3 k
      rw [List.getElem?_eq_getElem hk, List.getElem?_eq_getElem hk'] at this
      have hv := hnotlt _ (List.getElem_mem hk')
      split at this
      · simp only [Option.map_some, Option.some.injEq] at this
        rw [this]; exact and_lt_W32 hv
      · simp only [Option.some.injEq] at this; rw [this]; exact hv
    · intro x y hx hy
      have hkidx : y * m.rowSize + x / 32 < m.words.length := by
        rw [hlen]; exact row_idx_lt (by omega) hy
      have e1 : (y * m.rowSize * 32 + x) / 32 = y * m.rowSize + x / 32 := by omega
      have e2 : (y * m.rowSize * 32 + x) % 32 = x % 32 := by omega
      have hmod : (y * m.rowSize + x / 32) % m.rowSize = x / 32 := by
        rw [Nat.mul_add_mod_self_right]; exact Nat.mod_eq_of_lt (by omega)
      have hdiv : (y * m.rowSize + x / 32) / m.rowSize = y := by
        rw [Nat.mul_comm, Nat.mul_add_div (by omega), Nat.div_eq_of_lt (by omega)]; rfl
      have hold := hnot (y * m.rowSize * 32 + x) (by rw [e1]; exact hkidx)
      have hj : x % 32 < 32 := Nat.mod_lt _ (by decide)
      have hmb : mbit m x y = (m.words[y * m.rowSize + x / 32]?.getD 0).testBit (x % 32) := by
        unfold mbit bitAt; rw [e1, e2]
      unfold bitAt
      rw [e1, e2, h3, hmod, hdiv]
      have hk' : y * m.rowSize + x / 32 < (m.words.map not32).length := by simpa using hkidx
      rw [List.getElem?_eq_getElem hk']
      unfold bitAt at hold
      rw [e1, e2, List.getElem?_eq_getElem hk', ← hmb] at hold
      simp only [Option.getD_some] at hold
      by_cases c : x / 32 = m.rowSize - 1 ∧ y < m.height
      · rw [if_pos c]
        simp only [Option.map_some, Option.getD_some]
        rw [Nat.testBit_and, hold, Nat.one_shiftLeft, Nat.testBit_two_pow_sub_one]
        by_cases hin : x < m.width
        · rw [if_pos hin]
          have : x % 32 < m.width % 32 := by omega
          simp [this]
        · rw [if_neg hin]
          have : ¬ x % 32 < m.width % 32 := by omega
          simp [this]
      · rw [if_neg c]
        simp only [Option.getD_some]
        rw [hold, if_pos (by omega)]
  · rw [if_neg hs]
    refine ⟨_, rfl, ?_⟩
    apply cellwise m h (m.words.map not32) _ (by simp) hnotlt
    intro x y hx hy
    have hkidx : y * m.rowSize + x / 32 < m.words.length := by
      rw [hlen]; exact row_idx_lt (by omega) hy
    rw [hnot _ (by omega), if_pos (by omega)]; rfl

end WMat
end Gzx.Bits
