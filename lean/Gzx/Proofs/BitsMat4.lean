/-
  C16 helper lemmas: BitMatrix SetRegion / Xor on words.
-/
import Gzx.Proofs.BitsMat3
namespace Gzx.Bits
open Gzx

/-- `for y < n { for x < rs { bits[y*rs+x] = F(y*rs+x, bits[y*rs+x]) } }` touches every word of
    the first `n` rows exactly once -/
theorem foldlM_rows_updWord (F : Nat → Nat → Nat) (rs : Nat) (n : Nat) : ∀ (ws : List Nat),
    rs * n ≤ ws.length →
    ∃ ws', (List.range n).foldlM (fun ws y =>
        (List.range rs).foldlM (fun ws x => updWord ws (y * rs + x) (F (y * rs + x))) ws) ws = .ok ws' ∧
      ws'.length = ws.length ∧
      ∀ k, ws'[k]? = if k < rs * n then (ws[k]?).map (F k) else ws[k]? := by
  induction n with
  | zero =>
    intro ws _
    refine ⟨ws, rfl, rfl, ?_⟩
    intro k; rw [if_neg (by omega)]
  | succ n ih =>
    intro ws hlen
    rw [Nat.mul_succ] at hlen
    obtain ⟨ws1, h1, h2, h3⟩ := ih ws (by omega)
    rw [List.range_succ, List.foldlM_append, h1]
    simp only [bind, Except.bind, List.foldlM_cons, List.foldlM_nil, pure, Except.pure]
    have hinner : (List.range rs).foldlM (fun ws x => updWord ws (n * rs + x) (F (n * rs + x))) ws1 =
        (List.range' (n * rs) rs).foldlM (fun ws i => updWord ws i (F i)) ws1 := by
      rw [List.range'_eq_map_range, List.foldlM_map]
    obtain ⟨ws2, g1, g2, g3⟩ := foldlM_updWord_range' F rs ws1 (n * rs)
      (by rw [h2, Nat.mul_comm n rs]; omega)
    rw [hinner, g1]
    refine ⟨ws2, ?_, by omega, ?_⟩
    · cases ws2 <;> rfl
    · intro k
      rw [g3 k, h3 k, Nat.mul_succ, Nat.mul_comm rs n]
      by_cases c1 : n * rs ≤ k ∧ k < n * rs + rs
      · rw [if_pos c1, if_neg (by omega), if_pos (by omega)]
      · rw [if_neg c1]
        by_cases c2 : k < n * rs
        · rw [if_pos c2, if_pos (by omega)]
        · rw [if_neg c2, if_neg (by omega)]

namespace WMat

theorem xor_refines (m mask : WMat) (h : InvM m) (hk : InvM mask) :
    match (absM m).xor (absM mask) with
    | .ok r => RefinesM (m.xor mask) r
    | .error err => m.xor mask = .error err := by
  unfold WMat.xor
  by_cases hd : m.width ≠ mask.width ∨ m.height ≠ mask.height
  · have : (absM m).xor (absM mask) = .error .illegalArg := by
      unfold SMat.xor; rw [if_pos (by simpa [absM] using hd)]
    rw [this]
    simp only
    rw [if_pos (by omega)]
  · have hw : m.width = mask.width := by omega
    have hh : m.height = mask.height := by omega
    have hrs : m.rowSize = mask.rowSize := by rw [h.2.2.1, hk.2.2.1, hw]
    have hspec : (absM m).xor (absM mask) =
        .ok (SMat.ofFn m.width m.height (fun x y => mbit m x y ^^ mbit mask x y)) := by
      rw [absM_eq_ofFn m, absM_eq_ofFn mask, ← hw, ← hh, SMat.xor_ofFn]
    rw [hspec]
    simp only
    rw [if_neg (by omega)]
    have hlen := h.2.2.2.1
    have hlenk := hk.2.2.2.1
    -- the mask words are read in range: replace the monadic read by the value
    have hcongr : (List.range m.height).foldlM (fun ws y =>
          (List.range m.rowSize).foldlM (fun ws x => do
            let o ← wordAt mask.words (y * mask.rowSize + x)
            updWord ws (y * m.rowSize + x) (fun w => w ^^^ o)) ws) m.words =
        (List.range m.height).foldlM (fun ws y =>
          (List.range m.rowSize).foldlM (fun ws x =>
            updWord ws (y * m.rowSize + x)
              ((fun k w => w ^^^ (mask.words[k]?.getD 0)) (y * m.rowSize + x))) ws) m.words := by
      apply WArr.foldlM_congr_mem
      intro y hy ws
      apply WArr.foldlM_congr_mem
      intro x hx ws
      rw [List.mem_range] at hy hx
      have hidx : y * mask.rowSize + x < mask.words.length := by
        rw [hlenk, ← hrs, ← hh]; exact row_idx_lt hx hy
      rw [wordAt_ok _ _ hidx]
      simp only [bind, Except.bind]
      have e : mask.words[y * m.rowSize + x]?.getD 0 = mask.words[y * mask.rowSize + x] := by
        rw [hrs, List.getElem?_eq_getElem hidx]; rfl
      rw [e]
    rw [hcongr]
    obtain ⟨ws', g1, g2, g3⟩ := foldlM_rows_updWord (fun k w => w ^^^ (mask.words[k]?.getD 0))
      m.rowSize m.height m.words (by omega)
    rw [g1]
    refine ⟨_, rfl, ?_⟩
    have hbit : ∀ g, bitAt ws' g = (bitAt m.words g ^^ bitAt mask.words g) := by
      intro g
      unfold bitAt
      rw [g3]
      by_cases c : g / 32 < m.rowSize * m.height
      · have hk1 : g / 32 < m.words.length := by rw [hlen]; exact c
        rw [if_pos c, List.getElem?_eq_getElem hk1]
        simp only [Option.map_some, Option.getD_some]
        rw [Nat.testBit_xor]
      · have hprod : mask.rowSize * mask.height = m.rowSize * m.height := by rw [hrs, hh]
        rw [if_neg c, List.getElem?_eq_none (by omega),
          List.getElem?_eq_none (by rw [hlenk, hprod]; omega)]
        simp
    apply cellwise m h ws' _ g2
    · intro w hw
      obtain ⟨k, hk', rfl⟩ := List.getElem_of_mem hw
      have := g3 k
      rw [List.getElem?_eq_getElem hk', List.getElem?_eq_getElem (by omega : k < m.words.length)] at this
      have hwk := h.2.2.2.2.1 _ (List.getElem_mem (by omega : k < m.words.length))
      split at this
      · simp only [Option.map_some, Option.some.injEq] at this
        rw [this]
        apply xor_lt_W32 hwk
        cases hok : mask.words[k]? with
        | none => simp; decide
        | some v => simp; exact hk.2.2.2.2.1 v (List.mem_of_getElem? hok)
      · simp only [Option.some.injEq] at this; rw [this]; exact hwk
    · intro x y hx hy
      rw [hbit]
      by_cases hin : x < m.width
      · rw [if_pos hin]
        show (mbit m x y ^^ bitAt mask.words (y * m.rowSize * 32 + x)) = _
        rw [hrs]; rfl
      · rw [if_neg hin]
        have p1 := h.2.2.2.2.2 x y (by omega) hx
        have p2 := hk.2.2.2.2.2 x y (by omega) (by rw [← hrs]; exact hx)
        unfold mbit at p1 p2
        rw [← hrs] at p2
        rw [p1, p2]; rfl

theorem setRegion_refines (m : WMat) (l t w ht : Nat) (h : InvM m) :
    match (absM m).setRegion l t w ht with
    | .ok r => RefinesM (m.setRegion l t w ht) r
    | .error err => m.setRegion l t w ht = .error err := by
  unfold WMat.setRegion
  by_cases hbad1 : ht < 1 ∨ w < 1
  · have : (absM m).setRegion l t w ht = .error .illegalArg := by
      unfold SMat.setRegion; rw [if_pos hbad1]
    rw [this]; simp only; rw [if_pos hbad1]
  · by_cases hbad2 : t + ht > m.height ∨ l + w > m.width
    · have : (absM m).setRegion l t w ht = .error .illegalArg := by
        unfold SMat.setRegion; rw [if_neg hbad1, if_pos (by simpa [absM] using hbad2)]
      rw [this]; simp only; rw [if_neg hbad1, if_pos hbad2]
    · rw [SMat.setRegion_eq _ (absM_WF m) l t w ht ⟨hbad1, by simpa [absM] using hbad2⟩]
      simp only
      rw [if_neg hbad1, if_neg hbad2]
      have hwl := h.width_le
      have hlen := h.2.2.2.1
      -- flatten the two loops into one loop over stream positions
      rw [foldlM_nested (fun ws y x => updWord ws (y * m.rowSize + x / 32) (fun w => w ||| 1 <<< (x % 32)))]
      generalize hps : ((List.range' t ht).flatMap (fun a => (List.range' l w).map (fun b => (a, b)))) = ps
      have hstep : ps.foldlM (fun s p => updWord s (p.1 * m.rowSize + p.2 / 32)
            (fun w => w ||| 1 <<< (p.2 % 32))) m.words =
          (ps.map (fun p => p.1 * m.rowSize * 32 + p.2)).foldlM
            (fun ws g => updWord ws (g / 32) (fun w => w ||| 1 <<< (g % 32))) m.words := by
        rw [List.foldlM_map]
        apply WArr.foldlM_congr_mem
        intro p _ ws
        have e1 : (p.1 * m.rowSize * 32 + p.2) / 32 = p.1 * m.rowSize + p.2 / 32 := by omega
        have e2 : (p.1 * m.rowSize * 32 + p.2) % 32 = p.2 % 32 := by omega
        rw [e1, e2]
      rw [hstep]
      have hmem : ∀ p, p ∈ ps ↔ (t ≤ p.1 ∧ p.1 < t + ht) ∧ (l ≤ p.2 ∧ p.2 < l + w) := by
        intro p
        rw [← hps, List.mem_flatMap]
        constructor
        · rintro ⟨a, ha, hp⟩
          rw [List.mem_map] at hp
          obtain ⟨b, hb, rfl⟩ := hp
          exact ⟨List.mem_range'_1.mp ha, List.mem_range'_1.mp hb⟩
        · rintro ⟨h1, h2⟩
          exact ⟨p.1, List.mem_range'_1.mpr h1, List.mem_map.mpr ⟨p.2, List.mem_range'_1.mpr h2, rfl⟩⟩
      obtain ⟨ws', g1, g2, g3, g4⟩ := foldlM_orBits (ps.map (fun p => p.1 * m.rowSize * 32 + p.2)) m.words
        (by
          intro g hg
          obtain ⟨p, hp, rfl⟩ := List.mem_map.mp hg
          have := (hmem p).mp hp
          have e1 : (p.1 * m.rowSize * 32 + p.2) / 32 = p.1 * m.rowSize + p.2 / 32 := by omega
          rw [e1, hlen]
          exact row_idx_lt (by omega) (by omega))
        h.2.2.2.2.1
      rw [g1]
      refine ⟨_, rfl, ?_⟩
      apply cellwise m h ws' _ g2 g3
      intro x y hx hy
      rw [g4]
      have hin : (y * m.rowSize * 32 + x ∈ ps.map (fun p => p.1 * m.rowSize * 32 + p.2)) ↔
          ((t ≤ y ∧ y < t + ht) ∧ (l ≤ x ∧ x < l + w)) := by
        rw [List.mem_map]
        constructor
        · rintro ⟨p, hp, he⟩
          have hp' := (hmem p).mp hp
          have := (cell_inj (rs := m.rowSize) (x := x) (y := y) (x' := p.2) (y' := p.1) hx (by omega)).mp he
          rw [← this.1, ← this.2]; exact hp'
        · intro hh
          exact ⟨(y, x), (hmem (y, x)).mpr hh, rfl⟩
      by_cases hxw : x < m.width
      · rw [if_pos hxw, absM_get m x y hxw hy]
        show (mbit m x y || _) = _
        congr 1
        rw [Bool.eq_iff_iff]
        simp only [decide_eq_true_eq, Bool.and_eq_true]
        rw [hin]
        constructor
        · rintro ⟨⟨a, b⟩, ⟨c, d⟩⟩; exact ⟨⟨c, d⟩, ⟨a, b⟩⟩
        · rintro ⟨⟨c, d⟩, ⟨a, b⟩⟩; exact ⟨⟨a, b⟩, ⟨c, d⟩⟩
      · rw [if_neg hxw]
        have p1 := h.2.2.2.2.2 x y (by omega) hx
        unfold mbit at p1
        rw [p1]
        have : ¬ (y * m.rowSize * 32 + x ∈ ps.map (fun p => p.1 * m.rowSize * 32 + p.2)) := by
          rw [hin]; omega
        simp [this]

end WMat
end Gzx.Bits
