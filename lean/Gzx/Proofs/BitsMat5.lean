/-
  C16 helper lemmas: BitMatrix GetRow / SetRow.
-/
import Gzx.Proofs.BitsMat4
namespace Gzx.Bits
open Gzx

/-- the copy loop of `GetRow`: the first `n` words of the row are words `off .. off+n` of the matrix -/
theorem getRow_loop (ws : List Nat) (off : Nat) (n : Nat) : ∀ (r0 : WArr),
    n ≤ r0.words.length → off + n ≤ ws.length →
    ∃ ws', (List.range n).foldlM (fun (r : WArr) x => do
        let w ← wordAt ws (off + x)
        r.setBulk (x * 32) w) r0 = .ok ⟨ws', r0.size⟩ ∧
      ws'.length = r0.words.length ∧
      ∀ k, ws'[k]? = if k < n then ws[off + k]? else r0.words[k]? := by
  induction n with
  | zero =>
    intro r0 _ _
    refine ⟨r0.words, rfl, rfl, ?_⟩
    intro k; rw [if_neg (by omega)]
  | succ n ih =>
    intro r0 h1 h2
    obtain ⟨ws1, g1, g2, g3⟩ := ih r0 (by omega) (by omega)
    rw [List.range_succ, List.foldlM_append, g1]
    simp only [bind, Except.bind, List.foldlM_cons, List.foldlM_nil, pure, Except.pure]
    rw [wordAt_ok _ _ (by omega : off + n < ws.length)]
    unfold WArr.setBulk
    simp only [bind, Except.bind, pure, Except.pure]
    have e : n * 32 / 32 = n := by omega
    rw [e, setWord_ok _ _ _ (by omega)]
    refine ⟨_, rfl, by simpa using g2, ?_⟩
    intro k
    rw [List.getElem?_set, g3 k]
    by_cases c : n = k
    · subst c
      rw [if_pos rfl, if_pos (by omega), if_pos (by omega), List.getElem?_eq_getElem (by omega)]
    · rw [if_neg c]
      by_cases c2 : k < n
      · rw [if_pos c2, if_pos (by omega)]
      · rw [if_neg c2, if_neg (by omega)]

namespace WMat

/-- `GetRow` once the target array `r0` is fixed: all-zero, at least `width` bits -/
theorem getRow_core (m : WMat) (y : Nat) (r0 : WArr) (h : InvM m) (hy : y < m.height)
    (hi0 : InvA r0) (hz0 : ∀ g, bitAt r0.words g = false) (hsz0 : m.width ≤ r0.size) :
    RefinesA ((List.range m.rowSize).foldlM (fun (r : WArr) x => do
        let w ← wordAt m.words (y * m.rowSize + x)
        r.setBulk (x * 32) w) r0)
      ((List.range m.width).map (fun x => mbit m x y) ++ List.replicate (r0.size - m.width) false) := by
  have hwl := h.width_le
  have hlen := h.2.2.2.1
  have hrs := h.2.2.1
  have hcap : m.rowSize ≤ r0.words.length := by have := hi0.1; omega
  have hoff : y * m.rowSize + m.rowSize ≤ m.words.length := by
    rw [hlen]
    have : (y + 1) * m.rowSize ≤ m.height * m.rowSize := Nat.mul_le_mul_right _ hy
    rw [Nat.add_mul, Nat.one_mul] at this
    rw [Nat.mul_comm m.rowSize]; exact this
  obtain ⟨ws', g1, g2, g3⟩ := getRow_loop m.words (y * m.rowSize) m.rowSize r0 hcap hoff
  rw [g1]
  have hbit : ∀ g, bitAt ws' g = if g < m.width then mbit m g y else false := by
    intro g
    unfold bitAt
    rw [g3]
    by_cases c : g / 32 < m.rowSize
    · rw [if_pos c]
      have e1 : (y * m.rowSize * 32 + g) / 32 = y * m.rowSize + g / 32 := by omega
      have e2 : (y * m.rowSize * 32 + g) % 32 = g % 32 := by omega
      have hmb : mbit m g y = (m.words[y * m.rowSize + g / 32]?.getD 0).testBit (g % 32) := by
        unfold mbit bitAt; rw [e1, e2]
      rw [← hmb]
      by_cases c2 : g < m.width
      · rw [if_pos c2]
      · rw [if_neg c2]; exact h.2.2.2.2.2 g y (by omega) (by omega)
    · rw [if_neg c, if_neg (by omega)]
      have := hz0 g
      unfold bitAt at this
      exact this
  refine ⟨_, rfl, ⟨?_, ?_, ?_⟩, ?_⟩
  · show r0.size ≤ ws'.length * 32; rw [g2]; exact hi0.1
  · intro w hw
    have hw' : w ∈ ws' := hw
    obtain ⟨k, hk, rfl⟩ := List.getElem_of_mem hw'
    have := g3 k
    rw [List.getElem?_eq_getElem hk] at this
    split at this
    · exact h.2.2.2.2.1 _ (List.mem_of_getElem? this.symm)
    · exact hi0.2.1 _ (List.mem_of_getElem? this.symm)
  · intro g hg
    have hg' : r0.size ≤ g := hg
    show bitAt ws' g = false
    rw [hbit, if_neg (by omega)]
  · apply absA_eq_of
    · simp; omega
    · intro g hg
      have hg' : g < r0.size := hg
      show _ = some (bitAt ws' g)
      rw [hbit, List.getElem?_append]
      simp only [List.length_map, List.length_range]
      by_cases c : g < m.width
      · rw [if_pos c, if_pos c, List.getElem?_map, List.getElem?_range c]; rfl
      · rw [if_neg c, if_neg c, List.getElem?_replicate, if_pos (by omega)]

theorem new_props (n : Nat) :
    InvA (WArr.new n) ∧ (∀ g, bitAt (WArr.new n).words g = false) ∧ (WArr.new n).size = n := by
  refine ⟨⟨?_, ?_, ?_⟩, ?_, rfl⟩
  · simp [WArr.new, makeArray]; omega
  · intro w hw; simp [WArr.new, makeArray] at hw; rw [hw.2]; decide
  · intro g _; exact bitAt_zeros _ _
  · intro g; exact bitAt_zeros _ _

/-- `GetRow(y, row)`: in range means `y < height`; a supplied row must be a valid array -/
theorem getRow_refines (m : WMat) (y : Nat) (row : Option WArr) (h : InvM m) (hy : y < m.height)
    (hrow : ∀ r, row = some r → InvA r) :
    RefinesA (m.getRow y row) ((absM m).getRow y (row.map absA)) := by
  have hrowy : (absM m).rows[y]?.getD [] = (List.range m.width).map (fun x => mbit m x y) := by
    simp only [absM]
    rw [List.getElem?_map, List.getElem?_range hy]; rfl
  obtain ⟨na, nb, nc⟩ := new_props m.width
  unfold WMat.getRow SMat.getRow
  cases row with
  | none =>
    simp only [Option.map_none]
    have := getRow_core m y (WArr.new m.width) h hy na nb (by omega)
    rw [nc] at this
    rw [hrowy]
    simpa using this
  | some r =>
    have hinv := hrow r rfl
    simp only [Option.map_some]
    rw [hrowy, absA_length]
    by_cases c : r.size < m.width
    · rw [if_pos c, if_pos (by simpa [absM] using c)]
      have := getRow_core m y (WArr.new m.width) h hy na nb (by omega)
      rw [nc] at this
      simpa using this
    · rw [if_neg c, if_neg (by simpa [absM] using c)]
      have hc := WArr.clear_refines r hinv
      have hz : ∀ g, bitAt r.clear.words g = false := by
        intro g; unfold bitAt WArr.clear
        simp only
        rw [List.getElem?_map]
        cases r.words[g / 32]? <;> simp
      have := getRow_core m y r.clear h hy hc.1 hz (by simp [WArr.clear]; omega)
      simpa [WArr.clear, absM] using this

/-- `SetRow(y, row)`: in range means `y < height` and `row` is an array of exactly `width` bits -/
theorem setRow_refines (m : WMat) (y : Nat) (row : WArr) (h : InvM m) (hy : y < m.height)
    (hrow : InvA row) (hsz : row.size = m.width) :
    RefinesM (m.setRow y row) ((absM m).setRow y (absA row)) := by
  have hwl := h.width_le
  have hlen := h.2.2.2.1
  have hrs := h.2.2.1
  have hoff : y * m.rowSize + m.rowSize ≤ m.words.length := by
    rw [hlen]
    have : (y + 1) * m.rowSize ≤ m.height * m.rowSize := Nat.mul_le_mul_right _ hy
    rw [Nat.add_mul, Nat.one_mul] at this
    rw [Nat.mul_comm m.rowSize]; exact this
  have hcap : m.rowSize ≤ row.words.length := by have := hrow.1; omega
  unfold WMat.setRow
  simp only
  rw [if_neg (by omega)]
  refine ⟨_, rfl, ?_⟩
  -- the new word list, pointwise
  generalize hws : m.words.take (y * m.rowSize) ++
      copyInto ((m.words.drop (y * m.rowSize)).take m.rowSize) row.words ++
      m.words.drop (y * m.rowSize + m.rowSize) = ws'
  have hcopy : copyInto ((m.words.drop (y * m.rowSize)).take m.rowSize) row.words =
      row.words.take m.rowSize := by
    unfold copyInto
    have e : ((m.words.drop (y * m.rowSize)).take m.rowSize).length = m.rowSize := by
      rw [List.length_take, List.length_drop]; omega
    rw [e, List.drop_eq_nil_of_le (by omega)]; simp
  have hget : ∀ k, ws'[k]? = if y * m.rowSize ≤ k ∧ k < y * m.rowSize + m.rowSize
      then row.words[k - y * m.rowSize]? else m.words[k]? := by
    intro k
    rw [← hws, hcopy, List.append_assoc, List.getElem?_append, List.length_take]
    have emin : min (y * m.rowSize) m.words.length = y * m.rowSize := by omega
    rw [emin]
    by_cases c1 : k < y * m.rowSize
    · rw [if_pos c1, if_neg (by omega), List.getElem?_take, if_pos c1]
    · rw [if_neg c1, List.getElem?_append, List.length_take]
      have emin2 : min m.rowSize row.words.length = m.rowSize := by omega
      rw [emin2]
      by_cases c2 : k - y * m.rowSize < m.rowSize
      · rw [if_pos c2, if_pos (by omega), List.getElem?_take, if_pos c2]
      · rw [if_neg c2, if_neg (by omega), List.getElem?_drop]
        congr 1; omega
  have hl : ws'.length = m.words.length := by
    rw [← hws, hcopy]; simp; omega
  have hspec : (absM m).setRow y (absA row) = SMat.ofFn m.width m.height
      (fun x y' => if y' = y then bitAt row.words x else mbit m x y') := by
    apply SMat.eq_ofFn_of _ _ _ _ _ rfl rfl
    · intro x y' hx hy'
      have hx' : x < m.width := hx
      have hy'' : y' < m.height := hy'
      unfold SMat.setRow SMat.get
      simp only
      rw [List.getElem?_set]
      by_cases c : y = y'
      · subst c
        have : y < (absM m).rows.length := by simp [absM]; exact hy''
        rw [if_pos rfl, if_pos this]
        simp only [Option.getD_some]
        rw [List.getElem?_take, if_pos (show x < (absM m).width from hx'), absA_getElem?,
          if_pos (by omega)]
        simp
      · rw [if_neg c, if_neg (fun e => c e.symm)]
        exact absM_get m x y' hx' hy''
    · constructor
      · simp [SMat.setRow, absM]
      · intro r hr
        simp only [SMat.setRow] at hr
        rcases List.mem_or_eq_of_mem_set hr with h1 | h1
        · exact (absM_WF m).2 r h1
        · rw [h1]
          show (List.take (absM m).width (absA row)).length = m.width
          rw [List.length_take, absA_length, hsz]; simp [absM]
  rw [hspec]
  apply cellwise m h ws' _ hl
  · intro w hw
    obtain ⟨k, hk, rfl⟩ := List.getElem_of_mem hw
    have := hget k
    rw [List.getElem?_eq_getElem hk] at this
    split at this
    · exact hrow.2.1 _ (List.mem_of_getElem? this.symm)
    · exact h.2.2.2.2.1 _ (List.mem_of_getElem? this.symm)
  · intro x y' hx hy'
    have e1 : (y' * m.rowSize * 32 + x) / 32 = y' * m.rowSize + x / 32 := by omega
    have e2 : (y' * m.rowSize * 32 + x) % 32 = x % 32 := by omega
    unfold bitAt
    rw [e1, e2, hget]
    by_cases c : y' = y
    · subst c
      rw [if_pos (by omega)]
      have e3 : y' * m.rowSize + x / 32 - y' * m.rowSize = x / 32 := by omega
      rw [e3]
      by_cases c2 : x < m.width
      · rw [if_pos c2, if_pos rfl]
      · rw [if_neg c2]
        have := hrow.2.2 x (by omega)
        unfold bitAt at this; exact this
    · have hne : ¬ (y * m.rowSize ≤ y' * m.rowSize + x / 32 ∧
          y' * m.rowSize + x / 32 < y * m.rowSize + m.rowSize) := by
        intro hh
        rcases Nat.lt_or_gt_of_ne c with c' | c'
        · have : (y' + 1) * m.rowSize ≤ y * m.rowSize := Nat.mul_le_mul_right _ c'
          rw [Nat.add_mul, Nat.one_mul] at this; omega
        · have : (y + 1) * m.rowSize ≤ y' * m.rowSize := Nat.mul_le_mul_right _ c'
          rw [Nat.add_mul, Nat.one_mul] at this; omega
      rw [if_neg hne, if_neg c]
      have hmb : mbit m x y' = (m.words[y' * m.rowSize + x / 32]?.getD 0).testBit (x % 32) := by
        unfold mbit bitAt; rw [e1, e2]
      rw [← hmb]
      by_cases c2 : x < m.width
      · rw [if_pos c2]
      · rw [if_neg c2]; exact h.2.2.2.2.2 x y' (by omega) hx

end WMat
end Gzx.Bits
