/-
  C16 helper lemmas: BitMatrix.ToString (ToStringWithLineSeparator).
-/
import Gzx.Proofs.BitsMat2
namespace Gzx.Bits
open Gzx

namespace WMat

/-- text of the first `n` cells of row `y`, as the loop builds it (reversed, in front of `acc`) -/
theorem toStr_row_aux (m : WMat) (h : InvM m) (set unset : List Nat) (y : Nat) (acc : List Nat) (n : Nat) :
    (List.range n).foldlM (fun acc x => do
      let b ← m.get x y
      pure ((if b then set else unset).reverse ++ acc)) acc =
    .ok (((List.range n).flatMap (fun x => if (absM m).get x y then set else unset)).reverse ++ acc) := by
  induction n with
  | zero => rfl
  | succ n ih =>
    rw [List.range_succ, List.foldlM_append, ih]
    simp only [bind, Except.bind, List.foldlM_cons, List.foldlM_nil, pure, Except.pure]
    rw [get_refines m n y h]
    simp only
    rw [List.flatMap_append, List.reverse_append]
    simp

theorem toStr_row (m : WMat) (h : InvM m) (set unset : List Nat) (y : Nat) (acc : List Nat) :
    m.toStrRow set unset y acc =
    .ok (((List.range m.width).flatMap (fun x => if (absM m).get x y then set else unset)).reverse ++ acc) :=
  toStr_row_aux m h set unset y acc m.width

theorem flatMap_congr_mem {α β : Type} (l : List α) (f g : α → List β) (h : ∀ a ∈ l, f a = g a) :
    l.flatMap f = l.flatMap g := by
  induction l with
  | nil => rfl
  | cons a l ih =>
    rw [List.flatMap_cons, List.flatMap_cons, h a (by simp), ih (fun b hb => h b (by simp [hb]))]

theorem toStr_rows (m : WMat) (h : InvM m) (set unset sep : List Nat) (n : Nat) :
    (List.range n).foldlM (fun acc y => do
      let row ← m.toStrRow set unset y acc
      pure (sep.reverse ++ row)) [] =
    .ok (((List.range n).flatMap (fun y =>
      (List.range m.width).flatMap (fun x => if (absM m).get x y then set else unset) ++ sep)).reverse) := by
  induction n with
  | zero => rfl
  | succ n ih =>
    rw [List.range_succ, List.foldlM_append, ih]
    simp only [bind, Except.bind, List.foldlM_cons, List.foldlM_nil, pure, Except.pure]
    rw [toStr_row m h set unset n _]
    simp only
    rw [List.flatMap_append, List.reverse_append]
    simp

/-- `ToStringWithLineSeparator(set, unset, sep)` -/
theorem toStr_refines (m : WMat) (h : InvM m) (set unset sep : List Nat) :
    m.toStr set unset sep = .ok ((absM m).toStr set unset sep) := by
  unfold WMat.toStr SMat.toStr
  rw [toStr_rows m h set unset sep m.height]
  simp only [Except.map, List.reverse_reverse]
  congr 1
  -- the rows of the abstraction, cell by cell
  have hrows : (absM m).rows = (List.range m.height).map (fun y =>
      (List.range m.width).map (fun x => mbit m x y)) := rfl
  rw [hrows, List.flatMap_map]
  apply flatMap_congr_mem
  intro y hy
  rw [List.mem_range] at hy
  try simp only [Function.comp]
  congr 1
  rw [List.flatMap_map]
  apply flatMap_congr_mem
  intro x hx
  rw [List.mem_range] at hx
  try simp only [Function.comp]
  rw [absM_get m x y hx hy]

end WMat
end Gzx.Bits
