/-
  C16 helper lemmas: GetNextSet / GetNextUnset.
-/
import Gzx.Proofs.BitsArr
namespace Gzx.Bits
open Gzx

/-- naive side: the first position at or after `frm` satisfying `p` is characterised by
    "nothing before, something there (or the end)" -/
theorem spec_next_unique (p : Bool → Bool) (a : List Bool) (frm r : Nat)
    (h1 : frm ≤ r) (h2 : r ≤ a.length)
    (hbefore : ∀ g, frm ≤ g → g < r → ∀ hg : g < a.length, p a[g] = false)
    (hat : ∀ hr : r < a.length, p a[r] = true) :
    frm + (a.drop frm).findIdx p = r := by
  by_cases hr : r < a.length
  · have hlt : r - frm < (a.drop frm).length := by rw [List.length_drop]; omega
    have : (a.drop frm).findIdx p = r - frm := by
      rw [List.findIdx_eq hlt]
      constructor
      · rw [List.getElem_drop]
        have e : frm + (r - frm) = r := by omega
        simp only [e]; exact hat hr
      · intro j hj
        rw [List.getElem_drop]
        exact hbefore (frm + j) (by omega) (by omega) (by omega)
    omega
  · have hr' : r = a.length := by omega
    have : (a.drop frm).findIdx p = (a.drop frm).length := by
      rw [List.findIdx_eq_length]
      intro x hx
      obtain ⟨j, hj, rfl⟩ := List.getElem_of_mem hx
      rw [List.getElem_drop]
      rw [List.length_drop] at hj
      exact hbefore (frm + j) (by omega) (by omega) (by omega)
    rw [this, List.length_drop]; omega

namespace WArr

/-- what the word scan finds: the first non-zero entry of `cur :: rest` (after complementing
    when `inv`), at list position `o - off` -/
theorem scanNonzero_spec (inv : Bool) (rest : List Nat) : ∀ (cur off : Nat),
    match scanNonzero inv cur rest off with
    | none => cur = 0 ∧ ∀ w ∈ rest, (if inv then not32 w else w) = 0
    | some (o, w) => off ≤ o ∧ w ≠ 0 ∧
        (cur :: rest.map (fun w => if inv then not32 w else w))[o - off]? = some w ∧
        ∀ k, k < o - off → (cur :: rest.map (fun w => if inv then not32 w else w))[k]? = some 0 := by
  induction rest with
  | nil =>
    intro cur off
    unfold scanNonzero
    by_cases hc : cur ≠ 0
    · simp [hc]
    · simp [hc]; omega
  | cons w r ih =>
    intro cur off
    unfold scanNonzero
    by_cases hc : cur ≠ 0
    · simp [hc]
    · rw [if_neg hc]
      have hc0 : cur = 0 := by omega
      have := ih (if inv then not32 w else w) (off + 1)
      simp only
      split
      · rename_i heq
        rw [heq] at this
        refine ⟨hc0, ?_⟩
        intro x hx
        rcases List.mem_cons.mp hx with rfl | hx
        · exact this.1
        · exact this.2 x hx
      · rename_i o w' heq
        rw [heq] at this
        obtain ⟨t1, t2, t3, t4⟩ := this
        refine ⟨by omega, t2, ?_, ?_⟩
        · have e : o - off = (o - (off + 1)) + 1 := by omega
          rw [e, List.map_cons, List.getElem?_cons_succ]; exact t3
        · intro k hk
          cases k with
          | zero => simp [hc0]
          | succ k =>
            rw [List.map_cons, List.getElem?_cons_succ]
            exact t4 k (by omega)

theorem testBit_eff (inv : Bool) (w j : Nat) (hj : j < 32) :
    (if inv then not32 w else w).testBit j = (w.testBit j ^^ inv) := by
  cases inv
  · simp
  · simp [testBit_not32, hj]

theorem eff_lt (inv : Bool) (w : Nat) (h : w < W32) : (if inv then not32 w else w) < W32 := by
  cases inv
  · simpa using h
  · simpa using not32_lt h

/-- the word-level scan returns the position characterised like the naive one -/
theorem nextGeneric_char (inv : Bool) (a : WArr) (frm : Nat) (h : InvA a) (hf : frm < a.size) :
    ∃ r, nextGeneric inv a frm = .ok r ∧ frm ≤ r ∧ r ≤ a.size ∧
      (∀ g, frm ≤ g → g < r → (bitAt a.words g ^^ inv) = false) ∧
      (r < a.size → (bitAt a.words r ^^ inv) = true) := by
  have hlen := h.1
  have hk0 : frm / 32 < a.words.length := by omega
  have hb : frm % 32 < 32 := Nat.mod_lt _ (by decide)
  unfold nextGeneric
  rw [if_neg (by omega), List.getElem?_eq_getElem hk0]
  simp only [Nat.one_shiftLeft]
  generalize hcur : (if inv then not32 a.words[frm / 32] else a.words[frm / 32]) &&&
    neg32 (2 ^ (frm % 32)) = cur
  have hw0 : a.words[frm / 32] < W32 := h.2.1 _ (List.getElem_mem hk0)
  have hcurlt : cur < W32 := by rw [← hcur]; exact and_lt_W32 (eff_lt inv _ hw0)
  have hcurbit : ∀ j, j < 32 → cur.testBit j =
      ((bitAt a.words (frm / 32 * 32 + j) ^^ inv) && decide (frm % 32 ≤ j)) := by
    intro j hj
    rw [← hcur, Nat.testBit_and, testBit_eff inv _ _ hj, testBit_neg32_two_pow _ _ hb,
      bitAt_eq_testBit _ _ _ hj, List.getElem?_eq_getElem hk0]
    simp [hj]
  -- the scanned list
  generalize hL : (cur :: (a.words.drop (frm / 32 + 1)).map (fun w => if inv then not32 w else w)) = L
  have hLget : ∀ m, 0 < m → frm / 32 + m < a.words.length →
      L[m]? = some (if inv then not32 a.words[frm / 32 + m]! else a.words[frm / 32 + m]!) := by
    intro m hm hlt
    rw [← hL]
    cases m with
    | zero => omega
    | succ m =>
      rw [List.getElem?_cons_succ, List.getElem?_map, List.getElem?_drop]
      have e : frm / 32 + 1 + m = frm / 32 + (m + 1) := by omega
      rw [e, List.getElem?_eq_getElem hlt]
      simp [hlt]
  have hLlen : L.length = a.words.length - frm / 32 := by
    rw [← hL]; simp; omega
  -- bits of a zero entry
  have hzero : ∀ g, frm ≤ g → g / 32 < a.words.length → L[g / 32 - frm / 32]? = some 0 →
      (bitAt a.words g ^^ inv) = false := by
    intro g hg hgl hz
    have hj : g % 32 < 32 := Nat.mod_lt _ (by decide)
    by_cases e : g / 32 = frm / 32
    · rw [e, Nat.sub_self, ← hL] at hz
      simp only [List.getElem?_cons_zero, Option.some.injEq] at hz
      have := hcurbit (g % 32) hj
      rw [hz, Nat.zero_testBit] at this
      have e2 : frm / 32 * 32 + g % 32 = g := by omega
      rw [e2] at this
      have hle : frm % 32 ≤ g % 32 := by omega
      simpa [hle] using this.symm
    · have hm : 0 < g / 32 - frm / 32 := by omega
      have e2 : frm / 32 + (g / 32 - frm / 32) = g / 32 := by omega
      have := hLget _ hm (by omega)
      rw [hz] at this
      simp only [e2, Option.some.injEq] at this
      have hb2 := testBit_eff inv (a.words[g / 32]!) (g % 32) hj
      rw [← this, Nat.zero_testBit] at hb2
      rw [bitAt_getElem _ _ hgl]
      simp [hgl] at hb2
      rw [hb2]; exact Bool.xor_self _
  have hscan := scanNonzero_spec inv (a.words.drop (frm / 32 + 1)) cur (frm / 32)
  rw [hL] at hscan
  split at hscan
  · -- nothing found
    rename_i heq
    rw [heq]
    refine ⟨a.size, rfl, by omega, by omega, ?_, fun hh => by omega⟩
    intro g hg1 hg2
    have hgl : g / 32 < a.words.length := by omega
    apply hzero g hg1 hgl
    by_cases e : g / 32 = frm / 32
    · rw [e, Nat.sub_self, ← hL, hscan.1]; rfl
    · rw [hLget _ (by omega) (by omega)]
      have e2 : frm / 32 + (g / 32 - frm / 32) = g / 32 := by omega
      simp only [e2]
      congr 1
      have hmem : a.words[g / 32] ∈ a.words.drop (frm / 32 + 1) := by
        rw [List.mem_iff_getElem?]
        refine ⟨g / 32 - (frm / 32 + 1), ?_⟩
        rw [List.getElem?_drop]
        have : frm / 32 + 1 + (g / 32 - (frm / 32 + 1)) = g / 32 := by omega
        rw [this, List.getElem?_eq_getElem hgl]
      have := hscan.2 _ hmem
      simpa [hgl] using this
  · rename_i o w heq
    rw [heq]
    obtain ⟨s1, s2, s3, s4⟩ := hscan
    simp only
    have holt : o - frm / 32 < L.length := by
      false_or_by_contra
      rw [List.getElem?_eq_none (by omega)] at s3; cases s3
    have hol : o < a.words.length := by omega
    -- w is 32-bit
    have hwlt : w < W32 := by
      by_cases e : o = frm / 32
      · rw [e, Nat.sub_self, ← hL] at s3
        simp only [List.getElem?_cons_zero, Option.some.injEq] at s3
        rw [← s3]; exact hcurlt
      · have := hLget (o - frm / 32) (by omega) (by omega)
        rw [s3] at this
        simp only [Option.some.injEq] at this
        rw [this]
        apply eff_lt
        have e2 : frm / 32 + (o - frm / 32) = o := by omega
        simp only [e2]
        simp [hol]; exact h.2.1 _ (List.getElem_mem hol)
    obtain ⟨t1, t2⟩ := tz32_spec w s2 hwlt
    have t3 := tz32_lt w s2 hwlt
    -- the bit found
    have hfound : (bitAt a.words (o * 32 + tz32 w) ^^ inv) = true ∧ frm ≤ o * 32 + tz32 w := by
      by_cases e : o = frm / 32
      · rw [e, Nat.sub_self, ← hL] at s3
        simp only [List.getElem?_cons_zero, Option.some.injEq] at s3
        have := hcurbit (tz32 w) t3
        rw [s3, t1] at this
        have := this.symm
        simp only [Bool.and_eq_true, decide_eq_true_eq] at this
        rw [e]; exact ⟨this.1, by omega⟩
      · have := hLget (o - frm / 32) (by omega) (by omega)
        rw [s3] at this
        simp only [Option.some.injEq] at this
        have e2 : frm / 32 + (o - frm / 32) = o := by omega
        simp only [e2] at this
        have hb2 := testBit_eff inv (a.words[o]!) (tz32 w) t3
        rw [← this, t1] at hb2
        rw [bitAt_eq_testBit _ _ _ t3, List.getElem?_eq_getElem hol]
        simp [hol] at hb2
        refine ⟨?_, by omega⟩
        cases hx : a.words[o].testBit (tz32 w) <;> cases inv <;> simp_all
    -- everything before is clear
    have hbefore : ∀ g, frm ≤ g → g < o * 32 + tz32 w → (bitAt a.words g ^^ inv) = false := by
      intro g hg1 hg2
      have hj : g % 32 < 32 := Nat.mod_lt _ (by decide)
      by_cases e : g / 32 < o
      · exact hzero g hg1 (by omega) (s4 _ (by omega))
      · have e1 : g / 32 = o := by omega
        have hjt : g % 32 < tz32 w := by omega
        have hwb := t2 _ hjt
        by_cases e0 : o = frm / 32
        · rw [e0, Nat.sub_self, ← hL] at s3
          simp only [List.getElem?_cons_zero, Option.some.injEq] at s3
          have := hcurbit (g % 32) hj
          rw [s3, hwb] at this
          have e2 : frm / 32 * 32 + g % 32 = g := by omega
          rw [e2] at this
          have hle : frm % 32 ≤ g % 32 := by omega
          simpa [hle] using this.symm
        · have := hLget (o - frm / 32) (by omega) (by omega)
          rw [s3] at this
          simp only [Option.some.injEq] at this
          have e2 : frm / 32 + (o - frm / 32) = o := by omega
          simp only [e2] at this
          have hb2 := testBit_eff inv (a.words[o]!) (g % 32) hj
          rw [← this, hwb] at hb2
          have hgl : g / 32 < a.words.length := by omega
          rw [bitAt_getElem _ _ hgl]
          simp only [e1]
          simp [hol] at hb2
          rw [hb2]; exact Bool.xor_self _
    by_cases hgt : o * 32 + tz32 w > a.size
    · rw [if_pos hgt]
      exact ⟨a.size, rfl, by omega, by omega, fun g g1 g2 => hbefore g g1 (by omega), fun hh => by omega⟩
    · rw [if_neg hgt]
      exact ⟨_, rfl, hfound.2, by omega, hbefore, fun _ => hfound.1⟩

theorem getNextSet_refines (a : WArr) (frm : Nat) (h : InvA a) :
    a.getNextSet frm = .ok (SArr.nextSet (absA a) frm) := by
  unfold getNextSet SArr.nextSet
  rw [absA_length]
  by_cases hf : frm ≥ a.size
  · unfold nextGeneric; simp [hf]
  · rw [if_neg hf]
    obtain ⟨r, h1, h2, h3, h4, h5⟩ := nextGeneric_char false a frm h (by omega)
    rw [h1]; congr 1; symm
    apply spec_next_unique (fun b => b) _ _ _ h2 (by rw [absA_length]; exact h3)
    · intro g g1 g2 hg
      have : (absA a)[g]? = some (bitAt a.words g) := by
        rw [absA_getElem?, if_pos (by omega)]
      rw [List.getElem?_eq_getElem hg] at this
      simp only [Option.some.injEq] at this
      rw [this]; simpa using h4 g g1 g2
    · intro hr
      rw [absA_length] at hr
      have : (absA a)[r]? = some (bitAt a.words r) := by
        rw [absA_getElem?, if_pos hr]
      rw [List.getElem?_eq_getElem (by rw [absA_length]; exact hr)] at this
      simp only [Option.some.injEq] at this
      rw [this]; simpa using h5 hr

theorem getNextUnset_refines (a : WArr) (frm : Nat) (h : InvA a) :
    a.getNextUnset frm = .ok (SArr.nextUnset (absA a) frm) := by
  unfold getNextUnset SArr.nextUnset
  rw [absA_length]
  by_cases hf : frm ≥ a.size
  · unfold nextGeneric; simp [hf]
  · rw [if_neg hf]
    obtain ⟨r, h1, h2, h3, h4, h5⟩ := nextGeneric_char true a frm h (by omega)
    rw [h1]; congr 1; symm
    apply spec_next_unique (fun b => !b) _ _ _ h2 (by rw [absA_length]; exact h3)
    · intro g g1 g2 hg
      have : (absA a)[g]? = some (bitAt a.words g) := by
        rw [absA_getElem?, if_pos (by omega)]
      rw [List.getElem?_eq_getElem hg] at this
      simp only [Option.some.injEq] at this
      rw [this]; simpa using h4 g g1 g2
    · intro hr
      rw [absA_length] at hr
      have : (absA a)[r]? = some (bitAt a.words r) := by
        rw [absA_getElem?, if_pos hr]
      rw [List.getElem?_eq_getElem (by rw [absA_length]; exact hr)] at this
      simp only [Option.some.injEq] at this
      rw [this]; simpa using h5 hr

end WArr
end Gzx.Bits
