/-
  C16 helper lemmas: ParseStringToBitMatrix ∘ ToString on the naive model.
-/
import Gzx.Proofs.BitsMat
namespace Gzx.Bits
open Gzx

/-- the text of one cell -/
def tok (set unset : List Nat) (b : Bool) : List Nat := if b then set else unset

/-- token strings that can be told apart by their first byte and are not line breaks -/
def GoodToks (set unset : List Nat) : Prop :=
  ∃ c d set' unset', set = c :: set' ∧ unset = d :: unset' ∧ c ≠ d ∧
    (c ≠ 10 ∧ c ≠ 13) ∧ (d ≠ 10 ∧ d ≠ 13)

theorem isPrefixOf_self_append (p rest : List Nat) : p.isPrefixOf (p ++ rest) = true := by
  induction p with
  | nil => simp [List.isPrefixOf]
  | cons a p ih => simp [List.isPrefixOf, ih]

/-- one cell token is consumed and its bit recorded -/
theorem parseLoop_cell (set unset : List Nat) (g : GoodToks set unset) (total fuel : Nat)
    (b : Bool) (rest : List Nat) (st : ParseSt) (hcap : st.bitsPos < total) :
    parseLoop set unset total (fuel + 1) (tok set unset b ++ rest) st =
      parseLoop set unset total fuel rest
        { st with bitsRev := b :: st.bitsRev, bitsPos := st.bitsPos + 1 } := by
  obtain ⟨c, d, set', unset', hset, hunset, hcd, hc, hd⟩ := g
  cases b with
  | true =>
    have ht : tok set unset true ++ rest = c :: (set' ++ rest) := by simp [tok, hset]
    rw [ht]
    conv => lhs; unfold parseLoop
    rw [if_neg (by omega)]
    have hp : set.isPrefixOf (c :: (set' ++ rest)) = true := by
      rw [← ht]; exact isPrefixOf_self_append set rest
    rw [if_pos hp, if_neg (by omega)]
    have hd' : (c :: (set' ++ rest)).drop set.length = rest := by
      rw [← ht]; simp [tok]
    rw [hd']
  | false =>
    have ht : tok set unset false ++ rest = d :: (unset' ++ rest) := by simp [tok, hunset]
    rw [ht]
    conv => lhs; unfold parseLoop
    rw [if_neg (by omega)]
    have hp1 : set.isPrefixOf (d :: (unset' ++ rest)) = false := by
      rw [hset]; simp [List.isPrefixOf, hcd]
    have hp2 : unset.isPrefixOf (d :: (unset' ++ rest)) = true := by
      rw [← ht]; exact isPrefixOf_self_append unset rest
    rw [if_neg (by simp [hp1]), if_pos hp2, if_neg (by omega)]
    have hd' : (d :: (unset' ++ rest)).drop unset.length = rest := by
      rw [← ht]; simp [tok]
    rw [hd']

theorem tok_length_pos (set unset : List Nat) (g : GoodToks set unset) (b : Bool) :
    1 ≤ (tok set unset b).length := by
  obtain ⟨c, d, set', unset', hset, hunset, _, _, _⟩ := g
  cases b <;> simp [tok, hset, hunset]

theorem flatMap_tok_length (set unset : List Nat) (g : GoodToks set unset) (r : List Bool) :
    r.length ≤ (r.flatMap (tok set unset)).length := by
  induction r with
  | nil => simp
  | cons b r ih =>
    have := tok_length_pos set unset g b
    simp only [List.flatMap_cons, List.length_append, List.length_cons]; omega

/-- one row of cells -/
theorem parseLoop_row (set unset : List Nat) (g : GoodToks set unset) (total : Nat) (r : List Bool) :
    ∀ (fuel : Nat) (rest : List Nat) (st : ParseSt),
    fuel ≥ (r.flatMap (tok set unset) ++ rest).length + 1 →
    st.bitsPos + (r.flatMap (tok set unset) ++ rest).length ≤ total →
    ∃ fuel', fuel' ≥ rest.length + 1 ∧
      parseLoop set unset total fuel (r.flatMap (tok set unset) ++ rest) st =
        parseLoop set unset total fuel' rest
          { st with bitsRev := r.reverse ++ st.bitsRev, bitsPos := st.bitsPos + r.length } := by
  induction r with
  | nil =>
    intro fuel rest st hf _
    exact ⟨fuel, by simpa using hf, by simp⟩
  | cons b r ih =>
    intro fuel rest st hf hcap
    have hpos := tok_length_pos set unset g b
    simp only [List.flatMap_cons, List.append_assoc, List.length_append] at hf hcap ⊢
    cases fuel with
    | zero => omega
    | succ fuel =>
      rw [parseLoop_cell set unset g total fuel b _ st (by omega)]
      obtain ⟨fuel', h1, h2⟩ := ih fuel rest
        { st with bitsRev := b :: st.bitsRev, bitsPos := st.bitsPos + 1 }
        (by simp only [List.length_append]; omega) (by simp only [List.length_append]; omega)
      refine ⟨fuel', h1, ?_⟩
      rw [h2]
      congr 1
      simp only [List.reverse_cons, List.append_assoc, List.singleton_append, List.length_cons]
      congr 1; omega

/-- text of a row: its cells and a line feed -/
def rowText (set unset : List Nat) (r : List Bool) : List Nat := r.flatMap (tok set unset) ++ [10]

theorem toStr_eq (m : SMat) (set unset : List Nat) :
    m.toStr set unset [10] = m.rows.flatMap (rowText set unset) := rfl

/-- all rows -/
theorem parseLoop_rows (set unset : List Nat) (g : GoodToks set unset) (total w : Nat) (hw : 1 ≤ w)
    (rs : List (List Bool)) : (∀ r ∈ rs, r.length = w) →
    ∀ (fuel : Nat) (st : ParseSt),
    fuel ≥ (rs.flatMap (rowText set unset)).length + 1 →
    st.bitsPos + (rs.flatMap (rowText set unset)).length ≤ total →
    st.rowStartPos = st.bitsPos → (st.rowLength = none ∨ st.rowLength = some w) →
    ∃ st', parseLoop set unset total fuel (rs.flatMap (rowText set unset)) st = .ok st' ∧
      st'.bitsRev = rs.flatten.reverse ++ st.bitsRev ∧
      st'.bitsPos = st.bitsPos + rs.flatten.length ∧
      st'.rowStartPos = st'.bitsPos ∧
      st'.rowLength = (if rs = [] then st.rowLength else some w) ∧
      st'.nRows = st.nRows + rs.length := by
  induction rs with
  | nil =>
    intro _ fuel st hf _ _ _
    cases fuel with
    | zero => simp at hf
    | succ fuel =>
      refine ⟨st, ?_, by simp, by simp, by assumption, by simp, by simp⟩
      simp [parseLoop]
  | cons r rs ih =>
    intro hlen fuel st hf hcap hstart hrl
    have hrw : r.length = w := hlen r (by simp)
    simp only [List.flatMap_cons, rowText, List.append_assoc, List.length_append] at hf hcap ⊢
    obtain ⟨fuel1, h1, h2⟩ := parseLoop_row set unset g total r fuel
      ([10] ++ rs.flatMap (rowText set unset)) st
      (by simp only [List.length_append]; omega) (by simp only [List.length_append]; omega)
    rw [h2]
    -- the line feed
    simp only [List.length_append, List.length_cons, List.length_nil] at h1
    cases fuel1 with
    | zero => omega
    | succ fuel1 =>
      simp only [List.singleton_append]
      unfold parseLoop
      rw [if_pos (Or.inl rfl)]
      obtain ⟨st1, hst1'⟩ : ∃ st1 : ParseSt, st1 =
          { st with bitsRev := r.reverse ++ st.bitsRev, bitsPos := st.bitsPos + r.length } := ⟨_, rfl⟩
      have hst1 := hst1'.symm
      rw [hst1]
      have hb1 : st1.bitsPos = st.bitsPos + w := by rw [← hst1, hrw]
      have hs1 : st1.rowStartPos = st.bitsPos := by rw [← hst1]; exact hstart
      have hl1 : st1.rowLength = st.rowLength := by rw [← hst1]
      have hn1 : st1.nRows = st.nRows := by rw [← hst1]
      have hr1 : st1.bitsRev = r.reverse ++ st.bitsRev := by rw [← hst1]
      have hend : ∃ st2, parseEndRow st1 = .ok st2 ∧ st2.bitsRev = st1.bitsRev ∧
          st2.bitsPos = st1.bitsPos ∧ st2.rowStartPos = st1.bitsPos ∧ st2.rowLength = some w ∧
          st2.nRows = st1.nRows + 1 := by
        unfold parseEndRow
        rw [if_pos (by omega)]
        rcases hrl with hn | hs
        · rw [hl1, hn]
          refine ⟨_, rfl, rfl, rfl, rfl, ?_, rfl⟩
          simp only; congr 1; omega
        · rw [hl1, hs]
          simp only
          rw [if_neg (by omega)]
          exact ⟨_, rfl, rfl, rfl, rfl, hs ▸ rfl, rfl⟩
      obtain ⟨st2, e1, e2, e3, e4, e5, e6⟩ := hend
      rw [e1]
      simp only
      obtain ⟨st', k1, k2, k3, k4, k5, k6⟩ := ih (fun r' hr' => hlen r' (by simp [hr'])) fuel1 st2
        (by omega) (by
          have := flatMap_tok_length set unset g r
          rw [e3, hb1]
          simp only [List.length_cons, List.length_nil] at hcap
          omega)
        (by rw [e4, e3]) (Or.inr e5)
      refine ⟨st', k1, ?_, ?_, k4, ?_, ?_⟩
      · rw [k2, e2, hr1]; simp
      · rw [k3, e3, hb1]; simp [hrw]; omega
      · rw [k5]; split <;> simp [e5]
      · rw [k6, e6, hn1]; simp; omega

/-- cutting the concatenation of equally long rows gives the rows back -/
theorem chunks_flatten (w : Nat) (rows : List (List Bool)) (hl : ∀ r ∈ rows, r.length = w) :
    (List.range rows.length).map (fun y => (rows.flatten.drop (y * w)).take w) = rows := by
  induction rows with
  | nil => rfl
  | cons r rows ih =>
    have hr : r.length = w := hl r (by simp)
    have ih' := ih (fun r' hr' => hl r' (by simp [hr']))
    rw [List.length_cons, List.range_succ_eq_map, List.map_cons, List.map_map]
    congr 1
    · simp [hr]
    · conv => rhs; rw [← ih']
      apply List.map_congr_left
      intro y _
      simp only [Function.comp, List.flatten_cons, Nat.succ_eq_add_one]
      have e : (y + 1) * w = r.length + y * w := by rw [Nat.add_mul, Nat.one_mul, hr]; omega
      rw [e, ← List.drop_drop, List.drop_left]

theorem flatten_length (w : Nat) (rows : List (List Bool)) (hl : ∀ r ∈ rows, r.length = w) :
    rows.flatten.length = rows.length * w := by
  induction rows with
  | nil => simp
  | cons r rows ih =>
    rw [List.flatten_cons, List.length_append, ih (fun r' hr' => hl r' (by simp [hr'])),
      hl r (by simp), List.length_cons, Nat.add_mul, Nat.one_mul]; omega

/-- `ParseStringToBitMatrix(ToString(m)) = m` on the naive model -/
theorem parse_toStr (m : SMat) (hm : m.WF) (hw : 1 ≤ m.width) (hh : 1 ≤ m.height)
    (set unset : List Nat) (g : GoodToks set unset) :
    SMat.parse (m.toStr set unset [10]) set unset = .ok m := by
  obtain ⟨mw, mh, rows⟩ := m
  obtain ⟨hrl, hrw⟩ := hm
  simp only at hrl hrw hw hh
  have hne : rows ≠ [] := by intro e; rw [e] at hrl; simp at hrl; omega
  unfold SMat.parse parseGrid
  rw [toStr_eq]
  simp only
  generalize hs : rows.flatMap (rowText set unset) = s
  have hsne : s.isEmpty = false := by
    cases rows with
    | nil => exact absurd rfl hne
    | cons r rs =>
      rw [← hs]
      simp [rowText]
  rw [hsne]
  simp only [Bool.false_eq_true, if_false]
  obtain ⟨st', k1, k2, k3, k4, k5, k6⟩ := parseLoop_rows set unset g s.length mw hw rows hrw
    (2 * s.length + 2) ⟨[], 0, 0, none, 0⟩ (by rw [hs]; omega) (by rw [hs]; simp) rfl (Or.inl rfl)
  rw [hs] at k1
  rw [k1]
  simp only
  have hend : parseEndRow st' = .ok st' := by
    unfold parseEndRow; rw [if_neg (by omega)]
  rw [hend]
  simp only
  rw [k5, if_neg hne]
  simp only
  have hn : st'.nRows = mh := by rw [k6]; simp [hrl]
  rw [if_neg (by omega)]
  simp only [Except.ok.injEq, SMat.mk.injEq]
  refine ⟨trivial, hn, ?_⟩
  rw [k2, hn, ← hrl]
  simp only [List.append_nil, List.reverse_reverse]
  exact chunks_flatten mw rows hrw

end Gzx.Bits
