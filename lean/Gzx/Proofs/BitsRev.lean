/-
  C16 helper lemmas: bit-stream reversal and realignment (BitArray.Reverse, BitMatrix.Rotate180).
-/
import Gzx.Proofs.BitsArr
namespace Gzx.Bits
open Gzx

theorem bitAt_cons (x : Nat) (xs : List Nat) (g : Nat) :
    bitAt (x :: xs) g = if g < 32 then x.testBit g else bitAt xs (g - 32) := by
  unfold bitAt
  by_cases h : g < 32
  · have h1 : g / 32 = 0 := by omega
    have h2 : g % 32 = g := by omega
    rw [if_pos h, h1, h2]; rfl
  · have h1 : g / 32 = (g - 32) / 32 + 1 := by omega
    have h2 : g % 32 = (g - 32) % 32 := by omega
    rw [if_neg h, h1, h2, List.getElem?_cons_succ]

theorem bitAt_append (xs ys : List Nat) (g : Nat) :
    bitAt (xs ++ ys) g = if g < xs.length * 32 then bitAt xs g else bitAt ys (g - xs.length * 32) := by
  unfold bitAt
  rw [List.getElem?_append]
  by_cases h : g < xs.length * 32
  · have : g / 32 < xs.length := by omega
    rw [if_pos h, if_pos this]
  · have : ¬ g / 32 < xs.length := by omega
    rw [if_neg h, if_neg this]
    have h1 : (g - xs.length * 32) / 32 = g / 32 - xs.length := by omega
    have h2 : (g - xs.length * 32) % 32 = g % 32 := by omega
    rw [h1, h2]

theorem bitAt_zeros (n g : Nat) : bitAt (List.replicate n 0) g = false := by
  unfold bitAt
  rw [List.getElem?_replicate]; split <;> simp

theorem testBit_ge32 {w : Nat} (hw : w < W32) {j : Nat} (hj : 32 ≤ j) : w.testBit j = false := by
  apply Nat.testBit_lt_two_pow
  have : 2 ^ 32 ≤ 2 ^ j := Nat.pow_le_pow_right (by decide) hj
  rw [W32_eq] at hw; omega

/-- the realignment loop shifts the whole stream down by `lo` bits -/
theorem bitAt_shiftLoop (lo : Nat) (h0 : 0 < lo) (h32 : lo < 32) (rest : List Nat) :
    ∀ (w0 : Nat), w0 < W32 → (∀ w ∈ rest, w < W32) →
    ∀ g, bitAt (WArr.shiftLoop lo rest (w0 >>> lo)) g = bitAt (w0 :: rest) (g + lo) := by
  induction rest with
  | nil =>
    intro w0 hw0 _ g
    unfold WArr.shiftLoop
    rw [bitAt_cons, bitAt_cons]
    by_cases hg : g < 32
    · rw [if_pos hg, Nat.testBit_shiftRight]
      by_cases hgl : g + lo < 32
      · rw [if_pos hgl, Nat.add_comm]
      · rw [if_neg hgl, testBit_ge32 hw0 (by omega)]
        unfold bitAt; simp
    · rw [if_neg hg, if_neg (by omega)]
      unfold bitAt; simp
  | cons next rest ih =>
    intro w0 hw0 hr g
    have hnext : next < W32 := hr next (by simp)
    unfold WArr.shiftLoop
    rw [bitAt_cons]
    by_cases hg : g < 32
    · rw [if_pos hg, Nat.testBit_or, Nat.testBit_shiftRight, testBit_shl32, bitAt_cons]
      by_cases hgl : g + lo < 32
      · rw [if_pos hgl, Nat.add_comm]
        have : ¬ 32 - lo ≤ g := by omega
        simp [this]
      · rw [if_neg hgl, bitAt_cons, if_pos (by omega), testBit_ge32 hw0 (by omega)]
        have : 32 - lo ≤ g := by omega
        have e : g - (32 - lo) = g + lo - 32 := by omega
        simp [this, hg, e]
    · rw [if_neg hg, ih next hnext (fun w hw => hr w (by simp [hw])) (g - 32)]
      rw [bitAt_cons (x := w0), if_neg (by omega)]
      congr 1; omega

theorem shiftLoop_length (lo : Nat) (rest : List Nat) : ∀ cur,
    (WArr.shiftLoop lo rest cur).length = rest.length + 1 := by
  induction rest with
  | nil => intro cur; simp [WArr.shiftLoop]
  | cons x xs ih => intro cur; simp [WArr.shiftLoop, ih]

theorem shr_lt_W32 {w : Nat} (hw : w < W32) (k : Nat) : w >>> k < W32 := by
  rw [Nat.shiftRight_eq_div_pow]
  exact Nat.lt_of_le_of_lt (Nat.div_le_self _ _) hw

theorem shiftLoop_lt (lo : Nat) (rest : List Nat) : ∀ cur, cur < W32 → (∀ w ∈ rest, w < W32) →
    ∀ w ∈ WArr.shiftLoop lo rest cur, w < W32 := by
  induction rest with
  | nil =>
    intro cur hc _ w hw
    unfold WArr.shiftLoop at hw
    rw [List.mem_singleton.mp hw]; exact hc
  | cons x xs ih =>
    intro cur hc hr w hw
    unfold WArr.shiftLoop at hw
    rcases List.mem_cons.mp hw with h1 | hw
    · rw [h1]; exact or_lt_W32 hc (shl32_lt _ _)
    · exact ih _ (shr_lt_W32 (hr x (by simp)) _) (fun w hw => hr w (by simp [hw])) w hw

/-- reversing the word order and the bits of every word reverses the stream -/
theorem bitAt_reverse_rev32 (ws : List Nat) (g : Nat) (hg : g < ws.length * 32) :
    bitAt ((ws.map rev32).reverse) g = bitAt ws (ws.length * 32 - 1 - g) := by
  have hk : g / 32 < ws.length := by omega
  have hk2 : ws.length - 1 - g / 32 < ws.length := by omega
  have e1 : (ws.length * 32 - 1 - g) / 32 = ws.length - 1 - g / 32 := by omega
  have e2 : (ws.length * 32 - 1 - g) % 32 = 31 - g % 32 := by omega
  have hj : g % 32 < 32 := Nat.mod_lt _ (by decide)
  rw [bitAt_getElem _ _ (by simpa using hk), bitAt_getElem _ _ (by omega)]
  rw [List.getElem_reverse, List.getElem_map, testBit_rev32, decide_eq_true hj, Bool.true_and]
  simp only [List.length_map, e1, e2]

/-- phase 1 of `Reverse`: `newBits[c-i] = Reverse32(bits[i])` for `i` in a range -/
theorem foldlM_rev_fill (R : Nat → Nat) (ws : List Nat) (c n : Nat) : ∀ (nb : List Nat) (s : Nat),
    s + n ≤ c + 1 → s + n ≤ ws.length → c < nb.length →
    ∃ nb', (List.range' s n).foldlM (fun nb i => do
        let w ← wordAt ws i
        setWord nb (c - i) (R w)) nb = .ok nb' ∧ nb'.length = nb.length ∧
      ∀ k, nb'[k]? = if k + s ≤ c ∧ c < k + s + n then some (R (ws[c - k]?.getD 0)) else nb[k]? := by
  induction n with
  | zero =>
    intro nb s _ _ _
    refine ⟨nb, by simp [pure, Except.pure], rfl, ?_⟩
    intro k; rw [if_neg (by omega)]
  | succ n ih =>
    intro nb s h1 h2 h3
    have hs : s < ws.length := by omega
    rw [List.range'_succ, List.foldlM_cons, wordAt_ok _ _ hs]
    simp only [bind, Except.bind]
    rw [setWord_ok _ _ _ (by omega)]
    obtain ⟨nb', g1, g2, g3⟩ := ih (nb.set (c - s) (R ws[s])) (s + 1) (by omega) (by omega)
      (by simpa using h3)
    refine ⟨nb', by simpa [bind, Except.bind] using g1, by simpa using g2, ?_⟩
    intro k
    rw [g3 k, List.getElem?_set]
    by_cases e : c - s = k
    · have c1 : ¬ (k + (s + 1) ≤ c ∧ c < k + (s + 1) + n) := by omega
      have c2 : k + s ≤ c ∧ c < k + s + (n + 1) := by omega
      have e3 : c - k = s := by omega
      rw [if_neg c1, if_pos c2, if_pos e, if_pos (by omega), e3, List.getElem?_eq_getElem hs,
        Option.getD_some]
    · rw [if_neg e]
      by_cases c1 : k + (s + 1) ≤ c ∧ c < k + (s + 1) + n
      · rw [if_pos c1, if_pos (by omega)]
      · rw [if_neg c1, if_neg (by omega)]

namespace WArr

theorem reverse_refines (a : WArr) (h : InvA a) :
    RefinesA a.reverse (SArr.reverse (absA a)) := by
  unfold WArr.reverse SArr.reverse
  by_cases h0 : a.size = 0
  · rw [if_pos h0]
    refine ⟨a, rfl, h, ?_⟩
    have : absA a = [] := by
      apply List.eq_nil_of_length_eq_zero; rw [absA_length]; exact h0
    rw [this]; rfl
  · rw [if_neg h0]
    have hlen := h.1
    simp only
    generalize hL : (a.size - 1) / 32 + 1 = L
    have hLlen : L ≤ a.words.length := by omega
    have hLsz : a.size ≤ L * 32 := by omega
    have hLsz2 : L * 32 < a.size + 32 := by omega
    rw [List.range_eq_range']
    obtain ⟨nb1, g1, g2, g3⟩ := foldlM_rev_fill rev32 a.words ((a.size - 1) / 32) L
      (List.replicate a.words.length 0) 0 (by omega) (by omega) (by simp; omega)
    rw [g1]
    simp only
    -- the bits of newBits after phase 1
    have hnb1 : ∀ g, bitAt nb1 g = if g < L * 32 then bitAt a.words (L * 32 - 1 - g) else false := by
      intro g
      have hj : g % 32 < 32 := Nat.mod_lt _ (by decide)
      unfold bitAt
      rw [g3]
      by_cases c : g < L * 32
      · have c' : g / 32 + 0 ≤ (a.size - 1) / 32 ∧ (a.size - 1) / 32 < g / 32 + 0 + L := by omega
        rw [if_pos c', if_pos c, Option.getD_some]
        rw [testBit_rev32, decide_eq_true hj, Bool.true_and]
        have e1 : (L * 32 - 1 - g) / 32 = (a.size - 1) / 32 - g / 32 := by omega
        have e2 : (L * 32 - 1 - g) % 32 = 31 - g % 32 := by omega
        rw [e1, e2]
      · have c' : ¬ (g / 32 + 0 ≤ (a.size - 1) / 32 ∧ (a.size - 1) / 32 < g / 32 + 0 + L) := by omega
        rw [if_neg c', if_neg c, List.getElem?_replicate]
        split <;> simp
    have hnb1lt : ∀ w ∈ nb1, w < W32 := by
      intro w hw
      obtain ⟨k, hk, rfl⟩ := List.getElem_of_mem hw
      have := g3 k
      rw [List.getElem?_eq_getElem hk] at this
      split at this
      · simp only [Option.some.injEq] at this; rw [this]; exact rev32_lt _
      · rw [List.getElem?_replicate] at this
        split at this
        · simp only [Option.some.injEq] at this; rw [this]; decide
        · cases this
    have hlen1 : nb1.length = a.words.length := by simpa using g2
    -- the naive side
    have hspec : ∀ (ws' : List Nat), ws'.length = a.words.length → (∀ w ∈ ws', w < W32) →
        (∀ g, bitAt ws' g = if g < a.size then bitAt a.words (a.size - 1 - g) else false) →
        InvA ⟨ws', a.size⟩ ∧ absA ⟨ws', a.size⟩ = List.reverse (absA a) := by
      intro ws' hl hlt hb
      refine ⟨⟨by show a.size ≤ ws'.length * 32; omega, hlt, ?_⟩, ?_⟩
      · intro g hg
        have hg' : a.size ≤ g := hg
        show bitAt ws' g = false
        rw [hb, if_neg (by omega)]
      · apply absA_eq_of
        · simp [absA_length]
        · intro g hg
          have hg' : g < a.size := hg
          show _ = some (bitAt ws' g)
          rw [hb, if_pos hg', List.getElem?_reverse (by rw [absA_length]; exact hg'), absA_length,
            absA_getElem?, if_pos (by omega)]
    by_cases hfull : a.size ≠ L * 32
    · rw [if_pos hfull]
      have hlo0 : 0 < L * 32 - a.size := by omega
      have hlo32 : L * 32 - a.size < 32 := by omega
      have htake : (nb1.take L).length = L := by rw [List.length_take]; omega
      cases htk : nb1.take L with
      | nil => rw [htk] at htake; simp at htake; omega
      | cons w0 rest =>
        simp only
        have hw0 : w0 < W32 := hnb1lt w0 (List.mem_of_mem_take (by rw [htk]; simp))
        have hrest : ∀ w ∈ rest, w < W32 := fun w hw =>
          hnb1lt w (List.mem_of_mem_take (by rw [htk]; simp [hw]))
        have hrl : rest.length + 1 = L := by rw [htk] at htake; simpa using htake
        refine ⟨_, rfl, hspec _ ?_ ?_ ?_⟩
        · rw [List.length_append, shiftLoop_length, List.length_drop]; omega
        · intro w hw
          rcases List.mem_append.mp hw with h1 | h1
          · exact shiftLoop_lt _ _ _ (shr_lt_W32 hw0 _) hrest w h1
          · exact hnb1lt w (List.mem_of_mem_drop h1)
        · intro g
          rw [bitAt_append, shiftLoop_length, hrl]
          by_cases c : g < L * 32
          · rw [if_pos c, bitAt_shiftLoop _ hlo0 hlo32 rest w0 hw0 hrest, ← htk]
            have : bitAt (nb1.take L) (g + (L * 32 - a.size)) =
                if g + (L * 32 - a.size) < L * 32 then bitAt nb1 (g + (L * 32 - a.size)) else false := by
              unfold bitAt
              rw [List.getElem?_take]
              by_cases c2 : g + (L * 32 - a.size) < L * 32
              · rw [if_pos c2, if_pos (by omega)]
              · rw [if_neg c2, if_neg (by omega)]; simp
            rw [this]
            by_cases c2 : g < a.size
            · rw [if_pos (by omega), if_pos c2, hnb1, if_pos (by omega)]
              congr 1; omega
            · rw [if_neg (by omega), if_neg c2]
          · rw [if_neg c, if_neg (by omega)]
            unfold bitAt
            rw [List.getElem?_drop]
            have := hnb1 (L * 32 + (g - L * 32))
            rw [if_neg (by omega)] at this
            unfold bitAt at this
            have e1 : (L * 32 + (g - L * 32)) / 32 = L + (g - L * 32) / 32 := by omega
            have e2 : (L * 32 + (g - L * 32)) % 32 = (g - L * 32) % 32 := by omega
            rw [e1, e2] at this
            exact this
    · rw [if_neg hfull]
      have hfull' : a.size = L * 32 := by omega
      refine ⟨_, rfl, hspec nb1 hlen1 hnb1lt ?_⟩
      intro g
      rw [hnb1, hfull']

end WArr
end Gzx.Bits
