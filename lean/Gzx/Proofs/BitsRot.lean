/-
  C16 helper lemmas: BitMatrix.Rotate180 — word swaps = list reversal, per-row realignment.
-/
import Gzx.Proofs.BitsMat5
namespace Gzx.Bits
open Gzx

/-! ## phase A: the swap loops reverse the word list -/

/-- the first and the last `z` positions have been exchanged (mirror image), the middle is untouched -/
def Zone (ws0 ws : List Nat) (z : Nat) : Prop :=
  ws.length = ws0.length ∧
  ∀ p, p < ws0.length →
    ws[p]? = if p < z ∨ ws0.length - z ≤ p then ws0[ws0.length - 1 - p]? else ws0[p]?

theorem zone_init (ws0 : List Nat) : Zone ws0 ws0 0 := by
  refine ⟨rfl, ?_⟩
  intro p hp; rw [if_neg (by omega)]

theorem zone_swap (ws0 ws : List Nat) (z : Nat) (hz : Zone ws0 ws z) (h2 : 2 * z + 2 ≤ ws0.length) :
    ∃ ws', WMat.swapWords ws z (ws0.length - 1 - z) = .ok ws' ∧ Zone ws0 ws' (z + 1) := by
  obtain ⟨hlen, hget⟩ := hz
  have h1 : z < ws.length := by omega
  have h3 : ws0.length - 1 - z < ws.length := by omega
  have hA : ws[z]? = ws0[z]? := by rw [hget z (by omega), if_neg (by omega)]
  have hB : ws[ws0.length - 1 - z]? = ws0[ws0.length - 1 - z]? := by
    rw [hget _ (by omega), if_neg (by omega)]
  unfold WMat.swapWords
  rw [wordAt_ok _ _ h1, wordAt_ok _ _ h3]
  simp only [bind, Except.bind]
  rw [setWord_ok _ _ _ h1]
  simp only
  rw [setWord_ok _ _ _ (by simpa using h3)]
  refine ⟨_, rfl, by simpa using hlen, ?_⟩
  intro p hp
  rw [List.getElem?_set, List.getElem?_set]
  rw [List.getElem?_eq_getElem h1] at hA
  rw [List.getElem?_eq_getElem h3] at hB
  by_cases c1 : ws0.length - 1 - z = p
  · rw [if_pos c1, if_pos (by simpa using h3), if_pos (by omega), hA]
    congr 1; omega
  · rw [if_neg c1]
    by_cases c2 : z = p
    · rw [if_pos c2, if_pos h1, if_pos (by omega), hB, c2]
    · rw [if_neg c2, hget p hp]
      by_cases c3 : p < z ∨ ws0.length - z ≤ p
      · rw [if_pos c3, if_pos (by omega)]
      · rw [if_neg c3, if_neg (by omega)]

theorem zone_loop (ws0 : List Nat) (n : Nat) : ∀ (ws : List Nat) (z0 : Nat),
    Zone ws0 ws z0 → 2 * (z0 + n) ≤ ws0.length →
    ∃ ws', (List.range n).foldlM
        (fun ws j => WMat.swapWords ws (z0 + j) (ws0.length - 1 - (z0 + j))) ws = .ok ws' ∧
      Zone ws0 ws' (z0 + n) := by
  induction n with
  | zero => intro ws z0 hz _; exact ⟨ws, rfl, hz⟩
  | succ n ih =>
    intro ws z0 hz hb
    obtain ⟨ws1, g1, g2⟩ := ih ws z0 hz (by omega)
    obtain ⟨ws2, k1, k2⟩ := zone_swap ws0 ws1 (z0 + n) g2 (by omega)
    rw [List.range_succ, List.foldlM_append, g1]
    simp only [bind, Except.bind, List.foldlM_cons, List.foldlM_nil, pure, Except.pure]
    rw [k1]
    exact ⟨ws2, rfl, k2⟩

/-- the row-pair loop of `Rotate180` -/
theorem zone_rows (ws0 : List Nat) (rs h : Nat) (hN : ws0.length = h * rs) (a : Nat) :
    a ≤ h / 2 →
    ∃ ws', (List.range a).foldlM (fun ws i =>
        (List.range rs).foldlM
          (fun ws j => WMat.swapWords ws (i * rs + j) ((h - i) * rs - 1 - j)) ws) ws0 = .ok ws' ∧
      Zone ws0 ws' (a * rs) := by
  induction a with
  | zero => intro _; exact ⟨ws0, rfl, by simpa using zone_init ws0⟩
  | succ a ih =>
    intro ha
    obtain ⟨ws1, g1, g2⟩ := ih (by omega)
    have hb : 2 * (a * rs + rs) ≤ ws0.length := by
      have : (2 * (a + 1)) * rs ≤ h * rs := Nat.mul_le_mul_right rs (by omega)
      have e : (2 * (a + 1)) * rs = 2 * (a * rs + rs) := by
        rw [Nat.mul_assoc, Nat.add_mul, Nat.one_mul]
      rw [hN]; omega
    obtain ⟨ws2, k1, k2⟩ := zone_loop ws0 rs ws1 (a * rs) g2 hb
    rw [List.range_succ, List.foldlM_append, g1]
    simp only [bind, Except.bind, List.foldlM_cons, List.foldlM_nil, pure, Except.pure]
    have hc : (List.range rs).foldlM
          (fun ws j => WMat.swapWords ws (a * rs + j) ((h - a) * rs - 1 - j)) ws1 =
        (List.range rs).foldlM
          (fun ws j => WMat.swapWords ws (a * rs + j) (ws0.length - 1 - (a * rs + j))) ws1 := by
      apply WArr.foldlM_congr_mem
      intro j _ ws
      have : (h - a) * rs - 1 - j = ws0.length - 1 - (a * rs + j) := by
        rw [hN, Nat.sub_mul]; omega
      rw [this]
    rw [hc, k1]
    refine ⟨ws2, rfl, ?_⟩
    have : (a + 1) * rs = a * rs + rs := by rw [Nat.add_mul, Nat.one_mul]
    rw [this]; exact k2

theorem zone_final (ws0 ws : List Nat) (z : Nat) (hz : Zone ws0 ws z) (h1 : 2 * z ≤ ws0.length)
    (h2 : ws0.length ≤ 2 * z + 1) : ws = ws0.reverse := by
  apply List.ext_getElem?
  intro p
  by_cases hp : p < ws0.length
  · rw [hz.2 p hp, List.getElem?_reverse hp]
    by_cases c : p < z ∨ ws0.length - z ≤ p
    · rw [if_pos c]
    · rw [if_neg c]; congr 1; omega
  · rw [List.getElem?_eq_none (by rw [hz.1]; omega), List.getElem?_eq_none (by simp; omega)]

theorem phaseA_eq_reverse (rs h : Nat) (ws0 : List Nat) (hN : ws0.length = h * rs) :
    WMat.rotate180Swap rs h ws0 = .ok ws0.reverse := by
  unfold WMat.rotate180Swap
  obtain ⟨ws1, g1, g2⟩ := zone_rows ws0 rs h hN (h / 2) (Nat.le_refl _)
  simp only
  rw [g1]
  simp only
  by_cases hodd : h % 2 ≠ 0
  · rw [if_pos hodd]
    have hh : h = 2 * (h / 2) + 1 := by omega
    have hNN : ws0.length = 2 * (h / 2 * rs) + rs := by
      rw [hN]
      conv => lhs; rw [hh]
      rw [Nat.add_mul, Nat.mul_assoc, Nat.one_mul]
    have hoff : rs * (h - 1) / 2 = h / 2 * rs := by
      have hk : h - 1 = 2 * (h / 2) := by omega
      rw [hk, Nat.mul_left_comm, Nat.mul_div_cancel_left _ (by decide : 0 < 2), Nat.mul_comm]
    rw [hoff]
    obtain ⟨ws2, k1, k2⟩ := zone_loop ws0 (rs / 2) ws1 (h / 2 * rs) g2 (by omega)
    have hc : (List.range (rs / 2)).foldlM
          (fun ws j => WMat.swapWords ws (h / 2 * rs + j) (h / 2 * rs + rs - 1 - j)) ws1 =
        (List.range (rs / 2)).foldlM
          (fun ws j => WMat.swapWords ws (h / 2 * rs + j) (ws0.length - 1 - (h / 2 * rs + j))) ws1 := by
      apply WArr.foldlM_congr_mem
      intro j hj ws
      rw [List.mem_range] at hj
      have : h / 2 * rs + rs - 1 - j = ws0.length - 1 - (h / 2 * rs + j) := by omega
      rw [this]
    rw [hc, k1]
    congr 1
    exact zone_final ws0 ws2 _ k2 (by omega) (by omega)
  · rw [if_neg hodd]
    have hh : h = 2 * (h / 2) := by omega
    have hNN : ws0.length = 2 * (h / 2 * rs) := by
      rw [hN]
      conv => lhs; rw [hh]
      rw [Nat.mul_assoc]
    congr 1
    exact zone_final ws0 ws1 _ g2 (by omega) (by omega)

/-! ## phase B: per-row reverse-and-realign -/

theorem realignLoop_eq (shift : Nat) (hs : shift < 32) (rest : List Nat) : ∀ prev,
    WMat.realignLoop shift rest prev = WArr.shiftLoop (32 - shift) (rest.map rev32) prev := by
  induction rest with
  | nil => intro prev; rfl
  | cons w rest ih =>
    intro prev
    unfold WMat.realignLoop
    rw [List.map_cons]
    unfold WArr.shiftLoop
    have e : 32 - (32 - shift) = shift := by omega
    rw [e]
    show (prev ||| shl32 (rev32 w) shift) :: WMat.realignLoop shift rest (rev32 w >>> (32 - shift)) = _
    rw [ih]

theorem mapRows_length (rs : Nat) (f : List Nat → List Nat) (hf : ∀ r, (f r).length = r.length)
    (h : Nat) : ∀ ws, ws.length = h * rs → (WMat.mapRows rs f h ws).length = ws.length := by
  induction h with
  | zero => intro ws _; rfl
  | succ h ih =>
    intro ws hl
    unfold WMat.mapRows
    rw [Nat.add_mul, Nat.one_mul] at hl
    rw [List.length_append, hf, ih _ (by rw [List.length_drop]; omega), List.length_take,
      List.length_drop]
    omega

/-- row `y` of the result of a per-row map is the image of row `y` -/
theorem mapRows_get (rs : Nat) (f : List Nat → List Nat) (hf : ∀ r, (f r).length = r.length)
    (h : Nat) : ∀ ws y k, ws.length = h * rs → y < h → k < rs →
    (WMat.mapRows rs f h ws)[y * rs + k]? = (f ((ws.drop (y * rs)).take rs))[k]? := by
  induction h with
  | zero => intro ws y k _ hy _; omega
  | succ h ih =>
    intro ws y k hl hy hk
    unfold WMat.mapRows
    rw [Nat.add_mul, Nat.one_mul] at hl
    have htl : (f (ws.take rs)).length = rs := by rw [hf, List.length_take]; omega
    rw [List.getElem?_append, htl]
    cases y with
    | zero =>
      rw [Nat.zero_mul, Nat.zero_add, if_pos hk, List.drop_zero]
    | succ y =>
      have e1 : ¬ ((y + 1) * rs + k < rs) := by rw [Nat.add_mul, Nat.one_mul]; omega
      have e2 : (y + 1) * rs + k - rs = y * rs + k := by rw [Nat.add_mul, Nat.one_mul]; omega
      rw [if_neg e1, e2, ih (ws.drop rs) y k (by rw [List.length_drop]; omega) (by omega) hk,
        List.drop_drop]
      have e3 : rs + y * rs = (y + 1) * rs := by rw [Nat.add_mul, Nat.one_mul]; omega
      rw [e3]

/-- row `y` of the reversed word list is the reversed row `h-1-y` -/
theorem reverse_row (ws : List Nat) (rs h y : Nat) (hl : ws.length = h * rs) (hy : y < h) :
    (ws.reverse.drop (y * rs)).take rs = ((ws.drop ((h - 1 - y) * rs)).take rs).reverse := by
  have hy1 : (y + 1) * rs ≤ h * rs := Nat.mul_le_mul_right rs hy
  have hy2 : (h - 1 - y) * rs + rs + y * rs = h * rs := by
    have : (h - 1 - y) + 1 + y = h := by omega
    calc (h - 1 - y) * rs + rs + y * rs = ((h - 1 - y) + 1 + y) * rs := by
          rw [Nat.add_mul, Nat.add_mul, Nat.one_mul]
      _ = h * rs := by rw [this]
  rw [Nat.add_mul, Nat.one_mul] at hy1
  apply List.ext_getElem?
  intro k
  rw [List.getElem?_take, List.getElem?_drop]
  by_cases hk : k < rs
  · rw [if_pos hk, List.getElem?_reverse (by omega),
      List.getElem?_reverse (by rw [List.length_take, List.length_drop]; omega),
      List.getElem?_take, List.getElem?_drop, List.length_take, List.length_drop]
    have emin : min rs (ws.length - (h - 1 - y) * rs) = rs := by omega
    rw [emin, if_pos (by omega)]
    congr 1; omega
  · rw [if_neg hk, List.getElem?_eq_none (by simp [List.length_take, List.length_drop]; omega)]

end Gzx.Bits
