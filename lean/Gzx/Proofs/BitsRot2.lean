/-
  C16 helper lemmas: BitMatrix.Rotate180 refinement (assembly) and the naive 180° rotation.
-/
import Gzx.Proofs.BitsRot
namespace Gzx.Bits
open Gzx

namespace SMat

theorem rotate180_WF (m : SMat) (hm : m.WF) : m.rotate180.WF := by
  constructor
  · simpa [SMat.rotate180] using hm.1
  · intro r hr
    simp only [SMat.rotate180, List.mem_map, List.mem_reverse] at hr
    obtain ⟨r0, h0, rfl⟩ := hr
    rw [List.length_reverse]; exact hm.2 r0 h0

theorem get_rotate180 (m : SMat) (hm : m.WF) (x y : Nat) (hx : x < m.width) (hy : y < m.height) :
    m.rotate180.get x y = m.get (m.width - 1 - x) (m.height - 1 - y) := by
  have hl := hm.1
  have hy' : m.height - 1 - y < m.rows.length := by omega
  have hrl : m.rows[m.height - 1 - y].length = m.width := hm.2 _ (List.getElem_mem hy')
  rw [get_eq m _ _ hy']
  unfold SMat.get SMat.rotate180
  simp only
  rw [List.getElem?_map, List.getElem?_reverse (by omega), hl, List.getElem?_eq_getElem hy']
  simp only [Option.map_some, Option.getD_some]
  rw [List.getElem?_reverse (by omega), hrl]

theorem rotate180_eq (m : SMat) (hm : m.WF) :
    m.rotate180 = ofFn m.width m.height (fun x y => m.get (m.width - 1 - x) (m.height - 1 - y)) :=
  eq_ofFn_of _ (rotate180_WF m hm) _ _ _ rfl rfl (fun x y hx hy => get_rotate180 m hm x y hx hy)

end SMat

/-- the bits of row `y` of a flat word list -/
theorem bitAt_row (ws : List Nat) (rs y g : Nat) (hg : g < rs * 32) :
    bitAt ((ws.drop (y * rs)).take rs) g = bitAt ws (y * rs * 32 + g) := by
  unfold bitAt
  have e1 : (y * rs * 32 + g) / 32 = y * rs + g / 32 := by omega
  have e2 : (y * rs * 32 + g) % 32 = g % 32 := by omega
  rw [e1, e2, List.getElem?_take, if_pos (by omega), List.getElem?_drop]

theorem realignRow_bit (shift : Nat) (h0 : 0 < shift) (hs : shift < 32) (row : List Nat)
    (hne : row ≠ []) (hlt : ∀ w ∈ row, w < W32) (g : Nat) :
    bitAt (WMat.realignRow shift row) g = bitAt (row.map rev32) (g + (32 - shift)) := by
  cases row with
  | nil => exact absurd rfl hne
  | cons w0 rest =>
    show bitAt (WMat.realignLoop shift rest (rev32 w0 >>> (32 - shift))) g = _
    rw [realignLoop_eq shift hs, List.map_cons]
    exact bitAt_shiftLoop (32 - shift) (by omega) (by omega) (rest.map rev32) (rev32 w0) (rev32_lt _)
      (by intro w hw; obtain ⟨v, _, rfl⟩ := List.mem_map.mp hw; exact rev32_lt _) g

theorem realignRow_length (shift : Nat) (hs : shift < 32) (row : List Nat) :
    (WMat.realignRow shift row).length = row.length := by
  cases row with
  | nil => rfl
  | cons w0 rest =>
    show (WMat.realignLoop shift rest (rev32 w0 >>> (32 - shift))).length = _
    rw [realignLoop_eq shift hs, shiftLoop_length]; simp

theorem realignRow_lt (shift : Nat) (hs : shift < 32) (row : List Nat) :
    ∀ w ∈ WMat.realignRow shift row, w < W32 := by
  cases row with
  | nil => intro w hw; simp [WMat.realignRow] at hw
  | cons w0 rest =>
    show ∀ w ∈ WMat.realignLoop shift rest (rev32 w0 >>> (32 - shift)), w < W32
    rw [realignLoop_eq shift hs]
    exact shiftLoop_lt _ _ _ (shr_lt_W32 (rev32_lt _) _)
      (by intro w hw; obtain ⟨v, _, rfl⟩ := List.mem_map.mp hw; exact rev32_lt _)

theorem mapRows_lt (rs : Nat) (f : List Nat → List Nat) (hf : ∀ r, ∀ w ∈ f r, w < W32) (h : Nat) :
    ∀ ws, ws.length = h * rs → ∀ w ∈ WMat.mapRows rs f h ws, w < W32 := by
  induction h with
  | zero =>
    intro ws hl w hw
    have : ws = [] := List.eq_nil_of_length_eq_zero (by simpa using hl)
    rw [this] at hw; simp [WMat.mapRows] at hw
  | succ h ih =>
    intro ws hl w hw
    unfold WMat.mapRows at hw
    rw [Nat.add_mul, Nat.one_mul] at hl
    rcases List.mem_append.mp hw with h1 | h1
    · exact hf _ w h1
    · exact ih _ (by rw [List.length_drop]; omega) w h1

namespace WMat

theorem rotate180_refines (m : WMat) (h : InvM m) :
    RefinesM m.rotate180 (absM m).rotate180 := by
  have hwl := h.width_le
  have hlen := h.2.2.2.1
  have hrs := h.2.2.1
  have hrp := h.rs_pos
  have hN : m.words.length = m.height * m.rowSize := by rw [hlen, Nat.mul_comm]
  unfold WMat.rotate180
  rw [phaseA_eq_reverse m.rowSize m.height m.words hN]
  simp only
  have hspec : (absM m).rotate180 = SMat.ofFn m.width m.height
      (fun x y => mbit m (m.width - 1 - x) (m.height - 1 - y)) := by
    rw [SMat.rotate180_eq _ (absM_WF m)]
    show SMat.ofFn m.width m.height
      (fun x y => (absM m).get (m.width - 1 - x) (m.height - 1 - y)) = _
    congr 1
    funext x y
    have := h.1
    have := h.2.1
    exact absM_get m _ _ (by omega) (by omega)
  rw [hspec]
  -- row arithmetic
  have hrowsum : ∀ y, y < m.height →
      (m.height - 1 - y) * m.rowSize + m.rowSize + y * m.rowSize = m.height * m.rowSize := by
    intro y hy
    have : (m.height - 1 - y) + 1 + y = m.height := by omega
    calc (m.height - 1 - y) * m.rowSize + m.rowSize + y * m.rowSize
        = ((m.height - 1 - y) + 1 + y) * m.rowSize := by rw [Nat.add_mul, Nat.add_mul, Nat.one_mul]
      _ = m.height * m.rowSize := by rw [this]
  by_cases hs : m.width % 32 ≠ 0
  · rw [if_pos hs]
    refine ⟨_, rfl, ?_⟩
    have hs32 : m.width % 32 < 32 := Nat.mod_lt _ (by decide)
    have hrevlen : m.words.reverse.length = m.height * m.rowSize := by simpa using hN
    apply cellwise m h _ _
      (by rw [mapRows_length _ _ (realignRow_length _ hs32) _ _ hrevlen]; simp)
      (mapRows_lt _ _ (fun r => realignRow_lt _ hs32 r) _ _ hrevlen)
    intro x y hx hy
    -- the word holding the cell comes from the realigned row
    have hbit : bitAt (mapRows m.rowSize (realignRow (m.width % 32)) m.height m.words.reverse)
          (y * m.rowSize * 32 + x) =
        bitAt (realignRow (m.width % 32) ((m.words.reverse.drop (y * m.rowSize)).take m.rowSize)) x := by
      unfold bitAt
      have e1 : (y * m.rowSize * 32 + x) / 32 = y * m.rowSize + x / 32 := by omega
      have e2 : (y * m.rowSize * 32 + x) % 32 = x % 32 := by omega
      rw [e1, e2, mapRows_get _ _ (realignRow_length _ hs32) _ _ y (x / 32) hrevlen hy (by omega)]
    rw [hbit, reverse_row m.words m.rowSize m.height y hN hy]
    generalize hold : (m.words.drop ((m.height - 1 - y) * m.rowSize)).take m.rowSize = oldrow
    have holdlen : oldrow.length = m.rowSize := by
      rw [← hold, List.length_take, List.length_drop]
      have := hrowsum y hy; omega
    have holdlt : ∀ w ∈ oldrow, w < W32 := by
      intro w hw
      rw [← hold] at hw
      exact h.2.2.2.2.1 w (List.mem_of_mem_drop (List.mem_of_mem_take hw))
    rw [realignRow_bit _ (by omega) hs32 _
      (by intro hnil; have := congrArg List.length hnil; simp [holdlen] at this; omega)
      (by intro w hw; exact holdlt w (List.mem_reverse.mp hw))]
    rw [List.map_reverse]
    by_cases c : x < m.width
    · rw [if_pos c, bitAt_reverse_rev32 _ _ (by rw [holdlen]; omega), holdlen, ← hold,
        bitAt_row _ _ _ _ (by omega)]
      unfold mbit
      congr 1; omega
    · rw [if_neg c]
      apply bitAt_of_ge
      simp only [List.length_reverse, List.length_map, holdlen]
      omega
  · rw [if_neg hs]
    refine ⟨_, rfl, ?_⟩
    have hw32 : m.width = m.rowSize * 32 := by omega
    apply cellwise m h _ _ (by simp)
      (by intro w hw; obtain ⟨v, _, rfl⟩ := List.mem_map.mp hw; exact rev32_lt _)
    intro x y hx hy
    rw [List.map_reverse]
    have hg : y * m.rowSize * 32 + x < m.words.length * 32 := by
      have := hrowsum y hy; omega
    rw [bitAt_reverse_rev32 _ _ hg, if_pos (by omega)]
    unfold mbit
    congr 1
    have := hrowsum y hy; omega

end WMat
end Gzx.Bits
