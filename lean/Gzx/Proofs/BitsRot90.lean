/-
  C16 helper lemmas: BitMatrix.Rotate90 (counter-clockwise) refinement and the naive rotation.
-/
import Gzx.Proofs.BitsRot2
namespace Gzx.Bits
open Gzx

/-- a loop whose steps are conditional is the loop over the filtered list -/
theorem foldlM_filter {α β : Type} (c : α → Bool) (F : β → α → Res β) (l : List α) : ∀ (init : β),
    l.foldlM (fun s p => if c p then F s p else pure s) init = (l.filter c).foldlM F init := by
  induction l with
  | nil => intro init; rfl
  | cons a l ih =>
    intro init
    rw [List.foldlM_cons, List.filter_cons]
    by_cases h : c a
    · simp only [h, if_true]
      rw [List.foldlM_cons]
      cases F init a with
      | error e => rfl
      | ok s => exact ih s
    · simp only [h, Bool.false_eq_true, if_false]
      exact ih init

namespace SMat

theorem headD_eq (r : List Bool) : r.headD false = r[0]?.getD false := by cases r <;> rfl

theorem columns_length (w : Nat) : ∀ rows, (columns w rows).length = w := by
  induction w with
  | zero => intro rows; rfl
  | succ w ih => intro rows; simp [columns, ih]

theorem columns_get (w : Nat) : ∀ (rows : List (List Bool)) (c : Nat), c < w →
    (columns w rows)[c]? = some (rows.map (fun r => r[c]?.getD false)) := by
  induction w with
  | zero => intro rows c hc; omega
  | succ w ih =>
    intro rows c hc
    unfold columns
    cases c with
    | zero =>
      rw [List.getElem?_cons_zero]
      congr 1
      apply List.map_congr_left
      intro r _; exact headD_eq r
    | succ c =>
      rw [List.getElem?_cons_succ, ih _ c (by omega), List.map_map]
      congr 1
      apply List.map_congr_left
      intro r _
      simp only [Function.comp]
      cases r with
      | nil => rfl
      | cons a t => rfl

theorem rotate90_WF (m : SMat) (hm : m.WF) : m.rotate90.WF := by
  constructor
  · simp [SMat.rotate90, columns_length]
  · intro r hr
    simp only [SMat.rotate90, List.mem_reverse] at hr
    obtain ⟨c, hc, rfl⟩ := List.getElem_of_mem hr
    rw [columns_length] at hc
    have := columns_get m.width m.rows c hc
    rw [List.getElem?_eq_getElem (by rw [columns_length]; exact hc)] at this
    simp only [Option.some.injEq] at this
    rw [this, List.length_map]; exact hm.1

theorem get_rotate90 (m : SMat) (hm : m.WF) (x y : Nat) (hx : x < m.height) (hy : y < m.width) :
    m.rotate90.get x y = m.get (m.width - 1 - y) x := by
  have hxl : x < m.rows.length := by rw [hm.1]; exact hx
  rw [get_eq m _ _ hxl]
  unfold SMat.get SMat.rotate90
  simp only
  rw [List.getElem?_reverse (by rw [columns_length]; exact hy), columns_length,
    columns_get m.width m.rows _ (by omega)]
  simp only [Option.getD_some]
  rw [List.getElem?_map, List.getElem?_eq_getElem hxl]
  rfl

/-- 90° counter-clockwise rotation as a cell function -/
theorem rotate90_eq (m : SMat) (hm : m.WF) :
    m.rotate90 = ofFn m.height m.width (fun x y => m.get (m.width - 1 - y) x) :=
  eq_ofFn_of _ (rotate90_WF m hm) _ _ _ rfl rfl (fun x y hx hy => get_rotate90 m hm x y hx hy)

end SMat

namespace WMat

theorem rotate90_refines (m : WMat) (h : InvM m) :
    RefinesM m.rotate90 (absM m).rotate90 := by
  have hwl := h.width_le
  have hlen := h.2.2.2.1
  have hw1 := h.1
  have hh1 := h.2.1
  unfold WMat.rotate90
  simp only
  generalize hnrs : (m.height + 31) / 32 = nrs
  have hhl : m.height ≤ nrs * 32 := by omega
  -- 1. flatten the two loops
  rw [foldlM_nested (fun nb y x => do
      let w ← wordAt m.words (y * m.rowSize + x / 32)
      if ((w >>> (x % 32)) &&& 1) != 0 then
        updWord nb ((m.width - 1 - x) * nrs + y / 32) (fun v => v ||| (1 <<< (y % 32)))
      else pure nb)]
  generalize hps : ((List.range m.height).flatMap
    (fun a => (List.range m.width).map (fun b => (a, b)))) = ps
  have hmem : ∀ p, p ∈ ps ↔ p.1 < m.height ∧ p.2 < m.width := by
    intro p
    rw [← hps, List.mem_flatMap]
    constructor
    · rintro ⟨a, ha, hp⟩
      obtain ⟨b, hb, rfl⟩ := List.mem_map.mp hp
      exact ⟨List.mem_range.mp ha, List.mem_range.mp hb⟩
    · rintro ⟨h1, h2⟩
      exact ⟨p.1, List.mem_range.mpr h1, List.mem_map.mpr ⟨p.2, List.mem_range.mpr h2, rfl⟩⟩
  -- 2. resolve the reads, 3. filter, 4. stream positions
  have hstep : ps.foldlM (fun nb p => do
        let w ← wordAt m.words (p.1 * m.rowSize + p.2 / 32)
        if ((w >>> (p.2 % 32)) &&& 1) != 0 then
          updWord nb ((m.width - 1 - p.2) * nrs + p.1 / 32) (fun v => v ||| (1 <<< (p.1 % 32)))
        else pure nb) (List.replicate (nrs * m.width) 0) =
      ((ps.filter (fun p => mbit m p.2 p.1)).map
          (fun p => (m.width - 1 - p.2) * nrs * 32 + p.1)).foldlM
        (fun ws g => updWord ws (g / 32) (fun w => w ||| 1 <<< (g % 32)))
        (List.replicate (nrs * m.width) 0) := by
    rw [List.foldlM_map, ← foldlM_filter]
    apply WArr.foldlM_congr_mem
    intro p hp nb
    have hp' := (hmem p).mp hp
    have hk := h.idx hp'.2 hp'.1
    rw [wordAt_ok _ _ hk]
    simp only [bind, Except.bind]
    rw [shr_and_one_ne_zero]
    have hmb : mbit m p.2 p.1 = (m.words[p.1 * m.rowSize + p.2 / 32]).testBit (p.2 % 32) := by
      rw [mbit_eq, bitAt_getElem _ _ (by omega)]
      have e1 : (p.1 * m.rowSize * 32 + p.2) / 32 = p.1 * m.rowSize + p.2 / 32 := by omega
      have e2 : (p.1 * m.rowSize * 32 + p.2) % 32 = p.2 % 32 := by omega
      simp only [e1, e2]
    rw [← hmb]
    have e1 : ((m.width - 1 - p.2) * nrs * 32 + p.1) / 32 = (m.width - 1 - p.2) * nrs + p.1 / 32 := by
      omega
    have e2 : ((m.width - 1 - p.2) * nrs * 32 + p.1) % 32 = p.1 % 32 := by omega
    rw [e1, e2]
  rw [hstep]
  generalize hgs : ((ps.filter (fun p => mbit m p.2 p.1)).map
          (fun p => (m.width - 1 - p.2) * nrs * 32 + p.1)) = gs
  have hgmem : ∀ g, g ∈ gs ↔ ∃ x y, x < m.width ∧ y < m.height ∧ mbit m x y = true ∧
      g = (m.width - 1 - x) * nrs * 32 + y := by
    intro g
    rw [← hgs, List.mem_map]
    constructor
    · rintro ⟨p, hp, rfl⟩
      rw [List.mem_filter] at hp
      have := (hmem p).mp hp.1
      exact ⟨p.2, p.1, this.2, this.1, hp.2, rfl⟩
    · rintro ⟨x, y, hx, hy, hb, rfl⟩
      exact ⟨(y, x), List.mem_filter.mpr ⟨(hmem (y, x)).mpr ⟨hy, hx⟩, hb⟩, rfl⟩
  obtain ⟨nb, g1, g2, g3, g4⟩ := foldlM_orBits gs (List.replicate (nrs * m.width) 0)
    (by
      intro g hg
      obtain ⟨x, y, hx, hy, _, rfl⟩ := (hgmem g).mp hg
      have e1 : ((m.width - 1 - x) * nrs * 32 + y) / 32 = (m.width - 1 - x) * nrs + y / 32 := by omega
      rw [e1, List.length_replicate]
      exact row_idx_lt (by omega) (by omega))
    (by intro w hw; rw [(List.mem_replicate.mp hw).2]; decide)
  rw [g1]
  simp only
  -- the new cells
  have hcell : ∀ x' y', x' < nrs * 32 → y' < m.width →
      bitAt nb (y' * nrs * 32 + x') = if x' < m.height then mbit m (m.width - 1 - y') x' else false := by
    intro x' y' hx' hy'
    rw [g4, bitAt_zeros, Bool.false_or]
    by_cases c : x' < m.height
    · rw [if_pos c]
      rw [Bool.eq_iff_iff]
      simp only [decide_eq_true_eq]
      rw [hgmem]
      constructor
      · rintro ⟨x, y, hx, hy, hb, he⟩
        have := (cell_inj (rs := nrs) (x := y) (y := m.width - 1 - x) (x' := x') (y' := y')
          (by omega) hx').mp he
        have e1 : m.width - 1 - y' = x := by omega
        rw [e1, this.1]; exact hb
      · intro hb
        refine ⟨m.width - 1 - y', x', by omega, c, hb, ?_⟩
        have : m.width - 1 - (m.width - 1 - y') = y' := by omega
        rw [this]
    · rw [if_neg c]
      simp only [decide_eq_false_iff_not]
      rw [hgmem]
      rintro ⟨x, y, hx, hy, hb, he⟩
      have := (cell_inj (rs := nrs) (x := y) (y := m.width - 1 - x) (x' := x') (y' := y')
        (by omega) hx').mp he
      omega
  have hspec : (absM m).rotate90 = SMat.ofFn m.height m.width
      (fun x y => mbit m (m.width - 1 - y) x) := by
    rw [SMat.rotate90_eq _ (absM_WF m)]
    show SMat.ofFn m.height m.width (fun x y => (absM m).get (m.width - 1 - y) x) = _
    apply SMat.eq_ofFn_of _ (SMat.ofFn_WF _ _ _) _ _ _ rfl rfl
    intro x y hx hy
    have hx' : x < m.height := hx
    have hy' : y < m.width := hy
    rw [SMat.get_ofFn _ _ _ _ _ hx' hy']
    exact absM_get m _ _ (by omega) hx'
  rw [hspec]
  refine ⟨_, rfl, ⟨hh1, hw1, hnrs.symm, by simpa using g2, g3, ?_⟩, ?_⟩
  · intro x y hx1 hx2
    have hx1' : m.height ≤ x := hx1
    have hx2' : x < nrs * 32 := hx2
    show bitAt nb (y * nrs * 32 + x) = false
    by_cases hy : y < m.width
    · rw [hcell x y hx2' hy, if_neg (by omega)]
    · apply bitAt_of_ge
      rw [g2, List.length_replicate]
      have : m.width * nrs ≤ y * nrs := Nat.mul_le_mul_right _ (by omega)
      rw [Nat.mul_comm nrs]; omega
  · apply absM_eq_of _ _ (SMat.ofFn_WF _ _ _) rfl rfl
    intro x y hx hy
    have hx' : x < m.height := hx
    have hy' : y < m.width := hy
    rw [SMat.get_ofFn _ _ _ _ _ hx' hy']
    show _ = bitAt nb (y * nrs * 32 + x)
    rw [hcell x y (by omega) hy', if_pos hx']

end WMat
end Gzx.Bits
