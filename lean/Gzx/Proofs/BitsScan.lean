/-
  C16 helper lemmas: lowest / highest set bit loops, first / last set cell of the naive grid.
-/
import Gzx.Proofs.BitsMat
namespace Gzx.Bits
open Gzx

/-! ## `for (theBits << (31-bit)) == 0 { bit++ }` and `for (theBits >> bit) == 0 { bit-- }` -/

theorem shl32_eq_zero_iff (w k : Nat) :
    shl32 w k = 0 ↔ ∀ j, j + k < 32 → w.testBit j = false := by
  constructor
  · intro h j hj
    have := testBit_shl32 w k (j + k)
    rw [h, Nat.zero_testBit] at this
    have e : j + k - k = j := by omega
    rw [e] at this
    have h1 : decide (j + k < 32) = true := by simpa using hj
    have h2 : decide (k ≤ j + k) = true := by simp
    rw [h1, h2] at this
    simpa using this.symm
  · intro h
    apply Nat.eq_of_testBit_eq
    intro i
    rw [testBit_shl32, Nat.zero_testBit]
    by_cases c1 : i < 32
    · by_cases c2 : k ≤ i
      · have := h (i - k) (by omega)
        simp [c1, c2, this]
      · simp [c2]
    · simp [c1]

theorem shr_eq_zero_iff (w b : Nat) : w >>> b = 0 ↔ ∀ j, b ≤ j → w.testBit j = false := by
  constructor
  · intro h j hj
    have := Nat.testBit_shiftRight (i := b) (j := j - b) w
    rw [h, Nat.zero_testBit] at this
    have e : b + (j - b) = j := by omega
    rw [e] at this; exact this.symm
  · intro h
    apply Nat.eq_of_testBit_eq
    intro i
    rw [Nat.testBit_shiftRight, Nat.zero_testBit]
    exact h _ (by omega)

theorem lowBitLoop_spec (w : Nat) : ∀ (fuel b : Nat),
    (∀ j, j < b → w.testBit j = false) → (∃ j, b ≤ j ∧ j < 32 ∧ w.testBit j = true) →
    32 ≤ fuel + b →
    b ≤ lowBitLoop fuel b w ∧ lowBitLoop fuel b w < 32 ∧ w.testBit (lowBitLoop fuel b w) = true ∧
      ∀ j, j < lowBitLoop fuel b w → w.testBit j = false := by
  intro fuel
  induction fuel with
  | zero =>
    intro b _ hex hf
    obtain ⟨j, h1, h2, _⟩ := hex; omega
  | succ fuel ih =>
    intro b hlow hex hf
    obtain ⟨j0, j1, j2, j3⟩ := hex
    unfold lowBitLoop
    by_cases hz : shl32 w (31 - b) = 0
    · rw [if_pos hz]
      have hall := (shl32_eq_zero_iff w (31 - b)).mp hz
      have hb : w.testBit b = false := hall b (by omega)
      have hne : j0 ≠ b := by intro e; rw [e, hb] at j3; cases j3
      have := ih (b + 1)
        (by intro j hj; by_cases e : j = b
            · rw [e]; exact hb
            · exact hlow j (by omega))
        ⟨j0, by omega, j2, j3⟩ (by omega)
      exact ⟨by omega, this.2.1, this.2.2.1, this.2.2.2⟩
    · rw [if_neg hz]
      have : ¬ ∀ j, j + (31 - b) < 32 → w.testBit j = false :=
        fun hh => hz ((shl32_eq_zero_iff w (31 - b)).mpr hh)
      have hbt : w.testBit b = true := by
        false_or_by_contra
        rename_i hbf
        apply this
        intro j hj
        by_cases e : j = b
        · rw [e]; simpa using hbf
        · exact hlow j (by omega)
      exact ⟨Nat.le_refl _, by omega, hbt, hlow⟩

theorem lowBit_spec (w : Nat) (hw : w ≠ 0) (hlt : w < W32) :
    lowBit w < 32 ∧ w.testBit (lowBit w) = true ∧ ∀ j, j < lowBit w → w.testBit j = false := by
  have t1 := tz32_spec w hw hlt
  have t2 := tz32_lt w hw hlt
  have := lowBitLoop_spec w 32 0 (by intro j hj; omega) ⟨tz32 w, by omega, t2, t1.1⟩ (by omega)
  exact ⟨this.2.1, this.2.2.1, this.2.2.2⟩

theorem highBitLoop_spec (w : Nat) : ∀ (fuel b : Nat),
    (∀ j, b < j → w.testBit j = false) → (∃ j, j ≤ b ∧ w.testBit j = true) → b + 1 ≤ fuel →
    highBitLoop fuel b w ≤ b ∧ w.testBit (highBitLoop fuel b w) = true ∧
      ∀ j, highBitLoop fuel b w < j → w.testBit j = false := by
  intro fuel
  induction fuel with
  | zero => intro b _ _ hf; omega
  | succ fuel ih =>
    intro b hhigh hex hf
    obtain ⟨j0, j1, j3⟩ := hex
    unfold highBitLoop
    by_cases hz : w >>> b = 0
    · rw [if_pos hz]
      have hall := (shr_eq_zero_iff w b).mp hz
      have hb : w.testBit b = false := hall b (Nat.le_refl _)
      have hne : j0 ≠ b := by intro e; rw [e, hb] at j3; cases j3
      have := ih (b - 1)
        (by intro j hj; exact hall j (by omega))
        ⟨j0, by omega, j3⟩ (by omega)
      exact ⟨by omega, this.2.1, this.2.2⟩
    · rw [if_neg hz]
      have : ¬ ∀ j, b ≤ j → w.testBit j = false :=
        fun hh => hz ((shr_eq_zero_iff w b).mpr hh)
      have hbt : w.testBit b = true := by
        false_or_by_contra
        rename_i hbf
        apply this
        intro j hj
        by_cases e : j = b
        · rw [e]; simpa using hbf
        · exact hhigh j (by omega)
      exact ⟨Nat.le_refl _, hbt, hhigh⟩

theorem highBit_spec (w : Nat) (hw : w ≠ 0) (hlt : w < W32) :
    highBit w < 32 ∧ w.testBit (highBit w) = true ∧ ∀ j, highBit w < j → w.testBit j = false := by
  have t1 := tz32_spec w hw hlt
  have t2 := tz32_lt w hw hlt
  have := highBitLoop_spec w 32 31 (by intro j hj; exact testBit_ge32 hlt (by omega))
    ⟨tz32 w, by omega, t1.1⟩ (by omega)
  have hle : highBit w ≤ 31 := this.1
  exact ⟨by omega, this.2.1, this.2.2⟩

/-! ## first / last set cell of a list of rows -/

/-- cell `x` of row `k` (false outside) -/
def cellOf (rs : List (List Bool)) (k x : Nat) : Bool := (rs[k]?.getD [])[x]?.getD false

theorem cellOf_cons_zero (r : List Bool) (rs : List (List Bool)) (x : Nat) :
    cellOf (r :: rs) 0 x = r[x]?.getD false := rfl

theorem cellOf_cons_succ (r : List Bool) (rs : List (List Bool)) (k x : Nat) :
    cellOf (r :: rs) (k + 1) x = cellOf rs k x := by
  unfold cellOf; rw [List.getElem?_cons_succ]

theorem firstOn_spec (rs : List (List Bool)) : ∀ (y0 : Nat),
    match SMat.firstOn rs y0 with
    | none => ∀ k x, cellOf rs k x = false
    | some p => ∃ x k, p = [x, y0 + k] ∧ cellOf rs k x = true ∧
        ∀ x' k', (k' < k ∨ (k' = k ∧ x' < x)) → cellOf rs k' x' = false := by
  induction rs with
  | nil =>
    intro y0
    simp only [SMat.firstOn]
    intro k x; simp [cellOf]
  | cons r rs ih =>
    intro y0
    unfold SMat.firstOn
    simp only
    by_cases hx : r.findIdx (fun b => b) < r.length
    · rw [if_pos hx]
      refine ⟨r.findIdx (fun b => b), 0, rfl, ?_, ?_⟩
      · rw [cellOf_cons_zero, List.getElem?_eq_getElem (l := r) hx]
        exact List.findIdx_getElem (w := hx)
      · intro x' k' hb
        rcases hb with hb | ⟨rfl, hb⟩
        · omega
        · have hb' : x' < r.length := by omega
          rw [cellOf_cons_zero, List.getElem?_eq_getElem (l := r) hb']
          exact List.not_of_lt_findIdx hb
    · rw [if_neg hx]
      have hall : ∀ x : Nat, r[x]?.getD false = false := by
        intro x
        have he : r.findIdx (fun b => b) = r.length := by
          have := List.findIdx_le_length (p := fun b => b) (xs := r); omega
        rw [List.findIdx_eq_length] at he
        by_cases c : x < r.length
        · rw [List.getElem?_eq_getElem c]; exact he _ (List.getElem_mem c)
        · rw [List.getElem?_eq_none (by omega)]; rfl
      have := ih (y0 + 1)
      split
      · rename_i heq
        rw [heq] at this
        intro k x
        cases k with
        | zero => rw [cellOf_cons_zero]; exact hall x
        | succ k => rw [cellOf_cons_succ]; exact this k x
      · rename_i p heq
        rw [heq] at this
        obtain ⟨x, k, e1, e2, e3⟩ := this
        refine ⟨x, k + 1, by rw [e1]; congr 2; omega, by rw [cellOf_cons_succ]; exact e2, ?_⟩
        intro x' k' hb
        cases k' with
        | zero => rw [cellOf_cons_zero]; exact hall x'
        | succ k' =>
          rw [cellOf_cons_succ]
          exact e3 x' k' (by omega)

theorem lastOn_spec (rs : List (List Bool)) : ∀ (y0 : Nat),
    match SMat.lastOn rs y0 with
    | none => ∀ k x, cellOf rs k x = false
    | some p => ∃ x k, p = [x, y0 + k] ∧ cellOf rs k x = true ∧
        ∀ x' k', (k < k' ∨ (k' = k ∧ x < x')) → cellOf rs k' x' = false := by
  induction rs with
  | nil =>
    intro y0
    simp only [SMat.lastOn]
    intro k x; simp [cellOf]
  | cons r rs ih =>
    intro y0
    unfold SMat.lastOn
    have := ih (y0 + 1)
    cases hl : SMat.lastOn rs (y0 + 1) with
    | some p =>
      rw [hl] at this
      simp only
      obtain ⟨x, k, e1, e2, e3⟩ := this
      refine ⟨x, k + 1, by rw [e1]; congr 2; omega, by rw [cellOf_cons_succ]; exact e2, ?_⟩
      intro x' k' hb
      cases k' with
      | zero => omega
      | succ k' =>
        rw [cellOf_cons_succ]
        exact e3 x' k' (by omega)
    | none =>
      rw [hl] at this
      simp only
      by_cases hx : r.reverse.findIdx (fun b => b) < r.length
      · rw [if_pos hx]
        have hx' : r.reverse.findIdx (fun b => b) < r.reverse.length := by simpa using hx
        refine ⟨r.length - 1 - r.reverse.findIdx (fun b => b), 0, rfl, ?_, ?_⟩
        · have hxl : r.length - 1 - r.reverse.findIdx (fun b => b) < r.length := by omega
          rw [cellOf_cons_zero, List.getElem?_eq_getElem (l := r) hxl]
          have := List.findIdx_getElem (w := hx')
          rw [List.getElem_reverse] at this
          exact this
        · intro x' k' hb
          rcases hb with hb | ⟨rfl, hb⟩
          · cases k' with
            | zero => omega
            | succ k' => rw [cellOf_cons_succ]; exact this k' x'
          · rw [cellOf_cons_zero]
            by_cases c : x' < r.length
            · rw [List.getElem?_eq_getElem c]
              have hlt : r.length - 1 - x' < r.reverse.findIdx (fun b => b) := by omega
              have := List.not_of_lt_findIdx hlt
              rw [List.getElem_reverse] at this
              have e : r.length - 1 - (r.length - 1 - x') = x' := by omega
              simp only [e] at this
              exact this
            · rw [List.getElem?_eq_none (by omega)]; rfl
      · rw [if_neg hx]
        have hall : ∀ x : Nat, r[x]?.getD false = false := by
          intro x
          have he : r.reverse.findIdx (fun b => b) = r.reverse.length := by
            have := List.findIdx_le_length (p := fun b => b) (xs := r.reverse)
            simp at this ⊢; omega
          rw [List.findIdx_eq_length] at he
          by_cases c : x < r.length
          · rw [List.getElem?_eq_getElem c]
            exact he _ (List.mem_reverse.mpr (List.getElem_mem c))
          · rw [List.getElem?_eq_none (by omega)]; rfl
        intro k x
        cases k with
        | zero => rw [cellOf_cons_zero]; exact hall x
        | succ k => rw [cellOf_cons_succ]; exact this k x

theorem cellOf_eq_get (m : SMat) (x y : Nat) : cellOf m.rows y x = m.get x y := rfl

end Gzx.Bits
