/-
  C16 helper lemmas: GetTopLeftOnBit / GetBottomRightOnBit refinement.
-/
import Gzx.Proofs.BitsScan
import Gzx.Proofs.BitsMat2
namespace Gzx.Bits
open Gzx

/-- the cell `(x, y)` is set and no cell before it in row-major order is -/
def IsFirst (cell : Nat → Nat → Bool) (w h x y : Nat) : Prop :=
  x < w ∧ y < h ∧ cell x y = true ∧
  ∀ x' y', x' < w → y' < h → (y' < y ∨ (y' = y ∧ x' < x)) → cell x' y' = false

def IsLast (cell : Nat → Nat → Bool) (w h x y : Nat) : Prop :=
  x < w ∧ y < h ∧ cell x y = true ∧
  ∀ x' y', x' < w → y' < h → (y < y' ∨ (y' = y ∧ x < x')) → cell x' y' = false

theorem isFirst_unique {cell : Nat → Nat → Bool} {w h x y x' y' : Nat}
    (h1 : IsFirst cell w h x y) (h2 : IsFirst cell w h x' y') : x = x' ∧ y = y' := by
  obtain ⟨a1, a2, a3, a4⟩ := h1
  obtain ⟨b1, b2, b3, b4⟩ := h2
  by_cases c1 : y' < y ∨ (y' = y ∧ x' < x)
  · have := a4 x' y' b1 b2 c1; rw [this] at b3; cases b3
  · by_cases c2 : y < y' ∨ (y = y' ∧ x < x')
    · have := b4 x y a1 a2 c2; rw [this] at a3; cases a3
    · omega

theorem isLast_unique {cell : Nat → Nat → Bool} {w h x y x' y' : Nat}
    (h1 : IsLast cell w h x y) (h2 : IsLast cell w h x' y') : x = x' ∧ y = y' := by
  obtain ⟨a1, a2, a3, a4⟩ := h1
  obtain ⟨b1, b2, b3, b4⟩ := h2
  by_cases c1 : y < y' ∨ (y' = y ∧ x < x')
  · have := a4 x' y' b1 b2 c1; rw [this] at b3; cases b3
  · by_cases c2 : y' < y ∨ (y = y' ∧ x' < x)
    · have := b4 x y a1 a2 c2; rw [this] at a3; cases a3
    · omega

/-- the word holding cell `(x, y)` -/
theorem mbit_word (m : WMat) (x y : Nat) :
    mbit m x y = (m.words[y * m.rowSize + x / 32]?.getD 0).testBit (x % 32) := by
  unfold mbit bitAt
  have e1 : (y * m.rowSize * 32 + x) / 32 = y * m.rowSize + x / 32 := by omega
  have e2 : (y * m.rowSize * 32 + x) % 32 = x % 32 := by omega
  rw [e1, e2]

theorem div_mod_rs {rs off : Nat} (hrs : 0 < rs) : off / rs * rs + off % rs = off := by
  have := Nat.div_add_mod off rs
  rw [Nat.mul_comm] at this; exact this

/-- naive side: what `topLeftOnBit` returns on a grid given by a cell function -/
theorem topLeft_ofFn (w h : Nat) (f : Nat → Nat → Bool) :
    match (SMat.ofFn w h f).topLeftOnBit with
    | none => ∀ x y, x < w → y < h → f x y = false
    | some p => ∃ x y, p = [x, y] ∧ IsFirst f w h x y := by
  have hs := firstOn_spec (SMat.ofFn w h f).rows 0
  have hc : ∀ x y, cellOf (SMat.ofFn w h f).rows y x =
      if x < w ∧ y < h then f x y else false := by
    intro x y
    rw [cellOf_eq_get]
    by_cases c : x < w ∧ y < h
    · rw [if_pos c, SMat.get_ofFn _ _ _ _ _ c.1 c.2]
    · rw [if_neg c]
      exact SMat.get_ofFn_out _ _ _ _ _ c
  unfold SMat.topLeftOnBit
  split at hs
  · rename_i heq
    rw [heq]
    intro x y hx hy
    have := hs y x
    rw [hc, if_pos ⟨hx, hy⟩] at this; exact this
  · rename_i p heq
    rw [heq]
    obtain ⟨x, k, e1, e2, e3⟩ := hs
    rw [hc] at e2
    have hin : x < w ∧ k < h := by
      false_or_by_contra
      rename_i hn; rw [if_neg hn] at e2; cases e2
    rw [if_pos hin] at e2
    refine ⟨x, k, by simpa using e1, hin.1, hin.2, e2, ?_⟩
    intro x' y' hx' hy' hb
    have := e3 x' y' hb
    rw [hc, if_pos ⟨hx', hy'⟩] at this; exact this

theorem bottomRight_ofFn (w h : Nat) (f : Nat → Nat → Bool) :
    match (SMat.ofFn w h f).bottomRightOnBit with
    | none => ∀ x y, x < w → y < h → f x y = false
    | some p => ∃ x y, p = [x, y] ∧ IsLast f w h x y := by
  have hs := lastOn_spec (SMat.ofFn w h f).rows 0
  have hc : ∀ x y, cellOf (SMat.ofFn w h f).rows y x =
      if x < w ∧ y < h then f x y else false := by
    intro x y
    rw [cellOf_eq_get]
    by_cases c : x < w ∧ y < h
    · rw [if_pos c, SMat.get_ofFn _ _ _ _ _ c.1 c.2]
    · rw [if_neg c]
      exact SMat.get_ofFn_out _ _ _ _ _ c
  unfold SMat.bottomRightOnBit
  split at hs
  · rename_i heq
    rw [heq]
    intro x y hx hy
    have := hs y x
    rw [hc, if_pos ⟨hx, hy⟩] at this; exact this
  · rename_i p heq
    rw [heq]
    obtain ⟨x, k, e1, e2, e3⟩ := hs
    rw [hc] at e2
    have hin : x < w ∧ k < h := by
      false_or_by_contra
      rename_i hn; rw [if_neg hn] at e2; cases e2
    rw [if_pos hin] at e2
    refine ⟨x, k, by simpa using e1, hin.1, hin.2, e2, ?_⟩
    intro x' y' hx' hy' hb
    have := e3 x' y' hb
    rw [hc, if_pos ⟨hx', hy'⟩] at this; exact this

/-- the first non-zero word -/
theorem findIdx_nonzero_spec (ws : List Nat) :
    (∀ k : Nat, k < ws.findIdx (fun w => w != 0) → ws[k]?.getD 0 = 0) ∧
    (ws.findIdx (fun w => w != 0) < ws.length → ws[ws.findIdx (fun w => w != 0)]?.getD 0 ≠ 0) ∧
    ws.findIdx (fun w => w != 0) ≤ ws.length := by
  induction ws with
  | nil => simp
  | cons a ws ih =>
    rw [List.findIdx_cons]
    by_cases ha : a = 0
    · have hb : (a != 0) = false := by simp [ha]
      rw [hb]
      simp only [cond_false]
      obtain ⟨i1, i2, i3⟩ := ih
      refine ⟨?_, ?_, by simp; omega⟩
      · intro k hk
        cases k with
        | zero => simp [ha]
        | succ k => rw [List.getElem?_cons_succ]; exact i1 k (by omega)
      · intro hlt
        rw [List.getElem?_cons_succ]
        exact i2 (by simpa using hlt)
    · have hb : (a != 0) = true := by simp [ha]
      rw [hb]
      simp only [cond_true]
      refine ⟨by intro k hk; omega, ?_, by simp⟩
      intro _
      simpa using ha

namespace WMat

/-- word side of `GetTopLeftOnBit` -/
theorem topLeft_word (m : WMat) (h : InvM m) :
    (m.getTopLeftOnBit = .ok none ∧ ∀ x y, x < m.width → y < m.height → mbit m x y = false) ∨
    (∃ x y, m.getTopLeftOnBit = .ok (some [x, y]) ∧ IsFirst (mbit m) m.width m.height x y) := by
  have hrs := h.rs_pos
  have hlen := h.2.2.2.1
  have hwl := h.width_le
  unfold WMat.getTopLeftOnBit
  simp only
  obtain ⟨f1, f2, f3⟩ := findIdx_nonzero_spec m.words
  generalize m.words.findIdx (fun w => w != 0) = off at f1 f2 f3 ⊢
  by_cases hlt : off < m.words.length
  · right
    obtain ⟨w0, hw0⟩ : ∃ w0, m.words[off]? = some w0 := ⟨_, List.getElem?_eq_getElem hlt⟩
    rw [hw0]
    simp only
    rw [if_neg (by omega)]
    have hne : w0 ≠ 0 := by
      have := f2 hlt
      rw [hw0] at this
      simpa using this
    have hzero : ∀ k, k < off → m.words[k]?.getD 0 = 0 := f1
    have hw32 := h.2.2.2.2.1 _ (List.mem_of_getElem? hw0)
    obtain ⟨b1, b2, b3⟩ := lowBit_spec _ hne hw32
    have hc : off % m.rowSize < m.rowSize := Nat.mod_lt _ hrs
    have hy : off / m.rowSize < m.height := by
      have hlt' := hlt
      rw [hlen] at hlt'
      exact Nat.div_lt_of_lt_mul hlt'
    have hdm := div_mod_rs (off := off) hrs
    have hbit : mbit m (off % m.rowSize * 32 + lowBit w0) (off / m.rowSize) = true := by
      rw [mbit_word]
      have e1 : (off % m.rowSize * 32 + lowBit w0) / 32 = off % m.rowSize := by omega
      have e2 : (off % m.rowSize * 32 + lowBit w0) % 32 = lowBit w0 := by omega
      rw [e1, e2, hdm, hw0]; exact b2
    refine ⟨_, _, rfl, ?_, hy, hbit, ?_⟩
    · false_or_by_contra
      rename_i hge
      have := h.2.2.2.2.2 (off % m.rowSize * 32 + lowBit w0) (off / m.rowSize)
        (by omega) (by omega)
      rw [this] at hbit; cases hbit
    · intro x' y' hx' hy' hb
      rw [mbit_word]
      rcases hb with hb | ⟨rfl, hb⟩
      · have : (y' + 1) * m.rowSize ≤ off / m.rowSize * m.rowSize := Nat.mul_le_mul_right _ hb
        rw [Nat.add_mul, Nat.one_mul] at this
        rw [hzero _ (by omega)]; exact Nat.zero_testBit _
      · by_cases c : x' / 32 < off % m.rowSize
        · rw [hzero _ (by omega)]; exact Nat.zero_testBit _
        · have e : off / m.rowSize * m.rowSize + x' / 32 = off := by omega
          rw [e, hw0]
          exact b3 _ (by omega)
  · left
    rw [List.getElem?_eq_none (by omega)]
    refine ⟨rfl, ?_⟩
    intro x y hx hy
    rw [mbit_word]
    have hk := h.idx hx hy
    rw [f1 _ (by omega)]; exact Nat.zero_testBit _

theorem topLeft_refines (m : WMat) (h : InvM m) :
    m.getTopLeftOnBit = .ok (absM m).topLeftOnBit := by
  have hs := topLeft_ofFn m.width m.height (fun x y => mbit m x y)
  rw [← absM_eq_ofFn] at hs
  rcases topLeft_word m h with ⟨e1, e2⟩ | ⟨x, y, e1, e2⟩
  · rw [e1]
    split at hs
    · rename_i heq; rw [heq]
    · obtain ⟨x, y, _, a1, a2, a3, _⟩ := hs
      have := e2 x y a1 a2
      simp only at a3
      rw [this] at a3; cases a3
  · rw [e1]
    split at hs
    · obtain ⟨a1, a2, a3, _⟩ := e2
      have := hs x y a1 a2
      rw [this] at a3; cases a3
    · rename_i p heq
      obtain ⟨x', y', rfl, hf⟩ := hs
      obtain ⟨rfl, rfl⟩ := isFirst_unique e2 hf
      rw [heq]

theorem lastNonzero_spec (ws : List Nat) : ∀ (i0 : Nat),
    match lastNonzero ws i0 with
    | none => ∀ k : Nat, ws[k]?.getD 0 = 0
    | some (i, w) => ∃ k : Nat, i = i0 + k ∧ ws[k]? = some w ∧ w ≠ 0 ∧
        ∀ k' : Nat, k < k' → ws[k']?.getD 0 = 0 := by
  induction ws with
  | nil => intro i0; simp [lastNonzero]
  | cons a ws ih =>
    intro i0
    unfold lastNonzero
    have := ih (i0 + 1)
    cases hl : lastNonzero ws (i0 + 1) with
    | some r =>
      obtain ⟨i, w⟩ := r
      rw [hl] at this
      simp only
      obtain ⟨k, e1, e2, e3, e4⟩ := this
      refine ⟨k + 1, by omega, by rw [List.getElem?_cons_succ]; exact e2, e3, ?_⟩
      intro k' hk'
      cases k' with
      | zero => omega
      | succ k' => rw [List.getElem?_cons_succ]; exact e4 k' (by omega)
    | none =>
      rw [hl] at this
      simp only
      by_cases ha : a != 0
      · rw [if_pos ha]
        refine ⟨0, rfl, rfl, by simpa using ha, ?_⟩
        intro k' hk'
        cases k' with
        | zero => omega
        | succ k' => rw [List.getElem?_cons_succ]; exact this k'
      · rw [if_neg ha]
        intro k
        cases k with
        | zero => simp at ha; simp [ha]
        | succ k => rw [List.getElem?_cons_succ]; exact this k

/-- word side of `GetBottomRightOnBit` -/
theorem bottomRight_word (m : WMat) (h : InvM m) :
    (m.getBottomRightOnBit = .ok none ∧ ∀ x y, x < m.width → y < m.height → mbit m x y = false) ∨
    (∃ x y, m.getBottomRightOnBit = .ok (some [x, y]) ∧ IsLast (mbit m) m.width m.height x y) := by
  have hrs := h.rs_pos
  have hlen := h.2.2.2.1
  have hwl := h.width_le
  unfold WMat.getBottomRightOnBit
  have hs := lastNonzero_spec m.words 0
  cases hl : lastNonzero m.words 0 with
  | none =>
    left
    rw [hl] at hs
    refine ⟨rfl, ?_⟩
    intro x y _ _
    rw [mbit_word, hs]; exact Nat.zero_testBit _
  | some r =>
    right
    obtain ⟨off, w⟩ := r
    rw [hl] at hs
    simp only
    rw [if_neg (by omega)]
    obtain ⟨k, e1, e2, hne, hzero⟩ := hs
    have hoff : off = k := by omega
    subst hoff
    have hlt : off < m.words.length := by
      false_or_by_contra
      rw [List.getElem?_eq_none (by omega)] at e2; cases e2
    have hw32 := h.2.2.2.2.1 _ (List.mem_of_getElem? e2)
    obtain ⟨b1, b2, b3⟩ := highBit_spec _ hne hw32
    have hc : off % m.rowSize < m.rowSize := Nat.mod_lt _ hrs
    have hy : off / m.rowSize < m.height := by
      have hlt' := hlt
      rw [hlen] at hlt'
      exact Nat.div_lt_of_lt_mul hlt'
    have hdm := div_mod_rs (off := off) hrs
    have hbit : mbit m (off % m.rowSize * 32 + highBit w) (off / m.rowSize) = true := by
      rw [mbit_word]
      have e1' : (off % m.rowSize * 32 + highBit w) / 32 = off % m.rowSize := by omega
      have e2' : (off % m.rowSize * 32 + highBit w) % 32 = highBit w := by omega
      rw [e1', e2', hdm, e2]; exact b2
    refine ⟨_, _, rfl, ?_, hy, hbit, ?_⟩
    · false_or_by_contra
      rename_i hge
      have := h.2.2.2.2.2 (off % m.rowSize * 32 + highBit w) (off / m.rowSize) (by omega) (by omega)
      rw [this] at hbit; cases hbit
    · intro x' y' hx' hy' hb
      rw [mbit_word]
      rcases hb with hb | ⟨rfl, hb⟩
      · have : (off / m.rowSize + 1) * m.rowSize ≤ y' * m.rowSize := Nat.mul_le_mul_right _ hb
        rw [Nat.add_mul, Nat.one_mul] at this
        rw [hzero _ (by omega)]; exact Nat.zero_testBit _
      · by_cases c : off % m.rowSize < x' / 32
        · rw [hzero _ (by omega)]; exact Nat.zero_testBit _
        · have e : off / m.rowSize * m.rowSize + x' / 32 = off := by omega
          rw [e, e2]
          exact b3 _ (by omega)

theorem bottomRight_refines (m : WMat) (h : InvM m) :
    m.getBottomRightOnBit = .ok (absM m).bottomRightOnBit := by
  have hs := bottomRight_ofFn m.width m.height (fun x y => mbit m x y)
  rw [← absM_eq_ofFn] at hs
  rcases bottomRight_word m h with ⟨e1, e2⟩ | ⟨x, y, e1, e2⟩
  · rw [e1]
    split at hs
    · rename_i heq; rw [heq]
    · obtain ⟨x, y, _, a1, a2, a3, _⟩ := hs
      have := e2 x y a1 a2
      simp only at a3
      rw [this] at a3; cases a3
  · rw [e1]
    split at hs
    · obtain ⟨a1, a2, a3, _⟩ := e2
      have := hs x y a1 a2
      rw [this] at a3; cases a3
    · rename_i p heq
      obtain ⟨x', y', rfl, hf⟩ := hs
      obtain ⟨rfl, rfl⟩ := isLast_unique e2 hf
      rw [heq]

end WMat
end Gzx.Bits
