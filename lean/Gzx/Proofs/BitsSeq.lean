/-
  C16 helper lemmas: the only error the naive operations can return is `illegalArg`.
-/
import Gzx.Proofs.BitsRot90
import Gzx.Proofs.BitsNext
import Gzx.Proofs.BitsStr
import Gzx.Proofs.BitsMatStr
import Gzx.Proofs.BitsScan2
import Gzx.Proofs.BitsParse
import Gzx.Proofs.BitsCtor
import Gzx.Proofs.BitsEncl2
namespace Gzx.Bits
open Gzx

theorem SArr.setRange_error {a : SArr} {s e : Nat} {err : Fault}
    (h : SArr.setRange a s e = .error err) : err = .illegalArg := by
  unfold SArr.setRange at h
  split at h
  · cases h; rfl
  · cases h

theorem SArr.appendBits_error {a : SArr} {v n : Nat} {err : Fault}
    (h : SArr.appendBits a v n = .error err) : err = .illegalArg := by
  unfold SArr.appendBits at h
  split at h
  · cases h; rfl
  · cases h

theorem SArr.xor_error {a o : SArr} {err : Fault}
    (h : SArr.xor a o = .error err) : err = .illegalArg := by
  unfold SArr.xor at h
  split at h
  · cases h; rfl
  · cases h

theorem SMat.xor_error {a o : SMat} {err : Fault}
    (h : SMat.xor a o = .error err) : err = .illegalArg := by
  unfold SMat.xor at h
  split at h
  · cases h; rfl
  · cases h

theorem SMat.setRegion_error {a : SMat} {l t w ht : Nat} {err : Fault}
    (h : SMat.setRegion a l t w ht = .error err) : err = .illegalArg := by
  unfold SMat.setRegion at h
  split at h
  · cases h; rfl
  · split at h
    · cases h; rfl
    · cases h

end Gzx.Bits
