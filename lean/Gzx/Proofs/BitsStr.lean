/-
  C16 helper lemmas: BitArray.String and ToBytes.
-/
import Gzx.Proofs.BitsArr
namespace Gzx.Bits
open Gzx

/-- the characters `String()` emits for bit `i` -/
def strPiece (b : Bool) (i : Nat) : List Nat :=
  (if i % 8 = 0 then [32] else []) ++ [if b then 88 else 46]

theorem zipIdx_map_range (n : Nat) (f : Nat → Bool) :
    ((List.range n).map f).zipIdx = (List.range n).map (fun i => (f i, i)) := by
  apply List.ext_getElem?
  intro i
  rw [List.getElem?_zipIdx, List.getElem?_map, List.getElem?_map]
  by_cases hi : i < n
  · rw [List.getElem?_range hi]; simp
  · rw [List.getElem?_eq_none (by simp; omega)]; rfl

namespace WArr

theorem toStr_loop (a : WArr) (n : Nat) (hn : n ≤ a.size) (h : InvA a) :
    (List.range n).foldlM (fun (result : List Nat) i => do
      let bit ← a.get i
      let result := if i % 8 = 0 then 32 :: result else result
      pure ((if bit then 88 else 46) :: result)) [] =
    .ok (((List.range n).flatMap (fun i => strPiece (bitAt a.words i) i)).reverse) := by
  induction n with
  | zero => rfl
  | succ n ih =>
    rw [List.range_succ, List.foldlM_append, ih (by omega)]
    simp only [bind, Except.bind, List.foldlM_cons, List.foldlM_nil, pure, Except.pure]
    rw [get_eq_bitAt a n (h.idx (by omega))]
    simp only
    rw [List.flatMap_append, List.reverse_append]
    congr 1
    simp only [List.flatMap_cons, List.flatMap_nil, List.append_nil, strPiece]
    by_cases c : n % 8 = 0
    · simp [c]
    · simp [c]

theorem toStr_refines (a : WArr) (h : InvA a) : a.toStr = .ok (SArr.toStr (absA a)) := by
  unfold WArr.toStr SArr.toStr
  rw [toStr_loop a a.size (Nat.le_refl _) h]
  simp only [Except.map, List.reverse_reverse]
  congr 1
  unfold absA
  rw [zipIdx_map_range, List.flatMap_map]
  rfl

/-! ### ToBytes -/

/-- big-endian value of a bit list, bit by bit -/
theorem testBit_foldl_byte (bs : List Bool) : ∀ (acc k : Nat),
    (bs.foldl (fun acc b => 2 * acc + b.toNat) acc).testBit k =
      if h : k < bs.length then bs[bs.length - 1 - k] else acc.testBit (k - bs.length) := by
  induction bs with
  | nil => intro acc k; simp
  | cons b bs ih =>
    intro acc k
    rw [List.foldl_cons, ih]
    by_cases c : k < bs.length
    · have c2 : k < (b :: bs).length := by simp; omega
      rw [dif_pos c, dif_pos c2]
      have e : (b :: bs).length - 1 - k = (bs.length - 1 - k) + 1 := by simp; omega
      simp only [e, List.getElem_cons_succ]
    · rw [dif_neg c]
      by_cases c3 : k = bs.length
      · have c2 : k < (b :: bs).length := by simp; omega
        rw [dif_pos c2]
        have e : (b :: bs).length - 1 - k = 0 := by simp; omega
        simp only [e, List.getElem_cons_zero]
        have e2 : k - bs.length = 0 := by omega
        rw [e2, Nat.testBit_zero]
        cases b <;> simp <;> omega
      · have c2 : ¬ k < (b :: bs).length := by simp; omega
        rw [dif_neg c2]
        have e : k - bs.length = (k - (b :: bs).length) + 1 := by simp; omega
        rw [e, Nat.testBit_succ]
        congr 1
        cases b <;> simp <;> omega

/-- the accumulation loop of one byte, bit by bit -/
theorem byteLoop_testBit (c : Nat → Bool) (n : Nat) (hn : n ≤ 8) : ∀ k,
    ((List.range n).foldl (fun tb j => if c j then tb ||| 1 <<< (7 - j) else tb) 0).testBit k =
      (decide (7 - k < n) && decide (k ≤ 7) && c (7 - k)) := by
  induction n with
  | zero => intro k; simp
  | succ n ih =>
    intro k
    rw [List.range_succ, List.foldl_append, List.foldl_cons, List.foldl_nil]
    by_cases cn : c n
    · rw [if_pos cn, Nat.testBit_or, ih (by omega), Nat.one_shiftLeft, Nat.testBit_two_pow]
      cases hc7 : c (7 - k) with
      | false =>
        have : ¬ 7 - n = k := by
          intro e
          have e2 : 7 - k = n := by omega
          rw [e2, cn] at hc7; cases hc7
        simp [this]
      | true =>
        rw [Bool.eq_iff_iff]
        simp only [Bool.or_eq_true, Bool.and_eq_true, decide_eq_true_eq, and_true]
        omega
    · rw [if_neg cn, ih (by omega)]
      cases hc7 : c (7 - k) with
      | false => simp
      | true =>
        have : ¬ (7 - k = n) := by
          intro e; rw [e] at hc7; exact cn hc7
        rw [Bool.eq_iff_iff]
        simp only [Bool.and_eq_true, decide_eq_true_eq, and_true]
        omega

theorem toBytesByte_refines (a : WArr) (off : Nat) (h : InvA a) (hoff : off + 8 ≤ a.size) :
    toBytesByte a off = .ok (SArr.byteOf (((absA a).drop off).take 8)) := by
  unfold toBytesByte
  -- every read is in range: the monadic loop is a pure fold
  have hpure : ∀ n, n ≤ 8 → ∀ acc, (List.range n).foldlM (fun theByte j => do
        let bit ← a.get (off + j)
        pure (if bit then theByte ||| (1 <<< (7 - j)) else theByte)) acc =
      .ok ((List.range n).foldl
        (fun tb j => if bitAt a.words (off + j) then tb ||| 1 <<< (7 - j) else tb) acc) := by
    intro n
    induction n with
    | zero => intro _ acc; rfl
    | succ n ih =>
      intro hn acc
      rw [List.range_succ, List.foldlM_append, ih (by omega), List.foldl_append]
      simp only [bind, Except.bind, List.foldlM_cons, List.foldlM_nil, pure, Except.pure,
        List.foldl_cons, List.foldl_nil]
      rw [get_eq_bitAt a (off + n) (h.idx (by omega))]
  rw [hpure 8 (Nat.le_refl _) 0]
  congr 1
  apply Nat.eq_of_testBit_eq
  intro k
  rw [byteLoop_testBit (fun j => bitAt a.words (off + j)) 8 (Nat.le_refl _) k]
  unfold SArr.byteOf
  rw [testBit_foldl_byte]
  have hlen : (((absA a).drop off).take 8).length = 8 := by
    rw [List.length_take, List.length_drop, absA_length]; omega
  by_cases c : k < 8
  · rw [dif_pos (by rw [hlen]; exact c)]
    have hg : (((absA a).drop off).take 8)[8 - 1 - k]? = some (bitAt a.words (off + (7 - k))) := by
      rw [List.getElem?_take, if_pos (by omega), List.getElem?_drop, absA_getElem?, if_pos (by omega)]
    have hlt : 8 - 1 - k < (((absA a).drop off).take 8).length := by rw [hlen]; omega
    rw [List.getElem?_eq_getElem hlt] at hg
    simp only [Option.some.injEq] at hg
    simp only [hlen]
    rw [hg]
    have c1 : 7 - k < 8 := by omega
    have c2 : k ≤ 7 := by omega
    simp [c1, c2]
  · rw [dif_neg (by rw [hlen]; exact c), Nat.zero_testBit]
    have c2 : ¬ k ≤ 7 := by omega
    simp [c2]

/-- `ToBytes(bitOffset, array, offset, numBytes)` with all bits and all bytes in range -/
theorem toBytes_refines (a : WArr) (bitOffset : Nat) (array : List Nat) (offset numBytes : Nat)
    (h : InvA a) (hbits : bitOffset + 8 * numBytes ≤ a.size) (harr : offset + numBytes ≤ array.length) :
    a.toBytes bitOffset array offset numBytes =
      .ok (SArr.toBytes (absA a) bitOffset array offset numBytes) := by
  unfold WArr.toBytes SArr.toBytes
  have hloop : ∀ n, n ≤ numBytes →
      (List.range n).foldlM (fun arr i => do
        let theByte ← toBytesByte a (bitOffset + 8 * i)
        if offset + i < arr.length then pure (arr.set (offset + i) theByte)
        else .error (.panic "index out of range")) array =
      .ok (array.take offset ++
        (List.range n).map (fun i => SArr.byteOf (((absA a).drop (bitOffset + 8 * i)).take 8)) ++
        array.drop (offset + n)) := by
    intro n
    induction n with
    | zero => intro _; simp [pure, Except.pure]
    | succ n ih =>
      intro hn
      rw [List.range_succ, List.foldlM_append, ih (by omega)]
      simp only [bind, Except.bind, List.foldlM_cons, List.foldlM_nil, pure, Except.pure]
      rw [toBytesByte_refines a (bitOffset + 8 * n) h (by omega)]
      simp only
      have hl : (array.take offset ++
          (List.range n).map (fun i => SArr.byteOf (((absA a).drop (bitOffset + 8 * i)).take 8)) ++
          array.drop (offset + n)).length = array.length := by
        simp only [List.length_append, List.length_take, List.length_map, List.length_range,
          List.length_drop]; omega
      rw [if_pos (by rw [hl]; omega)]
      simp only
      congr 1
      apply List.ext_getElem?
      intro k
      rw [List.getElem?_set, hl]
      simp only [List.map_append, List.map_cons, List.map_nil]
      rw [List.append_assoc, List.append_assoc, List.getElem?_append, List.getElem?_append,
        List.append_assoc, List.getElem?_append, List.getElem?_append, List.getElem?_append]
      simp only [List.length_take, List.length_map, List.length_range, List.length_cons,
        List.length_nil]
      have emin : min offset array.length = offset := by omega
      rw [emin]
      by_cases c0 : k < offset
      · simp [c0]; omega
      · by_cases c1 : k - offset < n
        · have : ¬ offset + n = k := by omega
          simp [c0, c1, this]
        · by_cases c2 : offset + n = k
          · have e : k - offset - n = 0 := by omega
            simp [c0, c1, c2, e]; omega
          · have c3 : ¬ k - offset - n < 0 + 1 := by omega
            simp only [c0, c1, c2, if_false, c3]
            rw [List.getElem?_drop, List.getElem?_drop]
            congr 1; omega
  exact hloop numBytes (Nat.le_refl _)

end WArr
end Gzx.Bits
